// Package pbt is the thin layer between rapid and the ./check driver: it pins the
// seed and case count from the environment, counts evaluations / distinct
// non-trivial cases / class labels, keeps literal samples, writes a replay file for
// the (shrunk) failing case and replays such files without rapid.
//
// Environment (all set by ./check):
//
//	VERIF_SEED    integer, the run's seed (0 is remapped)
//	VERIF_TIER    quick | thorough
//	VERIF_SHARD   i    VERIF_SHARDS n   (this process is shard i of n)
//	VERIF_STATS   file the statistics JSON is written to at exit
//	VERIF_FAILDIR directory receiving <test>.json replay files for failures
//	VERIF_REPLAY  replay file to run instead of generating (TestReplay)
//	VERIF_KF      path of KNOWN_FINDINGS.json
//	VERIF_SCALE   float multiplier on case counts (dev use)
package pbt

import (
	"encoding/binary"
	"encoding/json"
	"flag"
	"fmt"
	"hash/fnv"
	"os"
	"path/filepath"
	"runtime"
	"runtime/debug"
	"sort"
	"strconv"
	"strings"
	"sync"
	"testing"
	"time"

	"pgregory.net/rapid"
)

// Cfg describes one generated check inside a property package.
type Cfg struct {
	Name     string // unique inside the package; names the replay decoder too
	Quick    int    // total cases over all shards, quick tier
	Thorough int    // total cases over all shards, thorough tier
	Steps    int    // optional: rapid.steps for t.Repeat machines
}

// Run is the per-case handle given to a property.
type Run struct {
	T        *rapid.T
	cfg      *Cfg
	caseVal  any
	classes  []string
	nontriv  bool
	excluded []string
}

type stats struct {
	Property    string            `json:"property"`
	Evaluations int64             `json:"evaluations"`
	PerTest     map[string]int64  `json:"per_test"`
	NonTrivial  int64             `json:"nontrivial_evals"`
	Classes     map[string]int64  `json:"classes"`
	Excluded    map[string]int64  `json:"excluded_by_known_finding"`
	Samples     []json.RawMessage `json:"samples"`
	Failures    []failure         `json:"failures"`
	Notes       []string          `json:"notes"`
	Extra       map[string]any    `json:"extra"`
	HashesFile  string            `json:"hashes_file"`
	HashesCap   bool              `json:"hashes_capped"`
	Requested   map[string]int    `json:"requested"`
	Completed   map[string]bool   `json:"completed"`
}

type failure struct {
	Test   string `json:"test"`
	Replay string `json:"replay"`
	Msg    string `json:"msg"`
}

const hashCap = 400000

var (
	mu        sync.Mutex
	st        = stats{PerTest: map[string]int64{}, Classes: map[string]int64{}, Excluded: map[string]int64{}, Extra: map[string]any{}, Requested: map[string]int{}, Completed: map[string]bool{}}
	hashes    = map[uint64]struct{}{}
	sampleCls = map[string]int{}
	replayers = map[string]func(json.RawMessage) error{}
	known     map[string]string // key -> status
)

// Property sets the property id reported in the statistics.
func Property(id string) { st.Property = id }

// Tier returns "quick" or "thorough".
func Tier() string {
	if os.Getenv("VERIF_TIER") == "thorough" {
		return "thorough"
	}
	return "quick"
}

func envInt(name string, def int) int {
	if v, err := strconv.Atoi(os.Getenv(name)); err == nil {
		return v
	}
	return def
}

// Shard returns (index, count).
func Shard() (int, int) {
	n := envInt("VERIF_SHARDS", 1)
	if n < 1 {
		n = 1
	}
	return envInt("VERIF_SHARD", 0), n
}

// Seed returns the 64-bit seed for (VERIF_SEED, shard, name); never 0.
func Seed(name string) uint64 {
	base, _ := strconv.ParseUint(os.Getenv("VERIF_SEED"), 10, 64)
	i, _ := Shard()
	h := fnv.New64a()
	fmt.Fprintf(h, "%d/%d/%s", base, i, name)
	s := h.Sum64()
	if s == 0 {
		s = 0x9e3779b97f4a7c15
	}
	return s
}

// Count returns this shard's share of the case count for the tier.
func Count(quick, thorough int) int {
	n := quick
	if Tier() == "thorough" {
		n = thorough
	}
	if f, err := strconv.ParseFloat(os.Getenv("VERIF_SCALE"), 64); err == nil && f > 0 {
		n = int(float64(n) * f)
	}
	i, k := Shard()
	per := n / k
	if i < n%k {
		per++
	}
	if per < 1 {
		per = 1
	}
	return per
}

// Check runs prop under rapid with the seed and count derived from the environment.
func Check(t *testing.T, cfg Cfg, prop func(r *Run)) {
	t.Helper()
	if os.Getenv("VERIF_REPLAY") != "" {
		t.Skip("replay mode")
	}
	n := Count(cfg.Quick, cfg.Thorough)
	flag.Set("rapid.checks", strconv.Itoa(n))
	flag.Set("rapid.seed", strconv.FormatUint(Seed(cfg.Name), 10))
	flag.Set("rapid.nofailfile", "true")
	if cfg.Steps > 0 {
		flag.Set("rapid.steps", strconv.Itoa(cfg.Steps))
	}
	mu.Lock()
	st.Requested[cfg.Name] = n
	mu.Unlock()
	c := cfg
	rapid.Check(t, func(rt *rapid.T) {
		r := &Run{T: rt, cfg: &c}
		defer r.finish()
		prop(r)
	})
	mu.Lock()
	st.Completed[cfg.Name] = !t.Failed()
	mu.Unlock()
}

// Case registers the generated case (JSON-serialisable); it is what a replay file holds.  With
// VERIF_TRACK_CASE=1 the case is also written to <faildir>/inflight.<shard>.json while it runs, so that a
// process killed by the race detector or by a fatal runtime error leaves its input behind.
func (r *Run) Case(c any) {
	r.caseVal = c
	r.armWatchdog()
	if os.Getenv("VERIF_TRACK_CASE") == "1" {
		if dir := os.Getenv("VERIF_FAILDIR"); dir != "" {
			raw, _ := json.Marshal(c)
			doc := map[string]any{"property": st.Property, "test": r.cfg.Name, "case": json.RawMessage(raw), "msg": "the test process died while this case was running"}
			b, _ := json.Marshal(doc)
			i, _ := Shard()
			os.WriteFile(filepath.Join(dir, fmt.Sprintf("inflight.%d.json", i)), b, 0o644)
		}
	}
}

// Class adds a label to the class histogram.
func (r *Run) Class(label string) { r.classes = append(r.classes, label) }

// NonTrivial marks the case as non-trivial by the property's stated rule.
func (r *Run) NonTrivial() { r.nontriv = true }

// Excluded records that the case disagreed but lies in the class of an open known finding.
func (r *Run) Excluded(key string) { r.excluded = append(r.excluded, key) }

// Failf writes the replay file for the registered case and fails the rapid case.
func (r *Run) Failf(format string, a ...any) {
	msg := fmt.Sprintf(format, a...)
	writeReplay(r.cfg.Name, r.caseVal, msg)
	r.T.Fatalf("%s", msg)
}

// Watchdog: with VERIF_CASE_TIMEOUT_S=N a case that has not finished N seconds after it was registered is taken for a
// deadlock / livelock of the code under test: the case is left behind as the in-flight file, all goroutine stacks go
// to the log and the process exits with status 67 (the driver reports a violation with that case as the replay).
var (
	wdMu    sync.Mutex
	wdTimer *time.Timer
)

func (r *Run) armWatchdog() {
	n, err := strconv.Atoi(os.Getenv("VERIF_CASE_TIMEOUT_S"))
	if err != nil || n <= 0 {
		return
	}
	wdMu.Lock()
	defer wdMu.Unlock()
	if wdTimer != nil {
		wdTimer.Stop()
	}
	name, c := r.cfg.Name, r.caseVal
	wdTimer = time.AfterFunc(time.Duration(n)*time.Second, func() {
		msg := fmt.Sprintf("the case did not finish within %d s: deadlock or livelock (goroutine stacks in the shard log)", n)
		if dir := os.Getenv("VERIF_FAILDIR"); dir != "" {
			raw, _ := json.Marshal(c)
			doc := map[string]any{"property": st.Property, "test": name, "case": json.RawMessage(raw), "msg": msg}
			b, _ := json.Marshal(doc)
			i, _ := Shard()
			os.WriteFile(filepath.Join(dir, fmt.Sprintf("inflight.%d.json", i)), b, 0o644)
		}
		buf := make([]byte, 1<<20)
		buf = buf[:runtime.Stack(buf, true)]
		fmt.Fprintf(os.Stderr, "\nVERIF-WATCHDOG: %s\n%s\n", msg, buf)
		os.Exit(67)
	})
}

func disarmWatchdog() {
	wdMu.Lock()
	if wdTimer != nil {
		wdTimer.Stop()
		wdTimer = nil
	}
	wdMu.Unlock()
}

func (r *Run) finish() {
	disarmWatchdog()
	if p := recover(); p != nil {
		// rapid's own control-flow panics (Fatalf, Skip, invalid data) pass through
		if !isRapidPanic(p) {
			writeReplay(r.cfg.Name, r.caseVal, "panic: "+fmt.Sprint(p)+"\n"+string(debug.Stack()))
		}
		panic(p)
	}
	mu.Lock()
	defer mu.Unlock()
	st.Evaluations++
	st.PerTest[r.cfg.Name]++
	for _, c := range r.classes {
		st.Classes[r.cfg.Name+"/"+c]++
	}
	for _, k := range r.excluded {
		st.Excluded[k]++
	}
	if r.nontriv {
		st.NonTrivial++
		var raw []byte
		if r.caseVal != nil {
			raw, _ = json.Marshal(r.caseVal)
		}
		h := fnv.New64a()
		h.Write([]byte(r.cfg.Name))
		h.Write(raw)
		if len(hashes) < hashCap {
			hashes[h.Sum64()] = struct{}{}
		} else {
			st.HashesCap = true
		}
		key := r.cfg.Name
		if len(r.classes) > 0 {
			key += "/" + r.classes[0]
		}
		if raw != nil && sampleCls[key] < 1 && len(st.Samples) < 12 && len(raw) < 6000 {
			sampleCls[key]++
			st.Samples = append(st.Samples, json.RawMessage(fmt.Sprintf(`{"test":%q,"classes":%s,"case":%s}`, r.cfg.Name, mustJSON(r.classes), raw)))
		}
	}
}

func mustJSON(v any) string { b, _ := json.Marshal(v); return string(b) }

// rapid signals test failure / invalid data with its own panic types; they live in an
// unexported type, recognisable by the package path in %T.
func isRapidPanic(p any) bool {
	return strings.HasPrefix(fmt.Sprintf("%T", p), "rapid.") || strings.HasPrefix(fmt.Sprintf("%T", p), "*rapid.")
}

func writeReplay(test string, c any, msg string) {
	dir := os.Getenv("VERIF_FAILDIR")
	if dir == "" {
		return
	}
	raw, err := json.Marshal(c)
	if err != nil {
		raw = []byte("null")
	}
	doc := map[string]any{"property": st.Property, "test": test, "case": json.RawMessage(raw), "msg": msg}
	b, _ := json.MarshalIndent(doc, "", " ")
	i, _ := Shard()
	fn := filepath.Join(dir, fmt.Sprintf("%s.%d.json", test, i))
	os.WriteFile(fn, b, 0o644)
	mu.Lock()
	found := false
	for k := range st.Failures {
		if st.Failures[k].Test == test {
			st.Failures[k].Msg = firstLine(msg)
			found = true
		}
	}
	if !found {
		st.Failures = append(st.Failures, failure{Test: test, Replay: fn, Msg: firstLine(msg)})
	}
	mu.Unlock()
}

func firstLine(s string) string {
	if i := strings.IndexByte(s, '\n'); i >= 0 {
		s = s[:i]
	}
	if len(s) > 400 {
		s = s[:400]
	}
	return s
}

// Direct is for checks that do not go through rapid (exhaustive enumerations, subprocess
// campaigns): it returns a handle with the same counting interface.
type Direct struct {
	Name string
}

// Eval counts one evaluation; nontrivial cases are hashed from key.
func (d Direct) Eval(class string, nontrivial bool, key string, sample any) {
	mu.Lock()
	defer mu.Unlock()
	st.Evaluations++
	st.PerTest[d.Name]++
	if class != "" {
		st.Classes[d.Name+"/"+class]++
	}
	if nontrivial {
		st.NonTrivial++
		h := fnv.New64a()
		h.Write([]byte(d.Name))
		h.Write([]byte(key))
		if len(hashes) < hashCap {
			hashes[h.Sum64()] = struct{}{}
		} else {
			st.HashesCap = true
		}
		k := d.Name + "/" + class
		if sample != nil && sampleCls[k] < 1 && len(st.Samples) < 12 {
			if raw, err := json.Marshal(sample); err == nil && len(raw) < 6000 {
				sampleCls[k]++
				st.Samples = append(st.Samples, json.RawMessage(fmt.Sprintf(`{"test":%q,"classes":[%q],"case":%s}`, d.Name, class, raw)))
			}
		}
	}
}

// Excluded counts a disagreement inside an open known finding's class.
func (d Direct) Excluded(key string) {
	mu.Lock()
	st.Excluded[key]++
	mu.Unlock()
}

// Fail records a failure with its replay case and marks the Go test failed.
func (d Direct) Fail(t testing.TB, c any, format string, a ...any) {
	msg := fmt.Sprintf(format, a...)
	writeReplay(d.Name, c, msg)
	t.Errorf("%s", msg)
}

// FuzzFail is Failf for native fuzz targets: the replay file is written by the worker process.
func FuzzFail(t testing.TB, test string, c any, format string, a ...any) {
	msg := fmt.Sprintf(format, a...)
	writeReplay(test, c, msg)
	t.Fatalf("%s", msg)
}

// Note adds a free-text note to the statistics (shown in the evidence).
func Note(format string, a ...any) {
	mu.Lock()
	st.Notes = append(st.Notes, fmt.Sprintf(format, a...))
	mu.Unlock()
}

// Extra stores a named value in the statistics.
func Extra(key string, v any) {
	mu.Lock()
	st.Extra[key] = v
	mu.Unlock()
}

// AddExtra adds n to a named counter in the statistics.
func AddExtra(key string, n int64) {
	mu.Lock()
	cur, _ := st.Extra[key].(int64)
	st.Extra[key] = cur + n
	mu.Unlock()
}

// RegisterReplay installs the decoder+oracle for replay files of a test name.
func RegisterReplay(test string, f func(raw json.RawMessage) error) { replayers[test] = f }

// FindingOpen reports whether KNOWN_FINDINGS.json lists key with status "open".
func FindingOpen(key string) bool {
	loadKnown()
	return known[key] == "open"
}

func loadKnown() {
	if known != nil {
		return
	}
	known = map[string]string{}
	fn := os.Getenv("VERIF_KF")
	if fn == "" {
		fn = "/verif/KNOWN_FINDINGS.json"
	}
	type ent struct {
		Key    string `json:"key"`
		Status string `json:"status"`
	}
	if b, err := os.ReadFile(fn); err == nil {
		var doc struct {
			Findings []ent `json:"findings"`
		}
		if json.Unmarshal(b, &doc) == nil {
			for _, f := range doc.Findings {
				known[f.Key] = f.Status
			}
		}
	}
	// single-entry files next to the main file: findings/*.entry.json
	if fs, err := filepath.Glob(filepath.Join(filepath.Dir(fn), "findings", "*.entry.json")); err == nil {
		for _, f := range fs {
			if b, err := os.ReadFile(f); err == nil {
				var e ent
				if json.Unmarshal(b, &e) == nil && e.Key != "" {
					known[e.Key] = e.Status
				}
			}
		}
	}
}

// Main is called from TestMain: runs the tests (or the replay) and writes the statistics.
func Main(m *testing.M, property string) {
	Property(property)
	flag.Parse()
	if fn := os.Getenv("VERIF_REPLAY"); fn != "" {
		os.Exit(runReplay(fn))
	}
	code := m.Run()
	writeStats()
	os.Exit(code)
}

func runReplay(fn string) int {
	b, err := os.ReadFile(fn)
	if err != nil {
		fmt.Println("replay: cannot read", fn, err)
		return 2
	}
	var doc struct {
		Property string          `json:"property"`
		Test     string          `json:"test"`
		Case     json.RawMessage `json:"case"`
	}
	if err := json.Unmarshal(b, &doc); err != nil {
		fmt.Println("replay: bad file", err)
		return 2
	}
	f := replayers[doc.Test]
	if f == nil {
		fmt.Println("replay: no decoder for test", doc.Test)
		return 2
	}
	var rerr error
	func() {
		defer func() {
			if p := recover(); p != nil {
				rerr = fmt.Errorf("panic: %v\n%s", p, debug.Stack())
			}
		}()
		rerr = f(doc.Case)
	}()
	if rerr != nil {
		fmt.Printf("REPLAY-FAIL test=%s: %s\n", doc.Test, firstLine(rerr.Error()))
		return 1
	}
	fmt.Printf("REPLAY-PASS test=%s\n", doc.Test)
	return 0
}

func writeStats() {
	fn := os.Getenv("VERIF_STATS")
	if fn == "" {
		return
	}
	mu.Lock()
	defer mu.Unlock()
	hs := make([]uint64, 0, len(hashes))
	for h := range hashes {
		hs = append(hs, h)
	}
	sort.Slice(hs, func(i, j int) bool { return hs[i] < hs[j] })
	buf := make([]byte, 8*len(hs))
	for i, h := range hs {
		binary.LittleEndian.PutUint64(buf[8*i:], h)
	}
	st.HashesFile = fn + ".hashes"
	os.WriteFile(st.HashesFile, buf, 0o644)
	b, _ := json.Marshal(&st)
	os.WriteFile(fn, b, 0o644)
}
