package hd

import "testing"

// whole-string NFKD vectors computed with python3 unicodedata.normalize("NFKD", s) (Unicode 14.0.0)
var nfkdVectors = [][2]string{
	{"\u0054\u0052\u0045\u005A\u004F\u0052", "\u0054\u0052\u0045\u005A\u004F\u0052"},
	{"\u00E9", "\u0065\u0301"},
	{"\u0070\u00E4\u0073\u0073\u0077\u00F6\u0072\u0064", "\u0070\u0061\u0308\u0073\u0073\u0077\u006F\u0308\u0072\u0064"},
	{"\u01D6\u1EC7", "\u0075\u0308\u0304\u0065\u0323\u0302"},
	{"\uFB01\u00B2\u00BD", "\u0066\u0069\u0032\u0031\u2044\u0032"},
	{"\u03A9\uFF76\uFF21\u338F", "\u03A9\u30AB\u0041\u006B\u0067"},
	{"\uD55C\u304C", "\u1112\u1161\u11AB\u304B\u3099"},
	{"\u0439\u0451", "\u0438\u0306\u0435\u0308"},
	{"\u0020\u3000\u0078\u0020\u0020", "\u0020\u0020\u0078\u0020\u0020"},
	{"\u017F\u2122\u00C5\u00E5", "\u0073\u0054\u004D\u0041\u030A\u0061\u030A"},
	{"\u65E5\u672C\u8A9E\u00E9", "\u65E5\u672C\u8A9E\u0065\u0301"},
	{"\u00E7\U0001F511\u00F1", "\u0063\u0327\U0001F511\u006E\u0303"},
	{"\u30D1\u30B9\u30EF\u30FC\u30C9", "\u30CF\u309A\u30B9\u30EF\u30FC\u30C8\u3099"},
	{"\u00DF\u65E5\u672C\u043F\u0430\u0440\u043E\u043B\u044C", "\u00DF\u65E5\u672C\u043F\u0430\u0440\u043E\u043B\u044C"},
}

func TestNFKD(t *testing.T) {
	for _, v := range nfkdVectors {
		got, ok := NFKD(v[0])
		if !ok || got != v[1] {
			t.Errorf("NFKD(%+q) = %+q (%v), want %+q", v[0], got, ok, v[1])
		}
	}
	for r, d := range nfkdMap {
		if string(r) == d || nfkdStable[r] {
			t.Errorf("table: %U listed as changed and unchanged", r)
		}
		for _, x := range d { // idempotence: the decomposition is built from stable characters only
			if x >= 0x80 && nfkdMap[x] != "" {
				t.Errorf("table: decomposition of %U contains %U which decomposes further", r, x)
			}
		}
	}
	for _, bad := range []string{"\u00EA", "\u2126", "\xff", "a\u0301\u00EA"} {
		if _, ok := NFKD(bad); ok {
			t.Errorf("NFKD(%+q) should be refused (character not listed)", bad)
		}
	}
	if !NFKDStable("TREZOR \u00DF") || NFKDStable("\u00E9") {
		t.Error("NFKDStable")
	}
	// BIP39: the seed of a passphrase does not depend on whether it is typed composed or decomposed
	a, ok1 := SeedNFKD(trezorVectors[0][1], "p\u00E4ss")
	b, ok2 := SeedNFKD(trezorVectors[0][1], "pa\u0308ss")
	_ = b
	if !ok1 || ok2 { // the bare combining mark U+0308 is not listed, so the decomposed input is refused rather than guessed
		t.Error("SeedNFKD domain")
	}
	if string(a) != string(Seed(trezorVectors[0][1], "pa\u0308ss")) {
		t.Error("SeedNFKD does not normalise")
	}
}
