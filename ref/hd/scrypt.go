package hd

import (
	"crypto/hmac"
	"crypto/sha256"
	"encoding/binary"
	"math/bits"
)

// scrypt (RFC 7914), written from the RFC's pseudo code; used only because the wallet offers it as an
// optional password-stretching step in front of the seed.  Self-tested on the RFC's vectors.

// PBKDF2SHA256 is PBKDF2 (RFC 8018 §5.2) with HMAC-SHA256.
func PBKDF2SHA256(password, salt []byte, iterations, dkLen int) []byte {
	prf := func(data []byte) []byte {
		m := hmac.New(sha256.New, password)
		m.Write(data)
		return m.Sum(nil)
	}
	var dk []byte
	for i := 1; len(dk) < dkLen; i++ {
		u := prf(append(append([]byte{}, salt...), byte(i>>24), byte(i>>16), byte(i>>8), byte(i)))
		t := append([]byte{}, u...)
		for j := 2; j <= iterations; j++ {
			u = prf(u)
			for x := range t {
				t[x] ^= u[x]
			}
		}
		dk = append(dk, t...)
	}
	return dk[:dkLen]
}

// salsa208 is the Salsa20/8 core on a 64-byte block (RFC 7914 §3).
func salsa208(in []byte) []byte {
	var x, w [16]uint32
	for i := range w {
		w[i] = binary.LittleEndian.Uint32(in[4*i:])
		x[i] = w[i]
	}
	R := bits.RotateLeft32
	for i := 8; i > 0; i -= 2 {
		x[4] ^= R(x[0]+x[12], 7)
		x[8] ^= R(x[4]+x[0], 9)
		x[12] ^= R(x[8]+x[4], 13)
		x[0] ^= R(x[12]+x[8], 18)
		x[9] ^= R(x[5]+x[1], 7)
		x[13] ^= R(x[9]+x[5], 9)
		x[1] ^= R(x[13]+x[9], 13)
		x[5] ^= R(x[1]+x[13], 18)
		x[14] ^= R(x[10]+x[6], 7)
		x[2] ^= R(x[14]+x[10], 9)
		x[6] ^= R(x[2]+x[14], 13)
		x[10] ^= R(x[6]+x[2], 18)
		x[3] ^= R(x[15]+x[11], 7)
		x[7] ^= R(x[3]+x[15], 9)
		x[11] ^= R(x[7]+x[3], 13)
		x[15] ^= R(x[11]+x[7], 18)
		x[1] ^= R(x[0]+x[3], 7)
		x[2] ^= R(x[1]+x[0], 9)
		x[3] ^= R(x[2]+x[1], 13)
		x[0] ^= R(x[3]+x[2], 18)
		x[6] ^= R(x[5]+x[4], 7)
		x[7] ^= R(x[6]+x[5], 9)
		x[4] ^= R(x[7]+x[6], 13)
		x[5] ^= R(x[4]+x[7], 18)
		x[11] ^= R(x[10]+x[9], 7)
		x[8] ^= R(x[11]+x[10], 9)
		x[9] ^= R(x[8]+x[11], 13)
		x[10] ^= R(x[9]+x[8], 18)
		x[12] ^= R(x[15]+x[14], 7)
		x[13] ^= R(x[12]+x[15], 9)
		x[14] ^= R(x[13]+x[12], 13)
		x[15] ^= R(x[14]+x[13], 18)
	}
	out := make([]byte, 64)
	for i := range x {
		binary.LittleEndian.PutUint32(out[4*i:], x[i]+w[i])
	}
	return out
}

// blockMix is scryptBlockMix (RFC 7914 §4) on 2r 64-byte blocks.
func blockMix(b []byte, r int) []byte {
	x := append([]byte{}, b[(2*r-1)*64:]...)
	y := make([][]byte, 2*r)
	for i := 0; i < 2*r; i++ {
		t := make([]byte, 64)
		for k := range t {
			t[k] = x[k] ^ b[i*64+k]
		}
		x = salsa208(t)
		y[i] = x
	}
	var out []byte
	for i := 0; i < 2*r; i += 2 {
		out = append(out, y[i]...)
	}
	for i := 1; i < 2*r; i += 2 {
		out = append(out, y[i]...)
	}
	return out
}

// roMix is scryptROMix (RFC 7914 §5).
func roMix(b []byte, r, n int) []byte {
	x := append([]byte{}, b...)
	v := make([][]byte, n)
	for i := 0; i < n; i++ {
		v[i] = x
		x = blockMix(x, r)
	}
	for i := 0; i < n; i++ {
		j := int(binary.LittleEndian.Uint64(x[(2*r-1)*64:]) % uint64(n))
		t := make([]byte, len(x))
		for k := range t {
			t[k] = x[k] ^ v[j][k]
		}
		x = blockMix(t, r)
	}
	return x
}

// Scrypt is the scrypt function of RFC 7914 §6 (N a power of two > 1).
func Scrypt(password, salt []byte, n, r, p, dkLen int) []byte {
	b := PBKDF2SHA256(password, salt, 1, p*128*r)
	for i := 0; i < p; i++ {
		copy(b[i*128*r:], roMix(b[i*128*r:(i+1)*128*r], r, n))
	}
	return PBKDF2SHA256(password, b, 1, dkLen)
}
