// Package hd is an independent reference for BIP32 (hierarchical deterministic keys, with the
// SLIP-132 version prefixes) and BIP39 (mnemonic sentences, seed derivation with an own
// PBKDF2-HMAC-SHA512), plus RIPEMD-160 written from its specification.  It is written from the BIP
// texts, uses math/big through ref/ec for all curve arithmetic and imports nothing from gocoin.
//
// Validation (hd_test.go): RIPEMD-160 on the nine strings of the RIPEMD-160 paper; BIP32 test vectors 1,
// 2 and 3 (every listed xpub/xprv string, private and public derivation) and the invalid-key rules of
// vector 5 rebuilt from a valid key; the SLIP-132 versions by the four-letter Base58 prefix they produce;
// the three address forms of the generator point's key; BIP39 on the 24 Trezor vectors reproduced in the
// repository's lib/others/bip39/bip39_test.go (entropy -> mnemonic -> seed with passphrase "TREZOR") and
// the invalid sentences listed there; PBKDF2-HMAC-SHA512 on a published vector and its block structure;
// scrypt (scrypt.go, the wallet's optional password stretching) on RFC 7914's vectors.  The English word
// list (english.txt, embedded) is accepted only if SHA-256(file) equals the value pinned in DESIGN.md §3.
package hd

import (
	"bytes"
	"crypto/hmac"
	"crypto/sha512"
	"encoding/binary"
	"errors"
	"math/big"
	"strings"

	"verif/ref/addr"
	"verif/ref/ec"
)

// Version prefixes: BIP32 (xprv/xpub, tprv/tpub) and SLIP-132 (y/z/u/v).
const (
	VerXprv = uint32(0x0488ADE4)
	VerXpub = uint32(0x0488B21E)
	VerYprv = uint32(0x049D7878)
	VerYpub = uint32(0x049D7CB2)
	VerZprv = uint32(0x04B2430C)
	VerZpub = uint32(0x04B24746)
	VerTprv = uint32(0x04358394)
	VerTpub = uint32(0x043587CF)
	VerUprv = uint32(0x044A4E28)
	VerUpub = uint32(0x044A5262)
	VerVprv = uint32(0x045F18BC)
	VerVpub = uint32(0x045F1CF6)
)

// privToPub maps every private version to its public counterpart.
var privToPub = map[uint32]uint32{
	VerXprv: VerXpub, VerYprv: VerYpub, VerZprv: VerZpub,
	VerTprv: VerTpub, VerUprv: VerUpub, VerVprv: VerVpub,
}

// PrivateVersions / PublicVersions list the twelve known prefixes in a fixed order.
var PrivateVersions = []uint32{VerXprv, VerYprv, VerZprv, VerTprv, VerUprv, VerVprv}
var PublicVersions = []uint32{VerXpub, VerYpub, VerZpub, VerTpub, VerUpub, VerVpub}

// IsPrivateVersion / IsPublicVersion classify a version prefix.
func IsPrivateVersion(v uint32) bool { _, ok := privToPub[v]; return ok }
func IsPublicVersion(v uint32) bool {
	for _, p := range privToPub {
		if p == v {
			return true
		}
	}
	return false
}

// PublicVersionOf returns the public prefix belonging to a private one (identity on public ones).
func PublicVersionOf(v uint32) uint32 {
	if p, ok := privToPub[v]; ok {
		return p
	}
	return v
}

// IsTestnetVersion: the t/u/v families.
func IsTestnetVersion(v uint32) bool {
	switch v {
	case VerTprv, VerTpub, VerUprv, VerUpub, VerVprv, VerVpub:
		return true
	}
	return false
}

// Hardened is the first hardened child index.
const Hardened = uint32(0x80000000)

// ExtKey is a BIP32 extended key.  Key holds the 33 bytes that are serialised: 0x00‖ser256(k) for a
// private key, serP(K) for a public key.
type ExtKey struct {
	Version   uint32
	Depth     byte
	ParentFP  [4]byte
	Index     uint32
	ChainCode []byte // 32 bytes
	Key       []byte // 33 bytes

	pubCache []byte // serP(point(k)) of a private key, computed once (the reference point multiplication is slow)
}

var (
	ErrInvalidKey     = errors.New("hd: derived key is invalid (I_L >= n, k = 0, or point at infinity)")
	ErrHardenedPublic = errors.New("hd: hardened child of a public key")
	ErrSeedLength     = errors.New("hd: seed must be 128..512 bits")
)

func hmac512(key []byte, data ...[]byte) []byte {
	m := hmac.New(sha512.New, key)
	for _, d := range data {
		m.Write(d)
	}
	return m.Sum(nil)
}

func ser32(i uint32) []byte { var b [4]byte; binary.BigEndian.PutUint32(b[:], i); return b[:] }

// Master is BIP32's master key generation: I = HMAC-SHA512("Bitcoin seed", S); k = I_L, c = I_R.
// The BIP asks for a seed of 128..512 bits; MasterAnyLength lifts that restriction (the function itself
// is defined for any byte string).
func Master(seed []byte, version uint32) (*ExtKey, error) {
	if len(seed) < 16 || len(seed) > 64 {
		return nil, ErrSeedLength
	}
	return MasterAnyLength(seed, version)
}

func MasterAnyLength(seed []byte, version uint32) (*ExtKey, error) {
	I := hmac512([]byte("Bitcoin seed"), seed)
	k := new(big.Int).SetBytes(I[:32])
	if k.Sign() == 0 || k.Cmp(ec.N) >= 0 {
		return nil, ErrInvalidKey
	}
	return &ExtKey{Version: version, ChainCode: I[32:], Key: append([]byte{0}, I[:32]...)}, nil
}

// IsPrivate tells whether the key material is a private key.
func (k *ExtKey) IsPrivate() bool { return IsPrivateVersion(k.Version) }

// PrivKey returns ser256(k) (32 bytes) of a private extended key.
func (k *ExtKey) PrivKey() []byte { return append([]byte{}, k.Key[1:]...) }

// PubKey returns serP(point(k)) resp. serP(K): the 33-byte compressed public key.
func (k *ExtKey) PubKey() []byte {
	if k.IsPrivate() {
		if k.pubCache == nil {
			k.pubCache = ec.SerializeCompressed(ec.BaseMul(new(big.Int).SetBytes(k.Key[1:])))
		}
		return append([]byte{}, k.pubCache...)
	}
	return append([]byte{}, k.Key...)
}

// Fingerprint is the first 32 bits of HASH160(serP(K)).
func (k *ExtKey) Fingerprint() (fp [4]byte) {
	copy(fp[:], Hash160(k.PubKey()))
	return
}

// Child is CKDpriv for private parents and CKDpub for public parents.
func (k *ExtKey) Child(i uint32) (*ExtKey, error) {
	c := &ExtKey{Version: k.Version, Depth: k.Depth + 1, ParentFP: k.Fingerprint(), Index: i}
	if k.IsPrivate() {
		var I []byte
		if i >= Hardened {
			// I = HMAC-SHA512(c_par, 0x00 ‖ ser256(k_par) ‖ ser32(i))
			I = hmac512(k.ChainCode, []byte{0}, k.Key[1:], ser32(i))
		} else {
			// I = HMAC-SHA512(c_par, serP(point(k_par)) ‖ ser32(i))
			I = hmac512(k.ChainCode, k.PubKey(), ser32(i))
		}
		il := new(big.Int).SetBytes(I[:32])
		if il.Cmp(ec.N) >= 0 {
			return nil, ErrInvalidKey
		}
		ki := new(big.Int).Add(il, new(big.Int).SetBytes(k.Key[1:]))
		ki.Mod(ki, ec.N)
		if ki.Sign() == 0 {
			return nil, ErrInvalidKey
		}
		c.Key = append([]byte{0}, ec.Bytes32(ki)...)
		c.ChainCode = I[32:]
		return c, nil
	}
	if i >= Hardened {
		return nil, ErrHardenedPublic
	}
	// I = HMAC-SHA512(c_par, serP(K_par) ‖ ser32(i));  K_i = point(I_L) + K_par
	I := hmac512(k.ChainCode, k.Key, ser32(i))
	il := new(big.Int).SetBytes(I[:32])
	if il.Cmp(ec.N) >= 0 {
		return nil, ErrInvalidKey
	}
	par, ok := ec.ParsePubKey(k.Key)
	if !ok {
		return nil, ErrInvalidKey
	}
	pt := ec.Add(ec.BaseMul(il), par)
	if pt.Inf {
		return nil, ErrInvalidKey
	}
	c.Key = ec.SerializeCompressed(pt)
	c.ChainCode = I[32:]
	return c, nil
}

// Derive walks a path of child indexes.
func (k *ExtKey) Derive(path []uint32) (*ExtKey, error) {
	cur := k
	for _, i := range path {
		var err error
		if cur, err = cur.Child(i); err != nil {
			return nil, err
		}
	}
	return cur, nil
}

// Neuter is N((k, c)) = (point(k), c) with the public version of the same family.
func (k *ExtKey) Neuter() *ExtKey {
	return &ExtKey{Version: PublicVersionOf(k.Version), Depth: k.Depth, ParentFP: k.ParentFP, Index: k.Index,
		ChainCode: append([]byte{}, k.ChainCode...), Key: k.PubKey()}
}

// Serialize is the 78-byte structure: version ‖ depth ‖ parent fingerprint ‖ child number ‖ chain code ‖ key.
func (k *ExtKey) Serialize() []byte {
	var b bytes.Buffer
	b.Write(ser32(k.Version))
	b.WriteByte(k.Depth)
	b.Write(k.ParentFP[:])
	b.Write(ser32(k.Index))
	b.Write(k.ChainCode)
	b.Write(k.Key)
	return b.Bytes()
}

// String is the Base58Check form (78 bytes + 4 checksum bytes).
func (k *ExtKey) String() string { return addr.Base58CheckEncode(k.Serialize()) }

// Parse decodes and validates an extended key string as BIP32 prescribes for import: checksum, length,
// known version, key data matching the version (0x00 prefix and 1 <= k < n for private keys; a valid
// compressed point for public keys), and the depth-0 constraints (zero parent fingerprint and index).
func Parse(s string) (*ExtKey, error) {
	pl, ok := addr.Base58CheckDecode(s)
	if !ok {
		return nil, errors.New("hd: bad Base58Check")
	}
	if len(pl) != 78 {
		return nil, errors.New("hd: bad length")
	}
	k := &ExtKey{Version: binary.BigEndian.Uint32(pl[:4]), Depth: pl[4], Index: binary.BigEndian.Uint32(pl[9:13]),
		ChainCode: append([]byte{}, pl[13:45]...), Key: append([]byte{}, pl[45:78]...)}
	copy(k.ParentFP[:], pl[5:9])
	switch {
	case IsPrivateVersion(k.Version):
		d := new(big.Int).SetBytes(k.Key[1:])
		if k.Key[0] != 0 || d.Sign() == 0 || d.Cmp(ec.N) >= 0 {
			return nil, errors.New("hd: invalid private key data")
		}
	case IsPublicVersion(k.Version):
		if k.Key[0] != 2 && k.Key[0] != 3 {
			return nil, errors.New("hd: invalid public key prefix")
		}
		if _, ok := ec.ParsePubKey(k.Key); !ok {
			return nil, errors.New("hd: public key not on the curve")
		}
	default:
		return nil, errors.New("hd: unknown version")
	}
	if k.Depth == 0 && (k.ParentFP != [4]byte{} || k.Index != 0) {
		return nil, errors.New("hd: depth 0 with parent fingerprint or index")
	}
	return k, nil
}

// Address forms of a compressed public key ------------------------------------------------------

// P2PKHScript, P2WPKHScript, P2SHP2WPKHScript: the standard single-key output scripts.
func P2PKHScript(pub []byte) []byte {
	return append(append([]byte{0x76, 0xa9, 20}, Hash160(pub)...), 0x88, 0xac)
}
func P2WPKHScript(pub []byte) []byte { return append([]byte{0, 20}, Hash160(pub)...) }
func P2SHP2WPKHScript(pub []byte) []byte {
	return append(append([]byte{0xa9, 20}, Hash160(P2WPKHScript(pub))...), 0x87)
}

// P2PKHAddr etc. encode those scripts for main net / test net.
func P2PKHAddr(pub []byte, testnet bool) string {
	v := byte(0)
	if testnet {
		v = 111
	}
	return addr.Base58CheckEncode(append([]byte{v}, Hash160(pub)...))
}
func P2SHP2WPKHAddr(pub []byte, testnet bool) string {
	v := byte(5)
	if testnet {
		v = 196
	}
	return addr.Base58CheckEncode(append([]byte{v}, Hash160(P2WPKHScript(pub))...))
}
func P2WPKHAddr(pub []byte, testnet bool) string {
	hrp := "bc"
	if testnet {
		hrp = "tb"
	}
	return addr.SegwitEncode(hrp, 0, Hash160(pub))
}

// SLIP132Addr is the address form a SLIP-132 version prefix stands for: x/t P2PKH, y/u P2SH-P2WPKH,
// z/v P2WPKH.
func (k *ExtKey) SLIP132Addr() string {
	tn := IsTestnetVersion(k.Version)
	switch k.Version {
	case VerYprv, VerYpub, VerUprv, VerUpub:
		return P2SHP2WPKHAddr(k.PubKey(), tn)
	case VerZprv, VerZpub, VerVprv, VerVpub:
		return P2WPKHAddr(k.PubKey(), tn)
	}
	return P2PKHAddr(k.PubKey(), tn)
}

// ParsePath reads a derivation path in BIP32 notation under the decimal reading: "m", then for every element
// "/" followed by a decimal integer (digits 0-9; leading zeros and one sign are tolerated as long as the VALUE is
// an integer 0 <= n < 2^31) and optionally one hardened marker (', h or H).  Everything else - other number bases
// (0x.., 0o.., 0b..), digit separators, white space, empty elements, a capital M, values outside the range - is
// "not a path".  The result is the list of child numbers (hardened ones with the top bit set).
func ParsePath(s string) ([]uint32, error) {
	els := strings.Split(s, "/")
	if els[0] != "m" {
		return nil, errors.New("hd: a path starts with m")
	}
	var path []uint32
	for _, e := range els[1:] {
		hardened := false
		if n := len(e); n > 0 && (e[n-1] == '\'' || e[n-1] == 'h' || e[n-1] == 'H') {
			hardened = true
			e = e[:n-1]
		}
		neg := false
		if len(e) > 0 && (e[0] == '+' || e[0] == '-') {
			neg = e[0] == '-'
			e = e[1:]
		}
		if e == "" {
			return nil, errors.New("hd: empty path element")
		}
		v := new(big.Int)
		for _, c := range []byte(e) {
			if c < '0' || c > '9' {
				return nil, errors.New("hd: path element is not a decimal number")
			}
			v.Mul(v, big.NewInt(10)).Add(v, big.NewInt(int64(c-'0')))
		}
		if v.Sign() != 0 && neg || v.Cmp(big.NewInt(1<<31)) >= 0 {
			return nil, errors.New("hd: path element out of range")
		}
		i := uint32(v.Uint64())
		if hardened {
			i |= Hardened
		}
		path = append(path, i)
	}
	return path, nil
}
