package hd

import (
	"bytes"
	"encoding/hex"
	"strings"
	"testing"
)

func TestRIPEMD160(t *testing.T) {
	// test strings of the RIPEMD-160 paper / ISO/IEC 10118-3
	vec := [][2]string{
		{"", "9c1185a5c5e9fc54612808977ee8f548b2258d31"},
		{"a", "0bdc9d2d256b3ee9daae347be6f4dc835a467ffe"},
		{"abc", "8eb208f7e05d987a9b044a8e98c6b087f15a0bfc"},
		{"message digest", "5d0689ef49d2fae572b881b123a85ffa21595f36"},
		{"abcdefghijklmnopqrstuvwxyz", "f71c27109c692c1b56bbdceb5b9d2865b3708dbc"},
		{"abcdbcdecdefdefgefghfghighijhijkijkljklmklmnlmnomnopnopq", "12a053384a9c0c88e405a06c27dcf49ada62eb2b"},
		{"ABCDEFGHIJKLMNOPQRSTUVWXYZabcdefghijklmnopqrstuvwxyz0123456789", "b0e20b6e3116640286ed3a87a5713079b21f5189"},
		{strings.Repeat("1234567890", 8), "9b752e45573d4b39f4dbd3323cab82bf63326bfb"},
		{strings.Repeat("a", 1000000), "52783243c1697bdbe16d37f97f68f08325dc1528"},
	}
	for _, v := range vec {
		if got := hex.EncodeToString(RIPEMD160([]byte(v[0]))); got != v[1] {
			t.Errorf("RIPEMD160(%.20q...) = %s, want %s", v[0], got, v[1])
		}
	}
}

type step struct {
	index      uint32
	xpub, xprv string
}

// BIP32 test vectors 1 and 2 as reproduced in /repo/lib/btc/wallethd_test.go (they are the BIP's data),
// vector 3 (leading zeros) from the BIP text.
var bip32Vectors = []struct {
	seed  string
	steps []step // steps[0] is the master key
}{
	{"000102030405060708090a0b0c0d0e0f", []step{
		{0, "xpub661MyMwAqRbcFtXgS5sYJABqqG9YLmC4Q1Rdap9gSE8NqtwybGhePY2gZ29ESFjqJoCu1Rupje8YtGqsefD265TMg7usUDFdp6W1EGMcet8", "xprv9s21ZrQH143K3QTDL4LXw2F7HEK3wJUD2nW2nRk4stbPy6cq3jPPqjiChkVvvNKmPGJxWUtg6LnF5kejMRNNU3TGtRBeJgk33yuGBxrMPHi"},
		{Hardened + 0, "xpub68Gmy5EdvgibQVfPdqkBBCHxA5htiqg55crXYuXoQRKfDBFA1WEjWgP6LHhwBZeNK1VTsfTFUHCdrfp1bgwQ9xv5ski8PX9rL2dZXvgGDnw", "xprv9uHRZZhk6KAJC1avXpDAp4MDc3sQKNxDiPvvkX8Br5ngLNv1TxvUxt4cV1rGL5hj6KCesnDYUhd7oWgT11eZG7XnxHrnYeSvkzY7d2bhkJ7"},
		{1, "xpub6ASuArnXKPbfEwhqN6e3mwBcDTgzisQN1wXN9BJcM47sSikHjJf3UFHKkNAWbWMiGj7Wf5uMash7SyYq527Hqck2AxYysAA7xmALppuCkwQ", "xprv9wTYmMFdV23N2TdNG573QoEsfRrWKQgWeibmLntzniatZvR9BmLnvSxqu53Kw1UmYPxLgboyZQaXwTCg8MSY3H2EU4pWcQDnRnrVA1xe8fs"},
		{Hardened + 2, "xpub6D4BDPcP2GT577Vvch3R8wDkScZWzQzMMUm3PWbmWvVJrZwQY4VUNgqFJPMM3No2dFDFGTsxxpG5uJh7n7epu4trkrX7x7DogT5Uv6fcLW5", "xprv9z4pot5VBttmtdRTWfWQmoH1taj2axGVzFqSb8C9xaxKymcFzXBDptWmT7FwuEzG3ryjH4ktypQSAewRiNMjANTtpgP4mLTj34bhnZX7UiM"},
		{2, "xpub6FHa3pjLCk84BayeJxFW2SP4XRrFd1JYnxeLeU8EqN3vDfZmbqBqaGJAyiLjTAwm6ZLRQUMv1ZACTj37sR62cfN7fe5JnJ7dh8zL4fiyLHV", "xprvA2JDeKCSNNZky6uBCviVfJSKyQ1mDYahRjijr5idH2WwLsEd4Hsb2Tyh8RfQMuPh7f7RtyzTtdrbdqqsunu5Mm3wDvUAKRHSC34sJ7in334"},
		{1000000000, "xpub6H1LXWLaKsWFhvm6RVpEL9P4KfRZSW7abD2ttkWP3SSQvnyA8FSVqNTEcYFgJS2UaFcxupHiYkro49S8yGasTvXEYBVPamhGW6cFJodrTHy", "xprvA41z7zogVVwxVSgdKUHDy1SKmdb533PjDz7J6N6mV6uS3ze1ai8FHa8kmHScGpWmj4WggLyQjgPie1rFSruoUihUZREPSL39UNdE3BBDu76"},
	}},
	{"fffcf9f6f3f0edeae7e4e1dedbd8d5d2cfccc9c6c3c0bdbab7b4b1aeaba8a5a29f9c999693908d8a8784817e7b7875726f6c696663605d5a5754514e4b484542", []step{
		{0, "xpub661MyMwAqRbcFW31YEwpkMuc5THy2PSt5bDMsktWQcFF8syAmRUapSCGu8ED9W6oDMSgv6Zz8idoc4a6mr8BDzTJY47LJhkJ8UB7WEGuduB", "xprv9s21ZrQH143K31xYSDQpPDxsXRTUcvj2iNHm5NUtrGiGG5e2DtALGdso3pGz6ssrdK4PFmM8NSpSBHNqPqm55Qn3LqFtT2emdEXVYsCzC2U"},
		{0, "xpub69H7F5d8KSRgmmdJg2KhpAK8SR3DjMwAdkxj3ZuxV27CprR9LgpeyGmXUbC6wb7ERfvrnKZjXoUmmDznezpbZb7ap6r1D3tgFxHmwMkQTPH", "xprv9vHkqa6EV4sPZHYqZznhT2NPtPCjKuDKGY38FBWLvgaDx45zo9WQRUT3dKYnjwih2yJD9mkrocEZXo1ex8G81dwSM1fwqWpWkeS3v86pgKt"},
		{Hardened + 2147483647, "xpub6ASAVgeehLbnwdqV6UKMHVzgqAG8Gr6riv3Fxxpj8ksbH9ebxaEyBLZ85ySDhKiLDBrQSARLq1uNRts8RuJiHjaDMBU4Zn9h8LZNnBC5y4a", "xprv9wSp6B7kry3Vj9m1zSnLvN3xH8RdsPP1Mh7fAaR7aRLcQMKTR2vidYEeEg2mUCTAwCd6vnxVrcjfy2kRgVsFawNzmjuHc2YmYRmagcEPdU9"},
		{1, "xpub6DF8uhdarytz3FWdA8TvFSvvAh8dP3283MY7p2V4SeE2wyWmG5mg5EwVvmdMVCQcoNJxGoWaU9DCWh89LojfZ537wTfunKau47EL2dhHKon", "xprv9zFnWC6h2cLgpmSA46vutJzBcfJ8yaJGg8cX1e5StJh45BBciYTRXSd25UEPVuesF9yog62tGAQtHjXajPPdbRCHuWS6T8XA2ECKADdw4Ef"},
		{Hardened + 2147483646, "xpub6ERApfZwUNrhLCkDtcHTcxd75RbzS1ed54G1LkBUHQVHQKqhMkhgbmJbZRkrgZw4koxb5JaHWkY4ALHY2grBGRjaDMzQLcgJvLJuZZvRcEL", "xprvA1RpRA33e1JQ7ifknakTFpgNXPmW2YvmhqLQYMmrj4xJXXWYpDPS3xz7iAxn8L39njGVyuoseXzU6rcxFLJ8HFsTjSyQbLYnMpCqE2VbFWc"},
		{2, "xpub6FnCn6nSzZAw5Tw7cgR9bi15UV96gLZhjDstkXXxvCLsUXBGXPdSnLFbdpq8p9HmGsApME5hQTZ3emM2rnY5agb9rXpVGyy3bdW6EEgAtqt", "xprvA2nrNbFZABcdryreWet9Ea4LvTJcGsqrMzxHx98MMrotbir7yrKCEXw7nadnHM8Dq38EGfSh6dqA9QWTyefMLEcBYJUuekgW4BYPJcr9E7j"},
	}},
	{"4b381541583be4423346c643850da4b320e46a87ae3d2a4e6da11eba819cd4acba45d239319ac14f863b8d5ab5a0d0c64d2e8a1e7d1457df2e5a3c51c73235be", []step{
		{0, "xpub661MyMwAqRbcEZVB4dScxMAdx6d4nFc9nvyvH3v4gJL378CSRZiYmhRoP7mBy6gSPSCYk6SzXPTf3ND1cZAceL7SfJ1Z3GC8vBgp2epUt13", "xprv9s21ZrQH143K25QhxbucbDDuQ4naNntJRi4KUfWT7xo4EKsHt2QJDu7KXp1A3u7Bi1j8ph3EGsZ9Xvz9dGuVrtHHs7pXeTzjuxBrCmmhgC6"},
		{Hardened + 0, "xpub68NZiKmJWnxxS6aaHmn81bvJeTESw724CRDs6HbuccFQN9Ku14VQrADWgqbhhTHBaohPX4CjNLf9fq9MYo6oDaPPLPxSb7gwQN3ih19Zm4Y", "xprv9uPDJpEQgRQfDcW7BkF7eTya6RPxXeJCqCJGHuCJ4GiRVLzkTXBAJMu2qaMWPrS7AANYqdq6vcBcBUdJCVVFceUvJFjaPdGZ2y9WACViL4L"},
	}},
}

func TestBIP32Vectors(t *testing.T) {
	for vi, v := range bip32Vectors {
		seed, _ := hex.DecodeString(v.seed)
		k, err := Master(seed, VerXprv)
		if err != nil {
			t.Fatal(err)
		}
		for si, s := range v.steps {
			if si > 0 {
				parentPub := k.Neuter()
				if k, err = k.Child(s.index); err != nil {
					t.Fatal(err)
				}
				// CKDpub of the neutered parent gives the neutered child (non-hardened only)
				if s.index < Hardened {
					pc, err := parentPub.Child(s.index)
					if err != nil || pc.String() != s.xpub {
						t.Errorf("vector %d step %d: public derivation gives %v (%v)", vi+1, si, pc, err)
					}
				} else if _, err := parentPub.Child(s.index); err == nil {
					t.Errorf("vector %d step %d: hardened public derivation not refused", vi+1, si)
				}
			}
			if k.String() != s.xprv {
				t.Errorf("vector %d step %d: xprv %s, want %s", vi+1, si, k.String(), s.xprv)
			}
			if k.Neuter().String() != s.xpub {
				t.Errorf("vector %d step %d: xpub %s, want %s", vi+1, si, k.Neuter().String(), s.xpub)
			}
			for _, str := range []string{s.xprv, s.xpub} {
				p, err := Parse(str)
				if err != nil || p.String() != str {
					t.Errorf("vector %d step %d: Parse(%s) = %v, %v", vi+1, si, str, p, err)
				}
			}
		}
	}
}

// BIP32 test vector 5: invalid extended keys (a selection that does not depend on recalled strings is
// built here from a valid key by breaking one rule at a time).
func TestParseRejects(t *testing.T) {
	seed, _ := hex.DecodeString("000102030405060708090a0b0c0d0e0f")
	m, _ := Master(seed, VerXprv)
	c, _ := m.Child(5)
	enc := func(k *ExtKey) string { return k.String() }
	bad := map[string]*ExtKey{}
	x := *c
	x.Key = c.PubKey() // private version, public key data
	bad["prv version with pub data"] = &x
	y := *c.Neuter()
	y.Key = c.Key // public version, private key data
	bad["pub version with prv data"] = &y
	z := *c
	z.Key = make([]byte, 33) // key 0
	bad["zero key"] = &z
	n := *c
	n.Key = append([]byte{0}, hexBytes("FFFFFFFFFFFFFFFFFFFFFFFFFFFFFFFEBAAEDCE6AF48A03BBFD25E8CD0364141")...)
	bad["key n"] = &n
	d := *m
	d.Index = 1
	bad["depth 0 with index"] = &d
	f := *m
	f.ParentFP = [4]byte{1}
	bad["depth 0 with fingerprint"] = &f
	u := *c
	u.Version = 0x01020304
	bad["unknown version"] = &u
	p := *c.Neuter()
	p.Key = append([]byte{2}, hexBytes("0000000000000000000000000000000000000000000000000000000000000005")...) // x=5 is not on the curve
	bad["point not on curve"] = &p
	for name, k := range bad {
		if _, err := Parse(enc(k)); err == nil {
			t.Errorf("%s: accepted", name)
		}
	}
	s := c.String()
	if _, err := Parse(s[:len(s)-1] + "1"); err == nil && !strings.HasSuffix(s, "1") {
		t.Errorf("bad checksum accepted")
	}
}

func hexBytes(s string) []byte { b, _ := hex.DecodeString(s); return b }

func TestSLIP132Prefixes(t *testing.T) {
	seed, _ := hex.DecodeString("000102030405060708090a0b0c0d0e0f")
	want := map[uint32][2]string{
		VerXprv: {"xprv", "xpub"}, VerYprv: {"yprv", "ypub"}, VerZprv: {"zprv", "zpub"},
		VerTprv: {"tprv", "tpub"}, VerUprv: {"uprv", "upub"}, VerVprv: {"vprv", "vpub"},
	}
	for v, w := range want {
		m, _ := Master(seed, v)
		c, _ := m.Child(Hardened + 84)
		for _, k := range []*ExtKey{m, c} {
			if !strings.HasPrefix(k.String(), w[0]) || !strings.HasPrefix(k.Neuter().String(), w[1]) {
				t.Errorf("version %08x: %s / %s", v, k.String()[:4], k.Neuter().String()[:4])
			}
		}
	}
	if len(PrivateVersions) != 6 || len(PublicVersions) != 6 {
		t.Fatal("version tables")
	}
	for i, v := range PrivateVersions {
		if PublicVersionOf(v) != PublicVersions[i] || !IsPrivateVersion(v) || IsPublicVersion(v) || !IsPublicVersion(PublicVersions[i]) {
			t.Errorf("version table row %d inconsistent", i)
		}
	}
}

// Known addresses of well-known keys: secret 1 (generator point).
func TestAddressForms(t *testing.T) {
	pub := hexBytes("0279be667ef9dcbbac55a06295ce870b07029bfcdb2dce28d959f2815b16f81798")
	if got := P2PKHAddr(pub, false); got != "1BgGZ9tcN4rm9KBzDn7KprQz87SZ26SAMH" {
		t.Errorf("P2PKH %s", got)
	}
	if got := P2WPKHAddr(pub, false); got != "bc1qw508d6qejxtdg4y5r3zarvary0c5xw7kv8f3t4" {
		t.Errorf("P2WPKH %s", got)
	}
	if got := P2SHP2WPKHAddr(pub, false); got != "3JvL6Ymt8MVWiCNHC7oWU6nLeHNJKLZGLN" {
		t.Errorf("P2SH-P2WPKH %s", got)
	}
	if got := P2WPKHAddr(pub, true); got != "tb1qw508d6qejxtdg4y5r3zarvary0c5xw7kxpjzsx" {
		t.Errorf("P2WPKH testnet %s", got)
	}
}

func TestBIP39Vectors(t *testing.T) {
	if len(trezorVectors) != 24 {
		t.Fatal("expected the 24 Trezor vectors")
	}
	for i, v := range trezorVectors {
		ent := hexBytes(v[0])
		m, err := MnemonicFromEntropy(ent)
		if err != nil || m != v[1] {
			t.Errorf("vector %d: mnemonic %q (%v)", i, m, err)
		}
		back, err := EntropyFromMnemonic(v[1])
		if err != nil || !bytes.Equal(back, ent) {
			t.Errorf("vector %d: entropy %x (%v)", i, back, err)
		}
		if got := hex.EncodeToString(Seed(v[1], "TREZOR")); got != v[2] {
			t.Errorf("vector %d: seed %s", i, got)
		}
	}
	for _, b := range badMnemonics {
		if _, err := EntropyFromMnemonic(b); err == nil {
			t.Errorf("invalid mnemonic accepted: %q", b)
		}
	}
	for _, n := range []int{0, 4, 12, 15, 17, 36, 40} {
		if _, err := MnemonicFromEntropy(make([]byte, n)); err == nil {
			t.Errorf("entropy of %d bytes accepted", n)
		}
	}
}

// BIP39 seed -> BIP32 master: the BIP39 text's vectors also list the resulting xprv; the first one
// (all-zero entropy, "TREZOR") is bip32_xprv = xprv9s21ZrQH143K3h3fDYiay8mocZ3afhfULfb5GX8kCBdno77K4HiA15Tg23wpbeF1pLfs1c5SPmYHrEpTuuRhxMwvKDwqdKiGJS9XFKzUsAF.
func TestBIP39ToBIP32(t *testing.T) {
	seed := Seed(trezorVectors[0][1], "TREZOR")
	m, err := Master(seed, VerXprv)
	if err != nil {
		t.Fatal(err)
	}
	if m.String() != "xprv9s21ZrQH143K3h3fDYiay8mocZ3afhfULfb5GX8kCBdno77K4HiA15Tg23wpbeF1pLfs1c5SPmYHrEpTuuRhxMwvKDwqdKiGJS9XFKzUsAF" {
		t.Errorf("master of vector 0: %s", m.String())
	}
}

// PBKDF2: derived keys longer than one PRF block are the concatenation of independent blocks, and a
// shorter key is a prefix of a longer one (RFC 8018 structure); c = 1 equals one HMAC.
func TestPBKDF2Structure(t *testing.T) {
	a := PBKDF2SHA512([]byte("password"), []byte("salt"), 3, 100)
	b := PBKDF2SHA512([]byte("password"), []byte("salt"), 3, 64)
	if !bytes.Equal(a[:64], b) || len(a) != 100 {
		t.Fatal("prefix property")
	}
	one := PBKDF2SHA512([]byte("password"), []byte("salt"), 1, 64)
	if !bytes.Equal(one, hmac512([]byte("password"), []byte("salt"), []byte{0, 0, 0, 1})) {
		t.Fatal("c=1")
	}
	// published PBKDF2-HMAC-SHA512 vector (password/salt, 1 iteration)
	if got := hex.EncodeToString(one); got != "867f70cf1ade02cff3752599a3a53dc4af34c7a669815ae5d513554e1c8cf252c02d470a285a0501bad999bfe943c08f050235d7d68b1da55e63f73b60a57fce" {
		t.Errorf("PBKDF2-HMAC-SHA512(password,salt,1) = %s", got)
	}
}

// RFC 7914 §12 test vectors 1 and 2, and §11's PBKDF2-HMAC-SHA-256 vector 1.
func TestScryptVectors(t *testing.T) {
	if got := hex.EncodeToString(PBKDF2SHA256([]byte("passwd"), []byte("salt"), 1, 64)); got != "55ac046e56e3089fec1691c22544b605f94185216dde0465e68b9d57c20dacbc49ca9cccf179b645991664b39d77ef317c71b845b1e30bd509112041d3a19783" {
		t.Errorf("PBKDF2-HMAC-SHA256: %s", got)
	}
	if got := hex.EncodeToString(Scrypt(nil, nil, 16, 1, 1, 64)); got != "77d6576238657b203b19ca42c18a0497f16b4844e3074ae8dfdffa3fede21442fcd0069ded0948f8326a753a0fc81f17e8d3e0fb2e0d3628cf35e20c38d18906" {
		t.Errorf("scrypt vector 1: %s", got)
	}
	if got := hex.EncodeToString(Scrypt([]byte("password"), []byte("NaCl"), 1024, 8, 16, 64)); got != "fdbabe1c9d3472007856e7190d01e9fe7c6ad7cbc8237830e77376634b3731622eaf30d92e22a3886ff109279d9830dac727afb94a83ee6d8360cbdfa2cc0640" {
		t.Errorf("scrypt vector 2: %s", got)
	}
}

func TestParsePath(t *testing.T) {
	good := map[string][]uint32{
		"m":                 nil,
		"m/0":               {0},
		"m/44'/0'/0'/0/5":   {44 + Hardened, Hardened, Hardened, 0, 5},
		"m/044'/00084h/010": {44 + Hardened, 84 + Hardened, 10},
		"m/+7/2147483647H":  {7, 0x7fffffff + Hardened},
		"m/-0/000":          {0, 0},
	}
	for s, want := range good {
		got, err := ParsePath(s)
		if err != nil || len(got) != len(want) {
			t.Errorf("ParsePath(%q) = %v, %v", s, got, err)
			continue
		}
		for i := range got {
			if got[i] != want[i] {
				t.Errorf("ParsePath(%q) = %v, want %v", s, got, want)
			}
		}
	}
	for _, s := range []string{"", "M/0", "/m/0", "m/", "m//0", "m/0/", "m/ 1", "m/1 ", "m/0x10", "m/0o17", "m/0b11", "m/1_0", "m/1e3", "m/-1",
		"m/2147483648", "m/4294967296", "m/2147483648'", "m/5''", "m/'", "m/h", "m/1'0", "m/1.0", "n/0", "m/٣"} {
		if p, err := ParsePath(s); err == nil {
			t.Errorf("ParsePath(%q) = %v, expected an error", s, p)
		}
	}
}
