package hd

import (
	"crypto/hmac"
	"crypto/sha256"
	"crypto/sha512"
	_ "embed"
	"encoding/hex"
	"errors"
	"strings"
)

// english.txt is BIP39's English word list (one word per line, trailing newline).  It was copied as data
// and is trusted only through its SHA-256, which is the value published for bips/bip-0039/english.txt.
//
//go:embed english.txt
var englishTxt string

// WordListSHA256 is the pinned digest of english.txt.
const WordListSHA256 = "2f5eed53a4727b4bf8880d8f3f199efc90e58503646d9ff8eff3a2ed3b24dbda"

var (
	words     []string
	wordIndex map[string]int
)

func init() {
	h := sha256.Sum256([]byte(englishTxt))
	if hex.EncodeToString(h[:]) != WordListSHA256 {
		panic("hd: english.txt does not have the pinned SHA-256")
	}
	words = strings.Split(strings.TrimSuffix(englishTxt, "\n"), "\n")
	if len(words) != 2048 {
		panic("hd: word list does not have 2048 entries")
	}
	wordIndex = make(map[string]int, 2048)
	for i, w := range words {
		wordIndex[w] = i
	}
}

// WordList returns the 2048 words.
func WordList() []string { return append([]string{}, words...) }

var (
	ErrEntropyLength = errors.New("bip39: entropy must be 128, 160, 192, 224 or 256 bits")
	ErrWordCount     = errors.New("bip39: a mnemonic has 12, 15, 18, 21 or 24 words")
	ErrUnknownWord   = errors.New("bip39: word not in the list")
	ErrChecksum      = errors.New("bip39: checksum mismatch")
)

// bitsOf returns the bits of b, most significant first.
func bitsOf(b []byte) []byte {
	out := make([]byte, 0, 8*len(b))
	for _, x := range b {
		for i := 7; i >= 0; i-- {
			out = append(out, x>>uint(i)&1)
		}
	}
	return out
}

// MnemonicFromEntropy: ENT bits of entropy, CS = ENT/32 first bits of SHA-256(entropy) appended, the
// ENT+CS bits cut into groups of 11, each group the index of a word; words joined by one space.
func MnemonicFromEntropy(ent []byte) (string, error) {
	if len(ent) < 16 || len(ent) > 32 || len(ent)%4 != 0 {
		return "", ErrEntropyLength
	}
	cs := len(ent) * 8 / 32
	h := sha256.Sum256(ent)
	bits := append(bitsOf(ent), bitsOf(h[:])[:cs]...)
	var ws []string
	for i := 0; i < len(bits); i += 11 {
		idx := 0
		for _, b := range bits[i : i+11] {
			idx = idx<<1 | int(b)
		}
		ws = append(ws, words[idx])
	}
	return strings.Join(ws, " "), nil
}

// EntropyFromWords is the inverse on a word sequence: word count 12..24 in steps of 3, every word in the
// list, and the trailing CS bits equal to the first CS bits of SHA-256 of the leading ENT bits.
func EntropyFromWords(ws []string) ([]byte, error) {
	if len(ws) < 12 || len(ws) > 24 || len(ws)%3 != 0 {
		return nil, ErrWordCount
	}
	var bits []byte
	for _, w := range ws {
		idx, ok := wordIndex[w]
		if !ok {
			return nil, ErrUnknownWord
		}
		for i := 10; i >= 0; i-- {
			bits = append(bits, byte(idx>>uint(i)&1))
		}
	}
	cs := len(bits) / 33
	entBits := len(bits) - cs
	ent := make([]byte, entBits/8)
	for i := 0; i < entBits; i++ {
		ent[i/8] |= bits[i] << uint(7-i%8)
	}
	h := sha256.Sum256(ent)
	hb := bitsOf(h[:])
	for i := 0; i < cs; i++ {
		if bits[entBits+i] != hb[i] {
			return nil, ErrChecksum
		}
	}
	return ent, nil
}

// EntropyFromMnemonic takes the sentence in its canonical form: words separated by exactly one ASCII
// space, no leading or trailing space (anything else has an empty "word", which is not in the list).
func EntropyFromMnemonic(m string) ([]byte, error) {
	return EntropyFromWords(strings.Split(m, " "))
}

// PBKDF2SHA512 is PBKDF2 (RFC 8018 §5.2) with HMAC-SHA512 as the PRF:
// T_i = U_1 xor ... xor U_c, U_1 = PRF(P, S ‖ INT(i)), U_j = PRF(P, U_{j-1}); DK = T_1 ‖ T_2 ... cut to dkLen.
func PBKDF2SHA512(password, salt []byte, iterations, dkLen int) []byte {
	prf := func(data []byte) []byte {
		m := hmac.New(sha512.New, password)
		m.Write(data)
		return m.Sum(nil)
	}
	var dk []byte
	for i := 1; len(dk) < dkLen; i++ {
		u := prf(append(append([]byte{}, salt...), byte(i>>24), byte(i>>16), byte(i>>8), byte(i)))
		t := append([]byte{}, u...)
		for j := 2; j <= iterations; j++ {
			u = prf(u)
			for x := range t {
				t[x] ^= u[x]
			}
		}
		dk = append(dk, t...)
	}
	return dk[:dkLen]
}

// Seed is BIP39's seed: PBKDF2-HMAC-SHA512(password = mnemonic, salt = "mnemonic"‖passphrase, 2048
// rounds, 64 bytes).  BIP39 applies UTF-8 NFKD normalisation to both strings first; the standard library
// has no normaliser, so callers must pass strings that are already NFKD-normal (all ASCII strings are).
func Seed(mnemonic, passphrase string) []byte {
	return PBKDF2SHA512([]byte(mnemonic), []byte("mnemonic"+passphrase), 2048, 64)
}
