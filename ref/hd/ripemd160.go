package hd

import (
	"crypto/sha256"
	"encoding/binary"
	"math/bits"
)

// RIPEMD-160, written from the specification (Dobbertin, Bosselaers, Preneel: "RIPEMD-160: A
// Strengthened Version of RIPEMD", 1996): two parallel lines of 5 x 16 steps over the same sixteen
// 32-bit little-endian message words, combined at the end of every 64-byte block.  The tables below are
// the ones of the paper; the self-test checks the nine test strings of the paper.

// message word selection, left line r(j) and right line r'(j)
var rmdR = [80]int{
	0, 1, 2, 3, 4, 5, 6, 7, 8, 9, 10, 11, 12, 13, 14, 15,
	7, 4, 13, 1, 10, 6, 15, 3, 12, 0, 9, 5, 2, 14, 11, 8,
	3, 10, 14, 4, 9, 15, 8, 1, 2, 7, 0, 6, 13, 11, 5, 12,
	1, 9, 11, 10, 0, 8, 12, 4, 13, 3, 7, 15, 14, 5, 6, 2,
	4, 0, 5, 9, 7, 12, 2, 10, 14, 1, 3, 8, 11, 6, 15, 13,
}
var rmdRp = [80]int{
	5, 14, 7, 0, 9, 2, 11, 4, 13, 6, 15, 8, 1, 10, 3, 12,
	6, 11, 3, 7, 0, 13, 5, 10, 14, 15, 8, 12, 4, 9, 1, 2,
	15, 5, 1, 3, 7, 14, 6, 9, 11, 8, 12, 2, 10, 0, 4, 13,
	8, 6, 4, 1, 3, 11, 15, 0, 5, 12, 2, 13, 9, 7, 10, 14,
	12, 15, 10, 4, 1, 5, 8, 7, 6, 2, 13, 14, 0, 3, 9, 11,
}

// rotation amounts, left line s(j) and right line s'(j)
var rmdS = [80]int{
	11, 14, 15, 12, 5, 8, 7, 9, 11, 13, 14, 15, 6, 7, 9, 8,
	7, 6, 8, 13, 11, 9, 7, 15, 7, 12, 15, 9, 11, 7, 13, 12,
	11, 13, 6, 7, 14, 9, 13, 15, 14, 8, 13, 6, 5, 12, 7, 5,
	11, 12, 14, 15, 14, 15, 9, 8, 9, 14, 5, 6, 8, 6, 5, 12,
	9, 15, 5, 11, 6, 8, 13, 12, 5, 12, 13, 14, 11, 8, 5, 6,
}
var rmdSp = [80]int{
	8, 9, 9, 11, 13, 15, 15, 5, 7, 7, 8, 11, 14, 14, 12, 6,
	9, 13, 15, 7, 12, 8, 9, 11, 7, 7, 12, 7, 6, 15, 13, 11,
	9, 7, 15, 11, 8, 6, 6, 14, 12, 13, 5, 14, 13, 13, 7, 5,
	15, 5, 8, 11, 14, 14, 6, 14, 6, 9, 12, 9, 12, 5, 15, 8,
	8, 5, 12, 9, 12, 5, 14, 6, 8, 13, 6, 5, 15, 13, 11, 11,
}

var rmdK = [5]uint32{0x00000000, 0x5A827999, 0x6ED9EBA1, 0x8F1BBCDC, 0xA953FD4E}
var rmdKp = [5]uint32{0x50A28BE6, 0x5C4DD124, 0x6D703EF3, 0x7A6D76E9, 0x00000000}

func rmdF(j int, x, y, z uint32) uint32 {
	switch j / 16 {
	case 0:
		return x ^ y ^ z
	case 1:
		return (x & y) | (^x & z)
	case 2:
		return (x | ^y) ^ z
	case 3:
		return (x & z) | (y & ^z)
	default:
		return x ^ (y | ^z)
	}
}

// RIPEMD160 returns the 20-byte digest of msg.
func RIPEMD160(msg []byte) []byte {
	h := [5]uint32{0x67452301, 0xEFCDAB89, 0x98BADCFE, 0x10325476, 0xC3D2E1F0}
	// padding as in MD4: 0x80, zeros up to 56 mod 64, then the bit length as 64-bit little endian
	p := append([]byte{}, msg...)
	p = append(p, 0x80)
	for len(p)%64 != 56 {
		p = append(p, 0)
	}
	var l [8]byte
	binary.LittleEndian.PutUint64(l[:], uint64(len(msg))*8)
	p = append(p, l[:]...)

	for off := 0; off < len(p); off += 64 {
		var x [16]uint32
		for i := range x {
			x[i] = binary.LittleEndian.Uint32(p[off+4*i:])
		}
		a, b, c, d, e := h[0], h[1], h[2], h[3], h[4]
		ap, bp, cp, dp, ep := a, b, c, d, e
		for j := 0; j < 80; j++ {
			t := bits.RotateLeft32(a+rmdF(j, b, c, d)+x[rmdR[j]]+rmdK[j/16], rmdS[j]) + e
			a, e, d, c, b = e, d, bits.RotateLeft32(c, 10), b, t
			t = bits.RotateLeft32(ap+rmdF(79-j, bp, cp, dp)+x[rmdRp[j]]+rmdKp[j/16], rmdSp[j]) + ep
			ap, ep, dp, cp, bp = ep, dp, bits.RotateLeft32(cp, 10), bp, t
		}
		t := h[1] + c + dp
		h[1] = h[2] + d + ep
		h[2] = h[3] + e + ap
		h[3] = h[4] + a + bp
		h[4] = h[0] + b + cp
		h[0] = t
	}
	out := make([]byte, 20)
	for i, v := range h {
		binary.LittleEndian.PutUint32(out[4*i:], v)
	}
	return out
}

// Hash160 is RIPEMD160(SHA256(b)).
func Hash160(b []byte) []byte {
	s := sha256.Sum256(b)
	return RIPEMD160(s[:])
}
