package hd

import "strings"

// NFKD returns the Unicode NFKD form of s for strings over a restricted alphabet: ASCII, plus the
// characters listed in nfkd_table.go (data of the Unicode Character Database).  ok is false when s
// holds any other character or is not valid UTF-8 - callers must then not use the result.  Every
// listed character starts with a character of combining class 0 and no bare combining marks are
// listed, so normalising character by character is exact: canonical reordering never has to cross
// the boundary between two listed characters.
func NFKD(s string) (out string, ok bool) {
	var b strings.Builder
	for _, r := range s {
		switch {
		case r == 0xFFFD:
			return "", false // invalid UTF-8 (or the replacement character itself, which is not listed)
		case r < 0x80:
			b.WriteRune(r)
		case nfkdMap[r] != "":
			b.WriteString(nfkdMap[r])
		case nfkdStable[r]:
			b.WriteRune(r)
		default:
			return "", false
		}
	}
	return b.String(), true
}

// NFKDStable reports whether NFKD leaves s unchanged (false also when NFKD cannot tell).
func NFKDStable(s string) bool {
	n, ok := NFKD(s)
	return ok && n == s
}

// SeedNFKD is BIP39's seed function including the normalisation step, for strings NFKD can handle.
func SeedNFKD(mnemonic, passphrase string) ([]byte, bool) {
	m, ok1 := NFKD(mnemonic)
	p, ok2 := NFKD(passphrase)
	if !ok1 || !ok2 {
		return nil, false
	}
	return Seed(m, p), true
}
