// Package sighash is an independent reference for Bitcoin's three signature-message digests:
//
//   - the original ("legacy", SigVersion::BASE) algorithm as implemented by Bitcoin Core's
//     SignatureHash / CTransactionSignatureSerializer (interpreter.cpp), including the removal of
//     OP_CODESEPARATOR from the script code, FindAndDelete, and the SIGHASH_SINGLE out-of-range
//     constant "one";
//   - BIP143 (SigVersion::WITNESS_V0);
//   - BIP341 "Common signature message" with the BIP342 tapscript extension.
//
// It is written from those specifications, one field after the other in the order of the texts, and
// imports nothing from gocoin.  Nothing is cached: every call re-serialises what it needs.
//
// Validation status: Legacy reproduces all of Core's sighash.json vectors; BIP143 reproduces the
// "P2SH-P2WPKH" example of the BIP text (intermediate hashes and final digest) and the intermediate hashes of
// its "Native P2WPKH" example; the which-part-is-zeroed table is tested separately for all type classes.
// For BIP341 the official vectors are NOT available offline in this tree (lib/test/
// bip341_script_tests.json is empty), so that digest is validated only structurally: the self-test
// rebuilds the message independently as a list of (name, bytes) fields following BIP341's field list,
// checks the length formula of the BIP (174 − is_anyonecanpay·49 − is_none·32 + has_annex·32 [+37]),
// and checks that every field the BIP says is committed to changes the digest while every field it says
// is not committed to does not.  This is the weakest link and is stated as an assumption by the checks
// that use it.
package sighash

import (
	"bytes"
	"crypto/sha256"
	"encoding/binary"
	"sort"

	"verif/ref/ec"
	"verif/ref/wire"
)

// Hash type constants.
const (
	SigHashDefault      = 0
	SigHashAll          = 1
	SigHashNone         = 2
	SigHashSingle       = 3
	SigHashAnyoneCanPay = 0x80

	OpPushData1     = 0x4c
	OpPushData2     = 0x4d
	OpPushData4     = 0x4e
	OpCodeSeparator = 0xab
)

// One is uint256::ONE as it is laid out in memory (and therefore as it is signed): 01 00 .. 00.
var One = [32]byte{1}

// GetOp mirrors Core's GetScriptOp on script[pc:]: it returns the opcode, the pushed data (nil for
// non-push opcodes), the position after the instruction and ok.  When ok is false, next is the position
// Core's iterator is left at (the opcode byte and any complete length field are consumed, the data is
// not) — SerializeScriptCode and FindAndDelete depend on that.
func GetOp(script []byte, pc int) (opcode byte, data []byte, next int, ok bool) {
	end := len(script)
	if pc >= end {
		return 0xff, nil, pc, false
	}
	op := script[pc]
	pc++
	if op <= OpPushData4 {
		var n uint64
		switch {
		case op < OpPushData1:
			n = uint64(op)
		case op == OpPushData1:
			if end-pc < 1 {
				return 0xff, nil, pc, false
			}
			n = uint64(script[pc])
			pc++
		case op == OpPushData2:
			if end-pc < 2 {
				return 0xff, nil, pc, false
			}
			n = uint64(binary.LittleEndian.Uint16(script[pc:]))
			pc += 2
		default:
			if end-pc < 4 {
				return 0xff, nil, pc, false
			}
			n = uint64(binary.LittleEndian.Uint32(script[pc:]))
			pc += 4
		}
		if uint64(end-pc) < n {
			return 0xff, nil, pc, false
		}
		data = script[pc : pc+int(n)]
		pc += int(n)
	}
	return op, data, pc, true
}

// ParsesCompletely reports whether every instruction of script decodes (no truncated push).
func ParsesCompletely(script []byte) bool {
	pc := 0
	for pc < len(script) {
		_, _, next, ok := GetOp(script, pc)
		if !ok {
			return false
		}
		pc = next
	}
	return true
}

// PushData is CScript() << std::vector<unsigned char>: the opcode is chosen by length only (direct push
// below 76 bytes — an empty vector gives the single byte 0x00 —, PUSHDATA1 up to 255, PUSHDATA2 up to
// 65535, PUSHDATA4 above).  No OP_1..OP_16 / OP_1NEGATE minimalisation takes place.
func PushData(data []byte) []byte {
	n := len(data)
	var out []byte
	switch {
	case n < OpPushData1:
		out = append(out, byte(n))
	case n <= 0xff:
		out = append(out, OpPushData1, byte(n))
	case n <= 0xffff:
		out = append(out, OpPushData2, byte(n), byte(n>>8))
	default:
		out = append(out, OpPushData4, byte(n), byte(n>>8), byte(n>>16), byte(n>>24))
	}
	return append(out, data...)
}

// FindAndDelete is Core's FindAndDelete(script, b): walking the script instruction by instruction, every
// occurrence of the byte string b that starts at an instruction boundary is dropped (repeatedly at the
// same position).  It returns the resulting script (a copy) and the number of deletions.  An empty
// pattern deletes nothing.  Bytes after an undecodable instruction are kept.
func FindAndDelete(script, pattern []byte) ([]byte, int) {
	found := 0
	if len(pattern) == 0 {
		return append([]byte{}, script...), 0
	}
	var result []byte
	pc, pc2, end := 0, 0, len(script)
	for {
		result = append(result, script[pc2:pc]...)
		for end-pc >= len(pattern) && bytes.Equal(script[pc:pc+len(pattern)], pattern) {
			pc += len(pattern)
			found++
		}
		pc2 = pc
		_, _, next, ok := GetOp(script, pc)
		pc = next
		if !ok {
			break
		}
	}
	if found > 0 {
		result = append(result, script[pc2:end]...)
		return result, found
	}
	return append([]byte{}, script...), 0
}

// serializeScriptCode is CTransactionSignatureSerializer::SerializeScriptCode: CompactSize(len − number
// of OP_CODESEPARATOR opcodes) followed by the script without those opcodes.  It is reproduced literally,
// including what happens after an undecodable instruction (the declared length still counts the whole
// script, the bytes written stop where Core's iterator stops).
func serializeScriptCode(w *bytes.Buffer, sc []byte) {
	nSep := 0
	for pc := 0; ; {
		op, _, next, ok := GetOp(sc, pc)
		if !ok {
			break
		}
		if op == OpCodeSeparator {
			nSep++
		}
		pc = next
	}
	wire.PutCompactSize(w, uint64(len(sc)-nSep))
	it, itBegin := 0, 0
	for {
		op, _, next, ok := GetOp(sc, it)
		it = next
		if !ok {
			break
		}
		if op == OpCodeSeparator {
			w.Write(sc[itBegin : it-1])
			itBegin = it
		}
	}
	if itBegin != len(sc) {
		w.Write(sc[itBegin:it])
	}
}

func putU32(w *bytes.Buffer, v uint32) { binary.Write(w, binary.LittleEndian, v) }
func putU64(w *bytes.Buffer, v uint64) { binary.Write(w, binary.LittleEndian, v) }

func putOutpoint(w *bytes.Buffer, in *wire.TxIn) {
	w.Write(in.PrevHash[:])
	putU32(w, in.PrevIndex)
}

func putTxOut(w *bytes.Buffer, o *wire.TxOut) {
	putU64(w, o.Value)
	wire.PutCompactSize(w, uint64(len(o.PkScript)))
	w.Write(o.PkScript)
}

// LegacyPreimage is the byte string whose double SHA-256 Legacy returns (nil for the SINGLE bug case).
func LegacyPreimage(tx *wire.Tx, idx int, scriptCode []byte, hashType uint32) []byte {
	if idx < 0 || idx >= len(tx.In) {
		panic("sighash.Legacy: input index out of range")
	}
	anyoneCanPay := hashType&SigHashAnyoneCanPay != 0
	single := hashType&0x1f == SigHashSingle
	none := hashType&0x1f == SigHashNone
	if single && idx >= len(tx.Out) {
		return nil
	}
	var w bytes.Buffer
	putU32(&w, tx.Version)

	// inputs
	nInputs := len(tx.In)
	if anyoneCanPay {
		nInputs = 1
	}
	wire.PutCompactSize(&w, uint64(nInputs))
	for n := 0; n < nInputs; n++ {
		i := n
		if anyoneCanPay {
			i = idx
		}
		putOutpoint(&w, &tx.In[i])
		if i != idx {
			wire.PutCompactSize(&w, 0) // other inputs' scripts are blanked
		} else {
			serializeScriptCode(&w, scriptCode)
		}
		if i != idx && (single || none) {
			putU32(&w, 0)
		} else {
			putU32(&w, tx.In[i].Sequence)
		}
	}

	// outputs
	nOutputs := len(tx.Out)
	if none {
		nOutputs = 0
	} else if single {
		nOutputs = idx + 1
	}
	wire.PutCompactSize(&w, uint64(nOutputs))
	for n := 0; n < nOutputs; n++ {
		if single && n != idx {
			putTxOut(&w, &wire.TxOut{Value: 0xffffffffffffffff}) // CTxOut(): nValue = -1, empty script
		} else {
			putTxOut(&w, &tx.Out[n])
		}
	}

	putU32(&w, tx.LockTime)
	putU32(&w, hashType)
	return w.Bytes()
}

// Legacy: Core's SignatureHash for SigVersion::BASE. scriptCode is used as given EXCEPT that
// OP_CODESEPARATOR opcodes are removed (SerializeScriptCode); the caller applies FindAndDelete
// beforehand. hashType is the full 32-bit value appended; SIGHASH_SINGLE with idx >= len(outs) returns
// the constant 0x01 00..00 ("one"). idx must be < len(tx.In).
func Legacy(tx *wire.Tx, idx int, scriptCode []byte, hashType uint32) [32]byte {
	pre := LegacyPreimage(tx, idx, scriptCode, hashType)
	if pre == nil {
		return One
	}
	return wire.DSHA(pre)
}

// BIP143 parts (double SHA-256 each).
func HashPrevouts(tx *wire.Tx) [32]byte {
	var w bytes.Buffer
	for i := range tx.In {
		putOutpoint(&w, &tx.In[i])
	}
	return wire.DSHA(w.Bytes())
}

func HashSequence(tx *wire.Tx) [32]byte {
	var w bytes.Buffer
	for i := range tx.In {
		putU32(&w, tx.In[i].Sequence)
	}
	return wire.DSHA(w.Bytes())
}

func HashOutputs(tx *wire.Tx) [32]byte {
	var w bytes.Buffer
	for i := range tx.Out {
		putTxOut(&w, &tx.Out[i])
	}
	return wire.DSHA(w.Bytes())
}

// BIP143Preimage is the 10-item serialisation of BIP143.
func BIP143Preimage(tx *wire.Tx, idx int, scriptCode []byte, amount uint64, hashType uint32) []byte {
	if idx < 0 || idx >= len(tx.In) {
		panic("sighash.BIP143: input index out of range")
	}
	anyoneCanPay := hashType&SigHashAnyoneCanPay != 0
	single := hashType&0x1f == SigHashSingle
	none := hashType&0x1f == SigHashNone

	var hashPrevouts, hashSequence, hashOutputs [32]byte
	if !anyoneCanPay {
		hashPrevouts = HashPrevouts(tx)
	}
	if !anyoneCanPay && !single && !none {
		hashSequence = HashSequence(tx)
	}
	if !single && !none {
		hashOutputs = HashOutputs(tx)
	} else if single && idx < len(tx.Out) {
		var o bytes.Buffer
		putTxOut(&o, &tx.Out[idx])
		hashOutputs = wire.DSHA(o.Bytes())
	}

	var w bytes.Buffer
	putU32(&w, tx.Version)                           // 1. nVersion
	w.Write(hashPrevouts[:])                         // 2. hashPrevouts
	w.Write(hashSequence[:])                         // 3. hashSequence
	putOutpoint(&w, &tx.In[idx])                     // 4. outpoint
	wire.PutCompactSize(&w, uint64(len(scriptCode))) // 5. scriptCode (serialised as a script)
	w.Write(scriptCode)                              //
	putU64(&w, amount)                               // 6. value of the output spent
	putU32(&w, tx.In[idx].Sequence)                  // 7. nSequence
	w.Write(hashOutputs[:])                          // 8. hashOutputs
	putU32(&w, tx.LockTime)                          // 9. nLockTime
	putU32(&w, hashType)                             // 10. sighash type
	return w.Bytes()
}

// BIP143 digest for SigVersion::WITNESS_V0.
func BIP143(tx *wire.Tx, idx int, scriptCode []byte, amount uint64, hashType uint32) [32]byte {
	return wire.DSHA(BIP143Preimage(tx, idx, scriptCode, amount, hashType))
}

// BIP341Defined reports whether BIP341 defines a digest for (hashType, idx) on tx.
func BIP341Defined(tx *wire.Tx, idx int, hashType byte) bool {
	switch hashType {
	case 0, 1, 2, 3, 0x81, 0x82, 0x83:
	default:
		return false
	}
	if hashType&3 == SigHashSingle && idx >= len(tx.Out) {
		return false
	}
	return true
}

// BIP341Message returns the bytes that go into hash_TapSighash: 0x00 ‖ SigMsg(hash_type, ext_flag) ‖ ext.
// nil when the specification defines no digest.
func BIP341Message(tx *wire.Tx, idx int, spent []wire.TxOut, hashType byte, extFlag byte, annex []byte, leafHash []byte, codeSepPos uint32) []byte {
	if idx < 0 || idx >= len(tx.In) {
		panic("sighash.BIP341: input index out of range")
	}
	if len(spent) != len(tx.In) {
		panic("sighash.BIP341: len(spent) != len(tx.In)")
	}
	if !BIP341Defined(tx, idx, hashType) {
		return nil
	}
	anyoneCanPay := hashType&0x80 != 0
	outType := hashType & 3
	if hashType == SigHashDefault {
		outType = SigHashAll
	}

	var w bytes.Buffer
	w.WriteByte(0x00) // sighash epoch

	// Control
	w.WriteByte(hashType)
	// Transaction data
	putU32(&w, tx.Version)
	putU32(&w, tx.LockTime)
	if !anyoneCanPay {
		var prevouts, amounts, scripts, sequences bytes.Buffer
		for i := range tx.In {
			putOutpoint(&prevouts, &tx.In[i])
			putU64(&amounts, spent[i].Value)
			wire.PutCompactSize(&scripts, uint64(len(spent[i].PkScript)))
			scripts.Write(spent[i].PkScript)
			putU32(&sequences, tx.In[i].Sequence)
		}
		h := sha256.Sum256(prevouts.Bytes())
		w.Write(h[:]) // sha_prevouts
		h = sha256.Sum256(amounts.Bytes())
		w.Write(h[:]) // sha_amounts
		h = sha256.Sum256(scripts.Bytes())
		w.Write(h[:]) // sha_scriptpubkeys
		h = sha256.Sum256(sequences.Bytes())
		w.Write(h[:]) // sha_sequences
	}
	if outType != SigHashNone && outType != SigHashSingle {
		var outs bytes.Buffer
		for i := range tx.Out {
			putTxOut(&outs, &tx.Out[i])
		}
		h := sha256.Sum256(outs.Bytes())
		w.Write(h[:]) // sha_outputs
	}
	// Data about this input
	spendType := extFlag * 2
	if annex != nil {
		spendType++
	}
	w.WriteByte(spendType)
	if anyoneCanPay {
		putOutpoint(&w, &tx.In[idx])
		putU64(&w, spent[idx].Value)
		wire.PutCompactSize(&w, uint64(len(spent[idx].PkScript)))
		w.Write(spent[idx].PkScript)
		putU32(&w, tx.In[idx].Sequence)
	} else {
		putU32(&w, uint32(idx))
	}
	if annex != nil {
		var a bytes.Buffer
		wire.PutCompactSize(&a, uint64(len(annex)))
		a.Write(annex)
		h := sha256.Sum256(a.Bytes())
		w.Write(h[:]) // sha_annex
	}
	// Data about this output
	if outType == SigHashSingle {
		var o bytes.Buffer
		putTxOut(&o, &tx.Out[idx])
		h := sha256.Sum256(o.Bytes())
		w.Write(h[:]) // sha_single_output
	}
	// BIP342 extension
	if extFlag == 1 {
		if len(leafHash) != 32 {
			panic("sighash.BIP341: leaf hash must be 32 bytes for ext_flag 1")
		}
		w.Write(leafHash)      // tapleaf_hash
		w.WriteByte(0x00)      // key_version
		putU32(&w, codeSepPos) // codesep_pos
	}
	return w.Bytes()
}

// BIP341/BIP342 digest. spent = the outputs being spent by ALL inputs (len == len(tx.In)). extFlag 0 =
// key path, 1 = tapscript; annex nil = absent (annex includes the 0x50 prefix byte); leafHash/codeSepPos
// (and the constant key_version 0) are only used when extFlag == 1. ok=false when the specification
// defines no digest: hashType not in {0,1,2,3,0x81,0x82,0x83}, or SIGHASH_SINGLE with idx >= len(tx.Out).
func BIP341(tx *wire.Tx, idx int, spent []wire.TxOut, hashType byte, extFlag byte, annex []byte, leafHash []byte, codeSepPos uint32) (digest [32]byte, ok bool) {
	msg := BIP341Message(tx, idx, spent, hashType, extFlag, annex, leafHash, codeSepPos)
	if msg == nil {
		return digest, false
	}
	copy(digest[:], ec.TaggedHash("TapSighash", msg))
	return digest, true
}

// TapLeafHash = hash_TapLeaf(leaf_version ‖ compact_size(len(script)) ‖ script).
func TapLeafHash(leafVersion byte, script []byte) (h [32]byte) {
	copy(h[:], ec.TaggedHash("TapLeaf", []byte{leafVersion}, wire.CompactSize(uint64(len(script))), script))
	return
}

// TapBranchHash = hash_TapBranch(min(a,b) ‖ max(a,b)) (lexicographic order).
func TapBranchHash(a, b [32]byte) (h [32]byte) {
	pair := [][]byte{a[:], b[:]}
	sort.SliceStable(pair, func(i, j int) bool { return bytes.Compare(pair[i], pair[j]) < 0 })
	copy(h[:], ec.TaggedHash("TapBranch", pair[0], pair[1]))
	return
}

// TapTweakHash = hash_TapTweak(internal key ‖ merkle root); a nil/empty merkle root gives the
// key-path-only tweak hash_TapTweak(internal key).
func TapTweakHash(internalKey32 []byte, merkleRoot []byte) (h [32]byte) {
	copy(h[:], ec.TaggedHash("TapTweak", internalKey32, merkleRoot))
	return
}
