package sighash

import (
	"bytes"
	"crypto/sha256"
	"encoding/binary"
	"encoding/hex"
	"encoding/json"
	"os"
	"strings"
	"testing"

	"verif/ref/ec"
	"verif/ref/wire"
)

func unhex(t testing.TB, s string) []byte {
	b, err := hex.DecodeString(s)
	if err != nil {
		t.Fatalf("bad hex %q: %v", s, err)
	}
	return b
}

func reversed(b []byte) []byte {
	r := make([]byte, len(b))
	for i := range b {
		r[len(b)-1-i] = b[i]
	}
	return r
}

// Every vector of Core's sighash.json: [raw_tx, script, input_index, hashType, result (displayed reversed)].
func TestCoreLegacyVectors(t *testing.T) {
	raw, err := os.ReadFile("/repo/lib/test/sighash.json")
	if err != nil {
		t.Fatal(err)
	}
	var rows [][]any
	if err := json.Unmarshal(raw, &rows); err != nil {
		t.Fatal(err)
	}
	n, unparsable, withSep := 0, 0, 0
	for _, row := range rows {
		if len(row) != 5 {
			continue
		}
		txb := unhex(t, row[0].(string))
		script := unhex(t, row[1].(string))
		idx := int(row[2].(float64))
		ht := uint32(int32(row[3].(float64)))
		want := reversed(unhex(t, row[4].(string)))
		tx, used, err := wire.DecodeTx(txb)
		if err != nil || used != len(txb) {
			t.Fatalf("vector %d: tx does not decode: %v", n, err)
		}
		if !ParsesCompletely(script) {
			unparsable++
		}
		if bytes.IndexByte(script, OpCodeSeparator) >= 0 {
			withSep++
		}
		// Core's test: scriptCode is the script as given (the vectors were produced without FindAndDelete)
		got := Legacy(tx, idx, script, ht)
		if !bytes.Equal(got[:], want) {
			t.Errorf("vector %d: got %x want %x", n, got, want)
		}
		n++
	}
	if n < 500 {
		t.Fatalf("only %d vectors", n)
	}
	t.Logf("%d vectors, %d with an undecodable tail, %d containing 0xab", n, unparsable, withSep)
}

func TestPushData(t *testing.T) {
	for _, c := range []struct {
		n      int
		prefix string
	}{{0, "00"}, {1, "01"}, {75, "4b"}, {76, "4c4c"}, {255, "4cff"}, {256, "4d0001"}, {520, "4d0802"}, {65535, "4dffff"}, {65536, "4e00000100"}} {
		d := bytes.Repeat([]byte{0x11}, c.n)
		got := PushData(d)
		want := append(unhex(t, c.prefix), d...)
		if !bytes.Equal(got, want) {
			t.Errorf("PushData(%d bytes) prefix %x want %s", c.n, got[:len(got)-c.n], c.prefix)
		}
		// and it decodes to one push of d
		op, data, next, ok := GetOp(got, 0)
		if !ok || next != len(got) || !bytes.Equal(data, d) || op > OpPushData4 {
			t.Errorf("PushData(%d bytes) does not decode back", c.n)
		}
	}
	// a single byte 0x01 is NOT turned into OP_1
	if got := PushData([]byte{1}); !bytes.Equal(got, []byte{1, 1}) {
		t.Errorf("PushData({1}) = %x", got)
	}
}

// Core's script_tests.cpp "script_FindAndDelete" cases.
func TestFindAndDeleteCore(t *testing.T) {
	cases := []struct {
		s, d, want string
		n          int
	}{
		{"5152", "", "5152", 0},                           // delete nothing
		{"515253", "", "515253", 0},                       //
		{"515253", "52", "5153", 1},                       // OP_1 OP_2 OP_3, delete OP_2
		{"535153535453", "53", "5154", 4},                 // OP_3 OP_1 OP_3 OP_3 OP_4 OP_3, delete OP_3
		{"5253525352", "52", "5353", 3},                   // (own)
		{"53015353", "53", "0153", 2},                     // (own) the pushed byte 0x53 is not at an instruction boundary
		{"00005151", "0051", "0051", 1},                   // single pass
		{"000051005151", "0051", "0051", 2},               //
		{"0302ff03", "0302ff03", "", 1},                   // PUSH 0x02ff03 bytes
		{"0302ff030302ff03", "0302ff03", "", 2},           //
		{"0302ff030302ff03", "02", "0302ff030302ff03", 0}, // FindAndDelete matches entire opcodes
		{"0302ff030302ff03", "ff", "0302ff030302ff03", 0},
		{"0302ff030302ff03", "03", "02ff0302ff03", 2}, // odd edge case: the push-3 prefix is stripped, leaving 02ff03 (push-2)
		{"02feed5169", "feed51", "02feed5169", 0},     // not at boundary
		{"02feed5169", "02feed51", "69", 1},
		{"516902feed5169", "feed51", "516902feed5169", 0},
		{"516902feed5169", "02feed51", "516969", 1},
		{"0003feed", "03feed", "00", 1}, // end of data without being at an opcode boundary
		{"0003feed", "00", "03feed", 1}, //
	}
	for i, c := range cases {
		got, n := FindAndDelete(unhex(t, c.s), unhex(t, c.d))
		if hex.EncodeToString(got) != c.want || n != c.n {
			t.Errorf("case %d: FindAndDelete(%s,%s) = %x,%d want %s,%d", i, c.s, c.d, got, n, c.want, c.n)
		}
	}
	// unparsable tail is kept
	got, n := FindAndDelete(unhex(t, "51ac05aabb"), unhex(t, "ac"))
	if hex.EncodeToString(got) != "5105aabb" || n != 1 {
		t.Errorf("tail: %x %d", got, n)
	}
}

func TestCodeSeparatorRemoval(t *testing.T) {
	tx := &wire.Tx{Version: 1, In: []wire.TxIn{{Sequence: 7}}, Out: []wire.TxOut{{Value: 5, PkScript: []byte{0x51}}}}
	a := Legacy(tx, 0, unhex(t, "51ab52abab53"), 1)
	b := Legacy(tx, 0, unhex(t, "515253"), 1)
	if a != b {
		t.Errorf("OP_CODESEPARATOR not removed")
	}
	// 0xab inside a push is data, not an opcode
	c := Legacy(tx, 0, unhex(t, "5101ab52"), 1)
	d := Legacy(tx, 0, unhex(t, "510152"), 1)
	if c == d {
		t.Errorf("0xab inside a push was removed")
	}
	pre := LegacyPreimage(tx, 0, unhex(t, "5101ab52"), 1)
	if !bytes.Contains(pre, unhex(t, "045101ab52")) {
		t.Errorf("script code with pushed 0xab not serialised verbatim: %x", pre)
	}
	// SINGLE out of range
	tx.In = append(tx.In, wire.TxIn{})
	if Legacy(tx, 1, nil, 3) != One || Legacy(tx, 1, nil, 0x83) != One || Legacy(tx, 1, nil, 0xffffff03) != One {
		t.Errorf("SIGHASH_SINGLE out of range must give ONE")
	}
	if Legacy(tx, 1, nil, 0x23) == One { // 0x23 & 0x1f == 3 → also SINGLE
		// 0x23&0x1f = 3: SINGLE
	} else {
		t.Errorf("0x23 is SINGLE under the 0x1f mask")
	}
	if Legacy(tx, 0, nil, 3) == One {
		t.Errorf("SINGLE in range must not give ONE")
	}
}

// BIP143 "Native P2WPKH" example: the unsigned transaction and its three intermediate hashes.  (The final
// digest of this example needs the HASH160 of the BIP's public key, and RIPEMD-160 is deliberately not
// part of this package; the complete pipeline is pinned by the P2SH-P2WPKH example below.)  Expected values
// are quoted from the BIP text as far as they are recalled with certainty: a 25-byte prefix where the tail
// is not.
func TestBIP143NativeP2WPKH(t *testing.T) {
	txb := unhex(t, "0100000002fff7f7881a8099afa6940d42d1e7f6362bec38171ea3edf433541db4e4ad969f0000000000eeffffffef51e1b804cc89d182d279655c3aa89e815b1b309fe287d9b2b55d57b90ec68a0100000000ffffffff02202cb206000000001976a9148280b37df378db99f66f85c95a783a76ac7a6d5988ac9093510d000000001976a9143bde42dbee7e4dbe6a21b2d50ce2f0167faa815988ac11000000")
	tx, _, err := wire.DecodeTx(txb)
	if err != nil {
		t.Fatal(err)
	}
	check := func(name string, got [32]byte, wantPrefix string) {
		if !strings.HasPrefix(hex.EncodeToString(got[:]), wantPrefix) {
			t.Errorf("%s = %x, BIP143 says %s", name, got, wantPrefix)
		}
	}
	check("hashPrevouts", HashPrevouts(tx), "96b827c8483d4e9b96712b6713a7b68d6e8003a781feba36c31143470b4efd37")
	check("hashSequence", HashSequence(tx), "52b0a642eea2fb7ae638c36f6252b6750293dbe574a806984b")
	check("hashOutputs", HashOutputs(tx), "863ef3e1a92afbfdb97f31ad0fc7683ee943e9abcf2501590ff8f6551f47e5e5")
}

// BIP143 "P2SH-P2WPKH" example.
func TestBIP143P2SHP2WPKH(t *testing.T) {
	txb := unhex(t, "0100000001db6b1b20aa0fd7b23880be2ecbd4a98130974cf4748fb66092ac4d3ceb1a54770100000000feffffff02b8b4eb0b000000001976a914a457b684d7f0d539a46a45bbc043f35b59d0d96388ac0008af2f000000001976a914fd270b1ee6abcaea97fea7ad0402e8bd8ad6d77c88ac92040000")
	tx, _, err := wire.DecodeTx(txb)
	if err != nil {
		t.Fatal(err)
	}
	check := func(name string, got [32]byte, want string) {
		if hex.EncodeToString(got[:]) != want {
			t.Errorf("%s = %x, BIP143 says %s", name, got, want)
		}
	}
	check("hashPrevouts", HashPrevouts(tx), "b0287b4a252ac05af83d2dcef00ba313af78a3e9c329afa216eb3aa2a7b4613a")
	check("hashSequence", HashSequence(tx), "18606b350cd8bf565266bc352f0caddcf01e8fa789dd8a15386327cf8cabe198")
	if ho := HashOutputs(tx); !strings.HasPrefix(hex.EncodeToString(ho[:]), "de984f44532e2173ca0d64314fcefe6d30da6f8cf27ba") { // tail not recalled with certainty; covered by sigHash
		t.Errorf("hashOutputs = %x", ho)
	}
	scriptCode := unhex(t, "76a91479091972186c449eb1ded22b78e40d009bdf008988ac")
	check("sigHash", BIP143(tx, 0, scriptCode, 1000000000, 1), "64f3b0f4dd2bb3aa1ce8566d220cc74dda9df97d8490cc81d89d735c92e59fb6")
}

// BIP143 structure: which parts are zeroed for which type (independent restatement of the BIP's table).
func TestBIP143Structure(t *testing.T) {
	tx := sampleTx()
	zero := make([]byte, 32)
	for _, ht := range []uint32{0, 1, 2, 3, 4, 0x1f, 0x21, 0x80, 0x81, 0x82, 0x83, 0x84, 0xffffff01, 0x12345682} {
		for idx := range tx.In {
			pre := BIP143Preimage(tx, idx, []byte{0x51, 0xab, 0x52}, 1234, ht)
			// layout: 4 | 32 | 32 | 36 | 1+3 | 8 | 4 | 32 | 4 | 4
			if len(pre) != 4+32+32+36+4+8+4+32+4+4 {
				t.Fatalf("length %d", len(pre))
			}
			acp := ht&0x80 != 0
			base := ht & 0x1f
			hp, hs, ho := pre[4:36], pre[36:68], pre[120:152]
			if acp != bytes.Equal(hp, zero) {
				t.Errorf("type %x: hashPrevouts zero=%v", ht, bytes.Equal(hp, zero))
			}
			if (acp || base == 2 || base == 3) != bytes.Equal(hs, zero) {
				t.Errorf("type %x: hashSequence zero=%v", ht, bytes.Equal(hs, zero))
			}
			wantZeroOut := base == 2 || base == 3 && idx >= len(tx.Out)
			if wantZeroOut != bytes.Equal(ho, zero) {
				t.Errorf("type %x idx %d: hashOutputs zero=%v", ht, idx, bytes.Equal(ho, zero))
			}
			if !bytes.Equal(pre[104:108], []byte{3, 0x51, 0xab, 0x52}) {
				t.Errorf("script code must be serialised verbatim (code separators kept)")
			}
			if binary.LittleEndian.Uint32(pre[len(pre)-4:]) != ht {
				t.Errorf("hash type not appended in full")
			}
		}
	}
}

func sampleTx() *wire.Tx {
	tx := &wire.Tx{Version: 2, LockTime: 0x11223344}
	for i := 0; i < 3; i++ {
		in := wire.TxIn{PrevIndex: uint32(i + 5), Sequence: 0xfffffff0 + uint32(i), ScriptSig: []byte{byte(i)}}
		in.PrevHash[0] = byte(0x10 + i)
		in.PrevHash[31] = 0xee
		tx.In = append(tx.In, in)
	}
	tx.Out = []wire.TxOut{{Value: 1000, PkScript: []byte{0x51}}, {Value: 2000, PkScript: []byte{0x52, 0x53}}}
	return tx
}

func sampleSpent() []wire.TxOut {
	return []wire.TxOut{{Value: 11, PkScript: []byte{0x51, 0x20, 1, 2, 3}}, {Value: 22, PkScript: []byte{0x00, 0x14, 9}}, {Value: 33, PkScript: nil}}
}

// field is one named item of BIP341's signature message.
type field struct {
	name string
	b    []byte
}

func le32(v uint32) []byte { b := make([]byte, 4); binary.LittleEndian.PutUint32(b, v); return b }
func le64(v uint64) []byte { b := make([]byte, 8); binary.LittleEndian.PutUint64(b, v); return b }
func sha(b []byte) []byte  { h := sha256.Sum256(b); return h[:] }
func ser(o wire.TxOut) []byte {
	return append(append(le64(o.Value), wire.CompactSize(uint64(len(o.PkScript)))...), o.PkScript...)
}

// bip341Fields restates BIP341's "Common signature message" as a list, written separately from
// BIP341Message (table-driven over the field list instead of a straight-line writer).
func bip341Fields(tx *wire.Tx, idx int, spent []wire.TxOut, ht byte, ext byte, annex, leaf []byte, csp uint32) []field {
	var f []field
	add := func(n string, b []byte) { f = append(f, field{n, b}) }
	add("epoch", []byte{0})
	add("hash_type", []byte{ht})
	add("nVersion", le32(tx.Version))
	add("nLockTime", le32(tx.LockTime))
	if ht&0x80 != 0x80 {
		var a, b, c, d []byte
		for i, in := range tx.In {
			a = append(append(a, in.PrevHash[:]...), le32(in.PrevIndex)...)
			b = append(b, le64(spent[i].Value)...)
			c = append(append(c, wire.CompactSize(uint64(len(spent[i].PkScript)))...), spent[i].PkScript...)
			d = append(d, le32(in.Sequence)...)
		}
		add("sha_prevouts", sha(a))
		add("sha_amounts", sha(b))
		add("sha_scriptpubkeys", sha(c))
		add("sha_sequences", sha(d))
	}
	if ht&3 != 2 && ht&3 != 3 {
		var o []byte
		for _, out := range tx.Out {
			o = append(o, ser(out)...)
		}
		add("sha_outputs", sha(o))
	}
	st := ext * 2
	if annex != nil {
		st |= 1
	}
	add("spend_type", []byte{st})
	if ht&0x80 == 0x80 {
		add("outpoint", append(append([]byte{}, tx.In[idx].PrevHash[:]...), le32(tx.In[idx].PrevIndex)...))
		add("amount", le64(spent[idx].Value))
		add("scriptPubKey", append(wire.CompactSize(uint64(len(spent[idx].PkScript))), spent[idx].PkScript...))
		add("nSequence", le32(tx.In[idx].Sequence))
	} else {
		add("input_index", le32(uint32(idx)))
	}
	if annex != nil {
		add("sha_annex", sha(append(wire.CompactSize(uint64(len(annex))), annex...)))
	}
	if ht&3 == 3 {
		add("sha_single_output", sha(ser(tx.Out[idx])))
	}
	if ext == 1 {
		add("tapleaf_hash", leaf)
		add("key_version", []byte{0})
		add("codesep_pos", le32(csp))
	}
	return f
}

func TestBIP341Structure(t *testing.T) {
	tx, spent := sampleTx(), sampleSpent()
	leaf := bytes.Repeat([]byte{0x77}, 32)
	valid := map[byte]bool{0: true, 1: true, 2: true, 3: true, 0x81: true, 0x82: true, 0x83: true}
	for h := 0; h < 256; h++ {
		ht := byte(h)
		for idx := range tx.In {
			for ext := byte(0); ext <= 1; ext++ {
				for _, annex := range [][]byte{nil, {0x50}, {0x50, 1, 2, 3}} {
					d, ok := BIP341(tx, idx, spent, ht, ext, annex, leaf, 0xffffffff)
					wantOK := valid[ht] && !(ht&3 == 3 && idx >= len(tx.Out))
					if ok != wantOK {
						t.Fatalf("type %02x idx %d: ok=%v want %v", ht, idx, ok, wantOK)
					}
					if !ok {
						if d != ([32]byte{}) {
							t.Fatalf("undefined digest must come back zero-valued with ok=false")
						}
						continue
					}
					var msg []byte
					for _, f := range bip341Fields(tx, idx, spent, ht, ext, annex, leaf, 0xffffffff) {
						msg = append(msg, f.b...)
					}
					// BIP341: SigMsg is at most 206 bytes; exact: 174 - acp*49 - none*32 + annex*32 (+1 epoch, +37 ext)
					want := 174 + 1
					if ht&0x80 != 0 {
						want -= 49
					}
					if ht&3 == 2 {
						want -= 32
					}
					if annex != nil {
						want += 32
					}
					if ext == 1 {
						want += 37
					}
					if ht&0x80 != 0 {
						// the BIP's formula assumes a 35-byte scriptPubKey (34 + length byte); adjust for ours
						want += 1 + len(spent[idx].PkScript) - 35
					}
					if len(msg) != want {
						t.Fatalf("type %02x idx %d ext %d annex %v: message length %d, BIP formula %d", ht, idx, ext, annex != nil, len(msg), want)
					}
					got := BIP341Message(tx, idx, spent, ht, ext, annex, leaf, 0xffffffff)
					if !bytes.Equal(got, msg) {
						t.Fatalf("type %02x idx %d ext %d: message differs from the field list\n got %x\nwant %x", ht, idx, ext, got, msg)
					}
					th := sha([]byte("TapSighash"))
					exp := sha(append(append(append([]byte{}, th...), th...), msg...))
					if !bytes.Equal(exp, d[:]) {
						t.Fatalf("digest is not the tagged hash of the message")
					}
				}
			}
		}
	}
}

// Commitment sensitivity: what BIP341 says is signed changes the digest, what it says is not does not.
func TestBIP341Commitments(t *testing.T) {
	leaf := bytes.Repeat([]byte{0x77}, 32)
	dig := func(tx *wire.Tx, spent []wire.TxOut, idx int, ht byte) [32]byte {
		d, ok := BIP341(tx, idx, spent, ht, 1, []byte{0x50, 9}, leaf, 3)
		if !ok {
			t.Fatalf("undefined")
		}
		return d
	}
	type mut struct {
		name    string
		f       func(tx *wire.Tx, spent []wire.TxOut)
		changes func(ht byte) bool // for a signature on input 0
	}
	all := func(byte) bool { return true }
	notACP := func(ht byte) bool { return ht&0x80 == 0 }
	muts := []mut{
		{"version", func(tx *wire.Tx, _ []wire.TxOut) { tx.Version++ }, all},
		{"locktime", func(tx *wire.Tx, _ []wire.TxOut) { tx.LockTime++ }, all},
		{"own prevout", func(tx *wire.Tx, _ []wire.TxOut) { tx.In[0].PrevIndex++ }, all},
		{"own amount", func(_ *wire.Tx, s []wire.TxOut) { s[0].Value++ }, all},
		{"own spk", func(_ *wire.Tx, s []wire.TxOut) { s[0].PkScript = append(s[0].PkScript, 1) }, all},
		{"own sequence", func(tx *wire.Tx, _ []wire.TxOut) { tx.In[0].Sequence++ }, all},
		{"other prevout", func(tx *wire.Tx, _ []wire.TxOut) { tx.In[1].PrevHash[3] ^= 1 }, notACP},
		{"other amount", func(_ *wire.Tx, s []wire.TxOut) { s[2].Value++ }, notACP},
		{"other spk", func(_ *wire.Tx, s []wire.TxOut) { s[1].PkScript = []byte{1} }, notACP},
		{"other sequence", func(tx *wire.Tx, _ []wire.TxOut) { tx.In[2].Sequence++ }, notACP}, // BIP341: sha_sequences also under NONE/SINGLE
		{"own output", func(tx *wire.Tx, _ []wire.TxOut) { tx.Out[0].Value++ }, func(ht byte) bool { return ht&3 != 2 }},
		{"other output", func(tx *wire.Tx, _ []wire.TxOut) { tx.Out[1].Value++ }, func(ht byte) bool { return ht&3 == 1 || ht == 0 }},
		{"own scriptSig", func(tx *wire.Tx, _ []wire.TxOut) { tx.In[0].ScriptSig = []byte{0xaa} }, func(byte) bool { return false }},
		{"witness", func(tx *wire.Tx, _ []wire.TxOut) { tx.In[0].Witness = [][]byte{{1}} }, func(byte) bool { return false }},
	}
	for _, ht := range []byte{0, 1, 2, 3, 0x81, 0x82, 0x83} {
		base := dig(sampleTx(), sampleSpent(), 0, ht)
		for _, m := range muts {
			tx, sp := sampleTx(), sampleSpent()
			m.f(tx, sp)
			changed := dig(tx, sp, 0, ht) != base
			if changed != m.changes(ht) {
				t.Errorf("type %02x, mutation %q: digest changed=%v, BIP341 says %v", ht, m.name, changed, m.changes(ht))
			}
		}
		// input position matters unless ANYONECANPAY... (with ACP the index is not signed, but the input's own data is)
		tx, sp := sampleTx(), sampleSpent()
		d0, _ := BIP341(tx, 0, sp, ht, 0, nil, nil, 0)
		d0a, _ := BIP341(tx, 0, sp, ht, 0, []byte{0x50}, nil, 0)
		d0s, _ := BIP341(tx, 0, sp, ht, 1, nil, leaf, 0)
		d0s2, _ := BIP341(tx, 0, sp, ht, 1, nil, leaf, 1)
		d0s3, _ := BIP341(tx, 0, sp, ht, 1, nil, bytes.Repeat([]byte{0x78}, 32), 0)
		if d0 == d0a || d0 == d0s || d0s == d0s2 || d0s == d0s3 {
			t.Errorf("type %02x: annex / ext_flag / codesep_pos / leaf hash not committed", ht)
		}
		// key path ignores leaf hash and code separator position
		d0k, _ := BIP341(tx, 0, sp, ht, 0, nil, leaf, 55)
		if d0 != d0k {
			t.Errorf("type %02x: key path digest depends on tapscript fields", ht)
		}
	}
	// DEFAULT and ALL sign the same data but give different digests
	tx, sp := sampleTx(), sampleSpent()
	a, _ := BIP341(tx, 0, sp, 0, 0, nil, nil, 0)
	b, _ := BIP341(tx, 0, sp, 1, 0, nil, nil, 0)
	if a == b {
		t.Errorf("DEFAULT and ALL digests coincide")
	}
}

// Tagged-hash helpers against their definitions, written out with plain SHA-256.
func TestTapHelpers(t *testing.T) {
	tag := func(name string, data []byte) []byte {
		th := sha([]byte(name))
		return sha(append(append(append([]byte{}, th...), th...), data...))
	}
	script := bytes.Repeat([]byte{0x51}, 300)
	l := TapLeafHash(0xc0, script)
	if !bytes.Equal(l[:], tag("TapLeaf", append(append([]byte{0xc0}, 0xfd, 0x2c, 0x01), script...))) {
		t.Errorf("TapLeafHash")
	}
	var a, b [32]byte
	a[0], b[0] = 2, 1
	x, y := TapBranchHash(a, b), TapBranchHash(b, a)
	if x != y || !bytes.Equal(x[:], tag("TapBranch", append(append([]byte{}, b[:]...), a[:]...))) {
		t.Errorf("TapBranchHash ordering")
	}
	key := bytes.Repeat([]byte{3}, 32)
	k := TapTweakHash(key, nil)
	if !bytes.Equal(k[:], tag("TapTweak", key)) {
		t.Errorf("TapTweakHash key-path-only")
	}
	k2 := TapTweakHash(key, a[:])
	if !bytes.Equal(k2[:], tag("TapTweak", append(append([]byte{}, key...), a[:]...))) {
		t.Errorf("TapTweakHash with root")
	}
	if !bytes.Equal(ec.TaggedHash("TapLeaf", []byte{1}), tag("TapLeaf", []byte{1})) {
		t.Errorf("ec.TaggedHash")
	}
}
