// Package consensus is an independent reference for Bitcoin's block-level consensus rules, written
// from Bitcoin Core's validation.cpp / pow.cpp / arith_uint256.cpp / tx_check.cpp / tx_verify.cpp and
// BIPs 16, 34, 65, 66, 68, 112, 113, 141.  It imports nothing from gocoin.
//
// Script evaluation is a parameter (ScriptVerifier): the block rules here are independent of how a
// script verdict is obtained.
package consensus

import (
	"bytes"
	"errors"
	"fmt"
	"math/big"
	"sort"

	"verif/ref/wire"
)

const (
	MaxMoney            = 21000000 * 100000000
	MaxBlockWeight      = 4000000
	MaxBlockSigOpsCost  = 80000
	WitnessScaleFactor  = 4
	CoinbaseMaturity    = 100
	TargetTimespan      = 14 * 24 * 60 * 60
	TargetSpacing       = 10 * 60
	RetargetInterval    = TargetTimespan / TargetSpacing // 2016
	LocktimeThreshold   = 500000000
	SeqFinal            = 0xffffffff
	SeqDisableFlag      = 1 << 31
	SeqTypeFlag         = 1 << 22
	SeqMask             = 0x0000ffff
	SeqGranularity      = 9
	MaxFutureBlockTime  = 2 * 60 * 60
	MedianTimeSpan      = 11
	SubsidyHalvingBlock = 210000
)

// Script verification flags (Core's bit values).
const (
	FlagP2SH      = 1 << 0
	FlagDERSIG    = 1 << 2
	FlagNULLDUMMY = 1 << 4
	FlagCLTV      = 1 << 9
	FlagCSV       = 1 << 10
	FlagWITNESS   = 1 << 11
	FlagTAPROOT   = 1 << 17
)

// Params are the chain parameters a scenario runs under.
type Params struct {
	PowLimit      *big.Int
	PowLimitBits  uint32
	BIP34Height   uint32
	BIP65Height   uint32
	BIP66Height   uint32
	CSVHeight     uint32 // 0 = never
	SegwitHeight  uint32 // 0 = never
	TaprootHeight uint32 // 0 = never
	GenesisTime   uint32
	GenesisHash   [32]byte
	// AllowMinDifficulty is fPowAllowMinDifficultyBlocks (testnet3 / testnet4): a block more than 20 minutes after
	// its parent may carry the proof-of-work limit as its target.
	AllowMinDifficulty bool
	// BIP94 is enforce_BIP94 (testnet4): a retarget starts from the target of the period's first block.
	BIP94 bool
}

// ---------------------------------------------------------------------------------------------
// compact targets and proof of work (arith_uint256.cpp, pow.cpp)

// SetCompact decodes nBits; neg / overflow as Core reports them.
func SetCompact(bits uint32) (target *big.Int, neg, overflow bool) {
	size := bits >> 24
	word := bits & 0x007fffff
	if size <= 3 {
		word >>= 8 * (3 - size)
		target = new(big.Int).SetUint64(uint64(word))
	} else {
		target = new(big.Int).SetUint64(uint64(word))
		target.Lsh(target, uint(8*(size-3)))
	}
	neg = word != 0 && bits&0x00800000 != 0
	overflow = word != 0 && (size > 34 || (word > 0xff && size > 33) || (word > 0xffff && size > 32))
	return
}

// GetCompact encodes a non-negative target.
func GetCompact(t *big.Int) uint32 {
	size := uint32((t.BitLen() + 7) / 8)
	var compact uint32
	if size <= 3 {
		compact = uint32(t.Uint64() << (8 * (3 - size)))
	} else {
		compact = uint32(new(big.Int).Rsh(t, uint(8*(size-3))).Uint64())
	}
	if compact&0x00800000 != 0 {
		compact >>= 8
		size++
	}
	return compact | size<<24
}

// HashToBig interprets a hash (internal byte order) as the little-endian 256-bit number Core compares.
func HashToBig(h [32]byte) *big.Int {
	var be [32]byte
	for i := range h {
		be[31-i] = h[i]
	}
	return new(big.Int).SetBytes(be[:])
}

// CheckProofOfWork is pow.cpp's function.
func CheckProofOfWork(hash [32]byte, bits uint32, powLimit *big.Int) bool {
	t, neg, of := SetCompact(bits)
	if neg || of || t.Sign() == 0 || t.Cmp(powLimit) > 0 {
		return false
	}
	return HashToBig(hash).Cmp(t) <= 0
}

// BlockWork is GetBlockProof: floor(2^256 / (target+1)); zero for invalid encodings.
func BlockWork(bits uint32) *big.Int {
	t, neg, of := SetCompact(bits)
	if neg || of || t.Sign() == 0 {
		return new(big.Int)
	}
	n := new(big.Int).Lsh(big.NewInt(1), 256)
	return n.Div(n, new(big.Int).Add(t, big.NewInt(1)))
}

// InvTarget is the exact rational 1/target (the "difficulty" measure, up to a constant).
func InvTarget(bits uint32) *big.Rat {
	t, neg, of := SetCompact(bits)
	if neg || of || t.Sign() == 0 {
		return new(big.Rat)
	}
	return new(big.Rat).SetFrac(big.NewInt(1), t)
}

// Index is a node of the header tree.
type Index struct {
	Hash    [32]byte
	Parent  *Index
	Height  uint32
	Header  wire.Header
	Work    *big.Int // cumulative, Core's definition
	InvWork *big.Rat // cumulative Σ 1/target
}

// NewGenesis makes the root node gocoin-style: an imaginary header carrying time and limit bits.
func NewGenesis(p *Params) *Index {
	return &Index{Hash: p.GenesisHash, Header: wire.Header{Version: 1, Time: p.GenesisTime, Bits: p.PowLimitBits},
		Work: new(big.Int), InvWork: new(big.Rat)}
}

// Child links a header under parent.
func (parent *Index) Child(h *wire.Header) *Index {
	return &Index{Hash: h.Hash(), Parent: parent, Height: parent.Height + 1, Header: *h,
		Work:    new(big.Int).Add(parent.Work, BlockWork(h.Bits)),
		InvWork: new(big.Rat).Add(parent.InvWork, InvTarget(h.Bits))}
}

// Ancestor returns the ancestor at the given height (nil if above).
func (i *Index) Ancestor(height uint32) *Index {
	if i == nil || height > i.Height {
		return nil
	}
	for i.Height > height {
		i = i.Parent
	}
	return i
}

// MedianTimePast over the last up-to-11 blocks ending at i.
func (i *Index) MedianTimePast() uint32 {
	var ts []uint32
	for p, n := i, 0; p != nil && n < MedianTimeSpan; p, n = p.Parent, n+1 {
		ts = append(ts, p.Header.Time)
	}
	sort.Slice(ts, func(a, b int) bool { return ts[a] < ts[b] })
	return ts[len(ts)/2]
}

// NextWorkRequired is GetNextWorkRequired for a chain without the testnet min-difficulty rule.
func NextWorkRequired(parent *Index, p *Params) uint32 {
	q := *p
	q.AllowMinDifficulty = false
	return NextWorkRequiredAt(parent, &q, 0)
}

// NextWorkRequiredAt is GetNextWorkRequired (pow.cpp) for a block with timestamp ts after parent.  The
// product is computed in unbounded integers (identical to Core wherever Core's 256-bit product does
// not overflow, i.e. for every limit <= 2^232).
func NextWorkRequiredAt(parent *Index, p *Params, ts uint32) uint32 {
	if parent.Parent == nil {
		return p.PowLimitBits
	}
	if (parent.Height+1)%RetargetInterval != 0 {
		if p.AllowMinDifficulty {
			// more than 2 x 10 minutes after the parent: a min-difficulty block is allowed (and required)
			if int64(ts) > int64(parent.Header.Time)+2*TargetSpacing {
				return p.PowLimitBits
			}
			// otherwise: the target of the last block that did not use the exception
			i := parent
			for i.Parent != nil && i.Height%RetargetInterval != 0 && i.Header.Bits == p.PowLimitBits {
				i = i.Parent
			}
			return i.Header.Bits
		}
		return parent.Header.Bits
	}
	first := parent.Ancestor(parent.Height - (RetargetInterval - 1))
	span := int64(parent.Header.Time) - int64(first.Header.Time)
	if span < TargetTimespan/4 {
		span = TargetTimespan / 4
	}
	if span > TargetTimespan*4 {
		span = TargetTimespan * 4
	}
	t, _, _ := SetCompact(parent.Header.Bits)
	if p.BIP94 {
		t, _, _ = SetCompact(first.Header.Bits)
	}
	t.Mul(t, big.NewInt(span))
	t.Div(t, big.NewInt(TargetTimespan))
	if t.Cmp(p.PowLimit) > 0 {
		t = p.PowLimit
	}
	return GetCompact(t)
}

// BlockSubsidy is GetBlockSubsidy.
func BlockSubsidy(height uint32) uint64 {
	h := height / SubsidyHalvingBlock
	if h >= 64 {
		return 0
	}
	return uint64(50*100000000) >> h
}

// ---------------------------------------------------------------------------------------------
// header rules

// CheckHeader = CheckBlockHeader + ContextualCheckBlockHeader.  now is the validator's clock.
func CheckHeader(h *wire.Header, parent *Index, p *Params, now int64) error {
	if !CheckProofOfWork(h.Hash(), h.Bits, p.PowLimit) {
		return errors.New("high-hash")
	}
	if h.Bits != NextWorkRequiredAt(parent, p, h.Time) {
		return errors.New("bad-diffbits")
	}
	if h.Time <= parent.MedianTimePast() {
		return errors.New("time-too-old")
	}
	if int64(h.Time) > now+MaxFutureBlockTime {
		return errors.New("time-too-new")
	}
	height := parent.Height + 1
	v := int32(h.Version)
	if v < 2 && height >= p.BIP34Height || v < 3 && height >= p.BIP66Height || v < 4 && height >= p.BIP65Height {
		return fmt.Errorf("bad-version(0x%08x)", h.Version)
	}
	return nil
}

// ---------------------------------------------------------------------------------------------
// transactions

func moneyRange(v uint64) bool { return v <= MaxMoney }

// CheckTransaction is consensus/tx_check.cpp.
func CheckTransaction(tx *wire.Tx) error {
	if len(tx.In) == 0 {
		return errors.New("bad-txns-vin-empty")
	}
	if len(tx.Out) == 0 {
		return errors.New("bad-txns-vout-empty")
	}
	if len(tx.Serialize(false))*WitnessScaleFactor > MaxBlockWeight {
		return errors.New("bad-txns-oversize")
	}
	var total uint64
	for _, o := range tx.Out {
		if o.Value >= 1<<63 {
			return errors.New("bad-txns-vout-negative")
		}
		if !moneyRange(o.Value) {
			return errors.New("bad-txns-vout-toolarge")
		}
		total += o.Value
		if !moneyRange(total) {
			return errors.New("bad-txns-txouttotal-toolarge")
		}
	}
	seen := map[[36]byte]bool{}
	for _, in := range tx.In {
		k := OutKey(in.PrevHash, in.PrevIndex)
		if seen[k] {
			return errors.New("bad-txns-inputs-duplicate")
		}
		seen[k] = true
	}
	if tx.IsCoinBase() {
		if l := len(tx.In[0].ScriptSig); l < 2 || l > 100 {
			return errors.New("bad-cb-length")
		}
	} else {
		for _, in := range tx.In {
			if in.PrevHash == [32]byte{} && in.PrevIndex == 0xffffffff {
				return errors.New("bad-txns-prevout-null")
			}
		}
	}
	return nil
}

// IsFinalTx is Core's function.
func IsFinalTx(tx *wire.Tx, height uint32, blockTime int64) bool {
	if tx.LockTime == 0 {
		return true
	}
	lim := int64(height)
	if tx.LockTime >= LocktimeThreshold {
		lim = blockTime
	}
	if int64(tx.LockTime) < lim {
		return true
	}
	for _, in := range tx.In {
		if in.Sequence != SeqFinal {
			return false
		}
	}
	return true
}

// Height script: CScript() << height.
func HeightScript(height uint32) []byte {
	if height == 0 {
		return []byte{0x00}
	}
	if height <= 16 {
		return []byte{0x50 + byte(height)}
	}
	var b []byte
	for v := height; v > 0; v >>= 8 {
		b = append(b, byte(v))
	}
	if b[len(b)-1]&0x80 != 0 {
		b = append(b, 0)
	}
	return append([]byte{byte(len(b))}, b...)
}

// ---------------------------------------------------------------------------------------------
// sig-op counting (script.cpp GetSigOpCount, IsPayToScriptHash, IsWitnessProgram, WitnessSigOps)

// getOp parses one opcode; ok=false on a truncated push.
func getOp(s []byte, pc int) (op byte, data []byte, next int, ok bool) {
	if pc >= len(s) {
		return 0, nil, pc, false
	}
	op = s[pc]
	pc++
	if op <= 0x4e {
		n := 0
		switch {
		case op < 0x4c:
			n = int(op)
		case op == 0x4c:
			if len(s)-pc < 1 {
				return 0, nil, pc, false
			}
			n = int(s[pc])
			pc++
		case op == 0x4d:
			if len(s)-pc < 2 {
				return 0, nil, pc, false
			}
			n = int(s[pc]) | int(s[pc+1])<<8
			pc += 2
		default:
			if len(s)-pc < 4 {
				return 0, nil, pc, false
			}
			n = int(s[pc]) | int(s[pc+1])<<8 | int(s[pc+2])<<16 | int(s[pc+3])<<24
			pc += 4
		}
		if n < 0 || len(s)-pc < n {
			return 0, nil, pc, false
		}
		data = s[pc : pc+n]
		pc += n
	}
	return op, data, pc, true
}

// SigOpCount is CScript::GetSigOpCount(fAccurate).
func SigOpCount(s []byte, accurate bool) int {
	n := 0
	last := byte(0xff)
	for pc := 0; pc < len(s); {
		op, _, next, ok := getOp(s, pc)
		if !ok {
			break
		}
		pc = next
		switch op {
		case 0xac, 0xad:
			n++
		case 0xae, 0xaf:
			if accurate && last >= 0x51 && last <= 0x60 {
				n += int(last - 0x50)
			} else {
				n += 20
			}
		}
		last = op
	}
	return n
}

func IsP2SH(s []byte) bool {
	return len(s) == 23 && s[0] == 0xa9 && s[1] == 0x14 && s[22] == 0x87
}

func isPushOnly(s []byte) bool {
	for pc := 0; pc < len(s); {
		op, _, next, ok := getOp(s, pc)
		if !ok || op > 0x60 {
			return false
		}
		pc = next
	}
	return true
}

// P2SHSigOpCount is CScript::GetSigOpCount(scriptSig) for a P2SH output.
func P2SHSigOpCount(pk, scriptSig []byte) int {
	if !IsP2SH(pk) {
		return 0
	}
	var data []byte
	for pc := 0; pc < len(scriptSig); {
		op, d, next, ok := getOp(scriptSig, pc)
		if !ok || op > 0x60 {
			return 0
		}
		data = d
		pc = next
	}
	return SigOpCount(data, true)
}

// WitnessProgram reports (version, program) for a witness program script.
func WitnessProgram(s []byte) (int, []byte, bool) {
	if len(s) < 4 || len(s) > 42 {
		return 0, nil, false
	}
	if s[0] != 0 && (s[0] < 0x51 || s[0] > 0x60) {
		return 0, nil, false
	}
	if int(s[1])+2 != len(s) {
		return 0, nil, false
	}
	v := 0
	if s[0] != 0 {
		v = int(s[0]) - 0x50
	}
	return v, s[2:], true
}

func witnessSigOps(ver int, prog []byte, wit [][]byte) int {
	if ver == 0 {
		if len(prog) == 20 {
			return 1
		}
		if len(prog) == 32 && len(wit) > 0 {
			return SigOpCount(wit[len(wit)-1], true)
		}
	}
	return 0
}

// CountWitnessSigOps is interpreter.cpp's function.
func CountWitnessSigOps(scriptSig, pk []byte, wit [][]byte, flags uint32) int {
	if flags&FlagWITNESS == 0 {
		return 0
	}
	if v, p, ok := WitnessProgram(pk); ok {
		return witnessSigOps(v, p, wit)
	}
	if IsP2SH(pk) && isPushOnly(scriptSig) {
		var data []byte
		for pc := 0; pc < len(scriptSig); {
			_, d, next, _ := getOp(scriptSig, pc)
			data = d
			pc = next
		}
		if v, p, ok := WitnessProgram(data); ok {
			return witnessSigOps(v, p, wit)
		}
	}
	return 0
}

// ---------------------------------------------------------------------------------------------
// UTXO view and block connection

type Coin struct {
	Value    uint64
	Script   []byte
	Height   uint32
	Coinbase bool
}

func OutKey(h [32]byte, i uint32) (k [36]byte) {
	copy(k[:], h[:])
	k[32], k[33], k[34], k[35] = byte(i), byte(i>>8), byte(i>>16), byte(i>>24)
	return
}

type UTXO map[[36]byte]Coin

func (u UTXO) Clone() UTXO {
	c := make(UTXO, len(u))
	for k, v := range u {
		c[k] = v
	}
	return c
}

// ScriptVerifier judges input idx of tx spending the given coins under flags.
type ScriptVerifier func(tx *wire.Tx, idx int, spent []wire.TxOut, flags uint32) bool

// BlockScriptFlags gives the script flags for a block at height (deployment by height).
func BlockScriptFlags(height uint32, p *Params) uint32 {
	f := uint32(FlagP2SH)
	if height >= p.BIP66Height {
		f |= FlagDERSIG
	}
	if height >= p.BIP65Height {
		f |= FlagCLTV
	}
	if p.CSVHeight != 0 && height >= p.CSVHeight {
		f |= FlagCSV
	}
	if p.SegwitHeight != 0 && height >= p.SegwitHeight {
		f |= FlagWITNESS | FlagNULLDUMMY
	}
	if p.TaprootHeight != 0 && height >= p.TaprootHeight {
		f |= FlagTAPROOT
	}
	return f
}

var witnessHeader = []byte{0x6a, 0x24, 0xaa, 0x21, 0xa9, 0xed}

// CommitmentIndex is GetWitnessCommitmentIndex: the LAST matching coinbase output, -1 if none.
func CommitmentIndex(cb *wire.Tx) int {
	pos := -1
	for i, o := range cb.Out {
		if len(o.PkScript) >= 38 && bytes.Equal(o.PkScript[:6], witnessHeader) {
			pos = i
		}
	}
	return pos
}

// TxSigOpCost is GetTransactionSigOpCost: 4 x legacy + 4 x P2SH + witness sig-ops.  coins are the spent
// coins (nil for a coinbase).
func TxSigOpCost(tx *wire.Tx, coins []Coin, flags uint32) int {
	n := 0
	for _, in := range tx.In {
		n += WitnessScaleFactor * SigOpCount(in.ScriptSig, false)
	}
	for _, o := range tx.Out {
		n += WitnessScaleFactor * SigOpCount(o.PkScript, false)
	}
	if coins == nil {
		return n
	}
	for j, in := range tx.In {
		if flags&FlagP2SH != 0 {
			n += WitnessScaleFactor * P2SHSigOpCount(coins[j].Script, in.ScriptSig)
		}
		n += CountWitnessSigOps(in.ScriptSig, coins[j].Script, in.Witness, flags)
	}
	return n
}

// CheckBlock = CheckBlock + ContextualCheckBlock (everything that does not need the UTXO set).
func CheckBlock(b *wire.Block, parent *Index, p *Params) error {
	if len(b.Txs) == 0 {
		return errors.New("bad-blk-length")
	}
	root, mutated := b.TxMerkleRoot()
	if root != b.Header.MerkleRoot {
		return errors.New("bad-txnmrklroot")
	}
	if mutated {
		return errors.New("bad-txns-duplicate")
	}
	if len(b.Txs)*WitnessScaleFactor > MaxBlockWeight || len(b.Serialize(false))*WitnessScaleFactor > MaxBlockWeight {
		return errors.New("bad-blk-length")
	}
	if !b.Txs[0].IsCoinBase() {
		return errors.New("bad-cb-missing")
	}
	for _, t := range b.Txs[1:] {
		if t.IsCoinBase() {
			return errors.New("bad-cb-multiple")
		}
	}
	sigops := 0
	for _, t := range b.Txs {
		if err := CheckTransaction(t); err != nil {
			return err
		}
		for _, in := range t.In {
			sigops += SigOpCount(in.ScriptSig, false)
		}
		for _, o := range t.Out {
			sigops += SigOpCount(o.PkScript, false)
		}
	}
	if sigops*WitnessScaleFactor > MaxBlockSigOpsCost {
		return errors.New("bad-blk-sigops")
	}
	// contextual
	height := parent.Height + 1
	csv := p.CSVHeight != 0 && height >= p.CSVHeight
	cutoff := int64(b.Header.Time)
	if csv {
		cutoff = int64(parent.MedianTimePast())
	}
	for _, t := range b.Txs {
		if !IsFinalTx(t, height, cutoff) {
			return errors.New("bad-txns-nonfinal")
		}
	}
	if height >= p.BIP34Height {
		want := HeightScript(height)
		if ss := b.Txs[0].In[0].ScriptSig; len(ss) < len(want) || !bytes.Equal(ss[:len(want)], want) {
			return errors.New("bad-cb-height")
		}
	}
	haveWitness := false
	if p.SegwitHeight != 0 && height >= p.SegwitHeight {
		if ci := CommitmentIndex(b.Txs[0]); ci >= 0 {
			w := b.Txs[0].In[0].Witness
			if len(w) != 1 || len(w[0]) != 32 {
				return errors.New("bad-witness-nonce-size")
			}
			c := wire.WitnessCommitment(b.WitnessMerkleRoot(), w[0])
			if !bytes.Equal(c[:], b.Txs[0].Out[ci].PkScript[6:38]) {
				return errors.New("bad-witness-merkle-match")
			}
			haveWitness = true
		}
	}
	if !haveWitness {
		for _, t := range b.Txs {
			if t.HasWitness() {
				return errors.New("unexpected-witness")
			}
		}
	}
	if b.Weight() > MaxBlockWeight {
		return errors.New("bad-blk-weight")
	}
	return nil
}

// ConnectBlock applies b on view (which is mutated only on success) for the block whose parent is
// parent.  Rules: inputs exist and are unspent at that point, coinbase maturity, value ranges, BIP68,
// sig-op cost, scripts, coinbase amount.
func ConnectBlock(b *wire.Block, parent *Index, view UTXO, p *Params, verify ScriptVerifier) error {
	height := parent.Height + 1
	flags := BlockScriptFlags(height, p)
	csv := flags&FlagCSV != 0
	work := view.Clone()
	var fees uint64
	sigops := 0
	type job struct {
		tx    *wire.Tx
		idx   int
		spent []wire.TxOut
	}
	var jobs []job
	for ti, tx := range b.Txs {
		if ti == 0 {
			sigops += TxSigOpCost(tx, nil, flags)
		}
		if ti > 0 {
			var valueIn uint64
			spent := make([]wire.TxOut, len(tx.In))
			coins := make([]Coin, len(tx.In))
			for j, in := range tx.In {
				c, ok := work[OutKey(in.PrevHash, in.PrevIndex)]
				if !ok {
					return errors.New("bad-txns-inputs-missingorspent")
				}
				coins[j] = c
				spent[j] = wire.TxOut{Value: c.Value, PkScript: c.Script}
			}
			for j := range tx.In {
				c := coins[j]
				if c.Coinbase && height-c.Height < CoinbaseMaturity {
					return errors.New("bad-txns-premature-spend-of-coinbase")
				}
				valueIn += c.Value
				if !moneyRange(c.Value) || !moneyRange(valueIn) {
					return errors.New("bad-txns-inputvalues-outofrange")
				}
			}
			var valueOut uint64
			for _, o := range tx.Out {
				valueOut += o.Value
			}
			if valueIn < valueOut {
				return errors.New("bad-txns-in-belowout")
			}
			fee := valueIn - valueOut
			if !moneyRange(fee) {
				return errors.New("bad-txns-fee-outofrange")
			}
			fees += fee
			if !moneyRange(fees) {
				return errors.New("bad-txns-accumulated-fee-outofrange")
			}
			// BIP68
			if csv && tx.Version >= 2 { // Core compares the version as unsigned here
				minHeight, minTime := int64(-1), int64(-1)
				for j, in := range tx.In {
					if in.Sequence&SeqDisableFlag != 0 {
						continue
					}
					ch := coins[j].Height
					if in.Sequence&SeqTypeFlag != 0 {
						ah := uint32(0)
						if ch > 0 {
							ah = ch - 1
						}
						anc := parent.Ancestor(ah)
						if ch == height { // coin created in this very block: its "previous block" is parent
							anc = parent
						}
						ct := int64(anc.MedianTimePast())
						if t := ct + int64(in.Sequence&SeqMask)<<SeqGranularity - 1; t > minTime {
							minTime = t
						}
					} else if h := int64(ch) + int64(in.Sequence&SeqMask) - 1; h > minHeight {
						minHeight = h
					}
				}
				if minHeight >= int64(height) || minTime >= int64(parent.MedianTimePast()) {
					return errors.New("bad-txns-nonfinal (BIP68)")
				}
			}
			sigops += TxSigOpCost(tx, coins, flags)
			for j, in := range tx.In {
				delete(work, OutKey(in.PrevHash, in.PrevIndex))
				jobs = append(jobs, job{tx, j, spent})
			}
		}
		if sigops > MaxBlockSigOpsCost {
			return errors.New("bad-blk-sigops")
		}
		id := tx.TxID()
		for j, o := range tx.Out {
			work[OutKey(id, uint32(j))] = Coin{Value: o.Value, Script: o.PkScript, Height: height, Coinbase: ti == 0}
		}
	}
	for _, j := range jobs {
		if !verify(j.tx, j.idx, j.spent, flags) {
			return errors.New("mandatory-script-verify-flag-failed")
		}
	}
	var cbOut uint64
	for _, o := range b.Txs[0].Out {
		cbOut += o.Value
	}
	if cbOut > fees+BlockSubsidy(height) {
		return errors.New("bad-cb-amount")
	}
	for k := range view {
		delete(view, k)
	}
	for k, v := range work {
		view[k] = v
	}
	return nil
}

// Unspendable is CScript::IsUnspendable (such outputs never enter Core's UTXO set).
func Unspendable(s []byte) bool {
	return len(s) > 0 && s[0] == 0x6a || len(s) > 10000
}
