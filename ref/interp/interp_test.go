package interp

import (
	"encoding/hex"
	"encoding/json"
	"fmt"
	"math"
	"os"
	"strconv"
	"strings"
	"testing"

	"verif/ref/ec"
	"verif/ref/sighash"
	"verif/ref/wire"
)

func TestRipemd160(t *testing.T) {
	vec := map[string]string{
		"":                           "9c1185a5c5e9fc54612808977ee8f548b2258d31",
		"a":                          "0bdc9d2d256b3ee9daae347be6f4dc835a467ffe",
		"abc":                        "8eb208f7e05d987a9b044a8e98c6b087f15a0bfc",
		"message digest":             "5d0689ef49d2fae572b881b123a85ffa21595f36",
		"abcdefghijklmnopqrstuvwxyz": "f71c27109c692c1b56bbdceb5b9d2865b3708dbc",
		"abcdbcdecdefdefgefghfghighijhijkijkljklmklmnlmnomnopnopq":                         "12a053384a9c0c88e405a06c27dcf49ada62eb2b",
		"ABCDEFGHIJKLMNOPQRSTUVWXYZabcdefghijklmnopqrstuvwxyz0123456789":                   "b0e20b6e3116640286ed3a87a5713079b21f5189",
		"12345678901234567890123456789012345678901234567890123456789012345678901234567890": "9b752e45573d4b39f4dbd3323cab82bf63326bfb",
	}
	for in, want := range vec {
		h := Ripemd160([]byte(in))
		if hex.EncodeToString(h[:]) != want {
			t.Errorf("ripemd160(%q) = %x, want %s", in, h, want)
		}
	}
	h := Ripemd160([]byte(strings.Repeat("a", 1000000)))
	if hex.EncodeToString(h[:]) != "52783243c1697bdbe16d37f97f68f08325dc1528" {
		t.Errorf("ripemd160(million a) = %x", h)
	}
}

// ---- Core's script assembly notation (core_read.cpp ParseScript) ---------------------------------

var opNames = map[string]int{}

func init() {
	names := map[int]string{
		OP_RESERVED: "RESERVED", OP_NOP: "NOP", OP_VER: "VER", OP_IF: "IF", OP_NOTIF: "NOTIF", OP_VERIF: "VERIF",
		OP_VERNOTIF: "VERNOTIF", OP_ELSE: "ELSE", OP_ENDIF: "ENDIF", OP_VERIFY: "VERIFY", OP_RETURN: "RETURN",
		OP_TOALTSTACK: "TOALTSTACK", OP_FROMALTSTACK: "FROMALTSTACK", OP_2DROP: "2DROP", OP_2DUP: "2DUP", OP_3DUP: "3DUP",
		OP_2OVER: "2OVER", OP_2ROT: "2ROT", OP_2SWAP: "2SWAP", OP_IFDUP: "IFDUP", OP_DEPTH: "DEPTH", OP_DROP: "DROP",
		OP_DUP: "DUP", OP_NIP: "NIP", OP_OVER: "OVER", OP_PICK: "PICK", OP_ROLL: "ROLL", OP_ROT: "ROT", OP_SWAP: "SWAP",
		OP_TUCK: "TUCK", OP_CAT: "CAT", OP_SUBSTR: "SUBSTR", OP_LEFT: "LEFT", OP_RIGHT: "RIGHT", OP_SIZE: "SIZE",
		OP_INVERT: "INVERT", OP_AND: "AND", OP_OR: "OR", OP_XOR: "XOR", OP_EQUAL: "EQUAL", OP_EQUALVERIFY: "EQUALVERIFY",
		OP_RESERVED1: "RESERVED1", OP_RESERVED2: "RESERVED2", OP_1ADD: "1ADD", OP_1SUB: "1SUB", OP_2MUL: "2MUL",
		OP_2DIV: "2DIV", OP_NEGATE: "NEGATE", OP_ABS: "ABS", OP_NOT: "NOT", OP_0NOTEQUAL: "0NOTEQUAL", OP_ADD: "ADD",
		OP_SUB: "SUB", OP_MUL: "MUL", OP_DIV: "DIV", OP_MOD: "MOD", OP_LSHIFT: "LSHIFT", OP_RSHIFT: "RSHIFT",
		OP_BOOLAND: "BOOLAND", OP_BOOLOR: "BOOLOR", OP_NUMEQUAL: "NUMEQUAL", OP_NUMEQUALVERIFY: "NUMEQUALVERIFY",
		OP_NUMNOTEQUAL: "NUMNOTEQUAL", OP_LESSTHAN: "LESSTHAN", OP_GREATERTHAN: "GREATERTHAN",
		OP_LESSTHANOREQUAL: "LESSTHANOREQUAL", OP_GREATERTHANOREQUAL: "GREATERTHANOREQUAL", OP_MIN: "MIN", OP_MAX: "MAX",
		OP_WITHIN: "WITHIN", OP_RIPEMD160: "RIPEMD160", OP_SHA1: "SHA1", OP_SHA256: "SHA256", OP_HASH160: "HASH160",
		OP_HASH256: "HASH256", OP_CODESEPARATOR: "CODESEPARATOR", OP_CHECKSIG: "CHECKSIG", OP_CHECKSIGVERIFY: "CHECKSIGVERIFY",
		OP_CHECKMULTISIG: "CHECKMULTISIG", OP_CHECKMULTISIGVERIFY: "CHECKMULTISIGVERIFY", OP_NOP1: "NOP1",
		OP_CHECKLOCKTIMEVERIFY: "CHECKLOCKTIMEVERIFY", OP_CHECKSEQUENCEVERIFY: "CHECKSEQUENCEVERIFY",
		0xb3: "NOP4", 0xb4: "NOP5", 0xb5: "NOP6", 0xb6: "NOP7", 0xb7: "NOP8", 0xb8: "NOP9", 0xb9: "NOP10",
		OP_CHECKSIGADD: "CHECKSIGADD",
	}
	for op, n := range names {
		opNames[n] = op
		opNames["OP_"+n] = op
	}
	// older spellings
	opNames["NOP2"], opNames["OP_NOP2"] = OP_CHECKLOCKTIMEVERIFY, OP_CHECKLOCKTIMEVERIFY
	opNames["NOP3"], opNames["OP_NOP3"] = OP_CHECKSEQUENCEVERIFY, OP_CHECKSEQUENCEVERIFY
}

func pushBytes(d []byte) []byte {
	n := len(d)
	switch {
	case n < OP_PUSHDATA1:
		return append([]byte{byte(n)}, d...)
	case n <= 0xff:
		return append([]byte{OP_PUSHDATA1, byte(n)}, d...)
	case n <= 0xffff:
		return append([]byte{OP_PUSHDATA2, byte(n), byte(n >> 8)}, d...)
	}
	return append([]byte{OP_PUSHDATA4, byte(n), byte(n >> 8), byte(n >> 16), byte(n >> 24)}, d...)
}

func pushInt(n int64) []byte {
	if n == -1 || (n >= 1 && n <= 16) {
		return []byte{byte(n + OP_1 - 1)}
	}
	if n == 0 {
		return []byte{OP_0}
	}
	return pushBytes(NumBytes(n))
}

func parseScript(s string) ([]byte, error) {
	var out []byte
	for _, w := range strings.FieldsFunc(s, func(r rune) bool { return r == ' ' || r == '\t' || r == '\n' }) {
		isNum := len(w) > 0
		for i, ch := range w {
			if !(ch >= '0' && ch <= '9') && !(i == 0 && ch == '-' && len(w) > 1) {
				isNum = false
			}
		}
		switch {
		case isNum:
			n, err := strconv.ParseInt(w, 10, 64)
			if err != nil {
				return nil, err
			}
			out = append(out, pushInt(n)...)
		case strings.HasPrefix(w, "0x") && len(w) > 2:
			b, err := hex.DecodeString(w[2:])
			if err != nil {
				return nil, fmt.Errorf("bad hex %q", w)
			}
			out = append(out, b...)
		case len(w) >= 2 && w[0] == '\'' && w[len(w)-1] == '\'':
			out = append(out, pushBytes([]byte(w[1:len(w)-1]))...)
		default:
			op, ok := opNames[w]
			if !ok {
				return nil, fmt.Errorf("unknown word %q", w)
			}
			out = append(out, byte(op))
		}
	}
	return out, nil
}

func parseFlags(s string) (uint32, error) {
	var f uint32
	if s == "" || s == "NONE" {
		return 0, nil
	}
	for _, n := range strings.Split(s, ",") {
		b, ok := FlagNames[n]
		if !ok {
			return 0, fmt.Errorf("unknown flag %q", n)
		}
		f |= b
	}
	return f, nil
}

// ---- script_tests.json -------------------------------------------------------------------------

func creditingTx(pk []byte, value uint64) *wire.Tx {
	tx := &wire.Tx{Version: 1}
	in := wire.TxIn{PrevIndex: 0xffffffff, ScriptSig: []byte{0, 0}, Sequence: 0xffffffff}
	tx.In = []wire.TxIn{in}
	tx.Out = []wire.TxOut{{Value: value, PkScript: pk}}
	return tx
}

func spendingTx(sig []byte, wit [][]byte, credit *wire.Tx) *wire.Tx {
	tx := &wire.Tx{Version: 1}
	tx.In = []wire.TxIn{{PrevHash: credit.TxID(), PrevIndex: 0, ScriptSig: sig, Sequence: 0xffffffff, Witness: wit}}
	tx.Out = []wire.TxOut{{Value: credit.Out[0].Value, PkScript: []byte{}}}
	return tx
}

func TestCoreScriptTests(t *testing.T) {
	raw, err := os.ReadFile("/repo/lib/test/script_tests.json")
	if err != nil {
		t.Fatal(err)
	}
	var entries [][]any
	if err := json.Unmarshal(raw, &entries); err != nil {
		t.Fatal(err)
	}
	total, pass, errNameMismatch := 0, 0, 0
	for _, e := range entries {
		if len(e) < 4 {
			continue // comment
		}
		pos := 0
		var wit [][]byte
		var amount uint64
		if arr, ok := e[0].([]any); ok {
			for i, x := range arr {
				if i == len(arr)-1 {
					amount = uint64(math.Round(x.(float64) * 1e8))
				} else {
					b, err := hex.DecodeString(x.(string))
					if err != nil {
						t.Fatalf("bad witness hex in %v", e)
					}
					wit = append(wit, b)
				}
			}
			pos = 1
		}
		if len(e) < pos+4 {
			continue
		}
		total++
		sigS, pkS, flS, want := e[pos].(string), e[pos+1].(string), e[pos+2].(string), e[pos+3].(string)
		sig, err := parseScript(sigS)
		if err != nil {
			t.Errorf("scriptSig %q: %v", sigS, err)
			continue
		}
		pk, err := parseScript(pkS)
		if err != nil {
			t.Errorf("scriptPubKey %q: %v", pkS, err)
			continue
		}
		flags, err := parseFlags(flS)
		if err != nil {
			t.Errorf("flags %q: %v", flS, err)
			continue
		}
		if flags&CLEANSTACK != 0 {
			flags |= P2SH | WITNESS // script_tests.cpp DoTest does the same
		}
		credit := creditingTx(pk, amount)
		spend := spendingTx(sig, wit, credit)
		res := VerifyEx(sig, pk, wit, spend, 0, amount, []wire.TxOut{credit.Out[0]}, flags)
		if res.Internal != "" {
			t.Errorf("internal panic on %v: %s", e, res.Internal)
			continue
		}
		if res.OK != (want == "OK") {
			t.Errorf("verdict %v (%s), want %s: %v", res.OK, res.Err, want, e)
			continue
		}
		pass++
		if res.Err != want && want != "error" { // one entry of this copy of the file says just "error"
			errNameMismatch++
			t.Errorf("error name %s, want %s: %v", res.Err, want, e)
		}
	}
	t.Logf("script_tests.json: %d of %d entries reproduce the expected verdict; %d with a different error name", pass, total, errNameMismatch)
	if total < 1100 {
		t.Errorf("only %d entries found", total)
	}
}

// ---- tx_valid.json / tx_invalid.json -----------------------------------------------------------

const maxMoney = 21000000 * 100000000

// checkTransaction is Core's context-free CheckTransaction; "" when valid.
func checkTransaction(tx *wire.Tx) string {
	if len(tx.In) == 0 {
		return "bad-txns-vin-empty"
	}
	if len(tx.Out) == 0 {
		return "bad-txns-vout-empty"
	}
	if len(tx.Serialize(false))*4 > 4000000 {
		return "bad-txns-oversize"
	}
	var sum int64
	for _, o := range tx.Out {
		v := int64(o.Value)
		if v < 0 {
			return "bad-txns-vout-negative"
		}
		if v > maxMoney {
			return "bad-txns-vout-toolarge"
		}
		sum += v
		if sum < 0 || sum > maxMoney {
			return "bad-txns-txouttotal-toolarge"
		}
	}
	seen := map[string]bool{}
	for _, in := range tx.In {
		k := string(in.PrevHash[:]) + fmt.Sprint(in.PrevIndex)
		if seen[k] {
			return "bad-txns-inputs-duplicate"
		}
		seen[k] = true
	}
	if tx.IsCoinBase() {
		if n := len(tx.In[0].ScriptSig); n < 2 || n > 100 {
			return "bad-cb-length"
		}
	} else {
		for _, in := range tx.In {
			if in.PrevHash == [32]byte{} && in.PrevIndex == 0xffffffff {
				return "bad-txns-prevout-null"
			}
		}
	}
	return ""
}

type prevKey struct {
	h [32]byte
	n uint32
}

// runTxVector returns ("" if every input verifies, else the first failure) for one json entry.
func runTxVector(e []any) (checkTx string, scriptErr string, err error) {
	prev := map[prevKey]wire.TxOut{}
	for _, x := range e[0].([]any) {
		p := x.([]any)
		hb, err := hex.DecodeString(p[0].(string))
		if err != nil || len(hb) != 32 {
			return "", "", fmt.Errorf("bad prevout hash")
		}
		var k prevKey
		for i := range hb {
			k.h[i] = hb[31-i]
		}
		k.n = uint32(int64(p[1].(float64)))
		pk, err := parseScript(p[2].(string))
		if err != nil {
			return "", "", err
		}
		o := wire.TxOut{PkScript: pk}
		if len(p) > 3 {
			o.Value = uint64(p[3].(float64))
		}
		prev[k] = o
	}
	rawtx, err := hex.DecodeString(e[1].(string))
	if err != nil {
		return "", "", err
	}
	tx, used, err := wire.DecodeTx(rawtx)
	if err != nil {
		return "", "", fmt.Errorf("decode: %v", err)
	}
	if used != len(rawtx) {
		return "", "", fmt.Errorf("trailing bytes")
	}
	flags, err := parseFlags(e[2].(string))
	if err != nil {
		return "", "", err
	}
	checkTx = checkTransaction(tx)
	spent := make([]wire.TxOut, len(tx.In))
	for i, in := range tx.In {
		o, ok := prev[prevKey{in.PrevHash, in.PrevIndex}]
		if !ok {
			return checkTx, "", fmt.Errorf("missing prevout for input %d", i)
		}
		spent[i] = o
	}
	for i, in := range tx.In {
		res := VerifyEx(in.ScriptSig, spent[i].PkScript, in.Witness, tx, i, spent[i].Value, spent, flags)
		if res.Internal != "" {
			return checkTx, "", fmt.Errorf("internal panic: %s", res.Internal)
		}
		if !res.OK {
			return checkTx, fmt.Sprintf("input %d: %s", i, res.Err), nil
		}
	}
	return checkTx, "", nil
}

func loadTxVectors(t *testing.T, fn string) [][]any {
	raw, err := os.ReadFile(fn)
	if err != nil {
		t.Fatal(err)
	}
	var entries [][]any
	if err := json.Unmarshal(raw, &entries); err != nil {
		t.Fatal(err)
	}
	var out [][]any
	for _, e := range entries {
		if len(e) == 3 {
			if _, ok := e[0].([]any); ok {
				out = append(out, e)
			}
		}
	}
	return out
}

func TestCoreTxValid(t *testing.T) {
	vs := loadTxVectors(t, "/repo/lib/test/tx_valid.json")
	pass := 0
	for _, e := range vs {
		ct, se, err := runTxVector(e)
		if err != nil {
			t.Errorf("%v: %v", e[1], err)
			continue
		}
		if ct != "" || se != "" {
			t.Errorf("valid transaction refused (%s %s): %v", ct, se, e)
			continue
		}
		pass++
	}
	t.Logf("tx_valid.json: %d of %d entries accepted", pass, len(vs))
	if len(vs) < 100 {
		t.Errorf("only %d entries", len(vs))
	}
}

func TestCoreTxInvalid(t *testing.T) {
	vs := loadTxVectors(t, "/repo/lib/test/tx_invalid.json")
	byScript, byCheckTx := 0, 0
	for _, e := range vs {
		ct, se, err := runTxVector(e)
		if err != nil {
			t.Errorf("%v: %v", e[1], err)
			continue
		}
		switch {
		case ct != "":
			byCheckTx++
		case se != "":
			byScript++
		default:
			t.Errorf("invalid transaction accepted: %v", e)
		}
	}
	t.Logf("tx_invalid.json: %d entries, %d refused by script verification, %d by CheckTransaction", len(vs), byScript, byCheckTx)
	if len(vs) < 70 {
		t.Errorf("only %d entries", len(vs))
	}
}

// ---- sig-op counters and robustness --------------------------------------------------------------

func TestSigOpCount(t *testing.T) {
	sc := func(s string) []byte {
		b, err := parseScript(s)
		if err != nil {
			t.Fatal(err)
		}
		return b
	}
	cases := []struct {
		s        string
		acc, ina int
	}{
		{"CHECKSIG", 1, 1},
		{"CHECKSIG CHECKSIGVERIFY", 2, 2},
		{"2 0x21 0x" + strings.Repeat("02", 33) + " 0x21 0x" + strings.Repeat("03", 33) + " 2 CHECKMULTISIG", 2, 20},
		{"CHECKMULTISIG", 20, 20},
		{"16 CHECKMULTISIGVERIFY", 16, 20},
		{"RETURN CHECKSIG", 1, 1},                  // does not stop at OP_RETURN
		{"CHECKSIG 0x4c 0x05 0x00 CHECKSIG", 1, 1}, // stops at the truncated push
		{"0 CHECKMULTISIG", 20, 20},                // OP_0 is not OP_1..16
		{"IF CHECKSIG ELSE 3 CHECKMULTISIG ENDIF", 4, 21},
	}
	for _, c := range cases {
		b := sc(c.s)
		if g := SigOpCount(b, true); g != c.acc {
			t.Errorf("%q accurate %d want %d", c.s, g, c.acc)
		}
		if g := SigOpCount(b, false); g != c.ina {
			t.Errorf("%q inaccurate %d want %d", c.s, g, c.ina)
		}
	}
	// P2SH: last pushed item is scanned accurately; non-push-only scriptSig gives 0
	redeem := sc("2 0x21 0x" + strings.Repeat("02", 33) + " 0x21 0x" + strings.Repeat("03", 33) + " 2 CHECKMULTISIG")
	p2sh := append(append([]byte{OP_HASH160, 20}, hash160(redeem)...), OP_EQUAL)
	ss := append([]byte{0}, pushBytes(redeem)...)
	if g := P2SHSigOpCount(p2sh, ss); g != 2 {
		t.Errorf("p2sh sigops %d", g)
	}
	if g := P2SHSigOpCount(p2sh, append([]byte{OP_NOP}, ss...)); g != 0 {
		t.Errorf("p2sh sigops with non-push scriptSig %d", g)
	}
	if g := P2SHSigOpCount(p2sh, append(append([]byte{}, ss...), OP_1)); g != 0 {
		t.Errorf("p2sh sigops with trailing OP_1 %d (last item is empty)", g)
	}
	// witness
	wpkh := append([]byte{0, 20}, make([]byte, 20)...)
	if g := WitnessSigOpCount(nil, wpkh, nil, P2SH|WITNESS); g != 1 {
		t.Errorf("p2wpkh %d", g)
	}
	if g := WitnessSigOpCount(nil, wpkh, nil, P2SH); g != 0 {
		t.Errorf("p2wpkh without WITNESS %d", g)
	}
	wsh := append([]byte{0, 32}, sha256sum(redeem)...)
	if g := WitnessSigOpCount(nil, wsh, [][]byte{{}, redeem}, P2SH|WITNESS); g != 2 {
		t.Errorf("p2wsh %d", g)
	}
	p2shwsh := append(append([]byte{OP_HASH160, 20}, hash160(wsh)...), OP_EQUAL)
	if g := WitnessSigOpCount(pushBytes(wsh), p2shwsh, [][]byte{{}, redeem}, P2SH|WITNESS); g != 2 {
		t.Errorf("p2sh-p2wsh %d", g)
	}
	tr := append([]byte{OP_1, 32}, make([]byte, 32)...)
	if g := WitnessSigOpCount(nil, tr, [][]byte{redeem}, P2SH|WITNESS); g != 0 {
		t.Errorf("v1 %d", g)
	}
}

func TestNeverPanicsOnJunk(t *testing.T) {
	// deterministic junk: every prefix of a byte pattern as scriptSig / scriptPubKey / witness item
	pat := make([]byte, 700)
	x := uint32(12345)
	for i := range pat {
		x = x*1664525 + 1013904223
		pat[i] = byte(x >> 24)
	}
	tx := &wire.Tx{Version: 2, In: []wire.TxIn{{Sequence: 5}}, Out: []wire.TxOut{{Value: 1}}}
	for n := 0; n < len(pat); n += 7 {
		for _, fl := range []uint32{0, P2SH, P2SH | WITNESS | TAPROOT, AllFlags} {
			for _, pk := range [][]byte{pat[:n], append([]byte{OP_1, 32}, pat[:32]...), append([]byte{0, 32}, sha256sum(pat[:n])...)} {
				r := VerifyEx(pat[n/2:n], pk, [][]byte{pat[:n/3], pat[:n], pat[:33+32*(n%4)]}, tx, 0, 1, []wire.TxOut{{Value: 1, PkScript: pk}}, fl)
				if r.Internal != "" {
					t.Fatalf("panic: %s", r.Internal)
				}
			}
		}
	}
}

// ---- taproot self-consistency (no official vectors are available offline) --------------------

func TestTaprootSelfConsistency(t *testing.T) {
	sk := sha256sum([]byte("key one"))
	sk2 := sha256sum([]byte("key two"))
	px, _ := ec.XOnlyPubKey(sk)
	px2, _ := ec.XOnlyPubKey(sk2)
	flags := uint32(P2SH | WITNESS | TAPROOT)

	mk := func(pk []byte) (*wire.Tx, []wire.TxOut) {
		tx := &wire.Tx{Version: 2, In: []wire.TxIn{{PrevHash: [32]byte{7}, PrevIndex: 1, Sequence: 0xfffffffe}}, Out: []wire.TxOut{{Value: 900, PkScript: []byte{OP_1}}}}
		return tx, []wire.TxOut{{Value: 1000, PkScript: pk}}
	}

	// key path, no script tree
	tw := sighash.TapTweakHash(px, nil)
	q, _, ok := ec.TweakAdd(px, tw[:])
	if !ok {
		t.Fatal("tweak")
	}
	pk := append([]byte{OP_1, 32}, q...)
	tx, spent := mk(pk)
	for _, ht := range []byte{0, 1, 2, 3, 0x81, 0x82, 0x83} {
		for _, annex := range [][]byte{nil, {0x50, 1, 2}} {
			d, ok := sighash.BIP341(tx, 0, spent, ht, 0, annex, nil, 0)
			if !ok {
				t.Fatal("digest")
			}
			sig := ec.SchnorrSign(ec.TweakSecret(sk, tw[:]), d[:], make([]byte, 32))
			if ht != 0 {
				sig = append(sig, ht)
			}
			wit := [][]byte{sig}
			if annex != nil {
				wit = append(wit, annex)
			}
			if ok, e := Verify(nil, pk, wit, tx, 0, 1000, spent, flags); !ok {
				t.Errorf("key path ht=%x annex=%v refused: %s", ht, annex != nil, e)
			}
			// wrong annex / dropped annex must fail
			if annex != nil {
				if ok, _ := Verify(nil, pk, wit[:1], tx, 0, 1000, spent, flags); ok {
					t.Errorf("key path signature valid without its annex")
				}
			}
			bad := append([]byte{}, sig...)
			bad[5] ^= 1
			w2 := append([][]byte{bad}, wit[1:]...)
			if ok, e := Verify(nil, pk, w2, tx, 0, 1000, spent, flags); ok || e != "SCHNORR_SIG" {
				t.Errorf("corrupted key path signature: %v %s", ok, e)
			}
		}
	}
	// undefined hash types
	for _, ht := range []byte{4, 0x80, 0x84, 0xff} {
		sig := append(make([]byte, 64), ht)
		if ok, e := Verify(nil, pk, [][]byte{sig}, tx, 0, 1000, spent, flags); ok || e != "SCHNORR_SIG_HASHTYPE" {
			t.Errorf("hash type %x: %v %s", ht, ok, e)
		}
	}
	if ok, e := Verify(nil, pk, [][]byte{append(make([]byte, 64), 0)}, tx, 0, 1000, spent, flags); ok || e != "SCHNORR_SIG_HASHTYPE" {
		t.Errorf("65 bytes with type 0: %v %s", ok, e)
	}
	if ok, e := Verify(nil, pk, [][]byte{{}}, tx, 0, 1000, spent, flags); ok || e != "SCHNORR_SIG_SIZE" {
		t.Errorf("empty key path signature: %v %s", ok, e)
	}
	if ok, _ := Verify(nil, pk, [][]byte{{}}, tx, 0, 1000, spent, P2SH|WITNESS); !ok {
		t.Errorf("without TAPROOT everything passes")
	}

	// script path: two leaves, spend leaf A = <px2> CHECKSIG
	leafA := append(append([]byte{32}, px2...), OP_CHECKSIG)
	leafB := []byte{OP_1}
	hA := sighash.TapLeafHash(0xc0, leafA)
	hB := sighash.TapLeafHash(0xc0, leafB)
	root := sighash.TapBranchHash(hA, hB)
	tw = sighash.TapTweakHash(px, root[:])
	q, par, _ := ec.TweakAdd(px, tw[:])
	pk = append([]byte{OP_1, 32}, q...)
	tx, spent = mk(pk)
	c0 := byte(0xc0)
	if par {
		c0 |= 1
	}
	control := append(append([]byte{c0}, px...), hB[:]...)
	d, _ := sighash.BIP341(tx, 0, spent, 0, 1, nil, hA[:], 0xffffffff)
	sig := ec.SchnorrSign(sk2, d[:], make([]byte, 32))
	wit := [][]byte{sig, leafA, control}
	if ok, e := Verify(nil, pk, wit, tx, 0, 1000, spent, flags); !ok {
		t.Errorf("script path refused: %s", e)
	}
	// wrong parity bit
	c2 := append([]byte{}, control...)
	c2[0] ^= 1
	if ok, e := Verify(nil, pk, [][]byte{sig, leafA, c2}, tx, 0, 1000, spent, flags); ok || e != "WITNESS_PROGRAM_MISMATCH" {
		t.Errorf("wrong parity: %v %s", ok, e)
	}
	// control sizes
	for _, n := range []int{0, 32, 34, 64, 66, 33 + 32*128 + 32, 33 + 32*128 + 1} {
		if ok, e := Verify(nil, pk, [][]byte{sig, leafA, make([]byte, n)}, tx, 0, 1000, spent, flags); ok || e != "TAPROOT_WRONG_CONTROL_SIZE" {
			t.Errorf("control size %d: %v %s", n, ok, e)
		}
	}
	// leaf B (OP_1) with empty stack
	controlB := append(append([]byte{c0}, px...), hA[:]...)
	if ok, e := Verify(nil, pk, [][]byte{leafB, controlB}, tx, 0, 1000, spent, flags); !ok {
		t.Errorf("leaf B refused: %s", e)
	}
	// empty signature gives false, not an error; non-empty invalid is an error
	if ok, e := Verify(nil, pk, [][]byte{{}, leafA, control}, tx, 0, 1000, spent, flags); ok || e != "EVAL_FALSE" {
		t.Errorf("empty sig: %v %s", ok, e)
	}
	bad := append([]byte{}, sig...)
	bad[40] ^= 4
	if ok, e := Verify(nil, pk, [][]byte{bad, leafA, control}, tx, 0, 1000, spent, flags); ok || e != "SCHNORR_SIG" {
		t.Errorf("bad sig: %v %s", ok, e)
	}
	// P2SH-wrapped v1 is not taproot: anything goes
	redeem := pk
	p2sh := append(append([]byte{OP_HASH160, 20}, hash160(redeem)...), OP_EQUAL)
	if ok, e := Verify(pushBytes(redeem), p2sh, [][]byte{{1, 2, 3}}, tx, 0, 1000, spent, flags); !ok {
		t.Errorf("p2sh-wrapped v1: %s", e)
	}
	if ok, e := Verify(pushBytes(redeem), p2sh, [][]byte{{1, 2, 3}}, tx, 0, 1000, spent, flags|DISCOURAGE_UPGRADABLE_WITNESS_PROGRAM); ok || e != "DISCOURAGE_UPGRADABLE_WITNESS_PROGRAM" {
		t.Errorf("p2sh-wrapped v1 discouraged: %v %s", ok, e)
	}
}
