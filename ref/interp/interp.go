// Package interp is an independent reference for Bitcoin's script verification: a port of Bitcoin
// Core's VerifyScript / EvalScript / VerifyWitnessProgram / ExecuteWitnessScript (interpreter.cpp)
// and of the signature-operation counters (script.cpp, interpreter.cpp), written from Core's
// semantics and DESIGN.md Appendix A.  It imports nothing from gocoin.  Obviousness is favoured over
// speed: stacks are [][]byte, numbers int64, every signature hash is recomputed from scratch by
// ref/sighash and every signature is checked by ref/ec (math/big).
//
// Error strings are Core's ScriptError names as they appear in script_tests.json ("EVAL_FALSE", ...).
package interp

import (
	"bytes"
	"crypto/sha1"
	"crypto/sha256"
	"fmt"

	"verif/ref/ec"
	"verif/ref/sighash"
	"verif/ref/wire"
)

// Script verification flags, Core's bit values.
const (
	P2SH                                  = 1 << 0
	STRICTENC                             = 1 << 1
	DERSIG                                = 1 << 2
	LOW_S                                 = 1 << 3
	NULLDUMMY                             = 1 << 4
	SIGPUSHONLY                           = 1 << 5
	MINIMALDATA                           = 1 << 6
	DISCOURAGE_UPGRADABLE_NOPS            = 1 << 7
	CLEANSTACK                            = 1 << 8
	CHECKLOCKTIMEVERIFY                   = 1 << 9
	CHECKSEQUENCEVERIFY                   = 1 << 10
	WITNESS                               = 1 << 11
	DISCOURAGE_UPGRADABLE_WITNESS_PROGRAM = 1 << 12
	MINIMALIF                             = 1 << 13
	NULLFAIL                              = 1 << 14
	WITNESS_PUBKEYTYPE                    = 1 << 15
	CONST_SCRIPTCODE                      = 1 << 16
	TAPROOT                               = 1 << 17
	DISCOURAGE_UPGRADABLE_TAPROOT_VERSION = 1 << 18
	DISCOURAGE_OP_SUCCESS                 = 1 << 19
	DISCOURAGE_UPGRADABLE_PUBKEYTYPE      = 1 << 20

	AllFlags = 1<<21 - 1
)

// FlagNames maps the names used in Core's json vectors to the bits.
var FlagNames = map[string]uint32{
	"P2SH": P2SH, "STRICTENC": STRICTENC, "DERSIG": DERSIG, "LOW_S": LOW_S, "NULLDUMMY": NULLDUMMY,
	"SIGPUSHONLY": SIGPUSHONLY, "MINIMALDATA": MINIMALDATA, "DISCOURAGE_UPGRADABLE_NOPS": DISCOURAGE_UPGRADABLE_NOPS,
	"CLEANSTACK": CLEANSTACK, "CHECKLOCKTIMEVERIFY": CHECKLOCKTIMEVERIFY, "CHECKSEQUENCEVERIFY": CHECKSEQUENCEVERIFY,
	"WITNESS": WITNESS, "DISCOURAGE_UPGRADABLE_WITNESS_PROGRAM": DISCOURAGE_UPGRADABLE_WITNESS_PROGRAM,
	"MINIMALIF": MINIMALIF, "NULLFAIL": NULLFAIL, "WITNESS_PUBKEYTYPE": WITNESS_PUBKEYTYPE,
	"CONST_SCRIPTCODE": CONST_SCRIPTCODE, "TAPROOT": TAPROOT,
	"DISCOURAGE_UPGRADABLE_TAPROOT_VERSION": DISCOURAGE_UPGRADABLE_TAPROOT_VERSION,
	"DISCOURAGE_OP_SUCCESS":                 DISCOURAGE_OP_SUCCESS,
	"DISCOURAGE_UPGRADABLE_PUBKEYTYPE":      DISCOURAGE_UPGRADABLE_PUBKEYTYPE,
}

// FlagsConsistent is Core's dependency rule between flags (the asserts of VerifyScript /
// CountWitnessSigOps): WITNESS needs P2SH, CLEANSTACK needs P2SH and WITNESS.
func FlagsConsistent(f uint32) bool {
	if f&WITNESS != 0 && f&P2SH == 0 {
		return false
	}
	if f&CLEANSTACK != 0 && (f&P2SH == 0 || f&WITNESS == 0) {
		return false
	}
	return true
}

// Opcodes.
const (
	OP_0                   = 0x00
	OP_PUSHDATA1           = 0x4c
	OP_PUSHDATA2           = 0x4d
	OP_PUSHDATA4           = 0x4e
	OP_1NEGATE             = 0x4f
	OP_RESERVED            = 0x50
	OP_1                   = 0x51
	OP_16                  = 0x60
	OP_NOP                 = 0x61
	OP_VER                 = 0x62
	OP_IF                  = 0x63
	OP_NOTIF               = 0x64
	OP_VERIF               = 0x65
	OP_VERNOTIF            = 0x66
	OP_ELSE                = 0x67
	OP_ENDIF               = 0x68
	OP_VERIFY              = 0x69
	OP_RETURN              = 0x6a
	OP_TOALTSTACK          = 0x6b
	OP_FROMALTSTACK        = 0x6c
	OP_2DROP               = 0x6d
	OP_2DUP                = 0x6e
	OP_3DUP                = 0x6f
	OP_2OVER               = 0x70
	OP_2ROT                = 0x71
	OP_2SWAP               = 0x72
	OP_IFDUP               = 0x73
	OP_DEPTH               = 0x74
	OP_DROP                = 0x75
	OP_DUP                 = 0x76
	OP_NIP                 = 0x77
	OP_OVER                = 0x78
	OP_PICK                = 0x79
	OP_ROLL                = 0x7a
	OP_ROT                 = 0x7b
	OP_SWAP                = 0x7c
	OP_TUCK                = 0x7d
	OP_CAT                 = 0x7e
	OP_SUBSTR              = 0x7f
	OP_LEFT                = 0x80
	OP_RIGHT               = 0x81
	OP_SIZE                = 0x82
	OP_INVERT              = 0x83
	OP_AND                 = 0x84
	OP_OR                  = 0x85
	OP_XOR                 = 0x86
	OP_EQUAL               = 0x87
	OP_EQUALVERIFY         = 0x88
	OP_RESERVED1           = 0x89
	OP_RESERVED2           = 0x8a
	OP_1ADD                = 0x8b
	OP_1SUB                = 0x8c
	OP_2MUL                = 0x8d
	OP_2DIV                = 0x8e
	OP_NEGATE              = 0x8f
	OP_ABS                 = 0x90
	OP_NOT                 = 0x91
	OP_0NOTEQUAL           = 0x92
	OP_ADD                 = 0x93
	OP_SUB                 = 0x94
	OP_MUL                 = 0x95
	OP_DIV                 = 0x96
	OP_MOD                 = 0x97
	OP_LSHIFT              = 0x98
	OP_RSHIFT              = 0x99
	OP_BOOLAND             = 0x9a
	OP_BOOLOR              = 0x9b
	OP_NUMEQUAL            = 0x9c
	OP_NUMEQUALVERIFY      = 0x9d
	OP_NUMNOTEQUAL         = 0x9e
	OP_LESSTHAN            = 0x9f
	OP_GREATERTHAN         = 0xa0
	OP_LESSTHANOREQUAL     = 0xa1
	OP_GREATERTHANOREQUAL  = 0xa2
	OP_MIN                 = 0xa3
	OP_MAX                 = 0xa4
	OP_WITHIN              = 0xa5
	OP_RIPEMD160           = 0xa6
	OP_SHA1                = 0xa7
	OP_SHA256              = 0xa8
	OP_HASH160             = 0xa9
	OP_HASH256             = 0xaa
	OP_CODESEPARATOR       = 0xab
	OP_CHECKSIG            = 0xac
	OP_CHECKSIGVERIFY      = 0xad
	OP_CHECKMULTISIG       = 0xae
	OP_CHECKMULTISIGVERIFY = 0xaf
	OP_NOP1                = 0xb0
	OP_CHECKLOCKTIMEVERIFY = 0xb1
	OP_CHECKSEQUENCEVERIFY = 0xb2
	OP_NOP4                = 0xb3
	OP_NOP10               = 0xb9
	OP_CHECKSIGADD         = 0xba
	OP_INVALIDOPCODE       = 0xff
)

// Limits and constants.
const (
	MaxScriptElementSize   = 520
	MaxOpsPerScript        = 201
	MaxPubkeysPerMultisig  = 20
	MaxScriptSize          = 10000
	MaxStackSize           = 1000
	LockTimeThreshold      = 500000000
	SequenceFinal          = 0xffffffff
	SequenceDisableFlag    = 1 << 31
	SequenceTypeFlag       = 1 << 22
	SequenceMask           = 0x0000ffff
	AnnexTag               = 0x50
	ValidationWeightOffset = 50
	ValidationWeightPerSig = 50
	TaprootLeafMask        = 0xfe
	TaprootLeafTapscript   = 0xc0
	TaprootControlBase     = 33
	TaprootControlNode     = 32
	TaprootControlMaxNodes = 128
	TaprootControlMaxSize  = TaprootControlBase + TaprootControlNode*TaprootControlMaxNodes
)

// Signature versions.
const (
	sigBase = iota
	sigWitnessV0
	sigTaproot
	sigTapscript
)

// GetOp is Core's GetScriptOp: opcode, pushed data (empty for non-push opcodes), position after the
// instruction, ok.  On failure next is len(script) (Core leaves the iterator unspecified; every
// caller here stops on failure).
func GetOp(script []byte, pc int) (opcode int, data []byte, next int, ok bool) {
	end := len(script)
	if pc >= end {
		return OP_INVALIDOPCODE, nil, end, false
	}
	op := int(script[pc])
	pc++
	if op <= OP_PUSHDATA4 {
		n := 0
		switch {
		case op < OP_PUSHDATA1:
			n = op
		case op == OP_PUSHDATA1:
			if end-pc < 1 {
				return OP_INVALIDOPCODE, nil, end, false
			}
			n = int(script[pc])
			pc++
		case op == OP_PUSHDATA2:
			if end-pc < 2 {
				return OP_INVALIDOPCODE, nil, end, false
			}
			n = int(script[pc]) | int(script[pc+1])<<8
			pc += 2
		default:
			if end-pc < 4 {
				return OP_INVALIDOPCODE, nil, end, false
			}
			// 32-bit unsigned; kept in an int64-capable int
			n64 := uint64(script[pc]) | uint64(script[pc+1])<<8 | uint64(script[pc+2])<<16 | uint64(script[pc+3])<<24
			pc += 4
			if n64 > uint64(end-pc) {
				return OP_INVALIDOPCODE, nil, end, false
			}
			n = int(n64)
		}
		if end-pc < n {
			return OP_INVALIDOPCODE, nil, end, false
		}
		data = script[pc : pc+n]
		pc += n
	}
	return op, data, pc, true
}

// IsPushOnly is CScript::IsPushOnly (OP_RESERVED counts as a push, as in Core).
func IsPushOnly(script []byte) bool {
	pc := 0
	for pc < len(script) {
		op, _, next, ok := GetOp(script, pc)
		if !ok {
			return false
		}
		if op > OP_16 {
			return false
		}
		pc = next
	}
	return true
}

// IsPayToScriptHash is CScript::IsPayToScriptHash.
func IsPayToScriptHash(s []byte) bool {
	return len(s) == 23 && s[0] == OP_HASH160 && s[1] == 0x14 && s[22] == OP_EQUAL
}

// IsWitnessProgram is CScript::IsWitnessProgram.
func IsWitnessProgram(s []byte) (version int, program []byte, ok bool) {
	if len(s) < 4 || len(s) > 42 {
		return 0, nil, false
	}
	if s[0] != OP_0 && (s[0] < OP_1 || s[0] > OP_16) {
		return 0, nil, false
	}
	if int(s[1])+2 == len(s) {
		v := 0
		if s[0] != OP_0 {
			v = int(s[0]) - (OP_1 - 1)
		}
		return v, s[2:], true
	}
	return 0, nil, false
}

// IsOpSuccess is BIP342's OP_SUCCESSx set.
func IsOpSuccess(op int) bool {
	return op == 80 || op == 98 || (op >= 126 && op <= 129) || (op >= 131 && op <= 134) ||
		(op >= 137 && op <= 138) || (op >= 141 && op <= 142) || (op >= 149 && op <= 153) ||
		(op >= 187 && op <= 254)
}

// CastToBool is Core's CastToBool: any non-zero byte, except that a final 0x80 alone (negative zero) is false.
func CastToBool(v []byte) bool {
	for i, b := range v {
		if b != 0 {
			if i == len(v)-1 && b == 0x80 {
				return false
			}
			return true
		}
	}
	return false
}

// errScriptNum is raised by number decoding; Core throws scriptnum_error which EvalScript turns
// into UNKNOWN_ERROR.
type numError struct{}

// scriptNum is CScriptNum(vch, fRequireMinimal, nMaxNumSize).
func scriptNum(v []byte, minimal bool, maxLen int) (int64, bool) {
	if len(v) > maxLen {
		return 0, false
	}
	if minimal && len(v) > 0 {
		if v[len(v)-1]&0x7f == 0 {
			if len(v) <= 1 || v[len(v)-2]&0x80 == 0 {
				return 0, false
			}
		}
	}
	if len(v) == 0 {
		return 0, true
	}
	var r uint64
	for i, b := range v {
		r |= uint64(b) << (8 * uint(i))
	}
	if v[len(v)-1]&0x80 != 0 {
		r &^= uint64(0x80) << (8 * uint(len(v)-1))
		return -int64(r), true
	}
	return int64(r), true
}

// NumBytes is CScriptNum::serialize.
func NumBytes(n int64) []byte {
	if n == 0 {
		return []byte{}
	}
	neg := n < 0
	var a uint64
	if neg {
		a = uint64(-n) // n is never MinInt64 here (operands are at most 5 bytes)
	} else {
		a = uint64(n)
	}
	var out []byte
	for a != 0 {
		out = append(out, byte(a))
		a >>= 8
	}
	if out[len(out)-1]&0x80 != 0 {
		if neg {
			out = append(out, 0x80)
		} else {
			out = append(out, 0)
		}
	} else if neg {
		out[len(out)-1] |= 0x80
	}
	return out
}

func getInt(n int64) int {
	if n > 0x7fffffff {
		return 0x7fffffff
	}
	if n < -0x80000000 {
		return -0x80000000
	}
	return int(n)
}

func checkMinimalPush(data []byte, op int) bool {
	switch {
	case len(data) == 0:
		return op == OP_0
	case len(data) == 1 && data[0] >= 1 && data[0] <= 16:
		return false
	case len(data) == 1 && data[0] == 0x81:
		return false
	case len(data) <= 75:
		return op == len(data)
	case len(data) <= 255:
		return op == OP_PUSHDATA1
	case len(data) <= 65535:
		return op == OP_PUSHDATA2
	}
	return true
}

// Result carries the verdict and what the evaluation went through.
type Result struct {
	OK  bool
	Err string // Core's ScriptError name, "OK" on success
	// statistics over the whole verification
	Ops          int  // opcodes dispatched or pushed while executing (all scripts together)
	SigChecks    int  // signature checks attempted (ECDSA or Schnorr, incl. failed encodings)
	P2SHRedeem   bool // the P2SH redeem script was evaluated
	WitnessProg  bool // VerifyWitnessProgram was entered
	Tapscript    bool // a tapscript leaf was executed
	KeyPath      bool // a taproot key-path check was made
	NopCLTVorCSV bool // CLTV/CSV executed as a NOP (its flag off) while DISCOURAGE_UPGRADABLE_NOPS was set: Core releases differ
	Internal     string
}

type execData struct {
	tapleafHash  [32]byte
	codesepPos   uint32
	annex        []byte // nil = absent
	weightLeft   int64
	weightInited bool
}

type checker struct {
	tx     *wire.Tx
	idx    int
	amount uint64
	spent  []wire.TxOut
	res    *Result
}

func sha256sum(b []byte) []byte { h := sha256.Sum256(b); return h[:] }

func hash160(b []byte) []byte {
	h := Ripemd160(sha256sum(b))
	return h[:]
}

// ---- encodings --------------------------------------------------------------------------------

func isDefinedHashtype(sig []byte) bool {
	if len(sig) == 0 {
		return false
	}
	ht := sig[len(sig)-1] &^ 0x80
	return ht >= 1 && ht <= 3
}

func checkSignatureEncoding(sig []byte, flags uint32) string {
	if len(sig) == 0 {
		return ""
	}
	if flags&(DERSIG|LOW_S|STRICTENC) != 0 && !ec.IsStrictDER(sig) {
		return "SIG_DER"
	}
	if flags&LOW_S != 0 {
		if !ec.IsStrictDER(sig) {
			return "SIG_DER"
		}
		if !ec.IsLowDERSignature(sig) {
			return "SIG_HIGH_S"
		}
	}
	if flags&STRICTENC != 0 && !isDefinedHashtype(sig) {
		return "SIG_HASHTYPE"
	}
	return ""
}

func isCompressedOrUncompressedPubKey(k []byte) bool {
	if len(k) < 33 {
		return false
	}
	switch k[0] {
	case 4:
		return len(k) == 65
	case 2, 3:
		return len(k) == 33
	}
	return false
}

func isCompressedPubKey(k []byte) bool {
	return len(k) == 33 && (k[0] == 2 || k[0] == 3)
}

func checkPubKeyEncoding(k []byte, flags uint32, sigversion int) string {
	if flags&STRICTENC != 0 && !isCompressedOrUncompressedPubKey(k) {
		return "PUBKEYTYPE"
	}
	if flags&WITNESS_PUBKEYTYPE != 0 && sigversion == sigWitnessV0 && !isCompressedPubKey(k) {
		return "WITNESS_PUBKEYTYPE"
	}
	return ""
}

// ---- signature checker ------------------------------------------------------------------------

// checkECDSA is GenericTransactionSignatureChecker::CheckECDSASignature.
func (c *checker) checkECDSA(sigIn, pubkey, scriptCode []byte, sigversion int) bool {
	c.res.SigChecks++
	// CPubKey(vch): header byte selects the length, which must match; IsValid() = recognised
	if len(pubkey) == 0 {
		return false
	}
	switch pubkey[0] {
	case 2, 3:
		if len(pubkey) != 33 {
			return false
		}
	case 4, 6, 7:
		if len(pubkey) != 65 {
			return false
		}
	default:
		return false
	}
	if len(sigIn) == 0 {
		return false
	}
	hashType := uint32(sigIn[len(sigIn)-1])
	sig := sigIn[:len(sigIn)-1]
	var digest [32]byte
	if sigversion == sigWitnessV0 {
		digest = sighash.BIP143(c.tx, c.idx, scriptCode, c.amount, hashType)
	} else {
		digest = sighash.Legacy(c.tx, c.idx, scriptCode, hashType)
	}
	return ec.VerifyConsensus(pubkey, sig, digest[:])
}

// checkSchnorr is GenericTransactionSignatureChecker::CheckSchnorrSignature; "" on success.
func (c *checker) checkSchnorr(sig, pubkey []byte, sigversion int, ed *execData) string {
	c.res.SigChecks++
	if len(pubkey) != 32 {
		return "INTERNAL_PUBKEY_SIZE" // caller's responsibility in Core (assert)
	}
	if len(sig) != 64 && len(sig) != 65 {
		return "SCHNORR_SIG_SIZE"
	}
	hashType := byte(0)
	if len(sig) == 65 {
		hashType = sig[64]
		sig = sig[:64]
		if hashType == 0 {
			return "SCHNORR_SIG_HASHTYPE"
		}
	}
	if len(c.spent) != len(c.tx.In) {
		return "MISSING_SPENT_OUTPUTS" // Core: HandleMissingData
	}
	ext := byte(0)
	var leaf []byte
	if sigversion == sigTapscript {
		ext = 1
		leaf = ed.tapleafHash[:]
	}
	digest, ok := sighash.BIP341(c.tx, c.idx, c.spent, hashType, ext, ed.annex, leaf, ed.codesepPos)
	if !ok {
		return "SCHNORR_SIG_HASHTYPE"
	}
	if !ec.SchnorrVerify(pubkey, digest[:], sig) {
		return "SCHNORR_SIG"
	}
	return ""
}

func (c *checker) checkLockTime(n int64) bool {
	lt := int64(c.tx.LockTime)
	if !((lt < LockTimeThreshold && n < LockTimeThreshold) || (lt >= LockTimeThreshold && n >= LockTimeThreshold)) {
		return false
	}
	if n > lt {
		return false
	}
	if c.tx.In[c.idx].Sequence == SequenceFinal {
		return false
	}
	return true
}

func (c *checker) checkSequence(n int64) bool {
	txSeq := int64(c.tx.In[c.idx].Sequence)
	if c.tx.Version < 2 {
		return false
	}
	if txSeq&SequenceDisableFlag != 0 {
		return false
	}
	const mask = SequenceTypeFlag | SequenceMask
	txm := txSeq & mask
	nm := n & mask
	if !((txm < SequenceTypeFlag && nm < SequenceTypeFlag) || (txm >= SequenceTypeFlag && nm >= SequenceTypeFlag)) {
		return false
	}
	if nm > txm {
		return false
	}
	return true
}

// ---- EvalChecksig ------------------------------------------------------------------------------

// evalChecksigPreTapscript returns (error name or "", success).
func (c *checker) evalChecksigPreTapscript(sig, pubkey, script []byte, begincodehash int, flags uint32, sigversion int) (string, bool) {
	scriptCode := script[begincodehash:]
	if sigversion == sigBase {
		var found int
		scriptCode, found = sighash.FindAndDelete(scriptCode, sighash.PushData(sig))
		if found > 0 && flags&CONST_SCRIPTCODE != 0 {
			return "SIG_FINDANDDELETE", false
		}
	}
	if e := checkSignatureEncoding(sig, flags); e != "" {
		return e, false
	}
	if e := checkPubKeyEncoding(pubkey, flags, sigversion); e != "" {
		return e, false
	}
	ok := c.checkECDSA(sig, pubkey, scriptCode, sigversion)
	if !ok && flags&NULLFAIL != 0 && len(sig) != 0 {
		return "NULLFAIL", false
	}
	return "", ok
}

func (c *checker) evalChecksigTapscript(sig, pubkey []byte, ed *execData, flags uint32) (string, bool) {
	success := len(sig) != 0
	if success {
		ed.weightLeft -= ValidationWeightPerSig
		if ed.weightLeft < 0 {
			return "TAPSCRIPT_VALIDATION_WEIGHT", false
		}
	}
	if len(pubkey) == 0 {
		return "PUBKEYTYPE", false
	} else if len(pubkey) == 32 {
		if success {
			if e := c.checkSchnorr(sig, pubkey, sigTapscript, ed); e != "" {
				return e, false
			}
		}
	} else {
		if flags&DISCOURAGE_UPGRADABLE_PUBKEYTYPE != 0 {
			return "DISCOURAGE_UPGRADABLE_PUBKEYTYPE", false
		}
	}
	return "", success
}

func (c *checker) evalChecksig(sig, pubkey, script []byte, begincodehash int, ed *execData, flags uint32, sigversion int) (string, bool) {
	switch sigversion {
	case sigBase, sigWitnessV0:
		return c.evalChecksigPreTapscript(sig, pubkey, script, begincodehash, flags, sigversion)
	case sigTapscript:
		return c.evalChecksigTapscript(sig, pubkey, ed, flags)
	}
	return "INTERNAL_SIGVERSION", false
}

// ---- EvalScript ---------------------------------------------------------------------------------

var vchTrue = []byte{1}
var vchFalse = []byte{}

func boolVch(b bool) []byte {
	if b {
		return vchTrue
	}
	return vchFalse
}

func isDisabled(op int) bool {
	switch op {
	case OP_CAT, OP_SUBSTR, OP_LEFT, OP_RIGHT, OP_INVERT, OP_AND, OP_OR, OP_XOR, OP_2MUL, OP_2DIV,
		OP_MUL, OP_DIV, OP_MOD, OP_LSHIFT, OP_RSHIFT:
		return true
	}
	return false
}

// evalScript is Core's EvalScript; returns the error name ("" = success) and the new stack.
func (c *checker) evalScript(stackIn [][]byte, script []byte, flags uint32, sigversion int, ed *execData) (string, [][]byte) {
	stack := stackIn
	var altstack [][]byte
	var vfExec []bool

	if (sigversion == sigBase || sigversion == sigWitnessV0) && len(script) > MaxScriptSize {
		return "SCRIPT_SIZE", stack
	}
	nOpCount := 0
	requireMinimal := flags&MINIMALDATA != 0
	ed.codesepPos = 0xFFFFFFFF
	begincodehash := 0

	top := func(i int) []byte { return stack[len(stack)+i] } // i negative
	pop := func() { stack = stack[:len(stack)-1] }
	push := func(v []byte) { stack = append(stack[:len(stack):len(stack)], v) }

	pc := 0
	for opcodePos := uint32(0); pc < len(script); opcodePos++ {
		fExec := true
		for _, b := range vfExec {
			if !b {
				fExec = false
				break
			}
		}

		op, data, next, ok := GetOp(script, pc)
		if !ok {
			return "BAD_OPCODE", stack
		}
		pc = next
		if len(data) > MaxScriptElementSize {
			return "PUSH_SIZE", stack
		}
		if sigversion == sigBase || sigversion == sigWitnessV0 {
			if op > OP_16 {
				nOpCount++
				if nOpCount > MaxOpsPerScript {
					return "OP_COUNT", stack
				}
			}
		}
		if isDisabled(op) {
			return "DISABLED_OPCODE", stack
		}
		if op == OP_CODESEPARATOR && sigversion == sigBase && flags&CONST_SCRIPTCODE != 0 {
			return "OP_CODESEPARATOR", stack
		}

		if fExec && op <= OP_PUSHDATA4 {
			if requireMinimal && !checkMinimalPush(data, op) {
				return "MINIMALDATA", stack
			}
			c.res.Ops++
			push(append([]byte{}, data...))
		} else if fExec || (op >= OP_IF && op <= OP_ENDIF) {
			c.res.Ops++
			switch {
			case op == OP_1NEGATE || (op >= OP_1 && op <= OP_16):
				push(NumBytes(int64(op) - (OP_1 - 1)))

			case op == OP_NOP:

			case op == OP_CHECKLOCKTIMEVERIFY:
				if flags&CHECKLOCKTIMEVERIFY == 0 {
					// not enabled; treat as a NOP2
					if flags&DISCOURAGE_UPGRADABLE_NOPS != 0 {
						c.res.NopCLTVorCSV = true
					}
					break
				}
				if len(stack) < 1 {
					return "INVALID_STACK_OPERATION", stack
				}
				n, ok := scriptNum(top(-1), requireMinimal, 5)
				if !ok {
					return "UNKNOWN_ERROR", stack
				}
				if n < 0 {
					return "NEGATIVE_LOCKTIME", stack
				}
				if !c.checkLockTime(n) {
					return "UNSATISFIED_LOCKTIME", stack
				}

			case op == OP_CHECKSEQUENCEVERIFY:
				if flags&CHECKSEQUENCEVERIFY == 0 {
					// not enabled; treat as a NOP3
					if flags&DISCOURAGE_UPGRADABLE_NOPS != 0 {
						c.res.NopCLTVorCSV = true
					}
					break
				}
				if len(stack) < 1 {
					return "INVALID_STACK_OPERATION", stack
				}
				n, ok := scriptNum(top(-1), requireMinimal, 5)
				if !ok {
					return "UNKNOWN_ERROR", stack
				}
				if n < 0 {
					return "NEGATIVE_LOCKTIME", stack
				}
				if n&SequenceDisableFlag != 0 {
					break
				}
				if !c.checkSequence(n) {
					return "UNSATISFIED_LOCKTIME", stack
				}

			case op == OP_NOP1 || (op >= OP_NOP4 && op <= OP_NOP10):
				if flags&DISCOURAGE_UPGRADABLE_NOPS != 0 {
					return "DISCOURAGE_UPGRADABLE_NOPS", stack
				}

			case op == OP_IF || op == OP_NOTIF:
				fValue := false
				if fExec {
					if len(stack) < 1 {
						return "UNBALANCED_CONDITIONAL", stack
					}
					vch := top(-1)
					if sigversion == sigTapscript {
						if len(vch) > 1 || (len(vch) == 1 && vch[0] != 1) {
							return "TAPSCRIPT_MINIMALIF", stack
						}
					}
					if sigversion == sigWitnessV0 && flags&MINIMALIF != 0 {
						if len(vch) > 1 {
							return "MINIMALIF", stack
						}
						if len(vch) == 1 && vch[0] != 1 {
							return "MINIMALIF", stack
						}
					}
					fValue = CastToBool(vch)
					if op == OP_NOTIF {
						fValue = !fValue
					}
					pop()
				}
				vfExec = append(vfExec, fValue)

			case op == OP_ELSE:
				if len(vfExec) == 0 {
					return "UNBALANCED_CONDITIONAL", stack
				}
				vfExec[len(vfExec)-1] = !vfExec[len(vfExec)-1]

			case op == OP_ENDIF:
				if len(vfExec) == 0 {
					return "UNBALANCED_CONDITIONAL", stack
				}
				vfExec = vfExec[:len(vfExec)-1]

			case op == OP_VERIFY:
				if len(stack) < 1 {
					return "INVALID_STACK_OPERATION", stack
				}
				if CastToBool(top(-1)) {
					pop()
				} else {
					return "VERIFY", stack
				}

			case op == OP_RETURN:
				return "OP_RETURN", stack

			case op == OP_TOALTSTACK:
				if len(stack) < 1 {
					return "INVALID_STACK_OPERATION", stack
				}
				altstack = append(altstack, top(-1))
				pop()

			case op == OP_FROMALTSTACK:
				if len(altstack) < 1 {
					return "INVALID_ALTSTACK_OPERATION", stack
				}
				push(altstack[len(altstack)-1])
				altstack = altstack[:len(altstack)-1]

			case op == OP_2DROP:
				if len(stack) < 2 {
					return "INVALID_STACK_OPERATION", stack
				}
				pop()
				pop()

			case op == OP_2DUP:
				if len(stack) < 2 {
					return "INVALID_STACK_OPERATION", stack
				}
				v1, v2 := top(-2), top(-1)
				push(v1)
				push(v2)

			case op == OP_3DUP:
				if len(stack) < 3 {
					return "INVALID_STACK_OPERATION", stack
				}
				v1, v2, v3 := top(-3), top(-2), top(-1)
				push(v1)
				push(v2)
				push(v3)

			case op == OP_2OVER:
				if len(stack) < 4 {
					return "INVALID_STACK_OPERATION", stack
				}
				v1, v2 := top(-4), top(-3)
				push(v1)
				push(v2)

			case op == OP_2ROT:
				if len(stack) < 6 {
					return "INVALID_STACK_OPERATION", stack
				}
				v1, v2 := top(-6), top(-5)
				n := len(stack)
				ns := append([][]byte{}, stack[:n-6]...)
				ns = append(ns, stack[n-4:]...)
				stack = ns
				push(v1)
				push(v2)

			case op == OP_2SWAP:
				if len(stack) < 4 {
					return "INVALID_STACK_OPERATION", stack
				}
				n := len(stack)
				ns := append([][]byte{}, stack...)
				ns[n-4], ns[n-2] = ns[n-2], ns[n-4]
				ns[n-3], ns[n-1] = ns[n-1], ns[n-3]
				stack = ns

			case op == OP_IFDUP:
				if len(stack) < 1 {
					return "INVALID_STACK_OPERATION", stack
				}
				v := top(-1)
				if CastToBool(v) {
					push(v)
				}

			case op == OP_DEPTH:
				push(NumBytes(int64(len(stack))))

			case op == OP_DROP:
				if len(stack) < 1 {
					return "INVALID_STACK_OPERATION", stack
				}
				pop()

			case op == OP_DUP:
				if len(stack) < 1 {
					return "INVALID_STACK_OPERATION", stack
				}
				push(top(-1))

			case op == OP_NIP:
				if len(stack) < 2 {
					return "INVALID_STACK_OPERATION", stack
				}
				v := top(-1)
				pop()
				pop()
				push(v)

			case op == OP_OVER:
				if len(stack) < 2 {
					return "INVALID_STACK_OPERATION", stack
				}
				push(top(-2))

			case op == OP_PICK || op == OP_ROLL:
				if len(stack) < 2 {
					return "INVALID_STACK_OPERATION", stack
				}
				n64, ok := scriptNum(top(-1), requireMinimal, 4)
				if !ok {
					return "UNKNOWN_ERROR", stack
				}
				n := getInt(n64)
				pop()
				if n < 0 || n >= len(stack) {
					return "INVALID_STACK_OPERATION", stack
				}
				v := top(-n - 1)
				if op == OP_ROLL {
					at := len(stack) - n - 1
					ns := append([][]byte{}, stack[:at]...)
					ns = append(ns, stack[at+1:]...)
					stack = ns
				}
				push(v)

			case op == OP_ROT:
				if len(stack) < 3 {
					return "INVALID_STACK_OPERATION", stack
				}
				// (x1 x2 x3 -- x2 x3 x1)
				n := len(stack)
				ns := append([][]byte{}, stack...)
				ns[n-3], ns[n-2] = ns[n-2], ns[n-3]
				ns[n-2], ns[n-1] = ns[n-1], ns[n-2]
				stack = ns

			case op == OP_SWAP:
				if len(stack) < 2 {
					return "INVALID_STACK_OPERATION", stack
				}
				n := len(stack)
				ns := append([][]byte{}, stack...)
				ns[n-2], ns[n-1] = ns[n-1], ns[n-2]
				stack = ns

			case op == OP_TUCK:
				if len(stack) < 2 {
					return "INVALID_STACK_OPERATION", stack
				}
				// (x1 x2 -- x2 x1 x2)
				x1, x2 := top(-2), top(-1)
				pop()
				pop()
				push(x2)
				push(x1)
				push(x2)

			case op == OP_SIZE:
				if len(stack) < 1 {
					return "INVALID_STACK_OPERATION", stack
				}
				push(NumBytes(int64(len(top(-1)))))

			case op == OP_EQUAL || op == OP_EQUALVERIFY:
				if len(stack) < 2 {
					return "INVALID_STACK_OPERATION", stack
				}
				eq := bytes.Equal(top(-2), top(-1))
				pop()
				pop()
				push(boolVch(eq))
				if op == OP_EQUALVERIFY {
					if eq {
						pop()
					} else {
						return "EQUALVERIFY", stack
					}
				}

			case op == OP_1ADD || op == OP_1SUB || op == OP_NEGATE || op == OP_ABS || op == OP_NOT || op == OP_0NOTEQUAL:
				if len(stack) < 1 {
					return "INVALID_STACK_OPERATION", stack
				}
				bn, ok := scriptNum(top(-1), requireMinimal, 4)
				if !ok {
					return "UNKNOWN_ERROR", stack
				}
				switch op {
				case OP_1ADD:
					bn++
				case OP_1SUB:
					bn--
				case OP_NEGATE:
					bn = -bn
				case OP_ABS:
					if bn < 0 {
						bn = -bn
					}
				case OP_NOT:
					if bn == 0 {
						bn = 1
					} else {
						bn = 0
					}
				case OP_0NOTEQUAL:
					if bn != 0 {
						bn = 1
					} else {
						bn = 0
					}
				}
				pop()
				push(NumBytes(bn))

			case op == OP_ADD || op == OP_SUB || (op >= OP_BOOLAND && op <= OP_MAX):
				if len(stack) < 2 {
					return "INVALID_STACK_OPERATION", stack
				}
				bn1, ok1 := scriptNum(top(-2), requireMinimal, 4)
				if !ok1 {
					return "UNKNOWN_ERROR", stack
				}
				bn2, ok2 := scriptNum(top(-1), requireMinimal, 4)
				if !ok2 {
					return "UNKNOWN_ERROR", stack
				}
				b2i := func(b bool) int64 {
					if b {
						return 1
					}
					return 0
				}
				var bn int64
				switch op {
				case OP_ADD:
					bn = bn1 + bn2
				case OP_SUB:
					bn = bn1 - bn2
				case OP_BOOLAND:
					bn = b2i(bn1 != 0 && bn2 != 0)
				case OP_BOOLOR:
					bn = b2i(bn1 != 0 || bn2 != 0)
				case OP_NUMEQUAL, OP_NUMEQUALVERIFY:
					bn = b2i(bn1 == bn2)
				case OP_NUMNOTEQUAL:
					bn = b2i(bn1 != bn2)
				case OP_LESSTHAN:
					bn = b2i(bn1 < bn2)
				case OP_GREATERTHAN:
					bn = b2i(bn1 > bn2)
				case OP_LESSTHANOREQUAL:
					bn = b2i(bn1 <= bn2)
				case OP_GREATERTHANOREQUAL:
					bn = b2i(bn1 >= bn2)
				case OP_MIN:
					if bn1 < bn2 {
						bn = bn1
					} else {
						bn = bn2
					}
				case OP_MAX:
					if bn1 > bn2 {
						bn = bn1
					} else {
						bn = bn2
					}
				}
				pop()
				pop()
				push(NumBytes(bn))
				if op == OP_NUMEQUALVERIFY {
					if CastToBool(top(-1)) {
						pop()
					} else {
						return "NUMEQUALVERIFY", stack
					}
				}

			case op == OP_WITHIN:
				if len(stack) < 3 {
					return "INVALID_STACK_OPERATION", stack
				}
				bn1, ok1 := scriptNum(top(-3), requireMinimal, 4)
				if !ok1 {
					return "UNKNOWN_ERROR", stack
				}
				bn2, ok2 := scriptNum(top(-2), requireMinimal, 4)
				if !ok2 {
					return "UNKNOWN_ERROR", stack
				}
				bn3, ok3 := scriptNum(top(-1), requireMinimal, 4)
				if !ok3 {
					return "UNKNOWN_ERROR", stack
				}
				v := bn2 <= bn1 && bn1 < bn3
				pop()
				pop()
				pop()
				push(boolVch(v))

			case op >= OP_RIPEMD160 && op <= OP_HASH256:
				if len(stack) < 1 {
					return "INVALID_STACK_OPERATION", stack
				}
				v := top(-1)
				var h []byte
				switch op {
				case OP_RIPEMD160:
					x := Ripemd160(v)
					h = x[:]
				case OP_SHA1:
					x := sha1.Sum(v)
					h = x[:]
				case OP_SHA256:
					h = sha256sum(v)
				case OP_HASH160:
					h = hash160(v)
				case OP_HASH256:
					h = sha256sum(sha256sum(v))
				}
				pop()
				push(h)

			case op == OP_CODESEPARATOR:
				begincodehash = pc
				ed.codesepPos = opcodePos

			case op == OP_CHECKSIG || op == OP_CHECKSIGVERIFY:
				if len(stack) < 2 {
					return "INVALID_STACK_OPERATION", stack
				}
				e, success := c.evalChecksig(top(-2), top(-1), script, begincodehash, ed, flags, sigversion)
				if e != "" {
					return e, stack
				}
				pop()
				pop()
				push(boolVch(success))
				if op == OP_CHECKSIGVERIFY {
					if success {
						pop()
					} else {
						return "CHECKSIGVERIFY", stack
					}
				}

			case op == OP_CHECKSIGADD:
				if sigversion == sigBase || sigversion == sigWitnessV0 {
					return "BAD_OPCODE", stack
				}
				if len(stack) < 3 {
					return "INVALID_STACK_OPERATION", stack
				}
				sig := top(-3)
				num, ok := scriptNum(top(-2), requireMinimal, 4)
				if !ok {
					return "UNKNOWN_ERROR", stack
				}
				pubkey := top(-1)
				e, success := c.evalChecksig(sig, pubkey, script, begincodehash, ed, flags, sigversion)
				if e != "" {
					return e, stack
				}
				pop()
				pop()
				pop()
				if success {
					num++
				}
				push(NumBytes(num))

			case op == OP_CHECKMULTISIG || op == OP_CHECKMULTISIGVERIFY:
				if sigversion == sigTapscript {
					return "TAPSCRIPT_CHECKMULTISIG", stack
				}
				i := 1
				if len(stack) < i {
					return "INVALID_STACK_OPERATION", stack
				}
				nk64, ok := scriptNum(top(-i), requireMinimal, 4)
				if !ok {
					return "UNKNOWN_ERROR", stack
				}
				nKeys := getInt(nk64)
				if nKeys < 0 || nKeys > MaxPubkeysPerMultisig {
					return "PUBKEY_COUNT", stack
				}
				nOpCount += nKeys
				if nOpCount > MaxOpsPerScript {
					return "OP_COUNT", stack
				}
				i++
				ikey := i
				ikey2 := nKeys + 2
				i += nKeys
				if len(stack) < i {
					return "INVALID_STACK_OPERATION", stack
				}
				ns64, ok := scriptNum(top(-i), requireMinimal, 4)
				if !ok {
					return "UNKNOWN_ERROR", stack
				}
				nSigs := getInt(ns64)
				if nSigs < 0 || nSigs > nKeys {
					return "SIG_COUNT", stack
				}
				i++
				isig := i
				i += nSigs
				if len(stack) < i {
					return "INVALID_STACK_OPERATION", stack
				}

				scriptCode := script[begincodehash:]
				for k := 0; k < nSigs; k++ {
					sig := top(-isig - k)
					if sigversion == sigBase {
						var found int
						scriptCode, found = sighash.FindAndDelete(scriptCode, sighash.PushData(sig))
						if found > 0 && flags&CONST_SCRIPTCODE != 0 {
							return "SIG_FINDANDDELETE", stack
						}
					}
				}

				success := true
				for success && nSigs > 0 {
					sig := top(-isig)
					pubkey := top(-ikey)
					if e := checkSignatureEncoding(sig, flags); e != "" {
						return e, stack
					}
					if e := checkPubKeyEncoding(pubkey, flags, sigversion); e != "" {
						return e, stack
					}
					if c.checkECDSA(sig, pubkey, scriptCode, sigversion) {
						isig++
						nSigs--
					}
					ikey++
					nKeys--
					if nSigs > nKeys {
						success = false
					}
				}

				for ; i > 1; i-- {
					if !success && flags&NULLFAIL != 0 && ikey2 == 0 && len(top(-1)) != 0 {
						return "NULLFAIL", stack
					}
					if ikey2 > 0 {
						ikey2--
					}
					pop()
				}

				if len(stack) < 1 {
					return "INVALID_STACK_OPERATION", stack
				}
				if flags&NULLDUMMY != 0 && len(top(-1)) != 0 {
					return "SIG_NULLDUMMY", stack
				}
				pop()
				push(boolVch(success))
				if op == OP_CHECKMULTISIGVERIFY {
					if success {
						pop()
					} else {
						return "CHECKMULTISIGVERIFY", stack
					}
				}

			default:
				return "BAD_OPCODE", stack
			}
		}

		if len(stack)+len(altstack) > MaxStackSize {
			return "STACK_SIZE", stack
		}
	}

	if len(vfExec) != 0 {
		return "UNBALANCED_CONDITIONAL", stack
	}
	return "", stack
}

// ---- witness ----------------------------------------------------------------------------------

func witnessSerializedSize(w [][]byte) int64 {
	n := int64(len(wire.CompactSize(uint64(len(w)))))
	for _, it := range w {
		n += int64(len(wire.CompactSize(uint64(len(it))))) + int64(len(it))
	}
	return n
}

func (c *checker) executeWitnessScript(stackIn [][]byte, script []byte, flags uint32, sigversion int, ed *execData) string {
	stack := append([][]byte{}, stackIn...)
	if sigversion == sigTapscript {
		pc := 0
		for pc < len(script) {
			op, _, next, ok := GetOp(script, pc)
			if !ok {
				return "BAD_OPCODE"
			}
			pc = next
			if IsOpSuccess(op) {
				if flags&DISCOURAGE_OP_SUCCESS != 0 {
					return "DISCOURAGE_OP_SUCCESS"
				}
				return ""
			}
		}
		if len(stack) > MaxStackSize {
			return "STACK_SIZE"
		}
	}
	for _, e := range stack {
		if len(e) > MaxScriptElementSize {
			return "PUSH_SIZE"
		}
	}
	e, stack := c.evalScript(stack, script, flags, sigversion, ed)
	if e != "" {
		return e
	}
	if len(stack) != 1 {
		return "CLEANSTACK"
	}
	if !CastToBool(stack[len(stack)-1]) {
		return "EVAL_FALSE"
	}
	return ""
}

func taprootMerkleRoot(control []byte, leaf [32]byte) [32]byte {
	k := leaf
	n := (len(control) - TaprootControlBase) / TaprootControlNode
	for i := 0; i < n; i++ {
		var node [32]byte
		copy(node[:], control[TaprootControlBase+TaprootControlNode*i:])
		// lexicographic ordering of the pair (sighash.TapBranchHash orders its arguments)
		k = sighash.TapBranchHash(k, node)
	}
	return k
}

func verifyTaprootCommitment(control, program []byte, leaf [32]byte) bool {
	p := control[1:TaprootControlBase]
	root := taprootMerkleRoot(control, leaf)
	tweak := sighash.TapTweakHash(p, root[:])
	return ec.TweakCheck(program, control[0]&1 == 1, p, tweak[:])
}

func (c *checker) verifyWitnessProgram(witness [][]byte, version int, program []byte, flags uint32, isP2SH bool) string {
	c.res.WitnessProg = true
	stack := witness
	var ed execData

	if version == 0 {
		if len(program) == 32 {
			if len(stack) == 0 {
				return "WITNESS_PROGRAM_WITNESS_EMPTY"
			}
			script := stack[len(stack)-1]
			stack = stack[:len(stack)-1]
			if !bytes.Equal(sha256sum(script), program) {
				return "WITNESS_PROGRAM_MISMATCH"
			}
			return c.executeWitnessScript(stack, script, flags, sigWitnessV0, &ed)
		} else if len(program) == 20 {
			if len(stack) != 2 {
				return "WITNESS_PROGRAM_MISMATCH"
			}
			script := append([]byte{OP_DUP, OP_HASH160, 20}, program...)
			script = append(script, OP_EQUALVERIFY, OP_CHECKSIG)
			return c.executeWitnessScript(stack, script, flags, sigWitnessV0, &ed)
		}
		return "WITNESS_PROGRAM_WRONG_LENGTH"
	} else if version == 1 && len(program) == 32 && !isP2SH {
		if flags&TAPROOT == 0 {
			return ""
		}
		if len(stack) == 0 {
			return "WITNESS_PROGRAM_WITNESS_EMPTY"
		}
		if len(stack) >= 2 && len(stack[len(stack)-1]) > 0 && stack[len(stack)-1][0] == AnnexTag {
			ed.annex = stack[len(stack)-1]
			stack = stack[:len(stack)-1]
		}
		if len(stack) == 1 {
			c.res.KeyPath = true
			return c.checkSchnorr(stack[0], program, sigTaproot, &ed)
		}
		control := stack[len(stack)-1]
		script := stack[len(stack)-2]
		stack = stack[:len(stack)-2]
		if len(control) < TaprootControlBase || len(control) > TaprootControlMaxSize || (len(control)-TaprootControlBase)%TaprootControlNode != 0 {
			return "TAPROOT_WRONG_CONTROL_SIZE"
		}
		ed.tapleafHash = sighash.TapLeafHash(control[0]&TaprootLeafMask, script)
		if !verifyTaprootCommitment(control, program, ed.tapleafHash) {
			return "WITNESS_PROGRAM_MISMATCH"
		}
		if control[0]&TaprootLeafMask == TaprootLeafTapscript {
			c.res.Tapscript = true
			ed.weightLeft = witnessSerializedSize(witness) + ValidationWeightOffset
			ed.weightInited = true
			return c.executeWitnessScript(stack, script, flags, sigTapscript, &ed)
		}
		if flags&DISCOURAGE_UPGRADABLE_TAPROOT_VERSION != 0 {
			return "DISCOURAGE_UPGRADABLE_TAPROOT_VERSION"
		}
		return ""
	}
	if flags&DISCOURAGE_UPGRADABLE_WITNESS_PROGRAM != 0 {
		return "DISCOURAGE_UPGRADABLE_WITNESS_PROGRAM"
	}
	return ""
}

// ---- VerifyScript -----------------------------------------------------------------------------

func (c *checker) verifyScript(scriptSig, scriptPubKey []byte, witness [][]byte, flags uint32) string {
	hadWitness := false
	if flags&SIGPUSHONLY != 0 && !IsPushOnly(scriptSig) {
		return "SIG_PUSHONLY"
	}
	var ed execData
	e, stack := c.evalScript(nil, scriptSig, flags, sigBase, &ed)
	if e != "" {
		return e
	}
	var stackCopy [][]byte
	if flags&P2SH != 0 {
		stackCopy = append([][]byte{}, stack...)
	}
	e, stack = c.evalScript(stack, scriptPubKey, flags, sigBase, &ed)
	if e != "" {
		return e
	}
	if len(stack) == 0 {
		return "EVAL_FALSE"
	}
	if !CastToBool(stack[len(stack)-1]) {
		return "EVAL_FALSE"
	}

	if flags&WITNESS != 0 {
		if v, prog, ok := IsWitnessProgram(scriptPubKey); ok {
			hadWitness = true
			if len(scriptSig) != 0 {
				return "WITNESS_MALLEATED"
			}
			if e := c.verifyWitnessProgram(witness, v, prog, flags, false); e != "" {
				return e
			}
			stack = stack[:1]
		}
	}

	if flags&P2SH != 0 && IsPayToScriptHash(scriptPubKey) {
		if !IsPushOnly(scriptSig) {
			return "SIG_PUSHONLY"
		}
		stack = stackCopy
		if len(stack) == 0 {
			return "INTERNAL_P2SH_EMPTY_STACK" // Core: assert(!stack.empty()) — unreachable
		}
		redeem := stack[len(stack)-1]
		stack = stack[:len(stack)-1]
		c.res.P2SHRedeem = true
		e, stack = c.evalScript(stack, redeem, flags, sigBase, &ed)
		if e != "" {
			return e
		}
		if len(stack) == 0 {
			return "EVAL_FALSE"
		}
		if !CastToBool(stack[len(stack)-1]) {
			return "EVAL_FALSE"
		}
		if flags&WITNESS != 0 {
			if v, prog, ok := IsWitnessProgram(redeem); ok {
				hadWitness = true
				if !bytes.Equal(scriptSig, sighash.PushData(redeem)) {
					return "WITNESS_MALLEATED_P2SH"
				}
				if e := c.verifyWitnessProgram(witness, v, prog, flags, true); e != "" {
					return e
				}
				stack = stack[:1]
			}
		}
	}

	if flags&CLEANSTACK != 0 {
		if len(stack) != 1 {
			return "CLEANSTACK"
		}
	}
	if flags&WITNESS != 0 {
		if !hadWitness && len(witness) != 0 {
			return "WITNESS_UNEXPECTED"
		}
	}
	return ""
}

// VerifyEx is Core's VerifyScript with a TransactionSignatureChecker(tx, idx, amount, txdata(spent)).
// spent must hold the outputs spent by all inputs of tx whenever a taproot signature can be reached
// (it may be nil otherwise; a Schnorr check without it fails).  flags must satisfy FlagsConsistent
// (Core asserts); inconsistent flags give OK=false, Err="INCONSISTENT_FLAGS".  It never panics: an
// internal panic (a bug of this package) is caught and reported in Internal with OK=false.
func VerifyEx(scriptSig, scriptPubKey []byte, witness [][]byte, tx *wire.Tx, idx int, amount uint64, spent []wire.TxOut, flags uint32) (res Result) {
	defer func() {
		if p := recover(); p != nil {
			res.OK = false
			res.Err = "INTERNAL_PANIC"
			res.Internal = fmt.Sprint(p)
		}
	}()
	if !FlagsConsistent(flags) {
		res.Err = "INCONSISTENT_FLAGS"
		return
	}
	if tx == nil || idx < 0 || idx >= len(tx.In) {
		res.Err = "BAD_INPUT_INDEX"
		return
	}
	c := &checker{tx: tx, idx: idx, amount: amount, spent: spent, res: &res}
	e := c.verifyScript(scriptSig, scriptPubKey, witness, flags)
	if e == "" {
		res.OK = true
		res.Err = "OK"
	} else {
		res.Err = e
	}
	return
}

// Verify returns the verdict and Core's error name.
func Verify(scriptSig, scriptPubKey []byte, witness [][]byte, tx *wire.Tx, idx int, amount uint64, spent []wire.TxOut, flags uint32) (bool, string) {
	r := VerifyEx(scriptSig, scriptPubKey, witness, tx, idx, amount, spent, flags)
	return r.OK, r.Err
}

// NonTrivial is C01's rule: >= 3 opcodes executed, or a signature check / witness program / P2SH
// redeem script was reached.
func (r *Result) NonTrivial() bool {
	return r.Ops >= 3 || r.SigChecks > 0 || r.WitnessProg || r.P2SHRedeem
}

// ---- signature-operation counting -------------------------------------------------------------

// SigOpCount is CScript::GetSigOpCount(fAccurate).
func SigOpCount(script []byte, accurate bool) int {
	n := 0
	pc := 0
	last := OP_INVALIDOPCODE
	for pc < len(script) {
		op, _, next, ok := GetOp(script, pc)
		if !ok {
			break
		}
		pc = next
		if op == OP_CHECKSIG || op == OP_CHECKSIGVERIFY {
			n++
		} else if op == OP_CHECKMULTISIG || op == OP_CHECKMULTISIGVERIFY {
			if accurate && last >= OP_1 && last <= OP_16 {
				n += last - (OP_1 - 1)
			} else {
				n += MaxPubkeysPerMultisig
			}
		}
		last = op
	}
	return n
}

// P2SHSigOpCount is CScript::GetSigOpCount(const CScript& scriptSig) called on scriptPubKey.
func P2SHSigOpCount(scriptPubKey, scriptSig []byte) int {
	if !IsPayToScriptHash(scriptPubKey) {
		return SigOpCount(scriptPubKey, true)
	}
	pc := 0
	var data []byte
	for pc < len(scriptSig) {
		op, d, next, ok := GetOp(scriptSig, pc)
		if !ok {
			return 0
		}
		if op > OP_16 {
			return 0
		}
		data = d
		pc = next
	}
	return SigOpCount(data, true)
}

func witnessSigOps(version int, program []byte, witness [][]byte) int {
	if version == 0 {
		if len(program) == 20 {
			return 1
		}
		if len(program) == 32 && len(witness) > 0 {
			return SigOpCount(witness[len(witness)-1], true)
		}
	}
	return 0
}

// WitnessSigOpCount is CountWitnessSigOps.
func WitnessSigOpCount(scriptSig, scriptPubKey []byte, witness [][]byte, flags uint32) int {
	if flags&WITNESS == 0 {
		return 0
	}
	if v, prog, ok := IsWitnessProgram(scriptPubKey); ok {
		return witnessSigOps(v, prog, witness)
	}
	if IsPayToScriptHash(scriptPubKey) && IsPushOnly(scriptSig) {
		pc := 0
		var data []byte
		for pc < len(scriptSig) {
			_, d, next, ok := GetOp(scriptSig, pc)
			if !ok {
				break
			}
			data = d
			pc = next
		}
		if v, prog, ok := IsWitnessProgram(data); ok {
			return witnessSigOps(v, prog, witness)
		}
	}
	return 0
}

// TxSigOpCost is GetTransactionSigOpCost for a non-coinbase transaction whose spent outputs are
// given (one per input): legacy count x 4, P2SH count x 4 when P2SH is on, witness count x 1.
func TxSigOpCost(tx *wire.Tx, spent []wire.TxOut, flags uint32) int {
	n := 0
	for _, in := range tx.In {
		n += SigOpCount(in.ScriptSig, false)
	}
	for _, o := range tx.Out {
		n += SigOpCount(o.PkScript, false)
	}
	n *= 4
	if tx.IsCoinBase() {
		return n
	}
	if flags&P2SH != 0 {
		for i, in := range tx.In {
			if IsPayToScriptHash(spent[i].PkScript) {
				n += 4 * P2SHSigOpCount(spent[i].PkScript, in.ScriptSig)
			}
		}
	}
	for i, in := range tx.In {
		n += WitnessSigOpCount(in.ScriptSig, spent[i].PkScript, in.Witness, flags)
	}
	return n
}
