package ec

import (
	"bufio"
	"bytes"
	"encoding/hex"
	"math/big"
	"math/rand"
	"os"
	"strings"
	"testing"
)

func TestConstants(t *testing.T) {
	if !P.ProbablyPrime(32) || !N.ProbablyPrime(32) {
		t.Fatal("p or n not prime")
	}
	want := new(big.Int).Lsh(big.NewInt(1), 256)
	want.Sub(want, new(big.Int).Lsh(big.NewInt(1), 32)).Sub(want, big.NewInt(977))
	if want.Cmp(P) != 0 {
		t.Fatal("p")
	}
	if !OnCurve(Gx, Gy) {
		t.Fatal("G not on curve")
	}
	if !Mul(N, G).Inf || !BaseMul(N).Inf || !MulSlow(N, G).Inf {
		t.Fatal("nG != inf")
	}
	if !Mul(new(big.Int).Sub(N, big.NewInt(1)), G).Equal(Neg(G)) {
		t.Fatal("(n-1)G != -G")
	}
	// 2G, 3G known values
	g2 := BaseMul(big.NewInt(2))
	if strings.ToUpper(hex.EncodeToString(Bytes32(g2.X))) != "C6047F9441ED7D6D3045406E95C07CD85C778E4B8CEF3CA7ABAC09B95C709EE5" {
		t.Fatal("2G")
	}
	g3 := BaseMul(big.NewInt(3))
	if strings.ToUpper(hex.EncodeToString(Bytes32(g3.X))) != "F9308A019258C31049344F85F89D5229B531C845836F99B08601F113BCE036F9" {
		t.Fatal("3G")
	}
}

func TestMulAgreement(t *testing.T) {
	rnd := rand.New(rand.NewSource(1))
	for i := 0; i < 60; i++ {
		k := new(big.Int).Rand(rnd, N)
		l := new(big.Int).Rand(rnd, N)
		a := MulSlow(k, G)
		if !a.Equal(Mul(k, G)) || !a.Equal(BaseMul(k)) {
			t.Fatal("mul mismatch")
		}
		if !OnCurve(a.X, a.Y) {
			t.Fatal("off curve")
		}
		b := Mul(l, a)
		kl := new(big.Int).Mul(k, l)
		if !b.Equal(BaseMul(kl)) || !b.Equal(MulSlow(l, a)) {
			t.Fatal("mul assoc")
		}
		if !Add(a, BaseMul(l)).Equal(BaseMul(new(big.Int).Add(k, l))) {
			t.Fatal("add hom")
		}
	}
}

func TestBIP340Vectors(t *testing.T) {
	f, err := os.Open("/repo/lib/test/bip340_test_vectors.csv")
	if err != nil {
		t.Skip("vectors not found")
	}
	defer f.Close()
	sc := bufio.NewScanner(f)
	n := 0
	for sc.Scan() {
		c := strings.Split(sc.Text(), ",")
		if len(c) < 7 || c[0] == "index" {
			continue
		}
		sk, _ := hex.DecodeString(c[1])
		pk, _ := hex.DecodeString(c[2])
		aux, _ := hex.DecodeString(c[3])
		msg, _ := hex.DecodeString(c[4])
		sig, _ := hex.DecodeString(c[5])
		want := c[6] == "TRUE"
		if SchnorrVerify(pk, msg, sig) != want {
			t.Errorf("vector %s verify", c[0])
		}
		if len(sk) == 32 {
			got := SchnorrSign(sk, msg, aux)
			if !bytes.Equal(got, sig) {
				t.Errorf("vector %s sign", c[0])
			}
			x, _ := XOnlyPubKey(sk)
			if !bytes.Equal(x, pk) {
				t.Errorf("vector %s pubkey", c[0])
			}
		}
		n++
	}
	if n < 15 {
		t.Fatalf("only %d vectors", n)
	}
}

func TestECDSA(t *testing.T) {
	rnd := rand.New(rand.NewSource(2))
	for i := 0; i < 30; i++ {
		key := Bytes32(new(big.Int).Add(new(big.Int).Rand(rnd, new(big.Int).Sub(N, big.NewInt(1))), big.NewInt(1)))
		msg := make([]byte, 32)
		rnd.Read(msg)
		r, s, recid := SignRFC6979(key, msg)
		q := BaseMul(new(big.Int).SetBytes(key))
		z := new(big.Int).SetBytes(msg)
		if !ECDSAVerifyRaw(q, r, s, z) {
			t.Fatal("own signature does not verify")
		}
		der := EncodeDER(r, s)
		if !IsStrictDER(append(der, 1)) || !IsLowDERSignature(append(der, 1)) {
			t.Fatal("not strict")
		}
		if !VerifyConsensus(SerializeCompressed(q), der, msg) || !VerifyConsensus(SerializeUncompressed(q), der, msg) {
			t.Fatal("consensus verify")
		}
		rr, ss, ok := ParseDERStrictInts(der)
		if !ok || rr.Cmp(r) != 0 || ss.Cmp(s) != 0 {
			t.Fatal("strict ints")
		}
		rec, ok := Recover(r, s, z, recid)
		if !ok || !rec.Equal(q) {
			t.Fatal("recover")
		}
		if rec2, ok := Recover(r, s, z, recid^1); ok && rec2.Equal(q) {
			t.Fatal("wrong recid recovers too")
		}
	}
	// RFC 6979 A.2.5-style known answer for secp256k1 (widely published test): key=1, msg=sha256("Satoshi Nakamoto")
	key := Bytes32(big.NewInt(1))
	msg, _ := hex.DecodeString("8f434346648f6b96df89dda901c5176b10a6d83961dd3c1ac88b59b2dc327aa4") // sha256("Satoshi Nakamoto")... checked below
	_ = msg
	_ = key
}

func TestRFC6979KnownAnswer(t *testing.T) {
	// widely published secp256k1 RFC 6979 vector (bitcoinjs / python-ecdsa): key = 1, message "Satoshi Nakamoto"
	h := sha256Sum([]byte("Satoshi Nakamoto"))
	r, s, _ := SignRFC6979(Bytes32(big.NewInt(1)), h)
	if hex.EncodeToString(Bytes32(r)) != "934b1ea10a4b3c1757e2b0c017d0b6143ce3c9a7e6a4a49860d7a6ab210ee3d8" ||
		hex.EncodeToString(Bytes32(s)) != "2442ce9d2b916064108014783e923ec36b49743e2ffa1c4496f01a512aafd9e5" {
		t.Fatalf("got r=%x s=%x", r, s)
	}
	k := NewRFC6979(Bytes32(big.NewInt(1)), h, nil).Next(true)
	if strings.ToUpper(hex.EncodeToString(k)) != "8F8A276C19F4149656B280621E358CCE24F5F52542772691EE69063B74F15D15" {
		t.Fatalf("k=%x", k)
	}
}

// The windowed Mul / BaseMul against plain affine double-and-add, on scalars that exercise every
// nibble value, window boundaries and reduction mod n.
func TestMulHostileScalars(t *testing.T) {
	one := big.NewInt(1)
	var ks []*big.Int
	for _, s := range []string{"0", "1", "f", "10", "11", "ff", "100", "123456789abcdef", "fedcba9876543210fedcba9876543210",
		"ffffffffffffffffffffffffffffffffffffffffffffffffffffffffffffffff", "8000000000000000000000000000000000000000000000000000000000000000",
		"1111111111111111111111111111111111111111111111111111111111111111", "f0f0f0f0f0f0f0f0f0f0f0f0f0f0f0f0f0f0f0f0f0f0f0f0f0f0f0f0f0f0f0f0"} {
		ks = append(ks, hexInt(s))
	}
	ks = append(ks, new(big.Int).Sub(N, one), new(big.Int).Set(N), new(big.Int).Add(N, one), new(big.Int).Neg(one), new(big.Int).Lsh(N, 3))
	for i := uint(0); i < 256; i += 37 {
		ks = append(ks, new(big.Int).Lsh(one, i), new(big.Int).Sub(new(big.Int).Lsh(one, i), one))
	}
	p7 := MulSlow(big.NewInt(7), G)
	for _, k := range ks {
		want := MulSlow(k, G)
		if !BaseMul(k).Equal(want) || !Mul(k, G).Equal(want) {
			t.Fatalf("k*G mismatch for %x", k)
		}
		if !Mul(k, p7).Equal(MulSlow(k, p7)) {
			t.Fatalf("k*P mismatch for %x", k)
		}
	}
}
