// Package ec is an independent, obviously-written reference for secp256k1: field and group
// arithmetic over math/big, ECDSA (verification, RFC 6979 signing, recovery, Bitcoin Core's lax DER
// and BIP66 strict DER), BIP340 Schnorr and the BIP341 tweak check.  It imports nothing from gocoin.
package ec

import (
	"crypto/hmac"
	"crypto/sha256"
	"math/big"
)

func hexInt(s string) *big.Int {
	n, ok := new(big.Int).SetString(s, 16)
	if !ok {
		panic("bad constant")
	}
	return n
}

// Curve constants (SEC 2).
var (
	P     = hexInt("FFFFFFFFFFFFFFFFFFFFFFFFFFFFFFFFFFFFFFFFFFFFFFFFFFFFFFFEFFFFFC2F")
	N     = hexInt("FFFFFFFFFFFFFFFFFFFFFFFFFFFFFFFEBAAEDCE6AF48A03BBFD25E8CD0364141")
	Gx    = hexInt("79BE667EF9DCBBAC55A06295CE870B07029BFCDB2DCE28D959F2815B16F81798")
	Gy    = hexInt("483ADA7726A3C4655DA4FBFC0E1108A8FD17B448A68554199C47D08FFB10D4B8")
	HalfN = new(big.Int).Rsh(N, 1)
	seven = big.NewInt(7)
	two   = big.NewInt(2)
	three = big.NewInt(3)
)

// Point is an affine point or the identity.
type Point struct {
	X, Y *big.Int
	Inf  bool
}

// G is the generator, Infinity the identity.
var (
	G        = Point{X: Gx, Y: Gy}
	Infinity = Point{Inf: true}
)

func mod(x *big.Int) *big.Int { return x.Mod(x, P) }

// OnCurve reports y² = x³+7 (mod p) for 0 <= x,y < p.
func OnCurve(x, y *big.Int) bool {
	if x.Sign() < 0 || y.Sign() < 0 || x.Cmp(P) >= 0 || y.Cmp(P) >= 0 {
		return false
	}
	l := new(big.Int).Mul(y, y)
	r := new(big.Int).Mul(x, x)
	r.Mul(r, x).Add(r, seven)
	return mod(l).Cmp(mod(r)) == 0
}

// Equal compares two points.
func (a Point) Equal(b Point) bool {
	if a.Inf || b.Inf {
		return a.Inf == b.Inf
	}
	return a.X.Cmp(b.X) == 0 && a.Y.Cmp(b.Y) == 0
}

// Neg returns -a.
func Neg(a Point) Point {
	if a.Inf {
		return a
	}
	y := new(big.Int).Sub(P, a.Y)
	return Point{X: new(big.Int).Set(a.X), Y: mod(y)}
}

// Add is the textbook affine group law.
func Add(a, b Point) Point {
	if a.Inf {
		return b
	}
	if b.Inf {
		return a
	}
	var lam *big.Int
	if a.X.Cmp(b.X) == 0 {
		s := new(big.Int).Add(a.Y, b.Y)
		if mod(s).Sign() == 0 {
			return Infinity
		}
		// doubling: λ = 3x² / 2y
		num := new(big.Int).Mul(a.X, a.X)
		num.Mul(num, three)
		den := new(big.Int).Mul(a.Y, two)
		den.ModInverse(mod(den), P)
		lam = mod(num.Mul(num, den))
	} else {
		num := new(big.Int).Sub(b.Y, a.Y)
		den := new(big.Int).Sub(b.X, a.X)
		den.ModInverse(mod(den), P)
		lam = mod(num.Mul(mod(num), den))
	}
	x := new(big.Int).Mul(lam, lam)
	x.Sub(x, a.X).Sub(x, b.X)
	mod(x)
	y := new(big.Int).Sub(a.X, x)
	y.Mul(y, lam).Sub(y, a.Y)
	mod(y)
	return Point{X: x, Y: y}
}

// Double returns 2a.
func Double(a Point) Point { return Add(a, a) }

// jacobian helper (x = X/Z², y = Y/Z³); used only to make scalar multiplication fast and checked
// against the affine law in the package tests.
type jac struct{ x, y, z *big.Int }

func toJac(a Point) jac {
	if a.Inf {
		return jac{new(big.Int), big.NewInt(1), new(big.Int)}
	}
	return jac{new(big.Int).Set(a.X), new(big.Int).Set(a.Y), big.NewInt(1)}
}

func (j jac) affine() Point {
	if j.z.Sign() == 0 {
		return Infinity
	}
	zi := new(big.Int).ModInverse(j.z, P)
	zi2 := new(big.Int).Mul(zi, zi)
	mod(zi2)
	x := new(big.Int).Mul(j.x, zi2)
	y := new(big.Int).Mul(j.y, zi2)
	y.Mul(mod(y), zi)
	return Point{X: mod(x), Y: mod(y)}
}

func jdouble(a jac) jac {
	if a.z.Sign() == 0 || a.y.Sign() == 0 {
		return jac{new(big.Int), big.NewInt(1), new(big.Int)}
	}
	// dbl-2009-l (a = 0)
	A := mod(new(big.Int).Mul(a.x, a.x))
	B := mod(new(big.Int).Mul(a.y, a.y))
	C := mod(new(big.Int).Mul(B, B))
	D := new(big.Int).Add(a.x, B)
	D.Mul(D, D).Sub(D, A).Sub(D, C).Lsh(D, 1)
	mod(D)
	E := new(big.Int).Mul(A, three)
	F := mod(new(big.Int).Mul(E, E))
	x3 := new(big.Int).Sub(F, new(big.Int).Lsh(D, 1))
	mod(x3)
	y3 := new(big.Int).Sub(D, x3)
	y3.Mul(y3, E).Sub(y3, new(big.Int).Lsh(C, 3))
	mod(y3)
	z3 := new(big.Int).Mul(a.y, a.z)
	z3.Lsh(z3, 1)
	mod(z3)
	return jac{x3, y3, z3}
}

func jadd(a, b jac) jac {
	if a.z.Sign() == 0 {
		return b
	}
	if b.z.Sign() == 0 {
		return a
	}
	z1z1 := mod(new(big.Int).Mul(a.z, a.z))
	z2z2 := mod(new(big.Int).Mul(b.z, b.z))
	u1 := mod(new(big.Int).Mul(a.x, z2z2))
	u2 := mod(new(big.Int).Mul(b.x, z1z1))
	s1 := new(big.Int).Mul(a.y, b.z)
	s1 = mod(s1.Mul(mod(s1), z2z2))
	s2 := new(big.Int).Mul(b.y, a.z)
	s2 = mod(s2.Mul(mod(s2), z1z1))
	if u1.Cmp(u2) == 0 {
		if s1.Cmp(s2) != 0 {
			return jac{new(big.Int), big.NewInt(1), new(big.Int)}
		}
		return jdouble(a)
	}
	h := mod(new(big.Int).Sub(u2, u1))
	r := mod(new(big.Int).Sub(s2, s1))
	h2 := mod(new(big.Int).Mul(h, h))
	h3 := mod(new(big.Int).Mul(h2, h))
	u1h2 := mod(new(big.Int).Mul(u1, h2))
	x3 := new(big.Int).Mul(r, r)
	x3.Sub(x3, h3).Sub(x3, new(big.Int).Lsh(u1h2, 1))
	mod(x3)
	y3 := new(big.Int).Sub(u1h2, x3)
	y3.Mul(y3, r).Sub(y3, new(big.Int).Mul(s1, h3))
	mod(y3)
	z3 := new(big.Int).Mul(a.z, b.z)
	z3 = mod(z3.Mul(mod(z3), h))
	return jac{x3, y3, z3}
}

// Mul returns k·a for any integer k (reduced mod n first; negative k allowed).  Fixed 4-bit windows,
// most significant first: acc = 16·acc + digit·a.  Checked against MulSlow in the package tests.
func Mul(k *big.Int, a Point) Point {
	kk := new(big.Int).Mod(k, N)
	if a.Inf || kk.Sign() == 0 {
		return Infinity
	}
	var tab [16]jac // tab[d] = d·a
	tab[0] = toJac(Infinity)
	tab[1] = toJac(a)
	for d := 2; d < 16; d++ {
		tab[d] = jadd(tab[d-1], tab[1])
	}
	acc := toJac(Infinity)
	for i := (kk.BitLen()+3)/4 - 1; i >= 0; i-- {
		acc = jdouble(jdouble(jdouble(jdouble(acc))))
		d := kk.Bit(4*i) | kk.Bit(4*i+1)<<1 | kk.Bit(4*i+2)<<2 | kk.Bit(4*i+3)<<3
		if d != 0 {
			acc = jadd(acc, tab[d])
		}
	}
	return acc.affine()
}

// MulSlow is double-and-add over the affine law only (used to check Mul and BaseMul).
func MulSlow(k *big.Int, a Point) Point {
	kk := new(big.Int).Mod(k, N)
	acc := Infinity
	for i := kk.BitLen() - 1; i >= 0; i-- {
		acc = Add(acc, acc)
		if kk.Bit(i) == 1 {
			acc = Add(acc, a)
		}
	}
	return acc
}

var gTable [][16]jac // gTable[j][d] = d·16^j·G (affine, z = 1)

// BaseMul returns k·G: the sum over the 64 nibbles of k of table entries.
func BaseMul(k *big.Int) Point {
	if gTable == nil {
		t := make([][16]jac, 64)
		base := G
		for j := range t {
			t[j][0] = toJac(Infinity)
			cur := base
			for d := 1; d < 16; d++ {
				t[j][d] = toJac(cur)
				cur = Add(cur, base)
			}
			base = cur // 16·base
		}
		gTable = t
	}
	kk := new(big.Int).Mod(k, N)
	acc := toJac(Infinity)
	for j := 0; 4*j < kk.BitLen(); j++ {
		d := kk.Bit(4*j) | kk.Bit(4*j+1)<<1 | kk.Bit(4*j+2)<<2 | kk.Bit(4*j+3)<<3
		if d != 0 {
			acc = jadd(acc, gTable[j][d])
		}
	}
	return acc.affine()
}

// MulAdd returns a·Q + b·G.
func MulAdd(a *big.Int, q Point, b *big.Int) Point { return Add(Mul(a, q), BaseMul(b)) }

// Sqrt returns a square root of a mod p (p ≡ 3 mod 4), ok=false when a is not a residue.
func Sqrt(a *big.Int) (*big.Int, bool) {
	e := new(big.Int).Add(P, big.NewInt(1))
	e.Rsh(e, 2)
	r := new(big.Int).Exp(a, e, P)
	if mod(new(big.Int).Mul(r, r)).Cmp(new(big.Int).Mod(a, P)) != 0 {
		return nil, false
	}
	return r, true
}

// LiftX is BIP340's lift_x: the point with that x and even y, for x < p with x³+7 a residue.
func LiftX(x *big.Int) (Point, bool) {
	if x.Sign() < 0 || x.Cmp(P) >= 0 {
		return Infinity, false
	}
	c := new(big.Int).Mul(x, x)
	c.Mul(c, x).Add(c, seven)
	y, ok := Sqrt(mod(c))
	if !ok {
		return Infinity, false
	}
	if y.Bit(0) == 1 {
		y.Sub(P, y)
	}
	return Point{X: new(big.Int).Set(x), Y: y}, true
}

// Bytes32 is the 32-byte big-endian form of 0 <= x < 2^256.
func Bytes32(x *big.Int) []byte {
	b := x.Bytes()
	if len(b) > 32 {
		panic("value too large")
	}
	return append(make([]byte, 32-len(b)), b...)
}

// ParsePubKey follows libsecp256k1's secp256k1_eckey_pubkey_parse: 33 bytes 02/03 (x < p, residue),
// 65 bytes 04/06/07 (x,y < p, on curve, hybrid parity must match).
func ParsePubKey(b []byte) (Point, bool) {
	switch {
	case len(b) == 33 && (b[0] == 2 || b[0] == 3):
		pt, ok := LiftX(new(big.Int).SetBytes(b[1:]))
		if !ok {
			return Infinity, false
		}
		if b[0] == 3 {
			pt = Neg(pt)
		}
		return pt, true
	case len(b) == 65 && (b[0] == 4 || b[0] == 6 || b[0] == 7):
		x, y := new(big.Int).SetBytes(b[1:33]), new(big.Int).SetBytes(b[33:])
		if !OnCurve(x, y) {
			return Infinity, false
		}
		if b[0] == 6 && y.Bit(0) == 1 || b[0] == 7 && y.Bit(0) == 0 {
			return Infinity, false
		}
		return Point{X: x, Y: y}, true
	}
	return Infinity, false
}

// SerializeCompressed / SerializeUncompressed encode a finite point.
func SerializeCompressed(p Point) []byte {
	return append([]byte{2 + byte(p.Y.Bit(0))}, Bytes32(p.X)...)
}
func SerializeUncompressed(p Point) []byte {
	return append(append([]byte{4}, Bytes32(p.X)...), Bytes32(p.Y)...)
}

// ECDSAVerifyRaw is the ECDSA equation for 1 <= r,s < n on message integer z (bits2int of 32 bytes).
func ECDSAVerifyRaw(q Point, r, s, z *big.Int) bool {
	if q.Inf || r.Sign() <= 0 || s.Sign() <= 0 || r.Cmp(N) >= 0 || s.Cmp(N) >= 0 {
		return false
	}
	w := new(big.Int).ModInverse(s, N)
	u1 := new(big.Int).Mul(z, w)
	u1.Mod(u1, N)
	u2 := new(big.Int).Mul(r, w)
	u2.Mod(u2, N)
	R := MulAdd(u2, q, u1)
	if R.Inf {
		return false
	}
	return new(big.Int).Mod(R.X, N).Cmp(r) == 0
}

// ParseDERStrictInts parses "30 len 02 lr R 02 ls S" with single-byte lengths and nothing else,
// returning the integers as unsigned values of their content bytes (any content length).  It is
// the parser for *canonically framed* signatures; range rules are applied by the caller.
func ParseDERStrictInts(sig []byte) (r, s *big.Int, ok bool) {
	if len(sig) < 6 || sig[0] != 0x30 || int(sig[1]) != len(sig)-2 || sig[1] >= 0x80 {
		return nil, nil, false
	}
	if sig[2] != 2 || sig[3] >= 0x80 {
		return nil, nil, false
	}
	lr := int(sig[3])
	if 4+lr+2 > len(sig) || sig[4+lr] != 2 || sig[5+lr] >= 0x80 {
		return nil, nil, false
	}
	ls := int(sig[5+lr])
	if 6+lr+ls != len(sig) {
		return nil, nil, false
	}
	return new(big.Int).SetBytes(sig[4 : 4+lr]), new(big.Int).SetBytes(sig[6+lr:]), true
}

// ParseDERLax is Bitcoin Core's ecdsa_signature_parse_der_lax (pubkey.cpp).  ok=false means the
// parse failed; overflow=true means R or S did not fit (Core then sets both to zero).
func ParseDERLax(in []byte) (r, s *big.Int, ok bool) {
	pos := 0
	n := len(in)
	// sequence tag
	if pos == n || in[pos] != 0x30 {
		return nil, nil, false
	}
	pos++
	// sequence length bytes
	if pos == n {
		return nil, nil, false
	}
	lenbyte := int(in[pos])
	pos++
	if lenbyte&0x80 != 0 {
		lenbyte -= 0x80
		if lenbyte > n-pos {
			return nil, nil, false
		}
		pos += lenbyte
	}
	readInt := func() (start, length int, ok bool) {
		if pos == n || in[pos] != 0x02 {
			return 0, 0, false
		}
		pos++
		if pos == n {
			return 0, 0, false
		}
		lb := int(in[pos])
		pos++
		l := 0
		if lb&0x80 != 0 {
			lb -= 0x80
			if lb > n-pos {
				return 0, 0, false
			}
			for lb > 0 && in[pos] == 0 {
				pos++
				lb--
			}
			if lb >= 8 { // sizeof(size_t)
				return 0, 0, false
			}
			for lb > 0 {
				l = l<<8 + int(in[pos])
				pos++
				lb--
			}
		} else {
			l = lb
		}
		if l > n-pos {
			return 0, 0, false
		}
		start = pos
		pos += l
		return start, l, true
	}
	rpos, rlen, ok1 := readInt()
	if !ok1 {
		return nil, nil, false
	}
	spos, slen, ok2 := readInt()
	if !ok2 {
		return nil, nil, false
	}
	conv := func(p, l int) (*big.Int, bool) {
		for l > 0 && in[p] == 0 {
			p++
			l--
		}
		if l > 32 {
			return nil, true
		}
		v := new(big.Int).SetBytes(in[p : p+l])
		if v.Cmp(N) >= 0 {
			return nil, true
		}
		return v, false
	}
	rv, of1 := conv(rpos, rlen)
	sv, of2 := conv(spos, slen)
	if of1 || of2 {
		return new(big.Int), new(big.Int), true
	}
	return rv, sv, true
}

// IsStrictDER is BIP66's IsValidSignatureEncoding; sig includes the trailing hash-type byte.
func IsStrictDER(sig []byte) bool {
	if len(sig) < 9 || len(sig) > 73 {
		return false
	}
	if sig[0] != 0x30 || int(sig[1]) != len(sig)-3 {
		return false
	}
	lenR := int(sig[3])
	if 5+lenR >= len(sig) {
		return false
	}
	lenS := int(sig[5+lenR])
	if lenR+lenS+7 != len(sig) {
		return false
	}
	if sig[2] != 0x02 || lenR == 0 || sig[4]&0x80 != 0 {
		return false
	}
	if lenR > 1 && sig[4] == 0 && sig[5]&0x80 == 0 {
		return false
	}
	if sig[lenR+4] != 0x02 || lenS == 0 || sig[lenR+6]&0x80 != 0 {
		return false
	}
	if lenS > 1 && sig[lenR+6] == 0 && sig[lenR+7]&0x80 == 0 {
		return false
	}
	return true
}

// IsLowDERSignature is Core's low-S check on a strictly encoded signature (with hash type byte).
func IsLowDERSignature(sig []byte) bool {
	if !IsStrictDER(sig) {
		return false
	}
	_, s, ok := ParseDERLax(sig[:len(sig)-1])
	if !ok {
		return false
	}
	return s.Cmp(HalfN) <= 0
}

// VerifyConsensus is CPubKey::Verify: parse key, lax-parse signature (without hash type byte),
// normalise S, verify.  msg is 32 bytes.
func VerifyConsensus(pubkey, sig, msg []byte) bool {
	q, ok := ParsePubKey(pubkey)
	if !ok {
		return false
	}
	r, s, ok := ParseDERLax(sig)
	if !ok {
		return false
	}
	if s.Cmp(HalfN) > 0 {
		s = new(big.Int).Sub(N, s)
	}
	return ECDSAVerifyRaw(q, r, s, new(big.Int).SetBytes(msg))
}

// EncodeDER produces the canonical DER encoding of (r, s) (no hash type byte).
func EncodeDER(r, s *big.Int) []byte {
	enc := func(v *big.Int) []byte {
		b := v.Bytes()
		if len(b) == 0 {
			b = []byte{0}
		}
		if b[0]&0x80 != 0 {
			b = append([]byte{0}, b...)
		}
		return append([]byte{2, byte(len(b))}, b...)
	}
	body := append(enc(r), enc(s)...)
	return append([]byte{0x30, byte(len(body))}, body...)
}

// RFC6979 yields the successive nonce candidates of libsecp256k1's nonce_function_rfc6979 (HMAC-SHA256
// DRBG keyed with key32 ‖ msg32 [‖ extra]) — which equals RFC 6979 §3.2 whenever msg32 as an integer is
// below n (bits2octets reduces mod n, libsecp256k1 does not).
type RFC6979 struct{ k, v []byte }

func NewRFC6979(key32, msg32, extra []byte) *RFC6979 {
	d := &RFC6979{k: make([]byte, 32), v: make([]byte, 32)}
	for i := range d.v {
		d.v[i] = 1
	}
	seed := append(append(append([]byte{}, key32...), msg32...), extra...)
	h := func(parts ...[]byte) []byte {
		m := hmac.New(sha256.New, d.k)
		for _, p := range parts {
			m.Write(p)
		}
		return m.Sum(nil)
	}
	d.k = h(d.v, []byte{0}, seed)
	d.v = h(d.v)
	d.k = h(d.v, []byte{1}, seed)
	d.v = h(d.v)
	return d
}

// Next returns the next 32-byte candidate.
func (d *RFC6979) Next(first bool) []byte {
	h := func(parts ...[]byte) []byte {
		m := hmac.New(sha256.New, d.k)
		for _, p := range parts {
			m.Write(p)
		}
		return m.Sum(nil)
	}
	if !first {
		d.k = h(d.v, []byte{0})
		d.v = h(d.v)
	}
	d.v = h(d.v)
	return append([]byte{}, d.v...)
}

// SignRFC6979 signs with the deterministic nonce, low-S normalised; also returns the recovery id.
func SignRFC6979(key32, msg32 []byte) (r, s *big.Int, recid int) {
	d := new(big.Int).SetBytes(key32)
	z := new(big.Int).SetBytes(msg32)
	gen := NewRFC6979(key32, msg32, nil)
	for first := true; ; first = false {
		k := new(big.Int).SetBytes(gen.Next(first))
		if k.Sign() == 0 || k.Cmp(N) >= 0 {
			continue
		}
		r, s, recid, ok := SignWithNonce(d, z, k)
		if ok {
			return r, s, recid
		}
	}
}

// SignWithNonce computes the ECDSA signature for nonce k, low-S normalised.
func SignWithNonce(d, z, k *big.Int) (r, s *big.Int, recid int, ok bool) {
	R := BaseMul(k)
	if R.Inf {
		return nil, nil, 0, false
	}
	r = new(big.Int).Mod(R.X, N)
	if r.Sign() == 0 {
		return nil, nil, 0, false
	}
	recid = int(R.Y.Bit(0))
	if R.X.Cmp(N) >= 0 {
		recid |= 2
	}
	s = new(big.Int).Mul(r, d)
	s.Add(s, z)
	s.Mul(s, new(big.Int).ModInverse(k, N))
	s.Mod(s, N)
	if s.Sign() == 0 {
		return nil, nil, 0, false
	}
	if s.Cmp(HalfN) > 0 {
		s.Sub(N, s)
		recid ^= 1
	}
	return r, s, recid, true
}

// Recover returns the public key for (r, s, z) and recovery id (bit0 = parity of R.y, bit1 = R.x >= n).
func Recover(r, s, z *big.Int, recid int) (Point, bool) {
	if r.Sign() <= 0 || s.Sign() <= 0 || r.Cmp(N) >= 0 || s.Cmp(N) >= 0 {
		return Infinity, false
	}
	x := new(big.Int).Set(r)
	if recid&2 != 0 {
		x.Add(x, N)
		if x.Cmp(P) >= 0 {
			return Infinity, false
		}
	}
	R, ok := LiftX(x)
	if !ok {
		return Infinity, false
	}
	if recid&1 != 0 {
		R = Neg(R)
	}
	ri := new(big.Int).ModInverse(r, N)
	u1 := new(big.Int).Mul(z, ri)
	u1.Neg(u1).Mod(u1, N)
	u2 := new(big.Int).Mul(s, ri)
	u2.Mod(u2, N)
	Q := MulAdd(u2, R, u1)
	if Q.Inf {
		return Infinity, false
	}
	return Q, true
}

// TaggedHash is BIP340's SHA256(SHA256(tag) ‖ SHA256(tag) ‖ data...).
func TaggedHash(tag string, data ...[]byte) []byte {
	t := sha256.Sum256([]byte(tag))
	h := sha256.New()
	h.Write(t[:])
	h.Write(t[:])
	for _, d := range data {
		h.Write(d)
	}
	return h.Sum(nil)
}

// SchnorrVerify is BIP340 Verify(pk, m, sig) for a 32-byte public key, any message, 64-byte signature.
func SchnorrVerify(pk, msg, sig []byte) bool {
	if len(pk) != 32 || len(sig) != 64 {
		return false
	}
	Pt, ok := LiftX(new(big.Int).SetBytes(pk))
	if !ok {
		return false
	}
	r := new(big.Int).SetBytes(sig[:32])
	s := new(big.Int).SetBytes(sig[32:])
	if r.Cmp(P) >= 0 || s.Cmp(N) >= 0 {
		return false
	}
	e := new(big.Int).SetBytes(TaggedHash("BIP0340/challenge", sig[:32], pk, msg))
	e.Mod(e, N)
	R := Add(BaseMul(s), Mul(new(big.Int).Sub(N, e), Pt))
	if R.Inf || R.Y.Bit(0) == 1 || R.X.Cmp(r) != 0 {
		return false
	}
	return true
}

// SchnorrSign is BIP340 Sign(sk, m, aux); nil when sk is out of range.
func SchnorrSign(sk, msg, aux []byte) []byte {
	d0 := new(big.Int).SetBytes(sk)
	if d0.Sign() == 0 || d0.Cmp(N) >= 0 {
		return nil
	}
	Pt := BaseMul(d0)
	d := d0
	if Pt.Y.Bit(0) == 1 {
		d = new(big.Int).Sub(N, d0)
	}
	t := Bytes32(d)
	ha := TaggedHash("BIP0340/aux", aux)
	for i := range t {
		t[i] ^= ha[i]
	}
	px := Bytes32(Pt.X)
	k0 := new(big.Int).SetBytes(TaggedHash("BIP0340/nonce", t, px, msg))
	k0.Mod(k0, N)
	if k0.Sign() == 0 {
		return nil
	}
	R := BaseMul(k0)
	k := k0
	if R.Y.Bit(0) == 1 {
		k = new(big.Int).Sub(N, k0)
	}
	rx := Bytes32(R.X)
	e := new(big.Int).SetBytes(TaggedHash("BIP0340/challenge", rx, px, msg))
	e.Mod(e, N)
	s := new(big.Int).Mul(e, d)
	s.Add(s, k).Mod(s, N)
	return append(rx, Bytes32(s)...)
}

// XOnlyPubKey returns the BIP340 public key bytes of secret d (and whether the full point has odd y).
func XOnlyPubKey(sk []byte) ([]byte, bool) {
	Pt := BaseMul(new(big.Int).SetBytes(sk))
	return Bytes32(Pt.X), Pt.Y.Bit(0) == 1
}

// TweakCheck is BIP341's commitment test: lift_x(p) + t·G == (q with parity), t < n.
func TweakCheck(q32 []byte, parity bool, p32 []byte, tweak32 []byte) bool {
	Pt, ok := LiftX(new(big.Int).SetBytes(p32))
	if !ok {
		return false
	}
	t := new(big.Int).SetBytes(tweak32)
	if t.Cmp(N) >= 0 {
		return false
	}
	Q := Add(Pt, BaseMul(t))
	if Q.Inf {
		return false
	}
	return Q.X.Cmp(new(big.Int).SetBytes(q32)) == 0 && (Q.Y.Bit(0) == 1) == parity
}

// TweakAdd returns the output key (x-only, parity) for internal key p32 and tweak.
func TweakAdd(p32, tweak32 []byte) (q32 []byte, parity bool, ok bool) {
	Pt, ok := LiftX(new(big.Int).SetBytes(p32))
	if !ok {
		return nil, false, false
	}
	t := new(big.Int).SetBytes(tweak32)
	if t.Cmp(N) >= 0 {
		return nil, false, false
	}
	Q := Add(Pt, BaseMul(t))
	if Q.Inf {
		return nil, false, false
	}
	return Bytes32(Q.X), Q.Y.Bit(0) == 1, true
}

// TweakSecret returns the secret key for the tweaked output key of secret sk (BIP341 key-path signing).
func TweakSecret(sk, tweak32 []byte) []byte {
	d := new(big.Int).SetBytes(sk)
	if BaseMul(d).Y.Bit(0) == 1 {
		d.Sub(N, d)
	}
	d.Add(d, new(big.Int).SetBytes(tweak32)).Mod(d, N)
	return Bytes32(d)
}

func sha256Sum(b []byte) []byte { h := sha256.Sum256(b); return h[:] }
