package wire

import (
	"bytes"
	"encoding/hex"
	"encoding/json"
	"os"
	"testing"
)

func loadTxs(t *testing.T, fn string) [][]byte {
	b, err := os.ReadFile(fn)
	if err != nil {
		t.Skip(err)
	}
	var rows [][]any
	if err := json.Unmarshal(b, &rows); err != nil {
		t.Fatal(err)
	}
	var out [][]byte
	for _, r := range rows {
		if len(r) == 3 {
			if s, ok := r[1].(string); ok {
				raw, err := hex.DecodeString(s)
				if err == nil {
					out = append(out, raw)
				}
			}
		}
	}
	return out
}

func TestCoreVectorsRoundTrip(t *testing.T) {
	n := 0
	for _, fn := range []string{"/repo/lib/test/tx_valid.json", "/repo/lib/test/tx_invalid.json"} {
		for _, raw := range loadTxs(t, fn) {
			tx, used, err := DecodeTx(raw)
			if err != nil {
				t.Errorf("decode %x: %v", raw[:8], err)
				continue
			}
			if used != len(raw) || !bytes.Equal(tx.Serialize(true), raw) {
				t.Errorf("round trip %x", raw[:8])
			}
			n++
		}
	}
	if n < 150 {
		t.Fatalf("only %d vectors", n)
	}
}

func TestRules(t *testing.T) {
	tx := &Tx{Version: 2, In: []TxIn{{Sequence: 1, ScriptSig: []byte{1, 2}}}, Out: []TxOut{{Value: 5, PkScript: []byte{0x51}}}}
	raw := tx.Serialize(true)
	// non-canonical count
	bad := append(append([]byte{}, raw[:4]...), 0xfd, 1, 0)
	bad = append(bad, raw[5:]...)
	if _, _, err := DecodeTx(bad); err == nil {
		t.Fatal("non-canonical accepted")
	}
	// witness flag with all-empty witnesses
	sw := append(append([]byte{}, raw[:4]...), 0, 1)
	sw = append(sw, raw[4:len(raw)-4]...)
	sw = append(sw, 0)
	sw = append(sw, raw[len(raw)-4:]...)
	if _, _, err := DecodeTx(sw); err == nil {
		t.Fatal("superfluous witness accepted")
	}
	// 0-in/0-out legal form
	z := []byte{1, 0, 0, 0, 0, 0, 9, 0, 0, 0}
	if tx0, used, err := DecodeTx(z); err != nil || used != 10 || len(tx0.In) != 0 || tx0.LockTime != 9 {
		t.Fatal("00 00 form", err)
	}
	for i := 0; i < len(raw); i++ {
		if _, _, err := DecodeTx(raw[:i]); err == nil {
			t.Fatal("truncation accepted", i)
		}
	}
	// merkle mutation
	a, b, c := DSHA([]byte{1}), DSHA([]byte{2}), DSHA([]byte{3})
	r1, m1 := MerkleRoot([][32]byte{a, b, c})
	r2, m2 := MerkleRoot([][32]byte{a, b, c, c})
	if r1 != r2 || m1 || !m2 {
		t.Fatal("merkle mutation flag")
	}
}
