// Package wire is an independent reference for Bitcoin's transaction / block wire format with
// Bitcoin Core's deserialisation rules (canonical CompactSize, MAX_SIZE, BIP144 marker/flag,
// "superfluous witness record"), txid / wtxid / weight / vsize and the merkle tree with the
// CVE-2012-2459 mutation flag.  It imports nothing from gocoin.
package wire

import (
	"bytes"
	"crypto/sha256"
	"encoding/binary"
	"errors"
)

// MaxSize is Core's MAX_SIZE for any length/count read with ReadCompactSize.
const MaxSize = 0x02000000

type TxIn struct {
	PrevHash  [32]byte
	PrevIndex uint32
	ScriptSig []byte
	Sequence  uint32
	Witness   [][]byte
}

type TxOut struct {
	Value    uint64 // the 8 bytes on the wire, read as unsigned (Core: int64)
	PkScript []byte
}

type Tx struct {
	Version  uint32
	In       []TxIn
	Out      []TxOut
	LockTime uint32
}

type reader struct {
	b   []byte
	pos int
}

var errShort = errors.New("unexpected end of data")

func (r *reader) bytes(n int) ([]byte, error) {
	if n < 0 || len(r.b)-r.pos < n {
		return nil, errShort
	}
	v := r.b[r.pos : r.pos+n]
	r.pos += n
	return v, nil
}

func (r *reader) u32() (uint32, error) {
	b, err := r.bytes(4)
	if err != nil {
		return 0, err
	}
	return binary.LittleEndian.Uint32(b), nil
}

func (r *reader) u64() (uint64, error) {
	b, err := r.bytes(8)
	if err != nil {
		return 0, err
	}
	return binary.LittleEndian.Uint64(b), nil
}

// compactSize reads a canonical CompactSize; rangeCheck applies MAX_SIZE.
func (r *reader) compactSize(rangeCheck bool) (uint64, error) {
	b, err := r.bytes(1)
	if err != nil {
		return 0, err
	}
	var v uint64
	switch b[0] {
	case 0xfd:
		x, err := r.bytes(2)
		if err != nil {
			return 0, err
		}
		v = uint64(binary.LittleEndian.Uint16(x))
		if v < 253 {
			return 0, errors.New("non-canonical ReadCompactSize()")
		}
	case 0xfe:
		x, err := r.bytes(4)
		if err != nil {
			return 0, err
		}
		v = uint64(binary.LittleEndian.Uint32(x))
		if v < 0x10000 {
			return 0, errors.New("non-canonical ReadCompactSize()")
		}
	case 0xff:
		x, err := r.bytes(8)
		if err != nil {
			return 0, err
		}
		v = binary.LittleEndian.Uint64(x)
		if v < 0x100000000 {
			return 0, errors.New("non-canonical ReadCompactSize()")
		}
	default:
		v = uint64(b[0])
	}
	if rangeCheck && v > MaxSize {
		return 0, errors.New("ReadCompactSize(): size too large")
	}
	return v, nil
}

func (r *reader) varBytes() ([]byte, error) {
	n, err := r.compactSize(true)
	if err != nil {
		return nil, err
	}
	b, err := r.bytes(int(n))
	if err != nil {
		return nil, err
	}
	return append([]byte{}, b...), nil
}

func (r *reader) readIns() ([]TxIn, error) {
	n, err := r.compactSize(true)
	if err != nil {
		return nil, err
	}
	var ins []TxIn // grown as data is actually read: a declared count never allocates ahead of the data
	for i := uint64(0); i < n; i++ {
		var in TxIn
		h, err := r.bytes(32)
		if err != nil {
			return nil, err
		}
		copy(in.PrevHash[:], h)
		if in.PrevIndex, err = r.u32(); err != nil {
			return nil, err
		}
		if in.ScriptSig, err = r.varBytes(); err != nil {
			return nil, err
		}
		if in.Sequence, err = r.u32(); err != nil {
			return nil, err
		}
		ins = append(ins, in)
	}
	return ins, nil
}

func (r *reader) readOuts() ([]TxOut, error) {
	n, err := r.compactSize(true)
	if err != nil {
		return nil, err
	}
	var outs []TxOut
	for i := uint64(0); i < n; i++ {
		var o TxOut
		if o.Value, err = r.u64(); err != nil {
			return nil, err
		}
		if o.PkScript, err = r.varBytes(); err != nil {
			return nil, err
		}
		outs = append(outs, o)
	}
	return outs, nil
}

// DecodeTx is UnserializeTransaction with witness allowed; returns the transaction and the number of
// bytes consumed.
func DecodeTx(b []byte) (*Tx, int, error) {
	r := &reader{b: b}
	tx := &Tx{}
	var err error
	if tx.Version, err = r.u32(); err != nil {
		return nil, 0, err
	}
	if tx.In, err = r.readIns(); err != nil {
		return nil, 0, err
	}
	flags := byte(0)
	if len(tx.In) == 0 {
		f, err := r.bytes(1)
		if err != nil {
			return nil, 0, err
		}
		flags = f[0]
		if flags != 0 {
			if tx.In, err = r.readIns(); err != nil {
				return nil, 0, err
			}
			if tx.Out, err = r.readOuts(); err != nil {
				return nil, 0, err
			}
		}
	} else {
		if tx.Out, err = r.readOuts(); err != nil {
			return nil, 0, err
		}
	}
	if flags&1 != 0 {
		flags ^= 1
		any := false
		for i := range tx.In {
			n, err := r.compactSize(true)
			if err != nil {
				return nil, 0, err
			}
			for j := uint64(0); j < n; j++ {
				it, err := r.varBytes()
				if err != nil {
					return nil, 0, err
				}
				tx.In[i].Witness = append(tx.In[i].Witness, it)
			}
			if n > 0 {
				any = true
			}
		}
		if !any {
			return nil, 0, errors.New("Superfluous witness record")
		}
	}
	if flags != 0 {
		return nil, 0, errors.New("Unknown transaction optional data")
	}
	if tx.LockTime, err = r.u32(); err != nil {
		return nil, 0, err
	}
	return tx, r.pos, nil
}

// PutCompactSize appends the canonical encoding of v.
func PutCompactSize(w *bytes.Buffer, v uint64) {
	switch {
	case v < 253:
		w.WriteByte(byte(v))
	case v <= 0xffff:
		w.WriteByte(0xfd)
		binary.Write(w, binary.LittleEndian, uint16(v))
	case v <= 0xffffffff:
		w.WriteByte(0xfe)
		binary.Write(w, binary.LittleEndian, uint32(v))
	default:
		w.WriteByte(0xff)
		binary.Write(w, binary.LittleEndian, v)
	}
}

// CompactSize returns the canonical encoding of v.
func CompactSize(v uint64) []byte {
	var w bytes.Buffer
	PutCompactSize(&w, v)
	return w.Bytes()
}

func putVarBytes(w *bytes.Buffer, b []byte) {
	PutCompactSize(w, uint64(len(b)))
	w.Write(b)
}

// HasWitness reports whether any input carries a non-empty witness stack.
func (t *Tx) HasWitness() bool {
	for i := range t.In {
		if len(t.In[i].Witness) > 0 {
			return true
		}
	}
	return false
}

// Serialize encodes the transaction; with witness=true and at least one non-empty witness stack the
// BIP144 form is used.
func (t *Tx) Serialize(witness bool) []byte {
	var w bytes.Buffer
	binary.Write(&w, binary.LittleEndian, t.Version)
	ext := witness && t.HasWitness()
	if ext {
		w.Write([]byte{0, 1})
	}
	PutCompactSize(&w, uint64(len(t.In)))
	for _, in := range t.In {
		w.Write(in.PrevHash[:])
		binary.Write(&w, binary.LittleEndian, in.PrevIndex)
		putVarBytes(&w, in.ScriptSig)
		binary.Write(&w, binary.LittleEndian, in.Sequence)
	}
	PutCompactSize(&w, uint64(len(t.Out)))
	for _, o := range t.Out {
		binary.Write(&w, binary.LittleEndian, o.Value)
		putVarBytes(&w, o.PkScript)
	}
	if ext {
		for _, in := range t.In {
			PutCompactSize(&w, uint64(len(in.Witness)))
			for _, it := range in.Witness {
				putVarBytes(&w, it)
			}
		}
	}
	binary.Write(&w, binary.LittleEndian, t.LockTime)
	return w.Bytes()
}

// DSHA is double SHA-256.
func DSHA(b []byte) [32]byte {
	a := sha256.Sum256(b)
	return sha256.Sum256(a[:])
}

// TxID / WTxID in internal byte order (as hashed).
func (t *Tx) TxID() [32]byte  { return DSHA(t.Serialize(false)) }
func (t *Tx) WTxID() [32]byte { return DSHA(t.Serialize(true)) }

// Weight is 3·stripped + total; VSize = ceil(weight/4).
func (t *Tx) Weight() int { return 3*len(t.Serialize(false)) + len(t.Serialize(true)) }
func (t *Tx) VSize() int  { return (t.Weight() + 3) / 4 }

// IsCoinBase: exactly one input with null prevout.
func (t *Tx) IsCoinBase() bool {
	return len(t.In) == 1 && t.In[0].PrevHash == [32]byte{} && t.In[0].PrevIndex == 0xffffffff
}

// Copy is a deep copy.
func (t *Tx) Copy() *Tx {
	c := &Tx{Version: t.Version, LockTime: t.LockTime}
	for _, in := range t.In {
		n := in
		n.ScriptSig = append([]byte{}, in.ScriptSig...)
		n.Witness = nil
		for _, w := range in.Witness {
			n.Witness = append(n.Witness, append([]byte{}, w...))
		}
		c.In = append(c.In, n)
	}
	for _, o := range t.Out {
		c.Out = append(c.Out, TxOut{o.Value, append([]byte{}, o.PkScript...)})
	}
	return c
}

// Header is the 80-byte block header.
type Header struct {
	Version    uint32
	PrevBlock  [32]byte
	MerkleRoot [32]byte
	Time       uint32
	Bits       uint32
	Nonce      uint32
}

func (h *Header) Serialize() []byte {
	var w bytes.Buffer
	binary.Write(&w, binary.LittleEndian, h.Version)
	w.Write(h.PrevBlock[:])
	w.Write(h.MerkleRoot[:])
	binary.Write(&w, binary.LittleEndian, h.Time)
	binary.Write(&w, binary.LittleEndian, h.Bits)
	binary.Write(&w, binary.LittleEndian, h.Nonce)
	return w.Bytes()
}

func (h *Header) Hash() [32]byte { return DSHA(h.Serialize()) }

func DecodeHeader(b []byte) (*Header, error) {
	if len(b) < 80 {
		return nil, errShort
	}
	h := &Header{}
	h.Version = binary.LittleEndian.Uint32(b)
	copy(h.PrevBlock[:], b[4:36])
	copy(h.MerkleRoot[:], b[36:68])
	h.Time = binary.LittleEndian.Uint32(b[68:])
	h.Bits = binary.LittleEndian.Uint32(b[72:])
	h.Nonce = binary.LittleEndian.Uint32(b[76:])
	return h, nil
}

type Block struct {
	Header Header
	Txs    []*Tx
}

// DecodeBlock reads header, CompactSize count and that many transactions; consumed bytes returned.
func DecodeBlock(b []byte) (*Block, int, error) {
	h, err := DecodeHeader(b)
	if err != nil {
		return nil, 0, err
	}
	r := &reader{b: b, pos: 80}
	n, err := r.compactSize(true)
	if err != nil {
		return nil, 0, err
	}
	bl := &Block{Header: *h}
	for i := uint64(0); i < n; i++ {
		tx, used, err := DecodeTx(b[r.pos:])
		if err != nil {
			return nil, 0, err
		}
		r.pos += used
		bl.Txs = append(bl.Txs, tx)
	}
	return bl, r.pos, nil
}

func (bl *Block) Serialize(witness bool) []byte {
	var w bytes.Buffer
	w.Write(bl.Header.Serialize())
	PutCompactSize(&w, uint64(len(bl.Txs)))
	for _, t := range bl.Txs {
		w.Write(t.Serialize(witness))
	}
	return w.Bytes()
}

// Weight = 3·stripped size + total size.
func (bl *Block) Weight() int { return 3*len(bl.Serialize(false)) + len(bl.Serialize(true)) }

// MerkleRoot computes Core's ComputeMerkleRoot over the hashes; mutated is set when two identical
// hashes are paired at any level (CVE-2012-2459).
func MerkleRoot(hashes [][32]byte) (root [32]byte, mutated bool) {
	if len(hashes) == 0 {
		return root, false
	}
	level := append([][32]byte{}, hashes...)
	for len(level) > 1 {
		for i := 0; i+1 < len(level); i += 2 {
			if level[i] == level[i+1] {
				mutated = true
			}
		}
		if len(level)%2 == 1 {
			level = append(level, level[len(level)-1])
		}
		next := make([][32]byte, 0, len(level)/2)
		for i := 0; i < len(level); i += 2 {
			next = append(next, DSHA(append(append([]byte{}, level[i][:]...), level[i+1][:]...)))
		}
		level = next
	}
	return level[0], mutated
}

// TxMerkleRoot / WitnessMerkleRoot of a block (coinbase wtxid counted as zero).
func (bl *Block) TxMerkleRoot() ([32]byte, bool) {
	hs := make([][32]byte, len(bl.Txs))
	for i, t := range bl.Txs {
		hs[i] = t.TxID()
	}
	return MerkleRoot(hs)
}

func (bl *Block) WitnessMerkleRoot() [32]byte {
	hs := make([][32]byte, len(bl.Txs))
	for i, t := range bl.Txs {
		if i > 0 {
			hs[i] = t.WTxID()
		}
	}
	r, _ := MerkleRoot(hs)
	return r
}

// WitnessCommitment = SHA256d(witness merkle root ‖ nonce).
func WitnessCommitment(root [32]byte, nonce []byte) [32]byte {
	return DSHA(append(append([]byte{}, root[:]...), nonce...))
}
