package addr

import (
	"encoding/hex"
	"strings"
	"testing"
)

// Vectors reproduced from BIP173 / BIP350 and from the Bitcoin wiki Base58Check page.
var validB32 = []string{"A12UEL5L", "a12uel5l",
	"an83characterlonghumanreadablepartthatcontainsthenumber1andtheexcludedcharactersbio1tt5tgs",
	"abcdef1qpzry9x8gf2tvdw0s3jn54khce6mua7lmqqqxw",
	"11qqqqqqqqqqqqqqqqqqqqqqqqqqqqqqqqqqqqqqqqqqqqqqqqqqqqqqqqqqqqqqqqqqqqqqqqqqqqqqqqqqc8247j",
	"split1checkupstagehandshakeupstreamerranterredcaperred2y9e3w", "?1ezyfcl"}
var validB32m = []string{"A1LQFN3A", "a1lqfn3a",
	"an83characterlonghumanreadablepartthatcontainsthetheexcludedcharactersbioandnumber11sg7hg6",
	"abcdef1l7aum6echk45nj3s0wdvt2fg8x9yrzpqzd3ryx",
	"11llllllllllllllllllllllllllllllllllllllllllllllllllllllllllllllllllllllllllllllllllludsr8",
	"split1checkupstagehandshakeupstreamerranterredcaperredlc445v", "?1v759aa"}
var invalidB32 = []string{" 1nwldj5", "\x7f1axkwrx", "\x801eym55h",
	"an84characterslonghumanreadablepartthatcontainsthenumber1andtheexcludedcharactersbio1569pvx",
	"pzry9x0s0muk", "1pzry9x0s0muk", "x1b4n0q5v", "li1dgmt3", "de1lg7wt\xff", "A1G7SGD8", "10a06t8", "1qzzfhee",
	" 1xj0phk", "\x7F1g6xzxy", "\x801vctc34",
	"an84characterslonghumanreadablepartthatcontainsthetheexcludedcharactersbioandnumber11d6pts4",
	"qyrz8wqd2c9m", "1qyrz8wqd2c9m", "y1b0jsk6g", "lt1igcx5c0", "in1muywd", "mm1crxm3i", "au1s5cgom", "M1VUXWEZ", "16plkw9", "1p2gdwpf"}

var validAddr = [][2]string{
	{"BC1QW508D6QEJXTDG4Y5R3ZARVARY0C5XW7KV8F3T4", "0014751e76e8199196d454941c45d1b3a323f1433bd6"},
	{"tb1qrp33g0q5c5txsp9arysrx4k6zdkfs4nce4xj0gdcccefvpysxf3q0sl5k7", "00201863143c14c5166804bd19203356da136c985678cd4d27a1b8c6329604903262"},
	{"bc1pw508d6qejxtdg4y5r3zarvary0c5xw7kw508d6qejxtdg4y5r3zarvary0c5xw7kt5nd6y", "5128751e76e8199196d454941c45d1b3a323f1433bd6751e76e8199196d454941c45d1b3a323f1433bd6"},
	{"BC1SW50QGDZ25J", "6002751e"},
	{"bc1zw508d6qejxtdg4y5r3zarvaryvaxxpcs", "5210751e76e8199196d454941c45d1b3a323"},
	{"tb1qqqqqp399et2xygdj5xreqhjjvcmzhxw4aywxecjdzew6hylgvsesrxh6hy", "0020000000c4a5cad46221b2a187905e5266362b99d5e91c6ce24d165dab93e86433"},
	{"tb1pqqqqp399et2xygdj5xreqhjjvcmzhxw4aywxecjdzew6hylgvsesf3hn0c", "5120000000c4a5cad46221b2a187905e5266362b99d5e91c6ce24d165dab93e86433"},
	{"bc1p0xlxvlhemja6c4dqv22uapctqupfhlxm9h8z3k2e72q4k9hcz7vqzk5jj0", "512079be667ef9dcbbac55a06295ce870b07029bfcdb2dce28d959f2815b16f81798"},
}
var invalidAddr = []string{
	"tc1p0xlxvlhemja6c4dqv22uapctqupfhlxm9h8z3k2e72q4k9hcz7vq5zuyut",
	"bc1p0xlxvlhemja6c4dqv22uapctqupfhlxm9h8z3k2e72q4k9hcz7vqh2y7hd",
	"tb1z0xlxvlhemja6c4dqv22uapctqupfhlxm9h8z3k2e72q4k9hcz7vqglt7rf",
	"BC1S0XLXVLHEMJA6C4DQV22UAPCTQUPFHLXM9H8Z3K2E72Q4K9HCZ7VQ54WELL",
	"bc1qw508d6qejxtdg4y5r3zarvary0c5xw7kemeawh",
	"tb1q0xlxvlhemja6c4dqv22uapctqupfhlxm9h8z3k2e72q4k9hcz7vq24jc47",
	"bc1p38j9r5y49hruaue7wxjce0updqjuyyx0kh56v8s25huc6995vvpql3jow4",
	"BC130XLXVLHEMJA6C4DQV22UAPCTQUPFHLXM9H8Z3K2E72Q4K9HCZ7VQ7ZWS8R",
	"bc1pw5dgrnzv",
	"bc1p0xlxvlhemja6c4dqv22uapctqupfhlxm9h8z3k2e72q4k9hcz7v8n0nx0muaewav253zgeav",
	"BC1QR508D6QEJXTDG4Y5R3ZARVARYV98GJ9P",
	"tb1p0xlxvlhemja6c4dqv22uapctqupfhlxm9h8z3k2e72q4k9hcz7vq47Zagq",
	"bc1p0xlxvlhemja6c4dqv22uapctqupfhlxm9h8z3k2e72q4k9hcz7v07qwwzcrf",
	"tb1p0xlxvlhemja6c4dqv22uapctqupfhlxm9h8z3k2e72q4k9hcz7vpggkg4j",
	"bc1gmk9yu",
}

func TestRefBech32(t *testing.T) {
	for _, s := range validB32 {
		if h, d, spec := Bech32Decode(s); spec != Bech32 || !strings.EqualFold(Bech32Encode(h, d, Bech32), s) {
			t.Error("valid bech32 refused", s)
		}
	}
	for _, s := range validB32m {
		if h, d, spec := Bech32Decode(s); spec != Bech32m || !strings.EqualFold(Bech32Encode(h, d, Bech32m), s) {
			t.Error("valid bech32m refused", s)
		}
	}
	for _, s := range invalidB32 {
		if _, _, spec := Bech32Decode(s); spec != 0 {
			t.Error("invalid accepted", s)
		}
	}
	for _, v := range validAddr {
		d, ok := Decode(v[0])
		if !ok || hex.EncodeToString(d.Script()) != v[1] {
			t.Error("valid address", v[0])
			continue
		}
		if !strings.EqualFold(SegwitEncode(d.HRP, d.WitVer, d.Prog), v[0]) {
			t.Error("re-encode", v[0])
		}
	}
	for _, s := range invalidAddr {
		if _, ok := Decode(s); ok {
			t.Error("invalid address accepted", s)
		}
	}
}

func TestRefBase58(t *testing.T) {
	// Bitcoin wiki "Technical background of version 1 Bitcoin addresses"
	pl, ok := Base58CheckDecode("1PMycacnJaSqwwJqjawXBErnLsZ7RkXUAs")
	if !ok || hex.EncodeToString(pl) != "00f54a5851e9372b87810a8e60cdd2e7cfd80b6e31" {
		t.Fatal("base58check vector", ok, hex.EncodeToString(pl))
	}
	if Base58CheckEncode(pl) != "1PMycacnJaSqwwJqjawXBErnLsZ7RkXUAs" {
		t.Fatal("encode")
	}
	// Core base58_encode_decode.json samples
	for _, v := range [][2]string{{"", ""}, {"61", "2g"}, {"626262", "a3gV"}, {"636363", "aPEr"},
		{"73696d706c792061206c6f6e6720737472696e67", "2cFupjhnEsSn59qHXstmK2ffpLv2"},
		{"00eb15231dfceb60925886b67d065299925915aeb172c06647", "1NS17iag9jJgTHD1VXjvLCEnZuQ3rJDE9L"},
		{"516b6fcd0f", "ABnLTmg"}, {"bf4f89001e670274dd", "3SEo3LWLoPntC"}, {"572e4794", "3EFU7m"},
		{"ecac89cad93923c02321", "EJDM8drfXA6uyA"}, {"10c8511e", "Rt5zm"}, {"00000000000000000000", "1111111111"}} {
		b, _ := hex.DecodeString(v[0])
		if Base58Encode(b) != v[1] {
			t.Error("enc", v)
		}
		d, ok := Base58Decode(v[1])
		if !ok || hex.EncodeToString(d) != v[0] {
			t.Error("dec", v)
		}
	}
	// WIF (Bitcoin wiki): 0C28FCA3...  -> 5HueCGU8rMjxEXxiPuD5BDku4MkFqeZyd4dZ1jvhTVqvbTLvyTJ
	v, k, c, ok := WIFDecode("5HueCGU8rMjxEXxiPuD5BDku4MkFqeZyd4dZ1jvhTVqvbTLvyTJ")
	if !ok || v != 0x80 || c || strings.ToUpper(hex.EncodeToString(k)) != "0C28FCA386C7A227600B2FE50B7CAE11EC86D3BF1FBE471BE89827E19D72AA1D" {
		t.Fatal("wif")
	}
	if WIFEncode(v, k, c) != "5HueCGU8rMjxEXxiPuD5BDku4MkFqeZyd4dZ1jvhTVqvbTLvyTJ" {
		t.Fatal("wif enc")
	}
}
