// Package addr is an independent reference for Base58Check, Bech32 (BIP173), Bech32m
// (BIP350), segwit address rules and WIF.  It imports nothing from gocoin.
package addr

import (
	"bytes"
	"crypto/sha256"
	"math/big"
	"strings"
)

const b58 = "123456789ABCDEFGHJKLMNPQRSTUVWXYZabcdefghijkmnopqrstuvwxyz"

// Base58Encode: big-endian base conversion, one '1' per leading zero byte.
func Base58Encode(b []byte) string {
	zeros := 0
	for zeros < len(b) && b[zeros] == 0 {
		zeros++
	}
	n := new(big.Int).SetBytes(b)
	var out []byte
	base := big.NewInt(58)
	m := new(big.Int)
	for n.Sign() > 0 {
		n.QuoRem(n, base, m)
		out = append(out, b58[m.Int64()])
	}
	for i := 0; i < zeros; i++ {
		out = append(out, '1')
	}
	for i, j := 0, len(out)-1; i < j; i, j = i+1, j-1 {
		out[i], out[j] = out[j], out[i]
	}
	return string(out)
}

// Base58Decode returns false on any character outside the alphabet.
func Base58Decode(s string) ([]byte, bool) {
	n := new(big.Int)
	base := big.NewInt(58)
	for i := 0; i < len(s); i++ {
		k := strings.IndexByte(b58, s[i])
		if k < 0 {
			return nil, false
		}
		n.Mul(n, base)
		n.Add(n, big.NewInt(int64(k)))
	}
	zeros := 0
	for zeros < len(s) && s[zeros] == '1' {
		zeros++
	}
	return append(make([]byte, zeros), n.Bytes()...), true
}

func dsha(b []byte) []byte {
	a := sha256.Sum256(b)
	c := sha256.Sum256(a[:])
	return c[:]
}

// Base58CheckEncode appends the 4-byte double-SHA256 checksum.
func Base58CheckEncode(payload []byte) string {
	return Base58Encode(append(append([]byte{}, payload...), dsha(payload)[:4]...))
}

// Base58CheckDecode returns the payload without checksum.
func Base58CheckDecode(s string) ([]byte, bool) {
	raw, ok := Base58Decode(s)
	if !ok || len(raw) < 4 {
		return nil, false
	}
	pl, ck := raw[:len(raw)-4], raw[len(raw)-4:]
	if !bytes.Equal(dsha(pl)[:4], ck) {
		return nil, false
	}
	return pl, true
}

const b32 = "qpzry9x8gf2tvdw0s3jn54khce6mua7l"

// Variants of the checksum constant.
const (
	Bech32  = 1
	Bech32m = 0x2bc830a3
)

func polymod(values []byte) uint32 {
	gen := []uint32{0x3b6a57b2, 0x26508e6d, 0x1ea119fa, 0x3d4233dd, 0x2a1462b3}
	chk := uint32(1)
	for _, v := range values {
		top := chk >> 25
		chk = (chk&0x1ffffff)<<5 ^ uint32(v)
		for i := 0; i < 5; i++ {
			if (top>>uint(i))&1 == 1 {
				chk ^= gen[i]
			}
		}
	}
	return chk
}

func hrpExpand(hrp string) []byte {
	var r []byte
	for i := 0; i < len(hrp); i++ {
		r = append(r, hrp[i]>>5)
	}
	r = append(r, 0)
	for i := 0; i < len(hrp); i++ {
		r = append(r, hrp[i]&31)
	}
	return r
}

// Bech32Encode encodes 5-bit data under the given checksum constant.
func Bech32Encode(hrp string, data []byte, spec uint32) string {
	values := append(hrpExpand(hrp), data...)
	values = append(values, 0, 0, 0, 0, 0, 0)
	pm := polymod(values) ^ spec
	out := []byte(hrp + "1")
	for _, d := range data {
		out = append(out, b32[d])
	}
	for i := 0; i < 6; i++ {
		out = append(out, b32[(pm>>uint(5*(5-i)))&31])
	}
	return string(out)
}

// Bech32Decode follows the BIP173 reference decoder; spec is Bech32, Bech32m or 0 (invalid).
func Bech32Decode(s string) (hrp string, data []byte, spec uint32) {
	if len(s) > 90 {
		return "", nil, 0
	}
	lower, upper := false, false
	for i := 0; i < len(s); i++ {
		c := s[i]
		if c < 33 || c > 126 {
			return "", nil, 0
		}
		if c >= 'a' && c <= 'z' {
			lower = true
		}
		if c >= 'A' && c <= 'Z' {
			upper = true
		}
	}
	if lower && upper {
		return "", nil, 0
	}
	s = strings.ToLower(s)
	pos := strings.LastIndexByte(s, '1')
	if pos < 1 || pos+7 > len(s) {
		return "", nil, 0
	}
	hrp = s[:pos]
	for i := pos + 1; i < len(s); i++ {
		k := strings.IndexByte(b32, s[i])
		if k < 0 {
			return "", nil, 0
		}
		data = append(data, byte(k))
	}
	pm := polymod(append(hrpExpand(hrp), data...))
	switch pm {
	case Bech32:
		return hrp, data[:len(data)-6], Bech32
	case Bech32m:
		return hrp, data[:len(data)-6], Bech32m
	}
	return "", nil, 0
}

func convertBits(data []byte, from, to uint, pad bool) ([]byte, bool) {
	acc, bits := uint32(0), uint(0)
	var out []byte
	maxv := uint32(1)<<to - 1
	for _, v := range data {
		if uint32(v)>>from != 0 {
			return nil, false
		}
		acc = acc<<from | uint32(v)
		bits += from
		for bits >= to {
			bits -= to
			out = append(out, byte(acc>>bits&maxv))
		}
	}
	if pad {
		if bits > 0 {
			out = append(out, byte(acc<<(to-bits)&maxv))
		}
	} else if bits >= from || acc<<(to-bits)&maxv != 0 {
		return nil, false
	}
	return out, true
}

// SegwitDecode implements BIP173/BIP350 address decoding for the expected hrp.
func SegwitDecode(hrp, s string) (ver int, prog []byte, ok bool) {
	got, data, spec := Bech32Decode(s)
	if spec == 0 || got != hrp || len(data) < 1 {
		return 0, nil, false
	}
	prog, cok := convertBits(data[1:], 5, 8, false)
	if !cok || len(prog) < 2 || len(prog) > 40 {
		return 0, nil, false
	}
	if data[0] > 16 {
		return 0, nil, false
	}
	if data[0] == 0 && len(prog) != 20 && len(prog) != 32 {
		return 0, nil, false
	}
	if data[0] == 0 && spec != Bech32 || data[0] != 0 && spec != Bech32m {
		return 0, nil, false
	}
	return int(data[0]), prog, true
}

// SegwitEncode returns "" when (ver, prog) is not a legal witness program.
func SegwitEncode(hrp string, ver int, prog []byte) string {
	if ver < 0 || ver > 16 || len(prog) < 2 || len(prog) > 40 {
		return ""
	}
	if ver == 0 && len(prog) != 20 && len(prog) != 32 {
		return ""
	}
	spec := uint32(Bech32m)
	if ver == 0 {
		spec = Bech32
	}
	d, _ := convertBits(prog, 8, 5, true)
	s := Bech32Encode(hrp, append([]byte{byte(ver)}, d...), spec)
	if v, p, ok := SegwitDecode(hrp, s); !ok || v != ver || !bytes.Equal(p, prog) {
		return ""
	}
	return s
}

// WitnessScript is the output script of a witness program.
func WitnessScript(ver int, prog []byte) []byte {
	op := byte(0)
	if ver > 0 {
		op = byte(0x50 + ver)
	}
	return append([]byte{op, byte(len(prog))}, prog...)
}

// Dest is a decoded destination.
type Dest struct {
	Segwit  bool
	HRP     string
	WitVer  int
	Prog    []byte
	Version byte   // Base58 version byte
	Hash    []byte // 20 bytes
}

// Decode routes like wallets of the bc/tb networks do: strings starting (case-insensitively)
// with "bc1"/"tb1" are segwit addresses for that hrp, everything else is Base58Check with a
// 21-byte payload.
func Decode(s string) (*Dest, bool) {
	if len(s) >= 3 {
		p := strings.ToLower(s[:3])
		if p == "bc1" || p == "tb1" {
			v, prog, ok := SegwitDecode(p[:2], s)
			if !ok {
				return nil, false
			}
			return &Dest{Segwit: true, HRP: p[:2], WitVer: v, Prog: prog}, true
		}
	}
	pl, ok := Base58CheckDecode(s)
	if !ok || len(pl) != 21 {
		return nil, false
	}
	return &Dest{Version: pl[0], Hash: pl[1:]}, true
}

// Script returns the output script for the supported destinations (nil otherwise):
// versions 0/111 (and Litecoin's 48) pay to key hash, 5/196 to script hash.
func (d *Dest) Script() []byte {
	if d.Segwit {
		return WitnessScript(d.WitVer, d.Prog)
	}
	switch d.Version {
	case 0, 111, 48:
		return append(append([]byte{0x76, 0xa9, 20}, d.Hash...), 0x88, 0xac)
	case 5, 196:
		return append(append([]byte{0xa9, 20}, d.Hash...), 0x87)
	}
	return nil
}

// WIFDecode: payload is version ‖ 32-byte key [‖ 0x01].
func WIFDecode(s string) (ver byte, key []byte, compressed bool, ok bool) {
	pl, ok := Base58CheckDecode(s)
	if !ok {
		return 0, nil, false, false
	}
	switch {
	case len(pl) == 33:
		return pl[0], pl[1:33], false, true
	case len(pl) == 34 && pl[33] == 1:
		return pl[0], pl[1:33], true, true
	}
	return 0, nil, false, false
}

// WIFEncode is the inverse of WIFDecode.
func WIFEncode(ver byte, key []byte, compressed bool) string {
	pl := append([]byte{ver}, key...)
	if compressed {
		pl = append(pl, 1)
	}
	return Base58CheckEncode(pl)
}
