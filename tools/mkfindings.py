#!/usr/bin/env python3
"""Consolidates findings/*.entry.json into KNOWN_FINDINGS.json (the committed known-findings file).
The entry files stay as the per-finding source; the driver reads the consolidated file and ignores
entry files whose key it already has."""
import glob, json, os
ROOT = os.path.dirname(os.path.dirname(os.path.abspath(__file__)))
entries = []
for fn in sorted(glob.glob(os.path.join(ROOT, "findings", "*.entry.json"))):
    e = json.load(open(fn))
    w = e.get("witness")
    if w and not os.path.exists(os.path.join(ROOT, w)):
        print("WARNING: witness missing for", e.get("key"), w)
    st = e.get("status")
    if st == "fixed":
        e["line"] = "fixed: property=%s %s %s" % (e["property"], e.get("commit", "?"), e.get("what", ""))
    else:
        e["line"] = "KNOWN-FINDING: property=%s %s" % (e["property"], e.get("what", ""))
    entries.append(e)
entries.sort(key=lambda e: (e["property"], e["key"]))
doc = {
 "comment": "Genuine defects of piotrnar/gocoin found by the checks (one entry per defect; the same content is kept as findings/<ID>-<slug>.entry.json next to the witness replay file). status=open: recorded, not repaired - the check replays the witness, prints the KNOWN-FINDING line and exits 0 for exactly this finding; generated cases inside the finding's documented class are counted as excluded, any other violation of the property is still reported. status=fixed: repaired by the named 'fix:' commit in /repo; the witness is replayed on every run as a regression probe and suppresses nothing. Nothing is added at run time.",
 "findings": entries,
}
json.dump(doc, open(os.path.join(ROOT, "KNOWN_FINDINGS.json"), "w"), indent=1)
print(len(entries), "findings:", sum(1 for e in entries if e["status"] == "open"), "open,", sum(1 for e in entries if e["status"] == "fixed"), "fixed")
