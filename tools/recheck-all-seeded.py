#!/usr/bin/env python3
"""tools/recheck-all-seeded.py [-j N] [ID ...] - re-runs the quick check of every filed seeded change against the CURRENT
/repo tree (through the overlay runner, /repo is never modified) and records the outcome as `final_tree_check` in
seeded/<ID>-<k>/meta.json.  Properties run in parallel (N at a time), the changes of one property one after another
(they share the property's build directory)."""
import glob, json, os, subprocess, sys, shutil
from concurrent.futures import ThreadPoolExecutor

ROOT = os.path.dirname(os.path.dirname(os.path.abspath(__file__)))
args = sys.argv[1:]
jobs = 4
if args and args[0] == "-j":
    jobs = int(args[1]); args = args[2:]
head = subprocess.check_output(["git", "-C", "/repo", "rev-parse", "--short=10", "HEAD"], text=True).strip()
by_prop = {}
for d in sorted(glob.glob(os.path.join(ROOT, "seeded", "*-*"))):
    name = os.path.basename(d)
    pid = name.split("-")[0]
    if args and pid not in args and name not in args:
        continue
    by_prop.setdefault(pid, []).append(name)


def one(name):
    pid = name.split("-")[0]
    d = os.path.join(ROOT, "seeded", name)
    patch = os.path.join(d, "patch.diff")
    # does the patch still apply to the current tree?
    ap = subprocess.run(["git", "-C", "/repo", "apply", "--check", patch], stdout=subprocess.PIPE, stderr=subprocess.STDOUT, text=True)
    res = {"repo_head": head, "applies": ap.returncode == 0}
    if ap.returncode != 0:
        res["apply_error"] = ap.stdout[-300:]
    cmd = [os.path.join(ROOT, "tools", "mutant.sh"), patch, os.path.join(ROOT, "check"), pid, "quick"]
    p = subprocess.run(cmd, cwd=ROOT, env=dict(os.environ, VERIF_NOFUZZ="1"), stdout=subprocess.PIPE, stderr=subprocess.STDOUT, text=True)
    lines = p.stdout.splitlines()
    viol = [l for l in lines if l.startswith("VIOLATION property=")]
    first = ""
    for i, l in enumerate(lines):
        if l.startswith("VIOLATION") and i + 1 < len(lines):
            first = lines[i + 1].strip()[:300]
            break
    res.update({"exit": p.returncode, "violation_lines": len(viol), "caught": p.returncode == 1 and len(viol) > 0, "first_message": first,
                "summary": next((l for l in lines if " quick: evaluations=" in l), "")})
    if p.returncode not in (0, 1):
        res["tail"] = "\n".join(lines[-6:])[-600:]
    m = json.load(open(os.path.join(d, "meta.json")))
    m["final_tree_check"] = res
    json.dump(m, open(os.path.join(d, "meta.json"), "w"), indent=1)
    print(name, "caught" if res["caught"] else ("MISSED exit=%d applies=%s" % (p.returncode, res["applies"])), "|", first[:120], flush=True)


def prop(pid):
    for name in by_prop[pid]:
        try:
            one(name)
        except Exception as ex:
            print(name, "ERROR", ex, flush=True)
    shutil.rmtree(os.path.join(ROOT, "replays", pid), ignore_errors=True)


with ThreadPoolExecutor(max_workers=jobs) as ex:
    list(ex.map(prop, sorted(by_prop)))
