#!/usr/bin/env python3
"""tools/confirm-seeded.py <id> <k> [--no-check]

Confirms an independently produced property-breaking change (delivered by a sub-agent under
/tmp/seed/<id>-out/) in a scratch git worktree of /repo, runs the property's quick check against it through
a go -overlay (so /repo itself is never modified), and files it under /verif/seeded/<ID>-<k>/.

Confirmed = the patch applies, the tree still builds, the repository's own test results are unchanged, the
agent's demonstration fails with the change and passes without it.
"""
import json, os, shutil, subprocess, sys, hashlib

ROOT = os.path.dirname(os.path.dirname(os.path.abspath(__file__)))
FILE_AS = None
ENV = dict(os.environ, GOFLAGS="-mod=mod", GOPROXY="off", GOSUMDB="off", GOTOOLCHAIN="local")
PKGS = "./lib/... ./wallet/... ./client/..."


def sh(cmd, cwd, timeout=1800):
    p = subprocess.run(["bash", "-c", cmd], cwd=cwd, env=ENV, stdout=subprocess.PIPE, stderr=subprocess.STDOUT, text=True, timeout=timeout)
    return p.returncode, p.stdout


def test_summary(wt):
    rc, out = sh("go test -vet=off -count=1 %s 2>&1 | grep -E '^(ok|FAIL|--- FAIL)' | sed -E 's/\\t[0-9.]+s$//; s/\\(cached\\)//; s/ \\([0-9.]+s\\)$//' | sort" % PKGS, wt)
    return out


def main():
    cid, k = sys.argv[1].lower(), sys.argv[2]
    seedroot = "/tmp/seed"
    if "--root" in sys.argv:
        seedroot = sys.argv[sys.argv.index("--root") + 1]
    global FILE_AS
    FILE_AS = k
    if "--as" in sys.argv:
        FILE_AS = sys.argv[sys.argv.index("--as") + 1]
    src = "%s/%s-out" % (seedroot, cid)
    meta = json.load(open("%s/meta%s.json" % (src, k)))
    patch = "%s/patch%s.diff" % (src, k)
    head = subprocess.check_output(["git", "-C", "/repo", "rev-parse", "HEAD"], text=True).strip()
    os.makedirs("/tmp/confirm", exist_ok=True)
    wt = "/tmp/confirm/%s-%s-%s" % (cid, k, os.path.basename(seedroot))
    subprocess.run(["git", "-C", "/repo", "worktree", "remove", "--force", wt], stdout=subprocess.DEVNULL, stderr=subprocess.DEVNULL)
    subprocess.check_call(["git", "-C", "/repo", "worktree", "add", "-q", "--detach", wt, head])
    res = {"repo_head": head[:10]}
    try:
        basefile = "/tmp/confirm/baseline-%s.txt" % head[:10]
        if not os.path.exists(basefile) or os.path.getsize(basefile) < 200:
            tmpf = basefile + ".%d" % os.getpid()
            open(tmpf, "w").write(test_summary(wt))
            os.replace(tmpf, basefile)
        base = open(basefile).read()
        rc, out = sh("git apply --check %s && git apply %s" % (patch, patch), wt)
        res["applies"] = rc == 0
        if rc != 0:
            res["apply_error"] = out[-500:]
            return finish(cid, k, meta, patch, src, res, False)
        rc, out = sh("go build %s 2>&1 | grep -v -E 'cgo/sipadll|cgo/sipasec|os_membinds|^#|syscall\\.|secp256k1\\.h|compilation terminated|data_ptr_t|_heap_|membind_use_wrapper|too many errors|\\^~|[0-9]+ \\|' | head -20" % PKGS, wt)
        res["builds"] = out.strip() == ""
        if not res["builds"]:
            res["build_output"] = out[-800:]
        after = test_summary(wt)
        res["repo_tests_unchanged"] = after == base
        if after != base:
            res["test_diff"] = "\n".join(l for l in after.splitlines() if l not in base.splitlines())[:800]
        demo = meta.get("demo_cmd", "")
        import re as _re
        if os.path.exists("%s/demo%s/go.mod" % (src, k)):
            # a stand-alone demo module: run a copy of it against this scratch worktree
            dcopy = wt + "-demo"
            shutil.rmtree(dcopy, ignore_errors=True)
            shutil.copytree("%s/demo%s" % (src, k), dcopy)
            demo = "cd %s && go mod edit -replace github.com/piotrnar/gocoin=%s && go test -count=1 -v . ; rc=$?; exit $rc" % (dcopy, wt)
        demo = _re.sub(r"%s/%s(?![-\w])" % (_re.escape(seedroot), cid), wt, demo)  # the agent's own checkout -> this scratch worktree
        import re
        bad = re.compile(r"^(--- FAIL|FAIL\b|panic:|fatal error:)", re.M)
        rc1, out1 = sh(demo, wt, timeout=1200)
        if bad.search(out1):
            rc1 = rc1 or 1
        res["demo_with_change"] = "fails" if rc1 != 0 else "passes"
        sh("git apply -R %s" % patch, wt)
        rc2, out2 = sh(demo, wt, timeout=1200)
        if bad.search(out2):
            rc2 = rc2 or 1
        res["demo_without_change"] = "fails" if rc2 != 0 else "passes"
        res["demo_tail_with_change"] = out1[-600:]
        ok = res["applies"] and res["builds"] and res["repo_tests_unchanged"] and rc1 != 0 and rc2 == 0
        return finish(cid, k, meta, patch, src, res, ok)
    finally:
        subprocess.run(["git", "-C", "/repo", "worktree", "remove", "--force", wt], stdout=subprocess.DEVNULL, stderr=subprocess.DEVNULL)
        shutil.rmtree(wt, ignore_errors=True)
        shutil.rmtree(wt + "-demo", ignore_errors=True)


def finish(cid, k, meta, patch, src, res, ok):
    res["confirmed"] = ok
    print(json.dumps(res, indent=1)[:1500])
    if not ok:
        print("NOT CONFIRMED - not filed")
        return 1
    pid = cid.upper()
    srck = k
    k = FILE_AS
    dst = os.path.join(ROOT, "seeded", "%s-%s" % (pid, k))
    shutil.rmtree(dst, ignore_errors=True)
    os.makedirs(dst)
    shutil.copy(patch, os.path.join(dst, "patch.diff"))
    if os.path.isdir("%s/demo%s" % (src, srck)):
        shutil.copytree("%s/demo%s" % (src, srck), os.path.join(dst, "demo"))
    check = {}
    if "--no-check" not in sys.argv:
        cmd = [os.path.join(ROOT, "tools", "mutant.sh"), patch, os.path.join(ROOT, "check"), pid, "quick"]
        e = dict(os.environ, VERIF_NOFUZZ="1")
        p = subprocess.run(cmd, cwd=ROOT, env=e, stdout=subprocess.PIPE, stderr=subprocess.STDOUT, text=True)
        lines = p.stdout.splitlines()
        viol = [l for l in lines if l.startswith("VIOLATION property=")]
        first = ""
        for i, l in enumerate(lines):
            if l.startswith("VIOLATION") and i + 1 < len(lines):
                first = lines[i + 1].strip()[:400]
                break
        check = {"cmd": "tools/mutant.sh seeded/%s-%s/patch.diff ./check %s quick" % (pid, k, pid), "exit": p.returncode,
                 "violation_lines": len(viol), "caught": p.returncode == 1 and len(viol) > 0, "first_message": first,
                 "summary": next((l for l in lines if " quick: evaluations=" in l), "")}
        shutil.rmtree(os.path.join(ROOT, "replays", pid), ignore_errors=True)
        print("CHECK:", json.dumps(check)[:700])
    m = {"property": pid, "title": meta.get("title"), "what_it_breaks": meta.get("what_it_breaks"),
         "needs_to_manifest": meta.get("needs_to_manifest"), "files": meta.get("files"), "demo_cmd": meta.get("demo_cmd"),
         "produced_by": "independent sub-agent given only the property text and a scratch worktree of /repo",
         "confirmation": {k2: v for k2, v in res.items() if k2 != "demo_tail_with_change"},
         "what_i_ran": ["git worktree add /tmp/confirm/<id> HEAD; git apply patch.diff; go build; go test -vet=off -count=1 " + PKGS + " (summary compared with the untouched tree)",
                        "the demonstration with the change (must fail) and after git apply -R (must pass)",
                        check.get("cmd", "")],
         "check_result": check}
    json.dump(m, open(os.path.join(dst, "meta.json"), "w"), indent=1)
    return 0


if __name__ == "__main__":
    sys.exit(main())
