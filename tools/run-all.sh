#!/bin/bash
# tools/run-all.sh [tier] [ids...] - runs every claimed check once, prints exit code and wall time
tier=${1:-quick}; shift
root=$(cd "$(dirname "$0")/.." && pwd)
ids=${@:-$(python3 -c "import json;print(' '.join(c['property_id'] for c in json.load(open('$root/MANIFEST.json'))['checks']))")}
cd $root
for id in $ids; do
  t0=$(date +%s)
  out=$(./check $id $tier 2>&1); rc=$?
  echo "$id rc=$rc $(( $(date +%s) - t0 ))s | $(echo "$out" | grep " $tier: evaluations=" | tail -1) $(echo "$out" | grep -c '^KNOWN-FINDING') known"
  [ $rc != 0 ] && echo "$out" | grep -A1 "^VIOLATION\|^INCONCLUSIVE\|BUILD-FAILED" | head -8 | cut -c1-300
done
