#!/usr/bin/env python3
"""tools/mkmutant.py <name> <repo-relative file> <old> <new>  -> mutants/<name>.diff (unified diff against /repo)"""
import sys, difflib, os
name, rel, old, new = sys.argv[1:5]
src = open('/repo/' + rel).read()
if src.count(old) != 1:
    sys.exit("pattern occurs %d times in %s" % (src.count(old), rel))
dst = src.replace(old, new)
d = difflib.unified_diff(src.splitlines(True), dst.splitlines(True), 'a/' + rel, 'b/' + rel)
os.makedirs('/verif/mutants', exist_ok=True)
open('/verif/mutants/%s.diff' % name, 'w').write(''.join(d))
print("wrote mutants/%s.diff" % name)
