#!/bin/bash
# tools/mutant.sh <patch.diff> <command...>
# Applies a patch (paths relative to /repo) to COPIES of the touched files, builds a go -overlay file and runs the
# command with VERIF_EXTRA_GOFLAGS pointing to it, so /repo itself is never modified.  Everything lives under a temp dir.
set -e
patch=$(readlink -f "$1"); shift
tmp=$(mktemp -d /tmp/mutant.XXXXXX)
trap 'rm -rf "$tmp"' EXIT
files=$(grep -E '^\+\+\+ ' "$patch" | sed -E 's#^\+\+\+ ([ab]/)?##' | cut -f1)
echo '{"Replace":{' > "$tmp/overlay.json"
first=1
for f in $files; do
  mkdir -p "$tmp/src/$(dirname $f)"
  cp "/repo/$f" "$tmp/src/$f"
  [ $first = 1 ] || echo ',' >> "$tmp/overlay.json"
  first=0
  echo "\"/repo/$f\":\"$tmp/src/$f\"" >> "$tmp/overlay.json"
done
echo '}}' >> "$tmp/overlay.json"
(cd "$tmp/src" && patch -s -p1 < "$patch")
VERIF_EXTRA_GOFLAGS="-overlay=$tmp/overlay.json" "$@"
