#!/usr/bin/env python3
"""Regenerates MANIFEST.json from props/*/check.json (claimed checks) and tools/not_applicable.json."""
import glob, json, os, subprocess
ROOT = os.path.dirname(os.path.dirname(os.path.abspath(__file__)))
checks = []
claimed = set()
for fn in sorted(glob.glob(os.path.join(ROOT, "props", "c*", "check.json"))):
    c = json.load(open(fn))
    if not c.get("claimed", True):
        continue
    pid = c["property"]
    claimed.add(pid)
    checks.append({
        "property_id": pid,
        "quick_cmd": "./check %s quick" % pid,
        "thorough_cmd": "./check %s thorough" % pid,
        "evidence_file": "/verif/evidence/%s.json" % pid,
        "replay_cmd_template": "./check --replay {path}",
        "engine": "rapid+gofuzz",
        "level_claimed": {"category": c.get("level", "exploration"), "text": c["level_text"], "design_ref": c.get("design_ref", "DESIGN.md §4 " + pid)},
        "level_note": c["level_note"],
        "technique": c["technique"],
    })
na = json.load(open(os.path.join(ROOT, "tools", "not_applicable.json")))
props = [json.loads(l)["id"] for l in open(os.path.join(ROOT, "properties.jsonl"))]
na_list = [{"property_id": p, "reason": na.get(p, "check not built yet in this session; see DESIGN.md for the planned generated check")} for p in props if p not in claimed]
hooks = json.load(open(os.path.join(ROOT, "tools", "hooks.json")))
man = {
    "version": 1,
    "setup_cmd": "./check --build-all",
    "hooks": hooks,
    "engines": [
        {"name": "rapid+gofuzz", "path": "/verif/check", "serves_properties": sorted(claimed),
         "kind_free_text": "python driver that compiles one Go test package per property against /repo's working tree (-tags verif), runs pgregory.net/rapid v1.3.0 properties in up to 16 seeded shards, replays known-finding witnesses, runs native go fuzz targets in the thorough tier, and writes the evidence file"}
    ],
    "checks": checks,
    "not_applicable": na_list,
    "notes": "All checks are property-based tests / fuzzers with explicit oracles (independent reference implementations under /verif/ref, in-memory models, round-trips, invariants). Exit 2 means inconclusive (infrastructure), never a violation. KNOWN_FINDINGS.json lists genuine defects (open or fixed).",
}
with open(os.path.join(ROOT, "MANIFEST.json"), "w") as f:
    json.dump(man, f, indent=1)
    f.write("\n")
try:
    import jsonschema
    jsonschema.validate(man, json.load(open("/root/.vp/MANIFEST.schema.json")))
    print("MANIFEST.json valid;", len(checks), "checks,", len(na_list), "not applicable")
except ImportError:
    print("MANIFEST.json written (jsonschema not available to validate)")
