#!/bin/bash
# tools/selftest-mutants.sh <ID> [scale]  - runs the quick check of <ID> against every mutants/<id>-*.diff through an overlay;
# prints caught / MISSED per mutant.  /repo is never modified.
id=$1; scale=${2:-0.3}
lc=$(echo $id | tr A-Z a-z)
for m in /verif/mutants/$lc-*.diff; do
  out=$(VERIF_SCALE=$scale VERIF_NOFUZZ=1 /verif/tools/mutant.sh $m /verif/check $id quick 2>&1)
  rc=$?
  if echo "$out" | grep -q "^VIOLATION property=$id"; then echo "caught  $(basename $m)  ($(echo "$out" | grep -A1 '^VIOLATION' | sed -n 2p | cut -c1-150))";
  elif [ $rc = 2 ]; then echo "INCONCL $(basename $m): $(echo "$out" | tail -3 | tr '\n' ' ' | cut -c1-300)";
  else echo "MISSED  $(basename $m)"; fi
done
rm -rf /verif/replays/$id
