#!/usr/bin/env python3
"""tools/recheck-seeded.py <ID>-<k> [note]  - re-runs the property's quick check against a filed seeded change (through
the overlay runner) and updates seeded/<ID>-<k>/meta.json, keeping the earlier result in check_history."""
import json, os, shutil, subprocess, sys
ROOT = os.path.dirname(os.path.dirname(os.path.abspath(__file__)))
name = sys.argv[1]
note = sys.argv[2] if len(sys.argv) > 2 else ""
pid = name.split("-")[0]
d = os.path.join(ROOT, "seeded", name)
m = json.load(open(os.path.join(d, "meta.json")))
cmd = [os.path.join(ROOT, "tools", "mutant.sh"), os.path.join(d, "patch.diff"), os.path.join(ROOT, "check"), pid, "quick"]
p = subprocess.run(cmd, cwd=ROOT, env=dict(os.environ, VERIF_NOFUZZ="1"), stdout=subprocess.PIPE, stderr=subprocess.STDOUT, text=True)
lines = p.stdout.splitlines()
viol = [l for l in lines if l.startswith("VIOLATION property=")]
first = ""
for i, l in enumerate(lines):
    if l.startswith("VIOLATION") and i + 1 < len(lines):
        first = lines[i + 1].strip()[:400]
        break
new = {"cmd": "tools/mutant.sh seeded/%s/patch.diff ./check %s quick" % (name, pid), "exit": p.returncode, "violation_lines": len(viol),
       "caught": p.returncode == 1 and len(viol) > 0, "first_message": first,
       "summary": next((l for l in lines if " quick: evaluations=" in l), "")}
if note:
    new["note"] = note
old = m.get("check_result")
if old:
    m.setdefault("check_history", []).append(old)
m["check_result"] = new
json.dump(m, open(os.path.join(d, "meta.json"), "w"), indent=1)
shutil.rmtree(os.path.join(ROOT, "replays", pid), ignore_errors=True)
print(name, "caught" if new["caught"] else "MISSED", "|", first[:200])
