module verif

go 1.23

require (
	github.com/piotrnar/gocoin v0.0.0
	pgregory.net/rapid v1.3.0
)

replace github.com/piotrnar/gocoin => /repo
