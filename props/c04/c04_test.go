package c04

import (
	"encoding/json"
	"strings"
	"testing"

	"github.com/piotrnar/gocoin/client/txpool"
	"github.com/piotrnar/gocoin/lib/btc"
	"pgregory.net/rapid"
	"verif/env"
	"verif/pbt"
	"verif/ref/consensus"
	"verif/sim"
)

func TestMain(m *testing.M) {
	env.Quiet()
	env.UseClientAllocator() // records live in the client's recycling allocator, as in the running node
	pbt.RegisterReplay("connect", func(raw json.RawMessage) error {
		var c sim.Case
		if err := json.Unmarshal(raw, &c); err != nil {
			return err
		}
		// replay is strict: known findings are not excluded, so a witness of an open finding fails here
		s, err := sim.RunCase(c, optsFor(c), sim.Hooks{})
		if s != nil {
			s.Close()
		}
		return err
	})
	pbt.RegisterReplay("connect_after_reorg", func(raw json.RawMessage) error {
		var c sim.Case
		if err := json.Unmarshal(raw, &c); err != nil {
			return err
		}
		s, err := sim.RunCase(c, optsFor(c), sim.Hooks{})
		if s != nil {
			s.Close()
		}
		return err
	})
	pbt.RegisterReplay("connect_with_client_mempool", func(raw json.RawMessage) error {
		var c sim.Case
		if err := json.Unmarshal(raw, &c); err != nil {
			return err
		}
		defer useClientPool()()
		s, err := sim.RunCase(c, optsFor(c), sim.Hooks{})
		if s != nil {
			s.Close()
		}
		return err
	})
	pbt.RegisterReplay("subsidy", func(raw json.RawMessage) error {
		var h uint32
		if err := json.Unmarshal(raw, &h); err != nil {
			return err
		}
		return checkSubsidy(h)
	})
	pbt.Main(m, "C04")
}

var profile = sim.Profile{
	Viols:    sim.TxViolations,
	ViolPct:  40,
	MaxTx:    6,
	MinOps:   8,
	MaxOps:   40,
	Prefixes: []int{0, 3, 99, 100, 100, 101, 102, 104, 110, 125},
	IdlePct:  4,
	Halving:  true,
	Signed:   true,
}

func TestConnect(t *testing.T) {
	p := profile
	if pbt.Tier() == "thorough" {
		p.MaxTx, p.MaxOps = 25, 150
	}
	connect(t, pbt.Cfg{Name: "connect", Quick: 1200, Thorough: 15000}, p)
}

// The same judgement in chain states reached through reorganisations: blocks are mined on any known block, withheld,
// delivered late; what a branch's blocks spend was restored from undo data when the other branch was disconnected.
var forkProfile = sim.Profile{
	Forks:        true,
	Viols:        sim.TxViolations,
	ViolPct:      25,
	MaxTx:        5,
	MinOps:       10,
	MaxOps:       50,
	Prefixes:     []int{0, 99, 100, 101, 102, 104, 110},
	IdlePct:      4,
	RedelivPct:   2,
	Halving:      true,
	UnwindWindow: true,
	Signed:       true,
}

func TestConnectAfterReorg(t *testing.T) {
	connect(t, pbt.Cfg{Name: "connect_after_reorg", Quick: 500, Thorough: 5000}, forkProfile)
}

// The running client answers chain.TrustedTxChecker from its mempool (client/txpool.txChecker).  This test puts every
// transaction the harness's stand-in mempool has verified into the real pool's TransactionsToSend (as a transaction
// received from the network) and lets the client's own checker decide which block transactions skip their scripts -
// with blocks that carry a pooled transaction in full, with another witness, or without its witness.
func TestConnectWithClientMempool(t *testing.T) {
	p := profile
	p.ViolPct = 45
	p.Viols = append(append([]string{}, sim.TxViolations...), "wit_stripped", "wit_stripped", "wit_stripped", "bad_script")
	defer useClientPool()()
	connectPre(t, pbt.Cfg{Name: "connect_with_client_mempool", Quick: 500, Thorough: 5000}, p, resetClientPool)
}

func resetClientPool() {
	txpool.TxMutex.Lock()
	txpool.TransactionsToSend = make(map[btc.BIDX]*txpool.OneTxToSend)
	txpool.TxMutex.Unlock()
}

// useClientPool routes what the stand-in mempool vouches for into the real pool; the returned function undoes it.
func useClientPool() func() {
	resetClientPool()
	sim.OnVouch = func(raw []byte) {
		tx, _ := btc.NewTx(raw)
		if tx == nil {
			return
		}
		tx.SetHash(raw)
		txpool.TxMutex.Lock()
		txpool.TransactionsToSend[tx.Hash.BIdx()] = &txpool.OneTxToSend{Tx: tx}
		txpool.TxMutex.Unlock()
	}
	return func() {
		sim.OnVouch = nil
		resetClientPool()
	}
}

func connect(t *testing.T, cfg pbt.Cfg, p sim.Profile) { connectPre(t, cfg, p, nil) }

// genCase is sim.GenCase plus, in one history of eight, a block that spends many different transactions (sim.AddWideBlock).
func genCase(t *rapid.T, p sim.Profile) (c sim.Case, wide bool) {
	c = sim.GenCase(t, p)
	if rapid.IntRange(0, 7).Draw(t, "wide") != 0 {
		return c, false
	}
	return c, sim.AddWideBlock(t, &c)
}

func connectPre(t *testing.T, cfg pbt.Cfg, p sim.Profile, pre func()) {
	pbt.Check(t, cfg, func(r *pbt.Run) {
		c, wide := genCase(r.T, p)
		r.Case(c)
		if wide {
			r.Class("block_spending_31..67_distinct_transactions")
		}
		sim.TakeVouchedSeen()
		if pre != nil {
			pre()
		}
		s, err := sim.RunCaseOpen(c, optsFor(c), sim.Hooks{}, pbt.FindingOpen)
		if s != nil {
			defer s.Close()
			if n := sim.TakeVouchedSeen(); n > 0 {
				r.Class("has_trusted_tx")
				pbt.AddExtra("transactions_connected_on_the_trusted_path", n)
			}
			if s.Reorgs > 0 {
				r.Class("has_reorg")
				if b := c.Params.Base; b > 2000 && b < 3000 && s.Tip.Idx.Height > 2561 {
					r.Class("reorg_while_undo_files_leave_the_unwind_window")
				}
			}
			if s.FailedReorgs > 0 {
				r.Class("has_failed_reorg")
			}
			seen := map[string]bool{}
			for _, l := range s.Labels {
				if strings.HasPrefix(l, "viol") || strings.HasPrefix(l, "refused") {
					if !seen[l] {
						seen[l] = true
						r.Class(l)
					}
				}
			}
			if s.TxBlocks > 0 {
				r.NonTrivial()
				r.Class("has_tx_block")
			}
			pbt.AddExtra("blocks_accepted", int64(s.Accepted))
			pbt.AddExtra("blocks_refused", int64(s.Refused))
			pbt.AddExtra("blocks_with_transactions_connected", int64(s.TxBlocks))
		}
		if s != nil {
			for _, k := range s.ExcludedKeys {
				r.Excluded(k)
			}
		}
		if x, ok := err.(*sim.Excluded); ok {
			r.Excluded(x.Key)
			r.Class("excluded/" + x.Key)
			return
		}
		if err != nil {
			r.Failf("%v", err)
		}
	})
}

func checkSubsidy(h uint32) error {
	if g, w := btc.GetBlockReward(h), consensus.BlockSubsidy(h); g != w {
		return &subsidyErr{h, g, w}
	}
	return nil
}

type subsidyErr struct {
	h    uint32
	g, w uint64
}

func (e *subsidyErr) Error() string {
	return "subsidy at height " + itoa(uint64(e.h)) + ": gocoin " + itoa(e.g) + " reference " + itoa(e.w)
}

func itoa(v uint64) string { b, _ := json.Marshal(v); return string(b) }

// Halving schedule as a pure function over all heights of interest.
func TestSubsidy(t *testing.T) {
	pbt.Check(t, pbt.Cfg{Name: "subsidy", Quick: 20000, Thorough: 400000}, func(r *pbt.Run) {
		k := rapid.IntRange(0, 70).Draw(r.T, "halving")
		d := rapid.IntRange(-3, 3).Draw(r.T, "delta")
		h := int64(k)*210000 + int64(d)
		if rapid.IntRange(0, 3).Draw(r.T, "any") == 0 {
			h = int64(rapid.Uint32().Draw(r.T, "h"))
		}
		if h < 0 {
			h = 0
		}
		if h > 0xffffffff {
			h = 0xffffffff
		}
		r.Case(uint32(h))
		r.Class("subsidy")
		if d != 0 || k > 0 {
			r.NonTrivial()
		}
		if err := checkSubsidy(uint32(h)); err != nil {
			r.Failf("%v", err)
		}
	})
}

// optsFor: every other history runs with UTXO callbacks installed, as the client does while its wallet is on.
func optsFor(c sim.Case) env.Options {
	if (len(c.Ops)+c.Params.Prefix)%2 == 1 {
		return env.Options{UTXOCallbacks: env.ObserverCallbacks()}
	}
	return env.Options{}
}
