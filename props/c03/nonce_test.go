package c03

import (
	"bufio"
	"fmt"
	"math/big"
	"os"
	"strings"
	"sync"
	"testing"

	"github.com/piotrnar/gocoin/lib/btc"
	"pgregory.net/rapid"
	"verif/pbt"
	"verif/ref/ec"
)

// ---------------------------------------------------------------------------------------------
// BIP340 verification where the recomputed nonce point R = s*G - e*P has a special Y.
//
// SchnorrVerify reads the parity of R.y after a Jacobian -> affine conversion whose output is a product
// and not canonical in general; with 52-bit limbs a Y below about 2^243 is left non-canonical (and with the
// opposite low bit) about one time in three, i.e. for one random signature in 2^14.  Reached two ways:
//   * schnorr_nonce_table: nonces k from testdata/smally_scalars.txt (k*G has Y < 2^240; re-validated with
//     ref/ec; times lambda, lambda^2: same Y), random keys and messages, signed with the BIP340 equations for
//     that explicit nonce: s = k + e*d.  If R.y is even this is a valid signature, and s' = e*d - k (nonce point
//     -R, same x, odd y) must be refused; if R.y is odd it is the other way round.  Every verdict is the
//     reference's (ec.SchnorrVerify).
//   * schnorr_volume: one key, eight random nonces/messages per case; each gives the valid signature and its
//     odd-Y twin (same r).  Here the expected verdicts follow from the construction (signing equation of the
//     self-tested reference: k with even-Y k*G => valid, its negation => invalid); one signature pair per case
//     is additionally judged by ec.SchnorrVerify.  60 000 valid + 60 000 twins per quick run.

var (
	nonceOnce sync.Once
	nonceTab  []*big.Int
)

func smallYNonces() []*big.Int {
	nonceOnce.Do(func() {
		f, err := os.Open("testdata/smally_scalars.txt")
		if err != nil {
			pbt.Note("testdata/smally_scalars.txt not readable: %v", err)
			return
		}
		defer f.Close()
		sc := bufio.NewScanner(f)
		for sc.Scan() {
			l := strings.TrimSpace(sc.Text())
			if l == "" || l[0] == '#' {
				continue
			}
			if k, ok := new(big.Int).SetString(l, 16); ok {
				nonceTab = append(nonceTab, k)
			}
		}
	})
	return nonceTab
}

var lambdaN, _ = new(big.Int).SetString("5363ad4cc05c30e0a5261c028812645a122e22ea20816678df02967c1b23bd72", 16)

// signWithNonce applies the BIP340 signing equations for an explicit nonce k (no even-Y adjustment of k):
// returns r = x(k*G), s = k + e*d and the twin s' = e*d - k, d being adjusted to the even-Y public key.
func signWithNonce(sk []byte, pk []byte, podd bool, msg []byte, k *big.Int, R ec.Point) (sig, twin []byte) {
	d := new(big.Int).SetBytes(sk)
	if podd {
		d.Sub(bigN, d)
	}
	rx := b32(R.X)
	e := modN(new(big.Int).SetBytes(ec.TaggedHash("BIP0340/challenge", rx, pk, msg)))
	ed := modN(e.Mul(e, d))
	s := modN(new(big.Int).Add(ed, k))
	s2 := modN(new(big.Int).Sub(ed, k))
	return append(append([]byte{}, rx...), b32(s)...), append(append([]byte{}, rx...), b32(s2)...)
}

type nonceCase struct {
	Sk   string   `json:"sk"`
	K    []string `json:"k"`    // nonces (hex)
	Msg  []string `json:"msg"`  // one message per nonce
	Full bool     `json:"full"` // judge every signature with ec.SchnorrVerify (else only the first pair)
	Kind string   `json:"kind"`
}

type nonceStats struct{ valid, refused, smallY int }

func checkNonce(c nonceCase) (st nonceStats, err error) {
	sk := unhex(c.Sk)
	d := new(big.Int).SetBytes(sk)
	if len(sk) != 32 || d.Sign() == 0 || d.Cmp(bigN) >= 0 || len(c.K) != len(c.Msg) {
		return st, nil
	}
	pk, podd := ec.XOnlyPubKey(sk)
	for i := range c.K {
		k := modN(new(big.Int).SetBytes(unhex(c.K[i])))
		msg := unhex(c.Msg[i])
		if k.Sign() == 0 {
			continue
		}
		R := ec.BaseMul(k)
		if R.Y.BitLen() <= 243 {
			st.smallY++
		}
		sig, twin := signWithNonce(sk, pk, podd, msg, k, R)
		even := R.Y.Bit(0) == 0
		for j, sg := range [][]byte{sig, twin} {
			want := even == (j == 0) // by the signing equation: the signature whose nonce point has even Y is the valid one
			if c.Full || i == 0 {
				if ref := ec.SchnorrVerify(pk, msg, sg); ref != want {
					return st, fmt.Errorf("harness: construction says %v, ec.SchnorrVerify says %v (sk=%x k=%x)", want, ref, sk, k)
				}
			}
			if want {
				st.valid++
			} else {
				st.refused++
			}
			if got := btc.SchnorrVerify(pk, sg, msg); got != want {
				return st, fmt.Errorf("SchnorrVerify(key=%x, sig=%x, msg=%x) = %v, BIP340 says %v [nonce point y = %x, %s]", pk, sg, msg, got, want, R.Y, map[bool]string{true: "signature", false: "odd-Y twin"}[j == 0])
			}
		}
	}
	return st, nil
}

func TestSchnorrNonceTable(t *testing.T) {
	pbt.Check(t, pbt.Cfg{Name: "schnorr_nonce_table", Quick: 3200, Thorough: 80000}, func(r *pbt.Run) {
		t := r.T
		tab := smallYNonces()
		if len(tab) == 0 {
			r.Class("no_table")
			return
		}
		k := new(big.Int).Set(tab[rapid.IntRange(0, len(tab)-1).Draw(t, "entry")])
		for j := rapid.IntRange(0, 2).Draw(t, "endo"); j > 0; j-- {
			k = modN(k.Mul(k, lambdaN))
		}
		c := nonceCase{Sk: hx(genSecret(t, "sk")), K: []string{hx(b32(k))}, Msg: []string{hx(genMsg(t, "msg"))}, Full: true, Kind: "table"}
		r.Case(c)
		st, err := checkNonce(c)
		if st.smallY > 0 {
			r.Class("nonce_point_small_y")
		}
		if st.valid > 0 {
			r.Class("has_valid")
		}
		r.NonTrivial()
		if err != nil {
			r.Failf("%v", err)
		}
	})
}

func TestSchnorrVolume(t *testing.T) {
	pbt.Check(t, pbt.Cfg{Name: "schnorr_volume", Quick: 7520, Thorough: 200000}, func(r *pbt.Run) {
		t := r.T
		c := nonceCase{Sk: hx(genSecret(t, "sk")), Kind: "volume"}
		for i := 0; i < 8; i++ {
			c.K = append(c.K, hx(b32(genScalarN(t, "k"))))
			c.Msg = append(c.Msg, hx(rapid.SliceOfN(rapid.Byte(), 32, 32).Draw(t, "msg")))
		}
		r.Case(c)
		st, err := checkNonce(c)
		pbt.AddExtra("schnorr_volume_valid_signatures", int64(st.valid))
		pbt.AddExtra("schnorr_volume_odd_y_twins", int64(st.refused))
		if st.smallY > 0 {
			r.Class("nonce_point_small_y")
		}
		r.NonTrivial()
		if err != nil {
			r.Failf("%v", err)
		}
	})
}
