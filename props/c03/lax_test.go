package c03

import (
	"bytes"
	"fmt"
	"math/big"
	"testing"

	"github.com/piotrnar/gocoin/lib/btc"
	"pgregory.net/rapid"
	"verif/pbt"
	"verif/ref/ec"
)

// ---------------------------------------------------------------------------------------------
// ECDSA signatures whose nonce point has n <= R.x < p (r = R.x - n).  Honest signing meets them with
// probability 2^-128; algebraically they are easy: pick a curve point R with x = n+k, set r = k, choose
// s and m freely, Q = r^-1 (s*R - m*G).  Everything is judged by the reference (ECDSAVerifyRaw,
// Recover); the construction itself is only the generator.

type highRxCase struct {
	K    string `json:"k"`    // R.x = n + K (stepped upwards until it is an x below p with a curve point)
	Odd  bool   `json:"odd"`  // parity of R.y
	S    string `json:"s"`    // 1..n-1
	Msg  string `json:"msg"`  // 32 bytes
	Msg2 string `json:"msg2"` // another message (must not verify)
	Fmt  int    `json:"fmt"`  // key encoding
}

func checkHighRx(c highRxCase) error {
	k := new(big.Int).SetBytes(unhex(c.K))
	s := modN(new(big.Int).SetBytes(unhex(c.S)))
	msg, msg2 := unhex(c.Msg), unhex(c.Msg2)
	if s.Sign() == 0 || len(msg) != 32 || len(msg2) != 32 {
		return nil
	}
	span := new(big.Int).Sub(bigP, bigN)
	k.Mod(k, span)
	var R ec.Point
	for i := 0; ; i++ {
		if k.Sign() != 0 {
			if pt, ok := ec.LiftX(new(big.Int).Add(bigN, k)); ok {
				R = pt
				break
			}
		}
		k.Add(k, one).Mod(k, span)
		if i > 500 {
			return nil
		}
	}
	if c.Odd {
		R = ec.Neg(R)
	}
	r := new(big.Int).Set(k) // R.x mod n
	z := new(big.Int).SetBytes(msg)
	ri := new(big.Int).ModInverse(r, bigN)
	Q := ec.MulAdd(modN(new(big.Int).Mul(s, ri)), R, modN(new(big.Int).Neg(new(big.Int).Mul(z, ri))))
	if Q.Inf {
		return nil
	}
	key := encodeKey(Q, c.Fmt)
	sig := derInts(derBytes(r), derBytes(s))
	for _, m := range [][]byte{msg, msg2} {
		want, _ := refEcdsa(key, sig, m)
		if got := btc.EcdsaVerify(key, sig, m); got != want {
			return fmt.Errorf("EcdsaVerify(key=%x, sig=%x, msg=%x) = %v, the ECDSA predicate says %v [nonce point x = n+%x]", key, sig, m, got, want, k)
		}
	}
	if want, _ := refEcdsa(key, sig, msg); !want {
		return fmt.Errorf("harness: the constructed triple does not verify under the reference")
	}
	var bs btc.Signature
	bs.R.Set(r)
	bs.S.Set(s)
	found := false
	for id := 0; id < 4; id++ {
		want, wok := ec.Recover(r, s, z, id)
		got := bs.RecoverPublicKey(msg, id)
		if (got != nil) != wok || wok && !bytes.Equal(got.Bytes(false), ec.SerializeUncompressed(want)) {
			return fmt.Errorf("RecoverPublicKey(r=%x, s=%x, msg=%x, recid=%d): got ok=%v %x, reference ok=%v %s [nonce point x = n+%x]", r, s, msg, id, got != nil, keyBytes(got), wok, ptStr(want), k)
		}
		if wok && want.Equal(Q) {
			found = true
			if id&2 == 0 {
				return fmt.Errorf("harness: the key is recovered with id %d, expected an id with bit 1 set", id)
			}
		}
	}
	if !found {
		return fmt.Errorf("harness: no recovery id gives the constructed key under the reference")
	}
	return nil
}

func TestEcdsaHighRx(t *testing.T) {
	pbt.Check(t, pbt.Cfg{Name: "ecdsa_high_rx", Quick: 1600, Thorough: 40000}, func(r *pbt.Run) {
		t := r.T
		span := new(big.Int).Sub(bigP, bigN)
		var k *big.Int
		switch rapid.IntRange(0, 3).Draw(t, "kkind") {
		case 0:
			k = big.NewInt(int64(rapid.IntRange(1, 70000).Draw(t, "ksmall")))
			r.Class("k_small")
		case 1:
			k = new(big.Int).Sub(span, big.NewInt(int64(rapid.IntRange(1, 70000).Draw(t, "ktop"))))
			r.Class("k_next_to_p")
		default:
			k = new(big.Int).SetBytes(rapid.SliceOfN(rapid.Byte(), 17, 17).Draw(t, "k"))
			k.Mod(k, span)
			r.Class("k_random")
		}
		c := highRxCase{K: hx(k.Bytes()), Odd: rapid.Bool().Draw(t, "odd"), S: hx(b32(genScalarN(t, "s"))), Msg: hx(genMsg(t, "msg")),
			Msg2: hx(genMsg(t, "msg2")), Fmt: rapid.IntRange(0, 2).Draw(t, "fmt")}
		if rapid.IntRange(0, 3).Draw(t, "high_s") == 0 {
			c.S = hx(b32(new(big.Int).Sub(bigN, big.NewInt(int64(rapid.IntRange(1, 1000).Draw(t, "sdelta"))))))
		}
		r.Case(c)
		r.Class(fmt.Sprintf("key_format_%d", c.Fmt))
		r.NonTrivial()
		if err := checkHighRx(c); err != nil {
			r.Failf("%v", err)
		}
	})
}

// ---------------------------------------------------------------------------------------------
// DER framing as consensus sees it: btc.EcdsaVerify receives the signature the way the script
// interpreter passes it (followed by the hash-type byte) and must parse it like Bitcoin Core's
// ecdsa_signature_parse_der_lax: the SEQUENCE length is skipped, never interpreted; integer lengths may
// be long form with leading zeros (fewer than 8 significant bytes); integers may be padded or miss the
// sign byte; trailing bytes are ignored.  The verdict is ref/ec's lax parser + the ECDSA predicate.

type laxCase struct {
	Kind string `json:"kind"`
	Key  string `json:"key"`
	Sig  string `json:"sig"`
	Msg  string `json:"msg"`
}

func refLax(key, sig, msg []byte) bool {
	r, s, ok := ec.ParseDERLax(sig)
	if !ok {
		return false
	}
	q, kok := ec.ParsePubKey(key)
	if !kok {
		return false
	}
	return ec.ECDSAVerifyRaw(q, r, s, new(big.Int).SetBytes(msg))
}

func checkLax(c laxCase) (bool, error) {
	key, sig, msg := unhex(c.Key), unhex(c.Sig), unhex(c.Msg)
	if len(sig) == 0 || len(key) == 0 {
		return false, nil // EcdsaVerify's documented early exit; nothing to parse
	}
	want := refLax(key, sig, msg)
	if got := btc.EcdsaVerify(key, sig, msg); got != want {
		return want, fmt.Errorf("EcdsaVerify(key=%x, sig=%x, msg=%x) = %v, Core's lax DER parser + the ECDSA predicate say %v [%s]", key, sig, msg, got, want, c.Kind)
	}
	return want, nil
}

// lenBytes encodes a length field: form 0 = short, n >= 1 = long form with n length bytes.
func lenBytes(v uint64, n int) []byte {
	if n == 0 {
		return []byte{byte(v)}
	}
	out := []byte{0x80 | byte(n)}
	for i := n - 1; i >= 0; i-- {
		if i >= 8 {
			out = append(out, 0)
		} else {
			out = append(out, byte(v>>(8*uint(i))))
		}
	}
	return out
}

func genLaxCase(t *rapid.T) laxCase {
	sk := genSecret(t, "sk")
	d := new(big.Int).SetBytes(sk)
	Q := ec.BaseMul(d)
	msg := genMsg(t, "msg")
	r, s, _, ok := ec.SignWithNonce(d, new(big.Int).SetBytes(msg), genScalarN(t, "nonce"))
	if !ok {
		r, s, _ = ec.SignRFC6979(sk, msg)
	}
	kind := "valid"
	switch rapid.IntRange(0, 5).Draw(t, "value") {
	case 0:
		s = new(big.Int).Add(s, one) // same framing, wrong number
		kind = "s_plus_1"
	case 1:
		s = new(big.Int).Sub(bigN, s)
		kind = "high_s"
	}
	integer := func(v *big.Int, label string) []byte {
		content := derBytes(v)
		switch rapid.IntRange(0, 5).Draw(t, label+"_content") {
		case 0:
			content = append(make([]byte, rapid.IntRange(1, 4).Draw(t, label+"_pad")), content...)
		case 1:
			content = v.Bytes() // possibly without the sign byte
			if len(content) == 0 {
				content = []byte{0}
			}
		}
		form := 0
		lv := uint64(len(content))
		switch rapid.IntRange(0, 9).Draw(t, label+"_lenform") {
		case 0:
			form = 1
			kind += "/int_len_long1"
		case 1:
			form = rapid.IntRange(2, 8).Draw(t, label+"_n")
			kind += "/int_len_long_padded"
		case 2: // 9 or more length bytes of which at most 7 are significant: still fine for Core
			form = rapid.IntRange(9, 12).Draw(t, label+"_n")
			kind += "/int_len_long_padded"
		case 3: // wrong: longer than what is left
			form = rapid.IntRange(0, 2).Draw(t, label+"_n")
			lv = lv + uint64(rapid.IntRange(40, 200).Draw(t, label+"_over"))
			if form == 0 && lv > 0x7f {
				lv = 0x7f
			}
			kind += "/int_len_overrun"
		}
		return append(append([]byte{2}, lenBytes(lv, form)...), content...)
	}
	body := append(integer(r, "r"), integer(s, "s")...)
	var hdr []byte
	bl := uint64(len(body))
	seq := rapid.SampledFrom([]string{"short_correct", "short_correct", "short_too_large", "short_7f", "short_too_small", "short_zero", "indefinite_80",
		"long_correct", "long_correct_padded", "long_wrong", "long_huge", "long_overrun"}).Draw(t, "seq")
	switch seq {
	case "short_correct":
		hdr = lenBytes(bl&0x7f, 0)
	case "short_too_large":
		hdr = lenBytes(uint64(min(0x7f, int(bl)+rapid.IntRange(1, 40).Draw(t, "d"))), 0)
	case "short_7f":
		hdr = []byte{0x7f}
	case "short_too_small":
		hdr = lenBytes(uint64(max(0, int(bl)-rapid.IntRange(1, 40).Draw(t, "d"))), 0)
	case "short_zero":
		hdr = []byte{0}
	case "indefinite_80":
		hdr = []byte{0x80}
	case "long_correct":
		hdr = lenBytes(bl, 1)
	case "long_correct_padded":
		hdr = lenBytes(bl, rapid.IntRange(2, 8).Draw(t, "n"))
	case "long_wrong":
		n := rapid.IntRange(1, 8).Draw(t, "n")
		hdr = append([]byte{0x80 | byte(n)}, rapid.SliceOfN(rapid.Byte(), n, n).Draw(t, "lenval")...)
	case "long_huge":
		n := rapid.IntRange(1, 8).Draw(t, "n")
		hdr = append([]byte{0x80 | byte(n)}, bytes.Repeat([]byte{0xff}, n)...)
	default: // more length bytes announced than there are bytes left: the only header Core refuses
		hdr = []byte{0x80 | byte(rapid.IntRange(min(len(body)+1, 127), 127).Draw(t, "n"))}
	}
	sig := append(append([]byte{0x30}, hdr...), body...)
	switch rapid.IntRange(0, 3).Draw(t, "trailer") {
	case 0:
		kind += "/no_trailer"
	case 1, 2:
		sig = append(sig, rapid.SampledFrom([]byte{1, 2, 3, 0x81, 0x83, 0}).Draw(t, "hashtype"))
	default:
		sig = append(sig, rapid.SliceOfN(rapid.Byte(), 2, 5).Draw(t, "garbage")...)
		kind += "/trailing_bytes"
	}
	return laxCase{Kind: "seq_" + seq + "/" + kind, Key: hx(encodeKey(Q, rapid.IntRange(0, 2).Draw(t, "keyfmt"))), Sig: hx(sig), Msg: hx(msg)}
}

func TestEcdsaLaxDER(t *testing.T) {
	pbt.Check(t, pbt.Cfg{Name: "ecdsa_lax_der", Quick: 16000, Thorough: 400000}, func(r *pbt.Run) {
		c := genLaxCase(r.T)
		r.Case(c)
		seq := c.Kind
		for i := 0; i < len(seq); i++ {
			if seq[i] == '/' {
				seq = seq[:i]
				break
			}
		}
		r.Class(seq)
		for _, tag := range []string{"int_len_long1", "int_len_long_padded", "int_len_overrun", "trailing_bytes", "no_trailer", "s_plus_1", "high_s"} {
			if bytes.Contains([]byte(c.Kind), []byte(tag)) {
				r.Class(tag)
			}
		}
		r.NonTrivial()
		want, err := checkLax(c)
		if want {
			r.Class("ref_accepts")
			r.Class(seq + "/ref_accepts")
		} else {
			r.Class("ref_refuses")
		}
		if err != nil {
			r.Failf("%v", err)
		}
	})
}
