package c03

import (
	"bytes"
	"encoding/json"
	"fmt"
	"math/big"
	"os"
	"os/exec"
	"path/filepath"
	"runtime"
	"runtime/debug"
	"strings"
	"sync"
	"testing"

	"github.com/piotrnar/gocoin/lib/btc"
	"github.com/piotrnar/gocoin/lib/secp256k1"
	"pgregory.net/rapid"
	"verif/pbt"
	"verif/ref/ec"
)

// ---------------------------------------------------------------------------------------------
// Acceptance and signing are functions of their arguments - also when many goroutines call them at
// the same time (gocoin verifies the inputs of a block in parallel).  A case is a pool of items
// (operation + arguments); the expected result of every item is computed first, sequentially, by
// ref/ec; then N goroutines are released together by a barrier and each performs K operations on
// the pool (own starting offset and stride), comparing every result with the expectation.  A panic
// inside a worker is recovered and reported as a failure.

type cItem struct {
	Op  string `json:"op"` // schnorr_verify | schnorr_verify_lib | schnorr_sign | ecdsa_verify | ecdsa_sign | tweak | parse | recover
	A   string `json:"a,omitempty"`
	B   string `json:"b,omitempty"`
	C   string `json:"c,omitempty"`
	D   string `json:"d,omitempty"`
	Flg bool   `json:"flg,omitempty"`
	Tag string `json:"tag,omitempty"` // how the item was made (class label only)
}

type concCase struct {
	N     int     `json:"n"` // goroutines
	K     int     `json:"k"` // operations per goroutine
	Items []cItem `json:"items"`
}

// expected result of an item by the reference: verdict and/or bytes
type cWant struct {
	ok    bool
	bytes []byte
}

func refItem(it cItem) cWant {
	a, b, c := unhex(it.A), unhex(it.B), unhex(it.C)
	switch it.Op {
	case "schnorr_verify", "schnorr_verify_lib": // a=key b=sig c=msg
		return cWant{ok: ec.SchnorrVerify(a, c, b)}
	case "schnorr_sign": // a=sk b=msg c=aux
		return cWant{bytes: ec.SchnorrSign(a, b, c)}
	case "ecdsa_verify": // a=key b=sig c=msg
		w, _ := refEcdsa(a, b, c)
		return cWant{ok: w}
	case "ecdsa_sign": // a=sk b=msg (< n): deterministic signature
		r, s, _ := ec.SignRFC6979(a, b)
		return cWant{bytes: ec.EncodeDER(r, s)}
	case "tweak": // a=q b=p c=t flg=parity
		return cWant{ok: ec.TweakCheck(a, it.Flg, b, c)}
	case "parse": // a=key bytes
		pt, ok := ec.ParsePubKey(a)
		if !ok {
			return cWant{}
		}
		return cWant{ok: true, bytes: ec.SerializeUncompressed(pt)}
	case "recover": // a=r b=s c=msg d=recid
		pt, ok := ec.Recover(new(big.Int).SetBytes(a), new(big.Int).SetBytes(b), new(big.Int).SetBytes(c), int(unhex(it.D)[0]))
		if !ok {
			return cWant{}
		}
		return cWant{ok: true, bytes: ec.SerializeUncompressed(pt)}
	}
	return cWant{}
}

// runItem performs the item with gocoin and compares.
func runItem(it cItem, w cWant) error {
	a, b, c := unhex(it.A), unhex(it.B), unhex(it.C)
	switch it.Op {
	case "schnorr_verify":
		if got := btc.SchnorrVerify(a, b, c); got != w.ok {
			return fmt.Errorf("btc.SchnorrVerify(key=%x, sig=%x, msg=%x) = %v under concurrency, BIP340 says %v [%s]", a, b, c, got, w.ok, it.Tag)
		}
	case "schnorr_verify_lib":
		if got := secp256k1.SchnorrVerify(a, b, c); got != w.ok {
			return fmt.Errorf("secp256k1.SchnorrVerify(key=%x, sig=%x, msg=%x) = %v under concurrency, BIP340 says %v [%s]", a, b, c, got, w.ok, it.Tag)
		}
	case "schnorr_sign":
		if got := secp256k1.SchnorrSign(b, a, c); !bytes.Equal(got, w.bytes) {
			return fmt.Errorf("SchnorrSign(msg=%x, sk=%x, aux=%x) = %x under concurrency, BIP340 gives %x", b, a, c, got, w.bytes)
		}
	case "ecdsa_verify":
		if got := btc.EcdsaVerify(a, b, c); got != w.ok {
			return fmt.Errorf("EcdsaVerify(key=%x, sig=%x, msg=%x) = %v under concurrency, the ECDSA predicate says %v [%s]", a, b, c, got, w.ok, it.Tag)
		}
	case "ecdsa_sign":
		r, s, err := btc.EcdsaSign(a, b) // EcdsaSignWithRFC6979 is switched on for the whole concurrent phase
		if err != nil {
			return fmt.Errorf("EcdsaSign[rfc6979](sk=%x, msg=%x) fails under concurrency: %v", a, b, err)
		}
		if got := ec.EncodeDER(r, s); !bytes.Equal(got, w.bytes) {
			return fmt.Errorf("EcdsaSign[rfc6979](sk=%x, msg=%x) = %x under concurrency, RFC 6979 gives %x", a, b, got, w.bytes)
		}
	case "tweak":
		if got := btc.CheckPayToContract(a, b, c, it.Flg); got != w.ok {
			return fmt.Errorf("CheckPayToContract(q=%x, p=%x, t=%x, parity=%v) = %v under concurrency, BIP341 says %v [%s]", a, b, c, it.Flg, got, w.ok, it.Tag)
		}
	case "parse":
		k, err := btc.NewPublicKey(a)
		if (err == nil && k != nil) != w.ok {
			return fmt.Errorf("NewPublicKey(%x) accepted=%v under concurrency, reference %v", a, err == nil, w.ok)
		}
		if w.ok && !bytes.Equal(k.Bytes(false), w.bytes) {
			return fmt.Errorf("NewPublicKey(%x).Bytes = %x under concurrency, reference %x", a, k.Bytes(false), w.bytes)
		}
	case "recover":
		var sig btc.Signature
		sig.R.SetBytes(a)
		sig.S.SetBytes(b)
		k := sig.RecoverPublicKey(c, int(unhex(it.D)[0]))
		if (k != nil) != w.ok || w.ok && !bytes.Equal(k.Bytes(false), w.bytes) {
			return fmt.Errorf("RecoverPublicKey(r=%x, s=%x, msg=%x, id=%s) ok=%v %x under concurrency, reference ok=%v %x", a, b, c, it.D, k != nil, keyBytes(k), w.ok, w.bytes)
		}
	}
	return nil
}

type concStats struct {
	ops    int
	panics int
}

func checkConcurrent(c concCase, rounds int) (st concStats, err error) {
	if c.N < 1 || c.N > 64 || c.K < 1 || c.K > 5000 || len(c.Items) == 0 {
		return st, nil
	}
	for _, it := range c.Items {
		if it.Op == "ecdsa_sign" && new(big.Int).SetBytes(unhex(it.B)).Cmp(bigN) >= 0 {
			return st, nil
		}
		if it.Op == "recover" && len(unhex(it.D)) != 1 {
			return st, nil
		}
	}
	want := make([]cWant, len(c.Items))
	for i, it := range c.Items {
		want[i] = refItem(it)
	}
	// sanity of the harness: the same items, sequentially, must agree (otherwise it is not a
	// concurrency failure and is reported as what it is)
	btc.EcdsaSignWithRFC6979 = true
	defer func() { btc.EcdsaSignWithRFC6979 = false }()
	for i, it := range c.Items {
		if e := runItem(it, want[i]); e != nil {
			return st, fmt.Errorf("sequential run already disagrees: %v", strings.Replace(e.Error(), " under concurrency", "", 1))
		}
	}
	for round := 0; round < rounds; round++ {
		start := make(chan struct{})
		errs := make([]error, c.N)
		var ready, done sync.WaitGroup
		for g := 0; g < c.N; g++ {
			ready.Add(1)
			done.Add(1)
			go func(g int) {
				defer done.Done()
				defer func() {
					if p := recover(); p != nil {
						errs[g] = fmt.Errorf("panic in worker %d of %d: %v\n%s", g, c.N, p, debug.Stack())
					}
				}()
				ready.Done()
				<-start
				idx := g * 7
				stride := 1 + g%3
				for k := 0; k < c.K; k++ {
					i := idx % len(c.Items)
					if e := runItem(c.Items[i], want[i]); e != nil {
						errs[g] = fmt.Errorf("worker %d of %d, operation %d: %v", g, c.N, k, e)
						return
					}
					idx += stride
				}
			}(g)
		}
		ready.Wait()
		close(start)
		done.Wait()
		st.ops += c.N * c.K
		for _, e := range errs {
			if e != nil {
				if strings.HasPrefix(e.Error(), "panic") {
					st.panics++
				}
				return st, e
			}
		}
	}
	return st, nil
}

func genConcCase(t *rapid.T) concCase {
	c := concCase{N: rapid.IntRange(2, 16).Draw(t, "goroutines"), K: rapid.IntRange(200, 500).Draw(t, "ops_per_goroutine")}
	n := rapid.IntRange(6, 20).Draw(t, "items")
	ops := []string{"schnorr_verify", "schnorr_verify", "schnorr_verify_lib", "schnorr_sign", "schnorr_sign", "ecdsa_verify", "ecdsa_sign", "tweak", "parse", "recover"}
	for i := 0; i < n; i++ {
		op := rapid.SampledFrom(ops).Draw(t, "op")
		if i < 3 { // every case has overlapping BIP340 work
			op = []string{"schnorr_verify", "schnorr_sign", "schnorr_verify_lib"}[i]
		}
		switch op {
		case "schnorr_verify", "schnorr_verify_lib":
			v := genSchnorrCase(t)
			if len(v.Key) != 64 || len(v.Sig) != 128 {
				continue // wrong-length strings have their own family in schnorr_verify
			}
			c.Items = append(c.Items, cItem{Op: op, A: v.Key, B: v.Sig, C: v.Msg, Tag: v.Kind})
		case "schnorr_sign":
			c.Items = append(c.Items, cItem{Op: op, A: hx(genSecret(t, "sk")), B: hx(genMsg(t, "msg")), C: hx(rapid.SliceOfN(rapid.Byte(), 32, 32).Draw(t, "aux"))})
		case "ecdsa_verify":
			v := genEcdsaCase(t)
			c.Items = append(c.Items, cItem{Op: op, A: v.Key, B: v.Sig, C: v.Msg, Tag: v.Kind})
		case "ecdsa_sign":
			m := modN(new(big.Int).SetBytes(genMsg(t, "msg")))
			c.Items = append(c.Items, cItem{Op: op, A: hx(genSecret(t, "sk")), B: hx(b32(m))})
		case "tweak":
			v := genTweakCase(t)
			c.Items = append(c.Items, cItem{Op: op, A: v.Q, B: v.P, C: v.T, Flg: v.Parity, Tag: v.Kind})
		case "parse":
			v := genEcdsaCase(t)
			c.Items = append(c.Items, cItem{Op: op, A: v.Key, Tag: v.Kind})
		case "recover":
			sk, msg := genSecret(t, "sk"), genMsg(t, "msg")
			r, s, id := ec.SignRFC6979(sk, msg)
			if rapid.IntRange(0, 3).Draw(t, "wrongid") == 0 {
				id = rapid.IntRange(0, 3).Draw(t, "id")
			}
			c.Items = append(c.Items, cItem{Op: op, A: hx(b32(r)), B: hx(b32(s)), C: hx(msg), D: hx([]byte{byte(id)})})
		}
	}
	return c
}

func TestConcurrent(t *testing.T) {
	pbt.Check(t, pbt.Cfg{Name: "concurrent", Quick: 480, Thorough: 9600}, func(r *pbt.Run) {
		c := genConcCase(r.T)
		r.Case(c)
		switch {
		case c.N <= 4:
			r.Class("goroutines_2_4")
		case c.N <= 8:
			r.Class("goroutines_5_8")
		default:
			r.Class("goroutines_9_16")
		}
		seen := map[string]bool{}
		acc, ref := false, false
		for _, it := range c.Items {
			if !seen[it.Op] {
				seen[it.Op] = true
				r.Class("op_" + it.Op)
			}
			if strings.HasSuffix(it.Op, "verify") || it.Op == "tweak" {
				if refItem(it).ok {
					acc = true
				} else {
					ref = true
				}
			}
		}
		if acc && ref {
			r.Class("accepting_and_refusing_items")
		}
		r.NonTrivial()
		st, err := checkConcurrent(c, 1)
		pbt.AddExtra("concurrent_operations", int64(st.ops))
		if err != nil {
			r.Failf("%v", err)
		}
	})
}

// TestConcurrentRace (thorough tier, shard 0; or VERIF_C03_FORCERACE=1): the same concurrent test as
// a -race binary, a small number of cases; a report of the Go race detector in gocoin code is a
// violation.
func TestConcurrentRace(t *testing.T) {
	if os.Getenv("VERIF_REPLAY") != "" || os.Getenv("VERIF_C03_SUB") != "" {
		t.Skip()
	}
	shard, _ := pbt.Shard()
	if shard != 0 || (pbt.Tier() != "thorough" && os.Getenv("VERIF_C03_FORCERACE") == "") {
		t.Skip()
	}
	root := os.Getenv("VERIF_ROOT")
	if root == "" {
		root = "/verif"
	}
	dir := os.Getenv("VERIF_BUILD")
	if dir == "" {
		dir = os.TempDir()
	}
	bin := filepath.Join(dir, "c03.race.test")
	cmd := exec.Command("go", "test", "-c", "-race", "-vet=off", "-tags", "verif", "-o", bin, "./props/c03")
	cmd.Dir = root
	cmd.Env = append(os.Environ(), "CGO_ENABLED=1")
	if b, err := cmd.CombinedOutput(); err != nil {
		pbt.Note("race-detector run NOT done: cannot build with -race: %v: %s", err, firstBytes(b, 300))
		pbt.Extra("race_detector", "not run (build failed)")
		t.Skip("no -race build")
	}
	tmp, _ := os.MkdirTemp("", "c03-race-")
	defer os.RemoveAll(tmp)
	os.MkdirAll(filepath.Join(tmp, "fail"), 0o755)
	run := exec.Command(bin, "-test.run", "^TestConcurrent$", "-test.timeout", "1500s", "-rapid.shrinktime", "5s")
	run.Dir = filepath.Join(root, "props", "c03")
	run.Env = append(os.Environ(), "VERIF_C03_SUB=1", "VERIF_TIER=quick", "VERIF_SHARD=0", "VERIF_SHARDS=8", "GORACE=halt_on_error=1 exitcode=66",
		"VERIF_STATS="+filepath.Join(tmp, "stats.json"), "VERIF_FAILDIR="+filepath.Join(tmp, "fail"), fmt.Sprintf("GOMAXPROCS=%d", min(8, runtime.NumCPU())))
	out, err := run.CombinedOutput()
	d := pbt.Direct{Name: "concurrent_race"}
	d.Eval("ran", true, "race", nil)
	if strings.Contains(string(out), "WARNING: DATA RACE") {
		i := strings.Index(string(out), "WARNING: DATA RACE")
		d.Fail(t, map[string]string{"note": "race detector report; run the package with -race to reproduce"}, "data race reported while signatures are verified/made concurrently:\n%s", firstBytes(out[i:], 3000))
		return
	}
	var s struct {
		PerTest  map[string]int64 `json:"per_test"`
		Failures []struct {
			Test, Replay, Msg string
		} `json:"failures"`
	}
	if b, e := os.ReadFile(filepath.Join(tmp, "stats.json")); e == nil {
		json.Unmarshal(b, &s)
	}
	for _, f := range s.Failures {
		var doc struct {
			Case json.RawMessage `json:"case"`
		}
		if rb, e := os.ReadFile(f.Replay); e == nil {
			json.Unmarshal(rb, &doc)
		}
		pbt.Direct{Name: f.Test}.Fail(t, doc.Case, "[-race build] %s", f.Msg)
	}
	if err != nil && len(s.Failures) == 0 {
		t.Fatalf("-race sub-run failed without a replay file: %v\n%s", err, firstBytes(out, 2000))
	}
	pbt.AddExtra("race_detector_cases", s.PerTest["concurrent"])
	pbt.Extra("race_detector", "ran: TestConcurrent as a -race binary, no report")
}

func firstBytes(b []byte, n int) string {
	if len(b) > n {
		b = b[:n]
	}
	return string(b)
}
