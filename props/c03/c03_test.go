// Package c03 checks property C03: acceptance by btc.EcdsaVerify / btc.SchnorrVerify /
// btc.CheckPayToContract is exactly the mathematical predicate (ref/ec), and the library's own
// signers produce valid, canonical, deterministic and recoverable signatures.
package c03

import (
	"bytes"
	"encoding/hex"
	"encoding/json"
	"fmt"
	"math/big"
	"strings"
	"testing"

	"github.com/piotrnar/gocoin/lib/btc"
	"github.com/piotrnar/gocoin/lib/secp256k1"
	"pgregory.net/rapid"
	"verif/pbt"
	"verif/ref/ec"
)

var (
	bigP = ec.P
	bigN = ec.N
	one  = big.NewInt(1)
)

func TestMain(m *testing.M) {
	reg := func(name string, f func(json.RawMessage) error) { pbt.RegisterReplay(name, f) }
	reg("ecdsa_verify", func(raw json.RawMessage) error {
		var c verifyCase
		if err := json.Unmarshal(raw, &c); err != nil {
			return err
		}
		_, err := checkEcdsa(c)
		return err
	})
	reg("schnorr_verify", func(raw json.RawMessage) error {
		var c verifyCase
		if err := json.Unmarshal(raw, &c); err != nil {
			return err
		}
		_, err := checkSchnorr(c)
		return err
	})
	reg("tweak_check", func(raw json.RawMessage) error {
		var c tweakCase
		if err := json.Unmarshal(raw, &c); err != nil {
			return err
		}
		_, err := checkTweak(c)
		return err
	})
	reg("signers", func(raw json.RawMessage) error {
		var c signCase
		if err := json.Unmarshal(raw, &c); err != nil {
			return err
		}
		return checkSigners(c)
	})
	reg("ecdsa_high_rx", func(raw json.RawMessage) error {
		var c highRxCase
		if err := json.Unmarshal(raw, &c); err != nil {
			return err
		}
		return checkHighRx(c)
	})
	reg("ecdsa_lax_der", func(raw json.RawMessage) error {
		var c laxCase
		if err := json.Unmarshal(raw, &c); err != nil {
			return err
		}
		_, err := checkLax(c)
		return err
	})
	for _, name := range []string{"schnorr_nonce_table", "schnorr_volume"} {
		reg(name, func(raw json.RawMessage) error {
			var c nonceCase
			if err := json.Unmarshal(raw, &c); err != nil {
				return err
			}
			_, err := checkNonce(c)
			return err
		})
	}
	reg("concurrent", func(raw json.RawMessage) error {
		var c concCase
		if err := json.Unmarshal(raw, &c); err != nil {
			return err
		}
		_, err := checkConcurrent(c, 20) // an interleaving is not reproducible on demand: the workload is repeated
		return err
	})
	pbt.Main(m, "C03")
}

func hx(b []byte) string { return hex.EncodeToString(b) }
func unhex(s string) []byte {
	b, err := hex.DecodeString(s)
	if err != nil {
		panic("bad hex in case: " + s)
	}
	return b
}
func b32(v *big.Int) []byte    { return ec.Bytes32(v) }
func pow2(n uint) *big.Int     { return new(big.Int).Lsh(one, n) }
func modN(v *big.Int) *big.Int { return new(big.Int).Mod(v, bigN) }
func modP(v *big.Int) *big.Int { return new(big.Int).Mod(v, bigP) }

// ---------------------------------------------------------------------------------------------
// generator helpers

var skFixed = []*big.Int{big.NewInt(1), big.NewInt(2), big.NewInt(3), new(big.Int).Sub(ec.N, big.NewInt(1)), new(big.Int).Sub(ec.N, big.NewInt(2)),
	new(big.Int).Rsh(ec.N, 1), new(big.Int).Add(new(big.Int).Rsh(ec.N, 1), big.NewInt(1)), pow2(128), pow2(255)}

// genSecret draws a secret key in [1, n-1] as 32 bytes.
func genSecret(t *rapid.T, label string) []byte {
	if rapid.IntRange(0, 3).Draw(t, label+"_fixed") == 0 {
		return b32(skFixed[rapid.IntRange(0, len(skFixed)-1).Draw(t, label+"_i")])
	}
	v := modN(new(big.Int).SetBytes(rapid.SliceOfN(rapid.Byte(), 32, 32).Draw(t, label)))
	if v.Sign() == 0 {
		v = big.NewInt(1)
	}
	return b32(v)
}

var msgFixed = []*big.Int{big.NewInt(0), big.NewInt(1), new(big.Int).Sub(ec.N, big.NewInt(1)), new(big.Int).Set(ec.N), new(big.Int).Add(ec.N, big.NewInt(1)),
	new(big.Int).Sub(pow2(256), big.NewInt(1)), new(big.Int).Set(ec.P), pow2(255), new(big.Int).Rsh(ec.N, 1)}

func genMsg(t *rapid.T, label string) []byte {
	switch rapid.IntRange(0, 5).Draw(t, label+"_kind") {
	case 0:
		return b32(msgFixed[rapid.IntRange(0, len(msgFixed)-1).Draw(t, label+"_i")])
	case 1: // above n
		d := new(big.Int).SetBytes(rapid.SliceOfN(rapid.Byte(), 16, 16).Draw(t, label+"_d"))
		v := new(big.Int).Add(bigN, d)
		if v.BitLen() > 256 {
			v = new(big.Int).Set(bigN)
		}
		return b32(v)
	}
	return rapid.SliceOfN(rapid.Byte(), 32, 32).Draw(t, label)
}

// Curve points with a tiny coordinate, found by search at start-up: they are the only points for
// which x+p (or y+p) still fits 32 bytes.
var tinyX, tinyY []ec.Point

func init() {
	lim := new(big.Int).Sub(pow2(256), bigP) // 2^32 + 977
	for x := int64(0); x < 64 && len(tinyX) < 12; x++ {
		if pt, ok := ec.LiftX(big.NewInt(x)); ok {
			tinyX = append(tinyX, pt, ec.Neg(pt))
		}
	}
	// p = 7 mod 9: a cube root of a, if one exists, is a^((p+2)/9)
	e := new(big.Int).Add(bigP, big.NewInt(2))
	e.Div(e, big.NewInt(9))
	for y := int64(0); y < 400 && len(tinyY) < 12; y++ {
		a := modP(big.NewInt(y*y - 7))
		x := new(big.Int).Exp(a, e, bigP)
		if ec.OnCurve(x, big.NewInt(y)) {
			tinyY = append(tinyY, ec.Point{X: x, Y: big.NewInt(y)})
		}
	}
	_ = lim
	if len(tinyX) == 0 || len(tinyY) == 0 {
		panic("no curve points with tiny coordinates found")
	}
}

// specialYPoint draws a curve point chosen by its Y coordinate (x = cube root of y^2-7, p = 7 mod 9):
// tiny y, p - tiny, next to the limb boundaries 2^(26i)/2^(52i), (p-1)/2 +- small - the square roots for
// which decompression is most likely to get the parity wrong.
func specialYPoint(t *rapid.T) ec.Point {
	e := new(big.Int).Div(new(big.Int).Add(bigP, big.NewInt(2)), big.NewInt(9))
	small := new(big.Int).SetUint64(rapid.Uint64Range(1, 1<<33).Draw(t, "ysmall"))
	if rapid.Bool().Draw(t, "ytiny") {
		small = big.NewInt(int64(rapid.IntRange(1, 2000).Draw(t, "ytiny_v")))
	}
	var y *big.Int
	switch rapid.IntRange(0, 4).Draw(t, "ykind") {
	case 0, 1:
		y = small
	case 2:
		y = new(big.Int).Sub(bigP, small)
	case 3:
		y = pow2(uint(rapid.SampledFrom([]int{26, 52, 78, 104, 130, 156, 182, 208, 234}).Draw(t, "ylimb")))
		if rapid.Bool().Draw(t, "ybelow") {
			y.Sub(y, small)
		} else {
			y.Add(y, small)
		}
	default:
		y = new(big.Int).Rsh(bigP, 1)
		if rapid.Bool().Draw(t, "ybelow") {
			y.Sub(y, small)
		} else {
			y.Add(y, small)
		}
	}
	y = modP(y)
	for {
		a := modP(new(big.Int).Sub(new(big.Int).Mul(y, y), big.NewInt(7)))
		x := new(big.Int).Exp(a, e, bigP)
		if ec.OnCurve(x, y) {
			return ec.Point{X: x, Y: new(big.Int).Set(y)}
		}
		y = modP(y.Add(y, one))
	}
}

// legacyParse builds gocoin's XY the way its parser did before any validation existed: coordinates
// are loaded (reduced mod p implicitly), a missing Y is "completed" by SetXO, nothing is checked.
// It is used on the generation side only, to make triples that gocoin's own arithmetic satisfies.
func legacyParse(key []byte) (xy secp256k1.XY, ok bool) {
	switch {
	case len(key) == 33 && (key[0] == 2 || key[0] == 3):
		var x secp256k1.Field
		x.SetB32(key[1:])
		xy.SetXO(&x, key[0] == 3)
		return xy, true
	case len(key) == 65 && (key[0] == 4 || key[0] == 6 || key[0] == 7):
		xy.X.SetB32(key[1:33])
		xy.Y.SetB32(key[33:])
		return xy, true
	case len(key) == 32: // x-only
		var x secp256k1.Field
		x.SetB32(key)
		xy.SetXO(&x, false)
		return xy, true
	}
	return xy, false
}

// ---------------------------------------------------------------------------------------------
// ECDSA acceptance

type verifyCase struct {
	Kind string `json:"kind"`
	Key  string `json:"key"`
	Sig  string `json:"sig"`
	Msg  string `json:"msg"`
}

// derInts frames two arbitrary byte strings as "30 len 02 lr R 02 ls S".
func derInts(r, s []byte) []byte {
	body := append(append([]byte{2, byte(len(r))}, r...), append([]byte{2, byte(len(s))}, s...)...)
	return append([]byte{0x30, byte(len(body))}, body...)
}

// derBytes is the usual minimal positive-integer content for v (v >= 0, any size).
func derBytes(v *big.Int) []byte {
	b := v.Bytes()
	if len(b) == 0 {
		return []byte{0}
	}
	if b[0]&0x80 != 0 {
		b = append([]byte{0}, b...)
	}
	return b
}

// refEcdsa: the property's predicate.  ok=false: the signature is not canonically framed (outside
// the domain of this check; DER laxity belongs to C01).
func refEcdsa(key, sig, msg []byte) (accept, ok bool) {
	r, s, ok := ec.ParseDERStrictInts(sig)
	if !ok {
		return false, false
	}
	q, kok := ec.ParsePubKey(key)
	if !kok {
		return false, true
	}
	return ec.ECDSAVerifyRaw(q, r, s, new(big.Int).SetBytes(msg)), true
}

func checkEcdsa(c verifyCase) (want bool, err error) {
	key, sig, msg := unhex(c.Key), unhex(c.Sig), unhex(c.Msg)
	want, ok := refEcdsa(key, sig, msg)
	if !ok {
		return false, nil
	}
	got := btc.EcdsaVerify(key, sig, msg)
	if got != want {
		return want, fmt.Errorf("EcdsaVerify(key=%x, sig=%x, msg=%x) = %v, the ECDSA predicate says %v [%s]", key, sig, msg, got, want, c.Kind)
	}
	return want, nil
}

// forge makes (r, s, m) that satisfy the ECDSA equation for the point gocoin's own arithmetic
// derives from the key bytes - whatever that point is.
func forge(key []byte, u1, u2 *big.Int) (r, s *big.Int, msg []byte, ok bool) {
	xy, ok := legacyParse(key)
	if !ok || u1.Sign() == 0 || u2.Sign() == 0 {
		return nil, nil, nil, false
	}
	var pj, rj secp256k1.XYZ
	pj.SetXY(&xy)
	var n1, n2 secp256k1.Number
	n1.Set(u1)
	n2.Set(u2)
	pj.ECmult(&rj, &n2, &n1)
	if rj.IsInfinity() {
		return nil, nil, nil, false
	}
	var rxy secp256k1.XY
	rxy.SetXYZ(&rj)
	rxy.X.Normalize()
	var xb [32]byte
	rxy.X.GetB32(xb[:])
	r = modN(new(big.Int).SetBytes(xb[:]))
	if r.Sign() == 0 {
		return nil, nil, nil, false
	}
	s = modN(new(big.Int).Mul(r, new(big.Int).ModInverse(u2, bigN)))
	m := modN(new(big.Int).Mul(u1, s))
	return r, s, b32(m), true
}

func encodeKey(pt ec.Point, f int) []byte {
	switch f {
	case 1:
		return ec.SerializeUncompressed(pt)
	case 2:
		b := ec.SerializeUncompressed(pt)
		b[0] = 6 + byte(pt.Y.Bit(0))
		return b
	}
	return ec.SerializeCompressed(pt)
}

func genScalarN(t *rapid.T, label string) *big.Int {
	v := modN(new(big.Int).SetBytes(rapid.SliceOfN(rapid.Byte(), 32, 32).Draw(t, label)))
	if v.Sign() == 0 {
		v = big.NewInt(1)
	}
	return v
}

func flipBit(t *rapid.T, b []byte, label string) []byte {
	out := append([]byte{}, b...)
	i := rapid.IntRange(0, len(b)*8-1).Draw(t, label)
	out[i/8] ^= 1 << uint(i%8)
	return out
}

func genEcdsaCase(t *rapid.T) verifyCase {
	sk := genSecret(t, "sk")
	d := new(big.Int).SetBytes(sk)
	Q := ec.BaseMul(d)
	msg := genMsg(t, "msg")
	z := new(big.Int).SetBytes(msg)
	k := genScalarN(t, "nonce")
	r, s, _, ok := ec.SignWithNonce(d, z, k)
	if !ok {
		r, s, _ = ec.SignRFC6979(sk, msg)
	}
	keyFmt := rapid.IntRange(0, 2).Draw(t, "keyfmt")
	key := encodeKey(Q, keyFmt)
	mk := func(kind string, key []byte, r, s []byte, msg []byte) verifyCase {
		return verifyCase{Kind: kind, Key: hx(key), Sig: hx(derInts(r, s)), Msg: hx(msg)}
	}
	kinds := []string{"valid", "valid_high_s", "bitflip_key", "bitflip_sig", "bitflip_msg", "rs_special", "s_plus_kn", "r_plus_n", "int_padding",
		"hybrid_wrong_parity", "bad_prefix", "key_x_plus_p", "key_y_plus_p", "key_no_sqrt", "key_off_curve", "key_wrong_y", "key_length", "forged_valid_key", "key_special_y", "key_special_y"}
	kind := rapid.SampledFrom(kinds).Draw(t, "kind")
	switch kind {
	case "valid":
		return mk(kind, key, derBytes(r), derBytes(s), msg)
	case "valid_high_s":
		return mk(kind, key, derBytes(r), derBytes(new(big.Int).Sub(bigN, s)), msg)
	case "bitflip_key":
		return mk(kind, flipBit(t, key, "bit"), derBytes(r), derBytes(s), msg)
	case "bitflip_sig": // inside the integer contents, so that the framing stays canonical
		rb, sb := derBytes(r), derBytes(s)
		if rapid.Bool().Draw(t, "which") {
			rb = flipBit(t, rb, "bit")
		} else {
			sb = flipBit(t, sb, "bit")
		}
		return mk(kind, key, rb, sb, msg)
	case "bitflip_msg":
		return mk(kind, key, derBytes(r), derBytes(s), flipBit(t, msg, "bit"))
	case "rs_special":
		sp := []*big.Int{big.NewInt(0), big.NewInt(1), new(big.Int).Sub(bigN, one), new(big.Int).Set(bigN), new(big.Int).Add(bigN, one),
			new(big.Int).Set(bigP), new(big.Int).Sub(pow2(256), one), pow2(256), new(big.Int).Rsh(bigN, 1), new(big.Int).Add(new(big.Int).Rsh(bigN, 1), one)}
		v := sp[rapid.IntRange(0, len(sp)-1).Draw(t, "special")]
		rr, ss := r, s
		switch rapid.IntRange(0, 2).Draw(t, "which") {
		case 0:
			rr = v
		case 1:
			ss = v
		default:
			rr, ss = v, sp[rapid.IntRange(0, len(sp)-1).Draw(t, "special2")]
		}
		return mk(kind, key, derBytes(rr), derBytes(ss), msg)
	case "s_plus_kn": // s + k*n: the same residue, 33 bytes
		useHigh := rapid.Bool().Draw(t, "high")
		ss := new(big.Int).Set(s)
		if useHigh {
			ss.Sub(bigN, s)
		}
		kk := rapid.SampledFrom([]int64{1, 1, 1, 2, 3, 255, 256}).Draw(t, "k")
		ss.Add(ss, new(big.Int).Mul(big.NewInt(kk), bigN))
		return mk(kind, key, derBytes(r), derBytes(ss), msg)
	case "r_plus_n":
		rr := new(big.Int).Add(r, bigN)
		return mk(kind, key, derBytes(rr), derBytes(s), msg)
	case "int_padding": // redundant leading zero bytes / missing sign byte: same unsigned value
		rb, sb := r.Bytes(), s.Bytes()
		rb = append(make([]byte, rapid.IntRange(0, 3).Draw(t, "padr")), rb...)
		sb = append(make([]byte, rapid.IntRange(0, 3).Draw(t, "pads")), sb...)
		return mk(kind, key, rb, sb, msg)
	case "hybrid_wrong_parity":
		b := ec.SerializeUncompressed(Q)
		b[0] = 7 - byte(Q.Y.Bit(0))
		return mk(kind, b, derBytes(r), derBytes(s), msg)
	case "bad_prefix":
		b := append([]byte{}, key...)
		b[0] = rapid.SampledFrom([]byte{0, 1, 5, 8, 0x82, 0xff}).Draw(t, "prefix")
		if len(b) == 33 {
			b[0] = rapid.SampledFrom([]byte{0, 1, 4, 6, 7, 0xff}).Draw(t, "prefix33")
		}
		return mk(kind, b, derBytes(r), derBytes(s), msg)
	case "key_wrong_y": // (x, -y) in an uncompressed encoding: a valid, different key
		b := ec.SerializeUncompressed(ec.Neg(Q))
		return mk(kind, b, derBytes(r), derBytes(s), msg)
	case "key_length":
		n := rapid.SampledFrom([]int{1, 32, 34, 64, 66}).Draw(t, "len")
		b := append([]byte{}, ec.SerializeUncompressed(Q)...)
		b = append(b, 0)[:n]
		if n <= 34 {
			b[0] = 2 + byte(Q.Y.Bit(0))
		}
		return mk(kind, b, derBytes(r), derBytes(s), msg)
	}
	// the algebraic families: a key (valid or not) and a triple gocoin's arithmetic satisfies
	u1, u2 := genScalarN(t, "u1"), genScalarN(t, "u2")
	var fkey []byte
	switch kind {
	case "forged_valid_key":
		fkey = key
	case "key_special_y": // a valid compressed (sometimes uncompressed) key whose Y is a special square root
		pt := specialYPoint(t)
		fkey = encodeKey(pt, rapid.SampledFrom([]int{0, 0, 0, 1, 2}).Draw(t, "fmt"))
	case "key_x_plus_p":
		pt := tinyX[rapid.IntRange(0, len(tinyX)-1).Draw(t, "tiny")]
		f := rapid.IntRange(0, 2).Draw(t, "fmt")
		fkey = encodeKey(pt, f)
		xp := b32(new(big.Int).Add(pt.X, bigP))
		copy(fkey[1:33], xp)
	case "key_y_plus_p":
		pt := tinyY[rapid.IntRange(0, len(tinyY)-1).Draw(t, "tiny")]
		f := rapid.IntRange(1, 2).Draw(t, "fmt")
		fkey = encodeKey(pt, f)
		copy(fkey[33:], b32(new(big.Int).Add(pt.Y, bigP)))
	case "key_no_sqrt":
		x := modP(new(big.Int).SetBytes(rapid.SliceOfN(rapid.Byte(), 32, 32).Draw(t, "x")))
		for {
			if _, ok := ec.LiftX(x); !ok {
				break
			}
			x = modP(x.Add(x, one))
		}
		fkey = append([]byte{byte(2 + rapid.IntRange(0, 1).Draw(t, "odd"))}, b32(x)...)
	case "key_off_curve":
		x := modP(new(big.Int).SetBytes(rapid.SliceOfN(rapid.Byte(), 32, 32).Draw(t, "x")))
		y := modP(new(big.Int).SetBytes(rapid.SliceOfN(rapid.Byte(), 32, 32).Draw(t, "y")))
		if rapid.Bool().Draw(t, "near") { // a curve point with y moved by one
			y = modP(new(big.Int).Add(Q.Y, one))
			x = Q.X
		}
		if ec.OnCurve(x, y) {
			y = modP(y.Add(y, one))
		}
		prefix := byte(4)
		if rapid.Bool().Draw(t, "hybrid") {
			prefix = 6 + byte(y.Bit(0))
		}
		fkey = append(append([]byte{prefix}, b32(x)...), b32(y)...)
	}
	fr, fs, fm, ok := forge(fkey, u1, u2)
	if !ok {
		return mk(kind+"/unforgeable", fkey, derBytes(r), derBytes(s), msg)
	}
	return mk(kind, fkey, derBytes(fr), derBytes(fs), fm)
}

func TestEcdsaVerify(t *testing.T) {
	pbt.Check(t, pbt.Cfg{Name: "ecdsa_verify", Quick: 36000, Thorough: 1000000}, func(r *pbt.Run) {
		c := genEcdsaCase(r.T)
		r.Case(c)
		r.Class(c.Kind)
		want, err := checkEcdsa(c)
		if want {
			r.Class("ref_accepts")
		} else {
			r.Class("ref_refuses")
		}
		if c.Kind != "valid" {
			r.NonTrivial()
		}
		if err != nil {
			r.Failf("%v", err)
		}
	})
}

// ---------------------------------------------------------------------------------------------
// BIP340 acceptance

func checkSchnorr(c verifyCase) (want bool, err error) {
	key, sig, msg := unhex(c.Key), unhex(c.Sig), unhex(c.Msg)
	want = ec.SchnorrVerify(key, msg, sig)
	var got bool
	func() {
		defer func() {
			if p := recover(); p != nil {
				if len(key) == 32 && len(sig) == 64 {
					err = fmt.Errorf("SchnorrVerify(key=%x, sig=%x, msg=%x) panics: %v", key, sig, msg, p)
				}
				// other lengths: callers check them (the script interpreter does); a panic there is C18's subject
			}
		}()
		got = btc.SchnorrVerify(key, sig, msg)
	}()
	if err != nil {
		return want, err
	}
	if len(key) != 32 || len(sig) != 64 {
		if got {
			return want, fmt.Errorf("SchnorrVerify accepts key of %d bytes / signature of %d bytes (key=%x sig=%x msg=%x)", len(key), len(sig), key, sig, msg)
		}
		return want, nil
	}
	if got != want {
		return want, fmt.Errorf("SchnorrVerify(key=%x, sig=%x, msg=%x) = %v, BIP340 says %v [%s]", key, sig, msg, got, want, c.Kind)
	}
	return want, nil
}

func genSchnorrCase(t *rapid.T) verifyCase {
	sk := genSecret(t, "sk")
	msg := genMsg(t, "msg")
	aux := rapid.SliceOfN(rapid.Byte(), 32, 32).Draw(t, "aux")
	pk, _ := ec.XOnlyPubKey(sk)
	sig := ec.SchnorrSign(sk, msg, aux)
	mk := func(kind string, pk, sig, msg []byte) verifyCase {
		return verifyCase{Kind: kind, Key: hx(pk), Sig: hx(sig), Msg: hx(msg)}
	}
	kinds := []string{"valid", "bitflip_key", "bitflip_sig", "bitflip_msg", "r_special", "s_special", "negated_r", "negated_s", "key_special", "key_unliftable",
		"r_infinity", "length", "s_plus_n", "msg_length"}
	kind := rapid.SampledFrom(kinds).Draw(t, "kind")
	r, s := new(big.Int).SetBytes(sig[:32]), new(big.Int).SetBytes(sig[32:])
	join := func(r, s *big.Int) []byte { return append(b32(r), b32(s)...) }
	special := []*big.Int{big.NewInt(0), big.NewInt(1), new(big.Int).Sub(bigN, one), new(big.Int).Set(bigN), new(big.Int).Add(bigN, one),
		new(big.Int).Sub(bigP, one), new(big.Int).Set(bigP), new(big.Int).Add(bigP, one), new(big.Int).Sub(pow2(256), one)}
	switch kind {
	case "valid":
		return mk(kind, pk, sig, msg)
	case "bitflip_key":
		return mk(kind, flipBit(t, pk, "bit"), sig, msg)
	case "bitflip_sig":
		return mk(kind, pk, flipBit(t, sig, "bit"), msg)
	case "bitflip_msg":
		return mk(kind, pk, sig, flipBit(t, msg, "bit"))
	case "r_special":
		return mk(kind, pk, join(special[rapid.IntRange(0, len(special)-1).Draw(t, "sp")], s), msg)
	case "s_special":
		return mk(kind, pk, join(r, special[rapid.IntRange(0, len(special)-1).Draw(t, "sp")]), msg)
	case "negated_r": // the nonce point with odd y has the same x: only s tells them apart
		return mk(kind, pk, join(r, modN(new(big.Int).Sub(s, new(big.Int).Lsh(nonceOf(sk, msg, aux), 1)))), msg)
	case "negated_s":
		return mk(kind, pk, join(r, modN(new(big.Int).Neg(s))), msg)
	case "s_plus_n":
		v := new(big.Int).Add(s, bigN)
		if v.BitLen() > 256 { // practically always: s+n does not fit; use the top of the range instead
			v = new(big.Int).Sub(pow2(256), one)
		}
		return mk(kind, pk, join(r, v), msg)
	case "key_special":
		sp := []*big.Int{big.NewInt(0), big.NewInt(1), new(big.Int).Set(bigP), new(big.Int).Add(bigP, one), new(big.Int).Sub(pow2(256), one), new(big.Int).Sub(bigP, one)}
		sp = append(sp, new(big.Int).Add(tinyX[0].X, bigP))
		return mk(kind, b32(sp[rapid.IntRange(0, len(sp)-1).Draw(t, "sp")]), sig, msg)
	case "key_unliftable":
		x := new(big.Int).SetBytes(pk)
		for {
			if _, ok := ec.LiftX(x); !ok {
				break
			}
			x = modP(x.Add(x, one))
		}
		return mk(kind, b32(x), sig, msg)
	case "r_infinity": // s*G = e*P: the nonce point is the identity; r is arbitrary
		rr := rapid.SliceOfN(rapid.Byte(), 32, 32).Draw(t, "r")
		e := modN(new(big.Int).SetBytes(ec.TaggedHash("BIP0340/challenge", rr, pk, msg)))
		d := new(big.Int).SetBytes(sk)
		if _, odd := ec.XOnlyPubKey(sk); odd {
			d.Sub(bigN, d)
		}
		return mk(kind, pk, append(rr, b32(modN(e.Mul(e, d)))...), msg)
	case "length":
		switch rapid.IntRange(0, 3).Draw(t, "which") {
		case 0:
			return mk(kind, pk, sig[:63], msg)
		case 1:
			return mk(kind, pk, append(append([]byte{}, sig...), 1), msg)
		case 2: // a valid signature whose s starts with a zero byte, that byte dropped: 63 bytes, the same numbers
			a := aux
			for i := 0; i < 600; i++ {
				sg := ec.SchnorrSign(sk, msg, a)
				if sg[32] == 0 {
					return mk(kind+"/short_s", pk, append(append([]byte{}, sg[:32]...), sg[33:]...), msg)
				}
				a = ec.TaggedHash("verif/aux", a)
			}
			return mk(kind, pk, sig[1:], msg)
		default:
			return mk(kind, append([]byte{2}, pk...), sig, msg)
		}
	default: // msg_length: BIP340 signs messages of any length
		n := rapid.SampledFrom([]int{0, 1, 31, 33, 64, 100}).Draw(t, "mlen")
		m := rapid.SliceOfN(rapid.Byte(), n, n).Draw(t, "m")
		return mk(kind, pk, ec.SchnorrSign(sk, m, aux), m)
	}
}

// nonceOf recomputes BIP340's k (after the even-y adjustment) for (sk, msg, aux).
func nonceOf(sk, msg, aux []byte) *big.Int {
	d0 := new(big.Int).SetBytes(sk)
	pk, odd := ec.XOnlyPubKey(sk)
	d := d0
	if odd {
		d = new(big.Int).Sub(bigN, d0)
	}
	tb := b32(d)
	ha := ec.TaggedHash("BIP0340/aux", aux)
	for i := range tb {
		tb[i] ^= ha[i]
	}
	k0 := modN(new(big.Int).SetBytes(ec.TaggedHash("BIP0340/nonce", tb, pk, msg)))
	if ec.BaseMul(k0).Y.Bit(0) == 1 {
		k0.Sub(bigN, k0)
	}
	return k0
}

func TestSchnorrVerify(t *testing.T) {
	pbt.Check(t, pbt.Cfg{Name: "schnorr_verify", Quick: 20000, Thorough: 500000}, func(r *pbt.Run) {
		c := genSchnorrCase(r.T)
		r.Case(c)
		r.Class(c.Kind)
		want, err := checkSchnorr(c)
		if want {
			r.Class("ref_accepts")
		} else {
			r.Class("ref_refuses")
		}
		if c.Kind != "valid" {
			r.NonTrivial()
		}
		if err != nil {
			r.Failf("%v", err)
		}
	})
}

// ---------------------------------------------------------------------------------------------
// BIP341 commitment check

type tweakCase struct {
	Kind   string `json:"kind"`
	Q      string `json:"q"`      // output key, 32 bytes
	P      string `json:"p"`      // internal key, 32 bytes
	T      string `json:"t"`      // tweak, 32 bytes
	Parity bool   `json:"parity"` // claimed parity of the output key
}

func checkTweak(c tweakCase) (want bool, err error) {
	q, p, tw := unhex(c.Q), unhex(c.P), unhex(c.T)
	if len(q) != 32 || len(p) != 32 || len(tw) != 32 {
		return false, nil // the interpreter only passes 32-byte strings
	}
	want = ec.TweakCheck(q, c.Parity, p, tw)
	got := btc.CheckPayToContract(q, p, tw, c.Parity)
	if got != want {
		return want, fmt.Errorf("CheckPayToContract(q=%x, p=%x, t=%x, parity=%v) = %v, BIP341 says %v [%s]", q, p, tw, c.Parity, got, want, c.Kind)
	}
	return want, nil
}

// ownTweak computes (q, parity) with gocoin's arithmetic from whatever point it derives from p.
func ownTweak(p, tw []byte) (q []byte, parity, ok bool) {
	xy, _ := legacyParse(p)
	var t secp256k1.Number
	t.SetBytes(tw)
	if !xy.ECPublicTweakAdd(&t) {
		return nil, false, false
	}
	xy.X.Normalize()
	xy.Y.Normalize()
	q = make([]byte, 32)
	xy.X.GetB32(q)
	return q, xy.Y.IsOdd(), true
}

func genTweakCase(t *rapid.T) tweakCase {
	sk := genSecret(t, "sk")
	p, podd := ec.XOnlyPubKey(sk)
	tw := b32(genScalarN(t, "tweak"))
	if rapid.IntRange(0, 9).Draw(t, "tw0") == 0 {
		tw = b32(new(big.Int).SetInt64(int64(rapid.IntRange(0, 2).Draw(t, "small"))))
	}
	kinds := []string{"valid", "wrong_parity", "bitflip_q", "bitflip_p", "bitflip_t", "tweak_plus_n", "tweak_special", "p_x_plus_p", "p_unliftable", "p_special", "result_infinity", "p_special_y"}
	kind := rapid.SampledFrom(kinds).Draw(t, "kind")
	mk := func(kind string, q []byte, par bool, p, tw []byte) tweakCase {
		return tweakCase{Kind: kind, Q: hx(q), P: hx(p), T: hx(tw), Parity: par}
	}
	q, par, ok := ec.TweakAdd(p, tw)
	if !ok {
		q, par = make([]byte, 32), false
	}
	switch kind {
	case "valid":
		return mk(kind, q, par, p, tw)
	case "wrong_parity":
		return mk(kind, q, !par, p, tw)
	case "bitflip_q":
		return mk(kind, flipBit(t, q, "bit"), par, p, tw)
	case "bitflip_p":
		return mk(kind, q, par, flipBit(t, p, "bit"), tw)
	case "bitflip_t":
		return mk(kind, q, par, p, flipBit(t, tw, "bit"))
	case "tweak_plus_n": // same residue, not a valid tweak (BIP341: t >= n fails)
		small := new(big.Int).SetBytes(rapid.SliceOfN(rapid.Byte(), 16, 16).Draw(t, "t128"))
		q2, par2, _ := ec.TweakAdd(p, b32(small))
		return mk(kind, q2, par2, p, b32(new(big.Int).Add(small, bigN)))
	case "tweak_special":
		sp := []*big.Int{big.NewInt(0), new(big.Int).Sub(bigN, one), new(big.Int).Set(bigN), new(big.Int).Add(bigN, one), new(big.Int).Sub(pow2(256), one)}
		v := sp[rapid.IntRange(0, len(sp)-1).Draw(t, "sp")]
		q2, par2, ok2 := ownTweak(p, b32(v))
		if !ok2 {
			q2, par2 = q, par
		}
		return mk(kind, q2, par2, p, b32(v))
	case "p_x_plus_p":
		pt := tinyX[rapid.IntRange(0, len(tinyX)-1).Draw(t, "tiny")]
		q2, par2, _ := ec.TweakAdd(b32(pt.X), tw)
		return mk(kind, q2, par2, b32(new(big.Int).Add(pt.X, bigP)), tw)
	case "p_special_y": // internal key whose even-Y lift is a special square root
		pt := specialYPoint(t)
		q2, par2, _ := ec.TweakAdd(b32(pt.X), tw)
		if rapid.IntRange(0, 3).Draw(t, "wrongpar") == 0 {
			par2 = !par2
		}
		return mk(kind, q2, par2, b32(pt.X), tw)
	case "p_unliftable":
		x := new(big.Int).SetBytes(p)
		for {
			if _, ok := ec.LiftX(x); !ok {
				break
			}
			x = modP(x.Add(x, one))
		}
		q2, par2, ok2 := ownTweak(b32(x), tw)
		if !ok2 {
			q2, par2 = q, par
		}
		return mk(kind, q2, par2, b32(x), tw)
	case "p_special":
		sp := []*big.Int{big.NewInt(0), new(big.Int).Set(bigP), new(big.Int).Sub(pow2(256), one), new(big.Int).Sub(bigP, one), big.NewInt(5)}
		v := b32(sp[rapid.IntRange(0, len(sp)-1).Draw(t, "sp")])
		q2, par2, ok2 := ownTweak(v, tw)
		if !ok2 {
			q2, par2 = q, par
		}
		return mk(kind, q2, par2, v, tw)
	default: // result_infinity: t = -d (d adjusted to the even-y key)
		d := new(big.Int).SetBytes(sk)
		if podd {
			d.Sub(bigN, d)
		}
		return mk(kind, q, rapid.Bool().Draw(t, "par"), p, b32(modN(new(big.Int).Neg(d))))
	}
}

func TestTweakCheck(t *testing.T) {
	pbt.Check(t, pbt.Cfg{Name: "tweak_check", Quick: 24000, Thorough: 640000}, func(r *pbt.Run) {
		c := genTweakCase(r.T)
		r.Case(c)
		r.Class(c.Kind)
		want, err := checkTweak(c)
		if want {
			r.Class("ref_accepts")
		} else {
			r.Class("ref_refuses")
		}
		if c.Kind != "valid" {
			r.NonTrivial()
		}
		if err != nil {
			r.Failf("%v", err)
		}
	})
}

// ---------------------------------------------------------------------------------------------
// the library's own signers

type signCase struct {
	Sk  string `json:"sk"`
	Msg string `json:"msg"`
	Aux string `json:"aux"`
}

func checkSigners(c signCase) error {
	sk, msg, aux := unhex(c.Sk), unhex(c.Msg), unhex(c.Aux)
	d := new(big.Int).SetBytes(sk)
	if len(sk) != 32 || len(msg) != 32 || len(aux) != 32 || d.Sign() == 0 || d.Cmp(bigN) >= 0 {
		return nil
	}
	Q := ec.BaseMul(d)
	z := new(big.Int).SetBytes(msg)

	judge := func(mode string, r, s *big.Int) error {
		if !ec.ECDSAVerifyRaw(Q, r, s, z) {
			return fmt.Errorf("EcdsaSign[%s](sk=%x, msg=%x) = (%x, %x) does not verify", mode, sk, msg, r, s)
		}
		if s.Cmp(ec.HalfN) > 0 {
			return fmt.Errorf("EcdsaSign[%s](sk=%x, msg=%x): S = %x is above n/2", mode, sk, msg, s)
		}
		var sig btc.Signature
		sig.R.Set(r)
		sig.S.Set(s)
		sig.HashType = 1
		enc := sig.Bytes()
		if !ec.IsStrictDER(enc) || !ec.IsLowDERSignature(enc) || !bytes.Equal(enc[:len(enc)-1], ec.EncodeDER(r, s)) {
			return fmt.Errorf("EcdsaSign[%s](sk=%x, msg=%x): encoding %x is not the canonical DER of (r,s)", mode, sk, msg, enc)
		}
		if !btc.EcdsaVerify(ec.SerializeCompressed(Q), enc[:len(enc)-1], msg) {
			return fmt.Errorf("EcdsaSign[%s](sk=%x, msg=%x): own signature %x refused by EcdsaVerify", mode, sk, msg, enc)
		}
		// recovery: exactly the id implied by the signature gives the signer's key.  In the
		// deterministic mode all four ids are compared with the reference, in the random mode the
		// ids up to the right one.
		right := -1
		for id := 0; id < 4; id++ {
			want, wok := ec.Recover(r, s, z, id)
			key := sig.RecoverPublicKey(msg, id)
			var got ec.Point
			gok := key != nil
			if gok {
				kb := key.Bytes(false)
				got = ec.Point{X: new(big.Int).SetBytes(kb[1:33]), Y: new(big.Int).SetBytes(kb[33:])}
			}
			if gok != wok || gok && !got.Equal(want) {
				return fmt.Errorf("RecoverPublicKey(r=%x, s=%x, msg=%x, recid=%d): got ok=%v %x, reference ok=%v %s; signer's key is %s", r, s, msg, id, gok, keyBytes(key), wok, ptStr(want), ptStr(Q))
			}
			if wok && want.Equal(Q) {
				if right >= 0 {
					return fmt.Errorf("harness: two recovery ids give the signer's key")
				}
				right = id
				if mode == "random" {
					break
				}
			}
		}
		if right < 0 {
			return fmt.Errorf("harness: reference recovery finds no id for (%x,%x)", r, s)
		}
		return nil
	}

	// random-nonce mode
	btc.EcdsaSignWithRFC6979 = false
	r, s, err := btc.EcdsaSign(sk, msg)
	if err != nil {
		return fmt.Errorf("EcdsaSign[random](sk=%x, msg=%x) fails: %v", sk, msg, err)
	}
	if err := judge("random", new(big.Int).Set(r), new(big.Int).Set(s)); err != nil {
		return err
	}
	// deterministic mode
	btc.EcdsaSignWithRFC6979 = true
	r, s, err = btc.EcdsaSign(sk, msg)
	btc.EcdsaSignWithRFC6979 = false
	if err != nil {
		return fmt.Errorf("EcdsaSign[rfc6979](sk=%x, msg=%x) fails: %v", sk, msg, err)
	}
	r, s = new(big.Int).Set(r), new(big.Int).Set(s)
	if err := judge("rfc6979", r, s); err != nil {
		return err
	}
	if z.Cmp(bigN) < 0 { // for larger messages RFC 6979 and libsecp256k1 legitimately differ
		wr, ws, _ := ec.SignRFC6979(sk, msg)
		if wr.Cmp(r) != 0 || ws.Cmp(s) != 0 {
			return fmt.Errorf("EcdsaSign[rfc6979](sk=%x, msg=%x) = (%x, %x), RFC 6979 gives (%x, %x)", sk, msg, r, s, wr, ws)
		}
	}
	// Signature.Sign with an explicit nonce reports the recovery id
	{
		k := modN(new(big.Int).SetBytes(ec.TaggedHash("verif/nonce", sk, msg, aux)))
		if k.Sign() != 0 {
			wr, ws, wid, ok := ec.SignWithNonce(d, z, k)
			var sg secp256k1.Signature
			var xs, xm, xk secp256k1.Number
			xs.Set(d)
			xm.Set(z)
			xk.Set(k)
			recid := -1
			ret := sg.Sign(&xs, &xm, &xk, &recid)
			if ok != (ret == 1) {
				return fmt.Errorf("Signature.Sign(sk=%x, msg=%x, k=%x) returns %d, reference ok=%v", sk, msg, k, ret, ok)
			}
			if ok && (sg.R.Cmp(wr) != 0 || sg.S.Cmp(ws) != 0 || recid != wid) {
				return fmt.Errorf("Signature.Sign(sk=%x, msg=%x, k=%x) = (%x, %x, recid %d), reference (%x, %x, recid %d)", sk, msg, k, &sg.R.Int, &sg.S.Int, recid, wr, ws, wid)
			}
		}
	}
	// BIP340
	got := secp256k1.SchnorrSign(msg, sk, aux)
	want := ec.SchnorrSign(sk, msg, aux)
	if !bytes.Equal(got, want) {
		return fmt.Errorf("SchnorrSign(msg=%x, sk=%x, aux=%x) = %x, BIP340 gives %x", msg, sk, aux, got, want)
	}
	pk, _ := ec.XOnlyPubKey(sk)
	if !ec.SchnorrVerify(pk, msg, got) || !btc.SchnorrVerify(pk, got, msg) {
		return fmt.Errorf("SchnorrSign(msg=%x, sk=%x, aux=%x) = %x does not verify", msg, sk, aux, got)
	}
	return nil
}

func ptStr(p ec.Point) string {
	if p.Inf {
		return "infinity"
	}
	return fmt.Sprintf("(%x,%x)", p.X, p.Y)
}

func keyBytes(k *btc.PublicKey) []byte {
	if k == nil {
		return nil
	}
	return k.Bytes(true)
}

func TestSigners(t *testing.T) {
	pbt.Check(t, pbt.Cfg{Name: "signers", Quick: 4400, Thorough: 120000}, func(r *pbt.Run) {
		c := signCase{Sk: hx(genSecret(r.T, "sk")), Msg: hx(genMsg(r.T, "msg")), Aux: hx(rapid.SliceOfN(rapid.Byte(), 32, 32).Draw(r.T, "aux"))}
		r.Case(c)
		z := new(big.Int).SetBytes(unhex(c.Msg))
		switch {
		case z.Cmp(bigN) >= 0:
			r.Class("msg_ge_n")
		case z.Sign() == 0:
			r.Class("msg_zero")
		default:
			r.Class("msg_lt_n")
		}
		if strings.HasPrefix(c.Sk, "000000000000000000000000000000") || strings.HasPrefix(c.Sk, "fffffffffffffffffffffffffffffffe") {
			r.Class("sk_edge")
		}
		r.NonTrivial()
		if err := checkSigners(c); err != nil {
			r.Failf("%v", err)
		}
	})
}
