package c06

import (
	"encoding/json"
	"testing"

	"verif/env"
	"verif/pbt"
	"verif/sim"
)

func TestMain(m *testing.M) {
	env.Quiet()
	pbt.RegisterReplay("tree", func(raw json.RawMessage) error {
		var c sim.Case
		if err := json.Unmarshal(raw, &c); err != nil {
			return err
		}
		s, err := sim.RunCase(c, env.Options{}, sim.Hooks{})
		if s != nil {
			s.Close()
		}
		return err
	})
	pbt.Main(m, "C06")
}

var profile = sim.Profile{
	Forks:      true,
	Viols:      []string{"bad_script", "dup_in_block", "spent_earlier", "missing_txid", "in_below_out", "cb_overclaim", "later_output"},
	ViolPct:    12,
	MaxTx:      5,
	MinOps:     10,
	MaxOps:     60,
	Prefixes:   []int{0, 100, 101, 102, 105, 110},
	IdlePct:    5,
	RedelivPct: 2,
	Signed:     true,
}

func TestTree(t *testing.T) {
	p := profile
	if pbt.Tier() == "thorough" {
		p.Retarget = true
		p.MaxTx, p.MaxOps = 12, 120
	}
	pbt.Check(t, pbt.Cfg{Name: "tree", Quick: 1500, Thorough: 40000}, func(r *pbt.Run) {
		c := sim.GenCase(r.T, p)
		r.Case(c)
		s, err := sim.RunCaseOpen(c, env.Options{}, sim.Hooks{}, pbt.FindingOpen)
		if s != nil {
			defer s.Close()
			if s.Reorgs > 0 {
				r.NonTrivial()
				r.Class("reorg")
			}
			if s.FailedReorgs > 0 {
				r.Class("failed_reorg")
			}
			if s.Ties > 0 {
				r.Class("tie")
			}
			if s.TxBlocks > 0 {
				r.Class("has_tx_block")
			}
			pbt.AddExtra("reorgs", int64(s.Reorgs))
			pbt.AddExtra("failed_reorgs", int64(s.FailedReorgs))
			pbt.AddExtra("ties", int64(s.Ties))
			pbt.AddExtra("blocks_accepted", int64(s.Accepted))
		}
		if s != nil {
			for _, k := range s.ExcludedKeys {
				r.Excluded(k)
			}
		}
		if x, ok := err.(*sim.Excluded); ok {
			r.Excluded(x.Key)
			return
		}
		if err != nil {
			r.Failf("%v", err)
		}
	})
}
