package c06

import (
	"encoding/json"
	"fmt"
	"os"
	"path/filepath"
	"sync"
	"testing"

	"pgregory.net/rapid"

	"verif/env"
	"verif/pbt"
	"verif/sim"
)

func TestMain(m *testing.M) {
	env.Quiet()
	env.UseClientAllocator() // records live in the client's recycling allocator, as in the running node
	pbt.RegisterReplay("tree", func(raw json.RawMessage) error {
		var c sim.Case
		if err := json.Unmarshal(raw, &c); err != nil {
			return err
		}
		s, err := sim.RunCase(c, optsFor(c), sim.Hooks{})
		if s != nil {
			s.Close()
		}
		return err
	})
	pbt.RegisterReplay("retarget_forks", func(raw json.RawMessage) error {
		var c sim.Case
		if err := json.Unmarshal(raw, &c); err != nil {
			return err
		}
		s, err := runOnTemplate(c, nil)
		if s != nil {
			s.Close()
		}
		return err
	})
	pbt.RegisterReplay("testnet_forks", func(raw json.RawMessage) error {
		var c sim.Case
		if err := json.Unmarshal(raw, &c); err != nil {
			return err
		}
		s, err := runOnTemplate(c, nil)
		if s != nil {
			s.Close()
		}
		return err
	})
	pbt.Main(m, "C06")
}

// ---------------------------------------------------------------------------------------------
// Forks that straddle a retarget: a longer-but-lighter branch against a shorter-but-heavier one.
// The 2011..2014-block base is mined once per process into a template directory; each case works on
// a copy (the model replays the base without the node).

var (
	tmplMu sync.Mutex
	tmpls  = map[string]string{}
)

func copyDir(src, dst string) error {
	return filepath.Walk(src, func(p string, info os.FileInfo, err error) error {
		if err != nil {
			return err
		}
		rel, _ := filepath.Rel(src, p)
		t := filepath.Join(dst, rel)
		if info.IsDir() {
			return os.MkdirAll(t, 0o770)
		}
		b, err := os.ReadFile(p)
		if err != nil {
			return err
		}
		return os.WriteFile(t, b, 0o660)
	})
}

func runOnTemplate(c sim.Case, open func(string) bool) (*sim.Sim, error) {
	key := fmt.Sprintf("%+v", c.Params)
	tmplMu.Lock()
	tm, ok := tmpls[key]
	if !ok {
		d, err := os.MkdirTemp("", "c06tmpl")
		if err != nil {
			tmplMu.Unlock()
			return nil, err
		}
		base := sim.Case{Params: c.Params}
		s, err := sim.RunCaseCfg(base, env.Options{}, sim.Hooks{}, nil, sim.Config{Dir: d})
		if err != nil {
			tmplMu.Unlock()
			return s, fmt.Errorf("building the base chain: %v", err)
		}
		s.Node.Ch.Idle()
		s.WaitSnapshot()
		s.Close()
		tmpls[key], tm = d, d
	}
	tmplMu.Unlock()
	work, err := os.MkdirTemp("", "c06run")
	if err != nil {
		return nil, err
	}
	dir := filepath.Join(work, "d")
	if err := copyDir(tm, dir); err != nil {
		os.RemoveAll(work)
		return nil, err
	}
	s, err := sim.RunCaseCfg(c, env.Options{}, sim.Hooks{}, open, sim.Config{Dir: dir, AssumePrefix: true})
	// the chain must be shut down before its directory goes away
	if s != nil && s.Node != nil {
		s.Node.Close()
	}
	os.RemoveAll(work)
	return s, err
}

type combo struct {
	prefix  int
	spacing uint32
}

var combos = []combo{{2013, 150}, {2012, 600}, {2014, 300}, {2011, 2400}, {2013, 149}, {2012, 151}}

func genRetargetForks(t *rapid.T) sim.Case {
	sh, _ := pbt.Shard()
	cb := combos[sh%len(combos)]
	c := sim.Case{Params: sim.ParamSpec{BIP34: 1, BIP65: 1, BIP66: 1, CSV: 1, Segwit: 1, Taproot: 1,
		Prefix: cb.prefix, Spacing: cb.spacing, PowBits: 0x207fffff}}
	blk := func(parent int, step uint32) sim.Op {
		op := sim.GenOp(t, sim.Profile{MaxTx: 2})
		op.Kind, op.Parent, op.Viol, op.Hold, op.Step = "block", parent, "", false, step
		return op
	}
	year := uint32(31536000)
	jump := uint32(rapid.IntRange(1, 4).Draw(t, "years"))*year + uint32(rapid.IntRange(0, 100000).Draw(t, "secs"))
	// branch B: long, its window ends years later (easy target after the boundary)
	nB := rapid.IntRange(3, 8).Draw(t, "nB")
	for i := 0; i < nB; i++ {
		st := cb.spacing
		if i == 0 {
			st = jump
		}
		c.Ops = append(c.Ops, blk(-1, st))
	}
	// branch A from the fork point: short, regular spacing (hard target after the boundary)
	nA := rapid.IntRange(2, nB).Draw(t, "nA")
	for i := 0; i < nA; i++ {
		parent := -2
		if i == 0 {
			parent = nB
		}
		c.Ops = append(c.Ops, blk(parent, cb.spacing))
	}
	// and some free play on top
	p := profile
	p.Prefixes = nil
	for i, n := 0, rapid.IntRange(0, 8).Draw(t, "extra"); i < n; i++ {
		op := sim.GenOp(t, p)
		if op.Kind == "block" && rapid.IntRange(0, 3).Draw(t, "regular") != 0 {
			op.Step = cb.spacing
		}
		c.Ops = append(c.Ops, op)
	}
	return c
}

// Forks on a TEST NETWORK behind a retarget that made the target harder than the limit: a block more than 20 minutes
// after its parent is a minimum-difficulty block, any other one carries the real target, so the branches of a fork mix
// blocks of two difficulties - and the branch with the most work is often not the one with the most blocks, nor the one
// whose last block is the heaviest.
func genTestnetForks(t *rapid.T) sim.Case {
	sh, _ := pbt.Shard()
	fast := []combo{{2013, 150}, {2014, 300}, {2013, 149}, {2012, 151}}
	cb := fast[sh%len(fast)]
	c := sim.Case{Params: sim.ParamSpec{BIP34: 1, BIP65: 1, BIP66: 1, CSV: 1, Segwit: 1, Taproot: 1,
		Prefix: cb.prefix, Spacing: cb.spacing, PowBits: 0x207fffff, Testnet: true}}
	blk := func(parent int, step uint32) sim.Op {
		op := sim.GenOp(t, sim.Profile{MaxTx: 2})
		op.Kind, op.Parent, op.Viol, op.Hold, op.Step = "block", parent, "", false, step
		return op
	}
	// across the boundary with regular blocks (the retarget makes the target 2..4 times harder)
	for i, n := 0, 2016-cb.prefix+rapid.IntRange(0, 2).Draw(t, "beyond"); i < n; i++ {
		c.Ops = append(c.Ops, blk(-1, cb.spacing))
	}
	steps := []uint32{300, 600, 1199, 1200, 1201, 1500, 2400}
	p := profile
	p.Prefixes, p.Viols, p.ViolPct = nil, nil, 0
	for i, n := 0, rapid.IntRange(5, 16).Draw(t, "n"); i < n; i++ {
		op := sim.GenOp(t, p)
		if op.Kind == "block" {
			op.Step = rapid.SampledFrom(steps).Draw(t, "step")
		}
		c.Ops = append(c.Ops, op)
	}
	return c
}

func TestTestnetForks(t *testing.T) {
	pbt.Check(t, pbt.Cfg{Name: "testnet_forks", Quick: 96, Thorough: 1600}, func(r *pbt.Run) {
		c := genTestnetForks(r.T)
		r.Case(c)
		s, err := runOnTemplate(c, pbt.FindingOpen)
		if s != nil {
			defer s.Close()
			for _, k := range s.ExcludedKeys {
				r.Excluded(k)
			}
			mixed := map[uint32]bool{}
			for _, n := range s.Nodes {
				if int(n.Idx.Height) > 2016 {
					mixed[n.Idx.Header.Bits] = true
				}
			}
			if len(mixed) > 1 {
				r.Class("blocks_of_two_difficulties_behind_the_retarget")
			}
			if s.Reorgs > 0 {
				r.Class("reorg")
				if len(mixed) > 1 {
					r.NonTrivial()
				}
			}
			for _, l := range s.Labels {
				if l == "reorg-to-shorter-branch" {
					r.Class("reorg_to_shorter_heavier_branch")
					break
				}
			}
			if s.NearTies > 0 {
				r.Class("near_tie")
			}
		}
		if x, ok := err.(*sim.Excluded); ok {
			r.Excluded(x.Key)
			return
		}
		if err != nil {
			r.Failf("%v", err)
		}
	})
}

func TestRetargetForks(t *testing.T) {
	pbt.Check(t, pbt.Cfg{Name: "retarget_forks", Quick: 96, Thorough: 1600}, func(r *pbt.Run) {
		c := genRetargetForks(r.T)
		r.Case(c)
		s, err := runOnTemplate(c, pbt.FindingOpen)
		if s != nil {
			defer s.Close()
			for _, k := range s.ExcludedKeys {
				r.Excluded(k)
			}
			if s.Reorgs > 0 {
				r.Class("reorg")
				r.NonTrivial()
			}
			// a reorganisation onto a branch with fewer blocks
			shorter := false
			for _, l := range s.Labels {
				if l == "reorg-to-shorter-branch" {
					shorter = true
				}
			}
			if shorter {
				r.Class("reorg_to_shorter_heavier_branch")
			}
			if s.NearTies > 0 {
				r.Class("near_tie")
			}
			pbt.AddExtra("retarget_reorgs", int64(s.Reorgs))
		}
		if x, ok := err.(*sim.Excluded); ok {
			r.Excluded(x.Key)
			return
		}
		if err != nil {
			r.Failf("%v", err)
		}
	})
}

var profile = sim.Profile{
	Forks:        true,
	Viols:        []string{"bad_script", "dup_in_block", "spent_earlier", "missing_txid", "in_below_out", "cb_overclaim", "later_output"},
	ViolPct:      12,
	MaxTx:        5,
	MinOps:       10,
	MaxOps:       60,
	Prefixes:     []int{0, 100, 101, 102, 105, 110},
	IdlePct:      5,
	RedelivPct:   2,
	Signed:       true,
	UnwindWindow: true,
}

// optsFor: half of the histories run with a block cache of only 2, 3 or 5 blocks (a fixed function of the history,
// so that a replay uses the same), so that blocks fall out of the cache while they are still waiting to be written
// and reorganisations reach below what is cached.
func optsFor(c sim.Case) env.Options {
	o := env.Options{MaxCached: []int{0, 0, 0, 2, 3, 5}[(len(c.Ops)+c.Params.Prefix)%6]}
	if (len(c.Ops)/2+c.Params.Prefix)%2 == 1 { // UTXO callbacks installed, as in the client while its wallet is on
		o.UTXOCallbacks = env.ObserverCallbacks()
	}
	return o
}

func TestTree(t *testing.T) {
	p := profile
	if pbt.Tier() == "thorough" {
		p.Retarget = true
		p.MaxTx, p.MaxOps = 12, 120
	}
	pbt.Check(t, pbt.Cfg{Name: "tree", Quick: 1500, Thorough: 8000}, func(r *pbt.Run) {
		c := sim.GenCase(r.T, p)
		wide := rapid.IntRange(0, 9).Draw(r.T, "wide") == 0 && sim.AddWideBlock(r.T, &c)
		r.Case(c)
		s, err := sim.RunCaseOpen(c, optsFor(c), sim.Hooks{}, pbt.FindingOpen)
		if wide {
			r.Class("block_spending_31..67_distinct_transactions")
		}
		if optsFor(c).MaxCached != 0 {
			r.Class("block_cache_of_2..5_blocks")
		}
		if s != nil {
			defer s.Close()
			if s.Reorgs > 0 {
				r.NonTrivial()
				r.Class("reorg")
				if b := c.Params.Base; b > 2000 && b < 3000 && s.Tip.Idx.Height > 2561 {
					r.Class("reorg_while_undo_files_leave_the_unwind_window")
				}
			}
			if s.FailedReorgs > 0 {
				r.Class("failed_reorg")
			}
			if s.Ties > 0 {
				r.Class("tie")
			}
			if s.TxBlocks > 0 {
				r.Class("has_tx_block")
			}
			pbt.AddExtra("reorgs", int64(s.Reorgs))
			pbt.AddExtra("failed_reorgs", int64(s.FailedReorgs))
			pbt.AddExtra("ties", int64(s.Ties))
			pbt.AddExtra("blocks_accepted", int64(s.Accepted))
		}
		if s != nil {
			for _, k := range s.ExcludedKeys {
				r.Excluded(k)
			}
		}
		if x, ok := err.(*sim.Excluded); ok {
			r.Excluded(x.Key)
			return
		}
		if err != nil {
			r.Failf("%v", err)
		}
	})
}
