package c12

// C12: the mempool (client/txpool) stays conflict-free, spendable and internally consistent under any
// history of submissions, block connections / disconnections, expiry, eviction and save / reload, and a
// block assembled from its fee-ordered listing is accepted by the node's own block validation.
//
// A case is a pure-data history (Case).  Block operations are executed by the shared model-based engine
// (verif/sim: real gocoin chain + reference model in lock-step); the mempool operations are executed here
// against the real client/txpool package wired to that chain the way client/main.go does it.  After every
// step the invariants of the property are recomputed from scratch over the exported maps (oracle_test.go),
// with the MODEL's unspent set as the ground truth for "unspent confirmed output".

import (
	"encoding/json"
	"testing"

	"pgregory.net/rapid"
	"verif/env"
	"verif/pbt"
	"verif/sim"
)

// PoolCfg: the TXPool settings of a history.
type PoolCfg struct {
	MaxPoolKB   int  `json:"max_pool_kb,omitempty"`  // 0: the default 500 MB; else the size limit in KB (verif hook)
	NotFullRBF  bool `json:"not_full_rbf,omitempty"` // CFG.TXPool.NotFullRBF
	NoMemInputs bool `json:"no_mem_inputs,omitempty"`
	Ring        int  `json:"ring,omitempty"`         // CFG.TXPool.RejectRecCnt (>= 100)
	MaxNoUtxoB  int  `json:"max_noutxo_b,omitempty"` // 0: default; else common.MaxNoUtxoSizeBytes
	MaxRejectB  int  `json:"max_reject_b,omitempty"` // 0: default; else common.MaxRejectedSizeBytes
}

// InSel selects one input of a generated transaction (resolved modulo the state at execution time).
//
//	Src 0 confirmed, mature, not spent by the pool     1 output of a pooled tx, not spent by the pool
//	    2 confirmed, spent by a pooled tx (conflict)    3 output of a pooled tx spent by another pooled tx
//	    4 output of a withheld tx or of an orphan       5 unknown txid
//	    6 immature coinbase                             7 outpoint already spent by the active chain
//	    8 repeat an earlier input of this transaction   9 output of a pooled tx this transaction conflicts with
//	   10 txid sharing only the first 8 bytes with a pooled / withheld tx
//	   11 output index that a withheld tx does not have
//	   12 the confirmed output whose pooled spender has the most descendants
type InSel struct {
	Src int `json:"src,omitempty"`
	Sel int `json:"sel,omitempty"`
	Seq int `json:"seq,omitempty"` // 0: 0xffffffff, 1: 0xfffffffe, 2: 0xfffffffd, 3..8: BIP68 relative locks (exec_test.go sequenceFor)
}

type TxSpec struct {
	Ins   []InSel       `json:"ins"`
	Outs  []sim.OutSpec `json:"outs,omitempty"`
	Rate  int           `json:"rate,omitempty"` // index into the fee-rate table (sat per 1000 vbytes)
	Rel   int           `json:"rel,omitempty"`  // fee relative to the conflicting set: 1 below, 2 at, 3 just above the replacement threshold, 4 double
	Lock  int           `json:"lock,omitempty"` // 0 none, 1/2 final by height/time, 3..6 not final, 7 future lock but all sequences final
	Ver   int           `json:"ver,omitempty"`
	Bad   string        `json:"bad,omitempty"`    // "", "script", "overspend"
	PadKB int           `json:"pad_kb,omitempty"` // extra OP_RETURN output of that many KB (eviction tests)
}

// Op is one step of a history.
//
//	blk      a block operation of the shared engine (sim.Op: block / deliver / idle); Net wraps it the way
//	         the network path does (BlockCommitInProgress)
//	submit   build Tx and submit it: Path 0 peer, 1 local (usif.LoadRawTx), 2 trusted peer
//	hold     build Tx, do not submit it (a parent that arrives later, or never)
//	release  submit withheld transaction number Pick
//	resend   submit transaction number Pick of everything built so far once more
//	chain    N transactions, each spending the previous one (Tx describes the first)
//	flood    N padded transactions (eviction)
//	mine     assemble a block from the listing and deliver it: Arg bit0 GetSortedMempool instead of ..RBF,
//	         bit1 add unknown transactions, bit2 add transactions conflicting with pooled ones that stay
//	         outside, bit3 (with bit1) also a spender of an output of the withheld parent it includes;
//	         N > 0 limits the weight budget to N*600
//	tick     Tick(); N pooled transactions (starting at Pick) get Lastseen back-dated by 15 days (Arg bit1:
//	         13 days), Arg bit0 forces the expiry scan; Ring > 0 changes CFG.TXPool.RejectRecCnt first
//	ladder   N consecutive insertions into one gap of the rank-ordered list (see ladder_test.go)
//	sigflood one tx with N sig-op-heavy outputs (Arg: P2SH / P2WSH / P2SH-P2WSH), then N spends through Path
//	deepreorg  a branch of empty blocks replaces the last 101+Arg blocks (deeper than the coinbase maturity)
//	save     MempoolSave(true) + MempoolLoad(); Arg bit0: with a restart of the chain in between; Fault/Off: the
//	         file is damaged in between (truncated at a drawn offset, a verifiable byte flipped, removed)
type Op struct {
	K     string  `json:"k"`
	Blk   *sim.Op `json:"blk,omitempty"`
	Net   bool    `json:"net,omitempty"`
	Tx    *TxSpec `json:"tx,omitempty"`
	Path  int     `json:"path,omitempty"`
	Pick  int     `json:"pick,omitempty"`
	N     int     `json:"n,omitempty"`
	Arg   int     `json:"arg,omitempty"`
	Ring  int     `json:"ring,omitempty"`
	DT    int     `json:"dt,omitempty"`
	Fault int     `json:"fault,omitempty"` // save: damage the file between save and load: 1 truncate, 2 flip a byte, 3 remove
	Off   int     `json:"off,omitempty"`   // save: where (see faultFile)
	NoL   bool    `json:"nol,omitempty"`   // do not evaluate GetSortedMempoolRBF after this step (it rebuilds lists and packages)
}

type Case struct {
	Params sim.ParamSpec `json:"params"`
	Cfg    PoolCfg       `json:"cfg"`
	Ops    []Op          `json:"ops"`
}

func TestMain(m *testing.M) {
	env.Quiet()
	pbt.RegisterReplay("mempool", func(raw json.RawMessage) error {
		var c Case
		if err := json.Unmarshal(raw, &c); err != nil {
			return err
		}
		_, err := runCase(c)
		return err
	})
	pbt.Main(m, "C12")
}

// ---------------------------------------------------------------------------------------------
// generator

func genOuts(t *rapid.T, signed bool) []sim.OutSpec {
	n := rapid.IntRange(1, 3).Draw(t, "nout")
	var outs []sim.OutSpec
	for i := 0; i < n; i++ {
		fam := rapid.IntRange(0, 8).Draw(t, "fam")
		switch rapid.IntRange(0, 9).Draw(t, "famsel") {
		case 0, 1, 2, 3:
			fam = 0 // OP_TRUE: cheap, keeps chains going
		case 4, 5:
			if signed {
				fam = rapid.IntRange(9, 12).Draw(t, "sfam")
			}
		case 6: // redeem / witness scripts with many sig-ops (P2SH, P2WSH, P2SH-P2WSH)
			fam = rapid.IntRange(13, 15).Draw(t, "hfam")
		}
		outs = append(outs, sim.OutSpec{Fam: fam, Share: rapid.IntRange(0, 99).Draw(t, "share"), N: rapid.IntRange(0, 5).Draw(t, "n")})
	}
	return outs
}

func genIn(t *rapid.T, src int) InSel {
	return InSel{Src: src, Sel: rapid.IntRange(0, 1<<12).Draw(t, "sel"), Seq: rapid.SampledFrom([]int{0, 0, 0, 1, 1, 2, 2, 2, 2, 2, 3, 3, 4, 5, 6, 6, 7, 8}).Draw(t, "seq")}
}

// genTx draws a transaction of a given flavour.
func genTx(t *rapid.T, signed bool) *TxSpec {
	ts := &TxSpec{Outs: genOuts(t, signed), Rate: rapid.IntRange(0, len(feeRates)-1).Draw(t, "rate")}
	k := rapid.IntRange(0, 99).Draw(t, "flavour")
	switch {
	case k < 22: // plain spend of confirmed outputs
		ts.Ins = []InSel{genIn(t, 0)}
		if rapid.IntRange(0, 3).Draw(t, "two") == 0 {
			ts.Ins = append(ts.Ins, genIn(t, 0))
		}
	case k < 44: // child of a pooled transaction
		ts.Ins = []InSel{genIn(t, 1)}
	case k < 54: // diamond / mixed parents
		ts.Ins = []InSel{genIn(t, 1), genIn(t, rapid.SampledFrom([]int{1, 1, 0}).Draw(t, "src2"))}
		if rapid.IntRange(0, 2).Draw(t, "three") == 0 {
			ts.Ins = append(ts.Ins, genIn(t, rapid.SampledFrom([]int{1, 0}).Draw(t, "src3")))
		}
	case k < 70: // double spend of a confirmed output spent by the pool
		ts.Ins = []InSel{genIn(t, 2)}
		ts.Rel = rapid.SampledFrom([]int{0, 1, 2, 3, 3, 4, 4}).Draw(t, "rel")
		if rapid.IntRange(0, 3).Draw(t, "more") == 0 {
			ts.Ins = append(ts.Ins, genIn(t, rapid.SampledFrom([]int{0, 1, 2, 3}).Draw(t, "srcm")))
		}
	case k < 76: // double spend of a pooled output
		ts.Ins = []InSel{genIn(t, 3)}
		ts.Rel = rapid.SampledFrom([]int{0, 2, 3, 4, 4}).Draw(t, "rel")
	case k < 80: // replacement that also spends what it replaces
		ts.Ins = []InSel{genIn(t, rapid.SampledFrom([]int{2, 3}).Draw(t, "srcc")), genIn(t, 9)}
		ts.Rel = rapid.SampledFrom([]int{3, 4, 4}).Draw(t, "rel")
	case k < 85: // child of a withheld parent (orphan)
		ts.Ins = []InSel{genIn(t, rapid.SampledFrom([]int{4, 4, 4, 4, 11}).Draw(t, "srch"))}
		if rapid.IntRange(0, 2).Draw(t, "mix") == 0 {
			ts.Ins = append(ts.Ins, genIn(t, rapid.SampledFrom([]int{0, 1}).Draw(t, "srco")))
		}
	default: // invalid in some way
		ts.Ins = []InSel{genIn(t, rapid.SampledFrom([]int{0, 0, 1}).Draw(t, "srcb"))}
		switch rapid.IntRange(0, 11).Draw(t, "badkind") {
		case 10:
			ts.Bad = "novout"
		case 11:
			ts.Bad = "wrap"
		case 0:
			ts.Bad = "script"
		case 1:
			ts.Bad = "overspend"
		case 2:
			ts.Ins = append(ts.Ins, genIn(t, 5))
		case 3:
			ts.Ins = []InSel{genIn(t, 6)}
		case 4:
			ts.Ins = append(ts.Ins, genIn(t, 8))
		case 5:
			ts.Ins = []InSel{genIn(t, 7)}
		case 6:
			ts.Ins = append(ts.Ins, genIn(t, 10))
		case 7:
			ts.Ins = []InSel{genIn(t, 5)}
		default:
			ts.Lock = rapid.IntRange(3, 6).Draw(t, "nonfinal")
		}
	}
	if ts.Lock == 0 && rapid.IntRange(0, 7).Draw(t, "locksel") == 0 {
		ts.Lock = rapid.SampledFrom([]int{1, 2, 7}).Draw(t, "lock")
	}
	if rapid.IntRange(0, 9).Draw(t, "ver") == 0 {
		ts.Ver = 1
	}
	return ts
}

func genPath(t *rapid.T) int {
	return rapid.SampledFrom([]int{0, 0, 0, 0, 0, 1, 2, 2}).Draw(t, "path")
}

func genBlk(t *rapid.T, parent, maxTx int) Op {
	b := &sim.Op{Kind: "block", Parent: parent, DT: rapid.IntRange(0, 1199).Draw(t, "dt"), Arg: rapid.IntRange(0, 1<<12).Draw(t, "arg")}
	n := rapid.IntRange(0, maxTx).Draw(t, "ntx")
	for i := 0; i < n; i++ {
		ts := sim.GenTx(t)
		if ts.Seq == 1 || ts.Seq == 3 {
			// no relative lock times: gocoin does not implement BIP68 at all (open finding F9 of C04); a block
			// transaction with such a lock that returns to the pool and is mined again earlier than the lock
			// allows would only reproduce that finding
			ts.Seq = 2
		}
		b.Txs = append(b.Txs, ts)
	}
	return Op{K: "blk", Blk: b, Net: rapid.Bool().Draw(t, "net")}
}

func genCase(t *rapid.T, minOps, maxOps int) Case {
	c := Case{Params: sim.ParamSpec{BIP34: 1, BIP65: 1, BIP66: 1, CSV: 1, Segwit: 1, Taproot: 1}}
	c.Params.Prefix = rapid.SampledFrom([]int{103, 106, 110, 118}).Draw(t, "prefix")
	c.Params.Signed = rapid.IntRange(0, 3).Draw(t, "signed") != 0
	signed := c.Params.Signed
	c.Cfg.NotFullRBF = rapid.IntRange(0, 4).Draw(t, "notfullrbf") == 0
	c.Cfg.NoMemInputs = rapid.IntRange(0, 11).Draw(t, "nomeminputs") == 0
	c.Cfg.Ring = rapid.SampledFrom([]int{100, 100, 130, 400}).Draw(t, "ring")
	c.Cfg.MaxNoUtxoB = rapid.SampledFrom([]int{0, 0, 0, 700, 4000}).Draw(t, "noutxo")
	c.Cfg.MaxRejectB = rapid.SampledFrom([]int{0, 0, 0, 6000, 60000}).Draw(t, "maxrej")
	evict := rapid.IntRange(0, 7).Draw(t, "evict") == 0
	if evict {
		c.Cfg.MaxPoolKB = rapid.SampledFrom([]int{100, 250, 400}).Draw(t, "poolkb")
	}
	// one history in ten bisects a single gap of the rank-ordered list until the rank space in it is used up
	ladderAt := -1
	var ladderOp Op
	if rapid.IntRange(0, 9).Draw(t, "ladder") == 0 {
		ladderOp = Op{K: "ladder", N: rapid.IntRange(46, 62).Draw(t, "rungs"), Arg: rapid.IntRange(0, 7).Draw(t, "larg"), Pick: rapid.IntRange(0, 1<<12).Draw(t, "pick")}
		ladderAt = rapid.IntRange(0, 30).Draw(t, "ladderat")
		if ladderOp.Arg&2 == 0 {
			c.Params.Prefix = 172 // 70+ mature coinbases: every rung spends its own confirmed coin
		}
		c.Cfg.NoMemInputs = false
		c.Cfg.MaxPoolKB = 0
		evict = false
	}
	long := rapid.IntRange(0, 11).Draw(t, "longchain") == 0
	deep := rapid.IntRange(0, 15).Draw(t, "deep") == 0
	sigfl := rapid.IntRange(0, 11).Draw(t, "sigflood") == 0

	// mostly minOps..maxOps steps; the rare short form is what shrinking converges to
	n := 0
	if rapid.IntRange(0, 24).Draw(t, "short") == 0 {
		n = rapid.IntRange(1, minOps).Draw(t, "nops")
	} else {
		n = rapid.IntRange(minOps, maxOps).Draw(t, "nops")
	}
	for len(c.Ops) < n {
		if ladderAt >= 0 && len(c.Ops) >= ladderAt {
			c.Ops = append(c.Ops, ladderOp)
			ladderAt = -1
			continue
		}
		k := rapid.IntRange(0, 99).Draw(t, "kind")
		nol := rapid.IntRange(0, 3).Draw(t, "nol") == 0
		switch {
		case k < 52:
			c.Ops = append(c.Ops, Op{K: "submit", Tx: genTx(t, signed), Path: genPath(t), NoL: nol})
		case k < 56:
			ts := genTx(t, signed)
			ts.Bad, ts.Lock = "", 0
			c.Ops = append(c.Ops, Op{K: "hold", Tx: ts, NoL: nol})
		case k < 60:
			c.Ops = append(c.Ops, Op{K: "release", Pick: rapid.IntRange(0, 64).Draw(t, "pick"), Path: genPath(t), NoL: nol})
		case k < 63:
			c.Ops = append(c.Ops, Op{K: "resend", Pick: rapid.IntRange(0, 1<<12).Draw(t, "pick"), Path: genPath(t), NoL: nol})
		case k < 76:
			c.Ops = append(c.Ops, Op{K: "mine", Arg: rapid.IntRange(0, 15).Draw(t, "marg"), N: rapid.SampledFrom([]int{0, 0, 0, 1, 2, 4, 8}).Draw(t, "budget"),
				DT: rapid.IntRange(0, 1199).Draw(t, "dt"), Net: rapid.Bool().Draw(t, "net"), Pick: rapid.IntRange(0, 1<<12).Draw(t, "pick"), NoL: nol})
		case k < 81: // a block on the tip carrying transactions the pool does not know (some conflict with it)
			op := genBlk(t, -1, 3)
			op.NoL = nol
			c.Ops = append(c.Ops, op)
		case k < 87: // reorganisation: fork d blocks below the tip, then d more on the side branch
			d := rapid.SampledFrom([]int{1, 1, 1, 2, 2, 3}).Draw(t, "depth")
			first := genBlk(t, d, 2)
			c.Ops = append(c.Ops, first)
			for i := 0; i < d; i++ {
				op := genBlk(t, -2, 2)
				op.NoL = nol
				c.Ops = append(c.Ops, op)
			}
		case k < 91:
			c.Ops = append(c.Ops, Op{K: "tick", N: rapid.IntRange(0, 4).Draw(t, "nold"), Pick: rapid.IntRange(0, 1<<12).Draw(t, "pick"),
				Arg: rapid.IntRange(0, 3).Draw(t, "targ"), Ring: rapid.SampledFrom([]int{0, 0, 0, 100, 117, 300}).Draw(t, "ring"), NoL: nol})
		case k < 94:
			c.Ops = append(c.Ops, Op{K: "save", Arg: rapid.SampledFrom([]int{0, 0, 0, 1}).Draw(t, "sarg"), NoL: nol,
				Fault: rapid.SampledFrom([]int{0, 0, 0, 0, 0, 1, 1, 1, 1, 2, 3}).Draw(t, "fault"), Off: rapid.IntRange(0, 1<<20).Draw(t, "off")})
		case k < 97:
			if rapid.IntRange(0, 5).Draw(t, "idle") == 0 {
				c.Ops = append(c.Ops, Op{K: "blk", Blk: &sim.Op{Kind: "idle", Arg: rapid.IntRange(0, 1).Draw(t, "wait")}})
				break
			}
			// an orphan family: parent withheld, 1..3 descendants submitted, then the parent arrives (or is mined)
			ps := genTx(t, signed)
			ps.Bad, ps.Lock, ps.Rel = "", 0, 0
			ps.Ins = []InSel{genIn(t, rapid.SampledFrom([]int{0, 0, 1}).Draw(t, "psrc"))}
			c.Ops = append(c.Ops, Op{K: "hold", Tx: ps, NoL: nol})
			for i, nd := 0, rapid.IntRange(1, 3).Draw(t, "ndesc"); i < nd; i++ {
				ch := genTx(t, signed)
				ch.Bad, ch.Lock, ch.Rel = "", 0, 0
				ch.Ins = []InSel{genIn(t, 4)}
				if rapid.IntRange(0, 3).Draw(t, "mix") == 0 {
					ch.Ins = append(ch.Ins, genIn(t, rapid.SampledFrom([]int{0, 1}).Draw(t, "srco")))
				}
				c.Ops = append(c.Ops, Op{K: "submit", Tx: ch, Path: genPath(t), NoL: nol})
			}
			if rapid.IntRange(0, 3).Draw(t, "how") == 0 {
				c.Ops = append(c.Ops, Op{K: "mine", Arg: 2 | rapid.SampledFrom([]int{0, 0, 8}).Draw(t, "sp"), N: rapid.SampledFrom([]int{0, 1}).Draw(t, "budget"), Pick: 0, Net: rapid.Bool().Draw(t, "net")})
			} else {
				c.Ops = append(c.Ops, Op{K: "release", Pick: -1, Path: genPath(t)})
			}
		default:
			if sigfl {
				// more sig-op cost in the pool than a block may carry, admitted through one path, then a block
				c.Ops = append(c.Ops, Op{K: "sigflood", N: rapid.IntRange(15, 24).Draw(t, "nsig"), Arg: rapid.IntRange(0, 2).Draw(t, "sfam"),
					Path: rapid.SampledFrom([]int{0, 1, 2, 2}).Draw(t, "spath"), Pick: rapid.IntRange(0, 1<<12).Draw(t, "pick")})
				c.Ops = append(c.Ops, Op{K: "mine", Arg: rapid.SampledFrom([]int{0, 1}).Draw(t, "marg"), DT: rapid.IntRange(0, 1199).Draw(t, "dt"), Net: rapid.Bool().Draw(t, "net")})
				sigfl = false
				break
			}
			if deep && len(c.Ops) > 8 {
				// a reorganisation deeper than the coinbase maturity
				c.Ops = append(c.Ops, Op{K: "deepreorg", Arg: rapid.IntRange(0, 7).Draw(t, "darg"), DT: rapid.IntRange(0, 1199).Draw(t, "dt"), Net: rapid.Bool().Draw(t, "net")})
				deep = false
				break
			}
			if evict {
				ts := genTx(t, false)
				ts.Bad, ts.Lock, ts.Rel = "", 0, 0
				ts.PadKB = rapid.IntRange(60, 95).Draw(t, "pad")
				c.Ops = append(c.Ops, Op{K: "flood", Tx: ts, N: rapid.IntRange(4, 16).Draw(t, "nflood"), Path: genPath(t), Pick: rapid.IntRange(0, 1<<12).Draw(t, "pick")})
			} else if long {
				// more than 100 descendants, then something that replaces the root (trusted and local submissions
				// are not bound by the 100-transaction limit)
				ts := &TxSpec{Ins: []InSel{genIn(t, 0)}, Outs: []sim.OutSpec{{Fam: 0, Share: 98}, {Fam: 0, Share: 0}}, Rate: rapid.IntRange(1, 4).Draw(t, "rate")}
				c.Ops = append(c.Ops, Op{K: "chain", Tx: ts, N: rapid.IntRange(95, 115).Draw(t, "nchain"), Path: genPath(t)})
				rs := &TxSpec{Ins: []InSel{genIn(t, 12)}, Outs: genOuts(t, signed), Rel: rapid.SampledFrom([]int{2, 3, 4}).Draw(t, "rel")}
				c.Ops = append(c.Ops, Op{K: "submit", Tx: rs, Path: rapid.SampledFrom([]int{0, 1, 2, 2}).Draw(t, "rpath")})
				long = false
			} else {
				ts := genTx(t, signed)
				ts.Bad, ts.Lock, ts.Rel = "", 0, 0
				c.Ops = append(c.Ops, Op{K: "chain", Tx: ts, N: rapid.IntRange(2, 8).Draw(t, "nchain"), Path: genPath(t)})
			}
		}
	}
	return c
}

func TestMempool(t *testing.T) {
	minOps, maxOps := 25, 80
	if pbt.Tier() == "thorough" {
		minOps, maxOps = 50, 150
	}
	pbt.Check(t, pbt.Cfg{Name: "mempool", Quick: 1400, Thorough: 40000}, func(r *pbt.Run) {
		c := genCase(r.T, minOps, maxOps)
		r.Case(c)
		st, err := runCase(c)
		for _, cl := range st.classes() {
			r.Class(cl)
		}
		if st.parentChild || st.replaced > 0 {
			r.NonTrivial()
		}
		for _, k := range st.excluded {
			r.Excluded(k)
		}
		pbt.AddExtra("steps_checked", int64(st.checks))
		pbt.AddExtra("submissions", int64(st.submitted))
		pbt.AddExtra("admitted", int64(st.admitted))
		pbt.AddExtra("replacements", int64(st.replaced))
		pbt.AddExtra("blocks_from_listing", int64(st.minedBlocks))
		pbt.AddExtra("txs_in_blocks_from_listing", int64(st.minedTxs))
		pbt.AddExtra("txs_returned_by_undo", int64(st.undoneTxs))
		if x, ok := err.(*sim.Excluded); ok {
			r.Excluded(x.Key)
			return
		}
		if _, ok := err.(*refusedNonFinal); ok && inReorgTimeLockClass(c) && pbt.FindingOpen(keyReorgMTP) {
			r.Excluded(keyReorgMTP)
			return
		}
		if err != nil {
			r.Failf("%v", err)
		}
	})
}
