package c12

import (
	"bytes"
	"fmt"

	"github.com/piotrnar/gocoin/client/txpool"
	"verif/ref/consensus"
	"verif/ref/wire"
)

// The "ladder": many consecutive insertions into ONE gap of the pool's rank-ordered list, so that the
// 64-bit SortRank space between two neighbours is used up (sortIndexStep is about 2^42 and every insert
// halves the gap: ~43 inserts) and fixIndex() has to re-space the ranks.  Random fee rates never get there,
// and any block connect / undo rebuilds the list with fresh spacing.
//
//	rising  (Arg bit0 = 0): a top transaction T with a very high fee rate, then N rungs with strictly rising
//	        fee rates, all below T: every rung lands directly under T.
//	falling (Arg bit0 = 1): additionally a bottom anchor B just below the rungs' range; the rungs' fee rates
//	        fall strictly, every rung lands directly above B.
//	Arg bit1: the rungs spend outputs of T (one confirmed coin is enough) instead of distinct confirmed coins.
//
// All rungs are 1-in-2-out spends of OP_TRUE outputs (identical weight, so the fee alone orders them) and sit
// far above the fee rates the rest of the generator uses.  From rung 24 on, every rung is followed by a child
// that spends a free output of the rung's BETTER NEIGHBOUR in GetSortedMempool() (listed first) and an output
// of the rung itself, at a fee rate just above the rung's: with correct ranks the child is linked below the
// rung; if the rung shares its rank with the neighbour, it ends up in front of its parent.  The usual oracle
// runs after every single submission.

var opTrue = []byte{0x51}

type ladderTx struct {
	b    *built
	free []uint32 // unspent OP_TRUE outputs
}

func (r *run) ladder(op Op) error {
	// a dirty list is rebuilt (with fresh spacing) by the first listing; start from there
	if err := r.check(Op{K: "ladder"}); err != nil {
		return err
	}
	cd, err := r.candidates()
	if err != nil {
		return err
	}
	n := op.N
	if n < 8 {
		n = 8
	}
	if n > 70 {
		n = 70
	}
	falling := op.Arg&1 != 0
	fan := op.Arg&2 != 0
	var coins []coinRef
	for _, c := range cd.confFree {
		if bytes.Equal(c.script, opTrue) && c.value >= 2000000000 {
			coins = append(coins, c)
		}
	}
	if len(coins) == 0 {
		return nil
	}
	rot := mod(op.Pick, len(coins))
	coins = append(append([]coinRef{}, coins[rot:]...), coins[:rot]...)
	if !fan && len(coins) < n+2 {
		fan = true
	}
	if fan {
		r.st.label("ladder_from_one_coin")
	}
	// the harness must know how to spend OP_TRUE
	r.s.B.True()

	const base = 1000000   // fee of the lowest rung (satoshi)
	const spare = 2000000  // second output of rungs and children
	const slice = 10000000 // outputs of T
	mk := func(ins []coinRef, outs []uint64) *wire.Tx {
		tx := &wire.Tx{Version: 2}
		for _, c := range ins {
			var h [32]byte
			copy(h[:], c.key[:32])
			idx := uint32(c.key[32]) | uint32(c.key[33])<<8 | uint32(c.key[34])<<16 | uint32(c.key[35])<<24
			tx.In = append(tx.In, wire.TxIn{PrevHash: h, PrevIndex: idx, Sequence: 0xfffffffd})
		}
		for _, v := range outs {
			tx.Out = append(tx.Out, wire.TxOut{Value: v, PkScript: opTrue})
		}
		return tx
	}
	reg := func(tx *wire.Tx) *ladderTx {
		b := &built{tx: tx, raw: tx.Serialize(true), id: tx.TxID(), valid: true}
		if old, ok := r.built[b.id]; ok {
			b = old
		} else {
			r.built[b.id] = b
			r.order = append(r.order, b.id)
		}
		lt := &ladderTx{b: b}
		for j := range tx.Out {
			lt.free = append(lt.free, uint32(j))
		}
		return lt
	}
	send := func(lt *ladderTx) (bool, error) {
		r.submit(lt.b, 0, &cands{})
		if err := r.check(op); err != nil {
			return false, err
		}
		return inPool(lt.b.id), nil
	}
	takeOut := func(lt *ladderTx) (coinRef, bool) {
		if len(lt.free) == 0 {
			return coinRef{}, false
		}
		j := lt.free[len(lt.free)-1]
		lt.free = lt.free[:len(lt.free)-1]
		return coinRef{consensus.OutKey(lt.b.id, j), lt.b.tx.Out[j].Value, opTrue}, true
	}

	wRung := mk([]coinRef{coins[0]}, []uint64{1, 1}).Weight()
	known := map[[32]byte]*ladderTx{}

	// the top transaction: 2n+4 outputs, fee rate above every rung
	nOut := 2*n + 4
	outs := make([]uint64, nOut)
	for j := 1; j < nOut; j++ {
		outs[j] = slice
	}
	top := mk([]coinRef{coins[0]}, outs)
	feeTop := uint64(base+n+1000)*uint64(top.Weight())/uint64(wRung) + 1000
	if coins[0].value < feeTop+uint64(nOut)*slice {
		return nil
	}
	top.Out[0].Value = coins[0].value - feeTop - uint64(nOut-1)*slice
	T := reg(top)
	T.free = T.free[1:] // keep the change output out of it
	if ok, err := send(T); err != nil || !ok {
		return err
	}
	known[T.b.id] = T
	next := 1 // next confirmed coin
	source := func() (coinRef, bool) {
		if fan {
			return takeOut(T)
		}
		if next >= len(coins) {
			return coinRef{}, false
		}
		next++
		return coins[next-1], true
	}
	rung := func(fee uint64) (*ladderTx, error) {
		c, ok := source()
		if !ok || c.value < fee+spare+1000 {
			return nil, nil
		}
		lt := reg(mk([]coinRef{c}, []uint64{c.value - fee - spare, spare}))
		ok, err := send(lt)
		if err != nil || !ok {
			return nil, err
		}
		known[lt.b.id] = lt
		return lt, nil
	}
	if falling {
		if b, err := rung(base); err != nil || b == nil {
			return err
		}
	}

	prevGap := uint64(0)
	inserts := 0
	for k := 1; k <= n; k++ {
		fee := uint64(base + k)
		if falling {
			fee = uint64(base + n + 1 - k)
		}
		L, err := rung(fee)
		if err != nil {
			return fmt.Errorf("ladder rung %d: %v", k, err)
		}
		if L == nil {
			break
		}
		inserts++
		// where did it land?
		var neighbour *ladderTx
		txpool.TxMutex.Lock()
		list := txpool.GetSortedMempool()
		for i, t := range list {
			if t.Hash.Hash != L.b.id {
				continue
			}
			gap := uint64(1) << 62
			if !falling && i > 0 {
				gap = t.SortRank - list[i-1].SortRank
			}
			if falling && i+1 < len(list) {
				gap = list[i+1].SortRank - t.SortRank
			}
			if gap <= 1 || (prevGap != 0 && prevGap < 1<<12 && gap > prevGap) {
				r.st.label("rank_gap_exhausted")
			}
			prevGap = gap
			if i > 0 {
				neighbour = known[list[i-1].Hash.Hash]
			}
		}
		txpool.TxMutex.Unlock()
		if k < 24 || neighbour == nil {
			continue
		}
		// the child: (free output of the better neighbour, output 0 of the rung), a rate just above the rung's
		a, ok := takeOut(neighbour)
		if !ok {
			continue
		}
		bcoin := coinRef{consensus.OutKey(L.b.id, 0), L.b.tx.Out[0].Value, opTrue}
		L.free = []uint32{1}
		ins := []coinRef{a, bcoin}
		if op.Arg&4 != 0 && k%5 == 0 {
			ins = []coinRef{bcoin, a} // the harmless order, now and then
		}
		ch := mk(ins, []uint64{1, 1})
		feeC := (fee+1)*uint64(ch.Weight())/uint64(wRung) + 1
		in := a.value + bcoin.value
		if in < feeC+2000 {
			continue
		}
		rest := in - feeC
		o1 := uint64(spare)
		if o1 > rest/3 {
			o1 = rest / 3
		}
		ch.Out[0].Value, ch.Out[1].Value = rest-o1, o1
		C := reg(ch)
		ok, err = send(C)
		if err != nil {
			return fmt.Errorf("ladder rung %d, child of (%s, %s): %v", k, short(neighbour.b.id), short(L.b.id), err)
		}
		if ok {
			known[C.b.id] = C
		}
	}
	if inserts >= 44 {
		r.st.label("ladder_44_inserts")
	}
	return nil
}
