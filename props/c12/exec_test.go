package c12

import (
	"bytes"
	"crypto/sha256"
	"fmt"
	"os"
	"runtime"
	"runtime/debug"
	"sort"
	"sync"
	"time"

	"github.com/piotrnar/gocoin/client/common"
	"github.com/piotrnar/gocoin/client/txpool"
	"github.com/piotrnar/gocoin/lib/btc"
	"verif/env"
	"verif/pbt"
	"verif/ref/consensus"
	"verif/ref/wire"
	"verif/sim"
)

// fee rates in satoshi per 1000 virtual bytes; few distinct values so that equal rates are common
var feeRates = []uint64{0, 250, 1000, 1000, 1001, 2000, 3000, 5000, 20000, 100000}

type stats struct {
	checks, submitted, admitted, replaced, minedBlocks, minedTxs, undoneTxs int
	parentChild, diamond, orphanResolved, evicted, expired, savedNonEmpty   bool
	reorgWithPool, minedWithExtras, minedPartial, bigReplace, restart       bool
	rejected                                                                map[byte]int
	excluded                                                                []string
	labels                                                                  map[string]bool
}

func (st *stats) label(l string) {
	if st.labels == nil {
		st.labels = map[string]bool{}
	}
	st.labels[l] = true
}

func (st *stats) classes() []string {
	var out []string
	add := func(b bool, l string) {
		if b {
			out = append(out, l)
		}
	}
	add(st.parentChild, "parent_child_in_pool")
	add(st.diamond, "diamond_in_pool")
	add(st.replaced > 0, "replacement")
	add(st.bigReplace, "replacement_of_100_descendants")
	add(st.orphanResolved, "orphan_resolved")
	add(st.evicted, "eviction")
	add(st.expired, "expiry")
	add(st.savedNonEmpty, "save_load_nonempty")
	add(st.restart, "restart")
	add(st.reorgWithPool, "undo_returned_txs")
	add(st.minedBlocks > 0, "block_from_listing")
	add(st.minedTxs > 0, "block_from_listing_with_txs")
	add(st.minedWithExtras, "block_with_foreign_txs")
	add(st.minedPartial, "block_from_partial_listing")
	for r, n := range st.rejected {
		if n > 0 {
			out = append(out, "refused/"+txpool.ReasonToString(r))
		}
	}
	for l := range st.labels {
		out = append(out, l)
	}
	sort.Strings(out)
	return out
}

type coinRef struct {
	key    [36]byte
	value  uint64
	script []byte
}

type built struct {
	tx    *wire.Tx
	raw   []byte
	id    [32]byte
	valid bool // every input was built to verify against the output it names (as known when it was built)
}

type poolTx struct {
	id  [32]byte
	t2s *txpool.OneTxToSend
	tx  *wire.Tx
}

type run struct {
	c         Case
	s         *sim.Sim
	st        *stats
	built     map[[32]byte]*built
	order     [][32]byte
	withheld  [][32]byte
	extra     uint64
	unknown   uint64
	blockTxs  map[*sim.MNode][][32]byte
	step      int
	lastFault string
	nested    map[string]*nestedSpend
	heavy     map[string]bool   // output scripts whose spend carries many sig-ops
	undone    map[[32]byte]bool // transactions a disconnected block returned
}

var cfgOnce sync.Once

// baseConfig fills common.CFG with the defaults InitConfig() sets (no os.Args, no file): DESIGN appendix D.
func baseConfig() {
	c := &common.CFG
	c.TXPool.Enabled = true
	c.TXPool.AllowMemInputs = true
	c.TXPool.FeePerByte = 0.001
	c.TXPool.MaxTxWeight = 400e3
	c.TXPool.MaxSizeMB = 500
	c.TXPool.ExpireInDays = 14
	c.TXPool.MaxRejectMB = 25.0
	c.TXPool.MaxNoUtxoMB = 5.0
	c.TXPool.RejectRecCnt = 20000
	c.TXPool.SaveOnDisk = true
	c.TXRoute.Enabled = true
	c.TXRoute.FeePerByte = 0.1
	c.TXRoute.MaxTxWeight = 400e3
	c.Memory.GCPercTrshold = 30
	c.Memory.MaxCachedBlks = 200
	c.Memory.CacheOnDisk = false
	c.Memory.SyncCacheSize = 500
	c.Memory.MaxDataFileMB = 1000
	c.Memory.UseGoHeap = true
	c.WebUI.AllowedIP = "127.0.0.1"
	c.Stat.NoCounters = false
	common.Testnet = false
}

// setup puts every piece of process-global state the pool reads back to "node just started" for this case.
func (r *run) setup() error {
	cfgOnce.Do(baseConfig)
	// a panic inside gocoin in an earlier case may have left the mutexes locked
	if txpool.TxMutex.TryLock() {
		txpool.TxMutex.Unlock()
	} else {
		txpool.TxMutex = sync.Mutex{}
	}
	if common.Last.Mutex.TryLock() {
		common.Last.Mutex.Unlock()
	} else {
		common.Last.Mutex = sync.Mutex{}
	}
	for len(txpool.GetMPInProgressTicket) > 0 {
		<-txpool.GetMPInProgressTicket
	}
	cfg := r.c.Cfg
	common.LockCfg()
	common.CFG.TXPool.NotFullRBF = cfg.NotFullRBF
	common.CFG.TXPool.AllowMemInputs = !cfg.NoMemInputs
	ring := cfg.Ring
	if ring < 100 {
		ring = 100
	}
	common.CFG.TXPool.RejectRecCnt = uint16(ring)
	common.CFG.TXPool.MaxSizeMB = 500
	common.Reset()
	common.UnlockCfg()
	debug.SetGCPercent(100)
	if cfg.MaxPoolKB > 0 {
		common.VerifSetMaxMempoolSize(uint64(cfg.MaxPoolKB) * 1000)
	}
	if cfg.MaxNoUtxoB > 0 {
		common.Set(&common.MaxNoUtxoSizeBytes, uint64(cfg.MaxNoUtxoB))
	}
	if cfg.MaxRejectB > 0 {
		common.Set(&common.MaxRejectedSizeBytes, uint64(cfg.MaxRejectB))
	}
	txpool.InitMempool()
	txpool.TxMutex.Lock()
	txpool.TransactionsPending = make(map[btc.BIDX]bool)
	txpool.CurrentFeeAdjustedSPKB = 0
	txpool.VerifResetTimers()
	txpool.TxMutex.Unlock()
	txpool.MPCheckUTXO = true
	common.CounterMutex.Lock()
	common.Counter = make(map[string]uint64)
	common.CounterMutex.Unlock()

	opts := env.Options{BlockMinedCB: txpool.BlockMined, BlockUndoneCB: func(bl *btc.Block) {
		if len(bl.Txs) > 1 {
			r.st.undoneTxs += len(bl.Txs) - 1
			r.st.reorgWithPool = true
			for _, t := range bl.Txs[1:] {
				r.undone[t.Hash.Hash] = true
			}
		}
		txpool.BlockUndone(bl)
	}}
	s, err := sim.NewCfg(r.c.Params, opts, sim.Config{})
	r.s = s
	if err != nil {
		return fmt.Errorf("prefix: %v", err)
	}
	s.Open = pbt.FindingOpen
	common.GocoinHomeDir = s.Dir + string(os.PathSeparator)
	common.BlockChain = s.Node.Ch
	common.GenesisBlock = btc.NewUint256(s.P.GenesisHash[:])
	common.BlockChainSynchronized.Store(true)
	r.syncLast()
	return nil
}

// syncLast does what HandleRpcBlock / LocalAcceptBlock do after a block was handled.
func (r *run) syncLast() {
	common.Last.Mutex.Lock()
	common.Last.Block = common.BlockChain.LastBlock()
	common.Last.Time = time.Now()
	common.Last.Mutex.Unlock()
	common.UpdateScriptFlags(0)
}

func (r *run) close() {
	if r.s != nil {
		r.s.Close()
	}
}

// refusedNonFinal: the block assembled from the listing was refused as bad-txns-nonfinal and every
// offending entry carries a time-based lock (the shape of the open finding C12-reorg-median-time-back).
type refusedNonFinal struct{ msg string }

func (e *refusedNonFinal) Error() string { return e.msg }

// inReorgTimeLockClass is the class predicate of the open finding C12-reorg-median-time-back, over the
// generated case only: the history holds a transaction with a time-based lock that is final when it is
// built (pool spec Lock 2 or a block transaction of the engine with Lock 2) or a pool transaction with a BIP68
// relative lock (version 2, input selector Seq 3..8) and, later, a block operation
// that builds on something else than the tip (a fork that can become a reorganisation) or a deep
// reorganisation.
func inReorgTimeLockClass(c Case) bool {
	locked := false
	for _, op := range c.Ops {
		if op.Tx != nil && op.Tx.Lock == 2 {
			locked = true
		}
		if op.Tx != nil && op.Tx.Ver != 1 {
			for _, in := range op.Tx.Ins {
				if q := mod(in.Seq, 9); q >= 3 {
					locked = true // a BIP68 relative lock
				}
			}
		}
		if locked && op.K == "deepreorg" {
			return true
		}
		if op.K == "blk" && op.Blk != nil {
			if locked && op.Blk.Kind == "block" && op.Blk.Parent != -1 {
				return true
			}
			for _, t := range op.Blk.Txs {
				if t.Lock == 2 {
					locked = true
				}
			}
		}
	}
	return false
}

const keyReorgMTP = "C12-reorg-median-time-back"

var hangBound = func() time.Duration {
	if v, err := time.ParseDuration(os.Getenv("VERIF_C12_HANG")); err == nil && v > 0 {
		return v // dev use
	}
	return 300 * time.Second
}()

// runCase executes a history; the error is the first violated invariant (or engine disagreement).
func runCase(c Case) (st *stats, err error) {
	st = &stats{rejected: map[byte]int{}}
	r := &run{c: c, st: st, built: map[[32]byte]*built{}, blockTxs: map[*sim.MNode][][32]byte{},
		nested: map[string]*nestedSpend{}, heavy: map[string]bool{}, undone: map[[32]byte]bool{}}
	defer r.close()
	defer r.harvestCounters()
	// A history takes a second or two.  A generous bound turns an endless loop inside the pool (it would hold
	// TxMutex for ever) into a dead worker, which the driver reports together with the case in flight.
	done := make(chan struct{})
	defer close(done)
	go func() {
		select {
		case <-done:
		case <-time.After(hangBound):
			fmt.Fprintf(os.Stderr, "C12-HANG: the history did not finish within %v (step %d); goroutines:\n", hangBound, r.step)
			buf := make([]byte, 1<<16)
			os.Stderr.Write(buf[:runtime.Stack(buf, true)])
			os.Exit(4)
		}
	}()
	if err = r.setup(); err != nil {
		return st, err
	}
	if err = r.check(Op{K: "start"}); err != nil {
		return st, fmt.Errorf("before the first step: %v", err)
	}
	for i, op := range c.Ops {
		r.step = i
		r.s.CurStep = i
		if os.Getenv("VERIF_C12_TRACE") != "" {
			fmt.Fprintf(os.Stderr, "C12 step %d: %s\n", i, describe(op))
		}
		if e := r.exec(op); e != nil {
			if x, ok := e.(*sim.Excluded); ok {
				return st, x
			}
			if x, ok := e.(*refusedNonFinal); ok {
				return st, &refusedNonFinal{fmt.Sprintf("step %d (%s): %v", i, describe(op), x.msg)}
			}
			return st, fmt.Errorf("step %d (%s): %v", i, describe(op), e)
		}
	}
	// final: both listings, whatever the last op said
	if e := r.check(Op{K: "end"}); e != nil {
		return st, fmt.Errorf("after the last step: %v", e)
	}
	st.excluded = append(st.excluded, r.s.ExcludedKeys...)
	if os.Getenv("VERIF_C12_TRACE") != "" {
		r.harvestCounters()
		fmt.Fprintf(os.Stderr, "C12 done: submitted %d admitted %d replaced %d mined %d/%d classes %v\n", st.submitted, st.admitted, st.replaced, st.minedBlocks, st.minedTxs, st.classes())
	}
	return st, nil
}

func describe(op Op) string {
	switch op.K {
	case "blk":
		return fmt.Sprintf("blk %s parent=%d txs=%d net=%v", op.Blk.Kind, op.Blk.Parent, len(op.Blk.Txs), op.Net)
	case "submit", "hold", "chain", "flood":
		return fmt.Sprintf("%s path=%d n=%d tx=%+v", op.K, op.Path, op.N, *op.Tx)
	}
	return fmt.Sprintf("%s path=%d pick=%d n=%d arg=%d", op.K, op.Path, op.Pick, op.N, op.Arg)
}

func (r *run) exec(op Op) error {
	switch op.K {
	case "blk":
		if op.Blk == nil {
			return nil
		}
		if op.Blk.Kind == "reopen" {
			return nil // restarts go through "save" (the pool has to be saved and reloaded around it)
		}
		if op.Net {
			txpool.BlockCommitInProgress(true)
		}
		err := r.s.Step(*op.Blk)
		if op.Net {
			txpool.BlockCommitInProgress(false)
		}
		r.syncLast()
		if err != nil {
			return err
		}
	case "submit":
		if op.Tx == nil {
			return nil
		}
		cd, err := r.candidates()
		if err != nil {
			return err
		}
		if b := r.buildTx(op.Tx, cd, nil); b != nil {
			r.submit(b, op.Path, cd)
		}
	case "hold":
		if op.Tx == nil {
			return nil
		}
		cd, err := r.candidates()
		if err != nil {
			return err
		}
		if b := r.buildTx(op.Tx, cd, nil); b != nil {
			r.withheld = append(r.withheld, b.id)
		}
	case "release":
		if len(r.withheld) == 0 {
			return nil
		}
		i := mod(op.Pick, len(r.withheld))
		id := r.withheld[i]
		r.withheld = append(r.withheld[:i], r.withheld[i+1:]...)
		cd, err := r.candidates()
		if err != nil {
			return err
		}
		r.submit(r.built[id], op.Path, cd)
	case "resend":
		if len(r.order) == 0 {
			return nil
		}
		cd, err := r.candidates()
		if err != nil {
			return err
		}
		r.submit(r.built[r.order[mod(op.Pick, len(r.order))]], op.Path, cd)
	case "chain", "flood":
		if op.Tx == nil {
			return nil
		}
		return r.series(op)
	case "mine":
		return r.mine(op)
	case "deepreorg":
		return r.deepReorg(op)
	case "ladder":
		return r.ladder(op)
	case "sigflood":
		return r.sigFlood(op)
	case "tick":
		r.tick(op)
	case "save":
		return r.saveLoad(op)
	default:
		return nil
	}
	return r.check(op)
}

func mod(a, n int) int {
	a %= n
	if a < 0 {
		a += n
	}
	return a
}

// ---------------------------------------------------------------------------------------------
// reading the pool (reference decoding of the raw bytes the pool holds)

func (r *run) readPoolLocked() ([]poolTx, error) {
	out := make([]poolTx, 0, len(txpool.TransactionsToSend))
	for bidx, t2s := range txpool.TransactionsToSend {
		if t2s == nil || t2s.Tx == nil {
			return nil, fmt.Errorf("TransactionsToSend[%x] holds a nil record", bidx[:])
		}
		tx, n, err := wire.DecodeTx(t2s.Raw)
		if err != nil || n != len(t2s.Raw) {
			return nil, fmt.Errorf("pooled transaction %s: the raw bytes kept by the pool do not decode (reference: %v, consumed %d of %d)", t2s.Hash.String(), err, n, len(t2s.Raw))
		}
		out = append(out, poolTx{id: tx.TxID(), t2s: t2s, tx: tx})
	}
	sort.Slice(out, func(i, j int) bool { return bytes.Compare(out[i].id[:], out[j].id[:]) < 0 })
	return out, nil
}

type cands struct {
	pool      []poolTx
	byID      map[[32]byte]*poolTx
	spentBy   map[[36]byte][32]byte // outpoint -> pooled spender
	confFree  []coinRef
	confSpent []coinRef
	immature  []coinRef
	poolFree  []coinRef
	poolSpent []coinRef
	held      []coinRef
}

func sortCoins(l []coinRef) {
	sort.Slice(l, func(i, j int) bool { return bytes.Compare(l[i].key[:], l[j].key[:]) < 0 })
}

// candidates lists what a new transaction could spend, in a deterministic order.
func (r *run) candidates() (*cands, error) {
	txpool.TxMutex.Lock()
	pool, err := r.readPoolLocked()
	var orphans [][32]byte
	for _, txr := range txpool.TransactionsRejected {
		if txr.Waiting4 != nil && txr.Tx != nil {
			orphans = append(orphans, txr.Id.Hash)
		}
	}
	txpool.TxMutex.Unlock()
	if err != nil {
		return nil, err
	}
	sort.Slice(orphans, func(i, j int) bool { return bytes.Compare(orphans[i][:], orphans[j][:]) < 0 })
	cd := &cands{pool: pool, byID: map[[32]byte]*poolTx{}, spentBy: map[[36]byte][32]byte{}}
	for i := range pool {
		cd.byID[pool[i].id] = &pool[i]
		for _, in := range pool[i].tx.In {
			cd.spentBy[consensus.OutKey(in.PrevHash, in.PrevIndex)] = pool[i].id
		}
	}
	next := r.s.Tip.Idx.Height + 1
	for k, c := range r.s.Tip.View {
		if !r.spendable(c.Script) {
			continue
		}
		ref := coinRef{k, c.Value, c.Script}
		if c.Coinbase && next-c.Height < consensus.CoinbaseMaturity {
			cd.immature = append(cd.immature, ref)
		} else if _, sp := cd.spentBy[k]; sp {
			cd.confSpent = append(cd.confSpent, ref)
		} else {
			cd.confFree = append(cd.confFree, ref)
		}
	}
	for i := range pool {
		for j, o := range pool[i].tx.Out {
			if !r.spendable(o.PkScript) {
				continue
			}
			k := consensus.OutKey(pool[i].id, uint32(j))
			ref := coinRef{k, o.Value, o.PkScript}
			if _, sp := cd.spentBy[k]; sp {
				cd.poolSpent = append(cd.poolSpent, ref)
			} else {
				cd.poolFree = append(cd.poolFree, ref)
			}
		}
	}
	heldIDs := append([][32]byte{}, r.withheld...)
	heldIDs = append(heldIDs, orphans...) // grandchildren of a withheld parent
	for _, id := range heldIDs {
		b := r.built[id]
		if b == nil {
			continue
		}
		for j, o := range b.tx.Out {
			if r.spendable(o.PkScript) && o.Value > 0 {
				cd.held = append(cd.held, coinRef{consensus.OutKey(id, uint32(j)), o.Value, o.PkScript})
			}
		}
	}
	sortCoins(cd.confFree)
	sortCoins(cd.confSpent)
	sortCoins(cd.immature)
	sortCoins(cd.poolFree)
	sortCoins(cd.poolSpent)
	sortCoins(cd.held)
	return cd, nil
}

// descendants of a pooled transaction (including itself), by full outpoints.
func (cd *cands) withDescendants(id [32]byte, into map[[32]byte]bool) {
	if into[id] {
		return
	}
	p := cd.byID[id]
	if p == nil {
		return
	}
	into[id] = true
	for j := range p.tx.Out {
		if ch, ok := cd.spentBy[consensus.OutKey(id, uint32(j))]; ok {
			cd.withDescendants(ch, into)
		}
	}
}

// chainSpent: outpoints spent by blocks of the active chain (with the coin they spent).
func (r *run) chainSpent() []coinRef {
	var out []coinRef
	for n := r.s.Tip; n != nil && n.Parent != nil && len(out) < 40; n = n.Parent {
		if n.Block == nil || len(n.Block.Txs) < 2 || n.Parent.View == nil {
			continue
		}
		for _, tx := range n.Block.Txs[1:] {
			for _, in := range tx.In {
				k := consensus.OutKey(in.PrevHash, in.PrevIndex)
				if c, ok := n.Parent.View[k]; ok && r.spendable(c.Script) {
					out = append(out, coinRef{k, c.Value, c.Script})
				}
			}
		}
	}
	sortCoins(out)
	return out
}

// ---------------------------------------------------------------------------------------------
// building transactions (reference side only)

// nestedSpend: how to spend a P2SH-wrapped P2WSH output (the env builder only nests one level).
type nestedSpend struct{ program, wscript []byte }

func (r *run) spendable(script []byte) bool {
	return r.s.B.Spendable(script) || r.nested[string(script)] != nil
}

// heavyScript: an output whose redeem / witness script carries many sig-ops in a dead branch (OP_0 OP_IF ...
// OP_ENDIF OP_1): 20..90 x "OP_16 OP_CHECKMULTISIG" (16 each when counted accurately) or a run of 20..90
// OP_CHECKSIG; wrapped as P2SH (fam 13), P2WSH (fam 14) or P2SH-P2WSH (fam 15).  Spending one costs up to
// 4*1440 (P2SH) or 1440 (witness) units of the block's 80000.
func (r *run) heavyScript(o sim.OutSpec) []byte {
	b := r.s.B
	k := 20 + mod(o.N*13+o.Share, 71)
	var inner []byte
	if mod(o.N+o.Share, 3) == 0 {
		inner = b.SigOps(k)
	} else {
		inner = b.MultiSigOps(k, 16)
	}
	var out []byte
	switch mod(o.Fam, 16) {
	case 13:
		out = b.WrapP2SH(inner)
	case 14:
		out = b.WrapP2WSH(inner)
	default:
		prog := env.P2WSH(inner)
		out = env.P2SH(prog)
		r.nested[string(out)] = &nestedSpend{program: prog, wscript: inner}
	}
	r.heavy[string(out)] = true
	return out
}

func (r *run) outScript(o sim.OutSpec) []byte {
	b := r.s.B
	n := int64(mod(o.N, 1000) + 17)
	if f := mod(o.Fam, 16); f >= 13 {
		return r.heavyScript(o)
	}
	o.Fam = mod(o.Fam, 16)
	if r.s.Signed {
		switch mod(o.Fam, 13) {
		case 9:
			return b.P2PKH(mod(o.N, 6))
		case 10:
			return b.P2WPKH(mod(o.N, 6))
		case 11:
			return b.P2SHP2WPKH(mod(o.N, 6))
		case 12:
			return b.P2TR(mod(o.N, 6))
		}
	}
	switch mod(o.Fam, 9) {
	case 0:
		return b.True()
	case 1:
		return b.Puzzle(n)
	case 2:
		return b.WrapP2SH(b.True())
	case 3:
		return b.WrapP2SH(b.Puzzle(n))
	case 4:
		return b.WrapP2WSH(b.True())
	case 5:
		return b.WrapP2WSH(b.Puzzle(n))
	case 6:
		return b.OpReturn([]byte{byte(o.N), byte(o.N >> 8)})
	case 7:
		return b.SigOps(mod(o.N, 40))
	default:
		return b.WrapP2SH(b.SigOps(mod(o.N, 15)))
	}
}

var seqTable = []uint32{0xffffffff, 0xfffffffe, 0xfffffffd}

// coinHeight: the height at which the output was mined; outputs of unconfirmed transactions count as mined in
// the next block (Core's CheckSequenceLocks for the mempool).
func (r *run) coinHeight(k [36]byte) uint32 {
	if c, ok := r.s.Tip.View[k]; ok {
		return c.Height
	}
	return r.s.Tip.Idx.Height + 1
}

// sequenceFor resolves the Seq selector of an input: 0..2 the table above (relative lock disabled), 3..5 a
// height-based BIP68 lock (3: the largest value <= 6 that is reached at the next block, 4: one more than that,
// 5: Sel mod 7), 6..8 a time-based one in 512 s units (6: the largest value <= 3 that is reached, 7: one more,
// 8: Sel mod 4).
func (r *run) sequenceFor(sel InSel, c coinRef) uint32 {
	q := mod(sel.Seq, 9)
	if q < 3 {
		return seqTable[q]
	}
	tip := r.s.Tip.Idx
	next := tip.Height + 1
	h := r.coinHeight(c.key)
	switch q {
	case 3, 4:
		d := uint32(0)
		if next > h {
			d = next - h
		}
		if q == 4 && d+1 <= 6 {
			return d + 1
		}
		if d > 6 {
			d = 6
		}
		return d
	case 5:
		return uint32(mod(sel.Sel, 7))
	}
	var before uint32
	if h > 0 {
		before = h - 1
	}
	anc := tip.Ancestor(before)
	if anc == nil {
		anc = tip
	}
	vmax := uint32(0)
	if m, b := tip.MedianTimePast(), anc.MedianTimePast(); m > b {
		vmax = (m - b) >> consensus.SeqGranularity
	}
	switch q {
	case 6, 7:
		if q == 7 && vmax+1 <= 3 {
			return consensus.SeqTypeFlag | (vmax + 1)
		}
		if vmax > 3 {
			vmax = 3
		}
		return consensus.SeqTypeFlag | vmax
	}
	return consensus.SeqTypeFlag | uint32(mod(sel.Sel, 4))
}

// hasRelativeLock: BIP68 applies to the transaction (version >= 2, some input without the disable bit).
func hasRelativeLock(tx *wire.Tx) bool {
	if int32(tx.Version) < 2 {
		return false
	}
	for _, in := range tx.In {
		if in.Sequence&consensus.SeqDisableFlag == 0 {
			return true
		}
	}
	return false
}

// seqLocksReached is BIP68 for a block built on parent (the rule of ref/consensus.ConnectBlock): heights[i] is
// the height at which input i's coin was (or, for coins created in that very block / still unconfirmed, will be)
// mined.
func seqLocksReached(tx *wire.Tx, heights []uint32, parent *consensus.Index) bool {
	if int32(tx.Version) < 2 {
		return true
	}
	height := parent.Height + 1
	minHeight, minTime := int64(-1), int64(-1)
	for j, in := range tx.In {
		if in.Sequence&consensus.SeqDisableFlag != 0 {
			continue
		}
		ch := heights[j]
		if in.Sequence&consensus.SeqTypeFlag != 0 {
			ah := uint32(0)
			if ch > 0 {
				ah = ch - 1
			}
			anc := parent.Ancestor(ah)
			if ch >= height || anc == nil {
				anc = parent
			}
			if t := int64(anc.MedianTimePast()) + int64(in.Sequence&consensus.SeqMask)<<consensus.SeqGranularity - 1; t > minTime {
				minTime = t
			}
		} else if h := int64(ch) + int64(in.Sequence&consensus.SeqMask) - 1; h > minHeight {
			minHeight = h
		}
	}
	return minHeight < int64(height) && minTime < int64(parent.MedianTimePast())
}

// buildTx resolves a spec against the current state.  forced, when not nil, is used as the first input
// (series).  Returns nil when nothing can be built.
func (r *run) buildTx(ts *TxSpec, cd *cands, forced *coinRef) *built {
	var coins []coinRef
	used := map[[36]byte]bool{}
	conflicts := map[[32]byte]bool{}
	take := func(list []coinRef, sel int) bool {
		for i := 0; i < len(list); i++ {
			c := list[mod(sel+i, len(list))]
			if !used[c.key] {
				used[c.key] = true
				coins = append(coins, c)
				if sp, ok := cd.spentBy[c.key]; ok {
					cd.withDescendants(sp, conflicts)
				}
				return true
			}
		}
		return false
	}
	valid := true
	ins := ts.Ins
	if len(ins) == 0 {
		ins = []InSel{{}}
	}
	var seqs []uint32
	for i, sel := range ins {
		before := len(coins)
		if i == 0 && forced != nil {
			used[forced.key] = true
			coins = append(coins, *forced)
		} else {
			switch sel.Src {
			case 1:
				take(cd.poolFree, sel.Sel)
			case 2:
				take(cd.confSpent, sel.Sel)
			case 3:
				take(cd.poolSpent, sel.Sel)
			case 4:
				take(cd.held, sel.Sel)
			case 5:
				r.unknown++
				h := sha256.Sum256([]byte(fmt.Sprintf("c12-unknown-%d-%d", r.unknown, sel.Sel)))
				coins = append(coins, coinRef{consensus.OutKey(h, uint32(sel.Sel%3)), 1000000, r.s.B.True()})
				valid = false
			case 6:
				take(cd.immature, sel.Sel)
			case 7:
				take(r.chainSpent(), sel.Sel)
			case 8:
				if len(coins) > 0 {
					coins = append(coins, coins[mod(sel.Sel, len(coins))])
				}
			case 9:
				var l []coinRef
				for _, p := range cd.pool {
					if conflicts[p.id] {
						for j, o := range p.tx.Out {
							if r.spendable(o.PkScript) {
								l = append(l, coinRef{consensus.OutKey(p.id, uint32(j)), o.Value, o.PkScript})
							}
						}
					}
				}
				take(l, sel.Sel)
			case 12:
				// the confirmed output whose pooled spender has the most descendants
				best, bestN := -1, -1
				for i, c := range cd.confSpent {
					d := map[[32]byte]bool{}
					cd.withDescendants(cd.spentBy[c.key], d)
					if len(d) > bestN && !used[c.key] {
						best, bestN = i, len(d)
					}
				}
				if best >= 0 {
					take(cd.confSpent, best)
				}
			case 11:
				// an output index the withheld parent does not have
				if len(cd.held) > 0 {
					c := cd.held[mod(sel.Sel, len(cd.held))]
					c.key[32], c.key[33] = byte(7+sel.Sel%5), 0
					if !used[c.key] {
						used[c.key] = true
						coins = append(coins, coinRef{c.key, 1000000, r.s.B.True()})
						valid = false
					}
				}
			case 10:
				l := append(append(append([]coinRef{}, cd.poolFree...), cd.poolSpent...), cd.held...)
				if len(l) > 0 {
					c := l[mod(sel.Sel, len(l))]
					c.key[8+mod(sel.Sel, 24)] ^= 0x40 // same first 8 bytes (the pool's index), different transaction
					if !used[c.key] {
						used[c.key] = true
						coins = append(coins, c)
						valid = false
					}
				}
			}
			if len(coins) == before && sel.Src != 8 {
				take(cd.confFree, sel.Sel) // fall back to a plain confirmed output
			}
		}
		for len(seqs) < len(coins) {
			seqs = append(seqs, r.sequenceFor(sel, coins[len(seqs)]))
		}
	}
	if len(coins) == 0 {
		return nil
	}
	tx := &wire.Tx{Version: 2}
	if ts.Ver == 1 {
		tx.Version = 1
	}
	var in uint64
	spent := make([]wire.TxOut, len(coins))
	for i, c := range coins {
		var h [32]byte
		copy(h[:], c.key[:32])
		idx := uint32(c.key[32]) | uint32(c.key[33])<<8 | uint32(c.key[34])<<16 | uint32(c.key[35])<<24
		tx.In = append(tx.In, wire.TxIn{PrevHash: h, PrevIndex: idx, Sequence: seqs[i]})
		in += c.value
		spent[i] = wire.TxOut{Value: c.value, PkScript: c.script}
	}
	nextH := r.s.Tip.Idx.Height + 1
	mtp := r.s.Tip.Idx.MedianTimePast()
	switch ts.Lock {
	case 1:
		tx.LockTime = nextH - 1
	case 2:
		tx.LockTime = mtp - 1
	case 3:
		tx.LockTime = nextH
	case 4:
		tx.LockTime = mtp
	case 5:
		tx.LockTime = nextH + 3
	case 6:
		tx.LockTime = mtp + 5000
	case 7:
		tx.LockTime = nextH + 10
		for i := range tx.In {
			tx.In[i].Sequence = 0xffffffff
		}
	}
	if ts.Lock >= 1 && ts.Lock <= 6 && tx.In[0].Sequence == 0xffffffff {
		tx.In[0].Sequence = 0xfffffffe // otherwise the lock time would not be in force
	}
	outs := ts.Outs
	if len(outs) == 0 {
		outs = []sim.OutSpec{{Fam: 0, Share: 1}}
	}
	for _, o := range outs {
		tx.Out = append(tx.Out, wire.TxOut{PkScript: r.outScript(o)})
	}
	if ts.PadKB > 0 {
		tx.Out = append(tx.Out, wire.TxOut{PkScript: r.s.B.OpReturn(make([]byte, ts.PadKB*1000))})
	}
	badScript := ts.Bad == "script" && r.s.B.Breakable(coins[len(coins)-1].script)
	sign := func() {
		for i, c := range coins {
			if ns := r.nested[string(c.script)]; ns != nil {
				tx.In[i].ScriptSig = env.Push(ns.program)
				tx.In[i].Witness = [][]byte{ns.wscript}
				continue
			}
			if !r.s.B.Spend(tx, i, c.script, !(badScript && i == len(coins)-1)) {
				panic("c12: cannot build spend")
			}
		}
		for i, c := range coins {
			if r.s.B.Signed(c.script) {
				if !r.s.B.SpendSigned(tx, i, spent, !(badScript && i == len(coins)-1)) {
					panic("c12: cannot sign")
				}
			}
		}
	}
	sign() // first pass: the virtual size (values do not change it, up to a byte of DER)
	vsize := uint64(tx.VSize())
	fee := feeRates[mod(ts.Rate, len(feeRates))] * vsize / 1000
	if ts.Rel > 0 && len(conflicts) > 0 {
		var totFee, totVsize uint64
		for _, p := range cd.pool {
			if conflicts[p.id] {
				totFee += p.t2s.Fee
				totVsize += uint64(p.tx.VSize())
			}
		}
		base := totFee * vsize / totVsize
		switch ts.Rel {
		case 1:
			if base > 0 {
				fee = base - 1
			} else {
				fee = 0
			}
		case 2:
			fee = base
		case 3:
			fee = base + 1
		default:
			fee = 2*base + 1
		}
	}
	if fee > in {
		fee = in
	}
	rest := in - fee
	if ts.Bad == "overspend" {
		rest = in + 1 + uint64(ts.Rate)
	}
	if ts.Bad == "novout" {
		tx.Out = nil
		outs = nil
	}
	if ts.Bad == "wrap" {
		// two outputs of 2^63 each: a 64-bit sum wraps to zero
		tx.Out = []wire.TxOut{{Value: 1 << 63, PkScript: r.s.B.True()}, {Value: 1 << 63, PkScript: r.s.B.True()}}
		outs = nil
	}
	total := 0
	spendable := 0
	for i := range outs {
		if !consensus.Unspendable(tx.Out[i].PkScript) {
			spendable++
			total += mod(outs[i].Share, 100) + 1
		}
	}
	var assigned uint64
	seen := 0
	for i := range outs {
		if spendable == 0 {
			if i == len(outs)-1 {
				tx.Out[i].Value = rest
			}
			continue
		}
		if consensus.Unspendable(tx.Out[i].PkScript) {
			continue
		}
		seen++
		v := rest * uint64(mod(outs[i].Share, 100)+1) / uint64(total)
		if seen == spendable {
			v = rest - assigned
		}
		assigned += v
		tx.Out[i].Value = v
	}
	sign()
	if hasRelativeLock(tx) {
		hs := make([]uint32, len(coins))
		for i, c := range coins {
			hs[i] = r.coinHeight(c.key)
		}
		if seqLocksReached(tx, hs, r.s.Tip.Idx) {
			r.st.label("relative_lock_reached")
		} else {
			r.st.label("relative_lock_not_reached")
		}
	}
	b := &built{tx: tx, raw: tx.Serialize(true), id: tx.TxID(), valid: valid && !badScript}
	if old, ok := r.built[b.id]; ok {
		return old
	}
	r.built[b.id] = b
	r.order = append(r.order, b.id)
	return b
}

// ---------------------------------------------------------------------------------------------
// submission paths (mirrors of the client's callers)

func inPool(id [32]byte) bool {
	txpool.TxMutex.Lock()
	defer txpool.TxMutex.Unlock()
	t, ok := txpool.TransactionsToSend[btc.BIdx(id[:])]
	return ok && t.Hash.Hash == id
}

// submit hands a transaction to the pool: path 0 = network.ParseTxNet + main loop (NeedThisTxExt marks it
// pending, HandleNetTx processes it), 2 = the same from an authenticated ("trusted") peer, 1 =
// usif.LoadRawTx (local).  Trusted and local submissions skip script verification by design: only
// transactions built with valid scripts go that way (the trust assumption of those paths).
func (r *run) submit(b *built, path int, cd *cands) {
	if path != 0 && !b.valid {
		path = 0
	}
	tx, n := btc.NewTx(b.raw)
	if tx == nil || n != len(b.raw) {
		r.st.label("not_decodable_by_gocoin") // ParseTxNet drops it (and bans the peer)
		return
	}
	tx.SetHash(b.raw)
	// what does it conflict with right now?
	conflicts := map[[32]byte]bool{}
	for _, in := range b.tx.In {
		if sp, ok := cd.spentBy[consensus.OutKey(in.PrevHash, in.PrevIndex)]; ok && sp != b.id {
			cd.withDescendants(sp, conflicts)
		}
	}
	was := inPool(b.id)
	r.st.submitted++
	var res byte
	switch path {
	case 1:
		txpool.TxMutex.Lock()
		txpool.DeleteRejectedByIdx(tx.Hash.BIdx(), false)
		txpool.TxMutex.Unlock()
		if why := txpool.NeedThisTxExt(&tx.Hash, nil); why != 0 {
			txpool.TxMutex.Lock()
			if t2s := txpool.TransactionsToSend[tx.Hash.BIdx()]; t2s != nil {
				t2s.Local = true
			}
			txpool.TxMutex.Unlock()
			r.st.label("not_wanted")
			return
		}
		if !txpool.SubmitLocalTx(tx, b.raw) {
			txpool.TxMutex.Lock()
			if rr := txpool.TransactionsRejected[tx.Hash.BIdx()]; rr != nil {
				res = rr.Reason
			} else {
				res = 255
			}
			txpool.TxMutex.Unlock()
		}
	default:
		wanted := false
		txpool.NeedThisTxExt(&tx.Hash, func() {
			txpool.TransactionsPending[tx.Hash.BIdx()] = true
			wanted = true
		})
		if !wanted {
			r.st.label("not_wanted")
			return
		}
		ntx := &txpool.TxRcvd{Tx: tx, Trusted: path == 2, FeedbackCB: func(n *txpool.TxRcvd, _ *txpool.OneTxToSend) { res = n.Result }}
		txpool.HandleNetTx(ntx)
	}
	if res != 0 {
		r.st.rejected[res]++
	}
	if !was && inPool(b.id) {
		r.st.admitted++
		if r.spendsHeavy(b.tx, cd) {
			r.st.label([]string{"sigop_heavy_spend_admitted_peer", "sigop_heavy_spend_admitted_local", "sigop_heavy_spend_admitted_trusted"}[path])
		}
		if hasRelativeLock(b.tx) {
			r.st.label("relative_locked_tx_admitted")
			for _, in := range b.tx.In {
				if _, pooled := cd.byID[in.PrevHash]; pooled && in.Sequence&consensus.SeqDisableFlag == 0 {
					r.st.label("relative_lock_on_pooled_parent_admitted")
				}
			}
		}
		if len(conflicts) > 0 {
			r.st.replaced++
			if len(conflicts) > 100 {
				r.st.bigReplace = true
			}
		}
	}
}

// spendsHeavy: some input spends an output of the sig-op-heavy families (looked up in chain, pool and what the
// harness built).
func (r *run) spendsHeavy(tx *wire.Tx, cd *cands) bool {
	for _, in := range tx.In {
		var script []byte
		if c, ok := r.s.Tip.View[consensus.OutKey(in.PrevHash, in.PrevIndex)]; ok {
			script = c.Script
		} else if b := r.built[in.PrevHash]; b != nil && int(in.PrevIndex) < len(b.tx.Out) {
			script = b.tx.Out[in.PrevIndex].PkScript
		}
		if r.heavy[string(script)] {
			return true
		}
	}
	return false
}

// series: "chain" (each transaction spends the previous one's first spendable output) and "flood" (N padded
// transactions); the invariants are checked after every single submission.
func (r *run) series(op Op) error {
	n := op.N
	if n < 1 {
		n = 1
	}
	if n > 130 {
		n = 130
	}
	var prev *built
	for i := 0; i < n; i++ {
		cd, err := r.candidates()
		if err != nil {
			return err
		}
		ts := *op.Tx
		var forced *coinRef
		if op.K == "chain" && prev != nil {
			for j, o := range prev.tx.Out {
				if r.spendable(o.PkScript) && o.Value > 0 {
					forced = &coinRef{consensus.OutKey(prev.id, uint32(j)), o.Value, o.PkScript}
					break
				}
			}
			if forced == nil {
				break
			}
			ts.Ins = ts.Ins[:1]
		}
		if op.K == "flood" {
			ts.Rate = mod(op.Tx.Rate+i*(1+op.Pick%5), len(feeRates)-1) + 1
			ins := append([]InSel{}, ts.Ins...)
			for k := range ins {
				ins[k].Sel += i * 7
				if i%3 == 1 {
					ins[k].Src = 1
				}
			}
			ts.Ins = ins
		}
		b := r.buildTx(&ts, cd, forced)
		if b == nil {
			break
		}
		r.submit(b, op.Path, cd)
		prev = b
		if err := r.check(op); err != nil {
			return fmt.Errorf("after transaction %d of the series: %v", i, err)
		}
		if op.K == "chain" && !inPool(b.id) {
			break
		}
	}
	return nil
}

// ---------------------------------------------------------------------------------------------
// tick / expiry

func (r *run) tick(op Op) {
	if op.Ring >= 100 {
		common.LockCfg()
		common.CFG.TXPool.RejectRecCnt = uint16(op.Ring)
		common.UnlockCfg()
	}
	txpool.TxMutex.Lock()
	pool, _ := r.readPoolLocked()
	age := 15 * 24 * time.Hour
	if op.Arg&2 != 0 {
		age = 13 * 24 * time.Hour
	}
	for i := 0; i < op.N && len(pool) > 0; i++ {
		p := pool[mod(op.Pick+i*3, len(pool))]
		p.t2s.Lastseen = time.Now().Add(-age)
	}
	before := len(txpool.TransactionsToSend)
	if op.Arg&1 != 0 {
		txpool.VerifForceExpireDue()
	}
	txpool.TxMutex.Unlock()
	txpool.Tick()
	txpool.TxMutex.Lock()
	if len(txpool.TransactionsToSend) < before {
		r.st.expired = true
	}
	txpool.TxMutex.Unlock()
}

// ---------------------------------------------------------------------------------------------
// save / load

type savedTx struct {
	raw                 []byte
	fee, volume, sigops uint64
	local, final        bool
	memInputs           []bool
	memInputCnt         uint32
}

func snapshotPoolLocked() map[[32]byte]savedTx {
	m := map[[32]byte]savedTx{}
	for _, t := range txpool.TransactionsToSend {
		m[t.Hash.Hash] = savedTx{raw: append([]byte{}, t.Raw...), fee: t.Fee, volume: t.Volume, sigops: t.SigopsCost, local: t.Local, final: t.Final,
			memInputs: append([]bool(nil), t.MemInputs...), memInputCnt: t.MemInputCnt}
	}
	return m
}

func (r *run) saveLoad(op Op) error {
	r.syncLast()
	txpool.TxMutex.Lock()
	before := snapshotPoolLocked()
	txpool.TxMutex.Unlock()
	txpool.MempoolSave(true)
	faulted, ferr := r.faultFile(op, len(before))
	if ferr != nil {
		return ferr
	}
	if op.Arg&1 != 0 {
		// a restart: the chain is closed and opened again between saving and loading
		if err := r.s.Step(sim.Op{Kind: "reopen"}); err != nil {
			return err
		}
		common.BlockChain = r.s.Node.Ch
		r.syncLast()
		r.st.restart = true
	}
	if faulted || op.Arg&1 != 0 {
		// what a freshly started process would not have
		txpool.TxMutex.Lock()
		txpool.TransactionsPending = make(map[btc.BIDX]bool)
		txpool.CurrentFeeAdjustedSPKB = 0
		txpool.VerifResetTimers()
		txpool.TxMutex.Unlock()
	}
	loaded := txpool.MempoolLoad()
	if !loaded && !faulted {
		return fmt.Errorf("MempoolLoad() refused the file MempoolSave(true) had just written at the same tip")
	}
	txpool.TxMutex.Lock()
	after := snapshotPoolLocked()
	nSpent, nRej := len(txpool.SpentOutputs), len(txpool.TransactionsRejected)
	txpool.TxMutex.Unlock()
	how := ""
	if faulted {
		how = fmt.Sprintf(" [the file was damaged between save and load: %s; MempoolLoad() returned %v]", r.lastFault, loaded)
		if loaded {
			r.st.label("load_accepted_damaged_file")
		} else {
			r.st.label("load_refused_damaged_file")
		}
		// the node runs on with whatever MempoolLoad left behind: the empty pool, or everything that was saved
		if len(after) == 0 {
			if nSpent != 0 {
				return fmt.Errorf("save + load: the pool is empty but SpentOutputs keeps %d entries%s", nSpent, how)
			}
			if nRej != 0 && !loaded {
				return fmt.Errorf("save + load: the pool is empty after a refused load but %d rejected records were kept%s", nRej, how)
			}
			return r.check(op)
		}
	}
	if len(before) > 0 {
		r.st.savedNonEmpty = true
	}
	if len(after) != len(before) {
		return fmt.Errorf("save + load: %d transactions before, %d after%s", len(before), len(after), how)
	}
	for id, a := range before {
		b, ok := after[id]
		if !ok {
			return fmt.Errorf("save + load: transaction %x is gone%s", revHex(id), how)
		}
		if !bytes.Equal(a.raw, b.raw) {
			return fmt.Errorf("save + load: transaction %x came back with different bytes", revHex(id))
		}
		if a.fee != b.fee || a.volume != b.volume || a.sigops != b.sigops || a.local != b.local || a.final != b.final {
			return fmt.Errorf("save + load: transaction %x: fee/volume/sigops/local/final %d/%d/%d/%v/%v became %d/%d/%d/%v/%v", revHex(id),
				a.fee, a.volume, a.sigops, a.local, a.final, b.fee, b.volume, b.sigops, b.local, b.final)
		}
		if a.memInputCnt != b.memInputCnt || fmt.Sprint(a.memInputs) != fmt.Sprint(b.memInputs) {
			return fmt.Errorf("save + load: transaction %x: MemInputs %v (%d) became %v (%d)%s", revHex(id), a.memInputs, a.memInputCnt, b.memInputs, b.memInputCnt, how)
		}
	}
	return r.check(op)
}

// faultFile damages mempool.dmp between save and load (op.Fault: 1 truncate, 2 flip a byte, 3 remove the file;
// op.Off selects where).  The fault model is a crash, a kill or a full disk during the non-atomic MempoolSave
// (truncation at any offset) plus a lost file; byte flips are confined to bytes the format lets the loader verify
// (block hash, version field, end marker) - the file carries no checksum, so a flipped payload byte is outside what
// the node can notice and is not asserted.
func (r *run) faultFile(op Op, nSaved int) (bool, error) {
	if op.Fault == 0 {
		return false, nil
	}
	fn := common.GocoinHomeDir + txpool.MEMPOOL_FILE_NAME
	data, err := os.ReadFile(fn)
	if err != nil {
		return false, fmt.Errorf("MempoolSave(true) left no %s: %v", txpool.MEMPOOL_FILE_NAME, err)
	}
	size := len(data)
	// layout: 32 bytes tip hash | version | count | count x (len, raw, 56 bytes) | count | rejected records | END_OF_FILE
	vlen := func(p int) (uint64, int) {
		if p >= size {
			return 0, size
		}
		switch b := data[p]; {
		case b < 0xfd:
			return uint64(b), p + 1
		case b == 0xfd && p+3 <= size:
			return uint64(data[p+1]) | uint64(data[p+2])<<8, p + 3
		case b == 0xfe && p+5 <= size:
			return uint64(data[p+1]) | uint64(data[p+2])<<8 | uint64(data[p+3])<<16 | uint64(data[p+4])<<24, p + 5
		case b == 0xff && p+9 <= size:
			v := uint64(0)
			for i := 0; i < 8; i++ {
				v |= uint64(data[p+1+i]) << (8 * uint(i))
			}
			return v, p + 9
		}
		return 0, size
	}
	_, verEnd := vlen(32)
	cnt, hdrEnd := vlen(verEnd)
	p := hdrEnd
	var txStarts, txEnds []int
	for i := uint64(0); i < cnt && p < size; i++ {
		l, q := vlen(p)
		txStarts = append(txStarts, p)
		p = q + int(l) + 56
		if p > size {
			p = size
		}
		txEnds = append(txEnds, p)
	}
	secEnd := p
	marker := size - len(txpool.END_MARKER)
	switch op.Fault {
	case 3:
		os.Remove(fn)
		r.lastFault = "file removed"
		r.st.label("load_file_removed")
		return true, nil
	case 2:
		var spots []int
		for i := 0; i < 32; i++ {
			spots = append(spots, i)
		}
		for i := 32; i < verEnd; i++ {
			spots = append(spots, i)
		}
		for i := marker; i < size; i++ {
			spots = append(spots, i)
		}
		at := spots[mod(op.Off, len(spots))]
		data[at] ^= 1 << uint(mod(op.Off/7, 8))
		if err := os.WriteFile(fn, data, 0o660); err != nil {
			return false, err
		}
		r.lastFault = fmt.Sprintf("byte %d of %d flipped", at, size)
		r.st.label("load_flipped_byte")
		return true, nil
	}
	// truncation
	cands := []int{0, 1, 31, 32, verEnd, hdrEnd - 1, hdrEnd, secEnd, secEnd + 1, marker, marker + 5, size - 1}
	for i := range txStarts {
		cands = append(cands, txStarts[i]+1, (txStarts[i]+txEnds[i])/2, txEnds[i]-57, txEnds[i]-1, txEnds[i])
	}
	if secEnd+1 < marker {
		cands = append(cands, (secEnd+marker)/2)
	}
	// pick the region first (header / saved transactions / rejected records / end marker), then a structural
	// offset inside it or any offset of it
	regions := [][2]int{{0, hdrEnd}, {hdrEnd, secEnd}, {hdrEnd, secEnd}, {hdrEnd, secEnd}, {secEnd, marker}, {secEnd, marker}, {marker, size}, {marker, size}}
	reg := regions[mod(op.Off, len(regions))]
	for i := 1; reg[0] >= reg[1] && i <= len(regions); i++ {
		reg = regions[mod(op.Off+i, len(regions))]
	}
	var in []int
	for _, c := range cands {
		if c >= reg[0] && c < reg[1] {
			in = append(in, c)
		}
	}
	at := reg[0] + mod(op.Off/8, reg[1]-reg[0])
	if len(in) > 0 && (op.Off/8)%3 != 0 {
		at = in[mod(op.Off/24, len(in))]
	}
	if at < 0 {
		at = 0
	}
	if at >= size {
		at = size - 1
	}
	if err := os.Truncate(fn, int64(at)); err != nil {
		return false, err
	}
	where := "header"
	switch {
	case at >= marker:
		where = "end_marker"
	case at >= secEnd:
		where = "rejected_section"
	case at >= hdrEnd:
		where = "transaction_section"
	}
	r.lastFault = fmt.Sprintf("truncated to %d of %d bytes, in the %s", at, size, where)
	r.st.label("load_truncated_in_" + where)
	if where == "transaction_section" && nSaved > 0 {
		r.st.label("load_truncated_inside_saved_transactions")
	}
	return true, nil
}

func revHex(h [32]byte) []byte {
	var o [32]byte
	for i := range h {
		o[31-i] = h[i]
	}
	return o[:]
}

// ---------------------------------------------------------------------------------------------
// a block assembled from the listing

func (r *run) mine(op Op) error {
	s := r.s
	parent := s.Tip
	height := parent.Idx.Height + 1
	flags := consensus.BlockScriptFlags(height, s.P)

	txpool.TxMutex.Lock()
	var list []*txpool.OneTxToSend
	which := "GetSortedMempoolRBF()"
	if op.Arg&1 != 0 {
		which = "GetSortedMempool()"
		list = txpool.GetSortedMempool()
	} else {
		list = txpool.GetSortedMempoolRBF()
	}
	raws := make([][]byte, 0, len(list))
	recorded := make([]uint64, 0, len(list))
	for _, t := range list {
		recorded = append(recorded, t.SigopsCost)
		if t == nil || t.Tx == nil {
			txpool.TxMutex.Unlock()
			return fmt.Errorf("%s returned a nil entry", which)
		}
		raws = append(raws, append([]byte{}, t.Raw...))
	}
	txpool.TxMutex.Unlock()

	budget := consensus.MaxBlockWeight - 4000
	if op.N > 0 {
		budget = op.N * 600
	}
	view := parent.View
	inBlock := map[[36]byte]consensus.Coin{} // outputs created in the block, not yet spent in it
	usedConf := map[[36]byte]bool{}
	var txs []*wire.Tx
	var fees uint64
	weight, sigops := 0, 0
	recSigops := uint64(0)
	resolve := func(tx *wire.Tx) ([]consensus.Coin, bool) {
		coins := make([]consensus.Coin, len(tx.In))
		for j, in := range tx.In {
			k := consensus.OutKey(in.PrevHash, in.PrevIndex)
			if c, ok := inBlock[k]; ok {
				coins[j] = c
			} else if c, ok := view[k]; ok && !usedConf[k] {
				coins[j] = c
			} else {
				return nil, false
			}
		}
		return coins, true
	}
	add := func(tx *wire.Tx, coins []consensus.Coin) {
		var vin, vout uint64
		for j, in := range tx.In {
			k := consensus.OutKey(in.PrevHash, in.PrevIndex)
			if _, ok := inBlock[k]; ok {
				delete(inBlock, k)
			} else {
				usedConf[k] = true
			}
			if coins != nil {
				vin += coins[j].Value
			}
		}
		id := tx.TxID()
		for j, o := range tx.Out {
			vout += o.Value
			inBlock[consensus.OutKey(id, uint32(j))] = consensus.Coin{Value: o.Value, Script: o.PkScript, Height: height}
		}
		if coins != nil && vin >= vout {
			fees += vin - vout
		}
		txs = append(txs, tx)
	}
	included := map[[32]byte]bool{}
	var entryCoins [][]consensus.Coin
	coinHeights := func(coins []consensus.Coin) []uint32 {
		hs := make([]uint32, len(coins))
		for i, c := range coins {
			hs[i] = c.Height
		}
		return hs
	}
	for i, raw := range raws {
		tx, n, err := wire.DecodeTx(raw)
		if err != nil || n != len(raw) {
			return fmt.Errorf("%s entry %d does not decode", which, i)
		}
		w := tx.Weight()
		if weight+w > budget {
			r.st.minedPartial = true
			break
		}
		coins, ok := resolve(tx)
		cost := 0
		if ok {
			cost = consensus.TxSigOpCost(tx, coins, flags)
		}
		// the sig-op budget is kept with the costs the pool RECORDED, the way rpcapi.GetWork does it
		if recSigops+recorded[i] > consensus.MaxBlockSigOpsCost {
			r.st.minedPartial = true
			r.st.label("block_capped_by_sigops")
			break
		}
		weight += w
		sigops += cost
		recSigops += recorded[i]
		if ok {
			add(tx, coins)
		} else {
			add(tx, nil) // the reference cannot resolve an input: the block will be refused and reported below
		}
		entryCoins = append(entryCoins, coins)
		included[tx.TxID()] = true
	}
	fromPool := len(txs)

	// foreign transactions: unknown to the pool / conflicting with pooled transactions that stay outside
	if op.Arg&6 != 0 {
		cd, err := r.candidates()
		if err != nil {
			return err
		}
		extraBudget := budget + 40000
		tryAdd := func(b *built) bool {
			if included[b.id] || !b.valid {
				return false
			}
			coins, ok := resolve(b.tx)
			if !ok {
				return false
			}
			for _, c := range coins {
				if c.Coinbase && height-c.Height < consensus.CoinbaseMaturity {
					return false
				}
			}
			if !consensus.IsFinalTx(b.tx, height, int64(parent.Idx.MedianTimePast())) || consensus.CheckTransaction(b.tx) != nil {
				return false
			}
			if !seqLocksReached(b.tx, coinHeights(coins), parent.Idx) {
				return false
			}
			var vin, vout uint64
			for _, c := range coins {
				vin += c.Value
			}
			for _, o := range b.tx.Out {
				vout += o.Value
			}
			if vin < vout || weight+b.tx.Weight() > extraBudget {
				return false
			}
			cost := consensus.TxSigOpCost(b.tx, coins, flags)
			if sigops+cost > consensus.MaxBlockSigOpsCost || recSigops+uint64(cost) > consensus.MaxBlockSigOpsCost {
				return false
			}
			weight += b.tx.Weight()
			sigops += cost
			recSigops += uint64(cost)
			add(b.tx, coins)
			included[b.id] = true
			return true
		}
		if op.Arg&2 != 0 {
			// a withheld transaction, if it is still spendable, else a fresh spend of a free confirmed output
			done := false
			for i := 0; i < len(r.withheld) && !done; i++ {
				id := r.withheld[mod(op.Pick+i, len(r.withheld))]
				if tryAdd(r.built[id]) {
					done = true
					r.st.label("mined_withheld_parent")
					if op.Arg&8 != 0 {
						// ... and, in the same block, a spender of one of its outputs (what an orphan waiting for
						// this parent may want to spend too)
						for j, o := range r.built[id].tx.Out {
							if r.spendable(o.PkScript) && o.Value > 0 {
								c := coinRef{consensus.OutKey(id, uint32(j)), o.Value, o.PkScript}
								ts := &TxSpec{Ins: []InSel{{}}, Outs: []sim.OutSpec{{Fam: 0, Share: 1}}, Rate: 3}
								if b := r.buildTx(ts, cd, &c); b != nil && tryAdd(b) {
									r.st.label("mined_withheld_parent_and_spender")
								}
								break
							}
						}
					}
				}
			}
			ts := &TxSpec{Ins: []InSel{{Src: 0, Sel: op.Pick}}, Outs: []sim.OutSpec{{Fam: op.Pick, Share: 40, N: op.Pick}, {Fam: 0, Share: 60}}, Rate: 3}
			if b := r.buildTx(ts, cd, nil); b != nil && tryAdd(b) {
				r.st.minedWithExtras = true
			}
		}
		if op.Arg&4 != 0 {
			// spends a confirmed output that a pooled transaction left outside the block spends too
			var l []coinRef
			for _, c := range cd.confSpent {
				if !included[cd.spentBy[c.key]] {
					l = append(l, c)
				}
			}
			// ... or an output of an included pooled transaction that a pooled child left outside spends
			for _, c := range cd.poolSpent {
				var pid [32]byte
				copy(pid[:], c.key[:32])
				if included[pid] && !included[cd.spentBy[c.key]] {
					l = append(l, c)
				}
			}
			if len(l) > 0 {
				c := l[mod(op.Pick, len(l))]
				ts := &TxSpec{Ins: []InSel{{}}, Outs: []sim.OutSpec{{Fam: 0, Share: 1}}, Rate: 4}
				if b := r.buildTx(ts, cd, &c); b != nil && tryAdd(b) {
					r.st.minedWithExtras = true
					r.st.label("mined_conflict_with_pool")
				}
			}
		}
	}

	n, err := r.ownBlock(parent, txs, fees, op.DT, op.Net)
	what := fmt.Sprintf("block at height %d assembled from the first %d of %d entries of %s (weight budget %d) plus %d foreign transactions", height, fromPool, len(raws), which, budget, len(txs)-fromPool)
	if err != nil {
		if _, ok := err.(*sim.Excluded); ok {
			return err
		}
		return fmt.Errorf("%s: %v", what, err)
	}
	if s.Tip != n {
		reason := n.CheckErr
		if reason == nil {
			reason = n.ConnErr
		}
		detail := ""
		timeLockedOnly := true
		offenders := 0
		for i, tx := range txs[:fromPool] {
			if entryCoins[i] != nil && !seqLocksReached(tx, coinHeights(entryCoins[i]), parent.Idx) {
				offenders++
				detail += fmt.Sprintf("; entry %d (%x): a relative lock (BIP68) is not reached at height %d / median time %d", i, revHex(tx.TxID()), height, parent.Idx.MedianTimePast())
			}
			if e := consensus.CheckTransaction(tx); e != nil {
				detail += fmt.Sprintf("; entry %d (%x): %v", i, revHex(tx.TxID()), e)
			}
			if !consensus.IsFinalTx(tx, height, int64(parent.Idx.MedianTimePast())) {
				if tx.LockTime < consensus.LocktimeThreshold {
					timeLockedOnly = false
				}
				offenders++
				detail += fmt.Sprintf("; entry %d (%x) is not final at height %d / median time %d (lock time %d)", i, revHex(tx.TxID()), height, parent.Idx.MedianTimePast(), tx.LockTime)
			}
		}
		msg := fmt.Sprintf("%s was refused by the node's block validation (the reference refuses it too: %v)%s", what, reason, detail)
		if reason != nil && (reason.Error() == "bad-txns-nonfinal" || reason.Error() == "bad-txns-nonfinal (BIP68)") && timeLockedOnly && offenders > 0 {
			return &refusedNonFinal{msg}
		}
		return fmt.Errorf("%s", msg)
	}
	r.st.minedBlocks++
	r.st.minedTxs += fromPool
	return r.check(op)
}

// ownBlock builds a block with the given transactions on parent (any known node), registers it with the
// engine and hands it to the node through the engine's delivery (which keeps model and node in lock-step).
func (r *run) ownBlock(parent *sim.MNode, txs []*wire.Tx, fees uint64, dt int, net bool) (*sim.MNode, error) {
	s := r.s
	height := parent.Idx.Height + 1
	hdr := wire.Header{Version: 4, PrevBlock: parent.Idx.Hash, Bits: consensus.NextWorkRequired(parent.Idx, s.P)}
	hdr.Time = parent.Idx.MedianTimePast() + 1 + uint32(mod(dt, 1200))
	r.extra++
	cb := env.Coinbase(height, []wire.TxOut{{Value: consensus.BlockSubsidy(height) + fees, PkScript: s.B.True()}}, 1<<62|r.extra, false)
	blk := &wire.Block{Header: hdr, Txs: append([]*wire.Tx{cb}, txs...)}
	hasWit := false
	for _, t := range txs {
		if t.HasWitness() {
			hasWit = true
		}
	}
	env.FinishBlock(blk, hasWit)

	n := &sim.MNode{Parent: parent, Block: blk, Raw: blk.Serialize(true)}
	n.Idx = parent.Idx.Child(&blk.Header)
	if err := consensus.CheckHeader(&blk.Header, parent.Idx, s.P, time.Now().Unix()); err != nil {
		n.CheckErr = err
	} else {
		n.CheckErr = consensus.CheckBlock(blk, parent.Idx, s.P)
	}
	s.Nodes = append(s.Nodes, n)
	s.Held = append(s.Held, n)
	pick, k := -1, 0
	for _, h := range s.Held {
		if h.Parent.Delivered {
			if h == n {
				pick = k
			}
			k++
		}
	}
	if net {
		txpool.BlockCommitInProgress(true)
	}
	err := s.Step(sim.Op{Kind: "deliver", Pick: pick})
	if net {
		txpool.BlockCommitInProgress(false)
	}
	r.syncLast()
	return n, err
}

// deepReorg replaces the last 100+k blocks of the active chain by a longer branch of empty blocks: the
// coinbases that pooled transactions may have spent disappear with their blocks.
func (r *run) deepReorg(op Op) error {
	s := r.s
	depth := consensus.CoinbaseMaturity + 1 + uint32(mod(op.Arg, 8))
	if s.Tip.Idx.Height < depth {
		depth = s.Tip.Idx.Height
	}
	if depth == 0 {
		return nil
	}
	fork := s.Tip
	for i := uint32(0); i < depth; i++ {
		fork = fork.Parent
	}
	old := s.Tip
	parent := fork
	for i := uint32(0); i <= depth; i++ {
		n, err := r.ownBlock(parent, nil, 0, op.DT+int(i)*37, op.Net && i == depth)
		if err != nil {
			return fmt.Errorf("deep reorganisation, side block %d: %v", i, err)
		}
		parent = n
	}
	if s.Tip != parent {
		return fmt.Errorf("deep reorganisation: the branch of %d empty blocks from height %d did not become the active chain (old tip height %d)", depth+1, fork.Idx.Height, old.Idx.Height)
	}
	r.st.label("deep_reorg")
	return r.check(op)
}

// sigFlood: one transaction with N P2SH outputs whose redeem script holds 90 x "OP_16 OP_CHECKMULTISIG" (5760
// units of sig-op cost per spend), then N transactions each spending one of them through op.Path - together more
// than a block's 80000.  A "mine" that follows has to stop at the sig-op budget, which it keeps with the RECORDED
// costs (like rpcapi.GetWork).
func (r *run) sigFlood(op Op) error {
	n := op.N
	if n < 2 {
		n = 2
	}
	if n > 30 {
		n = 30
	}
	cd, err := r.candidates()
	if err != nil {
		return err
	}
	fan := &TxSpec{Ins: []InSel{{Src: 0, Sel: op.Pick}}, Rate: 5}
	for i := 0; i < n; i++ {
		fan.Outs = append(fan.Outs, sim.OutSpec{Fam: 13 + mod(op.Arg, 3), Share: 5, N: 5})
	}
	f := r.buildTx(fan, cd, nil)
	if f == nil {
		return nil
	}
	r.submit(f, 0, cd)
	if err := r.check(op); err != nil {
		return err
	}
	if !inPool(f.id) {
		return nil
	}
	for j, o := range f.tx.Out {
		if !r.heavy[string(o.PkScript)] || o.Value == 0 {
			continue
		}
		cd, err = r.candidates()
		if err != nil {
			return err
		}
		c := coinRef{consensus.OutKey(f.id, uint32(j)), o.Value, o.PkScript}
		ts := &TxSpec{Ins: []InSel{{}}, Outs: []sim.OutSpec{{Fam: 0, Share: 1}}, Rate: 2 + mod(j, 6)}
		b := r.buildTx(ts, cd, &c)
		if b == nil {
			continue
		}
		r.submit(b, op.Path, cd)
		if err := r.check(op); err != nil {
			return fmt.Errorf("after spend %d of the series: %v", j, err)
		}
	}
	r.st.label("sigop_flood")
	return nil
}
