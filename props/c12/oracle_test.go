package c12

import (
	"bytes"
	"fmt"
	"os"

	"github.com/piotrnar/gocoin/client/common"
	"github.com/piotrnar/gocoin/client/txpool"
	"github.com/piotrnar/gocoin/lib/btc"
	"verif/ref/consensus"
	"verif/sim"
)

// confirmedTxs: ids of the non-coinbase transactions of the active chain (model).
func (r *run) confirmedTxs() map[[32]byte]bool {
	out := map[[32]byte]bool{}
	for n := r.s.Tip; n != nil && n.Parent != nil; n = n.Parent {
		ids, ok := r.blockTxs[n]
		if !ok {
			if n.Block != nil {
				for _, tx := range n.Block.Txs[1:] {
					ids = append(ids, tx.TxID())
				}
			}
			r.blockTxs[n] = ids
		}
		for _, id := range ids {
			out[id] = true
		}
	}
	return out
}

func short(id [32]byte) string { return fmt.Sprintf("%x", revHex(id)[:6]) }

// check recomputes the invariants of the property from scratch.  Everything is derived from the exported
// maps and the raw bytes the pool holds, decoded by the reference; outpoints are compared in full.
func (r *run) check(op Op) error {
	r.st.checks++
	view := r.s.Tip.View
	confirmed := r.confirmedTxs()
	sigFlags := consensus.BlockScriptFlags(r.s.Tip.Idx.Height+1, r.s.P)

	txpool.TxMutex.Lock()
	defer txpool.TxMutex.Unlock()

	pool, err := r.readPoolLocked()
	if err != nil {
		return err
	}
	byID := make(map[[32]byte]*poolTx, len(pool))
	for i := range pool {
		p := &pool[i]
		if p.t2s.Hash.Hash != p.id {
			return fmt.Errorf("pooled transaction %s: recorded id differs from the id of its bytes %x", p.t2s.Hash.String(), revHex(p.id))
		}
		if q, dup := byID[p.id]; dup && q != p {
			return fmt.Errorf("transaction %s is in the pool twice", short(p.id))
		}
		byID[p.id] = p
	}
	for bidx, t2s := range txpool.TransactionsToSend {
		if btc.BIdx(t2s.Hash.Hash[:]) != bidx {
			return fmt.Errorf("TransactionsToSend[%x] holds transaction %s", bidx[:], t2s.Hash.String())
		}
	}

	// no two pooled transactions spend the same outpoint; the expected index of pooled inputs
	spender := map[[36]byte][32]byte{}
	wantIdx := map[uint64]btc.BIDX{}
	var totWeight uint64
	for i := range pool {
		p := &pool[i]
		for _, in := range p.tx.In {
			k := consensus.OutKey(in.PrevHash, in.PrevIndex)
			if other, ok := spender[k]; ok && other != p.id {
				return fmt.Errorf("pooled transactions %s and %s both spend %x:%d", short(other), short(p.id), revHex(in.PrevHash)[:6], in.PrevIndex)
			}
			spender[k] = p.id
			wantIdx[btc.UIdx(in.PrevHash[:], in.PrevIndex)] = btc.BIdx(p.id[:])
		}
	}
	if len(wantIdx) != len(txpool.SpentOutputs) {
		return fmt.Errorf("SpentOutputs has %d entries, the pooled transactions spend %d outpoints", len(txpool.SpentOutputs), len(wantIdx))
	}
	for k, v := range wantIdx {
		got, ok := txpool.SpentOutputs[k]
		if !ok {
			return fmt.Errorf("SpentOutputs lacks the entry %016x for an input of pooled transaction %x", k, v[:])
		}
		if got != v {
			return fmt.Errorf("SpentOutputs[%016x] names %x, the input belongs to pooled transaction %x", k, got[:], v[:])
		}
	}

	// per transaction: inputs, MemInputs, fee, sizes
	for i := range pool {
		p := &pool[i]
		t := p.t2s
		if confirmed[p.id] {
			return fmt.Errorf("pooled transaction %s is already confirmed in the active chain", short(p.id))
		}
		if t.MemInputs != nil && len(t.MemInputs) != len(p.tx.In) {
			return fmt.Errorf("pooled transaction %s: MemInputs has %d flags for %d inputs", short(p.id), len(t.MemInputs), len(p.tx.In))
		}
		var vin, vout uint64
		var memCnt uint32
		parents := map[[32]byte]bool{}
		coins := make([]consensus.Coin, len(p.tx.In))
		for j, in := range p.tx.In {
			k := consensus.OutKey(in.PrevHash, in.PrevIndex)
			par := byID[in.PrevHash]
			fromPool := par != nil && int(in.PrevIndex) < len(par.tx.Out)
			coin, fromChain := view[k]
			flag := t.MemInputs != nil && t.MemInputs[j]
			switch {
			case fromPool && fromChain:
				return fmt.Errorf("pooled transaction %s input %d spends %s:%d, which is both confirmed-unspent and an output of pooled transaction %s (the parent duplicates the chain)", short(p.id), j, short(in.PrevHash), in.PrevIndex, short(par.id))
			case fromPool:
				coins[j] = consensus.Coin{Value: par.tx.Out[in.PrevIndex].Value, Script: par.tx.Out[in.PrevIndex].PkScript}
				vin += par.tx.Out[in.PrevIndex].Value
				memCnt++
				parents[par.id] = true
				if !flag {
					return fmt.Errorf("pooled transaction %s input %d spends an output of pooled transaction %s, but its MemInputs flag is not set", short(p.id), j, short(par.id))
				}
			case fromChain:
				coins[j] = coin
				vin += coin.Value
				if flag {
					return fmt.Errorf("pooled transaction %s input %d spends the confirmed output %s:%d, but its MemInputs flag is set", short(p.id), j, short(in.PrevHash), in.PrevIndex)
				}
			default:
				why := "it is unknown to chain and pool"
				if par != nil {
					why = fmt.Sprintf("pooled transaction %s has only %d outputs", short(par.id), len(par.tx.Out))
				} else if confirmed[in.PrevHash] {
					why = "it was spent in the active chain (or never existed in that confirmed transaction)"
				} else if b := r.built[in.PrevHash]; b != nil {
					why = "its transaction is neither confirmed nor pooled (any more)"
				}
				return fmt.Errorf("pooled transaction %s input %d spends %s:%d, which is neither an unspent confirmed output nor an output of a pooled transaction: %s (MemInputs flag %v)", short(p.id), j, short(in.PrevHash), in.PrevIndex, why, flag)
			}
		}
		if len(parents) > 0 {
			r.st.parentChild = true
		}
		if len(parents) > 1 {
			r.st.diamond = true
		}
		if t.MemInputCnt != memCnt {
			return fmt.Errorf("pooled transaction %s: MemInputCnt %d, %d inputs come from the pool", short(p.id), t.MemInputCnt, memCnt)
		}
		for _, o := range p.tx.Out {
			vout += o.Value
		}
		if vin < vout || t.Fee != vin-vout {
			return fmt.Errorf("pooled transaction %s: recorded fee %d, inputs %d - outputs %d", short(p.id), t.Fee, vin, vout)
		}
		nowit := len(p.tx.Serialize(false))
		if int(t.Size) != len(t.Raw) || int(t.NoWitSize) != nowit {
			return fmt.Errorf("pooled transaction %s: recorded size %d / stripped size %d, real %d / %d", short(p.id), t.Size, t.NoWitSize, len(t.Raw), nowit)
		}
		if t.Weight() != p.tx.Weight() || t.VSize() != p.tx.VSize() {
			return fmt.Errorf("pooled transaction %s: recorded weight %d / vsize %d, reference %d / %d", short(p.id), t.Weight(), t.VSize(), p.tx.Weight(), p.tx.VSize())
		}
		// the recorded sig-op cost (what the node's own block template code budgets with) = GetTransactionSigOpCost
		if want := consensus.TxSigOpCost(p.tx, coins, sigFlags); t.SigopsCost != uint64(want) && os.Getenv("VERIF_C12_NO_SIGOPS_ORACLE") == "" {
			return fmt.Errorf("pooled transaction %s: recorded SigopsCost %d, the reference counts %d (4 x legacy + 4 x P2SH redeem script + witness sig-ops of the spent outputs)", short(p.id), t.SigopsCost, want)
		} else if want >= 1000 {
			r.st.label("sigop_heavy_tx_pooled")
			if r.undone[p.id] {
				r.st.label("sigop_heavy_tx_returned_by_undo")
			}
		}
		totWeight += uint64(p.tx.Weight())
	}
	if txpool.TransactionsToSendWeight != totWeight {
		return fmt.Errorf("TransactionsToSendWeight is %d, the pooled transactions weigh %d", txpool.TransactionsToSendWeight, totWeight)
	}

	// the listings: permutations of the pool, parents first
	checkList := func(name string, l []*txpool.OneTxToSend) error {
		if len(l) != len(pool) {
			return fmt.Errorf("%s lists %d transactions, the pool holds %d", name, len(l), len(pool))
		}
		pos := make(map[[32]byte]int, len(l))
		for i, t := range l {
			if t == nil || t.Tx == nil {
				return fmt.Errorf("%s: entry %d is nil", name, i)
			}
			if txpool.TransactionsToSend[t.Hash.BIdx()] != t {
				return fmt.Errorf("%s: entry %d (%s) is not a pooled transaction", name, i, t.Hash.String())
			}
			if _, dup := pos[t.Hash.Hash]; dup {
				return fmt.Errorf("%s lists %s twice", name, t.Hash.String())
			}
			pos[t.Hash.Hash] = i
		}
		for i, t := range l {
			p := byID[t.Hash.Hash]
			for _, in := range p.tx.In {
				if j, ok := pos[in.PrevHash]; ok && j > i {
					return fmt.Errorf("%s places %s (entry %d) before its parent %s (entry %d)", name, short(p.id), i, short(in.PrevHash), j)
				}
			}
		}
		return nil
	}
	if err := checkList("GetSortedMempool()", txpool.GetSortedMempool()); err != nil {
		return err
	}
	if !op.NoL || op.K == "end" {
		if err := checkList("GetSortedMempoolRBF()", txpool.GetSortedMempoolRBF()); err != nil {
			return err
		}
	}

	// the package's own checker
	if txpool.MempoolCheck() {
		return fmt.Errorf("txpool.MempoolCheck() reports an inconsistency: %s", captureMempoolCheck())
	}
	return nil
}

// captureMempoolCheck runs the checker again with os.Stdout pointing to a file, to quote what it printed.
func captureMempoolCheck() string {
	f, err := os.CreateTemp("", "c12-mpcheck-")
	if err != nil {
		return "(cannot capture the output)"
	}
	defer os.Remove(f.Name())
	old := os.Stdout
	os.Stdout = f
	txpool.MempoolCheck()
	os.Stdout = old
	f.Close()
	b, _ := os.ReadFile(f.Name())
	if len(b) > 1500 {
		b = b[:1500]
	}
	return string(bytes.ReplaceAll(bytes.TrimSpace(b), []byte("\n"), []byte(" | ")))
}

// counters of the client that tell which paths a history went through
func (r *run) harvestCounters() {
	common.CounterMutex.Lock()
	defer common.CounterMutex.Unlock()
	if common.Counter["TxRetryAccepted"] > 0 {
		r.st.orphanResolved = true
	}
	if common.Counter["TxPurgedSizCnt"] > 0 {
		r.st.evicted = true
	}
	if common.Counter["TxPoolExpParent"] > 0 {
		r.st.expired = true
	}
	if common.Counter["TxSortBuildNeeded"] > 0 {
		r.st.label("sort_list_rebuilt")
	}
	if common.Counter["TxPkgsAddAppend"] > 0 || common.Counter["TxPkgsAddNew"] > 0 {
		r.st.label("packages_maintained_incrementally")
	}
	if common.Counter["TxPkgsDelTx"] > 0 {
		r.st.label("package_shrunk")
	}
	if common.Counter["TxMinedMeminCnt"] > 0 {
		r.st.label("parent_mined_child_stays")
	}
	if common.Counter["TxPutBackMemIn"] > 0 {
		r.st.label("parent_unmined_child_in_pool")
	}
	if common.Counter["TxRLimNumberCount"] > 0 {
		r.st.label("reject_ring_wrapped")
	}
	if common.Counter["TxRLimNoUtxoCount"] > 0 {
		r.st.label("orphans_purged_by_size")
	}
	if common.Counter["TxRLimSizCount"] > 0 {
		r.st.label("rejected_purged_by_size")
	}
}

var _ = sim.Op{}
