package c11

import (
	"bufio"
	"bytes"
	"encoding/binary"
	"encoding/json"
	"fmt"
	"io"
	"os"
	"path/filepath"
	"runtime"
	"strconv"
	"testing"

	"github.com/piotrnar/gocoin/lib/others/vhook"
	"github.com/piotrnar/gocoin/lib/utxo"
	"pgregory.net/rapid"
	"verif/env"
	"verif/pbt"
	"verif/ref/consensus"
	"verif/sim"
)

// C11: block processing is race-free and schedule independent.  The histories are C04/C06 histories
// scaled so that every parallel path is taken; they run under the race detector, with GOMAXPROCS drawn
// per case and pseudo-random yields / sleeps injected at the vhook points (VERIF_YIELD).  Verdicts, tip
// and UTXO set are compared with the sequential reference model after every step, and every UTXO.db
// that is visible under its final name is decoded and compared with the model's set at exactly the
// block its header names.

type Case struct {
	Sim      sim.Case `json:"sim"`
	Procs    int      `json:"gomaxprocs"`
	Yield    uint64   `json:"yield_seed"` // 0 = no injected yields
	Compress bool     `json:"compress_utxo"`
	Observer bool     `json:"utxo_callbacks,omitempty"` // UTXO callbacks installed (the client with its wallet on)
}

func TestMain(m *testing.M) {
	env.Quiet()
	env.UseClientAllocator() // records live in the client's recycling allocator, as in the running node
	os.Setenv("VERIF_TRACK_CASE", "1")
	pbt.RegisterReplay("schedules", replay)
	pbt.RegisterReplay("race", replay)
	pbt.RegisterReplay("crash", replay)
	pbt.Main(m, "C11")
}

func replay(raw json.RawMessage) error {
	var c Case
	if err := json.Unmarshal(raw, &c); err != nil {
		return err
	}
	// schedule dependent: try the recorded schedule several times
	for i := 0; i < 6; i++ {
		if _, _, err := run(c); err != nil {
			return err
		}
	}
	return nil
}

type obs struct {
	snapshotsChecked int
	bigBlocks        int
	abortedSaves     int
	undoFilesChecked int
}

func readCompact(r *bufio.Reader) (uint64, error) {
	b, err := r.ReadByte()
	if err != nil {
		return 0, err
	}
	n := 0
	switch b {
	case 0xfd:
		n = 2
	case 0xfe:
		n = 4
	case 0xff:
		n = 8
	default:
		return uint64(b), nil
	}
	var v uint64
	for i := 0; i < n; i++ {
		x, err := r.ReadByte()
		if err != nil {
			return 0, err
		}
		v |= uint64(x) << (8 * uint(i))
	}
	return v, nil
}

func run(c Case) (*sim.Sim, *obs, error) {
	o := &obs{}
	old := runtime.GOMAXPROCS(c.Procs)
	defer runtime.GOMAXPROCS(old)
	if c.Yield != 0 {
		os.Setenv("VERIF_YIELD", strconv.FormatUint(c.Yield, 10))
	} else {
		os.Unsetenv("VERIF_YIELD")
	}
	vhook.Reconfigure()
	defer func() {
		os.Unsetenv("VERIF_YIELD")
		vhook.Reconfigure()
	}()
	prevIdleNoWait := false
	hooks := sim.Hooks{AfterStep: func(s *sim.Sim, op sim.Op) error {
		switch op.Kind {
		case "hurryup":
			s.Node.Ch.Unspent.HurryUp()
		case "block":
			if len(op.Txs) > 32 {
				o.bigBlocks++
			}
			if prevIdleNoWait {
				o.abortedSaves++
			}
		}
		prevIdleNoWait = op.Kind == "idle" && op.Arg%2 == 0
		if err := checkUndoFile(s, o, c.Compress); err != nil {
			return err
		}
		return checkSnapshot(s, o)
	}}
	s, err := sim.RunCaseOpen(c.Sim, c11opts(c), hooks, pbt.FindingOpen)
	return s, o, err
}

// checkUndoFile: the undo file of the tip block (written by a goroutine of its own while the commit workers change
// the set) must hold exactly the confirmed outputs that block spent, as they were - whatever the schedule.
func checkUndoFile(s *sim.Sim, o *obs, compressed bool) error {
	tip := s.Tip
	if tip == nil || tip.Parent == nil || tip.Parent.View == nil || !s.Valid(tip) {
		return nil
	}
	raw, err := os.ReadFile(filepath.Join(s.Node.Dir, "undo", strconv.FormatUint(uint64(tip.Idx.Height), 10)))
	if err != nil || len(raw) < 32 || !bytes.Equal(raw[:32], tip.Idx.Hash[:]) {
		return nil // no undo data for this block (yet / any more), or the file of another branch
	}
	var want []env.Entry
	for _, tx := range tip.Block.Txs[1:] {
		for _, in := range tx.In {
			k := consensus.OutKey(in.PrevHash, in.PrevIndex)
			if c, ok := tip.Parent.View[k]; ok {
				want = append(want, env.Entry{TxID: in.PrevHash, Vout: in.PrevIndex, Value: c.Value, Script: c.Script, Height: c.Height, Coinbase: c.Coinbase})
			}
		}
	}
	var got []env.Entry
	rd := bufio.NewReader(bytes.NewReader(raw[32:]))
	for {
		l, err := readCompact(rd)
		if err != nil {
			break
		}
		buf := make([]byte, l)
		if _, err := io.ReadFull(rd, buf); err != nil {
			return fmt.Errorf("undo file of block %x (height %d): a record is cut short", tip.Idx.Hash[:6], tip.Idx.Height)
		}
		var rec utxo.UtxoRec
		if compressed {
			utxo.NewUtxoRecOwnC(buf, &rec, nil)
		} else {
			utxo.NewUtxoRecOwnU(buf, &rec, nil)
		}
		for vout, out := range rec.Outs {
			if out != nil {
				got = append(got, env.Entry{TxID: rec.TxID, Vout: uint32(vout), Value: out.Value, Script: append([]byte{}, out.PKScr...), Height: rec.InBlock, Coinbase: rec.Coinbase})
			}
		}
	}
	env.SortEntries(got)
	env.SortEntries(want)
	if d := env.DiffEntries(got, want); d != "" {
		return fmt.Errorf("the undo file of block %x (height %d) does not hold the outputs that block spent (first column: file, second: model):\n%s", tip.Idx.Hash[:6], tip.Idx.Height, d)
	}
	o.undoFilesChecked++
	return nil
}

func checkSnapshot(s *sim.Sim, o *obs) error {
	f, err := os.Open(filepath.Join(s.Node.Dir, "UTXO.db"))
	if err != nil {
		return nil
	}
	defer f.Close()
	rd := bufio.NewReaderSize(f, 1<<16)
	var hdr [48]byte
	if _, err := io.ReadFull(rd, hdr[:]); err != nil {
		return fmt.Errorf("UTXO.db is visible under its final name but its header cannot be read: %v", err)
	}
	h64 := binary.LittleEndian.Uint64(hdr[:8])
	compressed := h64&0x8000000000000000 != 0
	height := uint32(h64)
	var hash [32]byte
	copy(hash[:], hdr[8:40])
	count := binary.LittleEndian.Uint64(hdr[40:48])
	var node *sim.MNode
	for _, n := range s.Nodes {
		if n.Idx.Hash == hash {
			node = n
		}
	}
	if node == nil || !s.Valid(node) {
		return fmt.Errorf("UTXO.db names block %x (height %d), which is not a valid block of the history", hash[:6], height)
	}
	if node.Idx.Height != height {
		return fmt.Errorf("UTXO.db names block %x with height %d, the block is at height %d", hash[:6], height, node.Idx.Height)
	}
	var got []env.Entry
	for i := uint64(0); i < count; i++ {
		l, err := readCompact(rd)
		if err != nil {
			return fmt.Errorf("UTXO.db for block %x: record %d of %d cannot be read: %v", hash[:6], i, count, err)
		}
		buf := make([]byte, l)
		if _, err := io.ReadFull(rd, buf); err != nil {
			return fmt.Errorf("UTXO.db for block %x: record %d of %d is cut short", hash[:6], i, count)
		}
		var rec utxo.UtxoRec
		if compressed {
			utxo.NewUtxoRecOwnC(buf, &rec, nil)
		} else {
			utxo.NewUtxoRecOwnU(buf, &rec, nil)
		}
		for vout, out := range rec.Outs {
			if out == nil || consensus.Unspendable(out.PKScr) {
				continue
			}
			got = append(got, env.Entry{TxID: rec.TxID, Vout: uint32(vout), Value: out.Value, Script: append([]byte{}, out.PKScr...), Height: rec.InBlock, Coinbase: rec.Coinbase})
		}
	}
	if _, err := rd.ReadByte(); err != io.EOF {
		return fmt.Errorf("UTXO.db for block %x has data after its %d records", hash[:6], count)
	}
	env.SortEntries(got)
	if d := env.DiffEntries(got, env.EntriesOf(node.View)); d != "" {
		return fmt.Errorf("UTXO.db names block %x (height %d) but does not hold that block's unspent set:\n%s", hash[:6], height, d)
	}
	o.snapshotsChecked++
	return nil
}

var profile = sim.Profile{
	Forks:    true,
	Viols:    []string{"bad_script", "dup_in_block", "missing_txid", "in_below_out"},
	ViolPct:  8,
	MaxTx:    6,
	MinOps:   8,
	MaxOps:   30,
	Prefixes: []int{101, 104, 140, 150},
	IdlePct:  18,
	Signed:   true,
	Reopen:   true,
}

func genCase(t *rapid.T) Case {
	c := Case{Sim: sim.GenCase(t, profile)}
	// some blocks with more than 32 transactions spending distinct confirmed transactions (parallel
	// UTXO workers, several hashing packs, many script checks)
	for i := range c.Sim.Ops {
		op := &c.Sim.Ops[i]
		if op.Kind == "block" && op.Viol == "" && rapid.IntRange(0, 4).Draw(t, "big") == 0 {
			n := rapid.IntRange(33, 45).Draw(t, "ntx")
			for len(op.Txs) < n {
				ts := sim.GenTx(t)
				ts.Ins = ts.Ins[:1]
				op.Txs = append(op.Txs, ts)
			}
		}
		if op.Kind == "idle" && rapid.IntRange(0, 3).Draw(t, "hurry") == 0 {
			op.Kind = "hurryup"
		}
	}
	c.Procs = rapid.SampledFrom([]int{1, 2, 4, 16}).Draw(t, "procs")
	if rapid.IntRange(0, 3).Draw(t, "yield") != 0 {
		c.Yield = rapid.Uint64Range(1, 1<<40).Draw(t, "yieldseed")
	}
	c.Compress = rapid.IntRange(0, 3).Draw(t, "compress") == 0
	c.Observer = rapid.IntRange(0, 2).Draw(t, "observer") == 0
	return c
}

func TestSchedules(t *testing.T) {
	pbt.Check(t, pbt.Cfg{Name: "schedules", Quick: 400, Thorough: 4000}, func(r *pbt.Run) {
		c := genCase(r.T)
		r.Case(c)
		s, o, err := run(c)
		if s != nil {
			defer s.Close()
			for _, k := range s.ExcludedKeys {
				r.Excluded(k)
			}
		}
		r.Class(fmt.Sprintf("gomaxprocs=%d", c.Procs))
		if c.Yield != 0 {
			r.Class("yields_injected")
		}
		if o.bigBlocks > 0 {
			r.Class("block_with_more_than_32_txs")
		}
		if o.abortedSaves > 0 {
			r.Class("save_raced_by_next_block")
		}
		if o.snapshotsChecked > 0 {
			r.Class("snapshot_seen_and_checked")
		}
		if s != nil && s.Reorgs > 0 {
			r.Class("reorg")
		}
		if o.bigBlocks > 0 || o.abortedSaves > 0 {
			r.NonTrivial()
		}
		pbt.AddExtra("snapshots_checked", int64(o.snapshotsChecked))
		pbt.AddExtra("undo_files_checked", int64(o.undoFilesChecked))
		if x, ok := err.(*sim.Excluded); ok {
			r.Excluded(x.Key)
			return
		}
		if err != nil {
			r.Failf("GOMAXPROCS=%d yield=%d: %v", c.Procs, c.Yield, err)
		}
	})
}

func c11opts(c Case) env.Options {
	o := env.Options{CompressUTXO: c.Compress}
	if c.Observer {
		o.UTXOCallbacks = env.ObserverCallbacks()
	}
	return o
}
