package c11

// Snapshots of a LARGE unspent set, aborted by the next block.  The histories of TestSchedules keep the set small
// (one 64 KB chunk), so the snapshot writer never has a backlog when a commit aborts the save.  Here the set holds
// 16..40 MB (more than the 100 x 64 KB the writer's queue takes), saves run unpaced, and after a drawn delay a block
// commit aborts them - with GOMAXPROCS 1, 2 or 4.  Oracle (the same as checkSnapshot): whenever a file is visible as
// UTXO.db (or UTXO.old), it is complete - header count == records present, nothing after them - and holds exactly
// the set of the block its header names.

import (
	"bufio"
	"crypto/sha256"
	"encoding/binary"
	"encoding/json"
	"fmt"
	"io"
	"os"
	"path/filepath"
	"runtime"
	"strings"
	"testing"
	"time"

	"github.com/piotrnar/gocoin/lib/btc"
	"github.com/piotrnar/gocoin/lib/utxo"
	"pgregory.net/rapid"
	"verif/env"
	"verif/pbt"
	"verif/sim"
)

type bigSaveCase struct {
	Seed      uint64 `json:"seed"`
	Records   int    `json:"records"` // in the base set
	ScriptLn  int    `json:"script_len"`
	Compress  bool   `json:"compress_utxo"`
	Procs     int    `json:"gomaxprocs"`
	DelaysUs  []int  `json:"delays_us"`            // per round: time between the start of the save and the aborting commit
	Undo      bool   `json:"undo"`                 // every third round the save is interrupted by an undo of the tip block instead
	CloseRace bool   `json:"close_race,omitempty"` // at the end: Idle, then Close as soon as the set is clean
}

func init() {
	pbt.RegisterReplay("aborted_big_saves", func(raw json.RawMessage) error {
		var c bigSaveCase
		if err := json.Unmarshal(raw, &c); err != nil {
			return err
		}
		var err error
		for i := 0; i < 4 && err == nil; i++ { // schedule dependent
			_, err = runBigSave(c)
		}
		return err
	})
}

func bigRec(seed uint64, tag byte, a, b int, height uint32, scriptLen int) *utxo.UtxoRec {
	var k [32]byte
	binary.LittleEndian.PutUint64(k[:], seed)
	k[8] = tag
	binary.LittleEndian.PutUint32(k[12:], uint32(a))
	binary.LittleEndian.PutUint32(k[16:], uint32(b))
	id := sha256.Sum256(k[:])
	rec := &utxo.UtxoRec{TxID: id, InBlock: height, Outs: make([]*utxo.UtxoTxOut, 3)}
	for i := 0; i < 3; i += 2 {
		s := make([]byte, scriptLen)
		for j := range s {
			s[j] = id[(j+i)%32] | 0x80 // never a compressible standard script, never OP_RETURN
		}
		rec.Outs[i] = &utxo.UtxoTxOut{Value: uint64(1000 + a + i), PKScr: s}
	}
	return rec
}

type bigStats struct{ aborted, completed, filesChecked, undos, closeRaces int }

func runBigSave(c bigSaveCase) (st bigStats, err error) {
	old := runtime.GOMAXPROCS(c.Procs)
	defer runtime.GOMAXPROCS(old)
	utxo.UTXO_WRITING_TIME_TARGET = 0
	dir, e := os.MkdirTemp("", "c11big")
	if e != nil {
		return st, nil
	}
	defer os.RemoveAll(dir)
	node, e := env.Open(dir, sim.Params(sim.ParamSpec{BIP34: 1, BIP65: 1, BIP66: 1}), env.Options{CompressUTXO: c.Compress})
	if e != nil {
		return st, fmt.Errorf("open: %v", e)
	}
	db := node.Ch.Unspent
	defer node.Close() // before the directory goes away
	// every committed state is remembered by the hash of its block: record count and an order-independent digest
	// (xor of the SHA-256 of every serialised record) of the set at that block
	type state struct {
		count  int
		digest [32]byte
		height uint32
	}
	states := map[[32]byte]state{}
	var cur state
	gen := uint32(0)
	xor := func(d *[32]byte, ser []byte) {
		x := sha256.Sum256(ser)
		for i := range d {
			d[i] ^= x[i]
		}
	}
	type blk struct {
		hash [32]byte
		ids  [][32]byte
		sers [][]byte
	}
	var chain []blk // blocks above height 0, the last one is the tip
	commit := func(h uint32, recs []*utxo.UtxoRec) {
		var b blk
		for _, r := range recs {
			ser := append([]byte{}, (*utxo.Serialize(r, nil))...)
			xor(&cur.digest, ser)
			b.ids = append(b.ids, r.TxID)
			b.sers = append(b.sers, ser)
		}
		cur.count += len(recs)
		cur.height = h
		gen++
		binary.LittleEndian.PutUint32(b.hash[:], h)
		binary.LittleEndian.PutUint32(b.hash[4:], gen)
		b.hash[31] = 0xbb
		// (UndoData non-nil: an undo file is written - this block spends nothing, so it only holds the block hash)
		db.CommitBlockTxs(&utxo.BlockChanges{Height: h, LastKnownHeight: h, AddList: recs, DeledTxs: map[[32]byte][]bool{},
			UndoData: map[[32]byte]*utxo.UtxoRec{}}, b.hash[:])
		states[b.hash] = cur
		chain = append(chain, b)
	}
	undo := func() {
		b := chain[len(chain)-1]
		chain = chain[:len(chain)-1]
		bl := &btc.Block{Hash: btc.NewUint256(b.hash[:])}
		for i, id := range b.ids {
			bl.Txs = append(bl.Txs, &btc.Tx{Hash: btc.Uint256{Hash: id}, TxOut: make([]*btc.TxOut, 3)})
			xor(&cur.digest, b.sers[i])
		}
		cur.count -= len(b.ids)
		cur.height--
		db.UndoBlockTxs(bl, chain[len(chain)-1].hash[:])
	}
	base := make([]*utxo.UtxoRec, c.Records)
	for i := range base {
		base[i] = bigRec(c.Seed, 'b', i, 0, 1, c.ScriptLn)
	}
	commit(1, base)
	var lastSavedHash [32]byte
	lastSavedHeight := uint32(0) // (after an undo the set may be back at the height of the last snapshot: nothing to save)
	check := func(name string) error {
		f, e := os.Open(filepath.Join(node.Dir, name))
		if e != nil {
			return nil
		}
		defer f.Close()
		rd := bufio.NewReaderSize(f, 1<<20)
		var hdr [48]byte
		if _, e := io.ReadFull(rd, hdr[:]); e != nil {
			return fmt.Errorf("%s is visible under its final name but its header cannot be read: %v", name, e)
		}
		height := uint32(binary.LittleEndian.Uint64(hdr[:8]))
		count := binary.LittleEndian.Uint64(hdr[40:48])
		var hh [32]byte
		copy(hh[:], hdr[8:40])
		st0, ok := states[hh]
		if height == 0 {
			st0, ok = state{}, true // the snapshot of the empty set at genesis that the directory started with
		}
		if !ok || st0.height != height {
			return fmt.Errorf("%s names height %d / block %x, which was never committed", name, height, hdr[8:16])
		}
		if count != uint64(st0.count) {
			return fmt.Errorf("%s for height %d announces %d records, the set at that block has %d", name, height, count, st0.count)
		}
		var dig [32]byte
		for i := uint64(0); i < count; i++ {
			l, e := readCompact(rd)
			if e != nil {
				return fmt.Errorf("%s for height %d announces %d records, but the file ends after %d", name, height, count, i)
			}
			buf := make([]byte, l)
			if _, e := io.ReadFull(rd, buf); e != nil {
				return fmt.Errorf("%s for height %d: record %d of %d is cut short", name, height, i, count)
			}
			xor(&dig, buf)
		}
		if _, e := rd.ReadByte(); e != io.EOF {
			return fmt.Errorf("%s for height %d has data after its %d records", name, height, count)
		}
		if dig != st0.digest {
			return fmt.Errorf("%s names block %x (height %d) and holds %d records, but not the records of the set at that block", name, hdr[8:16], height, count)
		}
		st.filesChecked++
		if name == "UTXO.db" {
			// (a save counted as "still running" when the interruption came may have completed all the same: what
			// the last snapshot is, is read from the file, not from that observation)
			lastSavedHeight = height
			lastSavedHash = hh
		}
		return nil
	}
	settle := func() error {
		for i := 0; i < 20000; i++ {
			ents, _ := os.ReadDir(node.Dir)
			tmp := false
			for _, e := range ents {
				if strings.HasSuffix(e.Name(), ".db.tmp") {
					tmp = true
				}
			}
			if !tmp && !db.WritingInProgress.Get() {
				return nil
			}
			time.Sleep(time.Millisecond)
		}
		return fmt.Errorf("a snapshot temp file is still there 20 s after the save was aborted / finished")
	}
	h := uint32(1)
	for round, d := range c.DelaysUs {
		if !db.Idle() && cur.height != lastSavedHeight {
			return st, fmt.Errorf("round %d: Idle() did not start a save although the set is dirty and at another height than the last snapshot", round)
		}
		time.Sleep(time.Duration(d) * time.Microsecond)
		was := db.WritingInProgress.Get()
		// what interrupts the save: the next block - or, for every third round, the tip block being disconnected
		what := "commit"
		if c.Undo && round%3 == 2 && len(chain) >= 2 {
			what = "undo of the tip block"
			undo()
			h--
			st.undos++
		} else {
			h++
			commit(h, []*utxo.UtxoRec{bigRec(c.Seed, 'a', int(h), int(gen)*4, h, c.ScriptLn), bigRec(c.Seed, 'a', int(h), int(gen)*4+1, h, c.ScriptLn), bigRec(c.Seed, 'a', int(h), int(gen)*4+2, h, c.ScriptLn)})
		}
		if was {
			st.aborted++
		} else {
			st.completed++
		}
		if e := settle(); e != nil {
			return st, e
		}
		for _, name := range []string{"UTXO.db", "UTXO.old"} {
			if e := check(name); e != nil {
				return st, fmt.Errorf("round %d (GOMAXPROCS=%d, %s %d us after the save began, save still running: %v): %v", round, c.Procs, what, d, was, e)
			}
		}
	}
	// shutdown right behind a save: Idle starts the last save, and as soon as the set is no longer dirty (the
	// records are handed to the file writer, which may still be writing and renaming) the database is closed.  After
	// Close returned - the process may exit - UTXO.db must be there, complete, and hold the set of the tip.
	if c.CloseRace {
		if db.Idle() {
			for i := 0; i < 200000 && db.DirtyDB.Get(); i++ {
				runtime.Gosched()
			}
		}
		db.Close() // (the unspent-set database alone: Chain.Close would spend time on the block store first)
		if _, e := os.Stat(filepath.Join(node.Dir, "UTXO.db")); e != nil {
			return st, fmt.Errorf("after Close() right behind a save (GOMAXPROCS=%d): there is no UTXO.db (%v)", c.Procs, e)
		}
		if e := check("UTXO.db"); e != nil {
			return st, fmt.Errorf("after Close() right behind a save (GOMAXPROCS=%d): %v", c.Procs, e)
		}
		if tip := chain[len(chain)-1].hash; lastSavedHash != tip {
			return st, fmt.Errorf("after Close() right behind a save (GOMAXPROCS=%d): UTXO.db is the snapshot of block %x (height %d), the set was at block %x (height %d)", c.Procs, lastSavedHash[:8], lastSavedHeight, tip[:8], cur.height)
		}
		st.closeRaces++
	}
	return st, nil
}

func TestAbortedBigSaves(t *testing.T) {
	pbt.Check(t, pbt.Cfg{Name: "aborted_big_saves", Quick: 32, Thorough: 320}, func(r *pbt.Run) {
		c := bigSaveCase{Seed: rapid.Uint64().Draw(r.T, "seed"), Procs: rapid.SampledFrom([]int{1, 1, 2, 4}).Draw(r.T, "procs"),
			Compress: rapid.IntRange(0, 3).Draw(r.T, "compress") == 0}
		c.Undo = rapid.Bool().Draw(r.T, "undo")
		c.CloseRace = rapid.Bool().Draw(r.T, "closerace")
		c.ScriptLn = rapid.SampledFrom([]int{200, 300}).Draw(r.T, "scriptlen")
		c.Records = rapid.SampledFrom([]int{30000, 40000}).Draw(r.T, "records")
		for i, n := 0, rapid.IntRange(5, 9).Draw(r.T, "rounds"); i < n; i++ {
			c.DelaysUs = append(c.DelaysUs, rapid.SampledFrom([]int{0, 200, 1000, 3000, 8000, 20000}).Draw(r.T, "delay"))
		}
		r.Case(c)
		r.Class(fmt.Sprintf("gomaxprocs=%d", c.Procs))
		st, err := runBigSave(c)
		if st.aborted > 0 {
			r.Class("save_of_a_large_set_aborted_by_a_commit")
			r.NonTrivial()
		}
		if st.completed > 0 {
			r.Class("save_finished_before_the_commit")
		}
		if st.undos > 0 {
			r.Class("save_interrupted_by_an_undo")
		}
		if st.closeRaces > 0 {
			r.Class("closed_right_behind_a_save")
		}
		pbt.AddExtra("big_snapshot_files_checked", int64(st.filesChecked))
		pbt.AddExtra("big_saves_aborted", int64(st.aborted))
		if err != nil {
			r.Failf("%v", err)
		}
	})
}
