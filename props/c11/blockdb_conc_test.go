package c11

// The block store is used from several goroutines: the main thread stores, flags and flushes blocks, network threads
// read them back for peers.  This test lets the storing goroutine (BlockAdd, BlockTrusted, flushes) and up to three
// readers run at the same time under the race detector, then closes, reopens and compares the index with what was
// stored: every block listed once, byte for byte, with its trusted flag - whatever the interleaving.  (A first version
// also flagged from a second goroutine; the race detector then reports writeOne against setBlockFlag on the UNCHANGED
// tree - BlockDB does not synchronise its mutators with each other, and the client never needs it to: a false alarm
// of the harness, corrected.)

import (
	"bytes"
	"crypto/sha256"
	"encoding/binary"
	"encoding/json"
	"fmt"
	"os"
	"runtime"
	"sync"
	"sync/atomic"
	"testing"

	"github.com/piotrnar/gocoin/lib/btc"
	"github.com/piotrnar/gocoin/lib/chain"
	"pgregory.net/rapid"
	"verif/pbt"
)

type bdbCase struct {
	Seed       uint64 `json:"seed"`
	Blocks     int    `json:"blocks"`
	Size       int    `json:"size"`
	Compress   bool   `json:"compress"`
	MaxFile    uint64 `json:"max_data_file"`
	FlushEvery int    `json:"flush_every"`
	Readers    int    `json:"readers"`
	Procs      int    `json:"gomaxprocs"`
}

func init() {
	pbt.RegisterReplay("blockdb_concurrent", func(raw json.RawMessage) error {
		var c bdbCase
		if err := json.Unmarshal(raw, &c); err != nil {
			return err
		}
		var err error
		for i := 0; i < 5 && err == nil; i++ { // schedule dependent
			_, err = runBdb(c)
		}
		return err
	})
}

func bdbBlock(seed uint64, i, size int) []byte {
	raw := make([]byte, size)
	var k [16]byte
	binary.LittleEndian.PutUint64(k[:], seed)
	binary.LittleEndian.PutUint64(k[8:], uint64(i))
	h := sha256.Sum256(k[:])
	for o := 0; o < size; o += 32 {
		copy(raw[o:], h[:])
		h = sha256.Sum256(h[:])
	}
	return raw
}

func runBdb(c bdbCase) (flaggedWhileWriting int64, err error) {
	old := runtime.GOMAXPROCS(c.Procs)
	defer runtime.GOMAXPROCS(old)
	dir, e := os.MkdirTemp("", "c11bdb")
	if e != nil {
		return 0, nil
	}
	defer os.RemoveAll(dir)
	dir += string(os.PathSeparator)
	opts := &chain.BlockDBOpts{MaxCachedBlocks: 8, MaxDataFileSize: c.MaxFile, CompressOnDisk: c.Compress}
	db := chain.NewBlockDBExt(dir, opts)
	db.LoadBlockIndex(nil, func(*chain.Chain, []byte, []byte, uint32, uint32, uint32) {})
	raws := make([][]byte, c.Blocks)
	hashes := make([]*btc.Uint256, c.Blocks)
	for i := range raws {
		raws[i] = bdbBlock(c.Seed, i, c.Size+i%7)
		hashes[i] = btc.NewSha2Hash(raws[i][:80])
	}
	var stored atomic.Int64 // blocks 0..stored-1 are in the store (queued or written)
	trusted := make([]atomic.Bool, c.Blocks)
	errs := make(chan error, 16)
	var wg sync.WaitGroup
	guard := func(what string, f func()) {
		wg.Add(1)
		go func() {
			defer wg.Done()
			defer func() {
				if p := recover(); p != nil {
					errs <- fmt.Errorf("%s panicked: %v", what, p)
				}
			}()
			f()
		}()
	}
	// storing, flagging and flushing are the main thread's business in the client (BlockDB does not synchronise its
	// mutators with each other); what runs at the same time are the readers
	guard("the storing goroutine", func() {
		next := 0
		for i := 0; i < c.Blocks; i++ {
			bl := &btc.Block{Raw: raws[i], Hash: hashes[i], TxCount: 1 + i%5}
			db.BlockAdd(uint32(i+1), bl)
			stored.Store(int64(i + 1))
			if c.FlushEvery > 0 && i%c.FlushEvery == c.FlushEvery-1 {
				db.Idle()
			}
			// flag blocks a few positions behind: some are still queued, some already written
			for ; next+c.FlushEvery/2 <= i; next++ {
				if next%3 != 2 { // two blocks in three become trusted
					atomic.AddInt64(&flaggedWhileWriting, 1)
					db.BlockTrusted(hashes[next].Hash[:])
					trusted[next].Store(true)
				}
			}
		}
	})
	for r := 0; r < c.Readers; r++ {
		r := r
		guard("a reading goroutine", func() {
			for k := 0; stored.Load() < int64(c.Blocks); k++ {
				n := int(stored.Load())
				if n == 0 {
					runtime.Gosched()
					continue
				}
				i := (k*7 + r*13) % n
				data, _, e := db.BlockGet(hashes[i])
				if e != nil {
					errs <- fmt.Errorf("while other goroutines store and flag blocks: BlockGet of block #%d: %v", i, e)
					return
				}
				if !bytes.Equal(data, raws[i]) {
					errs <- fmt.Errorf("while other goroutines store and flag blocks: BlockGet of block #%d returns other bytes", i)
					return
				}
			}
		})
	}
	wg.Wait()
	select {
	case e := <-errs:
		db.Close()
		return flaggedWhileWriting, e
	default:
	}
	db.Close()
	// restart
	db2 := chain.NewBlockDBExt(dir, opts)
	defer db2.Close()
	listed := map[[32]byte]int{}
	db2.LoadBlockIndex(nil, func(_ *chain.Chain, hash, hdr []byte, height, blen, txs uint32) {
		var h [32]byte
		copy(h[:], hash)
		listed[h]++
	})
	for i := range raws {
		if n := listed[hashes[i].Hash]; n != 1 {
			return flaggedWhileWriting, fmt.Errorf("after the restart the index lists block #%d (height %d) %d times (%d blocks stored, %d listed)", i, i+1, n, c.Blocks, len(listed))
		}
		data, tr, e := db2.BlockGet(hashes[i])
		if e != nil {
			return flaggedWhileWriting, fmt.Errorf("after the restart block #%d cannot be read: %v", i, e)
		}
		if !bytes.Equal(data, raws[i]) {
			return flaggedWhileWriting, fmt.Errorf("after the restart block #%d reads back other bytes", i)
		}
		if tr != trusted[i].Load() {
			return flaggedWhileWriting, fmt.Errorf("after the restart block #%d has trusted=%v, it was flagged trusted=%v", i, tr, trusted[i].Load())
		}
	}
	if len(listed) != c.Blocks {
		return flaggedWhileWriting, fmt.Errorf("after the restart the index lists %d blocks, %d were stored", len(listed), c.Blocks)
	}
	return flaggedWhileWriting, nil
}

func TestBlockDBConcurrent(t *testing.T) {
	pbt.Check(t, pbt.Cfg{Name: "blockdb_concurrent", Quick: 160, Thorough: 3200}, func(r *pbt.Run) {
		c := bdbCase{Seed: rapid.Uint64().Draw(r.T, "seed"), Blocks: rapid.IntRange(60, 400).Draw(r.T, "blocks"),
			Size: rapid.SampledFrom([]int{90, 300, 2000}).Draw(r.T, "size"), Compress: rapid.Bool().Draw(r.T, "compress"),
			MaxFile: rapid.SampledFrom([]uint64{0, 0, 20000}).Draw(r.T, "maxfile"), FlushEvery: rapid.SampledFrom([]int{1, 3, 10, 50}).Draw(r.T, "flush"),
			Readers: rapid.IntRange(0, 3).Draw(r.T, "readers"), Procs: rapid.SampledFrom([]int{2, 4, 16}).Draw(r.T, "procs")}
		r.Case(c)
		r.Class(fmt.Sprintf("gomaxprocs=%d", c.Procs))
		n, err := runBdb(c)
		if n > 0 {
			r.NonTrivial()
		}
		if c.Readers > 0 {
			r.Class("readers_concurrent_with_the_storing_thread")
		}
		pbt.AddExtra("blocks_flagged_trusted", n)
		if err != nil {
			r.Failf("%v", err)
		}
	})
}
