package c01

import (
	"os"
	"os/exec"
	"strings"
	"testing"

	"verif/pbt"
)

// The references this check trusts are validated on Core's own vector files on every run (design §3):
// shard 0 runs their package tests.  A failure here is an infrastructure failure (the driver reports the
// run as inconclusive), never a violation of the property.
func TestReferenceSelfTests(t *testing.T) {
	if os.Getenv("VERIF_REPLAY") != "" || os.Getenv("VERIF_FUZZING") != "" {
		t.Skip()
	}
	if i, _ := pbt.Shard(); i != 0 {
		t.Skip("runs on shard 0 only")
	}
	root := os.Getenv("VERIF_ROOT")
	if root == "" {
		root = "/verif"
	}
	cmd := exec.Command("go", "test", "-count=1", "./ref/interp", "./ref/sighash", "./ref/ec", "./ref/wire")
	cmd.Dir = root
	cmd.Env = append(os.Environ(), "GOFLAGS=-mod=mod", "GOPROXY=off", "GOSUMDB=off", "GOTOOLCHAIN=local")
	out, err := cmd.CombinedOutput()
	if err != nil {
		t.Fatalf("reference self-tests failed (infrastructure, not a violation of C01):\n%s", out)
	}
	pbt.Note("reference self-tests passed: %s", strings.Join(strings.Fields(strings.ReplaceAll(string(out), "\n", "; ")), " "))
}
