package c01

import (
	"encoding/hex"
	"fmt"
	"runtime/debug"
	"strings"
	"time"

	"github.com/piotrnar/gocoin/lib/btc"
	"github.com/piotrnar/gocoin/lib/script"
	"verif/pbt"
	"verif/ref/interp"
	"verif/ref/wire"
)

func init() {
	script.DBG_ERR = false
	script.DBG_SCR = false
}

// Case is the pure-data form of one generated tuple (scriptSig, scriptPubKey, witness, amount, tx,
// idx, flags).  scriptSig and witness are those of input Idx of Tx; scriptPubKey and amount are
// Spent[Idx].
type Case struct {
	Kind  string     `json:"kind"` // spend type (generator label; used by class predicates)
	Muts  []string   `json:"muts"` // mutations applied (generator labels)
	Tx    string     `json:"tx"`   // hex, BIP144 form when a witness is present
	Idx   int        `json:"idx"`
	Spent []SpentOut `json:"spent"` // one per input
	Flags uint32     `json:"flags"`
	Drop  uint32     `json:"drop"` // flags additionally removed together in the metamorphic check
}

type SpentOut struct {
	Value uint64 `json:"value"`
	Pk    string `json:"pk"`
}

func makeCase(kind string, muts []string, c *spendCtx, flags, drop uint32) Case {
	cs := Case{Kind: kind, Muts: append([]string{}, muts...), Tx: hex.EncodeToString(c.tx.Serialize(true)), Idx: c.idx, Flags: flags, Drop: drop}
	for _, o := range c.spent {
		cs.Spent = append(cs.Spent, SpentOut{o.Value, hex.EncodeToString(o.PkScript)})
	}
	return cs
}

type decoded struct {
	raw   []byte
	tx    *wire.Tx
	spent []wire.TxOut
}

func (c *Case) decode() (*decoded, error) {
	raw, err := hex.DecodeString(c.Tx)
	if err != nil {
		return nil, err
	}
	tx, used, err := wire.DecodeTx(raw)
	if err != nil || used != len(raw) {
		return nil, fmt.Errorf("case transaction does not decode: %v", err)
	}
	if len(c.Spent) != len(tx.In) || c.Idx < 0 || c.Idx >= len(tx.In) {
		return nil, fmt.Errorf("case is malformed (spent/idx)")
	}
	d := &decoded{raw: raw, tx: tx}
	for _, s := range c.Spent {
		pk, err := hex.DecodeString(s.Pk)
		if err != nil {
			return nil, err
		}
		d.spent = append(d.spent, wire.TxOut{Value: s.Value, PkScript: pk})
	}
	return d, nil
}

const hangBound = 20 * time.Second

type gocoinOutcome struct {
	ok      bool
	fault   string // "" | "panic: ..." | "hang" | "undecodable"
	elapsed time.Duration
}

// runGocoin calls script.VerifyTxScript the way Chain.commitTxs / the mempool do: transaction decoded
// from its wire bytes with btc.NewTx, SetHash, AllocVerVars, Spent_outputs for every input.
func runGocoin(d *decoded, idx int, flags uint32) gocoinOutcome {
	ch := make(chan gocoinOutcome, 1)
	t0 := time.Now()
	go func() {
		var out gocoinOutcome
		defer func() {
			if p := recover(); p != nil {
				out.fault = fmt.Sprintf("panic: %v\n%s", p, debug.Stack())
			}
			out.elapsed = time.Since(t0)
			ch <- out
		}()
		tx, off := btc.NewTx(d.raw)
		if tx == nil || off != len(d.raw) {
			out.fault = "undecodable"
			return
		}
		tx.SetHash(d.raw)
		tx.AllocVerVars()
		tx.Spent_outputs = make([]*btc.TxOut, len(d.spent))
		for i, o := range d.spent {
			tx.Spent_outputs[i] = &btc.TxOut{Value: o.Value, Pk_script: append([]byte{}, o.PkScript...)}
		}
		out.ok = script.VerifyTxScript(tx.Spent_outputs[idx].Pk_script, &script.SigChecker{Tx: tx, Idx: idx, Amount: tx.Spent_outputs[idx].Value}, flags)
	}()
	select {
	case o := <-ch:
		return o
	case <-time.After(hangBound):
		return gocoinOutcome{fault: "hang"}
	}
}

// outcome of one case, for the histogram
type verdict struct {
	ref      interp.Result
	skipped  string // non-empty: outside the domain (why)
	excluded string // non-empty: disagreement inside an open known finding's class
}

func hasMut(c *Case, name string) bool {
	for _, m := range c.Muts {
		if m == name {
			return true
		}
	}
	return false
}

// knownClass returns the key of the open known finding whose documented class contains the case
// ("" when none).  Predicates look at the generated case only, never at the outcome.
func knownClass(c *Case, d *decoded) string {
	for _, kf := range knownFindings {
		if kf.pred(c, d) && pbt.FindingOpen(kf.key) {
			return kf.key
		}
	}
	return ""
}

type knownFinding struct {
	key  string
	pred func(c *Case, d *decoded) bool
}

// checkCase is the oracle.  It returns an error for a violation; the verdict carries the
// reference's result for the histogram.
func checkCase(c Case) (verdict, error) {
	var v verdict
	d, err := c.decode()
	if err != nil {
		return v, fmt.Errorf("bad case: %v", err)
	}
	if !interp.FlagsConsistent(c.Flags) {
		v.skipped = "inconsistent_flags"
		return v, nil
	}
	in := d.tx.In[c.Idx]
	pk := d.spent[c.Idx].PkScript
	amount := d.spent[c.Idx].Value
	v.ref = interp.VerifyEx(in.ScriptSig, pk, in.Witness, d.tx, c.Idx, amount, d.spent, c.Flags)
	if v.ref.Internal != "" {
		return v, fmt.Errorf("REFERENCE BUG (not a finding): ref/interp panicked: %s", v.ref.Internal)
	}
	got := runGocoin(d, c.Idx, c.Flags)
	if got.fault == "undecodable" {
		v.skipped = "gocoin_cannot_decode_tx"
		return v, nil
	}
	known := knownClass(&c, d)
	fail := func(format string, a ...any) (verdict, error) {
		if known != "" {
			v.excluded = known
			return v, nil
		}
		return v, fmt.Errorf(format, a...)
	}
	if got.fault == "hang" {
		return fail("script verification did not return within %v (flags %#x)", hangBound, c.Flags)
	}
	if got.fault != "" {
		return fail("script verification crashed instead of giving a verdict (flags %#x): %s", c.Flags, firstLines(got.fault, 12))
	}
	if v.ref.NopCLTVorCSV {
		// Core releases differ on CLTV/CSV-as-NOP under DISCOURAGE_UPGRADABLE_NOPS (a policy-only
		// combination); either verdict is accepted when the two possibilities differ.
		if got.ok != v.ref.OK {
			v.skipped = "nop_cltv_csv_discouraged_version_dependent"
		}
		return v, nil
	}
	if got.ok != v.ref.OK {
		return fail("verdicts differ under flags %#x: gocoin accept=%v, consensus (reference) accept=%v (%s); scriptSig=%x scriptPubKey=%x witness=%s",
			c.Flags, got.ok, v.ref.OK, v.ref.Err, in.ScriptSig, pk, witnessString(in.Witness))
	}
	// metamorphic, reference-free: every flag only restricts.  accept(F) => accept(F \ {f}).
	if got.ok {
		try := func(f uint32) error {
			if f == c.Flags || !interp.FlagsConsistent(f) {
				return nil
			}
			o := runGocoin(d, c.Idx, f)
			if o.fault != "" {
				return fmt.Errorf("script verification %s under flags %#x (subset of accepted %#x): %s", strings.SplitN(o.fault, ":", 2)[0], f, c.Flags, firstLines(o.fault, 12))
			}
			if !o.ok {
				// the version-dependent combination again: removing CLTV/CSV while NOPs are discouraged
				if f&interp.DISCOURAGE_UPGRADABLE_NOPS != 0 && (c.Flags&^f)&(interp.CHECKLOCKTIMEVERIFY|interp.CHECKSEQUENCEVERIFY) != 0 {
					return nil
				}
				return fmt.Errorf("flags are not monotone: accepted under %#x but refused under the subset %#x", c.Flags, f)
			}
			return nil
		}
		for b := uint32(1); b < 1<<21; b <<= 1 {
			if c.Flags&b != 0 {
				if err := try(c.Flags &^ b); err != nil {
					return fail("%v", err)
				}
			}
		}
		if c.Drop&c.Flags != 0 {
			f := c.Flags &^ c.Drop
			if f&interp.P2SH == 0 {
				f &^= interp.WITNESS
			}
			if f&interp.WITNESS == 0 {
				f &^= interp.CLEANSTACK
			}
			if err := try(f); err != nil {
				return fail("%v", err)
			}
		}
	}
	return v, nil
}

func firstLines(s string, n int) string {
	l := strings.Split(s, "\n")
	if len(l) > n {
		l = l[:n]
	}
	return strings.Join(l, " | ")
}

func witnessString(w [][]byte) string {
	if len(w) > 12 {
		return fmt.Sprintf("[%d items]", len(w))
	}
	var parts []string
	for _, it := range w {
		if len(it) > 80 {
			parts = append(parts, fmt.Sprintf("%x..(%d bytes)", it[:40], len(it)))
		} else {
			parts = append(parts, hex.EncodeToString(it))
		}
	}
	return "[" + strings.Join(parts, " ") + "]"
}
