package c01

import (
	"crypto/sha256"
	"math/big"

	"pgregory.net/rapid"
	"verif/ref/ec"
	"verif/ref/interp"
	"verif/ref/sighash"
	"verif/ref/wire"
)

// ---- key pool ------------------------------------------------------------------------------------

type keyT struct {
	sk     []byte
	pt     ec.Point
	comp   []byte
	uncomp []byte
	xonly  []byte
}

const nKeys = 8

var keys [nKeys]keyT

func init() {
	for i := range keys {
		h := sha256.Sum256([]byte{'c', '0', '1', 'k', 'e', 'y', byte(i)})
		k := &keys[i]
		k.sk = h[:]
		k.pt = ec.BaseMul(new(big.Int).SetBytes(k.sk))
		k.comp = ec.SerializeCompressed(k.pt)
		k.uncomp = ec.SerializeUncompressed(k.pt)
		k.xonly = ec.Bytes32(k.pt.X)
	}
}

// ---- script assembly -----------------------------------------------------------------------------

func sha256b(b []byte) []byte { h := sha256.Sum256(b); return h[:] }

func hash160(b []byte) []byte {
	h := interp.Ripemd160(sha256b(b))
	return h[:]
}

// pushMin is the minimal push of data (what MINIMALDATA demands).
func pushMin(d []byte) []byte {
	switch {
	case len(d) == 0:
		return []byte{interp.OP_0}
	case len(d) == 1 && d[0] >= 1 && d[0] <= 16:
		return []byte{interp.OP_1 - 1 + d[0]}
	case len(d) == 1 && d[0] == 0x81:
		return []byte{interp.OP_1NEGATE}
	}
	return sighash.PushData(d)
}

// pushWith encodes a push of d with the given push opcode form: 0 = direct (len < 76), 1/2/4 = PUSHDATAn.
func pushWith(d []byte, form int) []byte {
	n := len(d)
	switch form {
	case 1:
		return append([]byte{interp.OP_PUSHDATA1, byte(n)}, d...)
	case 2:
		return append([]byte{interp.OP_PUSHDATA2, byte(n), byte(n >> 8)}, d...)
	case 4:
		return append([]byte{interp.OP_PUSHDATA4, byte(n), byte(n >> 8), byte(n >> 16), byte(n >> 24)}, d...)
	}
	return append([]byte{byte(n)}, d...)
}

func num(n int64) []byte { return pushMin(interp.NumBytes(n)) }

func cat(parts ...[]byte) []byte {
	var out []byte
	for _, p := range parts {
		out = append(out, p...)
	}
	return out
}

func p2shScript(redeem []byte) []byte {
	return cat([]byte{interp.OP_HASH160, 20}, hash160(redeem), []byte{interp.OP_EQUAL})
}

func witnessScript(ver int, prog []byte) []byte {
	v := byte(0)
	if ver > 0 {
		v = byte(interp.OP_1 - 1 + ver)
	}
	return cat([]byte{v, byte(len(prog))}, prog)
}

// ---- generation context ----------------------------------------------------------------------------

type gen struct {
	t       *rapid.T
	want    map[string]bool // mutations drawn for this case
	applied []string        // those that found a place to act
	notes   []string        // extra class labels
	tapHT   *byte           // when set, Schnorr signatures use this hash type
}

var boolGen = rapid.Bool()

// uniform draws an (almost exactly) uniform integer in [0,n).  rapid's own integer generators favour
// small values by design, which would starve the later entries of every weighted choice; fair coin
// flips are not biased.
func uniform(t *rapid.T, label string, n int) int {
	if n <= 1 {
		return 0
	}
	bits := 6
	for x := n - 1; x > 0; x >>= 1 {
		bits++
	}
	v := 0
	for i := 0; i < bits; i++ {
		v <<= 1
		if boolGen.Draw(t, label) {
			v |= 1
		}
	}
	return v % n
}

func (g *gen) n(label string, lo, hi int) int {
	if hi-lo < 1<<24 {
		return lo + uniform(g.t, label, hi-lo+1)
	}
	return rapid.IntRange(lo, hi).Draw(g.t, label)
}
func (g *gen) chance(label string, pct int) bool {
	return uniform(g.t, label, 100) < pct
}

// bytes returns n pseudo-random bytes expanded (SHA-256 in counter mode) from a drawn 48-bit seed: uniform
// content, cheap for long strings, and still a pure function of rapid's choices.
func (g *gen) bytes(label string, n int) []byte {
	if n == 0 {
		return []byte{}
	}
	a, b := uniform(g.t, label, 1<<24), uniform(g.t, label, 1<<24)
	out := make([]byte, 0, n+32)
	for ctr := 0; len(out) < n; ctr++ {
		h := sha256.Sum256([]byte{byte(a), byte(a >> 8), byte(a >> 16), byte(b), byte(b >> 8), byte(b >> 16), byte(ctr), byte(ctr >> 8)})
		out = append(out, h[:]...)
	}
	return out[:n]
}
func (g *gen) pickInt(label string, xs []int) int { return xs[g.n(label, 0, len(xs)-1)] }
func (g *gen) pickU32(label string, xs []uint32) uint32 {
	return xs[g.n(label, 0, len(xs)-1)]
}

// mut reports whether mutation name was drawn; the first place asking consumes it.
func (g *gen) mut(name string) bool {
	if g.want[name] {
		delete(g.want, name)
		g.applied = append(g.applied, name)
		return true
	}
	return false
}

func (g *gen) note(s string) { g.notes = append(g.notes, s) }

// spendCtx is the transaction under construction.
type spendCtx struct {
	tx    *wire.Tx
	idx   int
	spent []wire.TxOut
}

func (c *spendCtx) amount() uint64 { return c.spent[c.idx].Value }

var interestingLockTimes = []uint32{0, 1, 100, 499999999, 500000000, 500000001, 1700000000, 0xffffffff}
var interestingSequences = []uint32{0xffffffff, 0xfffffffe, 0, 1, 10, 0xffff, 1<<22 | 5, 1<<22 | 0xffff, 1<<31 | 10, 0x0040ffff, 0x80400005}
var interestingVersions = []uint32{1, 2, 2, 2, 0, 3, 0xffffffff, 0x80000000}

func (g *gen) baseTx() *spendCtx {
	nIn := g.pickInt("nin", []int{1, 1, 1, 2, 2, 3})
	nOut := g.pickInt("nout", []int{1, 1, 1, 1, 2, 2, 3, 0})
	c := &spendCtx{tx: &wire.Tx{}}
	c.idx = g.n("idx", 0, nIn-1)
	c.tx.Version = g.pickU32("version", interestingVersions)
	c.tx.LockTime = g.pickU32("locktime", interestingLockTimes)
	for i := 0; i < nIn; i++ {
		var in wire.TxIn
		copy(in.PrevHash[:], g.bytes("prevhash", 32))
		in.PrevHash[0] |= 1 // never the null prevout
		in.PrevIndex = uint32(g.n("previdx", 0, 3))
		in.Sequence = g.pickU32("seq", interestingSequences)
		var o wire.TxOut
		o.Value = g.amountVal()
		if i != c.idx {
			o.PkScript = g.bytes("otherpk", g.n("otherpklen", 0, 34))
			if g.chance("otherss", 30) {
				in.ScriptSig = g.bytes("otherscriptsig", g.n("othersslen", 1, 20))
			}
		}
		c.tx.In = append(c.tx.In, in)
		c.spent = append(c.spent, o)
	}
	for i := 0; i < nOut; i++ {
		c.tx.Out = append(c.tx.Out, wire.TxOut{Value: g.amountVal(), PkScript: g.bytes("outpk", g.n("outpklen", 0, 34))})
	}
	return c
}

func (g *gen) amountVal() uint64 {
	switch g.n("amtkind", 0, 9) {
	case 0:
		return 0
	case 1:
		return 0xffffffffffffffff
	case 2:
		return 2100000000000000
	case 3:
		return 1 << 63
	}
	return uint64(g.n("amthi", 0, 1<<10))<<30 | uint64(g.n("amtlo", 1, 1<<30-1))
}

// ---- DER encodings ----------------------------------------------------------------------------------

func derInt(v *big.Int) []byte {
	b := v.Bytes()
	if len(b) == 0 {
		b = []byte{0}
	}
	if b[0]&0x80 != 0 {
		b = append([]byte{0}, b...)
	}
	return b
}

func derLen(n int) []byte {
	switch {
	case n < 128:
		return []byte{byte(n)}
	case n < 256:
		return []byte{0x81, byte(n)}
	}
	return []byte{0x82, byte(n >> 8), byte(n)}
}

func derWrap(rb, sb []byte) []byte {
	body := cat([]byte{2}, derLen(len(rb)), rb, []byte{2}, derLen(len(sb)), sb)
	return cat([]byte{0x30}, derLen(len(body)), body)
}

func scriptSigFromItems(items [][]byte) []byte {
	var out []byte
	for _, it := range items {
		out = append(out, pushMin(it)...)
	}
	return out
}
