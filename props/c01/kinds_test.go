package c01

import (
	"sort"

	. "verif/ref/interp"

	"verif/ref/sighash"
)

// ---- mutation catalogue ------------------------------------------------------------------------------

var (
	mEcdsaSig  = []string{"hashtype", "wrongkey", "high_s", "s_plus_n", "r_plus_n", "rs_zero", "rs_n", "der_pad", "der_negative", "der_longform", "der_seqlen", "der_trailing", "sig_corrupt", "sig_empty", "sig_truncate"}
	mKeyBase   = []string{"key_hybrid", "key_hybrid_badparity", "key_garbage", "key_offcurve", "key_ge_p"}
	mKeyV0     = []string{"key_hybrid", "key_hybrid_badparity", "key_garbage", "key_offcurve", "key_ge_p", "key_uncompressed_v0"}
	mMultisig  = []string{"ms_keycount", "ms_sigcount", "ops_202", "nonnull_dummy", "ms_wrong_order", "ms_missing_sig"}
	mMisc      = []string{"locktime_operand", "sequence_operand", "if_operand", "dead_branch_fatal", "sig_nonempty_invalid"}
	mScriptSig = []string{"extra_item", "nonminimal_push", "truncate_scriptsig", "non_pushonly", "unexpected_witness", "pk_flip"}
	mNativeWit = []string{"scriptsig_nonempty", "extra_item", "witness_empty", "pk_flip", "wit_item_big"}
	mP2shWit   = []string{"nonminimal_push", "scriptsig_extra_push", "extra_item", "witness_empty", "non_pushonly", "wit_item_big"}
	mTapSig    = []string{"tap_hashtype", "wrongkey", "sig_corrupt", "sig_empty", "schnorr_len"}
	mTapKey    = []string{"tapkey_len", "tapkey_unliftable"}
	mTapCommit = []string{"ikey_ge_p", "ikey_unliftable", "wrong_parity", "control_size", "control_corrupt", "annex_strip", "annex_add"}
	mFAD       = []string{"fad_noncanonical_push", "fad_twice"}
)

func join(ls ...[]string) []string {
	var out []string
	seen := map[string]bool{}
	for _, l := range ls {
		for _, s := range l {
			if !seen[s] {
				seen[s] = true
				out = append(out, s)
			}
		}
	}
	return out
}

type kindDef struct {
	name   string
	weight int
	muts   []string
	build  func(g *gen, c *spendCtx) (scriptSig []byte, witness [][]byte)
	class  string // "legacy" | "native" | "p2shwit": which spend-level mutations make sense
}

func setPk(c *spendCtx, pk []byte) { c.spent[c.idx].PkScript = pk }

func (g *gen) plan(c *spendCtx, what string, sv int) plan {
	switch what {
	case "pk":
		return g.planPK(sv)
	case "pkh":
		return g.planPKH(sv)
	case "multisig":
		return g.planMultisig(sv)
	case "csa":
		return g.planCSA()
	}
	return g.planMisc(c, sv)
}

func bareKind(what string) func(g *gen, c *spendCtx) ([]byte, [][]byte) {
	return func(g *gen, c *spendCtx) ([]byte, [][]byte) {
		p := g.plan(c, what, svBase)
		setPk(c, p.script)
		return scriptSigFromItems(g.resolve(c, p, svBase, nil)), nil
	}
}

func p2shKind(what string) func(g *gen, c *spendCtx) ([]byte, [][]byte) {
	return func(g *gen, c *spendCtx) ([]byte, [][]byte) {
		p := g.plan(c, what, svBase)
		setPk(c, p2shScript(p.script))
		if len(p.script) > 520 {
			g.note("redeem_over_520")
		}
		items := append(g.resolve(c, p, svBase, nil), p.script)
		return scriptSigFromItems(items), nil
	}
}

func p2wshKind(what string, wrapped bool) func(g *gen, c *spendCtx) ([]byte, [][]byte) {
	return func(g *gen, c *spendCtx) ([]byte, [][]byte) {
		p := g.plan(c, what, svV0)
		wpk := witnessScript(0, sha256b(p.script))
		var ss []byte
		if wrapped {
			setPk(c, p2shScript(wpk))
			ss = sighash.PushData(wpk)
		} else {
			setPk(c, wpk)
		}
		wit := append(g.resolve(c, p, svV0, nil), p.script)
		return ss, wit
	}
}

func p2wpkhKind(wrapped bool) func(g *gen, c *spendCtx) ([]byte, [][]byte) {
	return func(g *gen, c *spendCtx) ([]byte, [][]byte) {
		k := g.n("key", 0, nKeys-1)
		kb := g.keyBytes(k, svV0)
		wpk := witnessScript(0, hash160(kb))
		var ss []byte
		if wrapped {
			setPk(c, p2shScript(wpk))
			ss = sighash.PushData(wpk)
		} else {
			setPk(c, wpk)
		}
		code := cat([]byte{OP_DUP, OP_HASH160, 20}, hash160(kb), []byte{OP_EQUALVERIFY, OP_CHECKSIG})
		p := plan{script: code, stack: []item{sigOf(k, 0, 0xffffffff), lit(kb)}}
		return ss, g.resolve(c, p, svV0, nil)
	}
}

func fadKind(p2sh bool) func(g *gen, c *spendCtx) ([]byte, [][]byte) {
	return func(g *gen, c *spendCtx) ([]byte, [][]byte) {
		script, stack := g.planFAD(c)
		if p2sh {
			if len(script) > 520 {
				g.note("redeem_over_520")
			}
			setPk(c, p2shScript(script))
			return scriptSigFromItems(append(stack, script)), nil
		}
		setPk(c, script)
		return scriptSigFromItems(stack), nil
	}
}

func tapLeafKind(what string, deep bool) func(g *gen, c *spendCtx) ([]byte, [][]byte) {
	return func(g *gen, c *spendCtx) ([]byte, [][]byte) {
		depth := g.pickInt("depth", []int{0, 0, 1, 1, 2, 3, 4, 5, 6})
		if deep {
			depth = g.pickInt("deepdepth", []int{127, 128, 128, 129})
			if depth == 129 {
				g.note("depth129")
			}
		}
		p := g.plan(c, what, svTap)
		pk, wit := g.tapScriptPath(c, 0xc0, depth, p.script, func(tc *tapCtx) [][]byte { return g.resolve(c, p, svTap, tc) })
		_ = pk
		return nil, wit
	}
}

func (g *gen) junkStack(max int) [][]byte {
	var st [][]byte
	for i, n := 0, g.n("junkn", 0, max); i < n; i++ {
		st = append(st, g.bytes("junk", g.pickInt("junklen", []int{0, 1, 1, 2, 5, 32, 64, 65})))
	}
	return st
}

func buildOpSuccess(g *gen, c *spendCtx) ([]byte, [][]byte) {
	op := byte(g.pickInt("succ", opSuccessList))
	switch r := g.n("succsel", 0, 99); {
	case r < 45: // the ends of every OP_SUCCESSx range
		op = byte(g.pickInt("succedge", []int{80, 98, 126, 129, 131, 134, 137, 138, 141, 142, 149, 153, 187, 254}))
	case r < 60: // the opcodes just outside the ranges: not OP_SUCCESSx
		op = byte(g.pickInt("succnear", []int{79, 81, 97, 99, 125, 130, 135, 136, 139, 140, 143, 148, 154, 186, 255}))
		g.note("opsuccess_neighbour")
	}
	var prefix, suffix []byte
	switch g.n("succpre", 0, 3) {
	case 1:
		prefix = []byte{OP_1, OP_DROP}
	case 2:
		prefix = []byte{OP_0, OP_IF}
	case 3:
		prefix = cat(pushMin(g.bytes("succpush", g.n("succpushn", 1, 40))), []byte{OP_DROP})
	}
	switch g.n("succsuf", 0, 6) {
	case 1:
		suffix = []byte{OP_1}
	case 2:
		suffix = []byte{OP_PUSHDATA1, 0xff, 1}
		g.note("opsuccess_before_truncated")
	case 3:
		suffix = []byte{OP_CAT}
	case 4:
		suffix = pushWith(make([]byte, 521), 2)
	case 5:
		suffix = []byte{OP_VERIF}
	case 6:
		suffix = []byte{OP_PUSHDATA4, 0xff, 0xff, 0xff, 0xff}
		g.note("opsuccess_before_truncated")
	}
	if g.mut("opsuccess_after_truncated") {
		prefix = cat(prefix, []byte{OP_PUSHDATA2, 0xff, 0x7f})
	}
	script := cat(prefix, []byte{op}, suffix)
	st := g.junkStack(3)
	switch g.n("succstack", 0, 19) {
	case 0:
		st = append(st, make([]byte, 600)) // beyond the element limit: OP_SUCCESS comes first
	case 1:
		for i := 0; i < 1001; i++ {
			st = append(st, []byte{1})
		}
	}
	_, wit := g.tapScriptPath(c, 0xc0, g.n("depth", 0, 3), script, func(tc *tapCtx) [][]byte { return st })
	return nil, wit
}

func buildBudget(g *gen, c *spendCtx) ([]byte, [][]byte) {
	k := g.n("key", 0, nKeys-1)
	K := g.n("budgetk", 5, 8)
	script := pushMin(keys[k].xonly)
	for i := 0; i < K-1; i++ {
		script = append(script, OP_2DUP, OP_CHECKSIGVERIFY)
	}
	script = append(script, OP_CHECKSIG)
	depth := g.n("depth", 0, 1)
	// witness = [sig(64), script, control, annex]; its serialized size is
	base := 1 + 65 + (1 + len(script)) + (1 + 33 + 32*depth)
	// with an annex of L bytes (L < 253) it grows by 1+L.  left = size + 50 - 50K.
	slack := g.pickInt("slack", []int{0, 0, 0, 1, 49, 50})
	if g.mut("budget_minus_one") {
		slack = -1
	}
	L := 50*K - 50 + slack - base - 1
	annex := append([]byte{0x50}, make([]byte, L-1)...)
	zero := byte(0)
	g.tapHT = &zero
	k2 := g.n("ikey", 0, nKeys-1)
	_ = k2
	pk, wit := g.tapScriptPathAnnex(c, 0xc0, depth, script, annex, func(tc *tapCtx) [][]byte {
		return [][]byte{g.schnorr(c, keys[k].sk, 1, tc.annex, tc.leafHash[:], 0xffffffff)}
	})
	g.tapHT = nil
	_ = pk
	return nil, wit
}

func buildBigStack(g *gen, c *spendCtx) ([]byte, [][]byte) {
	n := 1000
	if g.mut("stack_1001") {
		n = 1001
	}
	if g.chance("smaller", 20) {
		n = g.pickInt("bign", []int{998, 999})
	}
	var script []byte
	for i := 0; i < (n-1)/2; i++ {
		script = append(script, OP_2DROP)
	}
	if (n-1)%2 == 1 {
		script = append(script, OP_DROP)
	}
	st := make([][]byte, n)
	for i := range st {
		st[i] = []byte{1}
	}
	_, wit := g.tapScriptPath(c, 0xc0, 0, script, func(tc *tapCtx) [][]byte { return st })
	return nil, wit
}

func buildLeafVer(g *gen, c *spendCtx) ([]byte, [][]byte) {
	ver := byte(g.pickInt("leafver", []int{0xc2, 0xc4, 0x00, 0x02, 0x50, 0x52, 0xfe, 0xbe, 0x66, 0x7e, 0x80}))
	if ver == 0x50 {
		g.note("leafver_0x50")
	}
	var script []byte
	switch g.n("lvscript", 0, 3) {
	case 0:
		script = []byte{OP_1}
	case 1:
		script = g.bytes("lvjunk", g.n("lvjunkn", 0, 40))
	case 2:
		script = []byte{OP_RETURN}
	default:
		script = cat(pushMin(keys[0].xonly), []byte{OP_CHECKSIG})
	}
	st := g.junkStack(3)
	_, wit := g.tapScriptPath(c, ver, g.n("depth", 0, 3), script, func(tc *tapCtx) [][]byte { return st })
	return nil, wit
}

func buildWitFuture(mode string) func(g *gen, c *spendCtx) ([]byte, [][]byte) {
	return func(g *gen, c *spendCtx) ([]byte, [][]byte) {
		var ver, n int
		switch mode {
		case "future":
			ver, n = g.n("wver", 2, 16), g.pickInt("wlen", []int{2, 3, 20, 32, 32, 33, 40})
		case "v1_non32":
			ver, n = 1, g.pickInt("wlen", []int{2, 3, 20, 31, 33, 40})
			if g.chance("anchor", 25) {
				// P2A (4e73): newer Core releases special-case it; only the discourage flag tells them apart
				setPk(c, []byte{OP_1, 2, 0x4e, 0x73})
				g.note("pay_to_anchor")
				return nil, g.junkStack(2)
			}
		default:
			ver, n = 0, g.pickInt("wlen", []int{2, 19, 21, 25, 31, 33, 40})
		}
		prog := g.bytes("wprog", n)
		if g.chance("zeroprog", 5) {
			prog = make([]byte, n) // an all-zero program is "false" on the stack
			g.note("zero_program")
		}
		setPk(c, witnessScript(ver, prog))
		return nil, g.junkStack(3)
	}
}

func buildP2shWit(mode string) func(g *gen, c *spendCtx) ([]byte, [][]byte) {
	return func(g *gen, c *spendCtx) ([]byte, [][]byte) {
		var redeem []byte
		var wit [][]byte
		if mode == "v1" {
			if g.chance("realtaproot", 50) {
				// a real taproot output and its valid key-path witness, but wrapped in P2SH
				_, w := g.tapKeyPath(c)
				redeem = c.spent[c.idx].PkScript
				wit = w
			} else {
				redeem = witnessScript(1, g.bytes("wprog", 32))
				wit = g.junkStack(3)
			}
		} else {
			ver := g.n("wver", 0, 16)
			n := g.pickInt("wlen", []int{2, 3, 19, 21, 31, 33, 40})
			if ver > 1 && g.chance("len32", 40) {
				n = 32
			}
			if ver == 0 {
				g.note("v0_badlen")
			}
			redeem = witnessScript(ver, g.bytes("wprog", n))
			wit = g.junkStack(3)
		}
		setPk(c, p2shScript(redeem))
		return sighash.PushData(redeem), wit
	}
}

var kinds []kindDef

func init() {
	legacySig := join(mEcdsaSig, mKeyBase, mScriptSig)
	v0Sig := join(mEcdsaSig, mKeyV0)
	tapLeaf := join(mTapSig, mTapKey, mTapCommit, []string{"scriptsig_nonempty", "extra_item", "witness_empty", "wit_item_big"})
	kinds = []kindDef{
		{"bare_pk", 8, legacySig, bareKind("pk"), "legacy"},
		{"bare_pkh", 8, legacySig, bareKind("pkh"), "legacy"},
		{"bare_multisig", 12, join(legacySig, mMultisig), bareKind("multisig"), "legacy"},
		{"bare_misc", 12, join(legacySig, mMisc), bareKind("misc"), "legacy"},
		{"bare_fad", 6, join(mFAD, mScriptSig, mKeyBase), fadKind(false), "legacy"},
		{"p2sh_pk", 6, legacySig, p2shKind("pk"), "legacy"},
		{"p2sh_pkh", 4, legacySig, p2shKind("pkh"), "legacy"},
		{"p2sh_multisig", 8, join(legacySig, mMultisig), p2shKind("multisig"), "legacy"},
		{"p2sh_misc", 8, join(legacySig, mMisc), p2shKind("misc"), "legacy"},
		{"p2sh_fad", 4, join(mFAD, mScriptSig), fadKind(true), "legacy"},
		{"p2wpkh", 10, join(v0Sig, mNativeWit), p2wpkhKind(false), "native"},
		{"p2wsh_pk", 4, join(v0Sig, mNativeWit), p2wshKind("pk", false), "native"},
		{"p2wsh_multisig", 8, join(v0Sig, mMultisig, mNativeWit), p2wshKind("multisig", false), "native"},
		{"p2wsh_misc", 10, join(v0Sig, mMisc, mNativeWit), p2wshKind("misc", false), "native"},
		{"p2sh_p2wpkh", 8, join(v0Sig, mP2shWit), p2wpkhKind(true), "p2shwit"},
		{"p2sh_p2wsh_multisig", 4, join(v0Sig, mMultisig, mP2shWit), p2wshKind("multisig", true), "p2shwit"},
		{"p2sh_p2wsh_misc", 6, join(v0Sig, mMisc, mP2shWit), p2wshKind("misc", true), "p2shwit"},
		{"p2tr_key", 16, join(mTapSig, []string{"annex_strip", "annex_add", "annex_only", "scriptsig_nonempty", "extra_item", "witness_empty", "pk_flip"}),
			func(g *gen, c *spendCtx) ([]byte, [][]byte) { _, w := g.tapKeyPath(c); return nil, w }, "native"},
		{"p2tr_pk", 12, tapLeaf, tapLeafKind("pk", false), "native"},
		{"p2tr_csa", 8, append(append([]string{}, tapLeaf...), "csa_extra_sig", "csa_extra_sig", "csa_extra_sig"), tapLeafKind("csa", false), "native"},
		{"p2tr_misc", 10, join(tapLeaf, mMisc), tapLeafKind("misc", false), "native"},
		{"p2tr_opsuccess", 6, join(mTapCommit, []string{"opsuccess_after_truncated", "scriptsig_nonempty"}), buildOpSuccess, "native"},
		{"p2tr_budget", 4, []string{"budget_minus_one", "sig_corrupt", "wrong_parity"}, buildBudget, "native"},
		{"p2tr_budget_mixed", 8, []string{"budget_minus_one", "budget_minus_one", "budget_minus_one", "sig_corrupt", "wrong_parity"}, buildBudgetMixed, "native"},
		{"p2tr_bigstack", 3, []string{"stack_1001", "wrong_parity", "extra_item"}, buildBigStack, "native"},
		{"p2tr_deep", 4, join(mTapSig, mTapCommit), tapLeafKind("pk", true), "native"},
		{"p2tr_leafver", 6, join(mTapCommit, []string{"scriptsig_nonempty", "witness_empty"}), buildLeafVer, "native"},
		{"wit_future", 6, []string{"scriptsig_nonempty", "witness_empty", "extra_item"}, buildWitFuture("future"), "native"},
		{"wit_v1_non32", 4, []string{"scriptsig_nonempty", "witness_empty", "extra_item"}, buildWitFuture("v1_non32"), "native"},
		{"wit_v0_badlen", 4, []string{"scriptsig_nonempty", "witness_empty", "extra_item"}, buildWitFuture("v0_badlen"), "native"},
		{"p2sh_wit_v1", 6, join(mP2shWit, []string{"tap_hashtype", "sig_corrupt"}), buildP2shWit("v1"), "p2shwit"},
		{"p2sh_wit_future", 4, mP2shWit, buildP2shWit("future"), "p2shwit"},
	}
}

func kindByName(n string) *kindDef {
	for i := range kinds {
		if kinds[i].name == n {
			return &kinds[i]
		}
	}
	return nil
}

func allMutations() []string {
	seen := map[string]bool{}
	for _, k := range kinds {
		for _, m := range k.muts {
			seen[m] = true
		}
	}
	var out []string
	for m := range seen {
		out = append(out, m)
	}
	sort.Strings(out)
	return out
}

// ---- spend-level mutations (on the assembled scriptSig / witness / scriptPubKey) -----------------------

func reencodePush(ss []byte, which int, g *gen) []byte {
	// find the pushes
	type pos struct{ from, to, op int }
	var ps []pos
	for pc := 0; pc < len(ss); {
		op, _, next, ok := GetOp(ss, pc)
		if !ok {
			break
		}
		if op <= OP_16 && op != OP_RESERVED {
			ps = append(ps, pos{pc, next, op})
		}
		pc = next
	}
	if len(ps) == 0 {
		return ss
	}
	p := ps[len(ps)-1]
	if which >= 0 {
		p = ps[which%len(ps)]
	}
	_, data, _, _ := GetOp(ss, p.from)
	if p.op == OP_1NEGATE {
		data = []byte{0x81}
	} else if p.op >= OP_1 && p.op <= OP_16 {
		data = []byte{byte(p.op - OP_1 + 1)}
	}
	forms := []int{1, 2, 4}
	if p.op == OP_PUSHDATA1 {
		forms = []int{2, 4}
	} else if p.op == OP_PUSHDATA2 {
		forms = []int{4}
	} else if p.op == OP_PUSHDATA4 {
		return ss
	} else if p.op >= OP_1NEGATE {
		forms = []int{0, 1, 2}
	}
	enc := pushWith(data, g.pickInt("pushform", forms))
	return cat(ss[:p.from], enc, ss[p.to:])
}

func (g *gen) postMutate(k *kindDef, c *spendCtx, ss []byte, wit [][]byte) ([]byte, [][]byte) {
	witnessKind := k.class != "legacy"
	if g.want["extra_item"] {
		g.mut("extra_item")
		extra := g.bytes("extra", g.pickInt("extralen", []int{0, 1, 1, 2, 33, 72}))
		if witnessKind {
			wit = append([][]byte{extra}, wit...)
		} else {
			ss = cat(pushMin(extra), ss)
		}
	}
	if g.want["wit_item_big"] && len(wit) > 0 {
		g.mut("wit_item_big")
		wit = append([][]byte{make([]byte, g.pickInt("bigitem", []int{520, 521, 521, 600}))}, wit...)
	}
	if g.want["nonminimal_push"] && len(ss) > 0 {
		g.mut("nonminimal_push")
		which := -1
		if g.chance("whichpush", 50) {
			which = g.n("pushidx", 0, 5)
		}
		ss = reencodePush(ss, which, g)
	}
	if g.want["scriptsig_extra_push"] {
		g.mut("scriptsig_extra_push")
		ss = cat(pushMin(g.bytes("xpush", g.n("xpushn", 0, 3))), ss)
	}
	if g.want["non_pushonly"] {
		g.mut("non_pushonly")
		switch g.n("npo", 0, 2) {
		case 0:
			ss = cat([]byte{OP_NOP}, ss)
		case 1:
			ss = cat([]byte{OP_1, OP_DROP}, ss)
		default:
			ss = cat([]byte{OP_DEPTH, OP_DROP}, ss)
		}
	}
	if g.want["truncate_scriptsig"] && len(ss) > 0 {
		g.mut("truncate_scriptsig")
		ss = ss[:len(ss)-g.n("trn", 1, min(3, len(ss)))]
	}
	if g.want["scriptsig_nonempty"] {
		g.mut("scriptsig_nonempty")
		ss = [][]byte{{OP_0}, {OP_NOP}, {OP_1}, {1, 0x42}}[g.n("ssne", 0, 3)]
	}
	if g.want["unexpected_witness"] && len(wit) == 0 {
		g.mut("unexpected_witness")
		wit = [][][]byte{{{1}}, {{}}, {{1, 2, 3}, {}}}[g.n("uw", 0, 2)]
	}
	if g.want["witness_empty"] && len(wit) > 0 {
		g.mut("witness_empty")
		wit = nil
	}
	if g.want["pk_flip"] {
		g.mut("pk_flip")
		pk := append([]byte{}, c.spent[c.idx].PkScript...)
		if len(pk) > 0 {
			pk[g.n("pkpos", 0, len(pk)-1)] ^= 1 << uint(g.n("pkbit", 0, 7))
		}
		c.spent[c.idx].PkScript = pk
	}
	return ss, wit
}
