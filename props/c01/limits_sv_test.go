package c01

import (
	. "verif/ref/interp"

	"verif/ref/sighash"
)

// limits x signature version: for every consensus limit, a signature-free construction sitting just below /
// on / just above it in EACH evaluation context the limit applies to or is exempt for, built so that only
// that limit decides (everything else - other limits, clean stack, true result - is satisfied).

// exactScript returns a script of exactly n bytes (n >= 1) that leaves a single OP_1 on an empty stack, uses
// pushes of at most 520 bytes and one non-push opcode per ~524 bytes.
func exactScript(n int) []byte {
	var s []byte
	r := n - 1 // the final OP_1
	block := func(total int) {
		// a push + OP_DROP of exactly total bytes; total in 2..77, 79..258, 260..524
		k := total - 2
		form := 0
		switch {
		case total >= 260:
			k, form = total-4, 2
		case total >= 79:
			k, form = total-3, 1
		}
		if k == 0 {
			s = append(s, OP_0, OP_DROP)
			return
		}
		s = append(s, pushWith(rep(0x42, k), form)...)
		s = append(s, OP_DROP)
	}
	for r > 526 {
		block(524)
		r -= 524
	}
	switch {
	case r == 0:
	case r == 1:
		s = append(s, OP_NOP)
	case r == 78 || r == 259 || r > 524:
		block(2)
		block(r - 2)
	default:
		block(r)
	}
	return append(s, OP_1)
}

func (g *gen) wrapIn(c *spendCtx, ctx string, script []byte, init [][]byte) ([]byte, [][]byte) {
	switch ctx {
	case "bare":
		setPk(c, script)
		return scriptSigFromItems(init), nil
	case "p2sh":
		setPk(c, p2shScript(script))
		return cat(scriptSigFromItems(init), sighash.PushData(script)), nil
	case "p2wsh":
		setPk(c, witnessScript(0, sha256b(script)))
		return nil, append(append([][]byte{}, init...), script)
	case "p2sh_p2wsh":
		wpk := witnessScript(0, sha256b(script))
		setPk(c, p2shScript(wpk))
		return sighash.PushData(wpk), append(append([][]byte{}, init...), script)
	}
	_, wit := g.tapScriptPath(c, 0xc0, g.n("depth", 0, 1), script, func(tc *tapCtx) [][]byte { return init })
	return nil, wit
}

func (g *gen) limitsSV(c *spendCtx) ([]byte, [][]byte) {
	pick := func(label string, xs []string) string { return xs[g.n(label, 0, len(xs)-1)] }
	var limit, ctx string
	var script []byte
	var init [][]byte
	switch r := g.n("lsvk", 0, 99); {
	case r < 28:
		limit = "script_size"
		ctx = pick("ctx", []string{"bare", "p2wsh", "p2wsh", "p2sh_p2wsh", "p2sh_p2wsh", "tap"})
		n := g.pickInt("size", []int{9999, 10000, 10001, 10001, 12000})
		script = exactScript(n)
		g.note(map[int]string{9999: "lsv_size:below", 10000: "lsv_size:at", 10001: "lsv_size:over", 12000: "lsv_size:over"}[n])
	case r < 40:
		limit = "script_item_520" // the script element itself: limited as a P2SH push, exempt as witness script / leaf
		ctx = pick("ctx", []string{"p2sh", "p2sh", "p2wsh", "p2sh_p2wsh", "tap"})
		script = exactScript(g.pickInt("size", []int{519, 520, 521, 600}))
	case r < 52:
		limit = "push_520"
		ctx = pick("ctx", []string{"bare", "p2wsh", "p2sh_p2wsh", "tap"})
		n := g.pickInt("size", []int{519, 520, 521, 521})
		body := pushWith(rep(7, n), 2)
		if g.chance("deadpush", 40) {
			script = cat([]byte{OP_0, OP_IF}, body, []byte{OP_ENDIF, OP_1}) // counts even when not executed
		} else {
			script = cat(body, []byte{OP_DROP, OP_1})
		}
	case r < 64:
		limit = "ops_201"
		ctx = pick("ctx", []string{"bare", "p2wsh", "p2sh_p2wsh", "tap", "tap"})
		script = append(rep(OP_NOP, g.pickInt("nops", []int{200, 201, 202, 202, 300})), OP_1)
	case r < 76:
		limit = "stack_1000" // growth during execution; only tapscript can get back to one element (no opcode limit)
		ctx = "tap"
		n0 := g.pickInt("n0", []int{998, 999, 1000, 1000})
		for i := 0; i < n0; i++ {
			init = append(init, []byte{1})
		}
		script = []byte{OP_1} // n0 + 1 elements right after this push
		if g.chance("viaalt", 30) {
			script = []byte{OP_1, OP_TOALTSTACK, OP_FROMALTSTACK}
		}
		for left := n0; left > 0; {
			if left >= 2 {
				script = append(script, OP_2DROP)
				left -= 2
			} else {
				script = append(script, OP_DROP)
				left--
			}
		}
	case r < 88:
		limit = "minimalif" // none in BASE, policy flag in v0, consensus in tapscript
		ctx = pick("ctx", []string{"bare", "p2wsh", "p2sh_p2wsh", "tap", "tap"})
		sel := [][]byte{{1}, {}, {2}, {1, 0}, {0}, {0x80}, {1, 1}}[g.n("sel", 0, 6)]
		init = [][]byte{sel}
		script = []byte{byte(g.pickInt("ifop", []int{OP_IF, OP_NOTIF})), OP_1, OP_ELSE, OP_1, OP_ENDIF}
	default:
		limit = "witness_item_520" // items of the initial witness stack (all witness versions), not the script item
		ctx = pick("ctx", []string{"p2wsh", "p2sh_p2wsh", "tap"})
		init = [][]byte{rep(3, g.pickInt("size", []int{519, 520, 521, 521}))}
		script = []byte{OP_DROP, OP_1}
		if g.chance("bigscript", 30) {
			script = cat([]byte{OP_DROP}, exactScript(g.pickInt("size2", []int{521, 600})))
		}
	}
	g.note("lsv:" + limit + "/" + ctx)
	return g.wrapIn(c, ctx, script, init)
}
