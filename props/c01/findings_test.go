package c01

import (
	"math/big"

	"verif/ref/ec"
	"verif/ref/interp"
)

// Open known findings of C01: narrow class predicates over the generated case (never the outcome).
// A predicate only matters while pbt.FindingOpen(key) holds, i.e. while findings/<key>.entry.json says
// "open"; once the defect is fixed in /repo the entry flips to "fixed" and the predicate is dead.

// sigCandidates returns every stack element the spend supplies (pushes of the scriptSig, pushes of a
// P2SH redeem script / witness script found among them, witness items) that looks like an ECDSA
// signature: starts with 0x30 and is at least 9 bytes long.
func sigCandidates(d *decoded, idx int) [][]byte {
	var out [][]byte
	add := func(b []byte) {
		if len(b) >= 9 && b[0] == 0x30 {
			out = append(out, b)
		}
	}
	var scan func(script []byte, depth int)
	scan = func(script []byte, depth int) {
		for pc := 0; pc < len(script); {
			_, data, next, ok := interp.GetOp(script, pc)
			if !ok {
				return
			}
			add(data)
			if depth < 2 && len(data) > 20 {
				scan(data, depth+1)
			}
			pc = next
		}
	}
	scan(d.tx.In[idx].ScriptSig, 0)
	scan(d.spent[idx].PkScript, 1)
	for _, w := range d.tx.In[idx].Witness {
		add(w)
		if len(w) > 20 {
			scan(w, 1)
		}
	}
	return out
}

// laxButNotPlain: Core's lax DER parser accepts the signature (hash type byte stripped) while it is not
// in the plain form "30 L 02 lr R 02 ls S" with single-byte lengths, L exact and nothing after S.
func laxButNotPlain(sig []byte) bool {
	body := sig[:len(sig)-1]
	if _, _, ok := ec.ParseDERLax(body); !ok {
		return false
	}
	_, _, plain := ec.ParseDERStrictInts(body)
	return !plain
}

// rsOutOfRange: plainly framed signature whose R or S content is >= n (e.g. s + n in 33 bytes).
func rsOutOfRange(sig []byte) bool {
	r, s, ok := ec.ParseDERStrictInts(sig[:len(sig)-1])
	if !ok {
		return false
	}
	return r.Cmp(ec.N) >= 0 || s.Cmp(ec.N) >= 0
}

func anySig(d *decoded, idx int, f func([]byte) bool) bool {
	for _, s := range sigCandidates(d, idx) {
		if f(s) {
			return true
		}
	}
	return false
}

// taprootInternalKeyInvalid: the input spends a v1 32-byte program by script path and the control
// block's internal key is not a valid x-only key (>= p or x^3+7 not a square).
func taprootInternalKeyInvalid(d *decoded, idx int) bool {
	pk := d.spent[idx].PkScript
	if len(pk) != 34 || pk[0] != interp.OP_1 || pk[1] != 32 {
		return false
	}
	w := d.tx.In[idx].Witness
	if len(w) >= 2 && len(w[len(w)-1]) > 0 && w[len(w)-1][0] == 0x50 {
		w = w[:len(w)-1]
	}
	if len(w) < 2 {
		return false
	}
	control := w[len(w)-1]
	if len(control) < 33 {
		return false
	}
	_, ok := ec.LiftX(new(big.Int).SetBytes(control[1:33]))
	return !ok
}

var knownFindings = []knownFinding{
	{"script-taproot-internal-key-invalid", func(c *Case, d *decoded) bool { return taprootInternalKeyInvalid(d, c.Idx) }},
	{"script-ecdsa-rs-not-below-n", func(c *Case, d *decoded) bool { return anySig(d, c.Idx, rsOutOfRange) }},
	{"script-lax-der", func(c *Case, d *decoded) bool {
		return c.Flags&(interp.DERSIG|interp.STRICTENC|interp.LOW_S) == 0 && anySig(d, c.Idx, laxButNotPlain)
	}},
}
