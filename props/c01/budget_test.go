package c01

import (
	. "verif/ref/interp"
)

// buildBudgetMixed: a tapscript leaf whose signature opcodes are a mix of
//   - 32-byte keys with valid signatures (charged 50, count 1),
//   - 32-byte keys with empty signatures (not charged, count 0),
//   - keys of an unknown type (length 1..31, 33, 64, 65) with a NON-EMPTY dummy signature (charged 50, count 1
//     unless DISCOURAGE_UPGRADABLE_PUBKEYTYPE),
//   - unknown-type keys with an empty signature (not charged, count 0),
//
// taken from the witness or pushed by the script itself, accumulated with CHECKSIG / CHECKSIGADD /
// CHECKSIGVERIFY, and a signed annex sized so that the validation weight left after the last charged opcode
// is exactly slack (0, 1, 49 when correct; -1 .. -50 under the mutation).
func buildBudgetMixed(g *gen, c *spendCtx) ([]byte, [][]byte) {
	type unit struct {
		key     []byte
		valid   int // pool key index for a valid signature, -1 otherwise
		dummy   []byte
		charged bool
	}
	unknownKey := func() []byte {
		n := g.pickInt("uklen", []int{1, 1, 2, 20, 31, 33, 33, 64, 65})
		k := g.bytes("ukey", n)
		if n == 33 && g.chance("ukcomp", 50) {
			k = append([]byte{}, keys[g.n("ukpool", 0, nKeys-1)].comp...) // looks like an ECDSA key
		}
		return k
	}
	mkUnit := func(fromWitness bool) unit {
		switch g.n("unitk", 0, 9) {
		case 0, 1:
			if fromWitness { // a valid signature has to come from the witness
				k := g.n("ukeyidx", 0, nKeys-1)
				return unit{key: keys[k].xonly, valid: k, charged: true}
			}
			fallthrough
		case 2, 3, 4, 5, 6:
			d := []byte{1}
			if g.chance("longdummy", 30) {
				d = g.bytes("dummysig", g.pickInt("dummylen", []int{1, 2, 63, 64, 65, 71}))
			}
			return unit{key: unknownKey(), valid: -1, dummy: d, charged: true}
		case 7:
			return unit{key: unknownKey(), valid: -1, dummy: []byte{}}
		default:
			return unit{key: keys[g.n("ukeyidx2", 0, nKeys-1)].xonly, valid: -1, dummy: []byte{}}
		}
	}
	var wUnits, sUnits []unit
	for i, n := 0, g.n("nwunits", 0, 3); i < n; i++ {
		wUnits = append(wUnits, mkUnit(true))
	}
	for i, n := 0, g.n("nsunits", 1, 4); i < n; i++ {
		sUnits = append(sUnits, mkUnit(false))
	}
	depth := g.n("depth", 0, 1)
	slack := g.pickInt("slack", []int{0, 0, 0, 1, 49})
	if g.mut("budget_minus_one") {
		slack = -g.pickInt("over", []int{1, 1, 1, 2, 49, 50})
	}
	var script []byte
	var L, charged int
	unknownCharged := false
	for {
		// script: witness units as a CHECKSIG/CHECKSIGADD chain, then script-pushed units
		script = nil
		charged = 0
		unknownCharged = false
		verifyStyle := false
		if len(wUnits) == 0 {
			script = append(script, OP_0)
		}
		for i, u := range wUnits {
			script = append(script, pushMin(u.key)...)
			if i == 0 {
				script = append(script, OP_CHECKSIG)
			} else {
				script = append(script, OP_CHECKSIGADD)
			}
		}
		for _, u := range sUnits {
			if u.charged && len(u.key) != 32 && verifyStyle {
				// <sig> <key> CHECKSIGVERIFY: charged, leaves nothing
				script = append(script, pushMin(u.dummy)...)
				script = append(script, pushMin(u.key)...)
				script = append(script, OP_CHECKSIGVERIFY, OP_1ADD)
			} else {
				script = append(script, pushMin(u.dummy)...)
				script = append(script, OP_SWAP)
				script = append(script, pushMin(u.key)...)
				script = append(script, OP_CHECKSIGADD)
			}
			verifyStyle = !verifyStyle
		}
		for _, u := range append(append([]unit{}, wUnits...), sUnits...) {
			if u.charged {
				charged++
				if len(u.key) != 32 {
					unknownCharged = true
				}
			}
		}
		script = append(script, num(int64(charged))...)
		script = append(script, OP_NUMEQUAL)
		base := 1 + (len(lenPrefix(len(script))) + len(script)) + (1 + 33 + 32*depth)
		for _, u := range wUnits {
			switch {
			case u.valid >= 0:
				base += 65
			default:
				base += 1 + len(u.dummy)
			}
		}
		L = 50*charged - 50 + slack - base - 1
		if L >= 255 {
			L -= 2 // three-byte length prefix
		}
		if L >= 1 && L != 253 && L != 254 {
			break
		}
		// not enough charged opcodes for this witness size: add a cheap charged one
		sUnits = append(sUnits, unit{key: []byte{byte(g.n("cheapkey", 1, 255))}, valid: -1, dummy: []byte{1}, charged: true})
	}
	if unknownCharged {
		g.note("budget_unknown_keytype")
		if slack < 0 {
			g.note("budget_unknown_keytype_over")
		}
	}
	annex := append([]byte{0x50}, g.bytes("annexpad", L-1)...)
	zero := byte(0)
	g.tapHT = &zero
	_, wit := g.tapScriptPathAnnex(c, 0xc0, depth, script, annex, func(tc *tapCtx) [][]byte {
		// witness order: the first chain element consumes the TOP of the stack
		st := make([][]byte, len(wUnits))
		for i, u := range wUnits {
			var s []byte
			if u.valid >= 0 {
				s = g.schnorr(c, keys[u.valid].sk, 1, tc.annex, tc.leafHash[:], 0xffffffff)
			} else {
				s = u.dummy
			}
			st[len(wUnits)-1-i] = s
		}
		return st
	})
	g.tapHT = nil
	return nil, wit
}

func lenPrefix(n int) []byte {
	switch {
	case n < 253:
		return []byte{byte(n)}
	case n <= 0xffff:
		return []byte{0xfd, byte(n), byte(n >> 8)}
	}
	return []byte{0xfe, byte(n), byte(n >> 8), byte(n >> 16), byte(n >> 24)}
}
