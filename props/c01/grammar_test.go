package c01

import (
	. "verif/ref/interp"

	"verif/ref/sighash"
)

// ---- stack-aware opcode sequences ----------------------------------------------------------------------

// value pool: "interesting" operands
func (g *gen) value() []byte {
	switch g.n("valk", 0, 13) {
	case 0, 1, 2:
		return NumBytes(int64(g.n("small", -1, 17)))
	case 3:
		return []byte{}
	case 4:
		return [][]byte{{0x80}, {0x80}, {0, 0x80}, {0, 0, 0x80}, {0, 0}, {0x80, 0}, {0xff, 0x80}, {0x81}}[g.n("negzero", 0, 7)]
	case 5:
		return NumBytes([]int64{0x7fffffff, -0x7fffffff, 0x80000000, -0x80000000, 0x7fffffffff, 0xffffffff, 0x100000000}[g.n("big", 0, 6)])
	case 6:
		return g.bytes("num5", 5)
	case 7:
		return g.bytes("num4", 4)
	case 8:
		return keys[g.n("vkey", 0, nKeys-1)].comp
	case 9:
		return g.bytes("blob", g.pickInt("bloblen", []int{33, 64, 65, 72}))
	case 10:
		return NumBytes(int64(g.n("mid", -70000, 70000)))
	case 11:
		return []byte{0x00} // non-minimal zero
	case 12:
		return append(NumBytes(int64(g.n("nm", 1, 300))), 0x00) // non-minimal number
	}
	return g.bytes("short", g.n("shortlen", 1, 3))
}

type opSpec struct {
	op    int
	need  int
	delta int
}

var stackOps = []opSpec{
	{OP_2DROP, 2, -2}, {OP_2DUP, 2, 2}, {OP_3DUP, 3, 3}, {OP_2OVER, 4, 2}, {OP_2ROT, 6, 0}, {OP_2SWAP, 4, 0},
	{OP_IFDUP, 1, 1}, {OP_DEPTH, 0, 1}, {OP_DROP, 1, -1}, {OP_DUP, 1, 1}, {OP_NIP, 2, -1}, {OP_OVER, 2, 1},
	{OP_ROT, 3, 0}, {OP_SWAP, 2, 0}, {OP_TUCK, 2, 1}, {OP_SIZE, 1, 1},
}

var arithOps = []opSpec{
	{OP_1ADD, 1, 0}, {OP_1SUB, 1, 0}, {OP_NEGATE, 1, 0}, {OP_ABS, 1, 0}, {OP_NOT, 1, 0}, {OP_0NOTEQUAL, 1, 0},
	{OP_ADD, 2, -1}, {OP_SUB, 2, -1}, {OP_BOOLAND, 2, -1}, {OP_BOOLOR, 2, -1}, {OP_NUMEQUAL, 2, -1},
	{OP_NUMEQUALVERIFY, 2, -2}, {OP_NUMNOTEQUAL, 2, -1}, {OP_LESSTHAN, 2, -1}, {OP_GREATERTHAN, 2, -1},
	{OP_LESSTHANOREQUAL, 2, -1}, {OP_GREATERTHANOREQUAL, 2, -1}, {OP_MIN, 2, -1}, {OP_MAX, 2, -1}, {OP_WITHIN, 3, -2},
}

var miscOps = []opSpec{
	{OP_EQUAL, 2, -1}, {OP_EQUALVERIFY, 2, -2}, {OP_VERIFY, 1, -1}, {OP_RIPEMD160, 1, 0}, {OP_SHA1, 1, 0},
	{OP_SHA256, 1, 0}, {OP_HASH160, 1, 0}, {OP_HASH256, 1, 0}, {OP_NOP, 0, 0}, {OP_NOP1, 0, 0}, {OP_NOP10, 0, 0},
	{OP_CHECKLOCKTIMEVERIFY, 1, 0}, {OP_CHECKSEQUENCEVERIFY, 1, 0}, {OP_CODESEPARATOR, 0, 0},
	{OP_CHECKSIG, 2, -1}, {OP_CHECKSIGVERIFY, 2, -2}, {OP_CHECKSIGADD, 3, -2}, {OP_RETURN, 0, 0},
}

type prog struct {
	g      *gen
	sv     int
	script []byte
	depth  int
	alt    int
	cond   int
}

func (p *prog) emit(b ...byte) { p.script = append(p.script, b...) }

func (p *prog) pushVal(v []byte) {
	g := p.g
	switch {
	case g.chance("rawpush", 8):
		// some non-minimal or odd push encoding
		form := g.pickInt("rawform", []int{1, 2, 4})
		p.script = append(p.script, pushWith(v, form)...)
	case len(v) == 1 && v[0] >= 1 && v[0] <= 16 && g.chance("directsmall", 15):
		p.script = append(p.script, 1, v[0]) // non-minimal: should have been OP_N
	default:
		p.script = append(p.script, pushMin(v)...)
	}
	p.depth++
}

func (p *prog) pickOp(table []opSpec) {
	g := p.g
	// prefer operations whose operands are there
	for try := 0; try < 4; try++ {
		o := table[g.n("opidx", 0, len(table)-1)]
		if o.need <= p.depth || g.chance("ignorearity", 8) {
			p.emit(byte(o.op))
			p.depth += o.delta
			if p.depth < 0 {
				p.depth = 0
			}
			return
		}
	}
	p.pushVal(g.value())
}

func (p *prog) step() {
	g := p.g
	switch r := g.n("stepk", 0, 99); {
	case r < 28:
		p.pushVal(g.value())
	case r < 46:
		p.pickOp(stackOps)
	case r < 62:
		p.pickOp(arithOps)
	case r < 74:
		p.pickOp(miscOps)
	case r < 79: // PICK / ROLL with an in-range or edge operand
		n := g.n("pickn", -1, p.depth+1)
		p.script = append(p.script, num(int64(n))...)
		p.emit(byte(g.pickInt("pickroll", []int{OP_PICK, OP_ROLL})))
		if g.chance("isroll", 50) && p.depth > 0 {
			// ROLL removes one; PICK adds one — the estimate only needs to be roughly right
		}
	case r < 85: // conditionals
		switch g.n("condk", 0, 4) {
		case 0, 1:
			if p.depth == 0 || g.chance("pushcond", 50) {
				p.pushVal([][]byte{{1}, {}, {2}, {0x80}, {1, 0}}[g.pickInt("condval", []int{0, 0, 0, 1, 1, 2, 3, 4})])
			}
			p.emit(byte(g.pickInt("ifop", []int{OP_IF, OP_NOTIF})))
			p.depth--
			p.cond++
		case 2:
			p.emit(OP_ELSE)
		default:
			p.emit(OP_ENDIF)
			if p.cond > 0 {
				p.cond--
			}
		}
	case r < 89: // alt stack
		if p.alt > 0 && g.chance("fromalt", 50) {
			p.emit(OP_FROMALTSTACK)
			p.alt--
			p.depth++
		} else {
			if p.depth == 0 {
				p.pushVal(g.value())
			}
			p.emit(OP_TOALTSTACK)
			p.alt++
			p.depth--
		}
	case r < 92: // a CHECKMULTISIG idiom with garbage keys and no signatures
		if p.sv == svTap {
			p.emit(OP_CHECKMULTISIG)
			return
		}
		n := g.n("gmsn", 0, 4)
		p.emit(OP_0, OP_0)
		for i := 0; i < n; i++ {
			p.script = append(p.script, pushMin(keys[g.n("gmskey", 0, nKeys-1)].comp)...)
		}
		p.script = append(p.script, num(int64(n))...)
		p.emit(byte(g.pickInt("gmsop", []int{OP_CHECKMULTISIG, OP_CHECKMULTISIG, OP_CHECKMULTISIGVERIFY})))
		p.depth++
	case r < 97: // any opcode byte at all
		p.emit(byte(g.n("anyop", 0x4f, 0xff)))
	default: // an empty signature against a pool key: a failing check that does not abort
		p.emit(OP_0)
		kb := keys[g.n("gkey", 0, nKeys-1)].comp
		if p.sv == svTap {
			kb = keys[g.n("gkey2", 0, nKeys-1)].xonly
		}
		p.script = append(p.script, pushMin(kb)...)
		p.emit(OP_CHECKSIG)
		p.depth++
	}
}

func (g *gen) grammarProgram(sv int) (script []byte, init [][]byte) {
	p := &prog{g: g, sv: sv}
	for i, n := 0, g.pickInt("initn", []int{0, 0, 1, 1, 2, 3, 4}); i < n; i++ {
		init = append(init, g.value())
	}
	p.depth = len(init)
	steps := g.pickInt("steps", []int{1, 2, 3, 4, 6, 8, 12, 16, 24, 40})
	for i := 0; i < steps; i++ {
		p.step()
	}
	if g.chance("closeifs", 90) {
		for ; p.cond > 0; p.cond-- {
			p.emit(OP_ENDIF)
		}
	}
	if g.chance("cleanup", 75) {
		for p.alt > 0 && g.chance("drainalt", 50) {
			p.emit(OP_FROMALTSTACK)
			p.alt--
			p.depth++
		}
		for p.depth > 1 {
			if p.depth > 2 && g.chance("twodrop", 40) {
				p.emit(OP_2DROP)
				p.depth -= 2
			} else {
				p.emit(byte(g.pickInt("dropop", []int{OP_DROP, OP_DROP, OP_NIP})))
				p.depth--
			}
		}
		if p.depth == 0 {
			p.emit(OP_1)
		} else if g.chance("forcetrue", 60) {
			p.emit(OP_DROP, OP_1)
		}
	}
	if g.chance("tail", 5) {
		// unparsable tail
		p.script = append(p.script, [][]byte{{OP_PUSHDATA1}, {OP_PUSHDATA2, 1}, {5, 1, 2}, {OP_PUSHDATA4, 1, 0, 0}, {OP_PUSHDATA1, 200, 1},
			{OP_PUSHDATA4, 0xff, 0xff, 0xff, 0xff}, {OP_PUSHDATA4, 0, 0, 0, 0x80, 1}, {OP_PUSHDATA4, 0xff, 0xff, 0xff, 0x7f}}[g.n("tailk", 0, 7)]...)
	}
	return p.script, init
}

func (g *gen) deadPrefix() []byte {
	// OP_0 OP_IF <pushes> OP_ENDIF: leaves the verdict unchanged while limits are not crossed
	out := []byte{OP_0, OP_IF}
	for i, n := 0, g.n("deadn", 0, 3); i < n; i++ {
		out = append(out, pushMin(g.value())...)
	}
	return append(out, OP_ENDIF)
}

// grammarSpend wraps a generated program into one of the evaluation contexts.
func (g *gen) grammarSpend(c *spendCtx, wrap string) ([]byte, [][]byte) {
	sv := svBase
	switch wrap {
	case "g_p2wsh":
		sv = svV0
	case "g_tap":
		sv = svTap
	}
	script, init := g.grammarProgram(sv)
	if g.mut("dead_prefix") {
		script = cat(g.deadPrefix(), script)
	}
	switch wrap {
	case "g_bare":
		if g.chance("split", 30) && len(script) > 1 {
			// part of the program runs in the scriptSig (not push-only then)
			at := g.n("splitat", 0, len(script))
			setPk(c, script[at:])
			return cat(scriptSigFromItems(init), script[:at]), nil
		}
		setPk(c, script)
		return scriptSigFromItems(init), nil
	case "g_p2sh":
		setPk(c, p2shScript(script))
		if len(script) > 520 {
			script = script[:520]
			setPk(c, p2shScript(script))
		}
		return scriptSigFromItems(append(init, script)), nil
	case "g_p2wsh":
		setPk(c, witnessScript(0, sha256b(script)))
		return nil, append(init, script)
	default:
		_, wit := g.tapScriptPath(c, 0xc0, g.n("depth", 0, 2), script, func(tc *tapCtx) [][]byte { return init })
		return nil, wit
	}
}

// ---- limits: constructions that sit exactly on / just beyond a consensus limit -------------------------

func rep(b byte, n int) []byte {
	out := make([]byte, n)
	for i := range out {
		out[i] = b
	}
	return out
}

// limitsSpend returns scriptSig, witness; the verdict is left to the reference.
func (g *gen) limitsSpend(c *spendCtx) ([]byte, [][]byte) {
	over := 0
	if g.mut("over_limit") {
		over = 1
	}
	wrapV0 := g.chance("limwrapv0", 35)
	var script []byte
	var init [][]byte
	which := g.n("limk", 0, 11)
	switch which {
	case 0: // stack of 1000 / 1001 by pushes
		g.note("lim_stack_push")
		script = rep(OP_1, 1000+over)
	case 1: // stack + altstack
		g.note("lim_stack_alt")
		a := g.n("altn", 1, 190)
		for i := 0; i < a; i++ {
			script = append(script, OP_1, OP_TOALTSTACK)
		}
		script = append(script, rep(OP_1, 1000-a+over)...)
	case 2: // stack by 3DUP
		g.note("lim_stack_3dup")
		script = []byte{OP_1, OP_1, OP_1}
		for i := 0; i < 199; i++ {
			script = append(script, OP_3DUP)
		}
		// 3 + 597 = 600 items, 199 ops; fill with pushes
		script = append(script, rep(OP_1, 400+over)...)
	case 3: // op count 201 / 202
		g.note("lim_ops")
		script = append(rep(OP_NOP, 201+over), OP_1)
	case 4: // op count with the multisig key count
		g.note("lim_ops_multisig")
		n := g.n("limn", 0, 20)
		script = rep(OP_NOP, 200-n+over)
		script = append(script, OP_0, OP_0)
		for i := 0; i < n; i++ {
			script = append(script, pushMin(keys[i%nKeys].comp)...)
		}
		script = append(script, num(int64(n))...)
		script = append(script, OP_CHECKMULTISIG)
	case 5: // element of 520 / 521 bytes, executed or not
		g.note("lim_element")
		body := pushWith(rep(7, 520+over), 2)
		if g.chance("deadpush", 50) {
			script = cat([]byte{OP_0, OP_IF}, body, []byte{OP_ENDIF, OP_1})
		} else {
			script = cat(body, []byte{OP_DROP, OP_1})
		}
	case 6: // script of 10000 / 10001 bytes
		g.note("lim_script_size")
		script = exactScript(10000 + over)
	case 7: // nested conditionals up to the op limit
		g.note("lim_nesting")
		d := 100
		if over == 1 {
			d = 101
		}
		for i := 0; i < d; i++ {
			script = append(script, OP_1, OP_IF)
		}
		script = append(script, rep(OP_ENDIF, d)...)
		script = append(script, OP_1)
	case 8: // numeric operand of 4 / 5 bytes, result of 5 bytes reused
		g.note("lim_num")
		v := NumBytes(0x7fffffff)
		if over == 1 {
			v = NumBytes(0x80000000)
		}
		script = cat(pushMin(v), []byte{OP_1ADD})
		if g.chance("reuse", 50) {
			script = append(script, OP_1ADD)
		}
		script = append(script, OP_DROP, OP_1)
	case 9: // PICK / ROLL at the edge of the stack
		g.note("lim_pick")
		n := g.n("pickdepth", 1, 5)
		script = rep(OP_1, n)
		script = append(script, num(int64(n-1+over))...)
		script = append(script, byte(g.pickInt("pr", []int{OP_PICK, OP_ROLL})))
	case 10: // CHECKMULTISIG with 20 / 21 keys
		g.note("lim_multisig_keys")
		n := 20 + over
		script = []byte{OP_0, OP_0}
		for i := 0; i < n; i++ {
			script = append(script, pushMin(keys[i%nKeys].comp)...)
		}
		script = append(script, num(int64(n))...)
		script = append(script, OP_CHECKMULTISIG)
	default: // initial witness stack item of 520 / 521 bytes
		g.note("lim_witness_item")
		wrapV0 = true
		init = [][]byte{rep(3, 520+over)}
		script = []byte{OP_DROP, OP_1}
	}
	if wrapV0 {
		setPk(c, witnessScript(0, sha256b(script)))
		return nil, append(init, script)
	}
	setPk(c, script)
	return scriptSigFromItems(init), nil
}

var _ = sighash.PushData
