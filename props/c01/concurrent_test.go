package c01

import (
	"encoding/hex"
	"encoding/json"
	"fmt"
	"os"
	"runtime"
	"runtime/debug"
	"sync"
	"sync/atomic"
	"testing"
	"time"

	"github.com/piotrnar/gocoin/lib/btc"
	"github.com/piotrnar/gocoin/lib/script"
	"pgregory.net/rapid"
	"verif/pbt"
	"verif/ref/ec"
	"verif/ref/interp"
	"verif/ref/sighash"
	"verif/ref/wire"
)

// Concurrent verification of all inputs of ONE transaction object.
//
// Chain.commitTxs and txpool.HandleNetTx verify the inputs of a transaction in one goroutine per input on
// the same *btc.Tx, whose TxVerVars hold the lazily filled BIP143 (hashPrevouts/hashSequence/hashOutputs) and
// BIP341 (tapSingleHashes/tapOutSingleHash) caches.  The verdict of script verification must not depend on
// that: for every input, the verdict obtained while all inputs are verified at the same time on a freshly
// parsed transaction (cold caches, simultaneous start) equals the reference interpreter's verdict and gocoin's
// own sequential verdict.

type MultiCase struct {
	Tx     string     `json:"tx"`
	Spent  []SpentOut `json:"spent"`
	Flags  uint32     `json:"flags"`
	Kinds  []string   `json:"kinds"`  // per input: generator label (+mutation)
	Rounds int        `json:"rounds"` // concurrent rounds, each on a freshly parsed transaction
}

var multiKinds = []string{"tr_key", "tr_key", "tr_key", "tr_script", "tr_script", "wpkh", "wpkh", "wsh", "sh_wpkh", "pkh", "pk"}
var multiMuts = []string{"sig_corrupt", "wrongkey", "tap_hashtype", "hashtype", "sig_empty"}

// inputPlan: scriptPubKey now, scriptSig/witness once every input's scriptPubKey and amount are fixed.
type inputPlan struct {
	kind   string
	finish func(ci *spendCtx) ([]byte, [][]byte)
}

func (g *gen) multiInput(kind string) (pk []byte, fin func(ci *spendCtx) ([]byte, [][]byte)) {
	k := g.n("key", 0, nKeys-1)
	none := uint32(0xffffffff)
	switch kind {
	case "tr_key":
		var root []byte
		if g.chance("hasroot", 50) {
			root = g.bytes("root", 32)
		}
		q, _ := tapOutput(keys[k].xonly, root)
		return witnessScript(1, q), func(ci *spendCtx) ([]byte, [][]byte) {
			annex := g.annexMaybe(15)
			tw := sighash.TapTweakHash(keys[k].xonly, root)
			sig := g.schnorr(ci, ec.TweakSecret(keys[k].sk, tw[:]), 0, annex, nil, 0)
			w := [][]byte{sig}
			if annex != nil {
				w = append(w, annex)
			}
			return nil, w
		}
	case "tr_script":
		ik := g.n("ikey", 0, nKeys-1)
		leafScript := cat(pushMin(keys[k].xonly), []byte{interp.OP_CHECKSIG})
		leaf := sighash.TapLeafHash(0xc0, leafScript)
		node := leaf
		var path []byte
		for i, d := 0, g.n("depth", 0, 2); i < d; i++ {
			var sib [32]byte
			copy(sib[:], g.bytes("sibling", 32))
			path = append(path, sib[:]...)
			node = sighash.TapBranchHash(node, sib)
		}
		q, parity := tapOutput(keys[ik].xonly, node[:])
		c0 := byte(0xc0)
		if parity {
			c0 |= 1
		}
		control := cat([]byte{c0}, keys[ik].xonly, path)
		return witnessScript(1, q), func(ci *spendCtx) ([]byte, [][]byte) {
			annex := g.annexMaybe(15)
			sig := g.schnorr(ci, keys[k].sk, 1, annex, leaf[:], none)
			w := [][]byte{sig, leafScript, control}
			if annex != nil {
				w = append(w, annex)
			}
			return nil, w
		}
	case "wpkh", "sh_wpkh":
		kb := keys[k].comp
		wpk := witnessScript(0, hash160(kb))
		code := cat([]byte{interp.OP_DUP, interp.OP_HASH160, 20}, hash160(kb), []byte{interp.OP_EQUALVERIFY, interp.OP_CHECKSIG})
		pk = wpk
		var ss []byte
		if kind == "sh_wpkh" {
			pk = p2shScript(wpk)
			ss = sighash.PushData(wpk)
		}
		return pk, func(ci *spendCtx) ([]byte, [][]byte) {
			sig := g.ecdsa(k, func(ht uint32) [32]byte { return sighash.BIP143(ci.tx, ci.idx, code, ci.amount(), ht) })
			return ss, [][]byte{sig, kb}
		}
	case "wsh":
		k2 := g.n("key2", 0, nKeys-1)
		ws := cat([]byte{interp.OP_1}, pushMin(keys[k].comp), pushMin(keys[k2].comp), []byte{interp.OP_1 + 1, interp.OP_CHECKMULTISIG})
		return witnessScript(0, sha256b(ws)), func(ci *spendCtx) ([]byte, [][]byte) {
			sig := g.ecdsa(k, func(ht uint32) [32]byte { return sighash.BIP143(ci.tx, ci.idx, ws, ci.amount(), ht) })
			return nil, [][]byte{{}, sig, ws}
		}
	case "pkh":
		kb := keys[k].comp
		pk = cat([]byte{interp.OP_DUP, interp.OP_HASH160, 20}, hash160(kb), []byte{interp.OP_EQUALVERIFY, interp.OP_CHECKSIG})
		return pk, func(ci *spendCtx) ([]byte, [][]byte) {
			sig := g.ecdsa(k, func(ht uint32) [32]byte { return sighash.Legacy(ci.tx, ci.idx, pk, ht) })
			return scriptSigFromItems([][]byte{sig, kb}), nil
		}
	default: // pk
		pk = cat(pushMin(keys[k].uncomp), []byte{interp.OP_CHECKSIG})
		return pk, func(ci *spendCtx) ([]byte, [][]byte) {
			sig := g.ecdsa(k, func(ht uint32) [32]byte { return sighash.Legacy(ci.tx, ci.idx, pk, ht) })
			return scriptSigFromItems([][]byte{sig}), nil
		}
	}
}

func genMulti(t *rapid.T) MultiCase {
	g := &gen{t: t, want: map[string]bool{}}
	nIn := g.pickInt("nin", []int{2, 3, 4, 8, 8, 16, 16, 24, 32, 40})
	nOut := g.pickInt("nout", []int{1, 2, 3, nIn, nIn})
	c := &spendCtx{tx: &wire.Tx{Version: 2, LockTime: g.pickU32("locktime", interestingLockTimes)}}
	profile := g.n("profile", 0, 3) // 0: all taproot, 1: mostly taproot, 2: mixed, 3: mostly segwit v0
	plans := make([]inputPlan, nIn)
	for i := 0; i < nIn; i++ {
		var in wire.TxIn
		copy(in.PrevHash[:], g.bytes("prevhash", 32))
		in.PrevHash[0] |= 1
		in.PrevIndex = uint32(i)
		in.Sequence = g.pickU32("seq", []uint32{0xffffffff, 0xfffffffe, 0, 10})
		kind := multiKinds[g.n("ikind", 0, len(multiKinds)-1)]
		switch profile {
		case 0:
			kind = []string{"tr_key", "tr_key", "tr_script"}[g.n("trkind", 0, 2)]
		case 1:
			if g.chance("totr", 60) {
				kind = []string{"tr_key", "tr_script"}[g.n("trkind", 0, 1)]
			}
		case 3:
			if g.chance("tov0", 60) {
				kind = []string{"wpkh", "wsh", "sh_wpkh"}[g.n("v0kind", 0, 2)]
			}
		}
		pk, fin := g.multiInput(kind)
		plans[i] = inputPlan{kind, fin}
		c.tx.In = append(c.tx.In, in)
		c.spent = append(c.spent, wire.TxOut{Value: uint64(g.n("amt", 1, 1<<30)), PkScript: pk})
	}
	for i := 0; i < nOut; i++ {
		c.tx.Out = append(c.tx.Out, wire.TxOut{Value: uint64(g.n("outamt", 1, 1<<30)), PkScript: g.bytes("outpk", g.n("outpklen", 1, 34))})
	}
	mc := MultiCase{Rounds: 30}
	for i := range plans {
		label := plans[i].kind
		if g.chance("invalid", 12) {
			m := multiMuts[g.n("imut", 0, len(multiMuts)-1)]
			g.want[m] = true
		}
		before := len(g.applied)
		ss, wit := plans[i].finish(&spendCtx{tx: c.tx, idx: i, spent: c.spent})
		for _, m := range g.applied[before:] {
			label += "+" + m
		}
		g.want = map[string]bool{}
		c.tx.In[i].ScriptSig = ss
		c.tx.In[i].Witness = wit
		mc.Kinds = append(mc.Kinds, label)
	}
	switch g.n("mflags", 0, 9) {
	case 0, 1, 2, 3:
		mc.Flags = chainFull
	case 4, 5:
		mc.Flags = correctFlags
	case 6:
		mc.Flags = script.STANDARD_VERIFY_FLAGS
	case 7:
		mc.Flags = interp.AllFlags
	default:
		mc.Flags = genFlags(t)
	}
	mc.Tx = hex.EncodeToString(c.tx.Serialize(true))
	for _, o := range c.spent {
		mc.Spent = append(mc.Spent, SpentOut{o.Value, hex.EncodeToString(o.PkScript)})
	}
	return mc
}

func freshTx(d *decoded) *btc.Tx {
	tx, off := btc.NewTx(d.raw)
	if tx == nil || off != len(d.raw) {
		return nil
	}
	tx.SetHash(d.raw)
	tx.AllocVerVars()
	tx.Spent_outputs = make([]*btc.TxOut, len(d.spent))
	for i, o := range d.spent {
		tx.Spent_outputs[i] = &btc.TxOut{Value: o.Value, Pk_script: append([]byte{}, o.PkScript...)}
	}
	return tx
}

type multiStats struct {
	ref      []interp.Result
	taproot  int
	v0       int
	skipped  string
	accepted int
}

// checkMulti is the oracle; roundsFactor > 1 is used by replays (a scheduling-dependent failure needs more tries).
func checkMulti(mc MultiCase, roundsFactor int) (multiStats, error) {
	var st multiStats
	c := Case{Tx: mc.Tx, Spent: mc.Spent, Flags: mc.Flags}
	d, err := c.decode()
	if err != nil {
		return st, fmt.Errorf("bad case: %v", err)
	}
	if !interp.FlagsConsistent(mc.Flags) {
		st.skipped = "inconsistent_flags"
		return st, nil
	}
	n := len(d.tx.In)
	kind := func(i int) string {
		if i < len(mc.Kinds) {
			return mc.Kinds[i]
		}
		return "?"
	}
	// 1. reference, sequential
	st.ref = make([]interp.Result, n)
	for i := 0; i < n; i++ {
		in := d.tx.In[i]
		st.ref[i] = interp.VerifyEx(in.ScriptSig, d.spent[i].PkScript, in.Witness, d.tx, i, d.spent[i].Value, d.spent, mc.Flags)
		if st.ref[i].Internal != "" {
			return st, fmt.Errorf("REFERENCE BUG (not a finding): ref/interp panicked: %s", st.ref[i].Internal)
		}
		if st.ref[i].NopCLTVorCSV {
			st.skipped = "nop_cltv_csv_discouraged_version_dependent"
			return st, nil
		}
		if st.ref[i].OK {
			st.accepted++
		}
		if st.ref[i].KeyPath || st.ref[i].Tapscript {
			st.taproot++
		} else if st.ref[i].WitnessProg {
			st.v0++
		}
	}
	// 2. gocoin, sequential, one fresh object
	type res struct {
		ok    bool
		fault string
	}
	verifyOne := func(tx *btc.Tx, i int) (r res) {
		defer func() {
			if p := recover(); p != nil {
				r.fault = fmt.Sprintf("panic: %v\n%s", p, debug.Stack())
			}
		}()
		r.ok = script.VerifyTxScript(tx.Spent_outputs[i].Pk_script, &script.SigChecker{Tx: tx, Idx: i, Amount: tx.Spent_outputs[i].Value}, mc.Flags)
		return
	}
	tx := freshTx(d)
	if tx == nil {
		st.skipped = "gocoin_cannot_decode_tx"
		return st, nil
	}
	for i := 0; i < n; i++ {
		r := verifyOne(tx, i)
		if r.fault != "" {
			return st, fmt.Errorf("input %d (%s): sequential script verification crashed: %s", i, kind(i), firstLines(r.fault, 10))
		}
		if r.ok != st.ref[i].OK {
			return st, fmt.Errorf("input %d (%s) of a %d-input transaction, flags %#x, verified sequentially: gocoin accept=%v, consensus (reference) accept=%v (%s)",
				i, kind(i), n, mc.Flags, r.ok, st.ref[i].OK, st.ref[i].Err)
		}
	}
	// 3. gocoin, all inputs at the same time, fresh object each round
	rounds := mc.Rounds
	if rounds < 1 {
		rounds = 1
	}
	rounds *= roundsFactor
	for round := 0; round < rounds; round++ {
		tx := freshTx(d)
		out := make([]res, n)
		var ready, done sync.WaitGroup
		var start int32
		ready.Add(n)
		done.Add(n)
		for i := 0; i < n; i++ {
			go func(i int) {
				defer done.Done()
				ready.Done()
				for atomic.LoadInt32(&start) == 0 { // a spinning barrier starts the inputs closer together than a channel wake-up
					runtime.Gosched()
				}
				out[i] = verifyOne(tx, i)
			}(i)
		}
		ready.Wait()
		atomic.StoreInt32(&start, 1)
		fin := make(chan struct{})
		go func() { done.Wait(); close(fin) }()
		select {
		case <-fin:
		case <-time.After(hangBound):
			return st, fmt.Errorf("concurrent verification of %d inputs did not finish within %v (a lock left held?)", n, hangBound)
		}
		for i := 0; i < n; i++ {
			if out[i].fault != "" {
				return st, fmt.Errorf("input %d (%s): script verification crashed when all %d inputs were verified concurrently on one transaction object (round %d): %s",
					i, kind(i), n, round, firstLines(out[i].fault, 10))
			}
			if out[i].ok != st.ref[i].OK {
				return st, fmt.Errorf("input %d (%s) of a %d-input transaction, flags %#x: accept=%v when all inputs are verified concurrently on one freshly parsed transaction object (round %d), but accept=%v sequentially and by the reference (%s)",
					i, kind(i), n, mc.Flags, out[i].ok, round, st.ref[i].OK, st.ref[i].Err)
			}
		}
	}
	return st, nil
}

func init() {
	pbt.RegisterReplay("concurrent", func(raw json.RawMessage) error {
		var mc MultiCase
		if err := json.Unmarshal(raw, &mc); err != nil {
			return err
		}
		_, err := checkMulti(mc, 40)
		return err
	})
}

func TestConcurrentInputs(t *testing.T) {
	pbt.Check(t, pbt.Cfg{Name: "concurrent", Quick: 1600, Thorough: 30000}, func(r *pbt.Run) {
		mc := genMulti(r.T)
		r.Case(mc)
		st, err := checkMulti(mc, 1)
		n := len(mc.Kinds)
		switch {
		case n <= 4:
			r.Class("inputs:2-4")
		case n <= 12:
			r.Class("inputs:5-12")
		default:
			r.Class("inputs:13-40")
		}
		if st.skipped != "" {
			r.Class("skipped:" + st.skipped)
		} else {
			switch {
			case st.taproot >= 2:
				r.Class("taproot_inputs:2+")
			case st.taproot == 1:
				r.Class("taproot_inputs:1")
			default:
				r.Class("taproot_inputs:0")
			}
			if st.v0 >= 2 {
				r.Class("segwit_v0_inputs:2+")
			}
			if st.accepted == n {
				r.Class("all_inputs_valid")
			} else if st.accepted > 0 {
				r.Class("some_inputs_invalid")
			} else {
				r.Class("no_input_valid")
			}
			r.NonTrivial()
			pbt.AddExtra("concurrent_input_verifications", int64(n*mc.Rounds))
		}
		if err != nil {
			if os.Getenv("C01_COLLECT") != "" {
				fmt.Println("COLLECT concurrent ::", firstLines(err.Error(), 1))
				return
			}
			r.Failf("%v", err)
		}
	})
}
