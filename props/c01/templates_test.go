package c01

import (
	"crypto/sha1"
	"math/big"

	. "verif/ref/interp"

	"verif/ref/ec"
	"verif/ref/sighash"
	"verif/ref/wire"
)

// signature versions of a plan
const (
	svBase = iota
	svV0
	svTap
)

// A plan is a script plus the stack that satisfies it; signatures are requests resolved by the
// wrapper once the final script / tree / transaction is known.
type plan struct {
	script []byte
	stack  []item // bottom -> top
}

type item struct {
	lit []byte
	sig *sigReq
}

type sigReq struct {
	key   int
	from  int    // begincodehash: offset into the script (after the last executed CODESEPARATOR)
	csPos uint32 // tapscript codeseparator position
	empty bool   // an intentionally empty signature (correct spend needs a failing check)
}

func lit(b []byte) item { return item{lit: b} }
func sigOf(key, from int, csPos uint32) item {
	return item{sig: &sigReq{key: key, from: from, csPos: csPos}}
}

// ---- keys as they appear in scripts ---------------------------------------------------------------

func (g *gen) keyBytes(k int, sv int) []byte {
	key := &keys[k]
	if sv == svTap {
		b := append([]byte{}, key.xonly...)
		if g.mut("tapkey_len") {
			switch g.n("tapkeylen", 0, 3) {
			case 0:
				return []byte{}
			case 1:
				return b[:31]
			case 2:
				return append(b, 0)
			default:
				return key.comp
			}
		}
		if g.mut("tapkey_unliftable") {
			return unliftableX(g.n("unl", 0, 7))
		}
		return b
	}
	var b []byte
	if sv == svV0 {
		b = key.comp
		if g.mut("key_uncompressed_v0") {
			b = key.uncomp
		}
	} else if g.chance("uncompressed", 40) {
		b = key.uncomp
	} else {
		b = key.comp
	}
	b = append([]byte{}, b...)
	switch {
	case g.mut("key_hybrid"):
		b = append([]byte{}, key.uncomp...)
		b[0] = 6 + byte(key.pt.Y.Bit(0))
	case g.mut("key_hybrid_badparity"):
		b = append([]byte{}, key.uncomp...)
		b[0] = 7 - byte(key.pt.Y.Bit(0))
	case g.mut("key_garbage"):
		switch g.n("keygarbage", 0, 4) {
		case 0:
			b[0] = 5
		case 1:
			b = append(b, 0)
		case 2:
			b = b[:len(b)-1]
		case 3:
			b = []byte{}
		default:
			b[0] = 0
		}
	case g.mut("key_offcurve"):
		if len(b) == 65 {
			b[64] ^= 1
		} else {
			b = append([]byte{2}, unliftableX(g.n("unl", 0, 7))...)
		}
	case g.mut("key_ge_p"):
		x := new(big.Int).Add(ec.P, big.NewInt(int64(g.n("gep", 0, 20))))
		b = append([]byte{2}, ec.Bytes32(x)...)
	}
	return b
}

var unliftable [][]byte

func unliftableX(i int) []byte {
	if unliftable == nil {
		for x := int64(1); len(unliftable) < 8; x++ {
			if _, ok := ec.LiftX(big.NewInt(x)); !ok {
				unliftable = append(unliftable, ec.Bytes32(big.NewInt(x)))
			}
		}
	}
	return unliftable[i%len(unliftable)]
}

// ---- ECDSA signing with the signature-level mutations -------------------------------------------

var hashTypePool = []int{0, 1, 2, 3, 4, 5, 0x7f, 0x80, 0x81, 0x82, 0x83, 0x84, 0xc1, 0xe3, 0xff}
var definedHashTypes = []int{1, 1, 1, 2, 3, 0x81, 0x82, 0x83}

func (g *gen) ecdsa(key int, digest func(ht uint32) [32]byte) []byte {
	ht := g.pickInt("ht", definedHashTypes)
	if g.mut("hashtype") {
		if g.chance("htany", 50) {
			ht = g.n("htbyte", 0, 255)
		} else {
			ht = g.pickInt("htpool", hashTypePool)
		}
	}
	signKey := key
	if g.mut("wrongkey") {
		signKey = (key + 1 + g.n("wk", 0, nKeys-2)) % nKeys
	}
	d := digest(uint32(ht))
	r, s, _ := ec.SignRFC6979(keys[signKey].sk, d[:])
	switch {
	case g.mut("high_s"):
		s = new(big.Int).Sub(ec.N, s)
	case g.mut("s_plus_n"):
		s = new(big.Int).Add(ec.N, s)
	case g.mut("r_plus_n"):
		r = new(big.Int).Add(ec.N, r)
	case g.mut("rs_zero"):
		if g.chance("rz", 50) {
			r = new(big.Int)
		} else {
			s = new(big.Int)
		}
	case g.mut("rs_n"):
		if g.chance("rn", 50) {
			r = new(big.Int).Set(ec.N)
		} else {
			s = new(big.Int).Set(ec.N)
		}
	}
	rb, sb := derInt(r), derInt(s)
	sig := derWrap(rb, sb)
	switch {
	case g.mut("der_pad"):
		// superfluous leading zero byte(s)
		k := g.n("padn", 1, 3)
		if g.chance("padr", 50) {
			rb = append(make([]byte, k), rb...)
		} else {
			sb = append(make([]byte, k), sb...)
		}
		sig = derWrap(rb, sb)
	case g.mut("der_negative"):
		// drop the zero byte that keeps a value with the top bit set positive
		if rb[0] == 0 && len(rb) > 1 {
			rb = rb[1:]
		} else if sb[0] == 0 && len(sb) > 1 {
			sb = sb[1:]
		} else {
			// neither has it: force the top bit by signing again is not possible; use the plain encoding of n - s
			sb = new(big.Int).Sub(ec.N, s).Bytes()
		}
		sig = derWrap(rb, sb)
	case g.mut("der_longform"):
		// long-form length bytes (0x81 L, 0x82 0 L) for the sequence and/or an integer
		body := cat([]byte{2, byte(len(rb))}, rb, []byte{2, byte(len(sb))}, sb)
		switch g.n("lf", 0, 3) {
		case 0:
			sig = cat([]byte{0x30, 0x81, byte(len(body))}, body)
		case 1:
			body = cat([]byte{2, 0x81, byte(len(rb))}, rb, []byte{2, byte(len(sb))}, sb)
			sig = cat([]byte{0x30, byte(len(body))}, body)
		case 2:
			body = cat([]byte{2, byte(len(rb))}, rb, []byte{2, 0x82, 0, byte(len(sb))}, sb)
			sig = cat([]byte{0x30, 0x82, 0, byte(len(body))}, body)
		default:
			body = cat([]byte{2, 0x83, 0, 0, byte(len(rb))}, rb, []byte{2, byte(len(sb))}, sb)
			sig = cat([]byte{0x30, byte(len(body))}, body)
		}
	case g.mut("der_seqlen"):
		sig[1] = byte(int(sig[1]) + g.pickInt("seqd", []int{-1, 1, 2, -2, 100}))
	case g.mut("der_trailing"):
		sig = append(sig, g.bytes("trail", g.n("trailn", 1, 4))...)
		if g.chance("fixlen", 50) {
			sig[1] = byte(len(sig) - 2)
		}
	}
	sig = append(sig, byte(ht))
	switch {
	case g.mut("sig_corrupt"):
		// flip one bit inside the R or S value bytes
		p := 4 + g.n("cpos", 0, len(sig)-7)
		if p >= len(sig)-1 {
			p = len(sig) - 2
		}
		sig[p] ^= 1 << uint(g.n("cbit", 0, 7))
	case g.mut("sig_empty"):
		sig = []byte{}
	case g.mut("sig_truncate"):
		sig = sig[:g.n("trunc", 1, len(sig)-1)]
	}
	return sig
}

// inflatedSig gives a lax-DER signature longer than 75 bytes (R and S padded with leading zeros).
func inflatedSig(r, s *big.Int, ht byte, total int) []byte {
	rb, sb := derInt(r), derInt(s)
	for len(derWrap(rb, sb))+1 < total {
		if len(rb) <= len(sb) {
			rb = append([]byte{0}, rb...)
		} else {
			sb = append([]byte{0}, sb...)
		}
	}
	return append(derWrap(rb, sb), ht)
}

// ---- Schnorr signing -------------------------------------------------------------------------------

var tapHashTypes = []int{0, 0, 0, 1, 2, 3, 0x81, 0x82, 0x83}
var tapBadHashTypes = []int{4, 5, 0x10, 0x40, 0x7f, 0x80, 0x84, 0x85, 0xc0, 0xfe, 0xff}

// schnorr signs with secret sk (already tweaked for the key path).
func (g *gen) schnorr(c *spendCtx, sk []byte, ext byte, annex []byte, leaf []byte, csPos uint32) []byte {
	ht := byte(g.pickInt("tht", tapHashTypes))
	if g.tapHT != nil {
		ht = *g.tapHT
	}
	if ht&3 == 3 && c.idx >= len(c.tx.Out) {
		ht = 0 // SINGLE without a corresponding output has no digest
	}
	zeroType := false
	if g.mut("tap_hashtype") {
		switch g.n("thtk", 0, 3) {
		case 0:
			ht = byte(g.pickInt("thtbad", tapBadHashTypes))
		case 1:
			ht = byte(g.n("thtany", 0, 255))
		case 2:
			ht = byte(g.pickInt("thtsingle", []int{3, 0x83}))
		default:
			zeroType = true // 65 bytes with an explicit 0x00
			ht = 0
		}
	}
	if g.mut("wrongkey") {
		sk = keys[g.n("wk", 0, nKeys-1)].sk
	}
	digest, ok := sighash.BIP341(c.tx, c.idx, c.spent, ht, ext, annex, leaf, csPos)
	if !ok {
		digest = [32]byte{} // no digest is defined: what a forger would sign for a verifier that forgets to fail
	}
	sig := ec.SchnorrSign(sk, digest[:], make([]byte, 32))
	if ht != 0 || zeroType {
		sig = append(sig, ht)
	}
	switch {
	case g.mut("sig_corrupt"):
		sig[g.n("cpos", 0, 63)] ^= 1 << uint(g.n("cbit", 0, 7))
	case g.mut("sig_empty"):
		sig = []byte{}
	case g.mut("schnorr_len"):
		switch g.n("slen", 0, 3) {
		case 0:
			sig = sig[:63]
		case 1:
			sig = append(sig[:64:64], 1, 0)
		case 2:
			sig = sig[:32]
		default:
			sig = append(sig[:64:64], 0)
		}
	}
	return sig
}

// ---- plans (script + satisfying stack) ---------------------------------------------------------------

func (g *gen) planPK(sv int) plan {
	k := g.n("key", 0, nKeys-1)
	return plan{script: cat(pushMin(g.keyBytes(k, sv)), []byte{OP_CHECKSIG}), stack: []item{sigOf(k, 0, 0xffffffff)}}
}

func (g *gen) planPKH(sv int) plan {
	k := g.n("key", 0, nKeys-1)
	kb := g.keyBytes(k, sv)
	script := cat([]byte{OP_DUP, OP_HASH160, 20}, hash160(kb), []byte{OP_EQUALVERIFY, OP_CHECKSIG})
	return plan{script: script, stack: []item{sigOf(k, 0, 0xffffffff), lit(kb)}}
}

func (g *gen) planMultisig(sv int) plan {
	n := g.pickInt("msn", []int{0, 1, 1, 2, 2, 3, 3, 3, 4, 5, 7, 15, 16, 17, 19, 20, 20})
	m := 0
	if n > 0 {
		m = g.pickInt("msm", []int{0, 1, 1, 2, 2, 3, n, n, (n + 1) / 2})
		if m > n {
			m = n
		}
		if m > 4 && !g.chance("manysigs", 20) {
			m = 2 // keep the reference's work bounded most of the time
		}
	}
	if g.want["ms_wrong_order"] && n < 2 {
		n = 2 + g.n("msn3", 0, 2)
	}
	if g.want["ms_wrong_order"] && m < 2 {
		m = 2
	}
	if g.want["ms_missing_sig"] && m < 1 {
		if n < 1 {
			n = 1
		}
		m = 1
	}
	ks := make([]int, n)
	for i := range ks {
		ks[i] = g.n("mskey", 0, nKeys-1)
	}
	nEnc, mEnc := num(int64(n)), num(int64(m))
	if g.mut("ms_keycount") {
		nEnc = num(int64(g.pickInt("msn2", []int{21, -1, n + 1, 255})))
	}
	if g.mut("ms_sigcount") {
		mEnc = num(int64(g.pickInt("msm2", []int{n + 1, -1, 21})))
	}
	var script []byte
	pad := 0
	if sv != svTap && (g.chance("padops", 20) || g.want["ops_202"]) {
		pad = 201 - 1 - n
		if g.mut("ops_202") {
			pad++
		}
		for i := 0; i < pad; i++ {
			script = append(script, OP_NOP)
		}
	}
	script = append(script, mEnc...)
	for _, k := range ks {
		script = append(script, pushMin(g.keyBytes(k, sv))...)
	}
	script = append(script, nEnc...)
	if g.chance("msverify", 15) {
		script = append(script, OP_CHECKMULTISIGVERIFY, OP_1)
	} else {
		script = append(script, OP_CHECKMULTISIG)
	}
	// choose which keys sign: m distinct positions, in order
	pos := map[int]bool{}
	for len(pos) < m {
		pos[g.n("signer", 0, n-1)] = true
	}
	dummy := []byte{}
	if g.mut("nonnull_dummy") {
		dummy = g.bytes("dummy", g.n("dummyn", 1, 3))
	}
	st := []item{lit(dummy)}
	var sigs []item
	for i := 0; i < n; i++ {
		if pos[i] {
			sigs = append(sigs, sigOf(ks[i], 0, 0xffffffff))
		}
	}
	if len(sigs) >= 2 && g.mut("ms_wrong_order") {
		sigs[0], sigs[len(sigs)-1] = sigs[len(sigs)-1], sigs[0]
	}
	if len(sigs) >= 1 && g.mut("ms_missing_sig") {
		sigs = sigs[1:]
	}
	st = append(st, sigs...)
	return plan{script: script, stack: st}
}

// lockOperand chooses a CLTV operand that the transaction satisfies (adjusting the transaction) or,
// under the mutation, anything.
func (g *gen) cltvOperand(c *spendCtx) []byte {
	if g.mut("locktime_operand") {
		return g.oddNumber()
	}
	if c.tx.In[c.idx].Sequence == 0xffffffff {
		c.tx.In[c.idx].Sequence = 0xfffffffe
	}
	lt := int64(c.tx.LockTime)
	lo := int64(0)
	if lt >= 500000000 {
		lo = 500000000
	}
	v := lt
	switch g.n("cltvrel", 0, 2) {
	case 0:
		v = lo
	case 1:
		if lt > lo {
			v = lt - 1
		}
	}
	return NumBytes(v)
}

func (g *gen) csvOperand(c *spendCtx) []byte {
	if g.mut("sequence_operand") {
		return g.oddNumber()
	}
	if g.chance("csvdisabled", 15) {
		return NumBytes(int64(1<<31) | int64(g.n("csvd", 0, 0xffff))) // disable flag: behaves as a NOP
	}
	if c.tx.Version < 2 {
		c.tx.Version = 2
	}
	seq := c.tx.In[c.idx].Sequence
	if seq&(1<<31) != 0 {
		seq = g.pickU32("csvseq", []uint32{0, 10, 0xffff, 1<<22 | 5, 1<<22 | 0xffff, 0x0040ffff, 0x7fffffff})
		c.tx.In[c.idx].Sequence = seq
	}
	masked := int64(seq & (1<<22 | 0xffff))
	lo := masked & (1 << 22)
	v := masked
	switch g.n("csvrel", 0, 2) {
	case 0:
		v = lo
	case 1:
		if masked > lo {
			v = masked - 1
		}
	}
	if g.chance("csvhighbits", 20) {
		v |= int64(g.n("csvjunk", 0, 0x3f)) << 23 // bits outside the mask are ignored
	}
	return NumBytes(v)
}

// oddNumber: operands of 0..5 bytes, negative, non-minimal, out of range.
func (g *gen) oddNumber() []byte {
	switch g.n("oddk", 0, 9) {
	case 0:
		return []byte{}
	case 1:
		return NumBytes(-1)
	case 2:
		return NumBytes(int64(g.n("odd32", 0, 1<<31-1)))
	case 3:
		return NumBytes(int64(1)<<32 + int64(g.n("odd40", 0, 1<<30)))
	case 4:
		return g.bytes("odd5", 5)
	case 5:
		return g.bytes("odd6", 6)
	case 6:
		return []byte{0x00} // non-minimal zero
	case 7:
		return append(NumBytes(int64(g.n("oddnm", 1, 1<<24))), 0x00) // non-minimal: superfluous zero byte
	case 8:
		return NumBytes(int64(g.pickU32("oddlt", interestingLockTimes)))
	}
	return NumBytes(int64(g.pickU32("oddseq", interestingSequences)))
}

var harmlessDeadBase = []int{OP_RESERVED, OP_VER, OP_RESERVED1, OP_RESERVED2, OP_RETURN, OP_CHECKSIGADD, 0xbb, 0xd0, 0xfe, 0xff, OP_CHECKMULTISIG, OP_NOP1}
var harmlessDeadTap = []int{OP_RETURN, 0xff, OP_CHECKMULTISIG, OP_NOP1, OP_CHECKSIGADD}
var fatalDead = []int{OP_VERIF, OP_VERNOTIF, OP_CAT, OP_SUBSTR, OP_LEFT, OP_RIGHT, OP_INVERT, OP_AND, OP_OR, OP_XOR, OP_2MUL, OP_2DIV, OP_MUL, OP_DIV, OP_MOD, OP_LSHIFT, OP_RSHIFT}

// planMisc: a signature check inside some other construction.
func (g *gen) planMisc(c *spendCtx, sv int) plan {
	k := g.n("key", 0, nKeys-1)
	kpush := func(k int) []byte { return pushMin(g.keyBytes(k, sv)) }
	none := uint32(0xffffffff)
	variant := g.n("misc", 0, 9)
	switch { // a wanted mutation picks the construction it acts on
	case g.want["locktime_operand"]:
		variant = 0
	case g.want["sequence_operand"]:
		variant = 1
	case g.want["if_operand"]:
		variant = 2
	case g.want["sig_nonempty_invalid"]:
		variant = 6
	case g.want["dead_branch_fatal"]:
		variant = 7
	}
	switch variant {
	case 0: // CLTV
		g.note("misc_cltv")
		op := g.cltvOperand(c)
		return plan{script: cat(pushMin(op), []byte{OP_CHECKLOCKTIMEVERIFY, OP_DROP}, kpush(k), []byte{OP_CHECKSIG}), stack: []item{sigOf(k, 0, none)}}
	case 1: // CSV
		g.note("misc_csv")
		op := g.csvOperand(c)
		return plan{script: cat(pushMin(op), []byte{OP_CHECKSEQUENCEVERIFY, OP_DROP}, kpush(k), []byte{OP_CHECKSIG}), stack: []item{sigOf(k, 0, none)}}
	case 2: // IF / NOTIF
		g.note("misc_if")
		k2 := g.n("key2", 0, nKeys-1)
		opIf := g.pickInt("ifop", []int{OP_IF, OP_IF, OP_NOTIF})
		script := cat([]byte{byte(opIf)}, kpush(k), []byte{OP_CHECKSIG, OP_ELSE}, kpush(k2), []byte{OP_CHECKSIG, OP_ENDIF})
		sel := [][]byte{{1}, {}}[g.n("sel", 0, 1)]
		if g.mut("if_operand") {
			sel = [][]byte{{2}, {1, 0}, {0}, {0x80}, {1, 1}, {0, 0}, {0x81}, {0, 1}}[g.n("selodd", 0, 7)]
		}
		first := CastToBool(sel) == (opIf == OP_IF)
		signer := k2
		if first {
			signer = k
		}
		return plan{script: script, stack: []item{sigOf(signer, 0, none), lit(sel)}}
	case 3: // CODESEPARATOR
		g.note("misc_codesep")
		k2 := g.n("key2", 0, nKeys-1)
		switch g.n("csv", 0, 2) {
		case 0:
			return plan{script: cat([]byte{OP_CODESEPARATOR}, kpush(k), []byte{OP_CHECKSIG}), stack: []item{sigOf(k, 1, 0)}}
		case 1:
			a := cat(kpush(k), []byte{OP_CHECKSIGVERIFY, OP_CODESEPARATOR})
			script := cat(a, kpush(k2), []byte{OP_CHECKSIG})
			return plan{script: script, stack: []item{sigOf(k2, len(a), 2), sigOf(k, 0, none)}}
		default:
			script := cat([]byte{OP_0, OP_IF, OP_CODESEPARATOR, OP_ENDIF}, kpush(k), []byte{OP_CHECKSIG})
			return plan{script: script, stack: []item{sigOf(k, 0, none)}}
		}
	case 4: // hash lock
		g.note("misc_hashlock")
		pre := g.bytes("preimage", g.n("prelen", 0, 80))
		hop := g.n("hashop", 0, 4)
		var h []byte
		switch hop {
		case 0:
			x := Ripemd160(pre)
			h = x[:]
		case 1:
			h = sha1sum(pre)
		case 2:
			h = sha256b(pre)
		case 3:
			h = hash160(pre)
		default:
			h = sha256b(sha256b(pre))
		}
		script := cat([]byte{byte(OP_RIPEMD160 + hop)}, pushMin(h), []byte{OP_EQUALVERIFY}, kpush(k), []byte{OP_CHECKSIG})
		return plan{script: script, stack: []item{sigOf(k, 0, none), lit(pre)}}
	case 5: // upgradable NOP
		g.note("misc_nop")
		nop := g.pickInt("nop", []int{OP_NOP1, OP_NOP4, 0xb4, 0xb5, 0xb6, 0xb7, 0xb8, OP_NOP10, OP_NOP})
		return plan{script: cat([]byte{byte(nop)}, kpush(k), []byte{OP_CHECKSIG}), stack: []item{sigOf(k, 0, none)}}
	case 6: // CHECKSIG NOT with an empty signature
		g.note("misc_checksig_not")
		it := item{sig: &sigReq{key: k, from: 0, csPos: none, empty: true}}
		return plan{script: cat(kpush(k), []byte{OP_CHECKSIG, OP_NOT}), stack: []item{it}}
	case 7: // opcode in a dead branch
		g.note("misc_dead_branch")
		pool := harmlessDeadBase
		if sv == svTap {
			pool = harmlessDeadTap
		}
		dead := []byte{byte(g.pickInt("dead", pool))}
		if g.mut("dead_branch_fatal") {
			switch g.n("fatal", 0, 4) {
			case 0, 1, 2:
				dead = []byte{byte(g.pickInt("fatalop", fatalDead))}
			case 3:
				dead = pushWith(make([]byte, 521), 2)
			default:
				dead = []byte{OP_IF} // unbalanced
			}
		}
		script := cat([]byte{OP_0, OP_IF}, dead, []byte{OP_ENDIF}, kpush(k), []byte{OP_CHECKSIG})
		return plan{script: script, stack: []item{sigOf(k, 0, none)}}
	case 8: // arithmetic / altstack noise before the check
		g.note("misc_arith")
		a, b := int64(g.n("a", -1000, 1000)), int64(g.n("b", -1000, 1000))
		script := cat(num(a), num(b), []byte{OP_ADD}, num(a+b), []byte{OP_NUMEQUALVERIFY, OP_TOALTSTACK}, kpush(k), []byte{OP_FROMALTSTACK, OP_SWAP, OP_CHECKSIG})
		return plan{script: script, stack: []item{sigOf(k, 0, none)}}
	default: // two checks, both must pass
		g.note("misc_two_sigs")
		k2 := g.n("key2", 0, nKeys-1)
		script := cat(kpush(k), []byte{OP_CHECKSIGVERIFY}, kpush(k2), []byte{OP_CHECKSIG})
		return plan{script: script, stack: []item{sigOf(k2, 0, none), sigOf(k, 0, none)}}
	}
}

// planCSA: k-of-n with CHECKSIGADD (tapscript).
func (g *gen) planCSA() plan {
	n := g.n("csan", 1, 5)
	m := g.n("csam", 0, n)
	ks := make([]int, n)
	var script []byte
	for i := range ks {
		ks[i] = g.n("csakey", 0, nKeys-1)
		script = append(script, pushMin(g.keyBytes(ks[i], svTap))...)
		if i == 0 {
			script = append(script, OP_CHECKSIG)
		} else {
			script = append(script, OP_CHECKSIGADD)
		}
	}
	script = append(script, num(int64(m))...)
	script = append(script, byte(g.pickInt("csacmp", []int{OP_NUMEQUAL, OP_NUMEQUAL, OP_GREATERTHANOREQUAL})))
	signs := map[int]bool{}
	for len(signs) < m {
		signs[g.n("csasigner", 0, n-1)] = true
	}
	if g.mut("csa_extra_sig") && m < n {
		for i := 0; i < n; i++ {
			if !signs[i] {
				signs[i] = true
				break
			}
		}
	}
	var st []item
	for i := n - 1; i >= 0; i-- {
		if signs[i] {
			st = append(st, sigOf(ks[i], 0, 0xffffffff))
		} else {
			st = append(st, lit([]byte{}))
		}
	}
	return plan{script: script, stack: st}
}

// ---- resolving a plan's signatures --------------------------------------------------------------------

type tapCtx struct {
	leafHash [32]byte
	annex    []byte
}

func (g *gen) resolve(c *spendCtx, p plan, sv int, tc *tapCtx) [][]byte {
	var out [][]byte
	for _, it := range p.stack {
		if it.sig == nil {
			out = append(out, it.lit)
			continue
		}
		rq := it.sig
		if rq.empty && !g.mut("sig_nonempty_invalid") {
			out = append(out, []byte{})
			continue
		}
		switch sv {
		case svTap:
			s := g.schnorr(c, keys[rq.key].sk, 1, tc.annex, tc.leafHash[:], rq.csPos)
			if rq.empty && len(s) > 0 {
				s[7] ^= 0x40
			}
			out = append(out, s)
		default:
			code := p.script[rq.from:]
			s := g.ecdsa(rq.key, func(ht uint32) [32]byte {
				if sv == svV0 {
					return sighash.BIP143(c.tx, c.idx, code, c.amount(), ht)
				}
				return sighash.Legacy(c.tx, c.idx, code, ht)
			})
			if rq.empty && len(s) > 10 {
				s[7] ^= 0x40
			}
			out = append(out, s)
		}
	}
	return out
}

// ---- the FindAndDelete plan (SIGVERSION_BASE only) ------------------------------------------------------

// planFAD: script = <push of the very signature> DROP <key> CHECKSIG, scriptSig = <sig>.  The signature is
// made over the script with its own push removed, which is what Core signs when the push has the form
// CScript() << sig produces.
func (g *gen) planFAD(c *spendCtx) (script []byte, stack [][]byte) {
	k := g.n("key", 0, nKeys-1)
	tail := cat([]byte{OP_DROP}, pushMin(g.keyBytes(k, svBase)), []byte{OP_CHECKSIG})
	ht := byte(g.pickInt("ht", definedHashTypes))
	d := sighash.Legacy(c.tx, c.idx, tail, uint32(ht))
	r, s, _ := ec.SignRFC6979(keys[k].sk, d[:])
	sig := append(ec.EncodeDER(r, s), ht)
	if g.chance("inflate", 50) {
		g.note("fad_long_sig")
		sig = inflatedSig(r, s, ht, g.pickInt("inflen", []int{76, 77, 80, 100, 200, 255, 256, 300, 520}))
	}
	push := sighash.PushData(sig)
	if g.mut("fad_noncanonical_push") {
		forms := []int{1, 2, 4}
		if len(sig) > 75 {
			forms = []int{2, 4}
		}
		if len(sig) > 255 {
			forms = []int{4}
		}
		push = pushWith(sig, g.pickInt("fadform", forms))
	}
	script = cat(push, tail)
	if g.mut("fad_twice") {
		script = cat(push, []byte{OP_DROP}, push, tail)
	}
	return script, [][]byte{sig}
}

// ---- taproot ------------------------------------------------------------------------------------------

type tapSpend struct {
	pk      []byte
	witness [][]byte
}

// tapOutput computes the output key for internal key bytes p32 (possibly invalid) and merkle root; for an
// invalid internal key it "completes" it the way an implementation that forgets the checks would (x
// reduced mod p, y from the square-root candidate without verifying it), so that such an implementation
// finds the commitment satisfied.
func tapOutput(p32 []byte, root []byte) (q []byte, parity bool) {
	tw := sighash.TapTweakHash(p32, root)
	if q, par, ok := ec.TweakAdd(p32, tw[:]); ok {
		return q, par
	}
	x := new(big.Int).SetBytes(p32)
	x.Mod(x, ec.P)
	c := new(big.Int).Mul(x, x)
	c.Mul(c, x).Add(c, big.NewInt(7)).Mod(c, ec.P)
	e := new(big.Int).Add(ec.P, big.NewInt(1))
	e.Rsh(e, 2)
	y := new(big.Int).Exp(c, e, ec.P)
	if y.Bit(0) == 1 {
		y.Sub(ec.P, y)
	}
	t := new(big.Int).SetBytes(tw[:])
	t.Mod(t, ec.N)
	Q := ec.Add(ec.Point{X: x, Y: y}, ec.BaseMul(t))
	if Q.Inf {
		return make([]byte, 32), false
	}
	return ec.Bytes32(Q.X), Q.Y.Bit(0) == 1
}

func (g *gen) annexMaybe(pct int) []byte {
	if !g.chance("annex", pct) {
		return nil
	}
	return append([]byte{0x50}, g.bytes("annexbody", g.n("annexlen", 0, 40))...)
}

func (g *gen) tapKeyPath(c *spendCtx) ([]byte, [][]byte) {
	k := g.n("ikey", 0, nKeys-1)
	var root []byte
	if g.chance("hasroot", 50) {
		root = g.bytes("root", 32)
	}
	q, _ := tapOutput(keys[k].xonly, root)
	pk := witnessScript(1, q)
	c.spent[c.idx].PkScript = pk
	annex := g.annexMaybe(25)
	tw := sighash.TapTweakHash(keys[k].xonly, root)
	sig := g.schnorr(c, ec.TweakSecret(keys[k].sk, tw[:]), 0, annex, nil, 0)
	wit := [][]byte{sig}
	if annex != nil {
		wit = append(wit, annex)
		if g.mut("annex_strip") {
			wit = wit[:1]
		}
	} else if g.mut("annex_add") {
		wit = append(wit, append([]byte{0x50}, g.bytes("annexadd", g.n("annexaddlen", 0, 5))...))
	}
	if g.mut("annex_only") {
		wit = [][]byte{append([]byte{0x50}, g.bytes("annexonly", g.pickInt("annexonlylen", []int{0, 5, 63, 64}))...)}
	}
	return pk, wit
}

// tapScriptPath wraps a leaf (built by mk once the leaf hash inputs are known) into a P2TR output.
// mk receives the annex (signed) and must return the leaf script and the function producing the stack.
func (g *gen) tapScriptPath(c *spendCtx, leafVer byte, depth int, script []byte, mkStack func(tc *tapCtx) [][]byte) ([]byte, [][]byte) {
	return g.tapScriptPathAnnex(c, leafVer, depth, script, nil, mkStack)
}

// tapScriptPathAnnex: forcedAnnex != nil fixes the (signed) annex.
func (g *gen) tapScriptPathAnnex(c *spendCtx, leafVer byte, depth int, script []byte, forcedAnnex []byte, mkStack func(tc *tapCtx) [][]byte) ([]byte, [][]byte) {
	k := g.n("ikey", 0, nKeys-1)
	ikey := append([]byte{}, keys[k].xonly...)
	switch {
	case g.mut("ikey_ge_p"):
		// x0 + p with x0 small and liftable
		for x := int64(g.n("gep", 1, 50)); ; x++ {
			if _, ok := ec.LiftX(big.NewInt(x)); ok {
				ikey = ec.Bytes32(new(big.Int).Add(ec.P, big.NewInt(x)))
				break
			}
		}
	case g.mut("ikey_unliftable"):
		if g.chance("unlsmall", 50) {
			ikey = unliftableX(g.n("unl", 0, 7))
		} else {
			for {
				ikey = g.bytes("ikeyrand", 32)
				if _, ok := ec.LiftX(new(big.Int).SetBytes(ikey)); !ok && new(big.Int).SetBytes(ikey).Cmp(ec.P) < 0 {
					break
				}
				ikey[31]++
				if _, ok := ec.LiftX(new(big.Int).SetBytes(ikey)); !ok && new(big.Int).SetBytes(ikey).Cmp(ec.P) < 0 {
					break
				}
			}
		}
	}
	leaf := sighash.TapLeafHash(leafVer, script)
	node := leaf
	var path []byte
	for i := 0; i < depth; i++ {
		var sib [32]byte
		copy(sib[:], g.bytes("sibling", 32))
		path = append(path, sib[:]...)
		node = sighash.TapBranchHash(node, sib)
	}
	root := node[:]
	q, parity := tapOutput(ikey, root)
	pk := witnessScript(1, q)
	c.spent[c.idx].PkScript = pk
	c0 := leafVer
	if parity {
		c0 |= 1
	}
	if g.mut("wrong_parity") {
		c0 ^= 1
	}
	control := cat([]byte{c0}, ikey, path)
	annex := forcedAnnex
	if annex == nil {
		annex = g.annexMaybe(20)
	}
	tc := &tapCtx{leafHash: leaf, annex: annex}
	stack := mkStack(tc)
	if g.mut("control_size") {
		switch g.n("ctlk", 0, 6) {
		case 0:
			control = control[:len(control)-1]
		case 1:
			control = append(control, 0)
		case 2:
			control = control[:32]
		case 3:
			control = control[:33]
		case 4:
			control = append(control, make([]byte, 32)...)
		case 5:
			control = append(control[:33:33], make([]byte, 32*128)...)
		default:
			control = append(control[:33:33], make([]byte, 32*129)...)
		}
	}
	if g.mut("control_corrupt") {
		control[g.n("ctlpos", 0, len(control)-1)] ^= 1 << uint(g.n("ctlbit", 0, 7))
	}
	wit := append(append([][]byte{}, stack...), script, control)
	if annex != nil {
		wit = append(wit, annex)
		if g.mut("annex_strip") {
			wit = wit[:len(wit)-1]
		}
	} else if g.mut("annex_add") {
		wit = append(wit, append([]byte{0x50}, g.bytes("annexadd", g.n("annexaddlen", 0, 5))...))
	}
	return pk, wit
}

var opSuccessList []int

func init() {
	for op := 0; op < 256; op++ {
		if IsOpSuccess(op) {
			opSuccessList = append(opSuccessList, op)
		}
	}
}

func sha1sum(b []byte) []byte { h := sha1.Sum(b); return h[:] }

// witness size helper for the sig-op budget construction
func witnessSize(w [][]byte) int {
	n := len(wire.CompactSize(uint64(len(w))))
	for _, it := range w {
		n += len(wire.CompactSize(uint64(len(it)))) + len(it)
	}
	return n
}
