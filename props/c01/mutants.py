#!/usr/bin/env python3
"""Sensitivity self-test for the C01 check: each mutant is a small change of gocoin that still compiles;
it is applied through `go test -overlay` (nothing under /repo is touched), the quick campaign is run as
16 shards exactly as ./check does, and the mutant counts as caught when at least one shard reports a
violation (exit status 1 of the test binary with a replay file).

  python3 props/c01/mutants.py            run all
  python3 props/c01/mutants.py M3 M7      run some
"""
import json, os, shutil, subprocess, sys, tempfile, time

ROOT = "/verif"
REPO = "/repo"
ENV = dict(os.environ, GOFLAGS="-mod=mod", GOPROXY="off", GOSUMDB="off", GOTOOLCHAIN="local")

MUTANTS = [
    ("M1", "stack limit > 1000 becomes >= 1000", "lib/script/script.go",
     "if stack.size()+altstack.size() > 1000 {", "if stack.size()+altstack.size() >= 1000 {"),
    ("M2", "CHECKMULTISIG key count no longer added to the op count", "lib/script/script.go",
     "opcnt += int(keyscnt)", "opcnt += 0*int(keyscnt)"),
    ("M3", "tapscript MINIMALIF skipped", "lib/script/script.go",
     "if len(vch) > 1 || (len(vch) == 1 && vch[0] != 1) {\n\t\t\t\t\t\t\tif DBG_ERR {\n\t\t\t\t\t\t\t\tfmt.Println(\"SCRIPT_ERR_TAPSCRIPT_MINIMALIF\")",
     "if false {\n\t\t\t\t\t\t\tif DBG_ERR {\n\t\t\t\t\t\t\t\tfmt.Println(\"SCRIPT_ERR_TAPSCRIPT_MINIMALIF\")"),
    ("M4", "validation weight computed without the annex (stack after removal)", "lib/script/witness.go",
     "int64(witness.stack.GetSerializeSize() + VALIDATION_WEIGHT_OFFSET)", "int64(witness.stack.GetSerializeSize() - 1 + VALIDATION_WEIGHT_OFFSET)"),
    ("M5", "taproot merkle branch ordering inverted", "lib/script/witness.go",
     "if lexicographical_compare(k, node) {", "if !lexicographical_compare(k, node) {"),
    ("M6", "control block length not required to be 33 mod 32", "lib/script/witness.go",
     "|| ((len(control)-TAPROOT_CONTROL_BASE_SIZE)%TAPROOT_CONTROL_NODE_SIZE) != 0 {", "|| false {"),
    ("M7", "P2SH-wrapped v1 program treated as taproot", "lib/script/witness.go",
     "} else if witversion == 1 && len(program) == 32 && !is_p2sh {", "} else if witversion == 1 && len(program) == 32 {"),
    ("M8", "NULLFAIL not enforced for CHECKSIG", "lib/script/checker.go",
     "if !fSuccess && (ver_flags&VER_NULLFAIL) != 0 && len(vchSig) > 0 {", "if false && !fSuccess && (ver_flags&VER_NULLFAIL) != 0 && len(vchSig) > 0 {"),
    ("M4b", "validation weight computed from the stack left after removing annex, control block and script", "lib/script/witness.go",
     "int64(witness.stack.GetSerializeSize() + VALIDATION_WEIGHT_OFFSET)", "int64(stack.GetSerializeSize() + VALIDATION_WEIGHT_OFFSET)"),
    ("M9", "OP_SUCCESS range 187..254 shortened to 187..253", "lib/script/script.go",
     "(opcode >= 187 && opcode <= 254)", "(opcode >= 187 && opcode <= 253)"),
    ("M10", "CHECKSEQUENCEVERIFY: operand compared unmasked", "lib/script/misc.go",
     "nSequenceMasked := seq & nLockTimeMask", "nSequenceMasked := seq"),
    ("M11", "CHECKLOCKTIMEVERIFY-style off by one in CSV: >= instead of >", "lib/script/misc.go",
     "if nSequenceMasked > txToSequenceMasked {", "if nSequenceMasked >= txToSequenceMasked && nSequenceMasked != 0 {"),
    ("M13", "CLTV: operand equal to the lock time refused (> becomes >=)", "lib/script/script.go",
     "if locktime > int64(tx.Lock_time) {", "if locktime >= int64(tx.Lock_time) && locktime != 0 {"),
    ("M14", "P2WPKH witness item count not checked", "lib/script/witness.go",
     "if witness.stack.size() != 2 {", "if witness.stack.size() < 2 {"),
    ("M15", "CLEANSTACK not enforced", "lib/script/script.go",
     "if (ver_flags & VER_CLEANSTACK) != 0 {", "if false && (ver_flags & VER_CLEANSTACK) != 0 {"),
    ("M16", "tapscript CODESEPARATOR position not recorded", "lib/script/script.go",
     "execdata.M_codeseparator_pos = opcode_pos", "execdata.M_codeseparator_pos = 0xFFFFFFFF"),
    ("M17", "FindAndDelete skipped in CHECKSIG", "lib/script/checker.go",
     "scriptCode, found = delSig(scriptCode, vchSig)", "_, found = delSig(scriptCode, vchSig)"),
    ("M18", "annex recognised even as the only witness element", "lib/script/witness.go",
     "if stack.size() >= 2 {\n\t\t\tdat := stack.top(-1)", "if stack.size() >= 1 {\n\t\t\tdat := stack.top(-1)"),
    ("M19", "65-byte Schnorr signature with explicit hash type 0x00 accepted", "lib/script/checker.go",
     "if hashtype == btc.SIGHASH_DEFAULT {", "if false && hashtype == btc.SIGHASH_DEFAULT {"),
    ("M20", "unexpected witness not refused", "lib/script/script.go",
     "if !hadWitness && !witness.IsNull() {", "if false && !hadWitness && !witness.IsNull() {"),
    ("M21", "tapscript: empty public key no longer fatal", "lib/script/checker.go",
     "if len(pubkey) == 0 {", "if false && len(pubkey) == 0 {"),
    ("M22", "annex not committed to by the taproot signature hash", "lib/btc/taproot.go",
     "have_annex := execdata.M_annex_hash != nil", "have_annex := false && execdata.M_annex_hash != nil"),
    ("M23", "negative zero is true", "lib/script/stack.go",
     "return (d[len(d)-1] & 0x7f) != 0", "return d[len(d)-1] != 0"),
    ("M24", "P2SH: scriptSig need not be push-only", "lib/script/script.go",
     "\t\tif !btc.IsPushOnly(sigScr) {\n\t\t\tif DBG_ERR {\n\t\t\t\tfmt.Println(\"P2SH is not push only\")", "\t\tif false && !btc.IsPushOnly(sigScr) {\n\t\t\tif DBG_ERR {\n\t\t\t\tfmt.Println(\"P2SH is not push only\")"),
    ("M25", "F2 re-opened: undefined taproot hash type / SINGLE without output signs the all-zero digest", "lib/script/checker.go",
     "\tif sh == nil {\n", "\tif sh == nil {\n\t\tsh = make([]byte, 32)\n\t}\n\tif false {\n"),
    ("M26", "F1 re-opened: delSig matches only the direct-push form (length byte) of the signature", "lib/script/script.go",
     "\tcase len(sig) <= 0xff:\n\t\tpush_sig_scr = append(push_sig_scr, btc.OP_PUSHDATA1, byte(len(sig)))", "\tcase len(sig) <= 0xff:\n\t\tpush_sig_scr = append(push_sig_scr, byte(len(sig)))"),
    ("M27", "CHECKSIGADD adds one even for an empty signature", "lib/script/script.go",
     "\t\t\t\tif success {\n\t\t\t\t\tnum++", "\t\t\t\tif success || len(sig) == 0 {\n\t\t\t\t\tnum++"),
    ("M28", "seeded C01-1 in short: non-empty signature on an unknown-type tapscript key is not charged", "lib/script/checker.go",
     "\tsuccess = len(sig) > 0\n\tif success {", "\tsuccess = len(sig) > 0\n\tif success && len(pubkey) == 32 {"),
    ("M12", "P2SH-witness scriptSig exactness check dropped", "lib/script/script.go",
     "if !bytes.Equal(sigScr, bt.Bytes()) {", "if false && !bytes.Equal(sigScr, bt.Bytes()) {"),
]


def run(m, scale):
    mid, what, rel, old, new = m
    src = open(os.path.join(REPO, rel)).read()
    if old is None:
        return mid, what, "skipped (site not defined)", 0
    if src.count(old) != 1:
        return mid, what, "NOT APPLICABLE (pattern occurs %d times)" % src.count(old), 0
    tmp = tempfile.mkdtemp(prefix="c01mut-")
    try:
        mf = os.path.join(tmp, os.path.basename(rel))
        open(mf, "w").write(src.replace(old, new))
        ov = os.path.join(tmp, "overlay.json")
        json.dump({"Replace": {os.path.join(REPO, rel): mf}}, open(ov, "w"))
        binp = os.path.join(tmp, "c01.test")
        p = subprocess.run(["go", "test", "-c", "-vet=off", "-tags", "verif", "-overlay", ov, "-o", binp, "./props/c01"],
                           cwd=ROOT, env=ENV, stdout=subprocess.PIPE, stderr=subprocess.STDOUT, text=True)
        if p.returncode != 0:
            return mid, what, "DOES NOT COMPILE: " + p.stdout[-300:], 0
        t0 = time.time()
        procs = []
        for i in range(16):
            sd = os.path.join(tmp, "s%d" % i)
            os.makedirs(os.path.join(sd, "fail"))
            e = dict(ENV, VERIF_SEED=os.environ.get("VERIF_SEED", "1"), VERIF_TIER="quick", VERIF_SHARD=str(i), VERIF_SHARDS="16",
                     VERIF_SCALE=str(scale), VERIF_STATS=os.path.join(sd, "stats.json"), VERIF_FAILDIR=os.path.join(sd, "fail"),
                     VERIF_KF=os.path.join(ROOT, "KNOWN_FINDINGS.json"), TMPDIR=sd)
            procs.append((sd, subprocess.Popen([binp, "-test.run", "TestVerify|TestCorrectSpends", "-test.timeout", "900s", "-rapid.shrinktime", "5s"],
                                               cwd=os.path.join(ROOT, "props/c01"), env=e, stdout=subprocess.DEVNULL, stderr=subprocess.DEVNULL)))
        caught, msg = 0, ""
        for sd, pr in procs:
            pr.wait()
            fs = os.listdir(os.path.join(sd, "fail"))
            if pr.returncode != 0 and fs:
                caught += 1
                if not msg:
                    d = json.load(open(os.path.join(sd, "fail", fs[0])))
                    msg = "kind=%s muts=%s :: %s" % (d["case"].get("kind"), d["case"].get("muts"), d["msg"][:200])
        dt = time.time() - t0
        if caught:
            return mid, what, "CAUGHT by %d/16 shards in %.0fs; e.g. %s" % (caught, dt, msg), caught
        return mid, what, "MISSED (%.0fs)" % dt, 0
    finally:
        shutil.rmtree(tmp, ignore_errors=True)


if __name__ == "__main__" and "--repo-tests" not in sys.argv:
    want = [a for a in sys.argv[1:] if not a.startswith("--")]
    scale = float(os.environ.get("MUT_SCALE", "1"))
    for m in MUTANTS:
        if want and m[0] not in want:
            continue
        mid, what, res, n = run(m, scale)
        print("%s  %s\n     -> %s" % (mid, what, res), flush=True)


def repo_tests():
    """--repo-tests: do the repository's own tests still pass with each mutant applied (overlay)?"""
    base = None
    for m in [None] + MUTANTS:
        tmp = tempfile.mkdtemp(prefix="c01mut-")
        try:
            args = ["go", "test", "-vet=off", "-count=1"]
            name = "baseline"
            if m is not None:
                mid, what, rel, old, new = m
                name = mid
                src = open(os.path.join(REPO, rel)).read()
                if old is None or src.count(old) != 1:
                    continue
                mf = os.path.join(tmp, os.path.basename(rel))
                open(mf, "w").write(src.replace(old, new))
                ov = os.path.join(tmp, "overlay.json")
                json.dump({"Replace": {os.path.join(REPO, rel): mf}}, open(ov, "w"))
                args += ["-overlay", ov]
            p = subprocess.run(args + ["./lib/script", "./lib/btc", "./lib/secp256k1"], cwd=REPO, env=ENV, stdout=subprocess.PIPE, stderr=subprocess.STDOUT, text=True)
            fails = sorted(l.split()[2] for l in p.stdout.splitlines() if l.startswith("--- FAIL"))
            if m is None:
                base = fails
            print("%-8s failing tests: %s%s" % (name, fails, "" if fails == base else "   <-- differs from baseline"), flush=True)
        finally:
            shutil.rmtree(tmp, ignore_errors=True)


if __name__ == "__main__" and "--repo-tests" in sys.argv:
    repo_tests()
