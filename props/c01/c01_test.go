package c01

import (
	"encoding/binary"
	"encoding/hex"
	"encoding/json"
	"fmt"
	"os"
	"testing"

	"github.com/piotrnar/gocoin/lib/script"
	"pgregory.net/rapid"
	"verif/pbt"
	"verif/ref/interp"
	"verif/ref/wire"
)

func TestMain(m *testing.M) {
	pbt.RegisterReplay("verify", func(raw json.RawMessage) error {
		var c Case
		if err := json.Unmarshal(raw, &c); err != nil {
			return err
		}
		_, err := checkCase(c)
		return err
	})
	pbt.RegisterReplay("correct_spends", func(raw json.RawMessage) error {
		var c Case
		if err := json.Unmarshal(raw, &c); err != nil {
			return err
		}
		return checkCorrect(c)
	})
	pbt.Main(m, "C01")
}

// ---- flags ------------------------------------------------------------------------------------------

const (
	chainFull       = interp.P2SH | interp.DERSIG | interp.CHECKLOCKTIMEVERIFY | interp.CHECKSEQUENCEVERIFY | interp.WITNESS | interp.NULLDUMMY | interp.TAPROOT
	discourageFlags = interp.DISCOURAGE_UPGRADABLE_NOPS | interp.DISCOURAGE_UPGRADABLE_WITNESS_PROGRAM | interp.DISCOURAGE_UPGRADABLE_TAPROOT_VERSION |
		interp.DISCOURAGE_OP_SUCCESS | interp.DISCOURAGE_UPGRADABLE_PUBKEYTYPE
)

// the exact sets Chain.GetBlockFlags produces along the activation history (and with block time before BIP16)
var chainSets = []uint32{
	0,
	interp.P2SH,
	interp.P2SH | interp.DERSIG,
	interp.P2SH | interp.DERSIG | interp.CHECKLOCKTIMEVERIFY,
	interp.P2SH | interp.DERSIG | interp.CHECKLOCKTIMEVERIFY | interp.CHECKSEQUENCEVERIFY,
	interp.P2SH | interp.DERSIG | interp.CHECKLOCKTIMEVERIFY | interp.CHECKSEQUENCEVERIFY | interp.WITNESS | interp.NULLDUMMY,
	chainFull, chainFull, chainFull,
	interp.DERSIG | interp.CHECKLOCKTIMEVERIFY,
}

func repairFlags(f uint32) uint32 {
	f &= interp.AllFlags
	if f&interp.P2SH == 0 {
		f &^= interp.WITNESS
	}
	if f&interp.WITNESS == 0 {
		f &^= interp.CLEANSTACK
	}
	return f
}

func genFlags(t *rapid.T) uint32 {
	switch uniform(t, "flagmode", 100) / 10 {
	case 0, 1, 2: // any consistent subset
		return repairFlags(uint32(uniform(t, "flagbits", 1<<21)))
	case 3, 4: // the chain's sets
		return chainSets[uniform(t, "chainset", len(chainSets))]
	case 5: // gocoin's and Core's standard sets
		if rapid.Bool().Draw(t, "corestd") {
			return interp.AllFlags &^ interp.SIGPUSHONLY
		}
		return script.STANDARD_VERIFY_FLAGS
	case 6: // everything
		return interp.AllFlags
	case 7: // the chain's full set plus a few policy flags
		f := uint32(chainFull)
		for i, n := 0, 1+uniform(t, "nextra", 3); i < n; i++ {
			f |= 1 << uint(uniform(t, "extrabit", 21))
		}
		return repairFlags(f)
	case 8: // everything but the discouragement flags, minus a few
		f := uint32(interp.AllFlags &^ discourageFlags)
		for i, n := 0, uniform(t, "nless", 4); i < n; i++ {
			f &^= 1 << uint(uniform(t, "lessbit", 21))
		}
		return repairFlags(f)
	default: // everything minus a few
		f := uint32(interp.AllFlags)
		for i, n := 0, 1+uniform(t, "nless", 4); i < n; i++ {
			f &^= 1 << uint(uniform(t, "lessbit", 21))
		}
		return repairFlags(f)
	}
}

// ---- case generation ----------------------------------------------------------------------------------

var grammarKinds = []struct {
	name   string
	weight int
}{{"g_bare", 9}, {"g_p2sh", 5}, {"g_p2wsh", 6}, {"g_tap", 6}, {"limits", 5}, {"limits_sv", 6}}

func totalWeight() (tw, gw int) {
	for _, k := range kinds {
		tw += k.weight
	}
	for _, k := range grammarKinds {
		gw += k.weight
	}
	return
}

// genSpend builds one tuple.  forceKind / noMut are used by the generator self-check.
func genSpend(t *rapid.T, forceTemplate bool, noMut bool) (Case, *gen) {
	g := &gen{t: t, want: map[string]bool{}}
	c := g.baseTx()
	flags := genFlags(t)
	drop := uint32(uniform(t, "dropbits", 1<<21)) & uint32(uniform(t, "dropbits2", 1<<21))
	tw, gw := totalWeight()
	var kind string
	var ss []byte
	var wit [][]byte
	if forceTemplate || uniform(t, "family", 100) < 70 {
		r := uniform(t, "kind", tw)
		var k *kindDef
		for i := range kinds {
			if r < kinds[i].weight {
				k = &kinds[i]
				break
			}
			r -= kinds[i].weight
		}
		kind = k.name
		nm := 0
		if !noMut {
			nm = []int{0, 0, 0, 1, 1, 1, 1, 2, 2, 3}[uniform(t, "nmut", 10)]
		}
		for i := 0; i < nm; i++ {
			g.want[k.muts[uniform(t, "mut", len(k.muts))]] = true
		}
		ss, wit = k.build(g, c)
		ss, wit = g.postMutate(k, c, ss, wit)
	} else {
		r := uniform(t, "gkind", gw)
		for _, k := range grammarKinds {
			if r < k.weight {
				kind = k.name
				break
			}
			r -= k.weight
		}
		if kind == "limits_sv" {
			ss, wit = g.limitsSV(c)
		} else if kind == "limits" {
			if rapid.Bool().Draw(t, "over") {
				g.want["over_limit"] = true
			}
			ss, wit = g.limitsSpend(c)
		} else {
			if uniform(t, "deadprefix", 10) == 0 {
				g.want["dead_prefix"] = true
			}
			ss, wit = g.grammarSpend(c, kind)
			// a few spend-level mutations make sense here too
			if uniform(t, "gunexp", 20) == 0 && len(wit) == 0 {
				wit = [][]byte{{1}}
				g.applied = append(g.applied, "unexpected_witness")
			}
		}
	}
	c.tx.In[c.idx].ScriptSig = ss
	c.tx.In[c.idx].Witness = wit
	return makeCase(kind, g.applied, c, flags, drop), g
}

func classify(r *pbt.Run, c *Case, g *gen, v *verdict) {
	r.Class("kind:" + c.Kind)
	if len(c.Muts) == 0 {
		r.Class("mut:none")
	}
	for _, m := range c.Muts {
		r.Class("mut:" + m)
	}
	if g != nil {
		for _, n := range g.notes {
			r.Class("note:" + n)
		}
	}
	if v.skipped != "" {
		r.Class("skipped:" + v.skipped)
		return
	}
	verd := "reject"
	if v.ref.OK {
		verd = "accept"
	}
	r.Class("verdict:" + verd)
	r.Class("kind_verdict:" + c.Kind + "/" + verd)
	for _, m := range c.Muts {
		r.Class("mut_verdict:" + m + "/" + verd)
	}
	r.Class("err:" + v.ref.Err)
	if v.ref.Tapscript {
		r.Class("reached:tapscript")
	}
	if v.ref.KeyPath {
		r.Class("reached:keypath")
	}
	if v.ref.P2SHRedeem {
		r.Class("reached:p2sh_redeem")
	}
	if v.ref.WitnessProg {
		r.Class("reached:witness_program")
	}
	if v.ref.SigChecks > 0 {
		r.Class("reached:sigcheck")
	}
	if v.ref.NonTrivial() {
		r.NonTrivial()
	}
}

func TestVerify(t *testing.T) {
	pbt.Check(t, pbt.Cfg{Name: "verify", Quick: 80000, Thorough: 1500000}, func(r *pbt.Run) {
		c, g := genSpend(r.T, false, false)
		r.Case(c)
		v, err := checkCase(c)
		classify(r, &c, g, &v)
		if v.excluded != "" {
			r.Excluded(v.excluded)
			r.Class("excluded:" + v.excluded)
		}
		if err != nil {
			if os.Getenv("C01_COLLECT") != "" { // dev aid: list disagreements instead of stopping at the first
				m := err.Error()
				if len(m) > 160 {
					m = m[:160]
				}
				fmt.Printf("COLLECT kind=%s muts=%v flags=%#x :: %s\n", c.Kind, c.Muts, c.Flags, m)
				return
			}
			r.Failf("%v", err)
		}
	})
}

// ---- generator self-check: unmutated template spends are valid --------------------------------------------

// kinds whose unmutated form is not necessarily a valid spend under every flag
func expectAlwaysValid(c *Case, g *gen) bool {
	switch c.Kind {
	case "wit_v0_badlen", "p2tr_leafver", "p2tr_opsuccess":
		return false
	}
	if g != nil {
		for _, n := range g.notes {
			if n == "zero_program" || n == "depth129" || n == "redeem_over_520" || n == "v0_badlen" {
				return false
			}
		}
	}
	return true
}

// flags under which every correct spend must pass: no discouragement flags; CONST_SCRIPTCODE off because
// the CODESEPARATOR / FindAndDelete templates are (validly) refused by it
const correctFlags = interp.AllFlags &^ (discourageFlags | interp.CONST_SCRIPTCODE)

func checkCorrect(c Case) error {
	v, err := checkCase(c)
	if err != nil {
		return err
	}
	if v.skipped != "" || v.excluded != "" {
		return nil
	}
	if !v.ref.OK {
		return fmt.Errorf("GENERATOR/REFERENCE BUG (not a finding): unmutated %s spend refused by the reference: %s", c.Kind, v.ref.Err)
	}
	return nil
}

func TestCorrectSpends(t *testing.T) {
	pbt.Check(t, pbt.Cfg{Name: "correct_spends", Quick: 6000, Thorough: 60000}, func(r *pbt.Run) {
		c, g := genSpend(r.T, true, true)
		if !expectAlwaysValid(&c, g) {
			r.T.Skip("kind without an always-valid form")
		}
		c.Flags = correctFlags
		if rapid.Bool().Draw(r.T, "chainflags") {
			c.Flags = chainFull
		}
		if c.Kind == "bare_fad" || c.Kind == "p2sh_fad" {
			c.Flags &^= interp.DERSIG | interp.STRICTENC | interp.LOW_S // the long signatures are lax DER
		}
		r.Case(c)
		r.Class("kind:" + c.Kind)
		r.NonTrivial()
		if err := checkCorrect(c); err != nil {
			if os.Getenv("C01_COLLECT") != "" {
				m := err.Error()
				if len(m) > 160 {
					m = m[:160]
				}
				fmt.Printf("COLLECT kind=%s muts=%v flags=%#x :: %s\n", c.Kind, c.Muts, c.Flags, m)
				return
			}
			r.Failf("%v", err)
		}
	})
}

// ---- native fuzz target: a byte-decoded tuple -----------------------------------------------------------

// fuzz input layout: flags[3] idx[1] nspent[1] { value[8] pklen[2] pk }* rawtx
func caseToBytes(c Case) []byte {
	raw, _ := hex.DecodeString(c.Tx)
	out := []byte{byte(c.Flags), byte(c.Flags >> 8), byte(c.Flags >> 16), byte(c.Idx), byte(len(c.Spent))}
	for _, s := range c.Spent {
		pk, _ := hex.DecodeString(s.Pk)
		var v [8]byte
		binary.LittleEndian.PutUint64(v[:], s.Value)
		out = append(out, v[:]...)
		out = append(out, byte(len(pk)), byte(len(pk)>>8))
		out = append(out, pk...)
	}
	return append(out, raw...)
}

func caseFromBytes(b []byte) (Case, bool) {
	if len(b) < 5 {
		return Case{}, false
	}
	flags := repairFlags(uint32(b[0]) | uint32(b[1])<<8 | uint32(b[2])<<16)
	idx, n := int(b[3]), int(b[4])
	b = b[5:]
	if n < 1 || n > 4 || idx >= n {
		return Case{}, false
	}
	cs := Case{Kind: "fuzz", Idx: idx, Flags: flags}
	for i := 0; i < n; i++ {
		if len(b) < 10 {
			return Case{}, false
		}
		v := binary.LittleEndian.Uint64(b)
		l := int(b[8]) | int(b[9])<<8
		b = b[10:]
		if l > len(b) || l > 10100 {
			return Case{}, false
		}
		cs.Spent = append(cs.Spent, SpentOut{v, hex.EncodeToString(b[:l])})
		b = b[l:]
	}
	tx, used, err := wire.DecodeTx(b)
	if err != nil || used != len(b) || len(tx.In) != n {
		return Case{}, false
	}
	cs.Tx = hex.EncodeToString(b)
	return cs, true
}

func FuzzVerify(f *testing.F) {
	// seeds: generated spends of every kind (valid signatures and all), so that coverage-guided mutation
	// starts next to the interesting inputs
	seedGen := rapid.Custom(func(t *rapid.T) Case { c, _ := genSpend(t, false, false); return c })
	for i := 0; i < 150; i++ {
		c := seedGen.Example(i)
		if len(c.Tx) < 20000 {
			f.Add(caseToBytes(c))
		}
	}
	f.Fuzz(func(t *testing.T, b []byte) {
		c, ok := caseFromBytes(b)
		if !ok {
			return
		}
		if _, err := checkCase(c); err != nil {
			pbt.FuzzFail(t, "verify", c, "%v", err)
		}
	})
}
