// Command uichild runs one C20 "wiring" case (JSON on stdin): real allocator + UnspentDB + text UI
// loop in this process, see ../uiengine.  One process per case, like ../child.
package main

import "verif/props/c20/uiengine"

func main() { uiengine.ChildMain() }
