// Package engine executes one C20 history (pure data) against a fresh memory.Allocator in this
// process and judges it with a model.  It runs only in a child process (../child, see ChildMain),
// so that a SIGSEGV/SIGBUS or silent corruption caused by the allocator cannot take the campaign
// down; the parent (../c20_test.go) treats a child that dies without a RESULT line as a violation.
package engine

import (
	"encoding/binary"
	"encoding/json"
	"fmt"
	"io"
	"os"
	"runtime"
	"sort"
	"sync"
	"syscall"
	"unsafe"

	"github.com/piotrnar/gocoin/lib/others/memory"
)

const HdrLen = int(unsafe.Sizeof([]byte{}))

// ---------------------------------------------------------------------------------------------
// the case (pure data, JSON)

// op kinds:
//
//	m  Malloc(A)
//	r  Malloc(size of the allocation this owner freed last; 64 if none yet)
//	f  Free(live[A mod #live])                 (nothing if none live)
//	w  overwrite live[A mod #live] with the next pattern version
//	v  verify every allocation of this owner now
//	y  runtime.Gosched()
//	b  bulk: B x Malloc(A - (prng mod (D+1))), then free C percent of them in a prng order (seed S)
//	x  mass free: free C percent of everything this owner holds, in a prng order (seed S)
type Op struct {
	K string `json:"k"`
	A int    `json:"a,omitempty"`
	B int    `json:"b,omitempty"`
	C int    `json:"c,omitempty"`
	D int    `json:"d,omitempty"`
	S uint64 `json:"s,omitempty"`
}

// A Round: every goroutine g runs G[g] on the allocations it owns; all are joined; the global
// invariants are checked; then (optionally) the defragmentation runs, exclusively, and the
// invariants are checked again.  Allocations survive from Round to Round.
type Round struct {
	G      [][]Op `json:"g"`
	Defrag bool   `json:"defrag"`
}

type Case struct {
	Mode   string  `json:"mode"`            // "seq" (one owner, invariants after every step) | "conc" | "probe"
	Race   bool    `json:"race,omitempty"`  // run in the child binary built with the race detector (chosen by the parent)
	Procs  int     `json:"procs,omitempty"` // GOMAXPROCS of the child (0 = default)
	VE     int     `json:"ve,omitempty"`    // seq: full content verification every VE steps
	Rounds []Round `json:"rounds,omitempty"`
}

type Stats struct {
	Steps          int64 `json:"steps"`
	Mallocs        int64 `json:"mallocs"`
	Frees          int64 `json:"frees"`
	Rewrites       int64 `json:"rewrites"`
	Private        int64 `json:"private"`          // mallocs above the largest shared class
	SameClassReuse int64 `json:"same_class_reuse"` // mallocs in a class (same capacity) in which the owner freed before
	AddrReuse      int64 `json:"addr_reuse"`       // mallocs that returned an address the owner freed before
	Bulks          int64 `json:"bulks"`
	Defrags        int64 `json:"defrags"`
	DefragsMoved   int64 `json:"defrags_moved"`
	Moved          int64 `json:"moved"`        // relocate callbacks
	CntMismatch    int64 `json:"cnt_mismatch"` // DefragAllImproved's return value != number of callbacks (noted, not judged)
	FullVerifies   int64 `json:"full_verifies"`
	MaxLive        int64 `json:"max_live"`
	MaxLiveBytes   int64 `json:"max_live_bytes"`
	Goroutines     int   `json:"goroutines"`
}

type Result struct {
	Violation    string `json:"violation,omitempty"`
	Inconclusive string `json:"inconclusive,omitempty"`
	Stats        Stats  `json:"stats"`
	// probe mode
	Bounds    []int `json:"bounds,omitempty"`     // sizes s with cap(Malloc(s+1)) != cap(Malloc(s)), 0..ProbeMax
	MaxShared int   `json:"max_shared,omitempty"` // largest request served from the shared pages
}

const ProbeMax = 200 << 10

// ---------------------------------------------------------------------------------------------
// patterns: the content of allocation (id, version) is a pure function of (id, version, offset)

func mix(x uint64) uint64 {
	x += 0x9e3779b97f4a7c15
	x = (x ^ x>>30) * 0xbf58476d1ce4e5b9
	x = (x ^ x>>27) * 0x94d049bb133111eb
	return x ^ x>>31
}

func patSeed(id uint64, ver uint32) uint64 { return mix(id*0x100000001b3^uint64(ver)<<44) | 1 }

//go:norace
func fill(b []byte, id uint64, ver uint32) {
	x := patSeed(id, ver)
	i := 0
	for ; i+8 <= len(b); i += 8 {
		binary.LittleEndian.PutUint64(b[i:], x)
		x += 0x9e3779b97f4a7c15
	}
	for ; i < len(b); i++ {
		b[i] = byte(x)
		x >>= 8
	}
}

// firstDiff returns the first offset at which b differs from the pattern, -1 if none.
//
//go:norace
func firstDiff(b []byte, id uint64, ver uint32) int {
	x := patSeed(id, ver)
	i := 0
	for ; i+8 <= len(b); i += 8 {
		if binary.LittleEndian.Uint64(b[i:]) != x {
			for j := 0; j < 8; j++ {
				if b[i+j] != byte(x>>(8*uint(j))) {
					return i + j
				}
			}
		}
		x += 0x9e3779b97f4a7c15
	}
	for ; i < len(b); i++ {
		if b[i] != byte(x) {
			return i
		}
		x >>= 8
	}
	return -1
}

// rawHdr reads the three words of the slice header behind p as plain integers.  len() and cap() must
// not be used to judge a header: the compiler knows len <= cap for every slice and removes a
// "cap(s) < n" test that follows "len(s) == n" (seen with a mutant that returned cap 72 for len 73).
//
//go:noinline
func rawHdr(p *[]byte) (data uintptr, ln, cp int) {
	h := (*[3]uintptr)(unsafe.Pointer(p))
	return h[0], int(h[1]), int(h[2])
}

// ---------------------------------------------------------------------------------------------
// model

type alloc struct {
	id    uint64
	p     *[]byte // what Malloc returned / what the relocate callback announced
	hdr   uintptr // address of the slice header (= p)
	data  uintptr // address of the bytes
	size  int     // requested length
	cap   int     // capacity seen when the allocation was obtained
	ver   uint32  // pattern version last written
	idx   int     // position in owner.live
	moved int     // relocate callbacks during the current defragmentation
}

// the storage an allocation depends on: its slice header and cap bytes of data
func (a *alloc) ranges() [][2]uintptr {
	h := [2]uintptr{a.hdr, a.hdr + uintptr(HdrLen)}
	if a.cap == 0 {
		return [][2]uintptr{h}
	}
	d := [2]uintptr{a.data, a.data + uintptr(a.cap)}
	if h[1] == d[0] {
		return [][2]uintptr{{h[0], d[1]}}
	}
	return [][2]uintptr{h, d}
}

func (a *alloc) String() string {
	return fmt.Sprintf("#%d.%d(size %d, cap %d, hdr %#x, data %#x)", a.id>>40, a.id&(1<<40-1), a.size, a.cap, a.hdr, a.data)
}

// interval set over addresses, bucketed by 4 KiB; an interval is entered in every bucket it touches
type ival struct {
	lo, hi uintptr
	a      *alloc
}

const bshift = 12

type iset struct{ b map[uintptr][]ival }

func newIset() *iset { return &iset{b: map[uintptr][]ival{}} }

func (s *iset) find(lo, hi uintptr) *alloc {
	for k := lo >> bshift; k <= (hi-1)>>bshift; k++ {
		for _, e := range s.b[k] {
			if e.lo < hi && lo < e.hi {
				return e.a
			}
		}
	}
	return nil
}

// addAlloc enters a's ranges; it returns the live allocation one of them overlaps, if any
func (s *iset) addAlloc(a *alloc) *alloc {
	rs := a.ranges()
	for _, r := range rs {
		if x := s.find(r[0], r[1]); x != nil {
			return x
		}
	}
	for _, r := range rs {
		for k := r[0] >> bshift; k <= (r[1]-1)>>bshift; k++ {
			s.b[k] = append(s.b[k], ival{r[0], r[1], a})
		}
	}
	return nil
}

func (s *iset) delAlloc(a *alloc) {
	for _, r := range a.ranges() {
		for k := r[0] >> bshift; k <= (r[1]-1)>>bshift; k++ {
			l := s.b[k]
			for i := range l {
				if l[i].a == a && l[i].lo == r[0] {
					l[i] = l[len(l)-1]
					l = l[:len(l)-1]
					break
				}
			}
			if len(l) == 0 {
				delete(s.b, k)
			} else {
				s.b[k] = l
			}
		}
	}
}

type owner struct {
	g             int
	live          []*alloc
	liveBytes     int64
	next          uint64
	lastFreedSize int
	freedCaps     map[int]struct{}
	freedAddrs    map[uintptr]struct{}
	st            Stats
	viol          string
	incon         string
}

type world struct {
	A         *memory.Allocator
	maxShared int // largest request served from shared pages
	strict    bool
	ve        int
	owners    []*owner
	set       *iset // strict: always maintained; otherwise only while defragmenting
	step      int64
	st        Stats
}

// ---------------------------------------------------------------------------------------------
// single operations (run by the owning goroutine)

func (w *world) checkHeader(a *alloc) string {
	data, ln, cp := rawHdr(a.p)
	if ln != a.size {
		return fmt.Sprintf("live allocation %v: len is now %d", a, ln)
	}
	if cp < a.size {
		return fmt.Sprintf("live allocation %v: cap is now %d < len", a, cp)
	}
	if data != a.data {
		return fmt.Sprintf("live allocation %v: data pointer is now %#x without a relocation", a, data)
	}
	return ""
}

func (w *world) checkAlloc(a *alloc) string {
	if m := w.checkHeader(a); m != "" {
		return m
	}
	if d := firstDiff(*a.p, a.id, a.ver); d >= 0 {
		return fmt.Sprintf("live allocation %v no longer holds the bytes last written to it (first difference at offset %d)", a, d)
	}
	return ""
}

func (w *world) verifyOwner(o *owner) string {
	for _, a := range o.live {
		if m := w.checkAlloc(a); m != "" {
			return m
		}
	}
	return ""
}

func (w *world) malloc(o *owner, size int) string {
	p := w.A.Malloc(size)
	if p == nil {
		o.incon = fmt.Sprintf("Malloc(%d) returned nil (the OS refused memory)", size)
		return ""
	}
	data, ln, cp := rawHdr(p)
	if ln != size {
		return fmt.Sprintf("Malloc(%d) returned a slice of len %d", size, ln)
	}
	if cp < size {
		return fmt.Sprintf("Malloc(%d) returned a slice of cap %d", size, cp)
	}
	s := *p
	a := &alloc{id: uint64(o.g)<<40 | o.next, p: p, hdr: uintptr(unsafe.Pointer(p)), data: data, size: size, cap: cp, idx: len(o.live)}
	o.next++
	o.st.Mallocs++
	if size > w.maxShared {
		o.st.Private++
	}
	if _, ok := o.freedCaps[a.cap]; ok {
		o.st.SameClassReuse++
	}
	if _, ok := o.freedAddrs[a.hdr]; ok {
		o.st.AddrReuse++
		delete(o.freedAddrs, a.hdr)
	}
	if w.strict {
		if x := w.set.addAlloc(a); x != nil {
			return fmt.Sprintf("Malloc(%d) returned %v which overlaps the live allocation %v", size, a, x)
		}
	}
	fill(s, a.id, 0)
	o.live = append(o.live, a)
	o.liveBytes += int64(a.cap + HdrLen)
	if n := int64(len(o.live)); n > o.st.MaxLive {
		o.st.MaxLive = n
	}
	if o.liveBytes > o.st.MaxLiveBytes {
		o.st.MaxLiveBytes = o.liveBytes
	}
	if w.strict {
		if got := w.A.Allocs.Load(); got != int64(len(o.live)) {
			return fmt.Sprintf("after Malloc: Allocs = %d, live = %d", got, len(o.live))
		}
	}
	return ""
}

func (w *world) free(o *owner, a *alloc) string {
	if m := w.checkAlloc(a); m != "" {
		return "on free: " + m
	}
	if w.strict {
		w.set.delAlloc(a)
	}
	last := o.live[len(o.live)-1]
	o.live[a.idx] = last
	last.idx = a.idx
	o.live = o.live[:len(o.live)-1]
	o.liveBytes -= int64(a.cap + HdrLen)
	o.lastFreedSize = a.size
	o.freedCaps[a.cap] = struct{}{}
	if len(o.freedAddrs) < 1<<20 {
		o.freedAddrs[a.hdr] = struct{}{}
	}
	w.A.Free(a.p)
	o.st.Frees++
	if w.strict {
		if got := w.A.Allocs.Load(); got != int64(len(o.live)) {
			return fmt.Sprintf("after Free: Allocs = %d, live = %d", got, len(o.live))
		}
	}
	return ""
}

func (w *world) bulk(o *owner, e Op) string {
	o.st.Bulks++
	first := len(o.live)
	x := e.S
	for i := 0; i < e.B; i++ {
		size := e.A
		if e.D > 0 {
			x = mix(x)
			size -= int(x % uint64(e.D+1))
		}
		if size < 0 {
			size = 0
		}
		if m := w.malloc(o, size); m != "" || o.incon != "" {
			return m
		}
	}
	// free C percent of the B new allocations, chosen and ordered by the prng
	mine := make([]*alloc, e.B)
	copy(mine, o.live[first:])
	k := e.B * e.C / 100
	for i := 0; i < k; i++ {
		x = mix(x)
		j := i + int(x%uint64(e.B-i))
		mine[i], mine[j] = mine[j], mine[i]
		if m := w.free(o, mine[i]); m != "" {
			return m
		}
	}
	return ""
}

func (w *world) exec(o *owner, e Op) string {
	switch e.K {
	case "m":
		return w.malloc(o, e.A)
	case "r":
		size := o.lastFreedSize
		if size < 0 {
			size = 64
		}
		return w.malloc(o, size)
	case "f":
		if len(o.live) == 0 {
			return ""
		}
		return w.free(o, o.live[e.A%len(o.live)])
	case "w":
		if len(o.live) == 0 {
			return ""
		}
		a := o.live[e.A%len(o.live)]
		if m := w.checkAlloc(a); m != "" {
			return "before overwrite: " + m
		}
		a.ver++
		fill(*a.p, a.id, a.ver)
		o.st.Rewrites++
	case "v":
		return w.verifyOwner(o)
	case "y":
		runtime.Gosched()
	case "b":
		if e.B > 0 {
			return w.bulk(o, e)
		}
	case "x":
		x := e.S
		n := len(o.live)
		for k := n * e.C / 100; k > 0 && len(o.live) > 0; k-- {
			x = mix(x)
			if m := w.free(o, o.live[x%uint64(len(o.live))]); m != "" {
				return m
			}
		}
	}
	return ""
}

// ---------------------------------------------------------------------------------------------
// global invariants (all goroutines joined)

func (w *world) nlive() (n int, bytes int64) {
	for _, o := range w.owners {
		n += len(o.live)
		bytes += o.liveBytes
	}
	return
}

// headersOnly: len / cap / data pointer of every live slice
func (w *world) checkHeaders() string {
	for _, o := range w.owners {
		for _, a := range o.live {
			if m := w.checkHeader(a); m != "" {
				return m
			}
		}
	}
	return ""
}

func (w *world) checkCounters() string {
	n, bytes := w.nlive()
	if got := w.A.Allocs.Load(); got != int64(n) {
		return fmt.Sprintf("Allocs = %d, but %d allocations are live", got, n)
	}
	// "Bytes: asked from OS" can never be less than the storage of the live, pairwise disjoint allocations
	if got := w.A.Bytes.Load(); got < bytes {
		return fmt.Sprintf("Bytes = %d, but the live allocations occupy %d bytes", got, bytes)
	}
	return ""
}

func (w *world) checkDisjoint() string {
	n, _ := w.nlive()
	l := make([]ival, 0, n)
	for _, o := range w.owners {
		for _, a := range o.live {
			for _, r := range a.ranges() {
				l = append(l, ival{r[0], r[1], a})
			}
		}
	}
	sort.Slice(l, func(i, j int) bool { return l[i].lo < l[j].lo })
	for i := 1; i < len(l); i++ {
		if l[i].lo < l[i-1].hi {
			return fmt.Sprintf("live allocations %v and %v overlap", l[i-1].a, l[i].a)
		}
	}
	return ""
}

func (w *world) fullVerify() string {
	w.st.FullVerifies++
	for _, o := range w.owners {
		if m := w.verifyOwner(o); m != "" {
			return m
		}
	}
	if m := w.checkDisjoint(); m != "" {
		return m
	}
	return w.checkCounters()
}

// ---------------------------------------------------------------------------------------------
// defragmentation (exclusive: called with every goroutine joined)

func (w *world) defrag() string {
	w.st.Defrags++
	n, _ := w.nlive()
	byHdr := make(map[uintptr]*alloc, n)
	set := w.set
	if !w.strict {
		set = newIset()
	}
	for _, o := range w.owners {
		for _, a := range o.live {
			a.moved = 0
			byHdr[a.hdr] = a
			if !w.strict {
				if x := set.addAlloc(a); x != nil {
					return fmt.Sprintf("live allocations %v and %v overlap", x, a)
				}
			}
		}
	}
	var mu sync.Mutex // the allocator calls back from one goroutine per size class
	var cbErr string
	var callbacks int64
	cnt := w.A.DefragAllImproved(func(oldp, newp *[]byte) {
		mu.Lock()
		defer mu.Unlock()
		callbacks++
		if cbErr != "" {
			return
		}
		oh, nh := uintptr(unsafe.Pointer(oldp)), uintptr(unsafe.Pointer(newp))
		a := byHdr[oh]
		if a == nil {
			cbErr = fmt.Sprintf("relocate callback with old = %#x, which is not the address of a live allocation (moved twice or never allocated)", oh)
			return
		}
		// until the callback returns the owner still uses the old slice (the client's callback
		// reads the record key from it): it is live and must hold its bytes
		if _, oln, _ := rawHdr(oldp); oln != a.size {
			cbErr = fmt.Sprintf("relocate callback: old slice of %v has len %d", a, oln)
			return
		}
		os := *oldp
		k := a.size
		if k > 8 {
			k = 8
		}
		if d := firstDiff(os[:k], a.id, a.ver); d >= 0 {
			cbErr = fmt.Sprintf("relocate callback: old slice of %v does not hold its bytes any more (offset %d)", a, d)
			return
		}
		ndata, nln, ncp := rawHdr(newp)
		if nln != a.size {
			cbErr = fmt.Sprintf("relocate callback: new slice for %v has len %d", a, nln)
			return
		}
		if ncp < a.size {
			cbErr = fmt.Sprintf("relocate callback: new slice for %v has cap %d", a, ncp)
			return
		}
		ns := *newp
		if d := firstDiff(ns, a.id, a.ver); d >= 0 {
			cbErr = fmt.Sprintf("relocate callback: new slice (hdr %#x) for %v does not hold the old contents (first difference at offset %d)", nh, a, d)
			return
		}
		delete(byHdr, oh)
		set.delAlloc(a)
		old := a.String()
		a.p, a.hdr, a.data, a.cap = newp, nh, ndata, ncp
		if x := set.addAlloc(a); x != nil {
			cbErr = fmt.Sprintf("relocate callback: %s moved to %v, which overlaps the live allocation %v", old, a, x)
			return
		}
		byHdr[nh] = a
		a.moved++
	})
	if cbErr != "" {
		return cbErr
	}
	w.st.Moved += callbacks
	if callbacks > 0 {
		w.st.DefragsMoved++
	}
	if int64(cnt) != callbacks {
		w.st.CntMismatch++
	}
	// the model's byte counts follow the capacities announced by the callbacks
	for _, o := range w.owners {
		o.liveBytes = 0
		for _, a := range o.live {
			o.liveBytes += int64(a.cap + HdrLen)
		}
	}
	// every allocation without a callback must still be where it was, untouched; every moved one at its new place
	return w.fullVerify()
}

// ---------------------------------------------------------------------------------------------
// running a history

func newOwner(g int) *owner {
	return &owner{g: g, lastFreedSize: -1, freedCaps: map[int]struct{}{}, freedAddrs: map[uintptr]struct{}{}}
}

func (w *world) runSeqRound(o *owner, ops []Op) string {
	for _, e := range ops {
		w.step++
		if m := w.exec(o, e); m != "" {
			return fmt.Sprintf("step %d (%s): %s", w.step, e.K, m)
		}
		if o.incon != "" {
			return ""
		}
		// after every step: counters; headers while the live set is small; everything every VE steps
		if m := w.checkCounters(); m != "" {
			return fmt.Sprintf("after step %d (%s): %s", w.step, e.K, m)
		}
		if w.step%int64(w.ve) == 0 {
			if m := w.fullVerify(); m != "" {
				return fmt.Sprintf("after step %d (%s): %s", w.step, e.K, m)
			}
		} else if len(o.live) <= 4096 {
			if m := w.checkHeaders(); m != "" {
				return fmt.Sprintf("after step %d (%s): %s", w.step, e.K, m)
			}
		}
	}
	return ""
}

func RunHistory(c *Case) (res Result) {
	if c.Procs > 0 {
		runtime.GOMAXPROCS(c.Procs)
	}
	w := &world{A: memory.NewAllocator(), strict: c.Mode == "seq", ve: c.VE}
	w.maxShared = w.A.MaxSharedSize - HdrLen
	if w.ve < 1 {
		w.ve = 1
	}
	ng := 1
	for _, r := range c.Rounds {
		if len(r.G) > ng {
			ng = len(r.G)
		}
	}
	if w.strict {
		ng = 1
		w.set = newIset()
	}
	for g := 0; g < ng; g++ {
		w.owners = append(w.owners, newOwner(g))
	}
	defer func() {
		for _, o := range w.owners {
			s := &res.Stats
			s.Mallocs += o.st.Mallocs
			s.Frees += o.st.Frees
			s.Rewrites += o.st.Rewrites
			s.Private += o.st.Private
			s.SameClassReuse += o.st.SameClassReuse
			s.AddrReuse += o.st.AddrReuse
			s.Bulks += o.st.Bulks
		}
		res.Stats.Steps = w.step
		res.Stats.Defrags, res.Stats.DefragsMoved, res.Stats.Moved = w.st.Defrags, w.st.DefragsMoved, w.st.Moved
		res.Stats.CntMismatch, res.Stats.FullVerifies = w.st.CntMismatch, w.st.FullVerifies
		res.Stats.MaxLive, res.Stats.MaxLiveBytes = w.st.MaxLive, w.st.MaxLiveBytes
		res.Stats.Goroutines = ng
	}()
	track := func() {
		n, b := w.nlive()
		if int64(n) > w.st.MaxLive {
			w.st.MaxLive = int64(n)
		}
		if b > w.st.MaxLiveBytes {
			w.st.MaxLiveBytes = b
		}
	}
	for ri, r := range c.Rounds {
		if w.strict {
			if len(r.G) > 0 {
				if m := w.runSeqRound(w.owners[0], r.G[0]); m != "" {
					res.Violation = fmt.Sprintf("Round %d: %s", ri, m)
					return
				}
			}
			if o := w.owners[0]; o.st.MaxLive > w.st.MaxLive {
				w.st.MaxLive, w.st.MaxLiveBytes = o.st.MaxLive, o.st.MaxLiveBytes
			}
		} else {
			var wg sync.WaitGroup
			for g := range r.G {
				wg.Add(1)
				go func(o *owner, ops []Op) {
					defer wg.Done()
					for i, e := range ops {
						if m := w.exec(o, e); m != "" {
							o.viol = fmt.Sprintf("goroutine %d op %d (%s): %s", o.g, i, e.K, m)
							return
						}
						if o.incon != "" {
							return
						}
					}
				}(w.owners[g], r.G[g])
			}
			wg.Wait()
			for g := range r.G {
				w.step += int64(len(r.G[g]))
			}
		}
		for _, o := range w.owners {
			if o.viol != "" {
				res.Violation = fmt.Sprintf("Round %d: %s", ri, o.viol)
				return
			}
		}
		for _, o := range w.owners {
			if o.incon != "" {
				res.Inconclusive = o.incon
				return
			}
		}
		track()
		if m := w.fullVerify(); m != "" {
			res.Violation = fmt.Sprintf("Round %d, after the join: %s", ri, m)
			return
		}
		if r.Defrag {
			if m := w.defrag(); m != "" {
				res.Violation = fmt.Sprintf("Round %d, defragmentation: %s", ri, m)
				return
			}
		}
	}
	return
}

func RunProbe() (res Result) {
	a := memory.NewAllocator()
	res.MaxShared = a.MaxSharedSize - HdrLen
	prev := -1
	for s := 0; s <= ProbeMax+1; s++ {
		p := a.Malloc(s)
		if p == nil {
			res.Inconclusive = "probe: Malloc returned nil"
			return
		}
		_, _, c := rawHdr(p)
		a.Free(p)
		if prev >= 0 && c != prev {
			res.Bounds = append(res.Bounds, s-1)
		}
		prev = c
	}
	return
}

// CPULimit is the child's own CPU-time limit in seconds (RLIMIT_CPU): a history normally needs a few
// CPU seconds; a child spinning in a corrupted list must not stall the campaign.  CPU time, unlike
// wall time, does not depend on how busy the machine is.
const CPULimit = 40

func ChildMain() {
	syscall.Setrlimit(syscall.RLIMIT_CPU, &syscall.Rlimit{Cur: CPULimit, Max: CPULimit + 5})
	in, err := io.ReadAll(os.Stdin)
	var c Case
	if err == nil {
		err = json.Unmarshal(in, &c)
	}
	var res Result
	switch {
	case err != nil:
		res.Inconclusive = "child: cannot read the case: " + err.Error()
	case c.Mode == "probe":
		res = RunProbe()
	default:
		res = RunHistory(&c)
	}
	out, _ := json.Marshal(res)
	fmt.Printf("\nRESULT %s\n", out)
	os.Exit(0)
}
