package c20

// C20 - the UTXO memory allocator (lib/others/memory) never corrupts or aliases live data.
//
// Parent side: rapid generates a history as pure data (engine.Case); a child process
// (props/c20/child, built by the driver as .build/c20child and .build/c20child.race) runs it
// against a fresh allocator and a model (props/c20/engine) and answers with one RESULT line.
// A child that dies without one (SIGSEGV, SIGBUS, runtime "fatal error", race-detector report)
// is a violation whose replay is the case.  The parent never touches the allocator itself.

import (
	"bytes"
	"context"
	"encoding/json"
	"fmt"
	"os"
	"os/exec"
	"path/filepath"
	"strings"
	"sync"
	"syscall"
	"testing"
	"time"

	"pgregory.net/rapid"
	"verif/pbt"
	"verif/props/c20/engine"
	"verif/props/c20/uiengine"
)

func TestMain(m *testing.M) {
	pbt.RegisterReplay("seq", func(raw json.RawMessage) error { return replay(raw, 1) })
	pbt.RegisterReplay("probe", func(raw json.RawMessage) error { return replay(raw, 1) })
	// a concurrent failure depends on the schedule: give it some attempts
	pbt.RegisterReplay("conc", func(raw json.RawMessage) error { return replay(raw, 12) })
	pbt.RegisterReplay("ui", func(raw json.RawMessage) error {
		var c uiengine.Case
		if err := json.Unmarshal(raw, &c); err != nil {
			return err
		}
		for i := 0; i < 3; i++ { // the structural part is deterministic, the damage of a real overlap is not
			_, v, inc := runUI(&c)
			if v != "" {
				return fmt.Errorf("%s", v)
			}
			if inc != "" {
				return fmt.Errorf("inconclusive: %s", inc)
			}
		}
		return nil
	})
	pbt.Main(m, "C20")
}

func replay(raw json.RawMessage, attempts int) error {
	var c engine.Case
	if err := json.Unmarshal(raw, &c); err != nil {
		return err
	}
	for i := 0; i < attempts; i++ {
		o := runChild(&c)
		if o.violation != "" {
			return fmt.Errorf("%s", o.violation)
		}
		if o.inconclusive != "" {
			return fmt.Errorf("inconclusive: %s", o.inconclusive)
		}
	}
	return nil
}

// ---------------------------------------------------------------------------------------------
// child processes

type outcome struct {
	cpu          time.Duration
	violation    string
	inconclusive string
	res          engine.Result
}

const childTimeout = 15 * time.Minute // safety net only (a normal history takes well under 10 s)

var (
	binOnce sync.Once
	binErr  string
	binDir  string
)

// childBinary returns the path of a child executable: "c20child" (plain), "c20child.race"
// (race-instrumented) or "c20ui" (the text-UI wiring child).  Under ./check they are built
// beforehand (check.json extra_builds); run by hand they are built here.
func childBinary(name string) (string, string) {
	binOnce.Do(func() {
		all := map[string][]string{
			"c20child":      {"verif/props/c20/child"},
			"c20child.race": {"-race", "verif/props/c20/child"},
			"c20ui":         {"verif/props/c20/uichild"},
		}
		binDir = os.Getenv("VERIF_BUILD")
		if binDir != "" {
			ok := true
			for n := range all {
				if _, err := os.Stat(filepath.Join(binDir, n)); err != nil {
					ok = false
				}
			}
			if ok {
				return
			}
		}
		dir, err := os.MkdirTemp("", "c20child")
		if err != nil {
			binErr = err.Error()
			return
		}
		binDir = dir
		for n, extra := range all {
			args := append([]string{"build", "-tags", "verif", "-o", filepath.Join(dir, n)}, extra...)
			if out, err := exec.Command("go", args...).CombinedOutput(); err != nil {
				binErr = fmt.Sprintf("cannot build the child %s: %v\n%s", n, err, out)
				return
			}
		}
	})
	return filepath.Join(binDir, name), binErr
}

func headTail(b []byte, h, t int) string {
	if len(b) <= h+t {
		return string(b)
	}
	return string(b[:h]) + "\n[...]\n" + string(b[len(b)-t:])
}

func tail(b []byte, n int) string {
	if len(b) > n {
		b = b[len(b)-n:]
	}
	return string(b)
}

func runChild(c *engine.Case) (o outcome) {
	name := "c20child"
	race := c.Race
	if v := os.Getenv("C20_FORCE_RACE"); v != "" { // dev knob for the sensitivity runs (MUTANTS.md)
		race = v == "1"
	}
	if race {
		name = "c20child.race"
	}
	in, err := json.Marshal(c)
	if err != nil {
		o.inconclusive = "cannot serialise the case: " + err.Error()
		return
	}
	var line []byte
	o, line = launch(name, in, engine.CPULimit)
	if line != nil {
		if err := json.Unmarshal(line, &o.res); err != nil {
			o.inconclusive = "unreadable RESULT line: " + err.Error()
			return
		}
		o.violation, o.inconclusive = o.res.Violation, o.res.Inconclusive
	}
	return
}

// launch runs one child on one case; it returns the RESULT line, or the classification of a child
// that ended without one.
func launch(name string, in []byte, cpuLimit int) (o outcome, result []byte) {
	bin, berr := childBinary(name)
	if berr != "" {
		o.inconclusive = berr
		return
	}
	ctx, cancel := context.WithTimeout(context.Background(), childTimeout)
	defer cancel()
	cmd := exec.CommandContext(ctx, bin)
	var env []string
	for _, e := range os.Environ() {
		switch strings.SplitN(e, "=", 2)[0] {
		case "GORACE", "GOMAXPROCS", "GOTRACEBACK", "GOGC", "GODEBUG":
		default:
			env = append(env, e)
		}
	}
	cmd.Env = append(env, "GORACE=halt_on_error=1 exitcode=66", "GOTRACEBACK=single")
	cmd.Stdin = bytes.NewReader(in)
	var stdout, stderr bytes.Buffer
	cmd.Stdout, cmd.Stderr = &stdout, &stderr
	runErr := cmd.Run()
	if cmd.ProcessState != nil {
		o.cpu = cmd.ProcessState.UserTime() + cmd.ProcessState.SystemTime()
	}
	if i := bytes.LastIndex(stdout.Bytes(), []byte("\nRESULT ")); i >= 0 && runErr == nil {
		line := stdout.Bytes()[i+8:]
		if j := bytes.IndexByte(line, '\n'); j >= 0 {
			line = line[:j]
		}
		return o, append([]byte(nil), line...)
	}
	// no verdict from the child: it died
	errTxt := headTail(stderr.Bytes(), 2500, 500) // the fault and the faulting goroutine come first
	switch {
	case ctx.Err() != nil:
		o.inconclusive = "child hit the safety timeout"
		return
	case cmd.ProcessState == nil:
		o.inconclusive = fmt.Sprintf("child could not be started: %v", runErr)
		return
	}
	if o.cpu >= time.Duration(cpuLimit-2)*time.Second {
		o.inconclusive = fmt.Sprintf("child used up its CPU limit of %d s (%v) - spinning?", cpuLimit, cmd.ProcessState)
		return
	}
	if ws, ok := cmd.ProcessState.Sys().(syscall.WaitStatus); ok && ws.Signaled() && ws.Signal() == syscall.SIGKILL {
		o.inconclusive = "child was killed (SIGKILL: out-of-memory killer or an outside hand)"
		return
	}
	if strings.Contains(errTxt, "out of memory") || strings.Contains(errTxt, "cannot allocate memory") {
		o.inconclusive = "child ran out of memory: " + tail(stderr.Bytes(), 300)
		return
	}
	if cmd.ProcessState.ExitCode() == 66 || strings.Contains(errTxt, "WARNING: DATA RACE") {
		o.violation = "data race reported by the Go race detector in a history that respects the allocator's contract:\n" + errTxt
		return
	}
	o.violation = fmt.Sprintf("child process died without a verdict (%v):\n%s", cmd.ProcessState, errTxt)
	return
}

// ---------------------------------------------------------------------------------------------
// the size-class table, derived from the code's behaviour by a probe child

type table struct {
	bounds    []int // every size s in 0..200 KiB with cap(Malloc(s+1)) != cap(Malloc(s))
	shared    []int // those served from shared pages (one per size class: the largest request of the class)
	maxShared int
}

var (
	tblOnce      sync.Once
	tbl          table
	tblErr       string
	tblViolation string
)

func classTable(t testing.TB) *table {
	tblOnce.Do(func() {
		o := runChild(&engine.Case{Mode: "probe"})
		if o.violation != "" {
			// the probe is a history of its own (Malloc(s) then Free, one record at a time, for every size from 0 up):
			// an allocator that dies or misbehaves on it violates the property - report it as such
			tblViolation = "size-class probe (Malloc(s) followed by Free, for every s from 0 to " + fmt.Sprint(engine.ProbeMax+1) + ", one record live at a time): " + o.violation
			return
		}
		if o.inconclusive != "" {
			tblErr = "probe child failed: " + o.inconclusive
			return
		}
		tbl.bounds, tbl.maxShared = o.res.Bounds, o.res.MaxShared
		for _, b := range tbl.bounds {
			if b <= tbl.maxShared {
				tbl.shared = append(tbl.shared, b)
			}
		}
		if len(tbl.shared) < 2 || len(tbl.bounds) == len(tbl.shared) {
			tblErr = fmt.Sprintf("probe: implausible class table %v (max shared %d)", tbl.bounds, tbl.maxShared)
			return
		}
		pbt.Note("size classes derived by probing: %d shared (largest request %d), %d private rounding steps up to %d; boundaries %v",
			len(tbl.shared), tbl.maxShared, len(tbl.bounds)-len(tbl.shared), engine.ProbeMax, tbl.bounds)
	})
	if tblViolation != "" {
		pbt.Direct{Name: "probe"}.Fail(t, &engine.Case{Mode: "probe"}, "%s", tblViolation)
		t.FailNow()
	}
	if tblErr != "" {
		t.Fatalf("%s", tblErr)
	}
	return &tbl
}

// ---------------------------------------------------------------------------------------------
// generators

// uni draws lo..hi uniformly.  rapid's own integer generators favour small magnitudes (good for sizes
// and shrinking, bad for "how many pages" and "which percentage"); the draw is still a pure function
// of rapid's bit stream.
func uni(t *rapid.T, label string, lo, hi int) int {
	x := rapid.Uint64().Draw(t, label) + 0x9e3779b97f4a7c15
	x = (x ^ x>>30) * 0xbf58476d1ce4e5b9
	x = (x ^ x>>27) * 0x94d049bb133111eb
	x ^= x >> 31
	return lo + int(x%uint64(hi-lo+1))
}

func genSize(t *rapid.T, tb *table, hot []int) int {
	if len(hot) > 0 && rapid.IntRange(0, 99).Draw(t, "usehot") < 60 {
		return hot[rapid.IntRange(0, len(hot)-1).Draw(t, "hot")]
	}
	k := rapid.IntRange(0, 99).Draw(t, "skind")
	switch {
	case k < 45: // a class boundary, one below, one above
		b := 0 // the empty request is a boundary too
		if i := rapid.IntRange(-1, len(tb.bounds)-1).Draw(t, "bound"); i >= 0 {
			b = tb.bounds[i]
		}
		s := b + rapid.SampledFrom([]int{-1, 0, 0, 1}).Draw(t, "delta")
		if s < 0 {
			s = 0
		}
		if s > engine.ProbeMax {
			s = engine.ProbeMax
		}
		return s
	case k < 65:
		return rapid.IntRange(0, 300).Draw(t, "small")
	case k < 85: // anywhere inside a class
		i := rapid.IntRange(0, len(tb.bounds)-1).Draw(t, "cls")
		lo := 0
		if i > 0 {
			lo = tb.bounds[i-1] + 1
		}
		return rapid.IntRange(lo, tb.bounds[i]).Draw(t, "within")
	case k < 95:
		return rapid.IntRange(300, 20000).Draw(t, "medium")
	default: // the private-mapping path
		return rapid.IntRange(tb.maxShared+1, engine.ProbeMax).Draw(t, "private")
	}
}

func genOp(t *rapid.T, tb *table, hot []int, conc bool) engine.Op {
	k := rapid.IntRange(0, 99).Draw(t, "op")
	switch {
	case k < 42:
		return engine.Op{K: "m", A: genSize(t, tb, hot)}
	case k < 50:
		return engine.Op{K: "r"}
	case k < 82:
		return engine.Op{K: "f", A: uni(t, "idx", 0, 1<<20)}
	case k < 92:
		return engine.Op{K: "w", A: uni(t, "idx", 0, 1<<20)}
	case k < 95:
		return engine.Op{K: "v"}
	case k < 96: // mass free: fragments whatever is held, also what an earlier defragmentation has moved
		return engine.Op{K: "x", C: uni(t, "pct", 10, 95), S: rapid.Uint64().Draw(t, "seed")}
	case conc:
		return engine.Op{K: "y"}
	default:
		return engine.Op{K: "v"}
	}
}

func genOps(t *rapid.T, tb *table, hot []int, conc bool, lo, hi int) []engine.Op {
	n := rapid.IntRange(lo, hi).Draw(t, "nops") // rapid's own generator: shrinks towards short lists
	ops := make([]engine.Op, n)
	for i := range ops {
		ops[i] = genOp(t, tb, hot, conc)
	}
	return ops
}

// the class of a bulk phase: any class, with more weight on the larger slots (fewer slots per page,
// so that the many-slot classes do not eat the whole budget)
func genBulkClass(t *rapid.T, tb *table) int {
	n := len(tb.shared)
	if uni(t, "anyclass", 0, 9) < 3 {
		return uni(t, "bulkclass", 0, n-1)
	}
	return uni(t, "bulkclass", n*2/5, n-1)
}

// a bulk phase in one shared class: pages worth of allocations, pct percent of them freed.
// The defragmentation of a class starts above 12 pages worth of free slots.
func genBulk(t *rapid.T, tb *table, cls int, share int) engine.Op {
	b := tb.shared[cls]
	lo := 0
	if cls > 0 {
		lo = tb.shared[cls-1] + 1
	}
	perPage := (1 << 20) / (b + engine.HdrLen)
	var pages, pct int
	if uni(t, "intent", 0, 9) < 7 {
		pages, pct = uni(t, "pages", 16, 36), uni(t, "pct", 60, 95)
	} else { // arbitrary fragmentation level, mostly below the threshold
		pages, pct = uni(t, "pages", 1, 36), uni(t, "pct", 0, 100)
	}
	n := pages*perPage + uni(t, "slack", -perPage/2, perPage/2)
	n /= share
	if n < 1 {
		n = 1
	}
	d := b - lo
	if d > 8 {
		d = 8
	}
	return engine.Op{K: "b", A: b, B: n, C: pct, D: uni(t, "spread", 0, d), S: rapid.Uint64().Draw(t, "seed")}
}

func insertAt(l []engine.Op, pos int, e engine.Op) []engine.Op {
	pos %= len(l) + 1
	l = append(l, engine.Op{})
	copy(l[pos+1:], l[pos:])
	l[pos] = e
	return l
}

func genSeq(t *rapid.T, tb *table) engine.Case {
	c := engine.Case{Mode: "seq", Procs: []int{1, 2, 4, 16}[uni(t, "procs", 0, 3)]}
	nr := uni(t, "rounds", 1, 4)
	hi := []int{40, 400, 1200, 1200}[uni(t, "maxops", 0, 3)]
	// at most two bulk phases per history (each is tens of MB)
	bulkAt := map[int]bool{}
	for i, nb := 0, []int{0, 1, 1, 2}[uni(t, "nbulk", 0, 3)]; i < nb; i++ {
		bulkAt[uni(t, "bulkround", 0, nr-1)] = true
	}
	bulk := false
	// hot sizes: a few random ones plus the classes of the bulk phases from that round on, so that the
	// slots of fragmented (and later of defragmented) pages are reused by single operations too
	hot := make([]int, rapid.IntRange(0, 3).Draw(t, "nhot"))
	for i := range hot {
		hot[i] = genSize(t, tb, nil)
	}
	for i := 0; i < nr; i++ {
		var b engine.Op
		if bulkAt[i] {
			b = genBulk(t, tb, genBulkClass(t, tb), 1)
			hot = append(hot, b.A, b.A-b.D)
		}
		ops := genOps(t, tb, hot, false, hi/4, hi)
		if bulkAt[i] {
			ops = insertAt(ops, uni(t, "bulkpos", 0, 1<<20), b)
			bulk = true
		}
		c.Rounds = append(c.Rounds, engine.Round{G: [][]engine.Op{ops}, Defrag: uni(t, "defrag", 0, 9) < 8})
	}
	c.VE = []int{1, 4, 16, 64}[uni(t, "ve", 0, 3)]
	if hi > 400 && c.VE < 16 {
		c.VE = 16
	}
	if bulk {
		c.VE = 64
	}
	return c
}

func genConc(t *rapid.T, tb *table) engine.Case {
	c := engine.Case{Mode: "conc", Procs: []int{1, 2, 3, 4, 8, 16, 32}[uni(t, "procs", 0, 6)], Race: uni(t, "race", 0, 1) == 1}
	ng := []int{1, 2, 2, 3, 4, 4, 5, 7, 8, 8, 11, 16, 16}[uni(t, "goroutines", 0, 12)]
	nr := uni(t, "rounds", 1, 3)
	// a few hot sizes, so that the goroutines meet in the same classes
	hot := make([]int, rapid.IntRange(1, 4).Draw(t, "nhot"))
	for i := range hot {
		hot[i] = genSize(t, tb, nil)
	}
	hi := []int{40, 200, 500}[uni(t, "maxops", 0, 2)]
	// Two shapes of bulk phase.  "split": every goroutine mallocs and frees its share on its own - the
	// goroutines run staggered, so later ones mostly reuse what earlier ones freed (contention and reuse,
	// seldom enough free slots for a defragmentation).  "fill then fragment": round 0 only fills, round 1
	// starts with a mass free in every goroutine and ends with the defragmentation.
	ftf := uni(t, "fillthenfragment", 0, 9) < 5
	if ftf && nr < 2 {
		nr = 2
	}
	for i := 0; i < nr; i++ {
		r := engine.Round{Defrag: uni(t, "defrag", 0, 9) < 8}
		bulk := uni(t, "bulk", 0, 9) < 6
		if ftf && i < 2 {
			bulk = i == 0
		}
		cls := genBulkClass(t, tb)
		for g := 0; g < ng; g++ {
			ops := genOps(t, tb, hot, true, hi/4, hi)
			if bulk { // every goroutine takes its share of a bulk phase in the same class
				b := genBulk(t, tb, cls, ng)
				if ftf {
					b.C = 0
				}
				ops = insertAt(ops, uni(t, "bulkpos", 0, 1<<20), b)
			}
			if ftf && i == 1 {
				ops = insertAt(ops, 0, engine.Op{K: "x", C: uni(t, "pct", 60, 95), S: rapid.Uint64().Draw(t, "seed")})
				r.Defrag = true
			}
			r.G = append(r.G, ops)
		}
		c.Rounds = append(c.Rounds, r)
	}
	return c
}

// ---------------------------------------------------------------------------------------------
// the two campaigns

var (
	inconMu sync.Mutex
	incon   []string
)

func judge(r *pbt.Run, c *engine.Case) {
	inconMu.Lock()
	giveUp := len(incon) >= 3
	inconMu.Unlock()
	if giveUp { // infrastructure trouble: do not burn the budget, the test fails as inconclusive below
		return
	}
	t0 := time.Now()
	o := runChild(c)
	if os.Getenv("C20_DEBUG") != "" {
		s := o.res.Stats
		fmt.Fprintf(os.Stderr, "C20DBG mode=%s race=%v ve=%d procs=%d ms=%d cpums=%d ops=%d mallocs=%d moved=%d fullv=%d maxbytes=%d g=%d\n", c.Mode, c.Race, c.VE, c.Procs,
			time.Since(t0).Milliseconds(), o.cpu.Milliseconds(), s.Steps, s.Mallocs, s.Moved, s.FullVerifies, s.MaxLiveBytes, s.Goroutines)
		for ri, rd := range c.Rounds {
			for g, l := range rd.G {
				for _, e := range l {
					if e.K == "b" || e.K == "x" {
						fmt.Fprintf(os.Stderr, "C20DBG    round %d defrag=%v g=%d %+v\n", ri, rd.Defrag, g, e)
					}
				}
			}
		}
	}
	if o.inconclusive != "" {
		// not a verdict about the allocator: remembered, the test fails without a replay file (exit 2)
		inconMu.Lock()
		incon = append(incon, o.inconclusive)
		inconMu.Unlock()
		pbt.AddExtra("inconclusive_children", 1)
		return
	}
	s := o.res.Stats
	switch {
	case s.Moved > 0:
		r.Class("defrag_moved")
	case s.Defrags > 0:
		r.Class("defrag_nothing_to_move")
	default:
		r.Class("no_defrag")
	}
	if s.SameClassReuse > 0 {
		r.Class("free_then_malloc_same_class")
	}
	if s.AddrReuse > 0 {
		r.Class("address_reused")
	}
	if s.Private > 0 {
		r.Class("private_mapping")
	}
	if s.Bulks > 0 {
		r.Class("bulk")
	}
	if c.Mode == "conc" {
		switch {
		case s.Goroutines == 1:
			r.Class("goroutines=1")
		case s.Goroutines <= 4:
			r.Class("goroutines=2..4")
		default:
			r.Class("goroutines=5..16")
		}
		if c.Procs == 1 {
			r.Class("gomaxprocs=1")
		} else {
			r.Class("gomaxprocs>1")
		}
		if c.Race {
			r.Class("race_detector_on")
		}
	}
	if s.SameClassReuse > 0 || s.Moved > 0 {
		r.NonTrivial()
	}
	pbt.AddExtra("child_cpu_ms", o.cpu.Milliseconds())
	pbt.AddExtra("ops", s.Steps)
	pbt.AddExtra("mallocs", s.Mallocs)
	pbt.AddExtra("frees", s.Frees)
	pbt.AddExtra("relocations", s.Moved)
	pbt.AddExtra("defragmentations", s.Defrags)
	pbt.AddExtra("defrag_return_value_differs_from_callbacks", s.CntMismatch)
	pbt.AddExtra("full_verifications", s.FullVerifies)
	if o.violation != "" {
		r.Failf("%s", o.violation)
	}
}

func failIfInconclusive(t *testing.T) {
	inconMu.Lock()
	defer inconMu.Unlock()
	if len(incon) > 0 {
		t.Errorf("INCONCLUSIVE (not a violation): %d child runs gave no verdict, e.g. %s", len(incon), incon[0])
		incon = nil
	}
}

func TestSequential(t *testing.T) {
	tb := classTable(t)
	pbt.Check(t, pbt.Cfg{Name: "seq", Quick: 560, Thorough: 16000}, func(r *pbt.Run) {
		c := genSeq(r.T, tb)
		r.Case(c)
		judge(r, &c)
	})
	failIfInconclusive(t)
}

func TestConcurrent(t *testing.T) {
	tb := classTable(t)
	pbt.Check(t, pbt.Cfg{Name: "conc", Quick: 280, Thorough: 8000}, func(r *pbt.Run) {
		c := genConc(r.T, tb)
		r.Case(c)
		judge(r, &c)
	})
	failIfInconclusive(t)
}

// ---------------------------------------------------------------------------------------------
// the wiring into the client: text-UI "defrag" versus the main thread's commits (see uiengine)

func runUI(c *uiengine.Case) (st uiengine.Stats, violation, inconclusive string) {
	in, err := json.Marshal(c)
	if err != nil {
		return st, "", "cannot serialise the case: " + err.Error()
	}
	o, line := launch("c20ui", in, uiengine.CPULimit)
	if line == nil {
		return st, o.violation, o.inconclusive
	}
	var res uiengine.Result
	if err := json.Unmarshal(line, &res); err != nil {
		return st, "", "unreadable RESULT line: " + err.Error()
	}
	return res.Stats, res.Violation, res.Inconclusive
}

// what the operator may type.  memDefrag lines make utxo_defrag call common.DefragUTXOMem; the others
// are commands that exist, are harmless in the harness's environment (no network, no block chain) and
// cover both kinds: executed by the UI goroutine itself (async) and queued for the main thread (sync).
var (
	uiMemDefrag = []string{"defrag mem", "defrag rec", "defrag all", "def mem", "def rec", "def all", "defrag mem map", "defrag map rec", "defrag rec bogus"}
	uiOther     = []string{"defrag", "def", "defrag map", "defrag bogus", "defrag 3", // defrag forms that only show statistics / defragment the Go maps
		"help", "h", "?", "counters", "c", "c Main", "mem", "mem gc", "mem free", "mem 100", "xyz", "", "  ", "helpme", // async
		"utxomem", "um", "um v", "utxodb", "u", "purge", "web"} // sync
)

func genUILine(t *rapid.T, pMem int) string {
	if uni(t, "linekind", 0, 99) < pMem {
		return uiMemDefrag[uni(t, "memdefrag", 0, len(uiMemDefrag)-1)]
	}
	return uiOther[uni(t, "other", 0, len(uiOther)-1)]
}

func genUI(t *rapid.T) (c uiengine.Case, fill bool) {
	c.Procs = []int{1, 2, 4, 16}[uni(t, "procs", 0, 3)]
	n := rapid.IntRange(2, 8).Draw(t, "steps")
	// most cases fill one size class and spend most of it again, so that a defragmentation has work to do
	fillAt := -1
	if uni(t, "fill", 0, 9) < 7 {
		fillAt = uni(t, "fillat", 0, n-2)
		fill = true
	}
	for i := 0; i < n; i++ {
		s := uiengine.Step{Seed: rapid.Uint64().Draw(t, "seed")}
		switch {
		case i == fillAt:
			s.Size = []int{60, 200, 600, 2000, 6000}[uni(t, "fillsize", 0, 4)]
			s.Spread = uni(t, "spread", 0, 8)
			s.Outs = 1
			s.Add = uni(t, "fillmb", 15, 30) << 20 / (s.Size + 70)
			s.Del = uni(t, "del", 0, 20)
		case i == fillAt+1 && fillAt >= 0:
			s.Add = uni(t, "add", 0, 200)
			s.Size = rapid.IntRange(1, 10000).Draw(t, "size")
			s.Outs = uni(t, "outs", 1, 3)
			s.Del, s.Partial = uni(t, "del", 60, 95), uni(t, "partial", 0, 20)
		default:
			s.Add = rapid.IntRange(0, 400).Draw(t, "add")
			s.Size = rapid.IntRange(1, 10000).Draw(t, "size")
			s.Spread = uni(t, "spread", 0, 40)
			s.Outs = uni(t, "outs", 1, 3)
			if uni(t, "manyouts", 0, 9) == 0 { // large records: the big classes and the private-mapping path
				s.Outs = uni(t, "outs", 4, 24)
				if s.Add > 40 {
					s.Add = 40
				}
			}
			s.Del, s.Partial = uni(t, "del", 0, 40), uni(t, "partial", 0, 60)
		}
		if uni(t, "hasline", 0, 9) < 8 {
			s.Line = genUILine(t, 50)
			if s.Line == "" || s.Line == "  " {
				s.Line = "help" // the line typed inside a commit is a command
			}
		}
		for j, k := 0, rapid.IntRange(0, 4).Draw(t, "nafter"); j < k; j++ {
			s.After = append(s.After, genUILine(t, 30))
		}
		c.Steps = append(c.Steps, s)
	}
	return
}

func TestUIWiring(t *testing.T) {
	pbt.Check(t, pbt.Cfg{Name: "ui", Quick: 128, Thorough: 3200}, func(r *pbt.Run) {
		c, fill := genUI(r.T)
		r.Case(c)
		inconMu.Lock()
		giveUp := len(incon) >= 3
		inconMu.Unlock()
		if giveUp {
			return
		}
		st, viol, inc := runUI(&c)
		if inc != "" {
			inconMu.Lock()
			incon = append(incon, inc)
			inconMu.Unlock()
			pbt.AddExtra("inconclusive_children", 1)
			return
		}
		if st.DefragInCommit > 0 {
			r.Class("memdefrag_typed_during_commit")
		}
		if st.DefragLines > st.DefragInCommit {
			r.Class("memdefrag_typed_between_batches")
		}
		if st.LinesInCommit > st.DefragInCommit {
			r.Class("other_command_typed_during_commit")
		}
		if st.DefragsThatMoved > 0 {
			r.Class("defrag_moved_records")
		}
		if fill {
			r.Class("fill_and_fragment")
		}
		if st.Reserialised > 0 {
			r.Class("partial_spends")
		}
		if st.DefragInCommit > 0 || st.DefragsThatMoved > 0 {
			r.NonTrivial()
		}
		pbt.AddExtra("ui_lines_typed", int64(st.Lines))
		pbt.AddExtra("ui_requests_serviced_by_main_thread", int64(st.Serviced))
		pbt.AddExtra("ui_records_added", st.Added)
		pbt.AddExtra("ui_records_spent", st.Spent)
		pbt.AddExtra("ui_defrags_that_moved", int64(st.DefragsThatMoved))
		if viol != "" {
			r.Failf("%s", viol)
		}
	})
	failIfInconclusive(t)
}
