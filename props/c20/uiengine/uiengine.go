// Package uiengine is the child-side engine of C20's "wiring" check: the real allocator wired into
// a real (empty) UnspentDB the way client/common/config.go does it, the real text UI loop
// (textui.MainThread) reading the operator's commands from a pipe that replaces os.Stdin, and a
// goroutine that plays the client's main thread: it commits batches of UTXO records
// (UnspentDB.CommitBlockTxs -> Memory_Malloc / Memory_Free from the commit's worker goroutines) and,
// between two batches, services usif.UiChannel exactly like client/main.go.
//
// What keeps Allocator.DefragAllImproved ("runs exclusively", takes no class mutex) away from
// concurrent Malloc/Free in the client is only this: every commit and every defragmentation is
// executed by the main thread (the UI command "defrag" is a sync command, queued on usif.UiChannel).
// Judged here: (a) no UTXO-memory defragmentation pass runs while the main thread is inside a
// commit - the operator's line is typed from inside the commit (CB.NotifyTxAdd/NotifyTxDel, where the
// main thread waits for its workers) and the commit is held open until the UI loop has dealt with the
// line; (b) after every service point every record is reachable through the map, holds exactly the
// bytes the commit wrote, and Allocs equals the number of records.
package uiengine

import (
	"bytes"
	"encoding/binary"
	"encoding/json"
	"fmt"
	"io"
	"os"
	"runtime"
	"sync/atomic"
	"syscall"
	"time"
	"unsafe"

	"github.com/piotrnar/gocoin/client/common"
	"github.com/piotrnar/gocoin/client/usif"
	"github.com/piotrnar/gocoin/client/usif/textui"
	"github.com/piotrnar/gocoin/lib/chain"
	"github.com/piotrnar/gocoin/lib/others/memory"
	"github.com/piotrnar/gocoin/lib/utxo"
)

// Step is one batch of the main thread followed by one visit to usif.UiChannel.
type Step struct {
	Add     int      `json:"add,omitempty"`     // records added by the batch
	Size    int      `json:"size,omitempty"`    // script length of an added output ...
	Spread  int      `json:"spread,omitempty"`  // ... minus prng mod (Spread+1)
	Outs    int      `json:"outs,omitempty"`    // outputs per added record (>= 1)
	Del     int      `json:"del,omitempty"`     // percent of the existing records spent by the batch
	Partial int      `json:"partial,omitempty"` // percent of those spent only partially (record re-serialised: Malloc + Free)
	Seed    uint64   `json:"seed,omitempty"`
	Line    string   `json:"line,omitempty"`  // typed by the operator while the commit is running
	After   []string `json:"after,omitempty"` // typed after the batch, before the main thread looks at usif.UiChannel
}

type Case struct {
	Procs int    `json:"procs,omitempty"`
	Steps []Step `json:"steps"`
}

type Stats struct {
	Steps            int   `json:"steps"`
	Added            int64 `json:"added"`
	Spent            int64 `json:"spent"`
	Reserialised     int64 `json:"reserialised"`
	Lines            int   `json:"lines"`              // non-empty lines typed
	LinesInCommit    int   `json:"lines_in_commit"`    // ... of them while a commit was running
	DefragInCommit   int   `json:"defrag_in_commit"`   // "defrag mem|rec|all" typed while a commit was running
	DefragLines      int   `json:"defrag_lines"`       // "defrag mem|rec|all" typed at all
	Serviced         int   `json:"serviced"`           // requests the main thread took from usif.UiChannel
	DefragsThatMoved int   `json:"defrags_that_moved"` // common.DefragCount at the end
	MaxRecords       int   `json:"max_records"`
	MaxBytes         int64 `json:"max_bytes"`
	Verifications    int   `json:"verifications"`
}

type Result struct {
	Violation    string `json:"violation,omitempty"`
	Inconclusive string `json:"inconclusive,omitempty"`
	Stats        Stats  `json:"stats"`
}

// IsMemDefrag tells whether a typed line makes utxo_defrag call common.DefragUTXOMem.
func IsMemDefrag(line string) bool {
	f := bytes.Fields([]byte(line))
	if len(f) < 2 || (string(f[0]) != "defrag" && string(f[0]) != "def") {
		return false
	}
	for _, a := range f[1:] {
		switch string(a) {
		case "mem", "rec", "all":
			return true
		}
	}
	return false
}

func mix(x uint64) uint64 {
	x += 0x9e3779b97f4a7c15
	x = (x ^ x>>30) * 0xbf58476d1ce4e5b9
	x = (x ^ x>>27) * 0x94d049bb133111eb
	return x ^ x>>31
}

type mrec struct {
	rec  *utxo.UtxoRec // the model's own copy
	key  utxo.UtxoKeyType
	want []byte // what the allocation must hold
	idx  int
}

type harness struct {
	db    *utxo.UnspentDB
	mem   *memory.Allocator
	wr    *os.File
	rdfd  uintptr
	recs  []*mrec
	nexti uint64
	h     uint32
	st    Stats
	sbuf  []byte

	// the commit in progress
	inCommit  atomic.Bool
	cbCount   atomic.Int64
	trigger   int64
	line      string
	incon     atomic.Pointer[string]
	bytesLive int64
}

const waitLimit = 120 * time.Second // wall-clock net for the hand-shakes with the UI goroutine

func (h *harness) pending() int {
	var n int32
	syscall.Syscall(syscall.SYS_IOCTL, h.rdfd, 0x541B /* FIONREAD */, uintptr(unsafe.Pointer(&n)))
	return int(n)
}

// waitFor polls cond; between polls it optionally services the UI queue (main thread, outside a commit).
func (h *harness) waitFor(what string, service bool, cond func() bool) bool {
	dl := time.Now().Add(waitLimit)
	for i := 0; ; i++ {
		if service {
			h.serviceAvailable()
		}
		if cond() {
			return true
		}
		if time.Now().After(dl) {
			s := "timed out waiting for " + what
			h.incon.CompareAndSwap(nil, &s)
			return false
		}
		if i < 100 {
			runtime.Gosched()
		} else {
			time.Sleep(100 * time.Microsecond)
		}
	}
}

// typeLine writes one line to the UI's stdin.  textui.readline makes a fresh bufio.Reader for every
// line and throws away what it has read beyond the first one, so there is never more than one
// line in the pipe: the caller has made sure that the pipe is empty.
func (h *harness) typeLine(l string) {
	h.wr.Write([]byte(l + "\n"))
}

// serviceAvailable is the main thread's "case cmd := <-usif.UiChannel" of client/main.go, non-blocking.
func (h *harness) serviceAvailable() (n int) {
	for {
		select {
		case cmd := <-usif.UiChannel:
			cmd.Handler(cmd.Param)
			cmd.Done.Done()
			h.st.Serviced++
			n++
		default:
			return
		}
	}
}

// quiesce: the main thread services usif.UiChannel until the UI goroutine has dealt with everything
// typed so far (an empty line is typed last: when the UI loop has consumed it, every earlier handler
// has returned or has been queued).
func (h *harness) quiesce() bool {
	if !h.waitFor("the UI loop to read the typed line", true, func() bool { return h.pending() == 0 }) {
		return false
	}
	h.typeLine("")
	if !h.waitFor("the UI loop to read the empty line", true, func() bool { return h.pending() == 0 }) {
		return false
	}
	h.serviceAvailable()
	return true
}

// onCommitCallback runs on the commit's worker goroutines (CB.NotifyTxAdd / CB.NotifyTxDel) while the
// main thread waits inside CommitBlockTxs: the k-th callback types the operator's line and keeps the
// commit open until the UI loop has executed it (async command) or queued it (sync command).
func (h *harness) onCommitCallback() {
	if h.cbCount.Add(1) != h.trigger || h.line == "" {
		return
	}
	h.typeLine(h.line)
	if !h.waitFor("the UI loop to read the line typed during the commit", false, func() bool { return h.pending() == 0 }) {
		return
	}
	h.typeLine("")
	h.waitFor("the UI loop to finish or queue the command typed during the commit", false, func() bool {
		return h.pending() == 0 || len(usif.UiChannel) > 0
	})
}

type defragCounters struct {
	count  int
	totime time.Duration
}

func readDefrag() defragCounters { return defragCounters{common.DefragCount, common.DefragTotime} }

func (h *harness) newRecord(s *Step, x *uint64) *mrec {
	id := h.nexti
	h.nexti++
	r := &utxo.UtxoRec{InBlock: h.h, Coinbase: id%7 == 0}
	t := mix(id)
	for i := 0; i < 4; i++ { // the first 8 bytes (the map key) are a bijection of id
		binary.LittleEndian.PutUint64(r.TxID[8*i:], t)
		t = mix(t ^ 0x55aa)
	}
	outs := s.Outs
	if outs < 1 {
		outs = 1
	}
	for o := 0; o < outs; o++ {
		l := s.Size
		if s.Spread > 0 {
			*x = mix(*x)
			l -= int(*x % uint64(s.Spread+1))
		}
		if l < 1 {
			l = 1
		}
		scr := make([]byte, l)
		p := mix(id<<8 | uint64(o))
		for i := range scr {
			if i&7 == 0 {
				p = mix(p)
			}
			scr[i] = byte(p >> (8 * uint(i&7)))
		}
		scr[0] = 0x51 // never "unspendable" (the purge command must leave the records alone)
		r.Outs = append(r.Outs, &utxo.UtxoTxOut{Value: id*1000 + uint64(o), PKScr: scr})
	}
	m := &mrec{rec: r}
	copy(m.key[:], r.TxID[:])
	return m
}

// expected bytes of a record: what the commit serialises into the allocation
func (h *harness) serialise(r *utxo.UtxoRec) []byte {
	b := utxo.Serialize(r, h.sbuf)
	return append([]byte(nil), (*b)...)
}

func cloneRec(r *utxo.UtxoRec) *utxo.UtxoRec {
	c := &utxo.UtxoRec{TxID: r.TxID, Coinbase: r.Coinbase, InBlock: r.InBlock, Outs: make([]*utxo.UtxoTxOut, len(r.Outs))}
	for i, o := range r.Outs {
		if o != nil {
			c.Outs[i] = &utxo.UtxoTxOut{Value: o.Value, PKScr: append([]byte(nil), o.PKScr...)}
		}
	}
	return c
}

func (h *harness) verify(when string) string {
	h.st.Verifications++
	n := 0
	for i := range h.db.HashMap {
		h.db.MapMutex[i].RLock()
		n += len(h.db.HashMap[i])
		h.db.MapMutex[i].RUnlock()
	}
	if n != len(h.recs) {
		return fmt.Sprintf("%s: the UTXO map holds %d records, the model %d", when, n, len(h.recs))
	}
	for _, m := range h.recs {
		h.db.MapMutex[m.key[0]].RLock()
		p := h.db.HashMap[m.key[0]][m.key]
		h.db.MapMutex[m.key[0]].RUnlock()
		if p == nil {
			return fmt.Sprintf("%s: record %x is not in the UTXO map any more", when, m.key)
		}
		hd := (*[3]uintptr)(unsafe.Pointer(p))
		if int(hd[1]) != len(m.want) || int(hd[2]) < len(m.want) {
			return fmt.Sprintf("%s: record %x: slice header says len %d cap %d, the record has %d bytes", when, m.key, int(hd[1]), int(hd[2]), len(m.want))
		}
		if !bytes.Equal(*p, m.want) {
			d := 0
			for d < len(m.want) && (*p)[d] == m.want[d] {
				d++
			}
			return fmt.Sprintf("%s: record %x (%d bytes, at %p) no longer holds the bytes the commit wrote (first difference at offset %d)", when, m.key, len(m.want), p, d)
		}
	}
	if got := h.mem.Allocs.Load(); got != int64(len(h.recs)) {
		return fmt.Sprintf("%s: Allocs = %d, but the UTXO set has %d records", when, got, len(h.recs))
	}
	if got := h.mem.Bytes.Load(); got < h.bytesLive {
		return fmt.Sprintf("%s: Bytes = %d, but the records occupy %d bytes", when, got, h.bytesLive)
	}
	return ""
}

func (h *harness) step(si int, s *Step) string {
	x := s.Seed
	ch := &utxo.BlockChanges{Height: h.h}
	h.h++
	// spends first (they refer to the records that exist before this batch)
	type spend struct {
		m    *mrec
		outs []bool
		all  bool
	}
	var spends []spend
	if s.Del > 0 && len(h.recs) > 1 {
		ch.DeledTxs = map[[32]byte][]bool{}
		// a prng-ordered prefix of a private permutation; h.recs[0] is the anchor record, never spent
		perm := make([]*mrec, len(h.recs)-1)
		copy(perm, h.recs[1:])
		k := len(perm) * s.Del / 100
		for i := 0; i < k; i++ {
			x = mix(x)
			j := i + int(x%uint64(len(perm)-i))
			perm[i], perm[j] = perm[j], perm[i]
			m := perm[i]
			outs := make([]bool, len(m.rec.Outs))
			left := 0
			for o := range m.rec.Outs {
				if m.rec.Outs[o] != nil {
					left++
				}
			}
			x = mix(x)
			partial := left >= 2 && int(x%100) < s.Partial
			all := true
			if partial {
				keep := -1
				for o := range m.rec.Outs { // keep the first unspent output, spend a prng choice of the others
					if m.rec.Outs[o] == nil {
						continue
					}
					if keep < 0 {
						keep = o
						all = false
						continue
					}
					x = mix(x)
					outs[o] = x&1 == 0
				}
			} else {
				for o := range outs {
					outs[o] = true
				}
			}
			ch.DeledTxs[m.rec.TxID] = outs
			spends = append(spends, spend{m, outs, all})
		}
	}
	var adds []*mrec
	for i := 0; i < s.Add; i++ {
		m := h.newRecord(s, &x)
		adds = append(adds, m)
		ch.AddList = append(ch.AddList, cloneRec(m.rec)) // the commit gets its own copy
	}
	total := int64(len(adds) + len(spends))
	h.line, h.trigger = "", 0
	if s.Line != "" && total > 0 {
		x = mix(x)
		h.line, h.trigger = s.Line, 1+int64(x%uint64(total))
		h.st.Lines++
		h.st.LinesInCommit++
		if IsMemDefrag(s.Line) {
			h.st.DefragLines++
			h.st.DefragInCommit++
		}
	}
	h.cbCount.Store(0)
	var hash [32]byte
	binary.LittleEndian.PutUint64(hash[:], mix(uint64(h.h)))

	before := readDefrag()
	h.inCommit.Store(true)
	h.db.CommitBlockTxs(ch, hash[:])
	h.inCommit.Store(false)
	after := readDefrag()
	if p := h.incon.Load(); p != nil {
		return ""
	}
	if after != before {
		return fmt.Sprintf("step %d: a UTXO-memory defragmentation pass was executed while the main thread was inside CommitBlockTxs "+
			"(operator typed %q during the commit; DefragUTXOMem calls that moved records %d -> %d, time spent in DefragUTXOMem %v -> %v): "+
			"DefragAllImproved takes no class mutex, only the main thread may run it", si, s.Line, before.count, after.count, before.totime, after.totime)
	}

	// the model follows the batch
	for _, sp := range spends {
		m := sp.m
		h.bytesLive -= int64(len(m.want))
		if sp.all {
			last := h.recs[len(h.recs)-1]
			h.recs[m.idx] = last
			last.idx = m.idx
			h.recs = h.recs[:len(h.recs)-1]
			h.st.Spent++
			continue
		}
		for o, rm := range sp.outs {
			if rm {
				m.rec.Outs[o] = nil
			}
		}
		m.want = h.serialise(m.rec)
		h.bytesLive += int64(len(m.want))
		h.st.Reserialised++
	}
	for _, m := range adds {
		m.want = h.serialise(m.rec)
		m.idx = len(h.recs)
		h.recs = append(h.recs, m)
		h.bytesLive += int64(len(m.want))
		h.st.Added++
	}
	if len(h.recs) > h.st.MaxRecords {
		h.st.MaxRecords = len(h.recs)
	}
	if h.bytesLive > h.st.MaxBytes {
		h.st.MaxBytes = h.bytesLive
	}

	// the operator goes on typing while the main thread is between two batches
	for _, l := range s.After {
		if !h.waitFor("the UI loop to read the previous line", true, func() bool { return h.pending() == 0 }) {
			return ""
		}
		h.typeLine(l)
		if l != "" {
			h.st.Lines++
			if IsMemDefrag(l) {
				h.st.DefragLines++
			}
		}
	}
	// ... and the main thread reaches its select loop
	if !h.quiesce() {
		return ""
	}
	return h.verify(fmt.Sprintf("step %d, after the main thread serviced the UI queue", si))
}

func Run(c *Case) (res Result) {
	if c.Procs > 0 {
		runtime.GOMAXPROCS(c.Procs)
	}
	dir, err := os.MkdirTemp("", "c20ui")
	if err != nil {
		res.Inconclusive = err.Error()
		return
	}
	defer os.RemoveAll(dir)

	h := &harness{sbuf: make([]byte, 1<<20)}
	// the wiring of client/common/config.go
	h.mem = memory.NewAllocator()
	common.Memory = h.mem
	utxo.Memory_Malloc = h.mem.Malloc
	utxo.Memory_Free = h.mem.Free
	h.db = utxo.NewUnspentDb(&utxo.NewUnspentOpts{Dir: dir + string(os.PathSeparator), Rescan: true})
	for i := range h.db.HashMap { // Rescan sizes every map for 100 000 records
		h.db.HashMap[i] = make(map[utxo.UtxoKeyType]*[]byte)
	}
	h.db.LastBlockHash = make([]byte, 32)
	h.db.CB.NotifyTxAdd = func(*utxo.UtxoRec) { h.onCommitCallback() }
	h.db.CB.NotifyTxDel = func(*utxo.UtxoRec, []bool) { h.onCommitCallback() }
	common.BlockChain = &chain.Chain{Unspent: h.db}

	rd, wr, err := os.Pipe()
	if err != nil {
		res.Inconclusive = err.Error()
		return
	}
	h.wr, h.rdfd = wr, rd.Fd()
	os.Stdin = rd
	go textui.MainThread()

	defer func() {
		h.st.DefragsThatMoved = int(common.DefragCount)
		res.Stats = h.st
		if p := h.incon.Load(); p != nil && res.Violation == "" {
			res.Inconclusive = *p
		}
	}()
	// One anchor record that is never spent: with an empty UTXO set the "defrag" command itself panics
	// (UnspentDB.GetStats divides by the number of records) - not this property's business.
	if m := h.step(-1, &Step{Add: 1, Size: 100, Outs: 1}); m != "" {
		res.Violation = m
		return
	}
	for si := range c.Steps {
		h.st.Steps++
		if m := h.step(si, &c.Steps[si]); m != "" {
			res.Violation = m
			return
		}
		if h.incon.Load() != nil {
			return
		}
	}
	return
}

// CPULimit: see engine.CPULimit.
const CPULimit = 60

func ChildMain() {
	syscall.Setrlimit(syscall.RLIMIT_CPU, &syscall.Rlimit{Cur: CPULimit, Max: CPULimit + 5})
	out := os.Stdout
	if null, err := os.OpenFile(os.DevNull, os.O_WRONLY, 0); err == nil {
		os.Stdout = null // the UI commands print a lot
	}
	in, err := io.ReadAll(os.Stdin)
	var c Case
	if err == nil {
		err = json.Unmarshal(in, &c)
	}
	var res Result
	if err != nil {
		res.Inconclusive = "child: cannot read the case: " + err.Error()
	} else {
		res = Run(&c)
	}
	b, _ := json.Marshal(res)
	fmt.Fprintf(out, "\nRESULT %s\n", b)
	os.Exit(0)
}
