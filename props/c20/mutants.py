#!/usr/bin/env python3
"""Sensitivity run for C20: builds the child binaries with one small mutation of
lib/others/memory applied through `go build -overlay` (nothing under /repo is touched), runs the
quick campaign of the (unchanged) parent test binary against them and reports whether a
violation was found.     usage: mutants.py [name ...]   (no name = all)"""
import json, os, shutil, subprocess, sys, tempfile, time

ROOT = "/verif"
MEM = "/repo/lib/others/memory/"
ENV = dict(os.environ, GOFLAGS="-mod=mod", GOPROXY="off", GOSUMDB="off", GOTOOLCHAIN="local")

# name -> (file, old text, new text, what)
MUTANTS = {
 "M1-perpage-unlink": ("malloc.go",
   "\t\theader.freeList = nextInPage\n\t\tif nextInPage != 0 {\n\t\t\t(*node)(unsafe.Pointer(nextInPage)).prevInPage = 0\n\t\t}\n\t} else {\n\t\t// We're in the middle",
   "\t\tif false && nextInPage != 0 {\n\t\t\t(*node)(unsafe.Pointer(nextInPage)).prevInPage = 0\n\t\t}\n\t} else {\n\t\t// We're in the middle",
   "uintptrMallocShared does not unlink the head slot from the per-page free list"),
 "M2-free-no-lock": ("free.go",
   "\ta.classMu[class].Lock()\n\temptyPage := a.uintptrFreeShared(p)\n\ta.classMu[class].Unlock()",
   "\t_ = class\n\temptyPage := a.uintptrFreeShared(p)",
   "Free does not take the class mutex"),
 "M3-len-not-copied": ("defrag.go",
   "\t\t\t\tnewSlice.Len = oldSlice.Len\n", "",
   "defragmentation does not set the length of the relocated slice"),
 "M4-evacuating-ignored": ("defrag.go",
   "\t// If page is being evacuated, don't add to free list\n\tif header.evacuating {\n\t\treturn\n\t}\n\n\t// Add to global free list\n\t(*node)(unsafe.Pointer(p)).prev = 0\n\tif next := a.lists[class]; next != 0 {\n\t\t(*node)(unsafe.Pointer(p)).next = next",
   "\t// Add to global free list\n\t(*node)(unsafe.Pointer(p)).prev = 0\n\tif next := a.lists[class]; next != 0 {\n\t\t(*node)(unsafe.Pointer(p)).next = next",
   "classFree ignores the evacuating flag (slots of a page being evacuated re-enter the free list)"),
 "M5-short-copy": ("defrag.go",
   "\t\t\t\tcopy(*ns, *os)\n", "\t\t\t\tcopy((*ns)[:len(*ns)-len(*ns)/64], *os)\n",
   "defragmentation copies all but the last 1/64 of a relocated record"),
 "M6-malloc-early-unlock": ("malloc.go",
   "\tp, err := a.uintptrMallocShared(class)\n\ta.classMu[class].Unlock()\n",
   "\ta.classMu[class].Unlock()\n\tp, err := a.uintptrMallocShared(class)\n",
   "Malloc releases the class mutex before taking the slot"),
 "M7-current-page-kept": ("defrag.go",
   "\t\theader.evacuating = true\n\t\tif a.pages[class] == pg {\n\t\t\ta.pages[class] = 0\n\t\t}\n",
   "\t\theader.evacuating = true\n",
   "defragmentation keeps allocating from the current page although it is being evacuated"),
 "M8-private-allocs-leak": ("free.go",
   "func (a *Allocator) Free(b *[]byte) {\n\ta.Allocs.Add(-1)\n\n\tp := uintptr(unsafe.Pointer(b))\n\n\t// Check if this is a private (large) allocation - no class mutex needed\n\tif sh := (*reflect.SliceHeader)(unsafe.Pointer(p)); sh.Cap+sliceHdrLen > a.MaxSharedSize {\n",
   "func (a *Allocator) Free(b *[]byte) {\n\ta.Allocs.Add(-1)\n\n\tp := uintptr(unsafe.Pointer(b))\n\n\t// Check if this is a private (large) allocation - no class mutex needed\n\tif sh := (*reflect.SliceHeader)(unsafe.Pointer(p)); sh.Cap+sliceHdrLen > a.MaxSharedSize {\n\t\ta.Allocs.Add(1)\n",
   "Free of a private mapping does not decrement Allocs"),
 "M9-relocate-skipped": ("defrag.go",
   "\t\t\t\trelocate(os, ns)\n", "\t\t\t\tif cnt%997 != 996 {\n\t\t\t\t\trelocate(os, ns)\n\t\t\t\t}\n",
   "every 997th relocation of a class is not announced to the callback"),
 "M10-class-off-by-one": ("memory.go",
   "\t\t\tif size <= int(v) {\n", "\t\t\tif size <= int(v)+1 {\n",
   "size-class lookup admits a request one byte larger than the slot"),
 "M11-free-no-backlink": ("free.go",
   "\t\t\t(*node)(unsafe.Pointer(p)).next = next\n\t\t\t(*node)(unsafe.Pointer(next)).prev = p\n",
   "\t\t\t(*node)(unsafe.Pointer(p)).next = next\n",
   "Free does not set the back link of the old head of the global free list"),
 "M12-malloc-stale-prev": ("malloc.go",
   "\ta.lists[class] = (*node)(unsafe.Pointer(n)).next\n\tif next := (*node)(unsafe.Pointer(n)).next; next != 0 {\n\t\t(*node)(unsafe.Pointer(next)).prev = 0\n\t}\n",
   "\ta.lists[class] = (*node)(unsafe.Pointer(n)).next\n",
   "Malloc from the free list leaves a stale back link in the new list head"),
}

def run(name, seed):
    fn, old, new, what = MUTANTS[name]
    src = open(MEM + fn).read()
    if src.count(old) != 1:
        return name, "PATCH-DOES-NOT-APPLY", ""
    tmp = tempfile.mkdtemp(prefix="c20mut-")
    try:
        mf = os.path.join(tmp, fn)
        open(mf, "w").write(src.replace(old, new))
        ov = os.path.join(tmp, "overlay.json")
        json.dump({"Replace": {MEM + fn: mf}}, open(ov, "w"))
        for out, extra, pkg in (("c20child", [], "./props/c20/child"), ("c20child.race", ["-race"], "./props/c20/child"), ("c20ui", [], "./props/c20/uichild")):
            p = subprocess.run(["go", "build", "-tags", "verif", "-overlay", ov, "-o", os.path.join(tmp, out)] + extra + [pkg],
                               cwd=ROOT, env=ENV, stdout=subprocess.PIPE, stderr=subprocess.STDOUT, text=True)
            if p.returncode != 0:
                return name, "MUTANT-DOES-NOT-COMPILE", p.stdout[-500:]
        t0 = time.time()
        procs = []
        for i in range(16):
            d = os.path.join(tmp, "s%d" % i)
            os.makedirs(os.path.join(d, "fail")); os.makedirs(os.path.join(d, "tmp"))
            e = dict(ENV, VERIF_SEED=str(seed), VERIF_TIER="quick", VERIF_SHARD=str(i), VERIF_SHARDS="16", VERIF_BUILD=tmp,
                     VERIF_STATS=os.path.join(d, "stats.json"), VERIF_FAILDIR=os.path.join(d, "fail"), TMPDIR=os.path.join(d, "tmp"))
            procs.append(subprocess.Popen([os.path.join(ROOT, ".build", "c20.test"), "-test.timeout", "900s", "-rapid.shrinktime", "5s"],
                                          cwd=os.path.join(ROOT, "props/c20"), env=e, stdout=open(os.path.join(d, "log"), "w"), stderr=subprocess.STDOUT))
        for p in procs:
            p.wait()
        fails = {}
        for i in range(16):
            fd = os.path.join(tmp, "s%d" % i, "fail")
            for f in os.listdir(fd):
                doc = json.load(open(os.path.join(fd, f)))
                fails.setdefault(doc["test"], []).append(doc["msg"].split("\n")[0][:230])
        verdict = "CAUGHT" if fails else "MISSED"
        detail = "; ".join("%s x%d e.g. %s" % (t, len(m), m[0]) for t, m in sorted(fails.items()))
        return name, "%s (%.0fs) %s" % (verdict, time.time() - t0, what), detail
    finally:
        if os.environ.get("KEEP"):
            print("kept", tmp)
        else:
            shutil.rmtree(tmp, ignore_errors=True)

if __name__ == "__main__":
    seed = int(os.environ.get("VERIF_SEED", "1"))
    for n in (sys.argv[1:] or list(MUTANTS)):
        name, v, d = run(n, seed)
        print("%-24s %s\n    %s" % (name, v, d), flush=True)
