// Command child runs one C20 history (JSON on stdin) against a fresh lib/others/memory allocator
// and prints one RESULT line; see ../engine.  It is a separate process on purpose: a memory-safety
// bug of the mmap-based allocator may kill or silently corrupt the process that exercises it.
package main

import "verif/props/c20/engine"

func main() { engine.ChildMain() }
