package c05

import (
	"encoding/json"
	"strings"
	"testing"

	"verif/env"
	"verif/pbt"
	"verif/sim"
)

func TestMain(m *testing.M) {
	env.Quiet()
	pbt.RegisterReplay("structure", func(raw json.RawMessage) error {
		var c sim.Case
		if err := json.Unmarshal(raw, &c); err != nil {
			return err
		}
		s, err := sim.RunCase(c, env.Options{}, sim.Hooks{})
		if s != nil {
			s.Close()
		}
		return err
	})
	registerPure()
	pbt.Main(m, "C05")
}

var profile = sim.Profile{
	Viols:     sim.BlockViolations,
	ViolPct:   55,
	MaxTx:     5,
	MinOps:    6,
	MaxOps:    30,
	Prefixes:  []int{0, 2, 13, 100, 101, 103, 110},
	IdlePct:   2,
	Staggered: true,
	Forks:     true,
}

func TestStructure(t *testing.T) {
	p := profile
	if pbt.Tier() == "thorough" {
		p.Retarget = true
		p.MaxTx, p.MaxOps = 12, 80
	}
	pbt.Check(t, pbt.Cfg{Name: "structure", Quick: 1500, Thorough: 12000}, func(r *pbt.Run) {
		c := sim.GenCase(r.T, p)
		r.Case(c)
		s, err := sim.RunCaseOpen(c, env.Options{}, sim.Hooks{}, pbt.FindingOpen)
		if s != nil {
			defer s.Close()
			seen := map[string]bool{}
			nt := false
			for _, l := range s.Labels {
				if strings.HasPrefix(l, "viol") || strings.HasPrefix(l, "refused") {
					if !seen[l] {
						seen[l] = true
						r.Class(l)
					}
					if strings.HasPrefix(l, "viol/") || strings.HasPrefix(l, "viol-valid-side/") {
						nt = true
					}
				}
			}
			if nt {
				r.NonTrivial()
			}
			pbt.AddExtra("blocks_accepted", int64(s.Accepted))
			pbt.AddExtra("blocks_refused", int64(s.Refused))
		}
		if s != nil {
			for _, k := range s.ExcludedKeys {
				r.Excluded(k)
			}
		}
		if x, ok := err.(*sim.Excluded); ok {
			r.Excluded(x.Key)
			r.Class("excluded/" + x.Key)
			return
		}
		if err != nil {
			r.Failf("%v", err)
		}
	})
}
