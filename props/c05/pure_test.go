package c05

import (
	"bytes"
	"encoding/binary"
	"encoding/hex"
	"encoding/json"
	"fmt"
	"math/big"
	"testing"

	"github.com/piotrnar/gocoin/lib/btc"
	"github.com/piotrnar/gocoin/lib/chain"
	"github.com/piotrnar/gocoin/lib/script"
	"pgregory.net/rapid"
	"verif/pbt"
	"verif/ref/consensus"
	"verif/ref/wire"
)

// Pure-function layer of C05: the building blocks of the header / structure rules compared with
// their reference twins on inputs that no mined block could reach cheaply (2016-block windows,
// arbitrary compact targets, long merkle lists).

func registerPure() {
	pbt.RegisterReplay("retarget", func(raw json.RawMessage) error {
		var c retargetCase
		if err := json.Unmarshal(raw, &c); err != nil {
			return err
		}
		return checkRetarget(c)
	})
	pbt.RegisterReplay("testnet_rule", func(raw json.RawMessage) error {
		var c testnetCase
		if err := json.Unmarshal(raw, &c); err != nil {
			return err
		}
		return checkTestnetRule(c)
	})
	pbt.RegisterReplay("mtp", func(raw json.RawMessage) error {
		var c []uint32
		if err := json.Unmarshal(raw, &c); err != nil {
			return err
		}
		return checkMTP(c)
	})
	pbt.RegisterReplay("compact", func(raw json.RawMessage) error {
		var c compactCase
		if err := json.Unmarshal(raw, &c); err != nil {
			return err
		}
		return checkCompact(c)
	})
	pbt.RegisterReplay("merkle", func(raw json.RawMessage) error {
		var c []int
		if err := json.Unmarshal(raw, &c); err != nil {
			return err
		}
		return checkMerkle(c)
	})
	pbt.RegisterReplay("height_script", func(raw json.RawMessage) error {
		var h uint32
		if err := json.Unmarshal(raw, &h); err != nil {
			return err
		}
		return checkHeightScript(h)
	})
	pbt.RegisterReplay("is_final", func(raw json.RawMessage) error {
		var c finalCase
		if err := json.Unmarshal(raw, &c); err != nil {
			return err
		}
		return checkFinal(c)
	})
}

// ---------------------------------------------------------------------------------------------

type retargetCase struct {
	LimitBits uint32 `json:"limit_bits"`
	Bits      uint32 `json:"bits"`   // bits of the window's blocks
	Span      int64  `json:"span"`   // last.time - first.time
	LastH     uint32 `json:"last_h"` // height of the parent block
	FirstT    uint32 `json:"first_time"`
}

const window = consensus.RetargetInterval

var (
	gchain []*chain.BlockTreeNode
	rchain []*consensus.Index
)

func buildChains() {
	if gchain != nil {
		return
	}
	gchain = make([]*chain.BlockTreeNode, 2*window)
	rchain = make([]*consensus.Index, 2*window)
	for i := range gchain {
		g := &chain.BlockTreeNode{Height: uint32(i), BlockHash: btc.NewUint256(make([]byte, 32))}
		r := &consensus.Index{Height: uint32(i)}
		if i > 0 {
			g.Parent, r.Parent = gchain[i-1], rchain[i-1]
		}
		gchain[i], rchain[i] = g, r
	}
}

func setNode(i int, t, bits uint32) {
	binary.LittleEndian.PutUint32(gchain[i].BlockHeader[68:72], t)
	binary.LittleEndian.PutUint32(gchain[i].BlockHeader[72:76], bits)
	rchain[i].Header = wire.Header{Time: t, Bits: bits}
}

func checkRetarget(c retargetCase) error {
	buildChains()
	limit, _, _ := consensus.SetCompact(c.LimitBits)
	p := &consensus.Params{PowLimit: limit, PowLimitBits: c.LimitBits}
	ch := &chain.Chain{Genesis: btc.NewUint256(bytes.Repeat([]byte{0x11}, 32))}
	ch.Consensus.MaxPOWBits = c.LimitBits
	ch.Consensus.MaxPOWValue = new(big.Int).Set(limit)
	last := int(c.LastH)
	first := last - (window - 1)
	if first < 0 {
		first = 0
	}
	for i := first; i <= last; i++ {
		setNode(i, c.FirstT, c.Bits)
	}
	setNode(last, uint32(int64(c.FirstT)+c.Span), c.Bits)
	if first == last {
		setNode(last, c.FirstT, c.Bits)
	}
	got := ch.GetNextWorkRequired(gchain[last], c.FirstT+uint32(c.Span)+600)
	want := consensus.NextWorkRequired(rchain[last], p)
	if got != want {
		return fmt.Errorf("required bits after height %d (window bits %08x, timespan %d, limit %08x): gocoin %08x, reference %08x", c.LastH, c.Bits, c.Span, c.LimitBits, got, want)
	}
	return nil
}

func TestRetarget(t *testing.T) {
	pbt.Check(t, pbt.Cfg{Name: "retarget", Quick: 40000, Thorough: 1500000}, func(r *pbt.Run) {
		t := r.T
		c := retargetCase{}
		c.LimitBits = rapid.SampledFrom([]uint32{0x1d00ffff, 0x1e00ffff, 0x1c7fffff, 0x1b0404cb, 0x207fffff, 0x1f00ffff, 0x1e0fffff}).Draw(t, "limit")
		limit, _, _ := consensus.SetCompact(c.LimitBits)
		// the window's target: the limit itself, or something harder
		switch rapid.IntRange(0, 3).Draw(t, "bitsel") {
		case 0:
			c.Bits = c.LimitBits
		default:
			shift := uint(rapid.IntRange(0, 80).Draw(t, "shift"))
			m := new(big.Int).Rsh(limit, shift)
			m.Sub(m, big.NewInt(int64(rapid.IntRange(0, 1<<20).Draw(t, "sub"))))
			if m.Sign() <= 0 {
				m = big.NewInt(1)
			}
			c.Bits = consensus.GetCompact(m)
		}
		tt := int64(consensus.TargetTimespan)
		switch rapid.IntRange(0, 5).Draw(t, "spansel") {
		case 0:
			c.Span = tt/4 + int64(rapid.IntRange(-2, 2).Draw(t, "d"))
		case 1:
			c.Span = tt*4 + int64(rapid.IntRange(-2, 2).Draw(t, "d"))
		case 2:
			c.Span = int64(rapid.IntRange(-100000, 10*int(tt)).Draw(t, "span"))
		case 3:
			c.Span = tt + int64(rapid.IntRange(-3, 3).Draw(t, "d"))
		default:
			c.Span = int64(rapid.IntRange(int(tt/4), int(tt*4)).Draw(t, "span"))
		}
		c.FirstT = uint32(rapid.IntRange(1300000000, 1800000000).Draw(t, "t0"))
		if int64(c.FirstT)+c.Span < 0 {
			c.Span = 0
		}
		boundary := rapid.IntRange(0, 3).Draw(t, "boundary") != 0
		if boundary {
			c.LastH = uint32(window*rapid.IntRange(1, 2).Draw(t, "k") - 1)
			r.Class("at-boundary")
			r.NonTrivial()
		} else {
			c.LastH = uint32(rapid.IntRange(1, 2*window-2).Draw(t, "h"))
			if (c.LastH+1)%window == 0 {
				c.LastH--
			}
			r.Class("off-boundary")
		}
		switch {
		case c.Span < tt/4:
			r.Class("span<1/4")
		case c.Span > tt*4:
			r.Class("span>4x")
		default:
			r.Class("span-inside")
		}
		r.Case(c)
		if err := checkRetarget(c); err != nil {
			r.Failf("%v", err)
		}
	})
}

// ---------------------------------------------------------------------------------------------

// The retargeting rule of the test networks (gocoin tells them by bytes of the genesis hash): a block more than 20
// minutes after its parent carries the proof-of-work limit, any other block the target of the last block that did
// not use that exception; on testnet4 a retarget starts from the target of the period's first block (BIP94).
type testnetCase struct {
	Testnet4  bool   `json:"testnet4"`
	LimitBits uint32 `json:"limit_bits"`
	Bits      uint32 `json:"bits"`     // the period's real target
	LastH     uint32 `json:"last_h"`   // height of the parent block
	MinTail   int    `json:"min_tail"` // that many blocks ending with the parent carry the limit as their target
	ParentT   uint32 `json:"parent_time"`
	Delta     int64  `json:"delta"` // new block's timestamp - parent's timestamp
	Span      int64  `json:"span"`  // parent's time - time of the first block of the window
}

func checkTestnetRule(c testnetCase) error {
	buildChains()
	limit, _, _ := consensus.SetCompact(c.LimitBits)
	p := &consensus.Params{PowLimit: limit, PowLimitBits: c.LimitBits, AllowMinDifficulty: true, BIP94: c.Testnet4}
	gh := bytes.Repeat([]byte{0x11}, 32)
	gh[0] = 0x43
	if c.Testnet4 {
		gh[1] = 0xf0
	}
	ch := &chain.Chain{Genesis: btc.NewUint256(gh)}
	ch.Consensus.MaxPOWBits = c.LimitBits
	ch.Consensus.MaxPOWValue = new(big.Int).Set(limit)
	last := int(c.LastH)
	first := last - (window - 1)
	if first < 0 {
		first = 0
	}
	for i := first; i <= last; i++ {
		bits := c.Bits
		if i > last-c.MinTail {
			bits = c.LimitBits
		}
		setNode(i, uint32(int64(c.ParentT)-c.Span), bits)
	}
	b := c.Bits
	if c.MinTail > 0 {
		b = c.LimitBits
	}
	setNode(last, c.ParentT, b)
	if first > 0 {
		setNode(first-1, uint32(int64(c.ParentT)-c.Span), c.Bits)
	}
	ts := uint32(int64(c.ParentT) + c.Delta)
	got := ch.GetNextWorkRequired(gchain[last], ts)
	want := consensus.NextWorkRequiredAt(rchain[last], p, ts)
	if got != want {
		return fmt.Errorf("test network (testnet4=%v): required bits for a block %d s after its parent at height %d (period target %08x, limit %08x, the last %d blocks at the limit, window timespan %d): gocoin %08x, reference %08x",
			c.Testnet4, c.Delta, c.LastH, c.Bits, c.LimitBits, c.MinTail, c.Span, got, want)
	}
	return nil
}

func TestTestnetRule(t *testing.T) {
	pbt.Check(t, pbt.Cfg{Name: "testnet_rule", Quick: 30000, Thorough: 1000000}, func(r *pbt.Run) {
		t := r.T
		c := testnetCase{Testnet4: rapid.Bool().Draw(t, "testnet4")}
		c.LimitBits = rapid.SampledFrom([]uint32{0x1d00ffff, 0x207fffff, 0x1e0fffff}).Draw(t, "limit")
		limit, _, _ := consensus.SetCompact(c.LimitBits)
		c.Bits = c.LimitBits
		if rapid.IntRange(0, 5).Draw(t, "real") != 0 {
			m := new(big.Int).Rsh(limit, uint(rapid.IntRange(1, 60).Draw(t, "shift")))
			m.Sub(m, big.NewInt(int64(rapid.IntRange(0, 1<<16).Draw(t, "sub"))))
			if m.Sign() <= 0 {
				m = big.NewInt(1)
			}
			c.Bits = consensus.GetCompact(m)
		}
		tt := int64(consensus.TargetTimespan)
		if rapid.IntRange(0, 3).Draw(t, "boundary") == 0 {
			c.LastH = uint32(window*rapid.IntRange(1, 2).Draw(t, "k") - 1)
			c.Span = rapid.SampledFrom([]int64{tt / 4, tt/4 - 1, tt, tt * 2, tt * 4, tt*4 + 1, tt / 2}).Draw(t, "span")
			r.Class("at-boundary")
		} else {
			c.LastH = uint32(rapid.IntRange(1, 2*window-2).Draw(t, "h"))
			if (c.LastH+1)%window == 0 {
				c.LastH--
			}
			c.Span = tt
			r.Class("off-boundary")
		}
		switch rapid.IntRange(0, 4).Draw(t, "tail") {
		case 0:
		case 1:
			c.MinTail = 1
		case 2: // up to the start of the period, just before it, beyond it
			c.MinTail = int(c.LastH%window) + rapid.IntRange(-1, 2).Draw(t, "d")
		default:
			c.MinTail = rapid.IntRange(1, 2*window).Draw(t, "n")
		}
		if c.MinTail < 0 {
			c.MinTail = 0
		}
		c.ParentT = uint32(rapid.IntRange(1300000000, 1800000000).Draw(t, "t0"))
		switch rapid.IntRange(0, 3).Draw(t, "dsel") {
		case 0, 1:
			c.Delta = 1200 + int64(rapid.IntRange(-2, 2).Draw(t, "d"))
		case 2:
			c.Delta = int64(rapid.IntRange(-7200, 7200).Draw(t, "delta"))
		default:
			c.Delta = int64(rapid.SampledFrom([]int{0, 1, 599, 600, 601, 1199, 1200, 1201, 2400, 100000}).Draw(t, "delta"))
		}
		r.Case(c)
		switch {
		case c.Delta == 1200:
			r.Class("exactly_20_minutes")
		case c.Delta > 1200:
			r.Class("more_than_20_minutes")
		default:
			r.Class("less_than_20_minutes")
		}
		if c.MinTail > 0 && c.Bits != c.LimitBits {
			r.Class("parent_used_the_exception")
			r.NonTrivial()
		}
		if c.MinTail > int(c.LastH%window) {
			r.Class("exception_blocks_back_to_the_period_start")
		}
		if err := checkTestnetRule(c); err != nil {
			r.Failf("%v", err)
		}
	})
}

// ---------------------------------------------------------------------------------------------

func checkMTP(ts []uint32) error {
	var g *chain.BlockTreeNode
	var rr *consensus.Index
	for i, t := range ts {
		n := &chain.BlockTreeNode{Height: uint32(i), Parent: g}
		binary.LittleEndian.PutUint32(n.BlockHeader[68:72], t)
		g = n
		rr = &consensus.Index{Height: uint32(i), Parent: rr, Header: wire.Header{Time: t}}
	}
	if got, want := g.GetMedianTimePast(), rr.MedianTimePast(); got != want {
		return fmt.Errorf("median time past of %v: gocoin %d, reference %d", ts, got, want)
	}
	return nil
}

func TestMedianTimePast(t *testing.T) {
	pbt.Check(t, pbt.Cfg{Name: "mtp", Quick: 40000, Thorough: 1000000}, func(r *pbt.Run) {
		n := rapid.IntRange(1, 16).Draw(r.T, "n")
		base := uint32(rapid.IntRange(1, 2000000000).Draw(r.T, "base"))
		ts := make([]uint32, n)
		for i := range ts {
			ts[i] = base + uint32(rapid.IntRange(0, 40).Draw(r.T, "dt"))
			if rapid.IntRange(0, 9).Draw(r.T, "hi") == 0 {
				ts[i] = 0xffffff00 + uint32(rapid.IntRange(0, 255).Draw(r.T, "x")) // above 2^31: sign handling
			}
		}
		r.Case(ts)
		r.Class(fmt.Sprintf("n=%d", min(n, 12)))
		if n > 1 {
			r.NonTrivial()
		}
		if err := checkMTP(ts); err != nil {
			r.Failf("%v", err)
		}
	})
}

// ---------------------------------------------------------------------------------------------

type compactCase struct {
	Bits uint32 `json:"bits"`
	Hash string `json:"hash"` // 32 bytes hex, internal order
}

func checkCompact(c compactCase) error {
	want, neg, of := consensus.SetCompact(c.Bits)
	got := btc.SetCompact(c.Bits)
	if !of {
		w := new(big.Int).Set(want)
		if neg {
			w.Neg(w)
		}
		if got.Cmp(w) != 0 {
			return fmt.Errorf("SetCompact(%08x): gocoin %s, reference %s (negative=%v)", c.Bits, got, want, neg)
		}
		if !neg && want.Sign() > 0 {
			// canonical re-encoding of a decoded value
			if g, w2 := btc.GetCompact(new(big.Int).Set(want)), consensus.GetCompact(want); g != w2 {
				return fmt.Errorf("GetCompact(%s): gocoin %08x, reference %08x", want, g, w2)
			}
			var h [32]byte
			hb, _ := hex.DecodeString(c.Hash)
			copy(h[:], hb)
			// proof of work for a legitimate target: hash <= target
			limit := new(big.Int).Lsh(big.NewInt(1), 256)
			if g, w2 := btc.CheckProofOfWork(btc.NewUint256(h[:]), c.Bits), consensus.CheckProofOfWork(h, c.Bits, limit); g != w2 {
				return fmt.Errorf("CheckProofOfWork(hash %x, bits %08x): gocoin %v, reference %v", h, c.Bits, g, w2)
			}
		}
	}
	return nil
}

func TestCompact(t *testing.T) {
	pbt.Check(t, pbt.Cfg{Name: "compact", Quick: 100000, Thorough: 3000000}, func(r *pbt.Run) {
		exp := uint32(rapid.IntRange(0, 36).Draw(r.T, "exp"))
		if rapid.IntRange(0, 19).Draw(r.T, "wild") == 0 {
			exp = uint32(rapid.IntRange(0, 255).Draw(r.T, "exp2"))
		}
		man := uint32(rapid.IntRange(0, 0xffffff).Draw(r.T, "man"))
		switch rapid.IntRange(0, 5).Draw(r.T, "mansel") {
		case 0:
			man &= 0xff
		case 1:
			man &= 0xffff
		case 2:
			man |= 0x800000
		}
		c := compactCase{Bits: exp<<24 | man}
		// hash near the target: target, target±1, random
		tgt, neg, of := consensus.SetCompact(c.Bits)
		hv := new(big.Int)
		if !neg && !of && tgt.BitLen() <= 256 {
			hv.Set(tgt)
			hv.Add(hv, big.NewInt(int64(rapid.IntRange(-1, 1).Draw(r.T, "d"))))
			if hv.Sign() < 0 || hv.BitLen() > 256 {
				hv.SetInt64(0)
			}
		}
		if rapid.IntRange(0, 3).Draw(r.T, "rnd") == 0 {
			hv.SetBytes(rapid.SliceOfN(rapid.Byte(), 32, 32).Draw(r.T, "h"))
		}
		be := hv.FillBytes(make([]byte, 32))
		var le [32]byte
		for i := range be {
			le[31-i] = be[i]
		}
		c.Hash = fmt.Sprintf("%x", le[:])
		r.Case(c)
		switch {
		case of:
			r.Class("overflow")
		case neg:
			r.Class("negative")
		case tgt.Sign() == 0:
			r.Class("zero")
		default:
			r.Class("positive")
			r.NonTrivial()
		}
		if err := checkCompact(c); err != nil {
			r.Failf("%v", err)
		}
	})
}

// ---------------------------------------------------------------------------------------------

// checkMerkle: the list is given as small integers; equal integers are equal leaves.
func checkMerkle(ids []int) error {
	hs := make([][32]byte, len(ids))
	gs := make([][32]byte, len(ids), 3*len(ids)+4)
	for i, id := range ids {
		hs[i] = wire.DSHA([]byte{byte(id), byte(id >> 8), 0x33})
		gs[i] = hs[i]
	}
	wantRoot, wantMut := consensus_merkle(hs)
	gotRoot, gotMut := btc.CalcMerkle(gs)
	if !bytes.Equal(gotRoot, wantRoot[:]) || gotMut != wantMut {
		return fmt.Errorf("merkle of leaves %v: gocoin (%x, mutated=%v), reference (%x, mutated=%v)", ids, gotRoot[:6], gotMut, wantRoot[:6], wantMut)
	}
	return nil
}

func consensus_merkle(hs [][32]byte) ([32]byte, bool) { return wire.MerkleRoot(hs) }

func TestMerkle(t *testing.T) {
	pbt.Check(t, pbt.Cfg{Name: "merkle", Quick: 60000, Thorough: 1500000}, func(r *pbt.Run) {
		n := rapid.IntRange(1, 40).Draw(r.T, "n")
		ids := make([]int, n)
		for i := range ids {
			ids[i] = i
		}
		// CVE-2012-2459 shapes: repeat the tail, or arbitrary duplicates
		switch rapid.IntRange(0, 3).Draw(r.T, "shape") {
		case 0:
			k := rapid.IntRange(1, n).Draw(r.T, "tail")
			ids = append(ids, ids[n-k:]...)
			r.Class("tail-repeated")
		case 1:
			for j := 0; j < rapid.IntRange(1, 3).Draw(r.T, "dups"); j++ {
				a, b := rapid.IntRange(0, n-1).Draw(r.T, "a"), rapid.IntRange(0, n-1).Draw(r.T, "b")
				ids[a] = ids[b]
			}
			r.Class("duplicates")
		default:
			r.Class("distinct")
		}
		r.Case(ids)
		if len(ids) > 1 {
			r.NonTrivial()
		}
		if err := checkMerkle(ids); err != nil {
			r.Failf("%v", err)
		}
	})
}

// ---------------------------------------------------------------------------------------------

func checkHeightScript(h uint32) error {
	if g, w := script.UintToScript(h), consensus.HeightScript(h); !bytes.Equal(g, w) {
		return fmt.Errorf("BIP34 encoding of height %d: gocoin %x, reference %x", h, g, w)
	}
	return nil
}

func TestHeightScript(t *testing.T) {
	pbt.Check(t, pbt.Cfg{Name: "height_script", Quick: 60000, Thorough: 2000000}, func(r *pbt.Run) {
		var h uint32
		switch rapid.IntRange(0, 3).Draw(r.T, "sel") {
		case 0:
			h = uint32(rapid.IntRange(0, 300).Draw(r.T, "small"))
		case 1:
			e := uint(rapid.IntRange(7, 31).Draw(r.T, "e"))
			h = uint32(int64(1)<<e + int64(rapid.IntRange(-2, 2).Draw(r.T, "d")))
		case 2:
			h = uint32(rapid.IntRange(0, 2000000).Draw(r.T, "real"))
		default:
			h = rapid.Uint32().Draw(r.T, "any")
		}
		r.Case(h)
		r.Class("height")
		r.NonTrivial()
		if err := checkHeightScript(h); err != nil {
			r.Failf("%v", err)
		}
	})
}

// ---------------------------------------------------------------------------------------------

type finalCase struct {
	Lock   uint32   `json:"lock"`
	Seqs   []uint32 `json:"seqs"`
	Height uint32   `json:"height"`
	Time   uint32   `json:"time"`
}

func checkFinal(c finalCase) error {
	rt := &wire.Tx{Version: 1, LockTime: c.Lock, Out: []wire.TxOut{{Value: 1, PkScript: []byte{0x51}}}}
	for i, s := range c.Seqs {
		rt.In = append(rt.In, wire.TxIn{PrevIndex: uint32(i), Sequence: s})
		rt.In[i].PrevHash[0] = 1
	}
	gt, _ := btc.NewTx(rt.Serialize(false))
	if gt == nil {
		return fmt.Errorf("own encoding refused")
	}
	if g, w := gt.IsFinal(c.Height, c.Time), consensus.IsFinalTx(rt, c.Height, int64(c.Time)); g != w {
		return fmt.Errorf("IsFinal(lock=%d seqs=%x height=%d time=%d): gocoin %v, reference %v", c.Lock, c.Seqs, c.Height, c.Time, g, w)
	}
	return nil
}

func TestIsFinal(t *testing.T) {
	pbt.Check(t, pbt.Cfg{Name: "is_final", Quick: 60000, Thorough: 1500000}, func(r *pbt.Run) {
		c := finalCase{}
		c.Height = uint32(rapid.IntRange(0, 1000000).Draw(r.T, "h"))
		c.Time = uint32(rapid.IntRange(500000000, 2000000000).Draw(r.T, "t"))
		switch rapid.IntRange(0, 4).Draw(r.T, "locksel") {
		case 0:
			c.Lock = 0
		case 1:
			c.Lock = uint32(int64(c.Height) + int64(rapid.IntRange(-2, 2).Draw(r.T, "d")))
		case 2:
			c.Lock = uint32(int64(c.Time) + int64(rapid.IntRange(-2, 2).Draw(r.T, "d")))
		case 3:
			c.Lock = uint32(500000000 + rapid.IntRange(-2, 2).Draw(r.T, "d"))
		default:
			c.Lock = rapid.Uint32().Draw(r.T, "lock")
		}
		n := rapid.IntRange(1, 4).Draw(r.T, "nin")
		for i := 0; i < n; i++ {
			c.Seqs = append(c.Seqs, rapid.SampledFrom([]uint32{0xffffffff, 0xfffffffe, 0, 1, 0x80000000}).Draw(r.T, "seq"))
		}
		r.Case(c)
		r.Class("final")
		if c.Lock != 0 {
			r.NonTrivial()
		}
		if err := checkFinal(c); err != nil {
			r.Failf("%v", err)
		}
	})
}
