import json,os
M={
 "m1_compressed_raw_script_len_off_by_one":("lib/utxo/unspent_recc.go","""			off += n
			i -= 6
			rec.Outs[idx].PKScr = dat[off : off+i]""","""			off += n
			i -= 5
			rec.Outs[idx].PKScr = dat[off : off+i]"""),
 "m2_comprscrlen_entry":("lib/utxo/unspent_recc.go","ComprScrLen     = []int{21, 21, 33, 33, 33, 33}","ComprScrLen     = []int{21, 21, 33, 33, 33, 32}"),
 "m3_amount_exponent_10":("lib/btc/funcs.go","	for (n%10) == 0 && e < 9 {","	for (n%10) == 0 && e <= 9 {"),
 "m4_oneutxorecc_skips_no_length_prefix":("lib/utxo/unspent_recc.go","""		if i < 6 {
			i = ComprScrLen[i]
		} else {
			off += n
			i -= 6
		}
		off += i""","""		if i < 6 {
			i = ComprScrLen[i]
		} else {
			i -= 6
		}
		off += i"""),
 "m5_coinbase_bit_dropped_plain":("lib/utxo/unspent_recu.go","""	outcnt := uint64(len(rec.Outs) << 1)
	if rec.Coinbase {
		outcnt |= 1
	}""","""	outcnt := uint64(len(rec.Outs) << 1)
	if false && rec.Coinbase {
		outcnt |= 1
	}"""),
 "m6_fresh_dir_keeps_plain_serializer":("lib/utxo/unspent_db.go","""	db.ComprssedUTXO = opts.CompressRecords
	db.useRecordFormat()

	return
}""","""	db.ComprssedUTXO = opts.CompressRecords

	return
}"""),
 "m7_putule_boundary_65536":("lib/btc/funcs.go","""	if uvl < 0x10000 {
		b[0] = 0xfd
		binary.LittleEndian.PutUint16(b[1:3], uint16(uvl))""","""	if uvl <= 0x10000 {
		b[0] = 0xfd
		binary.LittleEndian.PutUint16(b[1:3], uint16(uvl))"""),
 "m8_save_without_waiting_for_previous_file":("lib/utxo/unspent_db.go","	db.lastFileClosed.Wait()\n\n	vhook.Point(\"utxo.save.start\")","	vhook.Point(\"utxo.save.start\")"),
 "m9_p2pk_parity_from_x":("lib/script/misc.go","			out[0] |= pk[64] & 0x01","			out[0] |= pk[32] & 0x01"),
 "m10_loader_drops_last_record_of_full_pack":("lib/utxo/unspent_db.go","		if rec_idx == len(recs)-1 {\n			ch <- recs\n","		if rec_idx == len(recs)-1 {\n			ch <- recs[:rec_idx]\n"),
}
for name,(f,old,new) in M.items():
    s=open("/repo/"+f).read()
    assert s.count(old)==1,(name,s.count(old))
    os.makedirs(name,exist_ok=True)
    bn=os.path.basename(f)
    open(name+"/"+bn,"w").write(s.replace(old,new))
    json.dump({"Replace":{"/repo/"+f:"/tmp/c10mut/%s/%s"%(name,bn)}},open(name+"/ov.json","w"))
print(" ".join(M))
