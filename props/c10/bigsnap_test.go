package c10

// snapshot_bulk: reload of snapshots that are larger than the loader's ring of record batches
// (NewUnspentDb reads UTXO.db in batches of 65536 records through 6 buffers while a second goroutine
// inserts them into the 256 maps).  400k..1.5M minimal records are committed through CommitBlockTxs, the
// database is closed and reopened several times under drawn GOMAXPROCS values, each time in a process of its own;
// after every open the number of records and an order-independent digest over every decoded record are compared
// with what was written (computed by the parent from the case alone), plus membership of a sample through UnspentGet.

import (
	"bytes"
	"encoding/binary"
	"encoding/hex"
	"encoding/json"
	"fmt"
	"os"
	"os/exec"
	"path/filepath"
	"runtime/debug"
	"strconv"
	"strings"
	"testing"
	"time"

	"github.com/piotrnar/gocoin/lib/btc"
	"github.com/piotrnar/gocoin/lib/utxo"
	"pgregory.net/rapid"
	"verif/pbt"
)

type bulkSnapCase struct {
	Profile  string `json:"profile"` // label: how the numbers were chosen
	Seed     uint64 `json:"seed"`
	Count    int    `json:"count"`    // records
	Maps     int    `json:"maps"`     // the txids' first bytes take this many values (1 = all records in one of the 256 maps, 256 = spread)
	Compress bool   `json:"compress"` // CompressRecords (fresh directory)
	PerBlock int    `json:"per_block"`
	Procs    []int  `json:"procs"` // GOMAXPROCS of the writer process, then of every reopening process
}

func init() {
	pbt.RegisterReplay("snapshot_bulk", func(raw json.RawMessage) error {
		var c bulkSnapCase
		if err := json.Unmarshal(raw, &c); err != nil {
			return err
		}
		return checkBulkSnapshot(c)
	})
}

func mix64(x uint64) uint64 {
	x += 0x9e3779b97f4a7c15
	x = (x ^ x>>30) * 0xbf58476d1ce4e5b9
	x = (x ^ x>>27) * 0x94d049bb133111eb
	return x ^ x>>31
}

// record i of the case: one unspent output out of 1 or 2, P2WPKH-like or P2PKH script
func bulkSnapRec(c *bulkSnapCase, i int, rec *utxo.UtxoRec, scr *[25]byte) {
	s := mix64(c.Seed ^ uint64(i)*0xd1342543de82ef95)
	rec.TxID[0] = byte(s>>8) % byte(min(c.Maps, 255))
	if c.Maps >= 256 {
		rec.TxID[0] = byte(s >> 8)
	}
	binary.LittleEndian.PutUint32(rec.TxID[1:5], uint32(i)) // distinct 8-byte keys
	binary.LittleEndian.PutUint64(rec.TxID[5:13], s)
	binary.LittleEndian.PutUint64(rec.TxID[13:21], mix64(s))
	binary.LittleEndian.PutUint64(rec.TxID[21:29], mix64(s+1))
	rec.TxID[29], rec.TxID[30], rec.TxID[31] = byte(i), byte(i>>8), byte(i>>16)
	rec.InBlock = 100 + uint32(i/max(1, c.PerBlock))
	rec.Coinbase = s>>20&15 == 0
	n := 1 + int(s>>24&1)
	rec.Outs = make([]*utxo.UtxoTxOut, n)
	var pk []byte
	if s>>28&1 == 0 {
		scr[0], scr[1] = 0, 20
		binary.LittleEndian.PutUint64(scr[2:], s)
		binary.LittleEndian.PutUint64(scr[10:], uint64(i))
		pk = scr[:22]
	} else {
		scr[0], scr[1], scr[2], scr[23], scr[24] = 0x76, 0xa9, 20, 0x88, 0xac
		binary.LittleEndian.PutUint64(scr[3:], s)
		binary.LittleEndian.PutUint64(scr[11:], uint64(i))
		pk = scr[:25]
	}
	rec.Outs[int(s>>32)%n] = &utxo.UtxoTxOut{Value: (s >> 13) % (maxMoney + 1), PKScr: append([]byte{}, pk...)}
}

// order-independent digest of a set of records
type setDigest struct {
	Count uint64 `json:"count"`
	Sum   uint64 `json:"sum"`
	Xor   uint64 `json:"xor"`
}

func (d *setDigest) add(rec *utxo.UtxoRec) {
	h := uint64(14695981039346656037)
	w := func(b []byte) {
		for _, x := range b {
			h = (h ^ uint64(x)) * 1099511628211
		}
	}
	var tmp [16]byte
	w(rec.TxID[:])
	binary.LittleEndian.PutUint32(tmp[:], rec.InBlock)
	if rec.Coinbase {
		tmp[4] = 1
	} else {
		tmp[4] = 0
	}
	binary.LittleEndian.PutUint32(tmp[5:], uint32(len(rec.Outs)))
	w(tmp[:9])
	for i, o := range rec.Outs {
		if o != nil {
			binary.LittleEndian.PutUint32(tmp[:], uint32(i))
			binary.LittleEndian.PutUint64(tmp[4:], o.Value)
			w(tmp[:12])
			w(o.PKScr)
		}
	}
	h = mix64(h)
	d.Count++
	d.Sum += h
	d.Xor ^= h
}

type bulkJob struct {
	Case  bulkSnapCase `json:"case"`
	Dir   string       `json:"dir"`
	Write bool         `json:"write"`
	Out   string       `json:"out"`
}

type bulkResult struct {
	Panic      string    `json:"panic,omitempty"`
	Done       bool      `json:"done"`
	OpenHeight uint32    `json:"open_height"`
	OpenHash   string    `json:"open_hash"`
	Flag       bool      `json:"flag"`
	Open       setDigest `json:"open"`
	Missing    int       `json:"missing"`        // sampled records that UnspentGet does not find / finds differently
	MissingEx  string    `json:"missing_ex"`     // first of them
	PerMap     []int     `json:"per_map_counts"` // records per first byte (non-zero entries only, "byte:count")
	Header     header    `json:"header"`
}

func bulkLastBlock(c *bulkSnapCase) (uint32, []byte) {
	nb := (c.Count + c.PerBlock - 1) / c.PerBlock
	h := make([]byte, 32)
	binary.LittleEndian.PutUint64(h, mix64(c.Seed+uint64(nb)))
	h[31] = byte(nb)
	return 100 + uint32(nb) - 1, h
}

func bulkChildMain(jf string) {
	var j bulkJob
	var res bulkResult
	b, err := os.ReadFile(jf)
	if err == nil {
		err = json.Unmarshal(b, &j)
	}
	if err != nil {
		fmt.Fprintln(os.Stderr, "c10 bulk child: bad job:", err)
		os.Exit(3)
	}
	func() {
		defer func() {
			if p := recover(); p != nil {
				res.Panic = fmt.Sprintf("%v\n%s", p, debug.Stack())
			}
		}()
		c := &j.Case
		utxo.UTXO_WRITING_TIME_TARGET = 0
		db := utxo.NewUnspentDb(&utxo.NewUnspentOpts{Dir: j.Dir + string(os.PathSeparator), CompressRecords: c.Compress})
		res.OpenHeight, res.OpenHash, res.Flag = db.LastBlockHeight, hex.EncodeToString(db.LastBlockHash), db.ComprssedUTXO
		per := map[int]int{}
		for i := range db.HashMap {
			for _, v := range db.HashMap[i] {
				rec := utxo.NewUtxoRecStatic(*v)
				res.Open.add(rec)
				per[i]++
			}
		}
		for k, n := range per {
			res.PerMap = append(res.PerMap, k<<24|n)
		}
		if !j.Write {
			// membership sample through the single-output lookup
			var rec utxo.UtxoRec
			var scr [25]byte
			step := max(1, c.Count/20000)
			for i := 0; i < c.Count; i += step {
				bulkSnapRec(c, i, &rec, &scr)
				for v, o := range rec.Outs {
					got := db.UnspentGet(&btc.TxPrevOut{Hash: rec.TxID, Vout: uint32(v)})
					ok := (o == nil) == (got == nil)
					if ok && o != nil {
						ok = got.Value == o.Value && bytes.Equal(got.Pk_script, o.PKScr) && got.BlockHeight == rec.InBlock && got.WasCoinbase == rec.Coinbase
					}
					if !ok {
						res.Missing++
						if res.MissingEx == "" {
							res.MissingEx = fmt.Sprintf("record %d (txid %x) output %d", i, rec.TxID, v)
						}
					}
				}
			}
		} else {
			var scr [25]byte
			for from := 0; from < c.Count; from += c.PerBlock {
				to := min(c.Count, from+c.PerBlock)
				ch := &utxo.BlockChanges{Height: 100 + uint32(from/c.PerBlock), DeledTxs: map[[32]byte][]bool{}}
				ch.AddList = make([]*utxo.UtxoRec, 0, to-from)
				for i := from; i < to; i++ {
					rec := new(utxo.UtxoRec)
					bulkSnapRec(c, i, rec, &scr)
					ch.AddList = append(ch.AddList, rec)
				}
				hash := make([]byte, 32)
				binary.LittleEndian.PutUint64(hash, mix64(c.Seed+uint64(from/c.PerBlock)+1))
				hash[31] = byte(from/c.PerBlock + 1)
				if err := db.CommitBlockTxs(ch, hash); err != nil {
					panic(fmt.Sprint("CommitBlockTxs: ", err))
				}
			}
			db.Close()
			res.Header = readHeaderOnly(j.Dir)
		}
		res.Done = true
	}()
	out, _ := json.Marshal(&res)
	os.WriteFile(j.Out, out, 0o644)
	os.Exit(0)
}

// header fields and the number of framed records, without loading the file into memory at once
func readHeaderOnly(dir string) (h header) {
	f, err := os.Open(filepath.Join(dir, "UTXO.db"))
	if err != nil {
		return
	}
	defer f.Close()
	h.Present = true
	var hd [48]byte
	if _, err := f.Read(hd[:]); err != nil {
		h.Error = err.Error()
		return
	}
	u := binary.LittleEndian.Uint64(hd[:])
	h.Height, h.Compressed = uint32(u), u>>63 != 0
	h.Hash = hex.EncodeToString(hd[8:40])
	h.Count = binary.LittleEndian.Uint64(hd[40:])
	return
}

func runBulkPhase(tmp string, n int, j bulkJob, procs int) (*bulkResult, error) {
	j.Out = filepath.Join(tmp, fmt.Sprintf("bulkresult%d.json", n))
	jf := filepath.Join(tmp, fmt.Sprintf("bulkjob%d.json", n))
	b, _ := json.Marshal(&j)
	if err := os.WriteFile(jf, b, 0o644); err != nil {
		return nil, fmt.Errorf("harness: %v", err)
	}
	cmd := exec.Command(os.Args[0], "-test.run", "^$")
	cmd.Env = append(os.Environ(), "VERIF_C10_BULKJOB="+jf, "VERIF_REPLAY=", "VERIF_STATS=", fmt.Sprintf("GOMAXPROCS=%d", procs))
	var stderr bytes.Buffer
	cmd.Stderr = &stderr
	if err := cmd.Start(); err != nil {
		return nil, fmt.Errorf("harness: %v", err)
	}
	timer := time.AfterFunc(20*time.Minute, func() { cmd.Process.Kill() })
	werr := cmd.Wait()
	hung := !timer.Stop()
	rb, rerr := os.ReadFile(j.Out)
	if rerr != nil {
		s := strings.TrimSpace(stderr.String())
		if len(s) > 1500 {
			s = s[len(s)-1500:]
		}
		if hung {
			return nil, fmt.Errorf("phase %d: the process did not finish within 20 minutes (killed): %s", n, s)
		}
		return nil, fmt.Errorf("phase %d: the process died without a result (%v): %s", n, werr, s)
	}
	var res bulkResult
	if err := json.Unmarshal(rb, &res); err != nil {
		return nil, fmt.Errorf("harness: bad result: %v", err)
	}
	if res.Panic != "" {
		return nil, fmt.Errorf("phase %d: panic: %.1500s", n, res.Panic)
	}
	if !res.Done {
		return nil, fmt.Errorf("phase %d: not completed", n)
	}
	return &res, nil
}

func checkBulkSnapshot(c bulkSnapCase) error {
	if c.Count < 1 || c.PerBlock < 1 || len(c.Procs) < 2 || c.Maps < 1 {
		return nil
	}
	tmp, err := os.MkdirTemp("", "c10bulk")
	if err != nil {
		return fmt.Errorf("harness: %v", err)
	}
	defer os.RemoveAll(tmp)
	dir := filepath.Join(tmp, "db")
	os.MkdirAll(dir, 0o755)

	// what was written, from the case alone
	var want setDigest
	var rec utxo.UtxoRec
	var scr [25]byte
	for i := 0; i < c.Count; i++ {
		bulkSnapRec(&c, i, &rec, &scr)
		want.add(&rec)
	}
	height, hash := bulkLastBlock(&c)

	r, err := runBulkPhase(tmp, 0, bulkJob{Case: c, Dir: dir, Write: true}, c.Procs[0])
	if err != nil {
		return err
	}
	if r.Open.Count != 0 {
		return fmt.Errorf("fresh directory holds %d records", r.Open.Count)
	}
	h := r.Header
	if !h.Present || h.Error != "" || h.Height != height || h.Hash != hex.EncodeToString(hash) || h.Count != uint64(c.Count) || h.Compressed != c.Compress {
		return fmt.Errorf("UTXO.db header after Close: present=%v %s height %d hash %s count %d compressed=%v; written: height %d hash %x count %d compressed=%v",
			h.Present, h.Error, h.Height, h.Hash, h.Count, h.Compressed, height, hash, c.Count, c.Compress)
	}
	for k, p := range c.Procs[1:] {
		r, err = runBulkPhase(tmp, k+1, bulkJob{Case: c, Dir: dir}, p)
		if err != nil {
			return fmt.Errorf("reopening %d (GOMAXPROCS=%d): %v", k+1, p, err)
		}
		if r.Open != want {
			return fmt.Errorf("reopening %d (GOMAXPROCS=%d): the database holds %d records (digest %x/%x), %d were committed and saved (digest %x/%x; header of UTXO.db: count %d) - %d records lost; maps in use: %d",
				k+1, p, r.Open.Count, r.Open.Sum, r.Open.Xor, want.Count, want.Sum, want.Xor, h.Count, int64(want.Count)-int64(r.Open.Count), len(r.PerMap))
		}
		if r.Missing != 0 {
			return fmt.Errorf("reopening %d (GOMAXPROCS=%d): %d sampled outputs are not returned by UnspentGet as written, e.g. %s", k+1, p, r.Missing, r.MissingEx)
		}
		if r.OpenHeight != height || r.OpenHash != hex.EncodeToString(hash) || r.Flag != c.Compress {
			return fmt.Errorf("reopening %d: database at block %d %s compressed=%v, closed at %d %x compressed=%v", k+1, r.OpenHeight, r.OpenHash, r.Flag, height, hash, c.Compress)
		}
	}
	return nil
}

// the four profiles of the quick tier (one per shard 0..3); the thorough tier draws among them on every shard
var bulkProfiles = []string{"1.5M_one_map", "1M_few_maps", "batch_boundary", "1M_spread"}

func genBulkSnap(t *rapid.T, profile string) bulkSnapCase {
	c := bulkSnapCase{Profile: profile, Seed: rapid.Uint64().Draw(t, "seed"), Compress: rapid.Bool().Draw(t, "compress")}
	switch profile {
	case "1.5M_one_map":
		c.Count = rapid.IntRange(1400000, 1600000).Draw(t, "count")
		c.Maps = 1
	case "1M_few_maps":
		c.Count = rapid.IntRange(900000, 1300000).Draw(t, "count")
		c.Maps = rapid.SampledFrom([]int{1, 2, 3}).Draw(t, "maps")
	case "batch_boundary":
		k := rapid.SampledFrom([]int{6, 7, 5, 8}).Draw(t, "k")
		c.Count = k*65536 + rapid.SampledFrom([]int{0, 1, -1, 2, 65535}).Draw(t, "delta")
		c.Maps = rapid.SampledFrom([]int{1, 1, 256}).Draw(t, "maps")
	default:
		c.Count = rapid.IntRange(800000, 1200000).Draw(t, "count")
		c.Maps = rapid.SampledFrom([]int{256, 16, 256}).Draw(t, "maps")
	}
	c.PerBlock = rapid.SampledFrom([]int{100000, 250000, 65536}).Draw(t, "perblock")
	n := rapid.IntRange(2, 4).Draw(t, "reopens")
	c.Procs = append(c.Procs, rapid.SampledFrom([]int{16, 2}).Draw(t, "wprocs"))
	for i := 0; i < n; i++ {
		c.Procs = append(c.Procs, rapid.SampledFrom([]int{16, 2, 1, 16}).Draw(t, "procs"))
	}
	return c
}

func TestSnapshotBulk(t *testing.T) {
	thorough := pbt.Tier() == "thorough"
	shard, _ := pbt.Shard()
	if !thorough && shard >= len(bulkProfiles) {
		return // quick tier: four cases in total, on shards 0..3
	}
	pbt.Check(t, pbt.Cfg{Name: "snapshot_bulk", Quick: 16, Thorough: 96}, func(r *pbt.Run) {
		profile := bulkProfiles[shard%len(bulkProfiles)]
		if thorough {
			profile = rapid.SampledFrom(bulkProfiles).Draw(r.T, "profile")
		}
		c := genBulkSnap(r.T, profile)
		if !thorough {
			// four cases only: make sure both record formats occur in every quick run
			seed, _ := strconv.ParseUint(os.Getenv("VERIF_SEED"), 10, 64)
			c.Compress = (uint64(shard)+seed)%2 == 1
		}
		r.Case(c)
		r.Class(profile)
		if c.Count > 6*65536 {
			r.Class("more_than_6_batches")
		}
		if c.Maps <= 3 {
			r.Class("concentrated_in_few_maps")
		}
		if c.Compress {
			r.Class("compressed")
		} else {
			r.Class("plain")
		}
		r.NonTrivial()
		pbt.AddExtra("bulk_snapshot_records", int64(c.Count))
		pbt.AddExtra("bulk_snapshot_reloads", int64(len(c.Procs)-1))
		if err := checkBulkSnapshot(c); err != nil {
			r.Failf("%v", err)
		}
	})
}
