package c10

// live_allocator: records through a live UnspentDB that stores them with the client's allocator.
//
// The client installs lib/others/memory as utxo.Memory_Malloc / utxo.Memory_Free (client/common/config.go); with
// the default (Go heap) Memory_Free is a no-op, so reading a record after it was released goes unnoticed.  Here a
// child process installs memory.NewAllocator() the way the client does, warmed up so that a released slot is the
// next one handed out, and wraps Free so that it fills the released bytes with 0xDD before giving them back (legal:
// nobody may read released memory).  Blocks that add multi-output records and partially spend earlier ones - small
// records and records above 128 KiB, which get a mapping of their own that Free unmaps - are committed through
// CommitBlockTxs (adds and deletes run in parallel goroutines there); after every block every record and every
// output (whole-record decode and UnspentGet) must equal the in-memory model, and again after Close and reopen.

import (
	"bytes"
	"encoding/hex"
	"encoding/json"
	"fmt"
	"os"
	"os/exec"
	"path/filepath"
	"runtime/debug"
	"sort"
	"strings"
	"sync/atomic"
	"testing"
	"time"

	"github.com/piotrnar/gocoin/lib/others/memory"
	"github.com/piotrnar/gocoin/lib/utxo"
	"pgregory.net/rapid"
	"verif/pbt"
)

type allocCase struct {
	Compress bool        `json:"compress"`
	Poison   bool        `json:"poison"` // Free fills the released bytes with 0xDD first (false: the allocator as it is)
	Blocks   []blockCase `json:"blocks"`
}

func init() {
	pbt.RegisterReplay("live_allocator", func(raw json.RawMessage) error {
		var c allocCase
		if err := json.Unmarshal(raw, &c); err != nil {
			return err
		}
		return checkAllocDB(c)
	})
}

type allocJob struct {
	Case allocCase `json:"case"`
	Dir  string    `json:"dir"`
	Out  string    `json:"out"`
}

type allocResult struct {
	Error string `json:"error,omitempty"` // disagreement with the model
	Panic string `json:"panic,omitempty"`
	Done  bool   `json:"done"`
	Frees int64  `json:"frees"`
	Big   int64  `json:"big_frees"` // released records above 128 KiB
}

// installClientAllocator mirrors client/common/config.go plus the warm-up of a long-running node (see also
// /verif/env/node.go UseClientAllocator): every small size class gets a full page, then all but one slot are freed,
// so that a released slot is handed out again immediately.
func installClientAllocator(poison bool, frees, big *int64) {
	a := memory.NewAllocator()
	seen := map[int]bool{}
	for size := 1; size <= 4096; size += 8 {
		first := a.Malloc(size)
		c := cap(*first)
		if seen[c] {
			a.Free(first)
			continue
		}
		seen[c] = true
		held := []*[]byte{first}
		pages := a.SharedMmaps.Load()
		for a.SharedMmaps.Load() == pages {
			held = append(held, a.Malloc(size))
		}
		n := len(held) - 1
		for i := 1; i < n; i++ {
			held = append(held, a.Malloc(size))
		}
		for i := len(held) - 1; i >= 1; i-- {
			if i != n {
				a.Free(held[i])
			}
		}
	}
	utxo.Memory_Malloc = a.Malloc
	utxo.Memory_Free = func(b *[]byte) {
		atomic.AddInt64(frees, 1)
		if len(*b) > 128<<10 {
			atomic.AddInt64(big, 1)
		}
		if poison {
			s := *b
			for i := range s {
				s[i] = 0xDD
			}
		}
		a.Free(b)
	}
}

func allocChildMain(jf string) {
	var j allocJob
	var res allocResult
	b, err := os.ReadFile(jf)
	if err == nil {
		err = json.Unmarshal(b, &j)
	}
	if err != nil {
		fmt.Fprintln(os.Stderr, "c10 alloc child: bad job:", err)
		os.Exit(3)
	}
	write := func() {
		out, _ := json.Marshal(&res)
		os.WriteFile(j.Out, out, 0o644)
	}
	func() {
		defer func() {
			if p := recover(); p != nil {
				res.Panic = fmt.Sprintf("%v\n%s", p, debug.Stack())
			}
		}()
		var fm freeCounter
		installClientAllocator(j.Case.Poison, &fm.n, &fm.big)
		utxo.UTXO_WRITING_TIME_TARGET = 0
		dir := j.Dir + string(os.PathSeparator)
		db := utxo.NewUnspentDb(&utxo.NewUnspentOpts{Dir: dir, CompressRecords: j.Case.Compress})
		m := model{}
		compare := func(when string) bool {
			d, lookup := dumpDB(db)
			if diff := diffDump(m.dump(), d); diff != "" {
				res.Error = when + ": " + diff
				return false
			}
			if lookup != "" {
				res.Error = when + ": " + lookup
				return false
			}
			return true
		}
		for bi, bc := range j.Case.Blocks {
			ch := &utxo.BlockChanges{Height: bc.Height, DeledTxs: map[[32]byte][]bool{}}
			for _, a := range bc.Adds {
				ch.AddList = append(ch.AddList, a.build())
			}
			for _, s := range bc.Spends {
				var id [32]byte
				x, _ := hex.DecodeString(s.TxID)
				copy(id[:], x)
				mm := make([]bool, s.NOuts)
				for _, v := range s.Vouts {
					mm[v] = true
				}
				ch.DeledTxs[id] = mm
			}
			hash, _ := hex.DecodeString(bc.Hash)
			if err := db.CommitBlockTxs(ch, hash); err != nil {
				panic(fmt.Sprint("CommitBlockTxs: ", err))
			}
			m.apply(bc)
			if !compare(fmt.Sprintf("after block %d of %d (%d added, %d records partly/fully spent)", bi+1, len(j.Case.Blocks), len(bc.Adds), len(bc.Spends))) {
				return
			}
		}
		db.Close()
		db = utxo.NewUnspentDb(&utxo.NewUnspentOpts{Dir: dir, CompressRecords: j.Case.Compress})
		if !compare("after Close and reopen") {
			return
		}
		res.Frees, res.Big = fm.n, fm.big
		res.Done = true
	}()
	write()
	os.Exit(0)
}

type freeCounter struct{ n, big int64 }

func checkAllocDB(c allocCase) error {
	if len(c.Blocks) == 0 {
		return nil
	}
	tmp, err := os.MkdirTemp("", "c10alloc")
	if err != nil {
		return fmt.Errorf("harness: %v", err)
	}
	defer os.RemoveAll(tmp)
	dir := filepath.Join(tmp, "db")
	os.MkdirAll(dir, 0o755)
	j := allocJob{Case: c, Dir: dir, Out: filepath.Join(tmp, "result.json")}
	jf := filepath.Join(tmp, "job.json")
	b, _ := json.Marshal(&j)
	if err := os.WriteFile(jf, b, 0o644); err != nil {
		return fmt.Errorf("harness: %v", err)
	}
	cmd := exec.Command(os.Args[0], "-test.run", "^$")
	cmd.Env = append(os.Environ(), "VERIF_C10_ALLOCJOB="+jf, "VERIF_REPLAY=", "VERIF_STATS=", "GOMAXPROCS=4")
	var stderr bytes.Buffer
	cmd.Stderr = &stderr
	if err := cmd.Start(); err != nil {
		return fmt.Errorf("harness: %v", err)
	}
	timer := time.AfterFunc(childBound, func() { cmd.Process.Kill() })
	werr := cmd.Wait()
	hung := !timer.Stop()
	rb, rerr := os.ReadFile(j.Out)
	if rerr != nil {
		s := strings.TrimSpace(stderr.String())
		if i := strings.Index(s, "goroutine "); i > 0 && i < len(s) {
			s = s[:min(len(s), i+1200)]
		}
		if len(s) > 1800 {
			s = s[:1800]
		}
		if hung {
			return fmt.Errorf("the database process did not finish within %v (killed): %s", childBound, s)
		}
		return fmt.Errorf("the database process died (%v) - records kept by the client's allocator: %s", werr, strings.ReplaceAll(s, "\n", " | "))
	}
	var res allocResult
	if err := json.Unmarshal(rb, &res); err != nil {
		return fmt.Errorf("harness: bad result: %v", err)
	}
	if res.Panic != "" {
		return fmt.Errorf("panic: %.1500s", res.Panic)
	}
	if res.Error != "" {
		return fmt.Errorf("records kept by the client's allocator (released bytes poisoned=%v): %s", c.Poison, res.Error)
	}
	if !res.Done {
		return fmt.Errorf("harness: not completed")
	}
	pbt.AddExtra("allocator_frees", res.Frees)
	pbt.AddExtra("allocator_frees_above_128K", res.Big)
	return nil
}

func genAllocCase(t *rapid.T) (c allocCase, bigSpent bool, partial int) {
	c.Compress = rapid.Bool().Draw(t, "compress")
	c.Poison = rapid.IntRange(0, 3).Draw(t, "poison") != 0
	nb := rapid.IntRange(2, 4).Draw(t, "nblocks")
	height := uint32(rapid.SampledFrom([]int{1, 300, 700000}).Draw(t, "base"))
	m := model{}
	prefixes := map[[8]byte]bool{}
	bigIDs := map[[32]byte]bool{}
	for bi := 0; bi < nb; bi++ {
		b := blockCase{Height: height, Hash: hex.EncodeToString(fill(rapid.Uint64().Draw(t, "bhash"), 32))}
		height++
		if len(m) > 0 {
			ids := make([][32]byte, 0, len(m))
			for id := range m {
				ids = append(ids, id)
			}
			sort.Slice(ids, func(i, j int) bool { return bytes.Compare(ids[i][:], ids[j][:]) < 0 })
			ns := rapid.IntRange(1, min(len(ids), 25)).Draw(t, "nspends")
			which := rapid.SliceOfNDistinct(rapid.IntRange(0, len(ids)-1), ns, ns, rapid.ID[int]).Draw(t, "spent")
			sort.Ints(which)
			for _, w := range which {
				mr := m[ids[w]]
				var live []int
				for i := range mr.Outs {
					live = append(live, i)
				}
				sort.Ints(live)
				s := spendCase{TxID: hex.EncodeToString(ids[w][:]), NOuts: mr.NOuts}
				if len(live) == 1 || rapid.IntRange(0, 7).Draw(t, "spendall") == 0 {
					s.Vouts = live
				} else {
					// partial: the record survives with fewer outputs and is re-serialized
					k := rapid.IntRange(1, min(len(live)-1, 3)).Draw(t, "k")
					pos := rapid.SliceOfNDistinct(rapid.IntRange(0, len(live)-1), k, k, rapid.ID[int]).Draw(t, "vouts")
					sort.Ints(pos)
					for _, p := range pos {
						s.Vouts = append(s.Vouts, live[p])
					}
					partial++
					if bigIDs[ids[w]] {
						bigSpent = true
					}
				}
				b.Spends = append(b.Spends, s)
			}
		}
		nadd := rapid.IntRange(3, 30).Draw(t, "nadd")
		for i := 0; i < nadd; i++ {
			rc := genRec(t, false, true)
			if rc.NOuts < 2 {
				rc.NOuts = 2 + rapid.IntRange(0, 3).Draw(t, "morenouts")
				v, _ := genAmount(t)
				rc.Outs = append(rc.Outs, outCase{Idx: rc.NOuts - 1, Value: v, Scr: genScript(t, false)})
			}
			rc.Height = b.Height
			b.Adds = append(b.Adds, rc)
		}
		if bi < 2 && rapid.IntRange(0, 1+bi).Draw(t, "big") == 0 {
			// a record above 128 KiB in both formats: a private mapping of the allocator
			b.Adds = append(b.Adds, recCase{TxID: hex.EncodeToString(fill(rapid.Uint64().Draw(t, "bigtxid"), 32)), Height: b.Height,
				NOuts: rapid.SampledFrom([]int{6000, 5500, 9000}).Draw(t, "bignouts"), Dense: true, DenseSeed: rapid.Uint64().Draw(t, "dseed")})
		}
		kept := b.Adds[:0]
		for _, rc := range b.Adds {
			var id [32]byte
			x, _ := hex.DecodeString(rc.TxID)
			copy(id[:], x)
			var p8 [8]byte
			copy(p8[:], id[:8])
			if prefixes[p8] {
				continue
			}
			prefixes[p8] = true
			if rc.Dense {
				bigIDs[id] = true
			}
			kept = append(kept, rc)
		}
		b.Adds = kept
		m.apply(b)
		c.Blocks = append(c.Blocks, b)
	}
	return
}

func TestLiveAllocator(t *testing.T) {
	pbt.Check(t, pbt.Cfg{Name: "live_allocator", Quick: 192, Thorough: 5000}, func(r *pbt.Run) {
		c, bigSpent, partial := genAllocCase(r.T)
		r.Case(c)
		if c.Compress {
			r.Class("compressed")
		} else {
			r.Class("plain")
		}
		if c.Poison {
			r.Class("free_poisons")
		} else {
			r.Class("allocator_as_is")
		}
		if partial > 0 {
			r.Class("partial_spends")
		}
		if bigSpent {
			r.Class("partial_spend_of_record_above_128K")
		}
		r.NonTrivial()
		pbt.AddExtra("allocator_partial_spends", int64(partial))
		if err := checkAllocDB(c); err != nil {
			r.Failf("%v", err)
		}
	})
}
