// Package c10 checks property C10: unspent-output records and snapshot files of gocoin are lossless.
//
//	record_roundtrip   NewUtxoRecOwn{U,C}(Serialize{U,C}(rec)) == rec; OneUtxoRec{U,C}(bytes, v) equals the
//	                   full decode for every v.  The U/C functions are called directly, so the test does not
//	                   depend on the process-global utxo.Serialize/NewUtxoRecOwn/OneUtxoRec variables.
//	amount             DecompressAmount(CompressAmount(x)) == x
//	script_compress    DecompressScript(CompressScript(s)) == s whenever CompressScript(s) != nil
//	snapshot           records committed through UnspentDB.CommitBlockTxs, Save/Close, reopened - every phase
//	                   in a process of its own (the record format is process-global state), compared with an
//	                   in-memory model; plain, compressed on a fresh directory, compressed after conversion.
package c10

import (
	"bytes"
	"crypto/sha256"
	"encoding/binary"
	"encoding/hex"
	"encoding/json"
	"fmt"
	"math/big"
	"os"
	"os/exec"
	"path/filepath"
	"runtime/debug"
	"sort"
	"strings"
	"sync"
	"testing"
	"time"

	"github.com/piotrnar/gocoin/lib/btc"
	"github.com/piotrnar/gocoin/lib/script"
	"github.com/piotrnar/gocoin/lib/utxo"
	"pgregory.net/rapid"
	"verif/pbt"
	"verif/ref/ec"
)

func TestMain(m *testing.M) {
	if jf := os.Getenv("VERIF_C10_ALLOCJOB"); jf != "" {
		allocChildMain(jf)
		return
	}
	if jf := os.Getenv("VERIF_C10_BULKJOB"); jf != "" {
		bulkChildMain(jf)
		return
	}
	if jf := os.Getenv("VERIF_C10_JOB"); jf != "" {
		childMain(jf)
		return
	}
	pbt.RegisterReplay("record_roundtrip", func(raw json.RawMessage) error {
		var c recCase
		if err := json.Unmarshal(raw, &c); err != nil {
			return err
		}
		return checkRec(c)
	})
	pbt.RegisterReplay("amount", func(raw json.RawMessage) error {
		var c amountCase
		if err := json.Unmarshal(raw, &c); err != nil {
			return err
		}
		return checkAmount(c)
	})
	pbt.RegisterReplay("script_compress", func(raw json.RawMessage) error {
		var c scr
		if err := json.Unmarshal(raw, &c); err != nil {
			return err
		}
		return checkScript(c)
	})
	pbt.RegisterReplay("snapshot", func(raw json.RawMessage) error {
		var c snapCase
		if err := json.Unmarshal(raw, &c); err != nil {
			return err
		}
		return checkSnapshot(c)
	})
	pbt.Main(m, "C10")
}

const maxMoney = 21e14

// ---------------------------------------------------------------------------------------------
// deterministic expansion of drawn seeds

func fill(seed uint64, n int) []byte {
	b := make([]byte, n)
	x := seed
	for i := 0; i < n; i += 8 {
		x += 0x9e3779b97f4a7c15
		z := x
		z = (z ^ z>>30) * 0xbf58476d1ce4e5b9
		z = (z ^ z>>27) * 0x94d049bb133111eb
		z ^= z >> 31
		for j := 0; j < 8 && i+j < n; j++ {
			b[i+j] = byte(z >> (8 * j))
		}
	}
	return b
}

// ---------------------------------------------------------------------------------------------
// key material (reference curve arithmetic)

var keys struct {
	once    sync.Once
	valid   []ec.Point // k*G, k = 1..24
	smallX  []ec.Point // points whose x is below 2^256-p, so that x+p still fits 32 bytes
	smallY  []ec.Point // points whose y is below 2^256-p
	badX    [][]byte   // 32-byte x without a point on the curve
	twoP256 *big.Int
}

func keyInit() {
	keys.once.Do(func() {
		for k := int64(1); k <= 24; k++ {
			keys.valid = append(keys.valid, ec.BaseMul(big.NewInt(k)))
		}
		for x := int64(1); len(keys.smallX) < 6 || len(keys.badX) < 6; x++ {
			if p, ok := ec.LiftX(big.NewInt(x)); ok {
				if len(keys.smallX) < 6 {
					keys.smallX = append(keys.smallX, p)
				}
			} else if len(keys.badX) < 6 {
				keys.badX = append(keys.badX, ec.Bytes32(big.NewInt(x)))
			}
		}
		// y small: x^3 = y^2-7; p = 7 (mod 9), so a cube a has the root a^((p+2)/9)
		if new(big.Int).Mod(ec.P, big.NewInt(9)).Int64() == 7 {
			e := new(big.Int).Add(ec.P, big.NewInt(2))
			e.Div(e, big.NewInt(9))
			for y := int64(1); len(keys.smallY) < 4 && y < 400; y++ {
				a := new(big.Int).Mod(big.NewInt(y*y-7), ec.P)
				r := new(big.Int).Exp(a, e, ec.P)
				if ec.OnCurve(r, big.NewInt(y)) {
					keys.smallY = append(keys.smallY, ec.Point{X: r, Y: big.NewInt(y)})
				}
			}
		}
	})
}

func uncompressed(prefix byte, x, y *big.Int) []byte {
	// x, y may be >= p (up to 2^256-1): written as plain 32-byte big-endian numbers
	out := make([]byte, 65)
	out[0] = prefix
	x.FillBytes(out[1:33])
	y.FillBytes(out[33:65])
	return out
}

func p2pk(key []byte) []byte {
	return append(append([]byte{byte(len(key))}, key...), 0xac)
}

// ---------------------------------------------------------------------------------------------
// scripts

type scr struct {
	Kind string `json:"kind"`
	Hex  string `json:"hex,omitempty"`
	Seed uint64 `json:"seed,omitempty"` // with Len > 0: the script is fill(Seed, Len)
	Len  int    `json:"len,omitempty"`
}

func (s scr) bytes() []byte {
	if s.Len > 0 {
		return fill(s.Seed, s.Len)
	}
	b, _ := hex.DecodeString(s.Hex)
	return b
}

func mkScr(kind string, b []byte) scr { return scr{Kind: kind, Hex: hex.EncodeToString(b)} }

var boundaryLens = []int{0, 1, 5, 6, 7, 20, 21, 22, 23, 25, 33, 34, 35, 67, 246, 247, 248, 252, 253, 254, 255, 256, 10000}
var longLens = []int{65529, 65530, 65531, 65535, 65536, 65537}

var scriptKinds = []string{"p2pkh", "p2pkh", "p2sh", "p2pk_c", "p2pk_c", "p2pk_c_offcurve", "p2pk_c_x_ge_p", "p2pk_u", "p2pk_u", "p2pk_u_offcurve",
	"p2pk_hybrid", "p2pk_u_x_plus_p", "p2pk_u_y_plus_p", "p2pk_u_wrong_op", "p2pk_u_zero", "lookalike_p2pkh", "lookalike_p2sh", "hash21",
	"type_byte_prefix", "p2wpkh", "p2wsh", "p2tr", "opreturn", "boundary_len", "boundary_len", "random_short", "long_len"}

func genScript(t *rapid.T, allowLong bool) scr {
	keyInit()
	kind := rapid.SampledFrom(scriptKinds).Draw(t, "skind")
	h := func(n int) []byte { return fill(rapid.Uint64().Draw(t, "hseed"), n) }
	pt := func() ec.Point { return keys.valid[rapid.IntRange(0, len(keys.valid)-1).Draw(t, "key")] }
	switch kind {
	case "p2pkh":
		return mkScr(kind, append(append([]byte{0x76, 0xa9, 20}, h(20)...), 0x88, 0xac))
	case "p2sh":
		return mkScr(kind, append(append([]byte{0xa9, 20}, h(20)...), 0x87))
	case "p2pk_c":
		return mkScr(kind, p2pk(ec.SerializeCompressed(pt())))
	case "p2pk_c_offcurve":
		x := keys.badX[rapid.IntRange(0, len(keys.badX)-1).Draw(t, "bx")]
		return mkScr(kind, p2pk(append([]byte{byte(2 + rapid.IntRange(0, 1).Draw(t, "par"))}, x...)))
	case "p2pk_c_x_ge_p":
		x := new(big.Int).Add(ec.P, big.NewInt(int64(rapid.IntRange(0, 5).Draw(t, "dx"))))
		return mkScr(kind, p2pk(append([]byte{byte(2 + rapid.IntRange(0, 1).Draw(t, "par"))}, ec.Bytes32(x)...)))
	case "p2pk_u":
		p := pt()
		return mkScr(kind, p2pk(uncompressed(4, p.X, p.Y)))
	case "p2pk_u_offcurve":
		p := pt()
		y := new(big.Int).Add(p.Y, big.NewInt(int64(rapid.IntRange(1, 3).Draw(t, "dy"))))
		return mkScr(kind, p2pk(uncompressed(4, p.X, y)))
	case "p2pk_hybrid":
		p := pt()
		pre := byte(6 + rapid.IntRange(0, 1).Draw(t, "par"))
		return mkScr(kind, p2pk(uncompressed(pre, p.X, p.Y)))
	case "p2pk_u_x_plus_p":
		p := keys.smallX[rapid.IntRange(0, len(keys.smallX)-1).Draw(t, "sx")]
		y := p.Y
		if rapid.Bool().Draw(t, "negy") {
			y = new(big.Int).Sub(ec.P, p.Y)
		}
		return mkScr(kind, p2pk(uncompressed(4, new(big.Int).Add(p.X, ec.P), y)))
	case "p2pk_u_y_plus_p":
		if len(keys.smallY) == 0 {
			p := pt()
			return mkScr("p2pk_u", p2pk(uncompressed(4, p.X, p.Y)))
		}
		p := keys.smallY[rapid.IntRange(0, len(keys.smallY)-1).Draw(t, "sy")]
		return mkScr(kind, p2pk(uncompressed(4, p.X, new(big.Int).Add(p.Y, ec.P))))
	case "p2pk_u_wrong_op":
		p := pt()
		s := p2pk(uncompressed(4, p.X, p.Y))
		if rapid.Bool().Draw(t, "which") {
			s[66] = byte(rapid.SampledFrom([]int{0xad, 0xab, 0x00, 0x87}).Draw(t, "op"))
		} else {
			s[0] = byte(rapid.SampledFrom([]int{64, 66, 33, 0x4c}).Draw(t, "push"))
		}
		return mkScr(kind, s)
	case "p2pk_u_zero":
		return mkScr(kind, p2pk(uncompressed(4, big.NewInt(0), big.NewInt(int64(rapid.IntRange(0, 1).Draw(t, "y"))))))
	case "lookalike_p2pkh":
		s := append(append([]byte{0x76, 0xa9, 20}, h(20)...), 0x88, 0xac)
		i := rapid.SampledFrom([]int{0, 1, 2, 23, 24}).Draw(t, "pos")
		s[i] ^= byte(rapid.SampledFrom([]int{1, 0x80, 0xff, 2}).Draw(t, "xor"))
		return mkScr(kind, s)
	case "lookalike_p2sh":
		s := append(append([]byte{0xa9, 20}, h(20)...), 0x87)
		i := rapid.SampledFrom([]int{0, 1, 22}).Draw(t, "pos")
		s[i] ^= byte(rapid.SampledFrom([]int{1, 0x80, 0xff, 0x0f}).Draw(t, "xor"))
		return mkScr(kind, s)
	case "hash21":
		if rapid.Bool().Draw(t, "pkh") {
			return mkScr(kind, append(append([]byte{0x76, 0xa9, 21}, h(21)...), 0x88, 0xac))
		}
		return mkScr(kind, append(append([]byte{0xa9, 21}, h(21)...), 0x87))
	case "type_byte_prefix":
		n := rapid.SampledFrom([]int{1, 20, 21, 22, 32, 33, 34}).Draw(t, "n")
		s := h(n)
		s[0] = byte(rapid.IntRange(0, 6).Draw(t, "type"))
		return mkScr(kind, s)
	case "p2wpkh":
		return mkScr(kind, append([]byte{0, 20}, h(20)...))
	case "p2wsh":
		return mkScr(kind, append([]byte{0, 32}, h(32)...))
	case "p2tr":
		return mkScr(kind, append([]byte{0x51, 32}, h(32)...))
	case "opreturn":
		return mkScr(kind, append([]byte{0x6a}, h(rapid.IntRange(0, 80).Draw(t, "n"))...))
	case "boundary_len":
		n := rapid.SampledFrom(boundaryLens).Draw(t, "blen")
		if n == 0 {
			return scr{Kind: "boundary_len/0"}
		}
		return scr{Kind: fmt.Sprintf("boundary_len/%d", n), Seed: rapid.Uint64().Draw(t, "sseed"), Len: n}
	case "long_len":
		if !allowLong {
			return scr{Kind: "boundary_len/253", Seed: rapid.Uint64().Draw(t, "sseed"), Len: 253}
		}
		n := rapid.SampledFrom(longLens).Draw(t, "llen")
		return scr{Kind: fmt.Sprintf("long_len/%d", n), Seed: rapid.Uint64().Draw(t, "sseed"), Len: n}
	}
	return mkScr("random_short", rapid.SliceOfN(rapid.Byte(), 0, 40).Draw(t, "raw"))
}

func specialScript(kind string) bool {
	return kind != "random_short" && kind != "p2wpkh" && kind != "p2wsh" && kind != "p2tr" && kind != "opreturn"
}

// ---------------------------------------------------------------------------------------------
// amounts

var pow10 = func() (p [16]uint64) {
	p[0] = 1
	for i := 1; i < 16; i++ {
		p[i] = p[i-1] * 10
	}
	return
}()

func genAmount(t *rapid.T) (uint64, string) {
	switch rapid.IntRange(0, 9).Draw(t, "akind") {
	case 0:
		return uint64(rapid.SampledFrom([]int{0, 0, 1, 9, 10, 11, 546}).Draw(t, "small")), "small"
	case 1, 2: // d * 10^e
		e := rapid.IntRange(0, 15).Draw(t, "e")
		d := uint64(rapid.IntRange(1, 9).Draw(t, "d"))
		if v := d * pow10[e]; v <= maxMoney {
			return v, fmt.Sprintf("d*10^%d", e)
		}
		return pow10[15], "d*10^15"
	case 3: // k * 10^9: the compressor's e = 9 branch
		return uint64(rapid.IntRange(1, 2100000).Draw(t, "k")) * pow10[9], "k*10^9"
	case 4, 5: // m * 10^e with last digit of m non-zero: every exponent below and above 9
		e := rapid.IntRange(0, 14).Draw(t, "e")
		m := rapid.Uint64Range(1, uint64(maxMoney)/pow10[e]).Draw(t, "m")
		if m%10 == 0 {
			m++
		}
		if v := m * pow10[e]; v <= maxMoney {
			return v, fmt.Sprintf("m*10^%d", e)
		}
		return maxMoney, "max"
	case 6:
		return maxMoney - uint64(rapid.IntRange(0, 20).Draw(t, "below")), "max"
	case 7: // digit patterns 99..9, 10..01
		n := rapid.IntRange(1, 15).Draw(t, "digits")
		v := pow10[n] - 1
		if rapid.Bool().Draw(t, "one") {
			v = pow10[n] + 1
		}
		if v > maxMoney {
			v = maxMoney - 1
		}
		return v, "pattern"
	case 8: // the stored number (the amount itself in the plain format, its compressed form otherwise) sits on
		// a CompactSize boundary: 252/253, 2^16, 2^32
		b := rapid.SampledFrom([]uint64{252, 253, 254, 0xffff, 0x10000, 0x10001, 0xffffffff, 0x100000000, 0x100000001}).Draw(t, "boundary")
		if rapid.Bool().Draw(t, "ascompressed") {
			if v := refDecompressAmount(b); v <= maxMoney && refCompressAmount(v) == b {
				return v, "vlen-boundary"
			}
		}
		return b, "vlen-boundary"
	}
	return rapid.Uint64Range(0, maxMoney).Draw(t, "amount"), "uniform"
}

// refDecompressAmount: the inverse, from the same specification (compressor.cpp DecompressAmount).
func refDecompressAmount(x uint64) uint64 {
	if x == 0 {
		return 0
	}
	x--
	e := x % 10
	x /= 10
	var n uint64
	if e < 9 {
		d := x%9 + 1
		x /= 9
		n = x*10 + d
	} else {
		n = x + 1
	}
	for ; e > 0; e-- {
		n *= 10
	}
	return n
}

type amountCase struct {
	Value uint64 `json:"value"`
	Kind  string `json:"kind"`
}

// refCompressAmount is the specification (Bitcoin Core compressor.cpp) written down independently.
func refCompressAmount(n uint64) uint64 {
	if n == 0 {
		return 0
	}
	e := 0
	for n%10 == 0 && e < 9 {
		n /= 10
		e++
	}
	if e < 9 {
		d := n % 10
		n /= 10
		return 1 + (n*9+d-1)*10 + uint64(e)
	}
	return 1 + (n-1)*10 + 9
}

func checkAmount(c amountCase) error {
	x := btc.CompressAmount(c.Value)
	if back := btc.DecompressAmount(x); back != c.Value {
		return fmt.Errorf("DecompressAmount(CompressAmount(%d)=%d) = %d", c.Value, x, back)
	}
	if want := refCompressAmount(c.Value); x != want {
		return fmt.Errorf("CompressAmount(%d) = %d, specification %d", c.Value, x, want)
	}
	return nil
}

func TestAmount(t *testing.T) {
	pbt.Check(t, pbt.Cfg{Name: "amount", Quick: 300000, Thorough: 10000000}, func(r *pbt.Run) {
		v, k := genAmount(r.T)
		c := amountCase{Value: v, Kind: k}
		r.Case(c)
		r.Class(k)
		if v != 0 {
			r.NonTrivial()
		}
		if err := checkAmount(c); err != nil {
			r.Failf("%v", err)
		}
	})
}

// every amount of a dense initial segment and around every power of ten (not generated: enumerated)
func TestAmountEnumerated(t *testing.T) {
	if os.Getenv("VERIF_REPLAY") != "" {
		t.Skip()
	}
	i, n := pbt.Shard()
	d := pbt.Direct{Name: "amount"}
	cnt := 0
	check := func(v uint64) bool {
		cnt++
		if err := checkAmount(amountCase{Value: v, Kind: "enumerated"}); err != nil {
			d.Fail(t, amountCase{Value: v, Kind: "enumerated"}, "%v", err)
			return false
		}
		return true
	}
	lim := uint64(2000000)
	if pbt.Tier() == "thorough" {
		lim = 200000000
	}
	for v := uint64(i); v < lim; v += uint64(n) {
		if !check(v) {
			return
		}
	}
	if i == 0 {
		for e := 0; e < 16; e++ {
			for k := uint64(1); k <= 21; k++ {
				for dlt := int64(-1000); dlt <= 1000; dlt++ {
					v := int64(k*pow10[e]) + dlt
					if v >= 0 && uint64(v) <= maxMoney && !check(uint64(v)) {
						return
					}
				}
			}
		}
	}
	pbt.AddExtra("amounts_enumerated", int64(cnt))
	d.Eval("enumerated_block", true, fmt.Sprint("enum", i), nil)
}

// ---------------------------------------------------------------------------------------------
// script compression

func checkScript(c scr) (err error) {
	defer func() {
		if p := recover(); p != nil {
			err = fmt.Errorf("panic in CompressScript/DecompressScript for script %x: %v", c.bytes(), p)
		}
	}()
	s := c.bytes()
	orig := append([]byte{}, s...)
	out := script.CompressScript(s)
	if !bytes.Equal(s, orig) {
		return fmt.Errorf("CompressScript modified its argument %x", orig)
	}
	if out == nil {
		return nil
	}
	if len(out) == 0 || int(out[0]) >= len(utxo.ComprScrLen) || len(out) != utxo.ComprScrLen[out[0]] {
		return fmt.Errorf("CompressScript(%x) = %x: not a special form of the length the record format expects", s, out)
	}
	back := script.DecompressScript(out)
	if !bytes.Equal(back, s) {
		return fmt.Errorf("DecompressScript(CompressScript(%x) = %x) = %x", s, out, back)
	}
	return nil
}

func TestScriptCompress(t *testing.T) {
	pbt.Check(t, pbt.Cfg{Name: "script_compress", Quick: 150000, Thorough: 4000000}, func(r *pbt.Run) {
		c := genScript(r.T, false)
		r.Case(c)
		r.Class(strings.SplitN(c.Kind, "/", 2)[0])
		if script.CompressScript(c.bytes()) != nil {
			r.Class("compressed")
		} else {
			r.Class("kept_raw")
		}
		if specialScript(c.Kind) {
			r.NonTrivial()
		}
		if err := checkScript(c); err != nil {
			r.Failf("%v", err)
		}
	})
}

// ---------------------------------------------------------------------------------------------
// records

type outCase struct {
	Idx   int    `json:"idx"`
	Value uint64 `json:"value"`
	Scr   scr    `json:"scr"`
}

type recCase struct {
	TxID      string    `json:"txid"` // 32 bytes hex
	Height    uint32    `json:"height"`
	Coinbase  bool      `json:"coinbase"`
	NOuts     int       `json:"nouts"`
	Dense     bool      `json:"dense,omitempty"` // every output survives: value and P2PKH script derived from DenseSeed+idx ...
	DenseSeed uint64    `json:"dense_seed,omitempty"`
	Outs      []outCase `json:"outs"` // ... overridden / completed by these survivors (sorted by Idx, distinct)
}

func denseOut(seed uint64, idx int) (uint64, []byte) {
	f := fill(seed+uint64(idx)*0x9e37, 28)
	v := binary.LittleEndian.Uint64(f[20:]) % (maxMoney + 1)
	return v, append(append([]byte{0x76, 0xa9, 20}, f[:20]...), 0x88, 0xac)
}

func (c recCase) build() *utxo.UtxoRec {
	rec := &utxo.UtxoRec{Coinbase: c.Coinbase, InBlock: c.Height}
	id, _ := hex.DecodeString(c.TxID)
	copy(rec.TxID[:], id)
	rec.Outs = make([]*utxo.UtxoTxOut, c.NOuts)
	if c.Dense {
		for i := range rec.Outs {
			v, s := denseOut(c.DenseSeed, i)
			rec.Outs[i] = &utxo.UtxoTxOut{Value: v, PKScr: s}
		}
	}
	for _, o := range c.Outs {
		if o.Idx >= 0 && o.Idx < c.NOuts {
			rec.Outs[o.Idx] = &utxo.UtxoTxOut{Value: o.Value, PKScr: o.Scr.bytes()}
		}
	}
	return rec
}

func copyRec(r *utxo.UtxoRec) *utxo.UtxoRec {
	c := &utxo.UtxoRec{TxID: r.TxID, Coinbase: r.Coinbase, InBlock: r.InBlock, Outs: make([]*utxo.UtxoTxOut, len(r.Outs))}
	for i, o := range r.Outs {
		if o != nil {
			c.Outs[i] = &utxo.UtxoTxOut{Value: o.Value, PKScr: append([]byte{}, o.PKScr...)}
		}
	}
	return c
}

func sameRec(want, got *utxo.UtxoRec) error {
	if want.TxID != got.TxID || want.InBlock != got.InBlock || want.Coinbase != got.Coinbase {
		return fmt.Errorf("txid/height/coinbase %x/%d/%v, stored %x/%d/%v", got.TxID[:4], got.InBlock, got.Coinbase, want.TxID[:4], want.InBlock, want.Coinbase)
	}
	if len(want.Outs) != len(got.Outs) {
		return fmt.Errorf("%d outputs, stored %d", len(got.Outs), len(want.Outs))
	}
	for i, w := range want.Outs {
		g := got.Outs[i]
		if (w == nil) != (g == nil) {
			return fmt.Errorf("output %d: unspent=%v, stored unspent=%v", i, g != nil, w != nil)
		}
		if w == nil {
			continue
		}
		if w.Value != g.Value {
			return fmt.Errorf("output %d: value %d, stored %d", i, g.Value, w.Value)
		}
		if !bytes.Equal(w.PKScr, g.PKScr) {
			return fmt.Errorf("output %d: script %s, stored %s", i, shortHex(g.PKScr), shortHex(w.PKScr))
		}
	}
	return nil
}

func shortHex(b []byte) string {
	if len(b) <= 80 {
		return hex.EncodeToString(b)
	}
	return fmt.Sprintf("%x...(%d bytes)", b[:80], len(b))
}

type recFormat struct {
	name string
	ser  func(*utxo.UtxoRec, []byte) *[]byte
	dec  func([]byte, *utxo.UtxoRec, *utxo.NewUtxoOutAllocCbs)
	one  func([]byte, uint32) *btc.TxOut
}

var formats = []recFormat{
	{"plain", utxo.SerializeU, utxo.NewUtxoRecOwnU, utxo.OneUtxoRecU},
	{"compressed", utxo.SerializeC, utxo.NewUtxoRecOwnC, utxo.OneUtxoRecC},
}

// pooled allocation callbacks, as the client and the tools use them (NewUtxoRecStatic)
func pooledCbs(n int) *utxo.NewUtxoOutAllocCbs {
	outs := make([]*utxo.UtxoTxOut, n)
	pool := make([]utxo.UtxoTxOut, n)
	idx := 0
	return &utxo.NewUtxoOutAllocCbs{
		OutsList: func(cnt int) []*utxo.UtxoTxOut {
			if len(outs) < cnt {
				outs = make([]*utxo.UtxoTxOut, cnt)
				pool = make([]utxo.UtxoTxOut, cnt)
			}
			idx = 0
			res := outs[:cnt]
			for i := range res {
				res[i] = nil
			}
			return res
		},
		OneOut: func() *utxo.UtxoTxOut {
			res := &pool[idx]
			idx++
			return res
		},
	}
}

// which output indexes get the single-output lookup: all of them for records up to 600 outputs,
// otherwise the survivors named in the case, CompactSize boundaries, both ends and every 97th
func lookupIndexes(c recCase) []uint32 {
	var v []uint32
	if c.NOuts <= 600 {
		for i := 0; i < c.NOuts; i++ {
			v = append(v, uint32(i))
		}
	} else {
		seen := map[int]bool{}
		add := func(i int) {
			if i >= 0 && i < c.NOuts && !seen[i] {
				seen[i] = true
				v = append(v, uint32(i))
			}
		}
		for _, o := range c.Outs {
			add(o.Idx)
			add(o.Idx - 1)
			add(o.Idx + 1)
		}
		for _, i := range []int{0, 1, 251, 252, 253, 254, 65534, 65535, 65536, c.NOuts - 2, c.NOuts - 1} {
			add(i)
		}
		for i := 0; i < c.NOuts; i += 97 {
			add(i)
		}
	}
	return append(v, uint32(c.NOuts), uint32(c.NOuts+1), 0xffffffff, 0x80000000)
}

func checkRec(c recCase) (err error) {
	rec := c.build()
	anyOut := false
	for _, o := range rec.Outs {
		if o != nil {
			anyOut = true
		}
	}
	for _, f := range formats {
		if e := checkRecFormat(c, rec, f, anyOut); e != nil {
			return fmt.Errorf("%s format: %v", f.name, e)
		}
	}
	return nil
}

func checkRecFormat(c recCase, rec *utxo.UtxoRec, f recFormat, anyOut bool) (err error) {
	defer func() {
		if p := recover(); p != nil {
			err = fmt.Errorf("panic: %v\n%s", p, debug.Stack())
		}
	}()
	keep := copyRec(rec)
	bp := f.ser(rec, nil)
	if err := sameRec(keep, rec); err != nil {
		return fmt.Errorf("Serialize modified the record: %v", err)
	}
	if !anyOut {
		if bp != nil {
			return fmt.Errorf("Serialize of a record without unspent outputs returned %d bytes (nil by design)", len(*bp))
		}
		return nil
	}
	if bp == nil {
		return fmt.Errorf("Serialize returned nil for a record with unspent outputs")
	}
	dat := append([]byte{}, (*bp)...)
	// serializing into a caller-supplied buffer gives the same bytes
	big := make([]byte, len(dat)+16)
	if bp2 := f.ser(rec, big); bp2 == nil || !bytes.Equal(*bp2, dat) {
		return fmt.Errorf("Serialize into a supplied buffer differs from Serialize into a fresh one")
	}
	// full decode, heap-allocated and pooled
	var got utxo.UtxoRec
	f.dec(dat, &got, nil)
	if err := sameRec(keep, &got); err != nil {
		return fmt.Errorf("decoded record differs: %v", err)
	}
	var got2 utxo.UtxoRec
	cbs := pooledCbs(8)
	f.dec(dat, &got2, cbs)
	if err := sameRec(keep, &got2); err != nil {
		return fmt.Errorf("decoded record (pooled allocation) differs: %v", err)
	}
	f.dec(dat, &got2, cbs) // the pool is reused for the next record
	if err := sameRec(keep, &got2); err != nil {
		return fmt.Errorf("decoded record (pooled allocation, second use) differs: %v", err)
	}
	// single-output lookup
	for _, v := range lookupIndexes(c) {
		one := f.one(dat, v)
		var w *utxo.UtxoTxOut
		if int64(v) < int64(len(keep.Outs)) {
			w = keep.Outs[v]
		}
		if w == nil {
			if one != nil {
				return fmt.Errorf("OneUtxoRec(vout %d) returns an output (value %d), the full decode has none", v, one.Value)
			}
			continue
		}
		if one == nil {
			return fmt.Errorf("OneUtxoRec(vout %d) = nil, the full decode has value %d script %s", v, w.Value, shortHex(w.PKScr))
		}
		if one.Value != w.Value || !bytes.Equal(one.Pk_script, w.PKScr) {
			return fmt.Errorf("OneUtxoRec(vout %d) = value %d script %s, the full decode has value %d script %s", v, one.Value, shortHex(one.Pk_script), w.Value, shortHex(w.PKScr))
		}
		if one.BlockHeight != keep.InBlock || one.WasCoinbase != keep.Coinbase || int(one.VoutCount) != len(keep.Outs) {
			return fmt.Errorf("OneUtxoRec(vout %d): height/coinbase/count %d/%v/%d, stored %d/%v/%d", v, one.BlockHeight, one.WasCoinbase, one.VoutCount, keep.InBlock, keep.Coinbase, len(keep.Outs))
		}
	}
	return nil
}

var heights = []uint32{0, 1, 252, 253, 254, 65535, 65536, 65537, 500000, 840000, 0xfffffffe, 0xffffffff}

func genRec(t *rapid.T, thorough bool, forSnapshot bool) recCase {
	c := recCase{TxID: hex.EncodeToString(fill(rapid.Uint64().Draw(t, "txid"), 32))}
	c.Height = rapid.SampledFrom(heights).Draw(t, "height")
	if rapid.Bool().Draw(t, "anyheight") {
		c.Height = rapid.Uint32().Draw(t, "h")
	}
	c.Coinbase = rapid.IntRange(0, 3).Draw(t, "cb") == 0
	switch k := rapid.IntRange(0, 99).Draw(t, "nk"); {
	case k < 50:
		c.NOuts = rapid.IntRange(1, 4).Draw(t, "nouts")
	case k < 80:
		c.NOuts = rapid.IntRange(5, 40).Draw(t, "nouts")
	case k < 97 || forSnapshot:
		c.NOuts = rapid.SampledFrom([]int{125, 126, 127, 128, 129, 252, 253, 254, 255, 256, 300}).Draw(t, "nouts")
	case !thorough:
		c.NOuts = rapid.SampledFrom([]int{1000, 3000, 13107}).Draw(t, "nouts")
	default:
		c.NOuts = rapid.SampledFrom([]int{13107, 30000, 30001, 30002, 32767, 32768, 65535, 65536, 65537, 70000}).Draw(t, "nouts")
	}
	surv := rapid.SampledFrom([]string{"all", "half", "sparse", "sparse", "one", "none"}).Draw(t, "surv")
	if surv == "none" && (forSnapshot || rapid.IntRange(0, 3).Draw(t, "reallynone") != 0) {
		surv = "one"
	}
	if c.NOuts > 600 {
		// big records: either dense (derived outputs) or a few explicit survivors
		if surv == "all" || surv == "half" {
			c.Dense = true
			c.DenseSeed = rapid.Uint64().Draw(t, "dseed")
		}
		n := rapid.IntRange(1, 12).Draw(t, "nsurv")
		pos := rapid.SliceOfNDistinct(rapid.OneOf(rapid.IntRange(0, c.NOuts-1), rapid.SampledFrom([]int{0, 252, 253, 254, c.NOuts - 1})), 1, n, rapid.ID[int]).Draw(t, "pos")
		sort.Ints(pos)
		for _, i := range pos {
			if i < c.NOuts {
				v, _ := genAmount(t)
				c.Outs = append(c.Outs, outCase{Idx: i, Value: v, Scr: genScript(t, false)})
			}
		}
		return c
	}
	var one int
	if surv == "one" {
		one = rapid.IntRange(0, c.NOuts-1).Draw(t, "theone")
	}
	for i := 0; i < c.NOuts; i++ {
		keep := false
		switch surv {
		case "all":
			keep = true
		case "half":
			keep = rapid.Bool().Draw(t, "keep")
		case "sparse":
			keep = rapid.IntRange(0, 9).Draw(t, "keep") == 0 || c.NOuts <= 3 && rapid.Bool().Draw(t, "keep2")
		case "one":
			keep = i == one
		}
		if keep {
			v, _ := genAmount(t)
			c.Outs = append(c.Outs, outCase{Idx: i, Value: v, Scr: genScript(t, !forSnapshot && c.NOuts <= 8)})
		}
	}
	if len(c.Outs) == 0 && (surv != "none") {
		v, _ := genAmount(t)
		c.Outs = append(c.Outs, outCase{Idx: rapid.IntRange(0, c.NOuts-1).Draw(t, "theone"), Value: v, Scr: genScript(t, false)})
	}
	return c
}

func recNonTrivial(c recCase) bool {
	if c.Dense {
		return true
	}
	if len(c.Outs) < c.NOuts {
		return true // at least one spent gap
	}
	for _, o := range c.Outs {
		if specialScript(o.Scr.Kind) {
			return true
		}
	}
	return false
}

func TestRecordRoundTrip(t *testing.T) {
	thorough := pbt.Tier() == "thorough"
	pbt.Check(t, pbt.Cfg{Name: "record_roundtrip", Quick: 200000, Thorough: 5000000}, func(r *pbt.Run) {
		c := genRec(r.T, thorough, false)
		r.Case(c)
		switch {
		case len(c.Outs) == 0 && !c.Dense:
			r.Class("no_survivor")
		case c.Dense:
			r.Class("dense_big")
		case len(c.Outs) == c.NOuts:
			r.Class("all_unspent")
		default:
			r.Class("with_spent_gaps")
		}
		switch {
		case c.NOuts >= 30000:
			r.Class("nouts>=30000")
		case c.NOuts > 600:
			r.Class("nouts>600")
		case c.NOuts >= 253:
			r.Class("nouts>=253")
		case c.NOuts >= 127:
			r.Class("nouts>=127")
		}
		seen := map[string]bool{}
		for _, o := range c.Outs {
			k := "script/" + strings.SplitN(o.Scr.Kind, "/", 2)[0]
			if !seen[k] {
				seen[k] = true
				r.Class(k)
			}
		}
		if recNonTrivial(c) {
			r.NonTrivial()
		}
		if err := checkRec(c); err != nil {
			r.Failf("%v", err)
		}
	})
}

// ---------------------------------------------------------------------------------------------
// snapshots: model, case, child processes

type spendCase struct {
	TxID  string `json:"txid"`
	NOuts int    `json:"nouts"`
	Vouts []int  `json:"vouts"`
}

type bulkCase struct {
	Seed  uint64 `json:"seed"`
	Count int    `json:"count"`
}

type blockCase struct {
	Height uint32      `json:"height"`
	Hash   string      `json:"hash"`
	Adds   []recCase   `json:"adds"`
	Bulk   *bulkCase   `json:"bulk,omitempty"` // Count simple records derived from Seed
	Spends []spendCase `json:"spends"`
	Save   bool        `json:"save,omitempty"` // explicit UnspentDB.Save() after this block
}

type snapCase struct {
	Mode        string      `json:"mode"` // plain | compressed_fresh | compressed_converted | compress_option_on_plain_dir
	Blocks      []blockCase `json:"blocks"`
	Split       int         `json:"split"`            // blocks[:Split] before the first close, the rest after the first reopen
	TimeTarget0 bool        `json:"time_target0"`     // utxo.UTXO_WRITING_TIME_TARGET = 0 (write at full speed) instead of Close()'s hurry-up
	Yield       uint64      `json:"yield,omitempty"`  // != 0: the children run with VERIF_YIELD=<this> (seeded Gosched / <=200us sleeps at gocoin's vhook points)
	Repeat      int         `json:"repeat,omitempty"` // witnesses of scheduling-dependent defects: run the scenario this many times
}

func bulkRec(seed uint64, i int, height uint32) recCase {
	f := fill(seed^uint64(i)*0xa24baed4963ee407, 48)
	c := recCase{TxID: hex.EncodeToString(fill(seed+uint64(i)*0x9fb21c651e98df25, 32)), Height: height, Coinbase: f[0]&7 == 0, NOuts: 1 + int(f[1]%3)}
	for j := 0; j < c.NOuts; j++ {
		if j == 0 || f[2+j]&1 == 0 {
			var s []byte
			if f[5]&1 == 0 {
				s = append(append([]byte{0x76, 0xa9, 20}, f[8:28]...), 0x88, 0xac)
			} else {
				s = append([]byte{0, 20}, f[8:28]...)
			}
			s[5] ^= byte(j)
			c.Outs = append(c.Outs, outCase{Idx: j, Value: binary.LittleEndian.Uint64(f[28:]) % (maxMoney + 1), Scr: mkScr("bulk", s)})
		}
	}
	return c
}

// the in-memory model of the unspent set
type modelOut struct {
	Value  uint64
	Script []byte
}
type modelRec struct {
	Height   uint32
	Coinbase bool
	NOuts    int
	Outs     map[int]modelOut
}
type model map[[32]byte]*modelRec

func (m model) add(c recCase) {
	rec := c.build()
	mr := &modelRec{Height: rec.InBlock, Coinbase: rec.Coinbase, NOuts: len(rec.Outs), Outs: map[int]modelOut{}}
	for i, o := range rec.Outs {
		if o != nil {
			mr.Outs[i] = modelOut{o.Value, o.PKScr}
		}
	}
	m[rec.TxID] = mr
}

func (m model) apply(b blockCase) {
	for _, s := range b.Spends {
		var id [32]byte
		x, _ := hex.DecodeString(s.TxID)
		copy(id[:], x)
		mr := m[id]
		if mr == nil {
			continue
		}
		for _, v := range s.Vouts {
			delete(mr.Outs, v)
		}
		if len(mr.Outs) == 0 {
			delete(m, id)
		}
	}
	for _, a := range b.Adds {
		m.add(a)
	}
	if b.Bulk != nil {
		for i := 0; i < b.Bulk.Count; i++ {
			m.add(bulkRec(b.Bulk.Seed, i, b.Height))
		}
	}
}

// canonical text of one record; the dump of a set is the sorted list of these lines
func recLine(txid [32]byte, height uint32, coinbase bool, nouts int, idx []int, val func(int) (uint64, []byte)) string {
	var sb strings.Builder
	fmt.Fprintf(&sb, "%x h=%d cb=%v n=%d", txid, height, coinbase, nouts)
	sort.Ints(idx)
	for _, i := range idx {
		v, s := val(i)
		if len(s) <= 70 {
			fmt.Fprintf(&sb, " %d:%d:%x", i, v, s)
		} else {
			fmt.Fprintf(&sb, " %d:%d:len%d:sha%x", i, v, len(s), sha256.Sum256(s))
		}
	}
	return sb.String()
}

type dump struct {
	Count  int      `json:"count"`
	Digest string   `json:"digest"`
	Lines  []string `json:"lines,omitempty"` // only for sets of up to 3000 records
}

func mkDump(lines []string) dump {
	sort.Strings(lines)
	h := sha256.New()
	for _, l := range lines {
		h.Write([]byte(l))
		h.Write([]byte{'\n'})
	}
	d := dump{Count: len(lines), Digest: hex.EncodeToString(h.Sum(nil))}
	if len(lines) <= 3000 {
		d.Lines = lines
	}
	return d
}

func (m model) dump() dump {
	lines := make([]string, 0, len(m))
	for id, r := range m {
		idx := make([]int, 0, len(r.Outs))
		for i := range r.Outs {
			idx = append(idx, i)
		}
		lines = append(lines, recLine(id, r.Height, r.Coinbase, r.NOuts, idx, func(i int) (uint64, []byte) { return r.Outs[i].Value, r.Outs[i].Script }))
	}
	return mkDump(lines)
}

func diffDump(want, got dump) string {
	if want.Digest == got.Digest && want.Count == got.Count {
		return ""
	}
	if want.Lines != nil && got.Lines != nil {
		ws := map[string]bool{}
		for _, l := range want.Lines {
			ws[l] = true
		}
		gs := map[string]bool{}
		for _, l := range got.Lines {
			gs[l] = true
			if !ws[l] {
				return fmt.Sprintf("%d records (model %d); database has a record the model has not (or has differently): %.400s", got.Count, want.Count, l)
			}
		}
		for _, l := range want.Lines {
			if !gs[l] {
				return fmt.Sprintf("%d records (model %d); record missing from the database: %.400s", got.Count, want.Count, l)
			}
		}
	}
	return fmt.Sprintf("%d records digest %s, model %d records digest %s", got.Count, got.Digest[:16], want.Count, want.Digest[:16])
}

// --- child side

type job struct {
	Yield       uint64      `json:"yield"`
	Dir         string      `json:"dir"`
	Compress    bool        `json:"compress"` // NewUnspentOpts.CompressRecords
	Convert     bool        `json:"convert"`  // what tools/utxo does: open, re-serialize every record compressed, flag, save
	Blocks      []blockCase `json:"blocks"`
	TimeTarget0 bool        `json:"time_target0"`
	Out         string      `json:"out"`
}

type header struct {
	Present    bool   `json:"present"`
	Height     uint32 `json:"height"`
	Compressed bool   `json:"compressed"`
	Hash       string `json:"hash"`
	Count      uint64 `json:"count"`
	Records    uint64 `json:"records"` // records actually framed in the file
	Error      string `json:"error,omitempty"`
}

type result struct {
	Panic       string `json:"panic,omitempty"`
	OpenHeight  uint32 `json:"open_height"`
	OpenHash    string `json:"open_hash"`
	OpenFlag    bool   `json:"open_flag"` // db.ComprssedUTXO after opening
	Open        dump   `json:"open"`
	OpenLookup  string `json:"open_lookup,omitempty"` // first disagreement between UnspentGet and the full decode
	Close       dump   `json:"close"`
	CloseLookup string `json:"close_lookup,omitempty"`
	CloseFlag   bool   `json:"close_flag"`
	Header      header `json:"header"` // UTXO.db as found on disk after Close
	Done        bool   `json:"done"`
}

func readHeader(dir string) (h header) {
	b, err := os.ReadFile(filepath.Join(dir, "UTXO.db"))
	if err != nil {
		return
	}
	h.Present = true
	if len(b) < 48 {
		h.Error = fmt.Sprintf("file of %d bytes", len(b))
		return
	}
	u := binary.LittleEndian.Uint64(b)
	h.Height = uint32(u)
	h.Compressed = u>>63 != 0
	if u&^(1<<63) > 0xffffffff {
		h.Error = "height field has bits set between 32 and 62"
	}
	h.Hash = hex.EncodeToString(b[8:40])
	h.Count = binary.LittleEndian.Uint64(b[40:])
	off := 48
	for off < len(b) {
		le, n := btc.VULe(b[off:])
		if n == 0 || uint64(len(b)-off-n) < le {
			h.Error = fmt.Sprintf("record %d is cut off", h.Records)
			return
		}
		off += n + int(le)
		h.Records++
	}
	return
}

func dumpDB(db *utxo.UnspentDB) (d dump, lookup string) {
	var lines []string
	for i := range db.HashMap {
		for k, v := range db.HashMap[i] {
			if v == nil {
				lines = append(lines, fmt.Sprintf("nil record under key %x", k))
				continue
			}
			rec := utxo.NewUtxoRec(*v)
			if !bytes.Equal(k[:], rec.TxID[:len(k)]) || int(k[0]) != i {
				lines = append(lines, fmt.Sprintf("record %x filed under key %x in map %d", rec.TxID, k, i))
				continue
			}
			var idx []int
			for j, o := range rec.Outs {
				if o != nil {
					idx = append(idx, j)
				}
			}
			lines = append(lines, recLine(rec.TxID, rec.InBlock, rec.Coinbase, len(rec.Outs), idx, func(j int) (uint64, []byte) { return rec.Outs[j].Value, rec.Outs[j].PKScr }))
			if lookup == "" {
				for j := 0; j <= len(rec.Outs) && j < 400; j++ {
					one := db.UnspentGet(&btc.TxPrevOut{Hash: rec.TxID, Vout: uint32(j)})
					var w *utxo.UtxoTxOut
					if j < len(rec.Outs) {
						w = rec.Outs[j]
					}
					switch {
					case w == nil && one != nil:
						lookup = fmt.Sprintf("UnspentGet(%x:%d) returns an output, the full decode has none", rec.TxID, j)
					case w != nil && one == nil:
						lookup = fmt.Sprintf("UnspentGet(%x:%d) = nil, the full decode has an output", rec.TxID, j)
					case w != nil && (one.Value != w.Value || !bytes.Equal(one.Pk_script, w.PKScr) || one.BlockHeight != rec.InBlock || one.WasCoinbase != rec.Coinbase || int(one.VoutCount) != len(rec.Outs)):
						lookup = fmt.Sprintf("UnspentGet(%x:%d) differs from the full decode", rec.TxID, j)
					}
				}
			}
		}
	}
	return mkDump(lines), lookup
}

func childMain(jobFile string) {
	var j job
	var res result
	b, err := os.ReadFile(jobFile)
	if err == nil {
		err = json.Unmarshal(b, &j)
	}
	if err != nil {
		fmt.Fprintln(os.Stderr, "c10 child: bad job:", err)
		os.Exit(3)
	}
	write := func() {
		out, _ := json.Marshal(&res)
		os.WriteFile(j.Out, out, 0o644)
	}
	func() {
		defer func() {
			if p := recover(); p != nil {
				res.Panic = fmt.Sprintf("%v\n%s", p, debug.Stack())
			}
		}()
		if j.TimeTarget0 {
			utxo.UTXO_WRITING_TIME_TARGET = 0
		}
		dir := j.Dir + string(os.PathSeparator)
		if j.Convert {
			// mirror of tools/utxo/compress.go do_compress(dir, compress=true)
			db := utxo.NewUnspentDb(&utxo.NewUnspentOpts{Dir: dir})
			res.OpenHeight, res.OpenHash, res.OpenFlag = db.LastBlockHeight, hex.EncodeToString(db.LastBlockHash), db.ComprssedUTXO
			res.Open, res.OpenLookup = dumpDB(db)
			if !db.ComprssedUTXO {
				for i := range db.HashMap {
					for k, v := range db.HashMap[i] {
						var rec utxo.UtxoRec
						utxo.NewUtxoRecOwn(*v, &rec, nil)
						db.HashMap[i][k] = utxo.SerializeC(&rec, nil)
					}
				}
				db.ComprssedUTXO = true
				db.DirtyDB.Set()
			}
			db.Close()
			res.CloseFlag = db.ComprssedUTXO
			res.Header = readHeader(j.Dir)
			res.Done = true
			return
		}
		db := utxo.NewUnspentDb(&utxo.NewUnspentOpts{Dir: dir, CompressRecords: j.Compress})
		res.OpenHeight, res.OpenHash, res.OpenFlag = db.LastBlockHeight, hex.EncodeToString(db.LastBlockHash), db.ComprssedUTXO
		res.Open, res.OpenLookup = dumpDB(db)
		for _, bc := range j.Blocks {
			ch := &utxo.BlockChanges{Height: bc.Height, DeledTxs: map[[32]byte][]bool{}}
			for _, a := range bc.Adds {
				ch.AddList = append(ch.AddList, a.build())
			}
			if bc.Bulk != nil {
				for i := 0; i < bc.Bulk.Count; i++ {
					ch.AddList = append(ch.AddList, bulkRec(bc.Bulk.Seed, i, bc.Height).build())
				}
			}
			for _, s := range bc.Spends {
				var id [32]byte
				x, _ := hex.DecodeString(s.TxID)
				copy(id[:], x)
				m := make([]bool, s.NOuts)
				for _, v := range s.Vouts {
					m[v] = true
				}
				ch.DeledTxs[id] = m
			}
			hash, _ := hex.DecodeString(bc.Hash)
			if err := db.CommitBlockTxs(ch, hash); err != nil {
				panic(fmt.Sprint("CommitBlockTxs: ", err))
			}
			if bc.Save {
				db.Save()
			}
		}
		res.Close, res.CloseLookup = dumpDB(db)
		res.CloseFlag = db.ComprssedUTXO
		db.Close()
		res.Header = readHeader(j.Dir)
		res.Done = true
	}()
	write()
	os.Exit(0)
}

// --- parent side

const childBound = 300 * time.Second

func runPhase(tmp string, n int, j job) (*result, error) {
	j.Out = filepath.Join(tmp, fmt.Sprintf("result%d.json", n))
	jf := filepath.Join(tmp, fmt.Sprintf("job%d.json", n))
	b, _ := json.Marshal(&j)
	if err := os.WriteFile(jf, b, 0o644); err != nil {
		return nil, fmt.Errorf("harness: %v", err)
	}
	cmd := exec.Command(os.Args[0], "-test.run", "^$")
	cmd.Env = append(os.Environ(), "VERIF_C10_JOB="+jf, "VERIF_REPLAY=", "VERIF_STATS=")
	if j.Yield != 0 {
		cmd.Env = append(cmd.Env, fmt.Sprintf("VERIF_YIELD=%d", j.Yield+uint64(n)))
	}
	var stderr bytes.Buffer
	cmd.Stderr = &stderr
	if err := cmd.Start(); err != nil {
		return nil, fmt.Errorf("harness: %v", err)
	}
	timer := time.AfterFunc(childBound, func() { cmd.Process.Kill() })
	werr := cmd.Wait()
	hung := !timer.Stop()
	rb, rerr := os.ReadFile(j.Out)
	if rerr != nil {
		s := strings.TrimSpace(stderr.String())
		if len(s) > 1500 {
			s = s[len(s)-1500:]
		}
		if hung {
			return nil, fmt.Errorf("phase %d: the process did not finish within %v (killed): %s", n, childBound, s)
		}
		return nil, fmt.Errorf("phase %d: the process died without a result (%v): %s", n, werr, s)
	}
	var res result
	if err := json.Unmarshal(rb, &res); err != nil {
		return nil, fmt.Errorf("harness: bad result: %v", err)
	}
	if res.Panic != "" {
		return nil, fmt.Errorf("phase %d: panic: %.1500s", n, res.Panic)
	}
	if !res.Done {
		return nil, fmt.Errorf("phase %d: not completed", n)
	}
	return &res, nil
}

func checkSnapshot(c snapCase) error {
	for i := 1; i < c.Repeat; i++ {
		if err := checkSnapshot1(c); err != nil {
			return fmt.Errorf("run %d: %v", i, err)
		}
	}
	return checkSnapshot1(c)
}

func checkSnapshot1(c snapCase) error {
	if len(c.Blocks) == 0 || c.Split < 1 || c.Split > len(c.Blocks) {
		return nil
	}
	tmp, err := os.MkdirTemp("", "c10snap")
	if err != nil {
		return fmt.Errorf("harness: %v", err)
	}
	defer os.RemoveAll(tmp)
	dir := filepath.Join(tmp, "db")
	os.MkdirAll(dir, 0o755)

	m := model{}
	empty := m.dump()
	phase := 0
	last := func(bs []blockCase) (uint32, string) { b := bs[len(bs)-1]; return b.Height, b.Hash }

	checkHeader := func(what string, h header, height uint32, hash string, wantCompressed *bool) error {
		if !h.Present {
			return fmt.Errorf("%s: no UTXO.db after Close", what)
		}
		if h.Error != "" {
			return fmt.Errorf("%s: UTXO.db: %s", what, h.Error)
		}
		if h.Height != height || h.Hash != hash {
			return fmt.Errorf("%s: UTXO.db header says block %d %s, last committed is %d %s", what, h.Height, h.Hash, height, hash)
		}
		if h.Count != uint64(len(m)) || h.Records != uint64(len(m)) {
			return fmt.Errorf("%s: UTXO.db header counts %d records, file holds %d, model has %d", what, h.Count, h.Records, len(m))
		}
		if wantCompressed != nil && h.Compressed != *wantCompressed {
			return fmt.Errorf("%s: UTXO.db header compressed flag = %v, expected %v", what, h.Compressed, *wantCompressed)
		}
		return nil
	}
	tru, fal := true, false
	var wantFlag *bool
	compress1, compress2 := false, false
	switch c.Mode {
	case "plain":
		wantFlag = &fal
	case "compressed_fresh":
		compress1, compress2 = true, true
		wantFlag = &tru
	case "compressed_converted":
		compress2 = true
		wantFlag = &fal // for the first phase
	case "compress_option_on_plain_dir":
		compress2 = true // the file's header decides; which format is kept is not asserted, only that nothing is lost
		wantFlag = &fal
	default:
		return fmt.Errorf("unknown mode %q", c.Mode)
	}

	// phase 1: fresh directory, commit blocks[:Split], close
	r, err := runPhase(tmp, phase, job{Yield: c.Yield, Dir: dir, Compress: compress1, Blocks: c.Blocks[:c.Split], TimeTarget0: c.TimeTarget0})
	if err != nil {
		return err
	}
	phase++
	if d := diffDump(empty, r.Open); d != "" {
		return fmt.Errorf("fresh directory is not empty: %s", d)
	}
	for _, b := range c.Blocks[:c.Split] {
		m.apply(b)
	}
	if d := diffDump(m.dump(), r.Close); d != "" {
		return fmt.Errorf("in memory, before the first Close: %s", d)
	}
	if r.CloseLookup != "" {
		return fmt.Errorf("in memory, before the first Close: %s", r.CloseLookup)
	}
	hh, hs := last(c.Blocks[:c.Split])
	if err := checkHeader("after the first Close", r.Header, hh, hs, wantFlag); err != nil {
		return err
	}

	if c.Mode == "compressed_converted" {
		r, err = runPhase(tmp, phase, job{Yield: c.Yield, Dir: dir, Convert: true})
		if err != nil {
			return fmt.Errorf("conversion: %v", err)
		}
		phase++
		if d := diffDump(m.dump(), r.Open); d != "" {
			return fmt.Errorf("reopened for conversion: %s", d)
		}
		wantFlag = &tru
		if err := checkHeader("after the conversion", r.Header, hh, hs, wantFlag); err != nil {
			return err
		}
	}
	if c.Mode == "compress_option_on_plain_dir" {
		wantFlag = nil
	}

	// phase 2: reopen, compare, commit the rest, close
	r, err = runPhase(tmp, phase, job{Yield: c.Yield, Dir: dir, Compress: compress2, Blocks: c.Blocks[c.Split:], TimeTarget0: c.TimeTarget0})
	if err != nil {
		return fmt.Errorf("after reopening: %v", err)
	}
	phase++
	if d := diffDump(m.dump(), r.Open); d != "" {
		return fmt.Errorf("reopened database differs from what was closed: %s", d)
	}
	if r.OpenLookup != "" {
		return fmt.Errorf("reopened database: %s", r.OpenLookup)
	}
	if r.OpenHeight != hh || r.OpenHash != hs {
		return fmt.Errorf("reopened database is at block %d %s, closed at %d %s", r.OpenHeight, r.OpenHash, hh, hs)
	}
	for _, b := range c.Blocks[c.Split:] {
		m.apply(b)
	}
	if d := diffDump(m.dump(), r.Close); d != "" {
		return fmt.Errorf("in memory, before the second Close: %s", d)
	}
	if r.CloseLookup != "" {
		return fmt.Errorf("in memory, before the second Close: %s", r.CloseLookup)
	}
	if c.Split < len(c.Blocks) {
		hh, hs = last(c.Blocks)
	}
	if err := checkHeader("after the second Close", r.Header, hh, hs, wantFlag); err != nil {
		return err
	}

	// phase 3: reopen once more and compare
	r, err = runPhase(tmp, phase, job{Yield: c.Yield, Dir: dir, Compress: compress2})
	if err != nil {
		return fmt.Errorf("after the second reopening: %v", err)
	}
	if d := diffDump(m.dump(), r.Open); d != "" {
		return fmt.Errorf("database reopened for the second time differs from what was closed: %s", d)
	}
	if r.OpenLookup != "" {
		return fmt.Errorf("database reopened for the second time: %s", r.OpenLookup)
	}
	if r.OpenHeight != hh || r.OpenHash != hs {
		return fmt.Errorf("database reopened for the second time is at block %d %s, closed at %d %s", r.OpenHeight, r.OpenHash, hh, hs)
	}
	return nil
}

func genSnapshot(t *rapid.T, thorough bool) snapCase {
	c := snapCase{Mode: rapid.SampledFrom([]string{"plain", "compressed_fresh", "compressed_fresh", "compressed_converted", "compressed_converted", "compress_option_on_plain_dir"}).Draw(t, "mode")}
	c.TimeTarget0 = rapid.Bool().Draw(t, "tt0")
	if rapid.Bool().Draw(t, "yield") {
		c.Yield = uint64(rapid.IntRange(1, 1<<30).Draw(t, "yieldseed"))
	}
	nb := rapid.IntRange(1, 5).Draw(t, "nblocks")
	height := rapid.SampledFrom([]uint32{1, 250, 65533, 800000, 0xfffffff0}).Draw(t, "base")
	m := model{}
	prefixes := map[[8]byte]bool{}
	size := rapid.SampledFrom([]string{"small", "medium", "small", "medium", "large", "medium", "huge", "large", "empty"}).Draw(t, "size")
	for bi := 0; bi < nb; bi++ {
		b := blockCase{Height: height, Hash: hex.EncodeToString(fill(rapid.Uint64().Draw(t, "bhash"), 32))}
		height++
		// spends of what exists before this block (sorted order makes the index stable)
		if len(m) > 0 && len(m) <= 5000 {
			ids := make([][32]byte, 0, len(m))
			for id := range m {
				ids = append(ids, id)
			}
			sort.Slice(ids, func(i, j int) bool { return bytes.Compare(ids[i][:], ids[j][:]) < 0 })
			ns := rapid.IntRange(0, min(len(ids), 40)).Draw(t, "nspends")
			if ns > 0 {
				which := rapid.SliceOfNDistinct(rapid.IntRange(0, len(ids)-1), ns, ns, rapid.ID[int]).Draw(t, "spent")
				sort.Ints(which)
				for _, w := range which {
					mr := m[ids[w]]
					var live []int
					for i := range mr.Outs {
						live = append(live, i)
					}
					sort.Ints(live)
					s := spendCase{TxID: hex.EncodeToString(ids[w][:]), NOuts: mr.NOuts}
					if rapid.IntRange(0, 2).Draw(t, "spendall") == 0 {
						s.Vouts = live
					} else {
						for _, i := range live {
							if rapid.Bool().Draw(t, "spendit") {
								s.Vouts = append(s.Vouts, i)
							}
						}
						if len(s.Vouts) == 0 {
							s.Vouts = live[:1]
						}
					}
					b.Spends = append(b.Spends, s)
				}
			}
		}
		var nadd int
		switch size {
		case "empty":
			nadd = 0
		case "small":
			nadd = rapid.IntRange(1, 6).Draw(t, "nadd")
		case "medium":
			nadd = rapid.IntRange(0, 60).Draw(t, "nadd")
		case "large":
			nadd = rapid.IntRange(0, 20).Draw(t, "nadd")
			if bi == 0 {
				b.Bulk = &bulkCase{Seed: rapid.Uint64().Draw(t, "bulkseed"), Count: rapid.IntRange(500, 2500).Draw(t, "bulkcount")}
			}
		case "huge": // more than one 65536-record pack of the loader
			nadd = rapid.IntRange(0, 5).Draw(t, "nadd")
			if bi == 0 {
				n := 3000
				if thorough || rapid.IntRange(0, 3).Draw(t, "reallyhuge") == 0 {
					n = rapid.SampledFrom([]int{65535, 65536, 65537, 70000, 140000}).Draw(t, "bulkcount")
				}
				b.Bulk = &bulkCase{Seed: rapid.Uint64().Draw(t, "bulkseed"), Count: n}
			}
		}
		for i := 0; i < nadd; i++ {
			rc := genRec(t, false, true)
			rc.Height = b.Height
			if rapid.IntRange(0, 5).Draw(t, "oddheight") == 0 {
				rc.Height = rapid.SampledFrom(heights).Draw(t, "rheight")
			}
			var id [32]byte
			x, _ := hex.DecodeString(rc.TxID)
			copy(id[:], x)
			var p8 [8]byte
			copy(p8[:], id[:8])
			if prefixes[p8] {
				continue
			}
			prefixes[p8] = true
			b.Adds = append(b.Adds, rc)
		}
		b.Save = rapid.IntRange(0, 3).Draw(t, "save") == 0
		m.apply(b)
		c.Blocks = append(c.Blocks, b)
	}
	c.Split = rapid.IntRange(1, len(c.Blocks)).Draw(t, "split")
	return c
}

func TestSnapshot(t *testing.T) {
	thorough := pbt.Tier() == "thorough"
	pbt.Check(t, pbt.Cfg{Name: "snapshot", Quick: 240, Thorough: 6000}, func(r *pbt.Run) {
		c := genSnapshot(r.T, thorough)
		r.Case(c)
		r.Class(c.Mode)
		m := model{}
		nrec := 0
		spends := 0
		for _, b := range c.Blocks {
			m.apply(b)
			nrec += len(b.Adds)
			if b.Bulk != nil {
				nrec += b.Bulk.Count
			}
			spends += len(b.Spends)
		}
		switch {
		case nrec == 0:
			r.Class("records=0")
		case nrec <= 100:
			r.Class("records<=100")
		case nrec <= 3000:
			r.Class("records<=3000")
		case nrec <= 65536:
			r.Class("records<=65536")
		default:
			r.Class("records>65536")
		}
		if spends > 0 {
			r.Class("with_spends")
		}
		if c.Split < len(c.Blocks) {
			r.Class("commits_after_reopen")
		}
		if c.Yield != 0 {
			r.Class("seeded_yields")
		}
		for _, b := range c.Blocks {
			if b.Save {
				r.Class("explicit_save")
				break
			}
		}
		if nrec > 0 {
			r.NonTrivial()
		}
		pbt.AddExtra("snapshot_records_committed", int64(nrec))
		if err := checkSnapshot(c); err != nil {
			r.Failf("%v", err)
		}
	})
}
