package c10

// The allocation-free decoder utxo.NewUtxoRecStatic / NewUtxoRecStaticU keeps one record, one output list and one
// output pool in package variables and reuses them for every call (PurgeUnspendable, the wallet's balance scan and
// the tools walk the whole set with it).  A record decoded with it must be the stored record whatever was decoded
// before: the case is a SEQUENCE of records decoded one after another through the shared state, each compared with
// what was stored.  Every sequence starts with the same 64-output record, so that the shared state a case runs on does
// not depend on the cases before it (replayable).

import (
	"encoding/hex"
	"encoding/json"
	"fmt"
	"runtime/debug"
	"testing"

	"github.com/piotrnar/gocoin/lib/utxo"
	"pgregory.net/rapid"
	"verif/pbt"
)

type staticSeqCase struct {
	Compressed bool      `json:"compressed"` // which format utxo.NewUtxoRecOwn / utxo.Serialize are switched to
	Recs       []recCase `json:"recs"`
}

func init() {
	pbt.RegisterReplay("static_decoder_sequence", func(raw json.RawMessage) error {
		var c staticSeqCase
		if err := json.Unmarshal(raw, &c); err != nil {
			return err
		}
		return checkStaticSeq(c)
	})
}

var staticPrimer = func() recCase {
	c := recCase{TxID: hex.EncodeToString(fill(0x5eed, 32)), Height: 7, NOuts: 64, Dense: true, DenseSeed: 99}
	return c
}()

func checkStaticSeq(c staticSeqCase) (err error) {
	defer func() {
		if p := recover(); p != nil {
			err = fmt.Errorf("panic: %v\n%s", p, debug.Stack())
		}
	}()
	saveDec, saveSer := utxo.NewUtxoRecOwn, utxo.Serialize
	defer func() { utxo.NewUtxoRecOwn, utxo.Serialize = saveDec, saveSer }()
	if c.Compressed {
		utxo.NewUtxoRecOwn, utxo.Serialize = utxo.NewUtxoRecOwnC, utxo.SerializeC
	} else {
		utxo.NewUtxoRecOwn, utxo.Serialize = utxo.NewUtxoRecOwnU, utxo.SerializeU
	}
	for i, rc := range append([]recCase{staticPrimer}, c.Recs...) {
		rec := rc.build()
		keep := copyRec(rec)
		bp := utxo.Serialize(rec, nil)
		if bp == nil {
			return fmt.Errorf("record %d: Serialize returned nil for a record with unspent outputs", i)
		}
		dat := append([]byte{}, (*bp)...)
		got := utxo.NewUtxoRecStatic(dat)
		if e := sameRec(keep, got); e != nil {
			return fmt.Errorf("record %d of the sequence (%d outputs, %d unspent) decoded with NewUtxoRecStatic differs from what was stored: %v", i, rc.NOuts, len(rc.Outs), e)
		}
		if !c.Compressed {
			got = utxo.NewUtxoRecStaticU(dat)
			if e := sameRec(keep, got); e != nil {
				return fmt.Errorf("record %d of the sequence (%d outputs, %d unspent) decoded with NewUtxoRecStaticU differs from what was stored: %v", i, rc.NOuts, len(rc.Outs), e)
			}
		}
		// the allocating decoder is independent of the shared state
		if e := sameRec(keep, utxo.NewUtxoRec(dat)); e != nil {
			return fmt.Errorf("record %d of the sequence decoded with NewUtxoRec differs: %v", i, e)
		}
	}
	return nil
}

func TestStaticDecoderSequence(t *testing.T) {
	pbt.Check(t, pbt.Cfg{Name: "static_decoder_sequence", Quick: 40000, Thorough: 1000000}, func(r *pbt.Run) {
		c := staticSeqCase{Compressed: rapid.Bool().Draw(r.T, "compressed")}
		n := rapid.IntRange(2, 6).Draw(r.T, "nrecs")
		shrinks, gapAbove := false, false
		prev := staticPrimer.NOuts
		low := prev
		for i := 0; i < n; i++ {
			rc := genRec(r.T, false, true)
			for rc.NOuts > 600 || len(rc.Outs) == 0 { // small records only here; the big ones have their own test
				rc.NOuts = rapid.IntRange(1, 40).Draw(r.T, "nouts2")
				v, _ := genAmount(r.T)
				rc.Outs = []outCase{{Idx: rapid.IntRange(0, rc.NOuts-1).Draw(r.T, "theone2"), Value: v, Scr: genScript(r.T, false)}}
			}
			if rc.NOuts < prev {
				shrinks = true
			}
			if rc.NOuts < low {
				low = rc.NOuts
			}
			// a spent position above the length of an earlier, shorter record: where a stale slot would show
			if rc.NOuts > low {
				have := map[int]bool{}
				for _, o := range rc.Outs {
					have[o.Idx] = true
				}
				for j := low; j < rc.NOuts; j++ {
					if !have[j] {
						gapAbove = true
					}
				}
			}
			prev = rc.NOuts
			c.Recs = append(c.Recs, rc)
		}
		r.Case(c)
		if c.Compressed {
			r.Class("compressed")
		} else {
			r.Class("plain")
		}
		if shrinks {
			r.Class("shorter_after_longer")
		}
		if gapAbove {
			r.Class("spent_gap_above_an_earlier_shorter_record")
			r.NonTrivial()
		}
		if err := checkStaticSeq(c); err != nil {
			r.Failf("%v", err)
		}
	})
}
