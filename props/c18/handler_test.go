package c18

// Handler mode: messages are handed to the handlers exactly the way OneConnection.Run() does it (the
// dispatch below is a literal copy of Run()'s loop body, minus socket I/O), each call in its own
// goroutine so that a panic is caught and a hang is noticed.  After every call the oracle demands:
// no panic, every mutex a handler can take is free, returned within the hang bound, allocation bounded.

import (
	"bytes"
	"encoding/binary"
	"encoding/hex"
	"encoding/json"
	"fmt"
	"math/big"
	"runtime"
	"runtime/debug"
	"strings"
	"sync"
	"sync/atomic"
	"testing"
	"time"
	"verif/ref/wire"

	"github.com/piotrnar/gocoin/client/common"
	"github.com/piotrnar/gocoin/client/network"
	"github.com/piotrnar/gocoin/client/peersdb"
	"github.com/piotrnar/gocoin/client/txpool"
	"github.com/piotrnar/gocoin/lib/btc"
	"github.com/piotrnar/gocoin/lib/others/qdb"
	"pgregory.net/rapid"
	"verif/pbt"
	"verif/ref/ec"
)

const hangBound = 20 * time.Second

// bystanderNonce is the version nonce of the case's second, established connection.
const bystanderNonce = uint64(0xb15a4de2b15a4de2)

type seqCase struct {
	Incoming   bool     `json:"incoming"`
	Syncing    bool     `json:"syncing"`              // node still in initial block download
	Handshake  bool     `json:"handshake"`            // a well-formed version message is delivered first
	Special    bool     `json:"special,omitempty"`    // connection marked "special" (friend / manual)
	Authorized bool     `json:"authorized,omitempty"` // deliver a valid xauth right after the handshake
	Peers      string   `json:"peers,omitempty"`      // peers database at the start: "" empty | full | below | above (see resetWith)
	Bystander  bool     `json:"bystander,omitempty"`  // another peer is connected and has completed its handshake (nonce bystanderNonce)
	Queues     string   `json:"queues,omitempty"`     // an outgoing queue at its capacity (see queues_test.go)
	SendOff    int      `json:"send_off,omitempty"`   // sendbuf_* variants: ring offset and distance to the threshold
	SendSlack  int      `json:"send_slack,omitempty"`
	Tags       []string `json:"tags,omitempty"` // generator shapes used (histogram only)
	Msgs       []msg    `json:"msgs"`
}

// --- the mirror of Run()'s loop body ----------------------------------------------------------------

func doingChainSync() bool { return !common.BlockChainSynchronized.Load() }

// dispatch handles one received message the way Run() does.  leave=true where Run() leaves its loop
// by break/return; where Run() says "continue" or falls out of the switch it returns false and the
// caller re-evaluates the loop condition (!c.IsBroken()).
func dispatch(c *network.OneConnection, cmd *network.BCmsg) (leave bool) {
	if c.X.VersionReceived {
		c.PeerAddr.Alive()
	}

	if cmd.VerifCmd() == "version" {
		if c.X.VersionReceived {
			c.Misbehave("VersionAgain", 1000/10)
			return false
		}
		if c.X.Incomming {
			c.SendVersion()
		}
		er := c.HandleVersion(cmd.VerifPayload())
		if er != nil {
			c.DoS("Ver" + er.Error())
			return true
		}
		if doingChainSync() {
			if (c.Node.Services & btc.SERVICE_NETWORK) == 0 {
				common.CountSafe("PeerDropNoBlocks")
				c.Disconnect(false, "NoBlocks")
				return true
			}
			if strings.Contains(c.NodeAgent, "/Knots:") {
				common.CountSafe("PeerDropKnots")
				c.Disconnect(false, "Knots")
				return true
			}
		}

		c.X.LastMinFeePerKByte = common.MinFeePerKB()

		if c.X.IsGocoin {
			c.SendAuth()
		}

		if c.Node.Version >= 70012 && c.HasNetworkService() {
			c.SendRawMsg("sendheaders", nil, false)
			if c.Node.Version >= 70013 {
				if c.X.LastMinFeePerKByte != 0 {
					c.SendFeeFilter()
				}
				if c.Node.Version >= 70014 && common.Get(&common.CFG.TXPool.Enabled) {
					c.SendRawMsg("sendcmpct", []byte{0x01, 0x02, 0x00, 0x00, 0x00, 0x00, 0x00, 0x00, 0x00}, false)
				}
			}
		}
		c.PeerAddr.Services = c.Node.Services
		c.PeerAddr.NodeAgent = c.Node.Agent
		c.PeerAddr.Alive()

		if common.IsListenTCP() {
			c.SendOwnAddr()
		}
		return false
	} else if !c.X.VersionReceived {
		c.Misbehave("NoVer"+cmd.VerifCmd(), 1000/10)
		return false
	}

	switch cmd.VerifCmd() {
	case "inv":
		c.ProcessInv(cmd.VerifPayload())

	case "tx":
		if common.AcceptTx() {
			c.ParseTxNet(cmd)
		}

	case "addr":
		c.ParseAddr(cmd.VerifPayload())

	case "block":
		c.VerifNetBlockReceived(cmd)
		c.MutexSetBool(&c.X.GetBlocksDataNow, true)

	case "getblocks":
		c.GetBlocks(cmd.VerifPayload())

	case "getdata":
		c.ProcessGetData(cmd.VerifPayload())

	case "getaddr":
		if !c.X.GetAddrDone {
			c.HandleGetaddr()
			c.X.GetAddrDone = true
		} else {
			c.Mutex.Lock()
			c.VerifCntInc("SecondGetAddr")
			c.Mutex.Unlock()
			if c.Misbehave("SecondGetAddr", 1000/20) {
				break
			}
		}

	case "ping":
		re := make([]byte, len(cmd.VerifPayload()))
		copy(re, cmd.VerifPayload())
		c.SendRawMsg("pong", re, false)

	case "pong":
		c.HandlePong(cmd.VerifPayload())

	case "getheaders":
		c.GetHeaders(cmd.VerifPayload())

	case "notfound":
		common.CountSafe("NotFound")

	case "headers":
		if c.HandleHeaders(cmd.VerifPayload()) > 0 {
			c.VerifSendGetHeaders()
		}

	case "sendheaders":
		c.Mutex.Lock()
		c.Node.SendHeaders = true
		c.Mutex.Unlock()

	case "feefilter":
		if len(cmd.VerifPayload()) >= 8 {
			c.X.MinFeeSPKB = int64(binary.LittleEndian.Uint64(cmd.VerifPayload()[:8]))
		}

	case "sendcmpct":
		if len(cmd.VerifPayload()) >= 9 {
			version := binary.LittleEndian.Uint64(cmd.VerifPayload()[1:9])
			c.Mutex.Lock()
			if version > c.Node.SendCmpctVer {
				c.Node.SendCmpctVer = version
				c.Node.HighBandwidth = cmd.VerifPayload()[0] == 1
			} else {
				c.VerifCntInc(fmt.Sprint("SendCmpctV", version))
			}
			c.Mutex.Unlock()
		} else {
			common.CountSafe("SendCmpctErr")
			if len(cmd.VerifPayload()) != 5 {
				println(c.ConnID, c.PeerAddr.Ip(), c.Node.Agent, "sendcmpct", hex.EncodeToString(cmd.VerifPayload()))
			}
		}

	case "cmpctblock":
		if !doingChainSync() {
			c.ProcessCmpctBlock(cmd)
		}

	case "getblocktxn":
		c.ProcessGetBlockTxn(cmd.VerifPayload())

	case "blocktxn":
		c.ProcessBlockTxn(cmd)

	case "getmp":
		if c.X.Authorized {
			c.ProcessGetMP(cmd.VerifPayload())
		}

	case "xauth":
		c.AuthRvcd(cmd.VerifPayload())

	case "authack":
		if !cmd.VerifTrusted() {
			println(c.PeerAddr.Ip(), "sent us unsigned authack")
			c.Disconnect(false, "UnsignedAuthAck")
			return false
		}
		c.Mutex.Lock()
		c.X.AuthAckGot = true
		c.Mutex.Unlock()
		if len(cmd.VerifPayload()) > 0 {
			c.X.ChainSynchronized = cmd.VerifPayload()[0] != 0
		}
		if c.X.ChainSynchronized {
			c.GetMPNow()
		}

	case "getmpdone":
		c.GetMPDone(cmd.VerifPayload())

	case "filterload", "filteradd", "filterclear", "merkleblock":
		c.DoS("SPV")

	default:
	}
	return false
}

// finish is the part of Run() after the loop (without socket and writer thread).
func finish(c *network.OneConnection) {
	c.GetMPDone(nil)
	c.VerifAfterLoop()
}

// --- oracle -----------------------------------------------------------------------------------------

type namedMutex struct {
	name string
	mu   *sync.Mutex
}

func globalMutexes() []namedMutex {
	return []namedMutex{
		{"network.Mutex_net", &network.Mutex_net},
		{"network.MutexRcv", &network.MutexRcv},
		{"network.CachedBlocksMutex", &network.CachedBlocksMutex},
		{"network.HammeringMutex", &network.HammeringMutex},
		{"network.ExternalIpMutex", &network.ExternalIpMutex},
		{"network.FriendsAccess", &network.FriendsAccess},
		{"network.CompactBlocksMutex", &network.CompactBlocksMutex},
		{"txpool.TxMutex", &txpool.TxMutex},
		{"common.Last.Mutex", &common.Last.Mutex},
		{"common.CounterMutex", &common.CounterMutex},
		{"BlockChain.BlockIndexAccess", &common.BlockChain.BlockIndexAccess},
	}
}

// locksFree is called when no gocoin code is running on behalf of the case: every mutex must be free.
func locksFree(c *network.OneConnection) error {
	if c != nil {
		if !c.Mutex.TryLock() {
			return fmt.Errorf("the connection mutex is still held")
		}
		c.Mutex.Unlock()
	}
	for _, m := range globalMutexes() {
		if !m.mu.TryLock() {
			wedged.Store(true) // every later case would block on it
			return fmt.Errorf("%s is still held", m.name)
		}
		m.mu.Unlock()
	}
	// the mutex of EVERY connection in the list, not only of the one that handled the message: a handler
	// that walks OpenCons (HandleVersion's nonce scan, inv routing) may have left a bystander locked -
	// the bystander itself and every later walker of the list would then block for good
	network.Mutex_net.Lock()
	var held *network.OneConnection
	for _, v := range network.OpenCons {
		if v == c {
			continue
		}
		if !v.Mutex.TryLock() {
			held = v
			break
		}
		v.Mutex.Unlock()
	}
	network.Mutex_net.Unlock()
	if held != nil {
		wedged.Store(true)
		return fmt.Errorf("the mutex of another connection in OpenCons (ConnID %d, %s) is still held", held.ConnID, held.PeerAddr.Ip())
	}
	return nil
}

// walkOpenCons does what the main thread does all the time: it walks the connection list (here: routing
// an inv), which takes Mutex_net and every connection's mutex in turn.  It must return.
func walkOpenCons() error {
	return guarded("a walk over the connection list (network.NetRouteInvExt)", func() {
		network.NetRouteInvExt(network.MSG_TX, btc.NewUint256(make([]byte, 32)), nil, 0)
	})
}

// unexportedLocksFree probes the mutexes that are not exported (config, peers DB, chain tree end, bandwidth).
func unexportedLocksFree() error {
	done := make(chan struct{})
	go func() {
		common.LockCfg()
		common.UnlockCfg()
		peersdb.Lock()
		peersdb.Unlock()
		common.LockBw()
		common.UnlockBw()
		common.BlockChain.LastBlock()
		close(done)
	}()
	select {
	case <-done:
		return nil
	case <-time.After(5 * time.Second):
		wedged.Store(true)
		return fmt.Errorf("one of the config / peers-db / bandwidth / chain-tree mutexes is still held (peersdb.Lock, common.LockCfg, common.LockBw or Chain.LastBlock did not come back within 5 s)")
	}
}

// guarded runs f in its own goroutine: a panic and a hang are reported, not propagated.
func guarded(what string, f func()) error {
	done := make(chan error, 1)
	go func() {
		defer func() {
			if p := recover(); p != nil {
				done <- fmt.Errorf("%s panicked: %v\n%s", what, p, trimStack(debug.Stack()))
				return
			}
			done <- nil
		}()
		f()
	}()
	select {
	case err := <-done:
		return err
	case <-time.After(hangBound):
		wedged.Store(true)
		return fmt.Errorf("%s did not return within %s", what, hangBound)
	}
}

// wedged is set once a call has exceeded the hang bound: its goroutine cannot be stopped and may hold
// locks or spin, so nothing run afterwards in this process means anything.  The case that hung is
// reported as it is (no shrinking: every further attempt would cost another hang bound).
var wedged atomic.Bool

func trimStack(b []byte) string {
	s := string(b)
	if i := strings.Index(s, "panic("); i >= 0 {
		s = s[i:]
	}
	if len(s) > 2500 {
		s = s[:2500]
	}
	return s
}

// --- executor ---------------------------------------------------------------------------------------

type conState struct {
	c      *network.OneConnection
	serial int
}

// Connections carry a 16 MiB send buffer; those that ended a case in a clean state are recycled.
var connPool []*network.OneConnection

func newConn(incoming, special bool, serial int) *network.OneConnection {
	ad := peersdb.NewPeer(nil)
	ad.Time = genesisTime
	ad.Ip4 = [4]byte{93, 184, 216, byte(1 + serial%250)}
	ad.Port = uint16(8333 + serial/250)
	ad.Services = 9
	var c *network.OneConnection
	if n := len(connPool); n > 0 {
		c = connPool[n-1]
		connPool = connPool[:n-1]
		c.VerifRecycle(ad)
	} else {
		c = network.NewConnection(ad)
	}
	if e := theEnv; e != nil && e.fullUsed {
		e.touched = append(e.touched, qdb.KeyType(ad.UniqID()))
	}
	c.X.ConnectedAt = time.Now()
	c.X.Incomming = incoming
	c.X.IsSpecial = special
	c.X.LastDataGot = time.Now()
	c.VerifAddToList()
	return c
}

// releaseConn takes the connection out of the lists and keeps it for re-use.
func releaseConn(c *network.OneConnection) {
	c.VerifDelFromList()
	if len(connPool) < 4 {
		connPool = append(connPool, c)
	}
}

// resolve materialises the payload of a message, including the parts only known at execution time.
func resolve(e *envT, c *network.OneConnection, m *msg) []byte {
	pl := m.payload()
	switch m.Dyn {
	case "pong_echo":
		if c != nil && c.PingInProgress != nil {
			pl = append([]byte{}, c.PingInProgress...)
		}
	case "ver_ournonce":
		if len(pl) >= 80 {
			n := network.VerifNonce()
			copy(pl[72:80], n[:])
		}
	case "addr_fresh":
		// records whose time field holds the marker 1 were seen ten minutes ago
		if n := csLen(pl); n > 0 {
			now := uint32(time.Now().Unix()) - 600
			for off := n; off+30 <= len(pl); off += 30 {
				if binary.LittleEndian.Uint32(pl[off:]) == 1 {
					binary.LittleEndian.PutUint32(pl[off:], now)
				}
			}
		}
	case "ver_peernonce":
		if len(pl) >= 80 {
			copy(pl[72:80], le64(bystanderNonce))
		}
	case "xauth_sign":
		if len(pl) >= 33 {
			out := append([]byte{}, pl[:33]...)
			out = append(out, friendSignature(e)...)
			pl = append(out, pl[33:]...)
		}
	}
	return pl
}

var (
	friendSigOnce sync.Once
	friendSig     []byte
)

// friendSignature is the friend key's DER signature over the node's nonce (constant for the process).
func friendSignature(e *envT) []byte {
	friendSigOnce.Do(func() {
		var m32 [32]byte
		n := network.VerifNonce()
		copy(m32[:8], n[:])
		r, s, _ := ec.SignRFC6979(e.peerKey, m32[:])
		friendSig = ec.EncodeDER(r, s)
	})
	return friendSig
}

var _ = big.NewInt

type stepStats struct {
	msgs, reached, nontrivial int
	fullBlockRequested        bool // a getdata for a full block went to this peer (in-progress entry without collector)
	inProgressMax             int
	tickSingleExpired         bool   // a tick ran with exactly one, expired, penalty on record
	tickExpiredThenFresh      bool   // a tick ran with an expired penalty followed by a fresh one
	memInputs                 uint64 // gocoin's TxInputInMemory counter
	txTrailing                int    // tx messages with bytes after a well-formed transaction that reached ParseTxNet
	addrFlood                 uint64 // gocoin's BanAddrFlood counter
	genuineAccepted           int    // genuine copies of a wanted block taken after another peer's corrupt copy
	txChanFull, sendOverflow  uint64 // gocoin's counters TxChannelFULL, PeerSendOverflow
	getdataPaused, blkQueued  uint64 // GetDataPaused(+Ext), NetBlock-Queued
	addrNewNO, addrNewYES     uint64 // gocoin's counters: new addresses refused because the DB is full / taken
	sameNonce                 int    // version messages carrying the nonce of the established bystander connection
	namedInProgress           int    // blocktxn / block / cmpctblock messages naming a block that is in progress on this connection
}

// runSeq executes a case; the returned error is a violation of the property.
func runSeq(cs seqCase, st *stepStats) (err error) {
	if wedged.Load() {
		return nil // see wedged: nothing can be judged in this process any more
	}
	e := getEnv()
	e.resetWith(cs.Syncing, cs.Peers)
	stopQueues := applyQueues(cs.Queues)
	defer stopQueues()
	serial := 0
	var by *network.OneConnection
	if cs.Bystander {
		by = newConn(true, false, 200)
		v := network.VerifNewMsg("version", goodVersion(bystanderNonce, "/Satoshi:25.0.0/", baseBlocks), false, false)
		if err := guarded("handshake of the bystander connection", func() { dispatch(by, v) }); err != nil {
			return err
		}
		if !by.X.VersionReceived || by.IsBroken() {
			return fmt.Errorf("harness: the bystander's handshake was refused")
		}
		by.Mutex.Lock()
		by.SendBufCons = by.SendBufProd
		by.Mutex.Unlock()
	}
	c := newConn(cs.Incoming, cs.Special, serial)
	defer func() {
		if err == nil {
			err = walkOpenCons() // once per case: the list can still be walked
			if err == nil {
				err = locksFree(c)
			}
		}
		if err == nil {
			releaseConn(c)
			if by != nil {
				releaseConn(by)
			}
		} else if lerr := locksFree(nil); lerr != nil {
			// a panic (or hang) that also left a global mutex locked: say so, and stop using this process
			err = fmt.Errorf("%v\n(and %v)", err, lerr)
		}
	}()

	var ms runtime.MemStats
	runtime.ReadMemStats(&ms)
	alloc0 := ms.TotalAlloc
	var plBytes uint64

	// the penalties the peer has earned on the current connection and how long ago (model for the expiry oracle)
	type penalty struct {
		amt int
		age int64
	}
	var penalties []penalty
	score := 0
	// endConnection: Run() leaves its loop; a later message of the case arrives on a new connection
	endConnection := func() error {
		if err := guarded("the part of Run() after its loop", func() { finish(c) }); err != nil {
			return err
		}
		if err := locksFree(c); err != nil {
			return fmt.Errorf("after the connection ended, %v", err)
		}
		releaseConn(c)
		serial++
		c = newConn(cs.Incoming, cs.Special, serial)
		penalties, score = nil, 0
		return errReconnect
	}

	deliver := func(m *msg) error {
		if m.Cmd == "#clock" {
			c.VerifAdvanceClock(time.Duration(m.Secs)*time.Second, !m.Idle)
			for i := range penalties {
				penalties[i].age += int64(m.Secs)
			}
			return nil
		}
		if m.Cmd == "#tick" {
			if st != nil && c.X.VersionReceived {
				old, fresh := 0, 0
				for _, p := range penalties {
					if p.age >= 3600 {
						old++
					} else {
						fresh++
					}
				}
				st.tickSingleExpired = st.tickSingleExpired || (old == 1 && fresh == 0)
				st.tickExpiredThenFresh = st.tickExpiredThenFresh || (old > 0 && fresh > 0)
			}
			if err := guarded("the loop's periodic part (SendInvs/Tick/resume getdata)", func() {
				if c.X.VersionReceived {
					c.SendInvs()
				}
				c.Tick(time.Now())
				c.VerifResumeGetData()
			}); err != nil {
				return err
			}
			if st != nil && c.Mutex.TryLock() {
				st.fullBlockRequested = st.fullBlockRequested || len(c.GetBlockInProgress) > 0
				st.inProgressMax = max(st.inProgressMax, len(c.GetBlockInProgress))
				c.Mutex.Unlock()
			}
			if err := locksFree(c); err != nil {
				return err
			}
			// penalties expire no earlier than an hour after they were earned: the score is at least the sum
			// of what was earned less than an hour (minus a margin for the seconds this case has been running) ago
			if banned, _ := c.VerifBanned(); !banned {
				due := 0
				for _, p := range penalties {
					if p.age < 3600-30 {
						due += p.amt
					}
				}
				if have := c.VerifMisbehave(); have < due {
					return fmt.Errorf("after %d s on the connection the misbehaviour score is %d, although %d points were earned less than an hour ago (penalties expire too early)", penalties[0].age, have, due)
				}
				score = c.VerifMisbehave()
				// the node drops expired records from the front of its history (possibly late: its 16-bit
				// time stamps alias every 65536 s); the model keeps the same records
				if n := c.VerifMisbehaveRecords(); n <= len(penalties) {
					penalties = penalties[len(penalties)-n:]
				}
			}
			if c.IsBroken() { // a time-out ended the connection
				return endConnection()
			}
			return nil
		}
		pl := resolve(e, c, m)
		if m.Cmd == "addr" {
			e.touchAddr(pl)
		}
		if st != nil && m.Cmd == "tx" && c.X.VersionReceived && common.AcceptTx() {
			if ref, used, err := wire.DecodeTx(pl); err == nil && used < len(pl) && len(ref.In) > 0 {
				st.txTrailing++
			}
		}
		if st != nil && c.Mutex.TryLock() {
			if len(c.GetBlockInProgress) > 0 {
				var key btc.BIDX
				switch {
				case m.Cmd == "blocktxn" && len(pl) >= 32:
					copy(key[:], pl[:len(key)])
				case (m.Cmd == "block" || m.Cmd == "cmpctblock") && len(pl) >= 80:
					h := btc.Sha2Sum(pl[:80])
					copy(key[:], h[:len(key)])
				}
				if _, ok := c.GetBlockInProgress[key]; ok {
					st.namedInProgress++
				}
			}
			c.Mutex.Unlock()
		}
		plBytes += uint64(len(pl))
		if st != nil && by != nil && m.Cmd == "version" && !c.X.VersionReceived && len(pl) >= 80 && binary.LittleEndian.Uint64(pl[72:80]) == bystanderNonce {
			st.sameNonce++
		}
		if st != nil {
			st.msgs++
			if m.Cmd == "version" && !c.X.VersionReceived || m.Cmd != "version" && c.X.VersionReceived {
				st.reached++
				if len(pl) >= minLen(m.Cmd) {
					st.nontrivial++
				}
			}
		}
		cmd := network.VerifNewMsg(m.Cmd, pl, m.Tr, m.Tr && c.X.Authorized)
		var leave bool
		if err := guarded(fmt.Sprintf("handler of %q (payload %d bytes)", m.Cmd, len(pl)), func() { leave = dispatch(c, cmd) }); err != nil {
			return err
		}
		if err := locksFree(c); err != nil {
			return fmt.Errorf("after the handler of %q returned, %v", m.Cmd, err)
		}
		if err := unexportedLocksFree(); err != nil {
			return fmt.Errorf("after the handler of %q returned, %v", m.Cmd, err)
		}
		// the writer thread's job: whatever was queued for the peer goes out (unless the peer does not read)
		if peerReads(cs.Queues) || !c.X.VersionReceived {
			c.Mutex.Lock()
			c.SendBufCons = c.SendBufProd
			c.Mutex.Unlock()
		}
		// the main thread's job: queued transactions go to the mempool, queued blocks are taken off
		for cs.Queues != "nettxs_full" && len(network.NetTxs) > 0 {
			ntx := <-network.NetTxs
			if m.Cmd == "tx" {
				if err := checkQueuedTx(pl, ntx); err != nil {
					return err
				}
			}
			if err := guarded("txpool.HandleNetTx for a transaction queued by the tx handler", func() { txpool.HandleNetTx(ntx) }); err != nil {
				return err
			}
			if err := locksFree(c); err != nil {
				return fmt.Errorf("after txpool.HandleNetTx returned, %v", err)
			}
		}
		var queued []*network.BlockRcvd
		for cs.Queues != "netblocks_full" && len(network.NetBlocks) > 0 {
			queued = append(queued, <-network.NetBlocks)
		}
		if m.Expect == "block_accepted" {
			if err := checkAcceptedBlock(c, pl, queued); err != nil {
				return err
			}
			if st != nil {
				st.genuineAccepted++
			}
		}
		if now := c.VerifMisbehave(); now > score { // the message earned the peer a penalty (one record per Misbehave call)
			k := max(c.VerifMisbehaveRecords()-len(penalties), 1)
			for i := 0; i < k; i++ {
				amt := (now - score) / k
				if i == 0 {
					amt += (now - score) % k
				}
				penalties = append(penalties, penalty{amt: amt})
			}
			score = now
		}
		if leave || c.IsBroken() {
			return endConnection()
		}
		return nil
	}

	hello := func() error {
		if cs.Handshake {
			v := msg{Cmd: "version", Pl: hex.EncodeToString(goodVersion(0x1122334455667700+uint64(serial), "/Satoshi:26.0.0/", baseBlocks))}
			if err := deliver(&v); err != nil {
				return err
			}
			if cs.Authorized {
				x := msg{Cmd: "xauth", Pl: hex.EncodeToString(append(append([]byte{}, e.peerPub...), make([]byte, 36)...)), Dyn: "xauth_sign"}
				if err := deliver(&x); err != nil {
					return err
				}
			}
		}
		setSendLevel(c, cs.Queues, cs.SendOff, cs.SendSlack) // from here on the peer may have stopped reading
		return nil
	}
	if err := hello(); err != nil && err != errReconnect {
		return err
	}
	for i := range cs.Msgs {
		err := deliver(&cs.Msgs[i])
		if err == errReconnect {
			if i+1 < len(cs.Msgs) {
				if err := hello(); err != nil && err != errReconnect {
					return err
				}
			}
			continue
		}
		if err != nil {
			return fmt.Errorf("message %d: %v", i, err)
		}
	}
	if err := unexportedLocksFree(); err != nil {
		return err
	}
	if st != nil {
		st.addrNewNO, st.addrNewYES = common.CounterGet("AddrNewNO"), common.CounterGet("AddrNewYES")
		st.txChanFull, st.sendOverflow = common.CounterGet("TxChannelFULL"), common.CounterGet("PeerSendOverflow")
		st.getdataPaused = common.CounterGet("GetDataPaused") + common.CounterGet("GetDataPauseExt")
		st.blkQueued = common.CounterGet("NetBlock-Queued")
		st.addrFlood = common.CounterGet("BanAddrFlood")
		st.memInputs = common.CounterGet("TxInputInMemory")
	}
	harvestCounters()
	runtime.ReadMemStats(&ms)
	if grown := ms.TotalAlloc - alloc0; grown > 128<<20+64*plBytes {
		return fmt.Errorf("%d MiB allocated while handling %d payload bytes", grown>>20, plBytes)
	}
	return nil
}

var errReconnect = fmt.Errorf("reconnect")

// harvestCounters adds gocoin's own event counters of the finished case to the evidence: they show how
// deep into the handlers the generated messages got (headers accepted, blocks queued, transactions
// admitted to the mempool, compact blocks completed ...).
var depthCounters = []string{"HeaderNew", "HeaderFresh", "HeaderOld", "NetBlock-Queued", "NetBlock-CachedA", "UnxpectedBlockNEW", "TxAccepted",
	"Tx Procesed", "TxInputInMemory", "PreCheckBlockFail", "GetHeadersBadBlock", "GetHeadersOrphBlk", "GetblksMissed", "GetdataBlockSw",
	"GetdataTxSw", "GetdataCmpctBlk", "AddrNewYES", "AddrNewNO", "AddrUpdated", "PongOK", "InvBlockNew", "InvBlockFresh", "BlkTxnIncomplete",
	"ShortIDUnknown", "BanVerSameNonce", "BanAddrFlood", "AddrBanUndone", "BanTxRejectedLenMismatch", "TxChannelFULL", "PeerSendOverflow", "GetDataPaused", "GetDataPauseExt", "GetDataRestored", "BanGetDataTooBigA", "UnxpBlockTxnA", "UnxpBlockTxnB", "BlkTxnSameRcvd", "TrustedMsg-Tx", "TrustedMsg-Block", "BanMisbehave", "PeersBanned", "EmptyHeadersRcvd", "CmpctBlockMaxInProg"}

func harvestCounters() {
	common.CounterMutex.Lock()
	defer common.CounterMutex.Unlock()
	for _, k := range depthCounters {
		if v := common.Counter[k]; v > 0 {
			pbt.AddExtra("gocoin_counter/"+k, int64(v))
		}
	}
	for k, v := range common.Counter {
		switch {
		case strings.HasPrefix(k, "sent_getblocktxn"), strings.HasPrefix(k, "sent_blocktxn"), strings.HasPrefix(k, "sent_cmpctblock"),
			strings.HasPrefix(k, "sent_headers"), strings.HasPrefix(k, "sent_block"), strings.HasPrefix(k, "sent_tx"), strings.HasPrefix(k, "sent_inv"),
			strings.HasPrefix(k, "sent_authack"), strings.HasPrefix(k, "sent_getmpdone"):
			pbt.AddExtra("gocoin_counter/"+k, int64(v))
		}
	}
}

// checkQueuedTx is an extra oracle on behalf of property C09 ("trailing bytes are refused, or the reported
// txid / wtxid / size / weight equal the definitions"), for the network front end of the transaction
// decoder (ParseTxNet), which the C09 check - it drives lib/btc - cannot reach.  pl is the payload of the
// tx message just handled, ntx what the handler queued for the mempool.  Only judged when the reference
// decoder reads a transaction from the front of pl (whether the two decoders agree on what a transaction
// is, is C09's own business).
func checkQueuedTx(pl []byte, ntx *txpool.TxRcvd) error {
	const tag = "[serves C09: trailing bytes are refused, or the reported txid/wtxid/size/weight equal the definitions] "
	ref, used, err := wire.DecodeTx(pl)
	if err != nil || ntx == nil || ntx.Tx == nil {
		return nil
	}
	tx := ntx.Tx
	if used != len(pl) {
		return fmt.Errorf(tag+"a tx message with %d byte(s) after a well-formed transaction of %d bytes was taken (queued for the mempool with Raw of %d bytes)", len(pl)-used, used, len(tx.Raw))
	}
	if !bytes.Equal(tx.Raw, pl) || int(tx.Size) != len(pl) {
		return fmt.Errorf(tag+"queued transaction: Raw/Size (%d/%d bytes) are not the %d bytes given", len(tx.Raw), tx.Size, len(pl))
	}
	if tx.Hash.Hash != ref.TxID() || tx.WTxID().Hash != ref.WTxID() {
		return fmt.Errorf(tag + "queued transaction: txid / wtxid are not those of the bytes given")
	}
	if tx.Weight() != ref.Weight() || tx.VSize() != ref.VSize() {
		return fmt.Errorf(tag+"queued transaction: weight %d / vsize %d, the bytes weigh %d / %d", tx.Weight(), tx.VSize(), ref.Weight(), ref.VSize())
	}
	return nil
}

// checkAcceptedBlock is an extra oracle on behalf of property C09 ("a block's transaction list, ids and
// weight are those of the bytes given"), for the one decoder caller the C09 check cannot drive:
// netBlockReceived re-using the record of a wanted block after another peer's corrupt copy.  raw is the
// genuine block a (new) peer has just delivered: it must have been queued for the chain thread, its
// sender must not be banned, and what was decoded must be what the reference decoder reads from raw.
func checkAcceptedBlock(c *network.OneConnection, raw []byte, queued []*network.BlockRcvd) error {
	const tag = "[serves C09: a block's transaction list, ids and weight are those of the bytes given] "
	ref, used, err := wire.DecodeBlock(raw)
	if err != nil || used != len(raw) {
		return fmt.Errorf("harness: the genuine block does not decode with the reference: %v", err)
	}
	if banned, why := c.VerifBanned(); banned || c.IsBroken() {
		return fmt.Errorf(tag+"the peer that delivered the genuine copy of a wanted block was banned / dropped (%s) after another peer had delivered a corrupt copy", why)
	}
	want := ref.Header.Hash()
	var got *network.BlockRcvd
	for _, q := range queued {
		if q.BlockTreeNode != nil && q.BlockTreeNode.BlockHash.Hash == want {
			got = q
		}
	}
	if got == nil || got.Block == nil {
		return fmt.Errorf(tag + "the genuine copy of a wanted block was not handed to the chain thread")
	}
	b := got.Block
	if !bytes.Equal(b.Raw, raw) || b.TxCount != len(ref.Txs) || len(b.Txs) != len(ref.Txs) {
		return fmt.Errorf(tag+"queued block: %d transactions decoded (TxCount %d) from bytes that hold %d", len(b.Txs), b.TxCount, len(ref.Txs))
	}
	for i, t := range ref.Txs {
		if b.Txs[i] == nil || b.Txs[i].Hash.Hash != t.TxID() || !bytes.Equal(b.Txs[i].Raw, t.Serialize(true)) {
			return fmt.Errorf(tag+"queued block: transaction %d is not the one in the bytes", i)
		}
	}
	if int(b.BlockWeight) != ref.Weight() {
		return fmt.Errorf(tag+"queued block: weight %d, the bytes weigh %d", b.BlockWeight, ref.Weight())
	}
	return nil
}

// --- the property -----------------------------------------------------------------------------------

func genSeqCase(t *rapid.T) seqCase {
	g := newG(t)
	cs := seqCase{
		Incoming:  g.chance(60),
		Syncing:   g.chance(15),
		Handshake: g.chance(80),
		Special:   g.chance(5),
	}
	cs.Authorized = cs.Handshake && g.chance(20)
	cs.Bystander = g.chance(35)
	if g.chance(12) {
		cs.Peers = pick(g, []string{"full", "full", "below", "above"})
		cs.Handshake = cs.Handshake || g.chance(70)
	}
	if cs.Peers == "" && g.chance(14) {
		cs.Queues = pick(g, queueVariants)
		cs.SendOff = g.k(network.SendBufSize)
		cs.SendSlack = pick(g, []int{0, 1, 23, 24, 25, 32, 60, 100, 300, 1000, 5000, 100000})
		cs.Handshake = cs.Handshake || g.chance(80)
		if cs.Queues == "nettxs_full" {
			cs.Syncing = false // transactions are only taken when the chain is synchronised
		}
	}
	if cs.Queues == "" && g.chance(4) {
		// addr flood: 10..13 addr messages with together more than 100 addresses the node does not know, right
		// after connecting - ParseAddr then deletes what came from this peer (peersdb.DeleteFromIP) and bans it
		cs.Handshake = true
		var fl []msg
		for i, n := 0, g.n(10, 13, "nflood"); i < n; i++ {
			fl = append(fl, g.addrFreshN(g.n(11, 40, "floodaddrs")))
			if g.chance(15) {
				fl = append(fl, msg{Cmd: pick(g, []string{"ping", "#tick", "getaddr"}), Pl: "0102030405060708"})
			}
		}
		rest := g.sequence(8)
		cs.Msgs = append(fl, rest...)
		cs.Tags = append(g.tags, "addr_flood")
		return cs
	}
	if cs.Peers == "" && cs.Queues == "" && g.chance(6) {
		// the time dimension (see clockScenario)
		cs.Handshake = true
		cs.Msgs = append(g.clockScenario(), g.sequence(5)...)
		cs.Tags = append(g.tags, "clock")
		return cs
	}
	if cs.Peers == "" && cs.Queues == "" && g.chance(5) {
		// taproot spends that reach script verification in the mempool (see taprootSpendScenario)
		cs.Handshake, cs.Syncing = true, false
		cs.Msgs = append(g.taprootSpendScenario(), g.sequence(6)...)
		cs.Tags = append(g.tags, "taproot_spend")
		return cs
	}
	if cs.Peers == "" && cs.Queues == "" && g.chance(4) {
		// a self-contained scenario: nothing else in the case can deliver or discard the block first
		cs.Handshake, cs.Syncing = true, g.chance(20)
		cs.Msgs = g.corruptCopyScenario()
		cs.Tags = g.tags
		return cs
	}
	cs.Msgs = g.sequence(30)
	switch cs.Queues {
	case "nettxs_full": // distinct, new, well-formed transactions the pool wants
		for i, n := 0, g.n(1, 3, "ntxmsg"); i < n; i++ {
			j := g.n(0, len(cs.Msgs), "txpos")
			t := g.tx()
			g.txs = append(g.txs, t)
			cs.Msgs = append(cs.Msgs[:j], append([]msg{{Cmd: "tx", Pl: hex.EncodeToString(t.Serialize(true)), Kind: "wf"}}, cs.Msgs[j:]...)...)
		}
	case "netblocks_full": // blocks that pass the checks and get queued: the full block, or a complete compact block
		for i, n := 0, g.n(1, 2, "nblkmsg"); i < n; i++ {
			j := g.n(0, len(cs.Msgs), "blkpos")
			bl := buildBlock(g.e.hashes[baseBlocks], baseBlocks+1, genesisTime+600*(baseBlocks+1), []byte{0xb7, byte(g.k(256))}, nil)
			m := msg{Cmd: "block", Pl: hex.EncodeToString(bl.Serialize(true)), Kind: "wf"}
			if g.chance(50) {
				var p built
				p.w(bl.Header.Serialize(), g.bytesN(8, 8))
				p.cs(0)
				p.cs(1)
				p.cs(0)
				p.w(bl.Txs[0].Serialize(true))
				m = msg{Cmd: "cmpctblock", Pl: hex.EncodeToString(p.b.Bytes()), Kind: "wf"}
			}
			cs.Msgs = append(cs.Msgs[:j], append([]msg{m}, cs.Msgs[j:]...)...)
		}
	case "sendbuf_half", "sendbuf_quarter", "sendbuf_full": // requests with long answers
		for i, n := 0, g.n(1, 3, "nreq"); i < n; i++ {
			j := g.n(0, len(cs.Msgs), "reqpos")
			var p built
			k := pick(g, []int{1, 2, 5, 40})
			p.cs(uint64(k))
			for x := 0; x < k; x++ {
				p.w(le32(pick(g, []uint32{0x40000002, 0x40000002, 4, 0x40000001})), g.e.hashes[g.n(1, baseBlocks, "reqh")][:])
			}
			cs.Msgs = append(cs.Msgs[:j], append([]msg{{Cmd: "getdata", Pl: hex.EncodeToString(p.b.Bytes()), Kind: "wf"}}, cs.Msgs[j:]...)...)
		}
	}
	if cs.Peers != "" {
		// addr messages with fresh, routable, segwit-flagged addresses the database does not know yet
		// (1, 2, a few, many per message; optionally mixed with known ones)
		for i, n := 0, g.n(1, 3, "naddrmsg"); i < n; i++ {
			j := g.n(0, len(cs.Msgs), "addrpos")
			cs.Msgs = append(cs.Msgs[:j], append([]msg{g.addrFresh()}, cs.Msgs[j:]...)...)
		}
	}
	if cs.Bystander && g.chance(40) {
		// a well-formed version that repeats the bystander's nonce; it is what HandleVersion's scan over the
		// other connections looks for.  Before the handshake it goes first; after a handshake it only gets
		// to the handler if an earlier message of the case ended the first connection.
		v := msg{Cmd: "version", Pl: hex.EncodeToString(goodVersion(1, pick(g, []string{"/Satoshi:26.0.0/", "/Gocoin:1.10.5/", ""}), baseBlocks)), Kind: "wf", Dyn: "ver_peernonce"}
		if !cs.Handshake {
			cs.Msgs = append([]msg{v}, cs.Msgs...)
		} else {
			i := g.n(0, len(cs.Msgs), "vpos")
			cs.Msgs = append(cs.Msgs[:i], append([]msg{v}, cs.Msgs[i:]...)...)
		}
	}
	if cs.Authorized {
		for i := range cs.Msgs {
			if g.chance(30) {
				cs.Msgs[i].Tr = true
			}
		}
	}
	cs.Tags = g.tags
	return cs
}

func classify(r *pbt.Run, cs seqCase) {
	if cs.Handshake {
		r.Class("after_handshake")
	} else {
		r.Class("before_handshake")
	}
	if cs.Authorized {
		r.Class("authorized")
	}
	if cs.Syncing {
		r.Class("syncing")
	}
	if cs.Bystander {
		r.Class("bystander_connection")
	}
	if cs.Peers != "" {
		r.Class("peers_db/" + cs.Peers)
	}
	if cs.Queues != "" {
		r.Class("queues/" + cs.Queues)
	}
	seenTag, breaks := map[string]bool{}, false
	for _, tg := range cs.Tags {
		if !seenTag[tg] {
			seenTag[tg] = true
			if strings.HasPrefix(tg, "wc/") {
				r.Class("blockbody/" + tg)
			} else {
				r.Class("scenario/" + tg)
			}
		}
		breaks = breaks || strings.HasPrefix(tg, "wc/") && wcBreaksRule(tg[3:])
	}
	if breaks {
		r.Class("blockbody/breaks_witness_commitment_rule")
	}
	seenCmd := map[string]bool{}
	seenKind := map[string]bool{}
	for _, m := range cs.Msgs {
		name := m.Cmd
		known := false
		for _, c := range cmds19 {
			known = known || c == name
		}
		if name == "#tick" || name == "#clock" {
			name = "tick"
		} else if !known {
			name = "other"
		}
		if !seenCmd[name] {
			seenCmd[name] = true
			r.Class("cmd/" + name)
		}
		if m.Kind != "" && !seenKind[m.Kind] {
			seenKind[m.Kind] = true
			r.Class("kind/" + m.Kind)
		}
	}
}

func TestHandlerSequences(t *testing.T) {
	cp := startCapture()
	defer cp.stop()
	pbt.Check(t, pbt.Cfg{Name: "handler_seq", Quick: 100000, Thorough: 3000000}, func(r *pbt.Run) {
		if wedged.Load() {
			return
		}
		cs := genSeqCase(r.T)
		r.Case(cs)
		classify(r, cs)
		raw, _ := json.Marshal(cs)
		journal("handler_seq", raw)
		cp.mark()
		if unsafeToRun(cs.Msgs) {
			r.Class("not_run_open_finding_alloc")
			r.Excluded(keyAllocAhead)
			return
		}
		var st stepStats
		err := runSeq(cs, &st)
		pbt.AddExtra("messages", int64(st.msgs))
		pbt.AddExtra("messages_reaching_a_handler", int64(st.reached))
		pbt.AddExtra("messages_nontrivial", int64(st.nontrivial))
		if st.nontrivial > 0 {
			r.NonTrivial()
			r.Class("nontrivial")
		}
		if st.sameNonce > 0 {
			r.Class("version/same_nonce_as_bystander")
		}
		switch {
		case cs.Queues == "nettxs_full" && st.txChanFull > 0:
			r.Class("queue/tx_offered_while_nettxs_full")
		case cs.Queues == "netblocks_full" && st.blkQueued > 0:
			r.Class("queue/block_queued_while_netblocks_full")
		case cs.Queues == "sendbuf_full" && st.sendOverflow > 0:
			r.Class("queue/send_buffer_overflow")
		case cs.Queues == "sendbuf_half" && st.getdataPaused > 0:
			r.Class("queue/getdata_paused")
		}
		if cs.Peers != "" && st.addrNewNO > 0 {
			r.Class("addr/new_record_while_db_full")
			if st.addrNewYES > 0 {
				r.Class("addr/db_filled_up_during_the_case")
			}
		}
		if cs.Peers != "" && st.addrNewYES > 0 {
			r.Class("addr/new_record_taken_near_the_limit")
		}
		if st.memInputs > 0 {
			for _, tg := range cs.Tags {
				if tg == "taproot_spend" {
					r.Class("tx/taproot_spend_reached_mempool_script_check")
				}
			}
		}
		if st.txTrailing > 0 {
			r.Class("c09/tx_with_trailing_bytes_offered")
		}
		if st.addrFlood > 0 {
			r.Class("addr/flood_detected")
		}
		if st.genuineAccepted > 0 {
			r.Class("c09/genuine_block_accepted_after_corrupt_copy")
		}
		if st.inProgressMax >= 500 {
			r.Class("queue/blocks_in_progress_at_per_peer_limit")
		}
		if st.fullBlockRequested {
			r.Class("state/full_block_requested_from_peer")
		}
		if st.namedInProgress > 0 {
			r.Class("state/message_names_block_in_progress")
			pbt.AddExtra("messages_naming_a_block_in_progress", int64(st.namedInProgress))
		}
		if st.tickSingleExpired {
			r.Class("clock/tick_with_single_expired_penalty")
		}
		if st.tickExpiredThenFresh {
			r.Class("clock/tick_with_expired_then_fresh_penalty")
		}
		if err != nil {
			if key := knownClass(cs.Msgs, err); key != "" {
				r.Excluded(key)
				return
			}
			r.Failf("%v", err)
		}
	})
}

func replaySeq(raw json.RawMessage) error {
	var cs seqCase
	if err := json.Unmarshal(raw, &cs); err != nil {
		return err
	}
	cp := startCapture()
	defer cp.stop()
	return runSeq(cs, nil)
}
