package c18

// Library entry points that parse untrusted data, called directly: transactions, blocks, headers,
// scripts, signatures, public keys, addresses, extended keys.  Oracle: no panic escapes, returns within
// the hang bound, allocation bounded by the input size, BlockIndexAccess free afterwards.

import (
	"crypto/sha256"
	"encoding/hex"
	"encoding/json"
	"fmt"
	"runtime"
	"testing"

	"github.com/piotrnar/gocoin/client/common"
	"github.com/piotrnar/gocoin/lib/btc"
	"github.com/piotrnar/gocoin/lib/script"
	"github.com/piotrnar/gocoin/lib/secp256k1"
	"pgregory.net/rapid"
	"verif/pbt"
	"verif/ref/addr"
	"verif/ref/wire"
)

type libCase struct {
	Kind string `json:"kind"` // tx | block | header | script | sig | pubkey | addr | hdwallet
	Data string `json:"data"` // hex (for addr / hdwallet: hex of the string bytes)
	How  string `json:"how,omitempty"`
	// script cases
	ScriptSig string   `json:"script_sig,omitempty"`
	Witness   []string `json:"witness,omitempty"`
	Amount    uint64   `json:"amount,omitempty"`
	Flags     uint32   `json:"flags,omitempty"`
	NIn       int      `json:"n_in,omitempty"`  // inputs of the spending transaction (0 = 1)
	NOut      int      `json:"n_out,omitempty"` // its outputs: n_out-1 (0 = 1 output, 1 = none, 2 = one ...)
	Idx       int      `json:"idx,omitempty"`   // position of the verified input
}

var consensusFlags = uint32(script.VER_P2SH | script.VER_DERSIG | script.VER_CLTV | script.VER_CSV | script.VER_WITNESS | script.VER_NULLDUMMY | script.VER_TAPROOT)

var flagSets = []uint32{0, script.VER_P2SH, script.VER_P2SH | script.VER_DERSIG | script.VER_CLTV,
	script.VER_P2SH | script.VER_DERSIG | script.VER_CLTV | script.VER_CSV,
	script.VER_P2SH | script.VER_DERSIG | script.VER_CLTV | script.VER_CSV | script.VER_WITNESS | script.VER_NULLDUMMY,
	consensusFlags, script.STANDARD_VERIFY_FLAGS}

func checkLib(c libCase) error {
	if wedged.Load() {
		return nil
	}
	data, _ := hex.DecodeString(c.Data)
	var ms runtime.MemStats
	runtime.ReadMemStats(&ms)
	alloc0 := ms.TotalAlloc
	var err error
	switch c.Kind {
	case "tx":
		err = guarded("btc.NewTx / TxSize and the accessors used on a peer's transaction", func() {
			n := btc.TxSize(data)
			if n < 0 || n > len(data) {
				panic(fmt.Sprint("TxSize reports ", n, " bytes for a buffer of ", len(data)))
			}
			tx, used := btc.NewTx(data)
			if tx == nil {
				return
			}
			if used <= 0 || used > len(data) {
				panic(fmt.Sprint("NewTx reports ", used, " bytes used of ", len(data)))
			}
			tx.SetHash(data[:used])
			tx.WTxID()
			tx.Weight()
			tx.VSize()
			tx.IsCoinBase()
			tx.CheckTransaction()
			tx.IsFinal(baseBlocks, genesisTime)
			tx.GetLegacySigOpCount()
			tx.ContainsOrdFile(true)
			for i := range tx.TxIn {
				btc.GetP2SHSigOpCount(tx.TxIn[i].ScriptSig)
				btc.IsPushOnly(tx.TxIn[i].ScriptSig)
				tx.CountWitnessSigOps(i, opTrueP2WSH)
				tx.CountWitnessSigOps(i, opTrueP2SH)
				tx.CountWitnessSigOps(i, []byte{0x00, 20, 1, 2, 3, 4, 5, 6, 7, 8, 9, 10, 11, 12, 13, 14, 15, 16, 17, 18, 19, 20})
			}
			for _, o := range tx.TxOut {
				btc.NewAddrFromPkScript(o.Pk_script, false)
				btc.IsP2SH(o.Pk_script)
			}
		})
	case "block":
		err = guarded("btc.NewBlock + BuildTxList + PreCheckBlock/PostCheckBlock", func() {
			bl, e := btc.NewBlock(data)
			if e != nil || bl == nil {
				return
			}
			ch := common.BlockChain
			ch.BlockIndexAccess.Lock()
			_, _, e = ch.PreCheckBlock(bl)
			ch.BlockIndexAccess.Unlock()
			if e != nil {
				// the node would stop here; the body parser is a library entry point of its own
				if len(data) > 80 {
					if bl.BuildTxList() == nil {
						bl.MerkleRootMatch()
						bl.GetUserInfo()
					}
				}
				return
			}
			if ch.PostCheckBlock(bl) == nil {
				bl.GetUserInfo()
			}
			bl.MerkleRootMatch()
		})
	case "header":
		err = guarded("80-byte header through btc.NewBlock + Chain.PreCheckBlock", func() {
			bl, e := btc.NewBlock(data)
			if e != nil || bl == nil {
				return
			}
			ch := common.BlockChain
			ch.BlockIndexAccess.Lock()
			defer ch.BlockIndexAccess.Unlock()
			ch.PreCheckBlock(bl)
		})
		if err == nil && !common.BlockChain.BlockIndexAccess.TryLock() {
			err = fmt.Errorf("BlockIndexAccess still held")
		} else if err == nil {
			common.BlockChain.BlockIndexAccess.Unlock()
		}
	case "script":
		err = guarded("script.VerifyTxScript", func() {
			ss, _ := hex.DecodeString(c.ScriptSig)
			in := wire.TxIn{PrevIndex: 0, ScriptSig: ss, Sequence: 0xfffffffe}
			in.PrevHash[0] = 1
			for _, w := range c.Witness {
				b, _ := hex.DecodeString(w)
				in.Witness = append(in.Witness, b)
			}
			nin, nout, idx := max(c.NIn, 1), 1, c.Idx
			if c.NOut > 0 {
				nout = c.NOut - 1
			}
			if idx < 0 || idx >= nin {
				idx = 0
			}
			wt := &wire.Tx{Version: 2}
			for i := 0; i < nin; i++ {
				if i == idx {
					wt.In = append(wt.In, in)
				} else {
					o := wire.TxIn{PrevIndex: uint32(i), Sequence: 0xffffffff}
					o.PrevHash[0] = 2
					wt.In = append(wt.In, o)
				}
			}
			for i := 0; i < nout; i++ {
				wt.Out = append(wt.Out, wire.TxOut{Value: 1 + uint64(i), PkScript: []byte{0x51}})
			}
			raw := wt.Serialize(true)
			tx, used := btc.NewTx(raw)
			if tx == nil || used != len(raw) {
				return // e.g. a witness stack of empty items only: not a transaction gocoin takes
			}
			tx.SetHash(raw)
			tx.AllocVerVars()
			for range tx.TxIn {
				tx.Spent_outputs = append(tx.Spent_outputs, &btc.TxOut{Value: c.Amount, Pk_script: data})
			}
			script.VerifyTxScript(data, &script.SigChecker{Amount: c.Amount, Idx: idx, Tx: tx}, c.Flags)
			btc.GetSigOpCount(data, true)
			btc.GetSigOpCount(data, false)
			btc.GetP2SHSigOpCount(ss)
			tx.CountWitnessSigOps(idx, data)
		})
	case "sig":
		err = guarded("btc.NewSignature / secp256k1.Signature.ParseBytes", func() {
			if s, e := btc.NewSignature(data); e == nil && s != nil {
				s.IsLowS()
			}
			var sg secp256k1.Signature
			sg.ParseBytes(data)
		})
	case "pubkey":
		err = guarded("btc.NewPublicKey / secp256k1.XY.ParsePubkey / Multiply", func() {
			if k, e := btc.NewPublicKey(data); e == nil && k != nil {
				k.IsValid()
			}
			var out [33]byte
			secp256k1.Multiply(data, nodeKey[:], out[:])
			if len(data) == 32 {
				var xy secp256k1.XY
				xy.ParseXOnlyPubkey(data)
			}
		})
	case "addr":
		err = guarded("btc.NewAddrFromString", func() {
			if a, e := btc.NewAddrFromString(string(data)); e == nil && a != nil {
				a.String()
				if a.SegwitProg != nil || a.Version == 0 || a.Version == 5 || a.Version == 111 || a.Version == 196 {
					a.OutScript() // other Base58 versions panic by design (callers check the version)
				}
			}
		})
	case "hdwallet":
		err = guarded("btc.StringWallet", func() {
			if w, e := btc.StringWallet(string(data)); e == nil && w != nil {
				w.String()
				if btc.IsPublicHDPrefix(w.Prefix) {
					w.PubAddr()
				}
			}
		})
	default:
		return fmt.Errorf("unknown kind %q", c.Kind)
	}
	if err != nil {
		if lerr := locksFree(nil); lerr != nil {
			err = fmt.Errorf("%v\n(and %v)", err, lerr)
		}
		return err
	}
	runtime.ReadMemStats(&ms)
	if grown := ms.TotalAlloc - alloc0; grown > 256<<20+200*uint64(len(data)) {
		return fmt.Errorf("%d MiB allocated for %d input bytes", grown>>20, len(data))
	}
	return nil
}

// mutateBytes applies one of the byte-level mutations to a structured encoding.
func (g *G) mutateBytes(b []byte, counts []int) ([]byte, string) {
	b = append([]byte{}, b...)
	switch k := g.k(10); {
	case k <= 2:
		return b, "wf"
	case k == 3 && len(b) > 0:
		return b[:g.n(0, len(b)-1, "cut")], "trunc"
	case k == 4:
		return append(b, g.bytesN(1, 20)...), "extend"
	case k <= 6 && len(counts) > 0:
		off := counts[g.n(0, len(counts)-1, "cntfield")]
		if off >= len(b) || off+csLen(b[off:]) > len(b) {
			return b, "wf" // (a transaction without inputs reads as the witness form: offsets are off)
		}
		old := csLen(b[off:])
		v := pick(g, hugeCounts)
		if g.chance(40) {
			v = uint64(g.n(0, 300, "cntsmall"))
		}
		enc := csEnc(v, pick(g, []int{1, 1, 3, 5, 9}))
		return append(append(append([]byte{}, b[:off]...), enc...), b[off+old:]...), "setcount"
	case len(b) > 0:
		for i, n := 0, g.n(1, 4, "nflip"); i < n; i++ {
			b[g.n(0, len(b)-1, "flippos")] = rapid.Byte().Draw(g.t, "flipval")
		}
		return b, "flip"
	}
	return b, "wf"
}

// txCountOffsets finds the CompactSize fields of a serialised transaction (via the layout walker).
func txCountOffsets(raw []byte) []int {
	var offs []int
	w := &walker{b: raw}
	rec := func() { offs = append(offs, w.pos) }
	w.skip(4)
	segwit := false
	if w.left() >= 2 && raw[w.pos] == 0 && raw[w.pos+1] == 1 {
		segwit = true
		w.pos += 2
	}
	rec()
	nin := w.cs(1)
	for i := uint64(0); i < nin && !w.bad; i++ {
		w.skip(36)
		rec()
		w.skip(int(w.cs(1)))
		w.skip(4)
	}
	rec()
	nout := w.cs(1)
	for i := uint64(0); i < nout && !w.bad; i++ {
		w.skip(8)
		rec()
		w.skip(int(w.cs(1)))
	}
	if segwit {
		for i := uint64(0); i < nin && !w.bad; i++ {
			rec()
			k := w.cs(1)
			for j := uint64(0); j < k && !w.bad; j++ {
				rec()
				w.skip(int(w.cs(1)))
			}
		}
	}
	return offs
}

func (g *G) randScript() []byte {
	var s []byte
	n := g.n(0, 25, "nops")
	for i := 0; i < n; i++ {
		switch g.k(12) {
		case 0: // direct push, maybe longer than what follows
			l := g.n(1, 75, "pushlen")
			s = append(s, byte(l))
			if g.chance(85) {
				s = append(s, g.bytesN(l, l)...)
			}
		case 1:
			l := g.n(0, 255, "pd1")
			s = append(s, 0x4c, byte(l))
			if g.chance(70) {
				s = append(s, make([]byte, l)...)
			}
		case 2:
			s = append(s, 0x4d, byte(g.n(0, 255, "pd2a")), byte(g.n(0, 255, "pd2b")))
		case 3:
			s = append(s, 0x4e)
			s = append(s, g.bytesN(0, 4)...)
		case 4:
			s = append(s, byte(0x51+g.n(0, 15, "opn")))
		case 5:
			s = append(s, pick(g, []byte{0x63, 0x64, 0x67, 0x68, 0x69, 0x6a, 0x6b, 0x6c, 0x76, 0x7c, 0x82, 0x87, 0x88}))
		case 6:
			s = append(s, pick(g, []byte{0xac, 0xad, 0xae, 0xaf, 0xba, 0xb1, 0xb2, 0xa9, 0xaa, 0xa8, 0xa7, 0xa6, 0xab}))
		case 7: // something that looks like a signature / key push
			if g.chance(50) {
				s = append(s, 33, 2)
				s = append(s, g.bytesN(32, 32)...)
			} else {
				sig := append([]byte{0x30, 0x06, 0x02, 0x01, byte(g.n(0, 255, "r")), 0x02, 0x01, byte(g.n(0, 255, "s"))}, byte(g.n(0, 255, "ht")))
				s = append(append(s, byte(len(sig))), sig...)
			}
		case 8:
			s = append(s, byte(g.n(0x8b, 0xa5, "arith")))
		default:
			s = append(s, rapid.Byte().Draw(g.t, "anyop"))
		}
	}
	return s
}

func sha256of(b []byte) []byte { h := sha256.Sum256(b); return h[:] }

func genLibCase(t *rapid.T) libCase {
	g := newG(t)
	kind := pick(g, []string{"script", "tx", "block", "header", "sig", "pubkey", "addr", "hdwallet"})
	c := libCase{Kind: kind}
	switch kind {
	case "tx":
		if g.chance(15) {
			c.Data, c.How = hex.EncodeToString(g.bytesN(0, 300)), "raw"
			break
		}
		raw := g.tx().Serialize(true)
		b, how := g.mutateBytes(raw, txCountOffsets(raw))
		c.Data, c.How = hex.EncodeToString(b), how
	case "block":
		if g.chance(10) {
			c.Data, c.How = hex.EncodeToString(g.bytesN(0, 400)), "raw"
			break
		}
		bl, _, _ := g.block()
		raw := bl.Serialize(true)
		offs := []int{80}
		pos := 80 + csLen(raw[80:])
		for _, tx := range bl.Txs {
			tr := tx.Serialize(true)
			for _, o := range txCountOffsets(tr) {
				offs = append(offs, pos+o)
			}
			pos += len(tr)
		}
		b, how := g.mutateBytes(raw, offs)
		c.Data, c.How = hex.EncodeToString(b), how
	case "header":
		h, _, _, mineIt := g.header(false)
		copy(h.MerkleRoot[:], g.bytesN(32, 32))
		if mineIt {
			mine(&h)
		}
		b, how := g.mutateBytes(h.Serialize(), nil)
		if g.chance(10) {
			b, how = g.bytesN(0, 100), "raw"
		}
		c.Data, c.How = hex.EncodeToString(b), how
	case "script":
		c.Flags = pick(g, flagSets)
		c.Amount = uint64(g.n(0, 1000000, "amount"))
		var pk, ss []byte
		var wit [][]byte
		shape := g.k(9)
		if shape >= 7 {
			// taproot key-path / script-path spend of a properly tweaked output: the signature element carries
			// every hash-type byte, the input sits before / at / behind the number of outputs, annex or not
			pk = tapPk
			c.NIn = g.n(1, 4, "nin")
			c.NOut = 1 + g.n(0, 3, "nout")
			c.Idx = g.k(c.NIn)
			if g.chance(40) && c.NOut-1 < c.NIn {
				c.Idx = c.NOut - 1 // input number == number of outputs
			}
			wit = g.tapWitness(shape == 8)
			c.How = pick(g, []string{"taproot_keypath", "taproot_scriptpath"})
			if shape == 7 {
				c.How = "taproot_keypath"
			} else {
				c.How = "taproot_scriptpath"
			}
			if c.Flags&script.VER_TAPROOT == 0 && g.chance(80) {
				c.Flags = pick(g, []uint32{consensusFlags, script.STANDARD_VERIFY_FLAGS})
			}
			shape = 100
		}
		switch shape {
		case 100:
		case 0: // bare random script, random scriptSig
			pk, ss = g.randScript(), g.randScript()
		case 1: // P2SH of a random redeem script
			red := g.randScript()
			h := btc.Rimp160AfterSha256(red)
			pk = append(append([]byte{0xa9, 20}, h[:]...), 0x87)
			ss = g.randScript()
			if len(red) <= 75 {
				ss = append(ss, byte(len(red)))
				ss = append(ss, red...)
			}
		case 2: // P2WSH of a random witness script
			ws := g.randScript()
			pk = addr.WitnessScript(0, sha256of(ws))
			for i, n := 0, g.n(0, 4, "nwit"); i < n; i++ {
				wit = append(wit, g.bytesN(0, 80))
			}
			wit = append(wit, ws)
		case 3: // P2WPKH / witness v0 with odd lengths
			pk = addr.WitnessScript(0, g.bytesN(20, 20))
			wit = [][]byte{g.bytesN(0, 80), g.bytesN(0, 70)}
		case 4: // taproot: key path or script path with a random control block
			pk = addr.WitnessScript(1, g.bytesN(32, 32))
			switch g.k(4) {
			case 0:
				wit = [][]byte{g.bytesN(64, 65)}
			case 1:
				cb := append([]byte{byte(0xc0 | g.n(0, 1, "par"))}, g.bytesN(32, 32)...)
				for i, n := 0, g.n(0, 3, "depth"); i < n; i++ {
					cb = append(cb, g.bytesN(32, 32)...)
				}
				if g.chance(20) {
					cb = append(cb, g.bytesN(1, 31)...)
				}
				wit = [][]byte{g.bytesN(0, 70), g.randScript(), cb}
			case 2:
				wit = [][]byte{g.bytesN(64, 64), append([]byte{0x50}, g.bytesN(0, 20)...)} // annex
			default:
				for i, n := 0, g.n(0, 5, "nwit"); i < n; i++ {
					wit = append(wit, g.bytesN(0, 100))
				}
			}
		case 5: // future witness versions, odd programs
			pk = addr.WitnessScript(g.n(0, 16, "wver"), g.bytesN(2, 40))
			for i, n := 0, g.n(0, 3, "nwit"); i < n; i++ {
				wit = append(wit, g.bytesN(0, 40))
			}
		default:
			pk, ss = g.bytesN(0, 120), g.bytesN(0, 120)
		}
		c.Data, c.ScriptSig = hex.EncodeToString(pk), hex.EncodeToString(ss)
		for _, w := range wit {
			c.Witness = append(c.Witness, hex.EncodeToString(w))
		}
	case "sig":
		var b []byte
		if g.chance(60) {
			lr, ls := g.n(0, 34, "lr"), g.n(0, 34, "ls")
			b = append([]byte{0x30, byte(4 + lr + ls), 0x02, byte(lr)}, g.bytesN(lr, lr)...)
			b = append(append(b, 0x02, byte(ls)), g.bytesN(ls, ls)...)
			b = append(b, byte(g.n(0, 255, "ht")))
			b, c.How = g.mutateBytes(b, nil)
		} else {
			b, c.How = g.bytesN(0, 90), "raw"
		}
		c.Data = hex.EncodeToString(b)
	case "pubkey":
		var b []byte
		switch g.k(5) {
		case 0:
			b = append([]byte{byte(g.n(2, 3, "par"))}, g.bytesN(32, 32)...)
		case 1:
			b = append([]byte{byte(g.n(4, 7, "hyb"))}, g.bytesN(64, 64)...)
		case 2:
			b = g.e.nodePub
		case 3:
			b = g.bytesN(32, 32)
		default:
			b = g.bytesN(0, 70)
		}
		b, c.How = g.mutateBytes(b, nil)
		c.Data = hex.EncodeToString(b)
	case "addr":
		var s string
		switch g.k(4) {
		case 0:
			s = addr.SegwitEncode(pick(g, []string{"bc", "tb"}), g.n(0, 16, "wver"), g.bytesN(2, 40))
		case 1:
			s = addr.Base58CheckEncode(append([]byte{pick(g, []byte{0, 5, 111, 196, 48, 128})}, g.bytesN(0, 40)...))
		default:
			s = string(g.bytesN(0, 120))
		}
		b, how := g.mutateBytes([]byte(s), nil)
		c.Data, c.How = hex.EncodeToString(b), how
	case "hdwallet":
		var pl []byte
		pre := pick(g, []uint32{0x0488B21E, 0x0488ADE4, 0x043587CF, 0x04358394, 0x04b24746, 0x049d7cb2, 0})
		pl = append(pl, byte(pre>>24), byte(pre>>16), byte(pre>>8), byte(pre))
		pl = append(pl, g.bytesN(41, 41)...) // depth, fingerprint, index, chain code
		if g.chance(50) {
			pl = append(pl, g.e.nodePub...)
		} else {
			pl = append(pl, g.bytesN(33, 33)...)
		}
		if g.chance(20) {
			pl = g.bytesN(0, 100)
		}
		s := addr.Base58CheckEncode(pl)
		b, how := g.mutateBytes([]byte(s), nil)
		if g.chance(50) {
			b, how = []byte(s), "wf"
		}
		c.Data, c.How = hex.EncodeToString(b), how
	}
	return c
}

func TestLibraryEntryPoints(t *testing.T) {
	cp := startCapture()
	defer cp.stop()
	getEnv()
	pbt.Check(t, pbt.Cfg{Name: "lib_entry", Quick: 300000, Thorough: 10000000}, func(r *pbt.Run) {
		if wedged.Load() {
			return
		}
		c := genLibCase(r.T)
		r.Case(c)
		r.Class(c.Kind)
		if c.How != "" {
			r.Class(c.Kind + "/" + c.How)
		}
		r.NonTrivial()
		if c.Kind == "tx" || c.Kind == "block" {
			d, _ := hex.DecodeString(c.Data)
			cmd := c.Kind
			if yes, max := allocAhead(cmd, d); yes && max > 1<<25 && pbt.FindingOpen(keyAllocAhead) {
				r.Excluded(keyAllocAhead)
				return
			}
		}
		if cp.mark() == 0 {
			// (the capture file was emptied)
		}
		if err := checkLib(c); err != nil {
			r.Failf("%v", err)
		}
	})
}

func replayLib(raw json.RawMessage) error {
	var c libCase
	if err := json.Unmarshal(raw, &c); err != nil {
		return err
	}
	getEnv()
	cp := startCapture()
	defer cp.stop()
	return checkLib(c)
}
