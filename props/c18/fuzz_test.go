package c18

// Native (coverage-guided) fuzz targets for the thorough tier: one per message handler, one for the raw
// byte stream into the real Run() loop, and three for the library decoders.  The oracle is the same as
// in the generated campaigns and lives inside the targets; the node state is reset for every input.

import (
	"encoding/hex"
	"sync"
	"testing"

	"verif/pbt"
	"verif/ref/wire"
)

var fuzzCapOnce sync.Once

func fuzzSetup() {
	fuzzCapOnce.Do(func() {
		startCapture() // for the life of the worker process
		getEnv()
	})
}

// fixtures built from the start-up chain without a generator
func fxSpendTx(e *envT, i int) *wire.Tx {
	sp := e.spend[i%len(e.spend)]
	in := wire.TxIn{PrevHash: sp.TxID, PrevIndex: sp.Vout, Sequence: 0xffffffff}
	switch sp.Kind {
	case "p2sh":
		in.ScriptSig = []byte{0x01, 0x51}
	case "p2wsh":
		in.Witness = [][]byte{{0x51}}
	}
	return &wire.Tx{Version: 2, In: []wire.TxIn{in}, Out: []wire.TxOut{{Value: sp.Value - 10000, PkScript: []byte{0x51}}}}
}

func fxBlock(e *envT, txs ...*wire.Tx) *wire.Block {
	return buildBlock(e.hashes[baseBlocks], baseBlocks+1, genesisTime+600*(baseBlocks+1), []byte{0xf0}, txs)
}

func fxCmpct(e *envT) (cmpct []byte, blocktxn []byte) {
	tx := fxSpendTx(e, 0)
	bl := fxBlock(e, tx)
	hdr := bl.Header.Serialize()
	nonce := []byte{1, 2, 3, 4, 5, 6, 7, 8}
	var p built
	p.w(hdr, nonce)
	p.cs(1)
	p.w(shortID(hdr, nonce, tx.WTxID()))
	p.cs(1)
	p.cs(0)
	p.w(bl.Txs[0].Serialize(true))
	var q built
	h := bl.Header.Hash()
	q.w(h[:])
	q.cs(1)
	q.w(tx.Serialize(true))
	return p.b.Bytes(), q.b.Bytes()
}

func fuzzSeeds(e *envT, cmd string) [][]byte {
	tip := e.hashes[baseBlocks]
	inv := func(typ uint32, h [32]byte) []byte {
		var p built
		p.cs(1)
		p.w(le32(typ), h[:])
		return p.b.Bytes()
	}
	loc := func() []byte {
		var p built
		p.w(le32(70016))
		p.cs(2)
		p.w(tip[:], e.hashes[50][:], make([]byte, 32))
		return p.b.Bytes()
	}
	switch cmd {
	case "version":
		return [][]byte{goodVersion(7, "/Satoshi:26.0.0/", baseBlocks), goodVersion(8, "/Gocoin:1.10.5/", 0)[:82]}
	case "addr":
		var p built
		p.cs(1)
		p.w(le32(genesisTime), netAddr(9, [4]byte{8, 8, 8, 8}, 8333))
		var q built
		q.cs(2)
		q.w(le32(0xffffffff), netAddr(goodServices, [4]byte{12, 1, 2, 3}, 8333), le32(0x7fffffff), netAddr(goodServices, [4]byte{12, 1, 2, 4}, 8333))
		return [][]byte{p.b.Bytes(), q.b.Bytes()}
	case "inv", "getdata", "notfound":
		return [][]byte{inv(2, tip), inv(0x40000002, e.hashes[5]), inv(0x40000001, e.spend[0].TxID), inv(4, tip)}
	case "getblocks", "getheaders":
		return [][]byte{loc()}
	case "headers":
		bl := fxBlock(e)
		var p built
		p.cs(1)
		p.w(bl.Header.Serialize(), []byte{0})
		return [][]byte{p.b.Bytes()}
	case "tx":
		return [][]byte{fxSpendTx(e, 0).Serialize(true), fxSpendTx(e, 1).Serialize(true), fxSpendTx(e, 2).Serialize(true)}
	case "block":
		return [][]byte{fxBlock(e).Serialize(true), fxBlock(e, fxSpendTx(e, 0)).Serialize(true)}
	case "cmpctblock":
		c, _ := fxCmpct(e)
		return [][]byte{c}
	case "blocktxn":
		_, b := fxCmpct(e)
		return [][]byte{b}
	case "getblocktxn":
		var p built
		p.w(e.hashes[105][:])
		p.cs(2)
		p.cs(0)
		p.cs(0)
		return [][]byte{p.b.Bytes()}
	case "ping", "pong":
		return [][]byte{{1, 2, 3, 4, 5, 6, 7, 8}}
	case "feefilter":
		return [][]byte{le64(1000)}
	case "sendcmpct":
		return [][]byte{append([]byte{1}, le64(2)...)}
	case "getmp":
		var p built
		p.cs(1)
		p.w(tip[:8])
		return [][]byte{p.b.Bytes()}
	case "xauth":
		m := msg{Cmd: "xauth", Pl: hex.EncodeToString(append(append([]byte{}, e.peerPub...), make([]byte, 36)...)), Dyn: "xauth_sign"}
		return [][]byte{resolve(e, nil, &m)}
	}
	return [][]byte{{}}
}

// fuzzHandler fuzzes the payload of one command.  flags: bit0 authorised peer, bit1 node still syncing,
// bit2 no handshake first, bit3 message arrives marked trusted (only honoured for an authorised peer),
// bit4/5 (addr only) peers database at / just below its hard limit.
func fuzzHandler(f *testing.F, cmd string) {
	e := getEnv()
	for _, s := range fuzzSeeds(e, cmd) {
		f.Add(byte(0), s)
		f.Add(byte(1), s)
		if cmd == "tx" {
			f.Add(byte(16), s)
		}
		if cmd == "addr" {
			f.Add(byte(16), s)
			f.Add(byte(48), s)
		}
	}
	f.Fuzz(func(t *testing.T, flags byte, pl []byte) {
		if wedged.Load() {
			t.Skip("an earlier call never returned or left a global mutex locked")
		}
		fuzzSetup()
		if len(pl) > 200000 {
			return
		}
		cs := seqCase{Incoming: true, Handshake: flags&4 == 0, Authorized: flags&1 != 0 && flags&4 == 0, Syncing: flags&2 != 0}
		if cmd == "tx" && flags&16 != 0 {
			cs.Queues = "nettxs_full" // bit4 (tx): the queue to the main thread is full
		}
		if cmd == "addr" && flags&16 != 0 {
			cs.Peers = "full" // bit4: the peers database is at its limit
			if flags&32 != 0 {
				cs.Peers = "below"
			}
		}
		switch cmd {
		case "cmpctblock":
			cs.Msgs = []msg{{Cmd: "sendcmpct", Pl: "010200000000000000"}}
		case "blocktxn":
			c, _ := fxCmpct(e)
			cs.Msgs = []msg{{Cmd: "sendcmpct", Pl: "010200000000000000"}, {Cmd: "cmpctblock", Pl: hex.EncodeToString(c)}}
		case "pong":
			cs.Msgs = []msg{{Cmd: "#tick"}}
		}
		cs.Msgs = append(cs.Msgs, msg{Cmd: cmd, Pl: hex.EncodeToString(pl), Kind: "fuzz", Tr: flags&8 != 0})
		if unsafeToRun(cs.Msgs) {
			return
		}
		if err := runSeq(cs, nil); err != nil {
			if knownClass(cs.Msgs, err) != "" {
				return
			}
			pbt.FuzzFail(t, "handler_seq", cs, "%v", err)
		}
	})
}

func FuzzVersion(f *testing.F)     { fuzzHandler(f, "version") }
func FuzzAddr(f *testing.F)        { fuzzHandler(f, "addr") }
func FuzzInv(f *testing.F)         { fuzzHandler(f, "inv") }
func FuzzGetData(f *testing.F)     { fuzzHandler(f, "getdata") }
func FuzzGetBlocks(f *testing.F)   { fuzzHandler(f, "getblocks") }
func FuzzGetHeaders(f *testing.F)  { fuzzHandler(f, "getheaders") }
func FuzzHeaders(f *testing.F)     { fuzzHandler(f, "headers") }
func FuzzTx(f *testing.F)          { fuzzHandler(f, "tx") }
func FuzzBlock(f *testing.F)       { fuzzHandler(f, "block") }
func FuzzCmpctBlock(f *testing.F)  { fuzzHandler(f, "cmpctblock") }
func FuzzGetBlockTxn(f *testing.F) { fuzzHandler(f, "getblocktxn") }
func FuzzBlockTxn(f *testing.F)    { fuzzHandler(f, "blocktxn") }
func FuzzPong(f *testing.F)        { fuzzHandler(f, "pong") }
func FuzzSendCmpct(f *testing.F)   { fuzzHandler(f, "sendcmpct") }
func FuzzGetMP(f *testing.F)       { fuzzHandler(f, "getmp") }
func FuzzXAuth(f *testing.F)       { fuzzHandler(f, "xauth") }

// FuzzRunStream: arbitrary bytes straight into the real Run() loop (after an optional proper handshake).
func FuzzRunStream(f *testing.F) {
	e := getEnv()
	ping := msg{Cmd: "ping", Pl: "0102030405060708", Frame: "ok"}
	inv := msg{Cmd: "inv", Pl: hex.EncodeToString(fuzzSeeds(e, "inv")[0]), Frame: "ok"}
	f.Add(byte(0), append(frame(e, &ping, ping.payload()), frame(e, &inv, inv.payload())...))
	f.Add(byte(1), frame(e, &ping, ping.payload()))
	f.Fuzz(func(t *testing.T, flags byte, stream []byte) {
		if wedged.Load() {
			t.Skip("an earlier call never returned or left a global mutex locked")
		}
		fuzzSetup()
		if len(stream) > 100000 {
			return
		}
		// the stream is delivered as one "frame" that is already on-the-wire bytes
		rc := runCase{Incoming: true, Handshake: flags&1 == 0, KeyFirst: flags&3 == 2, Syncing: flags&4 != 0,
			Frames: []msg{{Cmd: "", Pl: hex.EncodeToString(stream), Frame: "verbatim"}}}
		if err := runRun(rc, curCap); err != nil {
			pbt.FuzzFail(t, "run_loop", rc, "%v", err)
		}
	})
}

func fuzzLib(f *testing.F, kind string, seeds [][]byte) {
	for _, s := range seeds {
		f.Add(s)
	}
	f.Fuzz(func(t *testing.T, data []byte) {
		if wedged.Load() {
			t.Skip("an earlier call never returned or left a global mutex locked")
		}
		fuzzSetup()
		if len(data) > 200000 {
			return
		}
		c := libCase{Kind: kind, Data: hex.EncodeToString(data), How: "fuzz"}
		if yes, max := allocAhead(kind, data); yes && max > 1<<25 && pbt.FindingOpen(keyAllocAhead) {
			return
		}
		if err := checkLib(c); err != nil {
			pbt.FuzzFail(t, "lib_entry", c, "%v", err)
		}
	})
}

func FuzzLibTx(f *testing.F) {
	e := getEnv()
	fuzzLib(f, "tx", [][]byte{fxSpendTx(e, 0).Serialize(true), fxSpendTx(e, 2).Serialize(true)})
}

func FuzzLibBlock(f *testing.F) {
	e := getEnv()
	fuzzLib(f, "block", [][]byte{fxBlock(e).Serialize(true), fxBlock(e, fxSpendTx(e, 2)).Serialize(true), e.raw[104]})
}

// FuzzLibScript: data = scriptPubKey; the scriptSig is the second half of the input.
func FuzzLibScript(f *testing.F) {
	f.Add([]byte{0x51}, []byte{}, uint32(0))
	f.Add([]byte{0x76, 0xa9, 0x14, 1, 2, 3, 4, 5, 6, 7, 8, 9, 10, 11, 12, 13, 14, 15, 16, 17, 18, 19, 20, 0x88, 0xac}, []byte{0x01, 0x02, 0x21, 0x02}, uint32(3))
	f.Add(opTrueP2SH, []byte{0x01, 0x51}, uint32(5))
	f.Fuzz(func(t *testing.T, pk, ss []byte, fl uint32) {
		if wedged.Load() {
			t.Skip("an earlier call never returned or left a global mutex locked")
		}
		fuzzSetup()
		if len(pk) > 12000 || len(ss) > 12000 {
			return
		}
		c := libCase{Kind: "script", Data: hex.EncodeToString(pk), ScriptSig: hex.EncodeToString(ss), Flags: flagSets[int(fl)%len(flagSets)], Amount: 1000, How: "fuzz"}
		if err := checkLib(c); err != nil {
			pbt.FuzzFail(t, "lib_entry", c, "%v", err)
		}
	})
}
