package c18

// The mini node: everything client/main.go sets up before the first peer is served, without the parts
// that would touch the outside world (config file / os.Args, DNS seeds, listening socket, UI threads).
// One environment per process; the mutable state is put back at the top of every case (reset).

import (
	"bytes"
	"crypto/sha256"
	"encoding/binary"
	"fmt"
	"math/big"
	"os"
	"runtime/debug"
	"sync"
	"syscall"
	"time"

	"github.com/piotrnar/gocoin/client/common"
	"github.com/piotrnar/gocoin/client/network"
	"github.com/piotrnar/gocoin/client/peersdb"
	"github.com/piotrnar/gocoin/client/txpool"
	"github.com/piotrnar/gocoin/lib/btc"
	"github.com/piotrnar/gocoin/lib/chain"
	"github.com/piotrnar/gocoin/lib/others/qdb"
	"github.com/piotrnar/gocoin/lib/script"
	"verif/ref/ec"
	"verif/ref/wire"
)

const (
	powBits      = 0x207fffff // regtest-like limit: every second hash is a valid proof of work
	genesisTime  = 1700000000 // fixed past epoch; block h carries genesisTime + 600*h
	baseBlocks   = 110        // mined at start-up; coinbases of blocks 1..10 are mature
	blockVersion = 0x20000000
)

type spendable struct {
	TxID  [32]byte
	Vout  uint32
	Value uint64
	Kind  string // "true" (bare OP_TRUE), "p2sh" (P2SH of OP_TRUE), "p2wsh" (P2WSH of OP_TRUE)
}

type envT struct {
	home     string
	ch       *chain.Chain
	genesis  [32]byte
	blocks   []*wire.Block // blocks[i] has height i+1
	raw      [][]byte
	hashes   [][32]byte // hashes[0] = genesis, hashes[h] = block at height h
	tip      *chain.BlockTreeNode
	baseline map[btc.BIDX]*chain.BlockTreeNode
	spend    []spendable // mature, unspent outputs in the start-up chain
	nodePub  []byte
	peerKey  []byte                 // the harness' "friend" key (listed in AuthPubkeys)
	emptyDB  *qdb.DB                // the peers database of a fresh node
	fullDB   *qdb.DB                // a second instance filled to the hard limit (built on first use, volatile)
	fullVals map[qdb.KeyType][]byte // its synthetic records 0..peersLimit+2
	fullKeys []qdb.KeyType
	fullUsed bool          // fullDB was the live database since its last clean-up
	touched  []qdb.KeyType // keys the running case may have written to it
	peerPub  []byte
}

var (
	theEnv  *envT
	envOnce sync.Once
	nodeKey = sha256.Sum256([]byte("verif-c18-node-secret"))
)

var opTrueP2SH = func() []byte {
	h := btc.Rimp160AfterSha256([]byte{0x51})
	return append(append([]byte{0xa9, 20}, h[:]...), 0x87)
}()

var opTrueP2WSH = func() []byte {
	h := sha256.Sum256([]byte{0x51})
	return append([]byte{0x00, 32}, h[:]...)
}()

// bip34Push is CScript() << height (own implementation of the rule, not gocoin's helper).
func bip34Push(h uint32) []byte {
	if h == 0 {
		return []byte{0}
	}
	if h <= 16 {
		return []byte{byte(0x50 + h)}
	}
	var b []byte
	for v := h; v > 0; v >>= 8 {
		b = append(b, byte(v))
	}
	if b[len(b)-1]&0x80 != 0 {
		b = append(b, 0)
	}
	return append([]byte{byte(len(b))}, b...)
}

var powTarget = func() *big.Int {
	t := big.NewInt(0x7fffff)
	return t.Lsh(t, 8*(0x20-3))
}()

func powOK(h [32]byte) bool {
	var be [32]byte
	for i := range h {
		be[31-i] = h[i]
	}
	return new(big.Int).SetBytes(be[:]).Cmp(powTarget) <= 0
}

// mine sets the nonce so that the header hash meets powBits.
func mine(h *wire.Header) {
	for !powOK(h.Hash()) {
		h.Nonce++
	}
}

func coinbaseTx(height uint32, extra []byte) *wire.Tx {
	ss := append(bip34Push(height), extra...)
	if len(ss) < 2 {
		ss = append(ss, 0x00)
	}
	var in wire.TxIn
	in.PrevIndex = 0xffffffff
	in.ScriptSig = ss
	in.Sequence = 0xffffffff
	return &wire.Tx{Version: 1, In: []wire.TxIn{in}, Out: []wire.TxOut{
		{Value: 20e8, PkScript: []byte{0x51}},
		{Value: 15e8, PkScript: opTrueP2SH},
		{Value: 15e8, PkScript: opTrueP2WSH},
	}}
}

// buildBlock makes a block on prev with the given transactions after the coinbase (merkle root right,
// proof of work found).  No witness commitment: callers only add witness-free transactions here.
func buildBlock(prev [32]byte, height uint32, tm uint32, cbExtra []byte, txs []*wire.Tx) *wire.Block {
	bl := &wire.Block{Txs: append([]*wire.Tx{coinbaseTx(height, cbExtra)}, txs...)}
	bl.Header.Version = blockVersion
	bl.Header.PrevBlock = prev
	bl.Header.Time = tm
	bl.Header.Bits = powBits
	bl.Header.MerkleRoot, _ = bl.TxMerkleRoot()
	mine(&bl.Header)
	return bl
}

func getEnv() *envT {
	envOnce.Do(func() { theEnv = newEnv() })
	return theEnv
}

func must(err error) {
	if err != nil {
		panic(err)
	}
}

func newEnv() *envT {
	e := &envT{}
	home, err := os.MkdirTemp("", "c18-home-")
	must(err)
	e.home = home
	g := sha256.Sum256([]byte("verif-c18-genesis"))
	g[0] = 0x11 // first byte != 0x43: main-net rule set, overwritten below
	e.genesis = g

	// --- common.CFG the way InitConfig() fills it (no os.Args, no file) -------------------------
	c := &common.CFG
	c.Net.ListenTCP = true
	c.Net.MaxOutCons = 20
	c.Net.MaxInCons = 20
	c.Net.MaxBlockAtOnce = 3
	c.Net.BindToIF = "0.0.0.0"
	c.WebUI.AllowedIP = "127.0.0.1"
	c.TXPool.Enabled = true
	c.TXPool.AllowMemInputs = true
	c.TXPool.FeePerByte = 0.001
	c.TXPool.MaxTxWeight = 400e3
	c.TXPool.MaxSizeMB = 500
	c.TXPool.ExpireInDays = 14
	c.TXPool.MaxRejectMB = 25.0
	c.TXPool.MaxNoUtxoMB = 5.0
	c.TXPool.RejectRecCnt = 20000
	c.TXRoute.Enabled = true
	c.TXRoute.FeePerByte = 0.1
	c.TXRoute.MaxTxWeight = 400e3
	c.Memory.GCPercTrshold = 30
	c.Memory.MaxCachedBlks = 200
	c.Memory.CacheOnDisk = true
	c.Memory.SyncCacheSize = 500
	c.Memory.MaxDataFileMB = 1000
	c.Memory.UseGoHeap = true
	c.Stat.HashrateHrs = 12
	c.Stat.MiningHrs = 24
	c.Stat.FeesBlks = 24
	c.Stat.BSizeBlks = 1008
	c.AllBalances.MinValue = 1e5
	c.DropPeers.DropEachMinutes = 5
	c.DropPeers.BlckExpireHours = 24
	c.DropPeers.PingPeriodSec = 15
	c.DropPeers.ImmunityMinutes = 15
	c.UTXOSave.SecondsToTake = 300
	c.UTXOSave.BlocksToHold = 6
	c.Datadir = home
	common.GocoinHomeDir = home + string(os.PathSeparator)
	common.LockCfg()
	common.Reset()
	common.UnlockCfg()
	debug.SetGCPercent(100) // Reset() lowered it to 30; irrelevant for the property, costly for the harness

	// --- host_init() -------------------------------------------------------------------------------
	common.Testnet = false
	common.GenesisBlock = btc.NewUint256(g[:])
	common.Magic = [4]byte{0xF9, 0xBE, 0xB4, 0xD9}
	common.DefaultTcpPort = 8333
	common.SecretKey = nodeKey[:]
	common.PublicKeyBin = btc.PublicFromPrivate(common.SecretKey, true)
	common.PublicKey = btc.Encodeb58(common.PublicKeyBin)
	e.nodePub = common.PublicKeyBin

	pk := sha256.Sum256([]byte("verif-c18-friend-secret"))
	e.peerKey = pk[:]
	e.peerPub = ec.SerializeCompressed(ec.BaseMul(new(big.Int).SetBytes(pk[:])))

	script.DBG_ERR = false
	ch := chain.NewChainExt(common.GocoinHomeDir, common.GenesisBlock, false,
		&chain.NewChanOpts{BlockMinedCB: txpool.BlockMined, BlockUndoneCB: txpool.BlockUndone, DoNotRescan: true},
		&chain.BlockDBOpts{MaxCachedBlocks: 200, MaxDataFileSize: 1000 << 20})
	ch.Consensus.MaxPOWBits = powBits
	ch.Consensus.MaxPOWValue = new(big.Int).Set(powTarget)
	ch.Consensus.GensisTimestamp = genesisTime
	ch.Consensus.BIP34Height = 1
	ch.Consensus.BIP65Height = 1
	ch.Consensus.BIP66Height = 1
	ch.Consensus.Enforce_CSV = 1
	ch.Consensus.Enforce_SEGWIT = 1
	ch.Consensus.Enforce_Taproot = 1
	ch.RebuildGenesisHeader()
	e.ch = ch
	common.BlockChain = ch

	txpool.InitMempool()

	// --- the start-up chain ------------------------------------------------------------------------
	e.hashes = [][32]byte{g}
	prev := g
	for h := uint32(1); h <= baseBlocks; h++ {
		bl := buildBlock(prev, h, genesisTime+600*h, []byte{byte(h), 0xc1, 0x8c}, nil)
		raw := bl.Serialize(true)
		gb, err := btc.NewBlock(raw)
		must(err)
		ch.Unspent.AbortWriting()
		if _, _, err = ch.CheckBlock(gb); err != nil {
			panic(fmt.Sprint("start-up block ", h, " refused by CheckBlock: ", err))
		}
		if err = ch.AcceptBlock(gb); err != nil {
			panic(fmt.Sprint("start-up block ", h, " refused by AcceptBlock: ", err))
		}
		prev = bl.Header.Hash()
		e.blocks = append(e.blocks, bl)
		e.raw = append(e.raw, raw)
		e.hashes = append(e.hashes, prev)
		if h+100 <= baseBlocks { // mature at the tip
			id := bl.Txs[0].TxID()
			e.spend = append(e.spend, spendable{id, 0, 20e8, "true"}, spendable{id, 1, 15e8, "p2sh"}, spendable{id, 2, 15e8, "p2wsh"})
		}
	}
	if ch.LastBlock().Height != baseBlocks {
		panic("start-up chain not at the expected height")
	}
	e.tip = ch.LastBlock()
	e.baseline = make(map[btc.BIDX]*chain.BlockTreeNode, len(ch.BlockIndex))
	for k, v := range ch.BlockIndex {
		e.baseline[k] = v
	}

	common.Last.Block = e.tip
	common.Last.Time = time.Unix(int64(e.tip.Timestamp()), 0)
	common.UpdateScriptFlags(0)
	common.StartTime = time.Now()
	common.MkTempBlocksDir()
	common.RecalcAverageBlockSize()

	// --- main(): peers database opened directly (InitPeers would start DNS look-ups) ---------------
	peersdb.Services = common.Services
	e.emptyDB, err = qdb.NewDB(common.GocoinHomeDir+"peers3", true)
	must(err)
	peersdb.PeerDB = e.emptyDB

	e.reset(false)
	return e
}

// reset puts every piece of process-global state a handler can touch back to "node just started,
// chain at the start-up tip, no peers, empty pools".
func (e *envT) reset(syncing bool) { e.resetWith(syncing, "") }

// resetWith: peers selects the state of the peers database the case starts with: "" = empty (node just
// installed), "full" = exactly at its hard limit (MaxPeersInDB+MaxPeersDeviation records, as after an
// addr flood between two expiry runs), "below" = two records under it, "above" = three over it.
func (e *envT) resetWith(syncing bool, peers string) {
	ch := e.ch
	// headers accepted during earlier cases: back to the start-up index.  (A fresh small map: the one
	// NewChainExt makes is sized for 500 000 blocks and iterating it costs more than the whole case.)
	ch.BlockIndexAccess.Lock()
	idx := make(map[[btc.Uint256IdxLen]byte]*chain.BlockTreeNode, 2*len(e.baseline))
	for k, v := range e.baseline {
		idx[k] = v
		if len(v.Childs) > 0 {
			keep := v.Childs[:0]
			for _, c := range v.Childs {
				if e.baseline[c.BlockHash.BIdx()] == c {
					keep = append(keep, c)
				}
			}
			for i := len(keep); i < len(v.Childs); i++ {
				v.Childs[i] = nil
			}
			v.Childs = keep
		}
		v.Trusted.Clr()
	}
	ch.BlockIndex = idx
	ch.BlockIndexAccess.Unlock()

	network.VerifResetGlobals(ch, e.tip)
	network.FriendsAccess.Lock()
	network.AuthPubkeys = [][]byte{e.peerPub}
	network.SpecialAgents = nil
	network.SpecialIPs = nil
	network.FriendsAccess.Unlock()

	if !e.mempoolPristine() {
		txpool.InitMempool()
		txpool.TxMutex.Lock()
		txpool.TransactionsPending = make(map[btc.BIDX]bool)
		txpool.TxMutex.Unlock()
	}
	txpool.TxMutex.Lock()
	txpool.CurrentFeeAdjustedSPKB = 0
	txpool.TxMutex.Unlock()
	for len(txpool.GetMPInProgressTicket) > 0 {
		<-txpool.GetMPInProgressTicket
	}

	e.resetPeers(peers)

	common.CounterMutex.Lock()
	common.Counter = make(map[string]uint64)
	common.CounterMutex.Unlock()
	common.Last.Mutex.Lock()
	common.Last.Block = e.tip
	common.Last.Mutex.Unlock()
	common.UpdateScriptFlags(0)
	common.LockCfg()
	common.ApplyLTB(nil, 0)
	common.LastTrustedBlockHeight = 0
	common.UnlockCfg()
	common.SetMinFeePerKB(0)
	common.BlockChainSynchronized.Store(!syncing)
}

const peersLimit = peersdb.MaxPeersInDB + peersdb.MaxPeersDeviation // ParseAddr takes no new record at or above it

// knownPeerIP is the address of synthetic record i of the full peers database (11.x.y.z: routable).
func knownPeerIP(i int) [4]byte { return [4]byte{11, byte(i >> 16), byte(i >> 8), byte(i)} }

func knownPeerRecord(i int) *peersdb.PeerAddr {
	p := peersdb.NewPeer(nil)
	p.Time = genesisTime
	p.Services = goodServices
	p.Ip4 = knownPeerIP(i)
	p.Port = 8333
	return p
}

func (e *envT) buildFullDB() {
	var db *qdb.DB
	must(qdb.NewDBExt(&db, &qdb.NewDBOpts{Dir: common.GocoinHomeDir + "peers-full", LoadData: true, Volatile: true}))
	e.fullDB = db
	e.fullVals = make(map[qdb.KeyType][]byte, peersLimit+8)
	for i := 0; i < peersLimit+3; i++ {
		p := knownPeerRecord(i)
		k, v := qdb.KeyType(p.UniqID()), p.Bytes()
		e.fullKeys = append(e.fullKeys, k)
		e.fullVals[k] = v
		db.Put(k, v)
	}
	if len(e.fullVals) != peersLimit+3 {
		panic("synthetic peer keys collide")
	}
}

// restoreFull puts one key of the full database back to its synthetic content (or removes it).
func (e *envT) restoreFull(k qdb.KeyType) {
	want, ok := e.fullVals[k]
	have := e.fullDB.Get(k)
	switch {
	case !ok && have != nil:
		e.fullDB.Del(k)
	case ok && have != nil && !bytes.Equal(want, have):
		e.fullDB.Put(k, want)
	}
}

// touchAddr notes the keys an addr payload can make ParseAddr write.
func (e *envT) touchAddr(pl []byte) {
	if !e.fullUsed {
		return
	}
	for off := csLen(pl); off > 0 && off+30 <= len(pl); off += 30 {
		e.touched = append(e.touched, qdb.KeyType(peersdb.NewPeer(pl[off:off+30]).UniqID()))
	}
}

// resetPeers installs the peers database the case starts with and puts the one used before back to its
// defined content (records added, banned or touched by the last case are removed / restored).
func (e *envT) resetPeers(variant string) {
	peersdb.Lock()
	defer peersdb.Unlock()
	var keys []qdb.KeyType
	e.emptyDB.Browse(func(k qdb.KeyType, v []byte) uint32 { keys = append(keys, k); return 0 })
	for _, k := range keys {
		e.emptyDB.Del(k)
	}
	if e.fullUsed {
		// what the last case can have written: the records of its addr messages and its own peers' records
		for _, k := range e.touched {
			e.restoreFull(k)
		}
		e.fullUsed = false
	}
	e.touched = e.touched[:0]
	if variant == "" {
		peersdb.PeerDB = e.emptyDB
		return
	}
	if e.fullDB == nil {
		e.buildFullDB()
	}
	want := peersLimit
	switch variant {
	case "below":
		want = peersLimit - 2
	case "above":
		want = peersLimit + 3
	}
	for i := peersLimit - 2; i < peersLimit+3; i++ { // only the records around the limit differ between the variants
		k := e.fullKeys[i]
		have := e.fullDB.Get(k) != nil
		if i < want && !have {
			e.fullDB.Put(k, e.fullVals[k])
		} else if i >= want && have {
			e.fullDB.Del(k)
		}
	}
	if e.fullDB.Count() != want {
		// something else was written (e.g. a Run-mode session whose framing got out of step): full sweep
		var all []qdb.KeyType
		e.fullDB.Browse(func(k qdb.KeyType, v []byte) uint32 { all = append(all, k); return 0 })
		for _, k := range all {
			e.restoreFull(k)
		}
		for i := peersLimit - 2; i < peersLimit+3; i++ {
			if k := e.fullKeys[i]; i >= want && e.fullDB.Get(k) != nil {
				e.fullDB.Del(k)
			}
		}
	}
	if e.fullDB.Count() != want {
		panic(fmt.Sprint("harness: peers database has ", e.fullDB.Count(), " records, wanted ", want))
	}
	peersdb.PeerDB = e.fullDB
	e.fullUsed = true
}

// mempoolPristine: nothing was ever put into any of the pool's containers since InitMempool (which is
// costly: it pre-sizes maps and a 20 000 slot ring).
func (e *envT) mempoolPristine() bool {
	txpool.TxMutex.Lock()
	defer txpool.TxMutex.Unlock()
	return len(txpool.TRIdxArray) == int(common.CFG.TXPool.RejectRecCnt) &&
		len(txpool.TransactionsToSend) == 0 && len(txpool.TransactionsRejected) == 0 && len(txpool.WaitingForInputs) == 0 &&
		len(txpool.RejectedSpentOutputs) == 0 && len(txpool.SpentOutputs) == 0 && len(txpool.TransactionsPending) == 0 &&
		txpool.TRIdxHead == 0 && txpool.TRIdxTail == 0 && txpool.TransactionsToSendSize == 0 && txpool.TransactionsRejectedSize == 0 &&
		txpool.BestT2S == nil && txpool.WorstT2S == nil && len(txpool.FeePackages) == 0
}

func (e *envT) close() {
	if e == nil {
		return
	}
	if e.emptyDB != nil {
		e.emptyDB.Close()
	}
	if e.fullDB != nil {
		e.fullDB.Close()
	}
	e.ch.Close()
	os.RemoveAll(e.home)
}

// --- output capture -------------------------------------------------------------------------------

// gocoin prints profusely (println -> fd 2, fmt.Println -> fd 1, including hex dumps of refused
// payloads).  While a test runs both descriptors point at a scratch file; the Run-mode oracle scans
// what a case has written for the catch-all banner.  A fatal crash of the process is still written to
// the original stderr (debug.SetCrashOutput), preceded by the journal line of the case in flight.
type capture struct {
	f            *os.File
	saved1       int
	saved2       int
	orig         *os.File
	stop_restore bool
}

var capMu sync.Mutex
var curCap *capture

func startCapture() *capture {
	capMu.Lock()
	defer capMu.Unlock()
	f, err := os.CreateTemp("", "c18-out-")
	must(err)
	f.Close()
	f, err = os.OpenFile(f.Name(), os.O_RDWR|os.O_APPEND, 0o600)
	must(err)
	c := &capture{f: f}
	c.saved1, err = syscall.Dup(1)
	must(err)
	c.saved2, err = syscall.Dup(2)
	must(err)
	c.orig = os.NewFile(uintptr(c.saved2), "orig-stderr")
	debug.SetCrashOutput(c.orig, debug.CrashOptions{})
	must(syscall.Dup2(int(f.Fd()), 1))
	must(syscall.Dup2(int(f.Fd()), 2))
	curCap = c
	return c
}

func (c *capture) stop() {
	capMu.Lock()
	defer capMu.Unlock()
	syscall.Dup2(c.saved1, 1)
	syscall.Dup2(c.saved2, 2)
	syscall.Close(c.saved1)
	debug.SetCrashOutput(nil, debug.CrashOptions{})
	c.orig.Close()
	name := c.f.Name()
	c.f.Close()
	os.Remove(name)
	curCap = nil
}

// mark returns the current end of the captured output (and empties the file when it grew large).
func (c *capture) mark() int64 {
	st, err := c.f.Stat()
	if err != nil {
		return 0
	}
	if st.Size() > 64<<20 {
		c.f.Truncate(0)
		return 0
	}
	return st.Size()
}

func (c *capture) since(off int64) []byte {
	st, err := c.f.Stat()
	if err != nil || st.Size() <= off {
		return nil
	}
	n := st.Size() - off
	if n > 8<<20 {
		n = 8 << 20
	}
	b := make([]byte, n)
	k, _ := c.f.ReadAt(b, off)
	return b[:k]
}

// journal notes the case in flight on the original stderr, so that a process-level crash (a panic in
// a goroutine gocoin started, the runtime's out-of-memory abort) can be attributed.
func journal(test string, raw []byte) {
	capMu.Lock()
	c := curCap
	capMu.Unlock()
	if c == nil {
		return
	}
	if len(raw) > 60000 {
		raw = append(append([]byte{}, raw[:60000]...), []byte("...(truncated)")...)
	}
	var b bytes.Buffer
	b.WriteString("C18-IN-FLIGHT ")
	b.WriteString(test)
	b.WriteByte(' ')
	b.Write(raw)
	b.WriteByte('\n')
	c.orig.Write(b.Bytes())
}

func le32(v uint32) []byte { var b [4]byte; binary.LittleEndian.PutUint32(b[:], v); return b[:] }
func le64(v uint64) []byte { var b [8]byte; binary.LittleEndian.PutUint64(b[:], v); return b[:] }
