#!/bin/bash
# Sensitivity of the C18 check: each mutant is a small change of gocoin that breaks the property.  The
# mutated file is a copy under /tmp, handed to the compiler with -overlay (nothing in /repo is touched);
# the quick campaign is run as 16 shards the way ./check does and must report a violation.
#   usage: props/c18/mutants.sh [name ...]
set -u
export GOFLAGS=-mod=mod GOPROXY=off GOSUMDB=off GOTOOLCHAIN=local
W=$(mktemp -d /tmp/c18-mutants-XXXXXX)
trap 'rm -rf "$W"' EXIT
cd /verif

mutant() { # name file python-snippet(old,new)
  local name=$1 file=$2 old=$3 new=$4
  mkdir -p "$W/$name"
  python3 - "$file" "$W/$name/$(basename $file)" "$old" "$new" <<'PY' || { echo "MUTANT $name: patch does not apply"; return 1; }
import sys
src,dst,old,new=sys.argv[1:5]
s=open(src).read()
if s.count(old)!=1: sys.exit(1)
open(dst,'w').write(s.replace(old,new))
PY
  printf '{"Replace":{"%s":"%s"}}' "$file" "$W/$name/$(basename $file)" > "$W/$name/overlay.json"
  if ! go test -c -vet=off -tags verif -overlay "$W/$name/overlay.json" -o "$W/$name/c18.test" ./props/c18/ 2> "$W/$name/build.log"; then
    echo "MUTANT $name: does not compile"; cat "$W/$name/build.log" | head; return 1
  fi
  local t0=$(date +%s)
  for i in $(seq 0 15); do
    mkdir -p "$W/$name/s$i/fail" "$W/$name/s$i/tmp"
    ( cd /verif/props/c18 && TMPDIR="$W/$name/s$i/tmp" VERIF_SEED=${VERIF_SEED:-1} VERIF_TIER=quick VERIF_SHARD=$i VERIF_SHARDS=16 \
        VERIF_STATS="$W/$name/s$i/stats.json" VERIF_FAILDIR="$W/$name/s$i/fail" VERIF_KF=/verif/KNOWN_FINDINGS.json \
        "$W/$name/c18.test" -test.timeout 900s -rapid.shrinktime 5s > "$W/$name/s$i/log" 2>&1 ) &
  done
  wait
  local fails=$(ls "$W/$name"/s*/fail/*.json 2>/dev/null | wc -l)
  local died=0
  for i in $(seq 0 15); do [ -f "$W/$name/s$i/stats.json" ] || died=$((died+1)); done
  local msg=$(python3 - "$W/$name" <<'PY'
import sys,glob,json
for f in sorted(glob.glob(sys.argv[1]+"/s*/fail/*.json"))[:1]:
    d=json.load(open(f)); print(d["test"]+": "+d["msg"].split("\n")[0][:160])
PY
)
  if [ "$fails" -gt 0 ] || [ "$died" -gt 0 ]; then
    echo "MUTANT $name: CAUGHT in $(( $(date +%s)-t0 ))s  ($fails failing shards, $died dead)  $msg"
  else
    echo "MUTANT $name: MISSED in $(( $(date +%s)-t0 ))s"
  fi
}

N=/repo/client/network
run() {
case $1 in
parseaddr) mutant parseaddr $N/addr.go '		if n != len(buf) || e != nil {' '		if false && (n != len(buf) || e != nil) {' ;;
processinv) mutant processinv $N/invs.go '	if of == 0 || cnt < 0 || cnt > (len(pl)-of)/36 || len(pl) != of+36*cnt {' '	if of == 0 || len(pl) != of+36*cnt {' ;;
locators) mutant locators $N/data.go '	if cnt > MAX_LOCATOR_SZ {' '	if false && cnt > MAX_LOCATOR_SZ {' ;;
getblocktxn) mutant getblocktxn $N/cblk.go '		if idx >= uint64(len(crec.Block.Txs)) {' '		if int(idx) >= len(crec.Block.Txs) {' ;;
earlyreturn) mutant earlyreturn $N/invs.go '	c.X.InvsRecieved++
	c.Mutex.Unlock()' '	c.X.InvsRecieved++
	if pl[0] == 3 {
		return
	}
	c.Mutex.Unlock()' ;;
rcvlock) mutant rcvlock $N/data.go '		delete(c.GetBlockInProgress, idx)
		c.Mutex.Unlock()
		MutexRcv.Unlock()
		return' '		delete(c.GetBlockInProgress, idx)
		c.Mutex.Unlock()
		return' ;;
version) mutant version $N/ver.go '		if of == 0 || le < 0 || le > len(pl)-80-of {' '		if of == 0 || len(pl) < 80+le {' ;;
nokey) mutant nokey $N/core.go '				if c.aesData == nil {
					println(c.PeerAddr.Ip(), "- got encrypted msg", c.recv.cmd, "but have no key")
					c.DoS("MsgNoKey")
					return
				}
				msi += 16' '				msi += 16' ;;
hdrloop) mutant hdrloop $N/hdrs.go '			if n, _ := b.Read(hdr); n != 80 {' '			if n, _ := b.Read(hdr); false && n != 80 {' ;;
getheaders) mutant getheaders $N/hdrs.go '			common.CountSafe("GetHeadersOrphBlk")
		}' '			common.CountSafe("GetHeadersOrphBlk")
			panic(r)
		}' ;;
assemble) mutant assemble $N/cblk.go '			c.DoS("BlkTxnIncomplete")
			return' '			c.DoS("BlkTxnIncomplete")' ;;
scriptrecover) mutant scriptrecover /repo/lib/script/script.go '	defer func() {
		if r := recover(); r != nil {
			if DBG_ERR {
				err, ok := r.(error)' '	defer func() {
		if r := recover(); false && r != nil {
			if DBG_ERR {
				err, ok := r.(error)' ;;
txrecover) mutant txrecover /repo/lib/btc/tx.go '		if r := recover(); r != nil {
			println("NewTx failed")' '		if r := recover(); false && r != nil {
			println("NewTx failed")' ;;
*) echo "unknown mutant $1" ;;
esac
}
if [ $# -eq 0 ]; then set -- parseaddr processinv locators getblocktxn earlyreturn rcvlock version nokey hdrloop; fi
for m in "$@"; do run $m; done
