package c18

import "testing"

// FuzzZZZCleanup is not a fuzz target: in an ordinary run the fuzz functions are called after all tests
// (for their seed corpus), in source order - this one is the last thing that runs, and it removes the
// environment's directories.
func FuzzZZZCleanup(f *testing.F) {
	cleanup()
	f.Skip("clean-up only")
}
