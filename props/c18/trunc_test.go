package c18

// "Truncation at every offset": for a well-formed payload of every command, each proper prefix (and the
// payload plus one byte) is delivered to a freshly shaken-hands connection in the same node state.

import (
	"encoding/hex"
	"encoding/json"
	"fmt"
	"testing"

	"verif/pbt"
	"verif/ref/wire"
)

type truncCase struct {
	Authorized bool   `json:"authorized"`
	Prefix     []msg  `json:"prefix,omitempty"` // delivered first (e.g. the compact block a blocktxn answers)
	Final      msg    `json:"final"`            // the message whose payload is cut at every offset
	Scenario   string `json:"scenario,omitempty"`
	Peers      string `json:"peers,omitempty"`
	Queues     string `json:"queues,omitempty"`
}

func genTruncCase(g *G) truncCase {
	tc := truncCase{Authorized: g.chance(30)}
	cmd := pick(g, cmds19)
	wf := func(cmd string) msg {
		p, dyn := g.wellFormed(cmd)
		return msg{Cmd: cmd, Pl: hex.EncodeToString(p.b.Bytes()), Kind: "wf", Dyn: dyn}
	}
	if (cmd == "blocktxn" || cmd == "block" || cmd == "cmpctblock") && g.chance(50) {
		// the node has asked this peer for the full block (getdata): the final message names that block
		tc.Prefix = g.downloadScenario()
		want := cmd
		for _, f := range g.follow {
			if f.Cmd == want && f.Kind == "wf" {
				tc.Final = f
			}
		}
		if tc.Final.Cmd == "" {
			h := g.hdrs[0].hdr.Hash()
			switch cmd {
			case "blocktxn":
				tc.Final = msg{Cmd: cmd, Pl: hex.EncodeToString(append(h[:], 0)), Kind: "wf"}
			case "block":
				bl := &wire.Block{Header: g.hdrs[0].hdr, Txs: []*wire.Tx{coinbaseTx(g.hdrs[0].height, nil)}}
				tc.Final = msg{Cmd: cmd, Pl: hex.EncodeToString(bl.Serialize(true)), Kind: "wf"}
			default:
				tc.Final = wf(cmd)
			}
		}
		tc.Scenario = "full_block_requested"
		return tc
	}
	if cmd == "tx" && g.chance(40) {
		tc.Queues = "nettxs_full"
		tc.Final = wf("tx")
		tc.Scenario = "nettxs_full"
		return tc
	}
	if cmd == "addr" && g.chance(50) {
		tc.Peers = pick(g, []string{"full", "below"})
		tc.Final = g.addrFresh()
		tc.Final.Pl = hex.EncodeToString(resolve(g.e, nil, &tc.Final)) // fixed bytes, so that every cut is of the same payload
		tc.Final.Dyn = ""
		tc.Scenario = "peers_db_" + tc.Peers
		return tc
	}
	switch cmd {
	case "blocktxn":
		tc.Prefix = []msg{{Cmd: "sendcmpct", Pl: "010200000000000000", Kind: "wf"}, wf("cmpctblock")}
		tc.Final = g.follow[len(g.follow)-1]
	case "block":
		tc.Prefix = []msg{wf("headers")}
		tc.Final = wf("block")
	case "cmpctblock":
		tc.Prefix = []msg{{Cmd: "sendcmpct", Pl: "010200000000000000", Kind: "wf"}}
		if g.chance(50) {
			tc.Prefix = append(tc.Prefix, wf("tx"))
		}
		tc.Final = wf("cmpctblock")
	case "getmp":
		tc.Authorized = true
		tc.Final = wf(cmd)
	default:
		tc.Final = wf(cmd)
	}
	if tc.Final.Dyn == "xauth_sign" {
		// materialise now, so that the cut goes through the signature too
		tc.Final.Pl = hex.EncodeToString(resolve(g.e, nil, &tc.Final))
		tc.Final.Dyn = ""
	}
	return tc
}

// asSeq is the ordinary sequence case that delivers the prefix and the final message cut to n bytes.
func (tc truncCase) asSeq(n int) seqCase {
	full := tc.Final.payload()
	m := tc.Final
	m.Fill = nil
	m.Kind = "trunc"
	switch {
	case n <= len(full):
		m.Pl = hex.EncodeToString(full[:n])
	default:
		m.Pl = hex.EncodeToString(append(append([]byte{}, full...), 0))
		m.Kind = "extend"
	}
	cs := seqCase{Incoming: true, Handshake: true, Authorized: tc.Authorized, Peers: tc.Peers, Queues: tc.Queues}
	cs.Msgs = append(append([]msg{}, tc.Prefix...), m)
	return cs
}

func TestTruncateEverywhere(t *testing.T) {
	cp := startCapture()
	defer cp.stop()
	pbt.Check(t, pbt.Cfg{Name: "truncate_everywhere", Quick: 2000, Thorough: 60000}, func(r *pbt.Run) {
		if wedged.Load() {
			return
		}
		g := newG(r.T)
		tc := genTruncCase(g)
		r.Case(tc.asSeq(len(tc.Final.payload())))
		r.Class(tc.Final.Cmd)
		if tc.Scenario != "" {
			r.Class(tc.Scenario + "/" + tc.Final.Cmd)
		}
		r.NonTrivial()
		full := len(tc.Final.payload())
		if full > 1500 {
			r.Class("long_payload_sampled")
		}
		cp.mark()
		for n := 0; n <= full+1; n++ {
			if full > 1500 && n > 200 && n < full-200 && n%37 != 0 {
				continue // very long payloads: both ends densely, the middle every 37th offset
			}
			if wedged.Load() {
				return
			}
			cs := tc.asSeq(n)
			if unsafeToRun(cs.Msgs) {
				continue
			}
			if n%64 == 0 {
				raw, _ := json.Marshal(cs)
				journal("truncate_everywhere", raw)
			}
			var st stepStats
			err := runSeq(cs, &st)
			pbt.AddExtra("truncated_payloads_delivered", 1)
			if err != nil {
				if key := knownClass(cs.Msgs, err); key != "" {
					r.Excluded(key)
					continue
				}
				r.Case(cs)
				r.Failf("payload of %q cut to %d of %d bytes: %v", tc.Final.Cmd, n, full, err)
			}
		}
	})
}

var _ = fmt.Sprint
