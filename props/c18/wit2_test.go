package c18

import (
	"crypto/sha256"
	"encoding/binary"
	"encoding/hex"
	"encoding/json"
	"fmt"
	"os"
	"sort"
	"sync"
	"testing"

	"verif/ref/wire"
)

// one-off: birthday search for two mempool transactions with the same BIP152 short id
func TestFindShortIDCollision(t *testing.T) {
	dir := os.Getenv("C18_EMIT")
	if dir == "" {
		t.Skip()
	}
	e := getEnv()
	var spA, spB spendable
	n := 0
	for _, s := range e.spend {
		if s.Kind == "true" {
			if n == 0 {
				spA = s
			} else if n == 1 {
				spB = s
			}
			n++
		}
	}
	bl := fxBlock(e)
	hdr := bl.Header.Serialize()
	nonce := []byte{8, 7, 6, 5, 4, 3, 2, 1}
	kh := sha256.Sum256(append(append([]byte{}, hdr...), nonce...))
	k0 := binary.LittleEndian.Uint64(kh[0:8])
	k1 := binary.LittleEndian.Uint64(kh[8:16])
	mk := func(sp spendable, i uint32) *wire.Tx {
		return &wire.Tx{Version: 2, In: []wire.TxIn{{PrevHash: sp.TxID, PrevIndex: sp.Vout, Sequence: 0xffffffff}},
			Out: []wire.TxOut{{Value: sp.Value - 1000 - uint64(i), PkScript: []byte{0x51}}}}
	}
	const N = 48000000
	type rec struct {
		sid uint64
		i   uint32
	}
	gen := func(sp spendable) []rec {
		out := make([]rec, N)
		var wg sync.WaitGroup
		const W = 12
		for w := 0; w < W; w++ {
			wg.Add(1)
			go func(w int) {
				defer wg.Done()
				raw := mk(sp, 0).Serialize(false)
				// the value sits right after: version(4) incount(1) input(36+1+4) outcount(1) = offset 47
				for i := w; i < N; i += W {
					binary.LittleEndian.PutUint64(raw[47:], sp.Value-1000-uint64(i))
					h1 := sha256.Sum256(raw)
					h2 := sha256.Sum256(h1[:])
					out[i] = rec{sipHash24(k0, k1, h2[:]) & 0xffffffffffff, uint32(i)}
				}
			}(w)
		}
		wg.Wait()
		return out
	}
	// sanity: the in-place patch produces what the serializer produces
	{
		raw := mk(spA, 0).Serialize(false)
		binary.LittleEndian.PutUint64(raw[47:], spA.Value-1000-12345)
		if hex.EncodeToString(raw) != hex.EncodeToString(mk(spA, 12345).Serialize(false)) {
			t.Fatal("offset of the value field is wrong")
		}
	}
	a := gen(spA)
	sort.Slice(a, func(i, j int) bool { return a[i].sid < a[j].sid })
	b := gen(spB)
	for _, r := range b {
		k := sort.Search(len(a), func(i int) bool { return a[i].sid >= r.sid })
		if k < len(a) && a[k].sid == r.sid {
			t1, t2 := mk(spA, a[k].i), mk(spB, r.i)
			fmt.Println("collision:", a[k].i, r.i, hex.EncodeToString(shortID(hdr, nonce, t1.WTxID())), hex.EncodeToString(shortID(hdr, nonce, t2.WTxID())))
			var p built
			p.w(hdr, nonce)
			p.cs(1)
			p.w(shortID(hdr, nonce, t1.WTxID()))
			p.cs(1)
			p.cs(0)
			p.w(bl.Txs[0].Serialize(true))
			cs := seqCase{Incoming: true, Handshake: true, Msgs: []msg{
				{Cmd: "sendcmpct", Pl: "010200000000000000", Kind: "wf"},
				{Cmd: "tx", Pl: hex.EncodeToString(t1.Serialize(true)), Kind: "wf"},
				{Cmd: "tx", Pl: hex.EncodeToString(t2.Serialize(true)), Kind: "wf"},
				{Cmd: "cmpctblock", Pl: hex.EncodeToString(p.b.Bytes()), Kind: "wf"}}}
			raw, _ := json.Marshal(cs)
			doc := map[string]any{"property": "C18", "test": "handler_seq", "case": json.RawMessage(raw),
				"msg": "two transactions in the mempool have the same 48-bit BIP152 short id under the key of this compact block (found by a 2^25 birthday search): ProcessCmpctBlock returns at 'Same short ID - abort' with txpool.TxMutex still held"}
			out, _ := json.MarshalIndent(doc, "", " ")
			os.WriteFile(dir+"/C18-cmpctblock-shortid-collision.json", out, 0o644)
			return
		}
	}
	t.Fatal("no collision found - raise N")
}
