package c18

// Run mode: the real OneConnection.Run() loop, fed through net.Pipe with generated 24-byte headers
// (magic, command field, length incl. the high "encrypted" bit, checksum right or wrong) and payloads.
// This exercises FetchMessage, the per-command limits, decryption and Run()'s catch-all recover.
// Oracle: the process survives; the output never contains the banner Run() prints when its recover
// catches a panic; Run() returns once the peer has hung up (within the hang bound) and only after the
// connection was marked broken (by the EOF, or because gocoin decided to disconnect / ban);
// afterwards every mutex is free.

import (
	"bytes"
	"crypto/aes"
	"crypto/cipher"
	"crypto/sha256"
	"encoding/binary"
	"encoding/json"
	"fmt"
	"io"
	"math/big"
	"net"
	"sync"
	"testing"
	"time"

	"github.com/piotrnar/gocoin/client/common"
	"github.com/piotrnar/gocoin/client/network"
	"pgregory.net/rapid"
	"verif/pbt"
	"verif/ref/ec"
)

const sentinelCmd = "c18sentinel"

const banner = "THIS SHOULD NOT HAPPEN" // client/network/tick.go, Run()'s deferred recover

type runCase struct {
	Incoming  bool   `json:"incoming"`
	Syncing   bool   `json:"syncing"`
	Handshake bool   `json:"handshake"`           // a properly framed good version message goes first
	KeyFirst  bool   `json:"key_first"`           // ... followed by a properly signed xauth (AES context + authorised)
	Bystander bool   `json:"bystander,omitempty"` // another peer is connected and has completed its handshake
	Peers     string `json:"peers,omitempty"`     // peers database at the start (see resetWith)
	Queues    string `json:"queues,omitempty"`    // nettxs_full | netblocks_full | getmp_ticket_taken (see queues_test.go)
	Frames    []msg  `json:"frames"`
}

var (
	aeadOnce sync.Once
	peerAEAD cipher.AEAD
)

// the AES-GCM context both sides derive from ECDH(friend key, node key), as AuthRvcd does
func sharedAEAD(e *envT) cipher.AEAD {
	aeadOnce.Do(func() {
		np, ok := ec.ParsePubKey(e.nodePub)
		if !ok {
			panic("node public key")
		}
		sh := ec.SerializeCompressed(ec.Mul(new(big.Int).SetBytes(e.peerKey), np))
		h1 := sha256.Sum256(sh)
		key := sha256.Sum256(h1[:])
		blk, err := aes.NewCipher(key[:])
		must(err)
		peerAEAD, err = cipher.NewGCM(blk)
		must(err)
	})
	return peerAEAD
}

func dsha4(b []byte) []byte {
	h1 := sha256.Sum256(b)
	h2 := sha256.Sum256(h1[:])
	return h2[:4]
}

// frame builds the bytes that go on the wire for one message.
func frame(e *envT, m *msg, pl []byte) []byte {
	if m.Frame == "verbatim" {
		return pl
	}
	var hdr [24]byte
	copy(hdr[0:4], common.Magic[:])
	copy(hdr[4:16], m.Cmd)
	ln := uint32(len(pl))
	sum := dsha4(pl)
	switch m.Frame {
	case "badsum":
		sum[0] ^= 0x55
	case "enc":
		seed := uint64(m.Lie) + 1
		nonce := make([]byte, 12)
		binary.LittleEndian.PutUint64(nonce, splitmix(&seed))
		a := sharedAEAD(e)
		pl = a.Seal(nonce, nonce, pl, nil)
		ln = uint32(len(pl)) | 0x80000000
		sum = []byte{0, 0, 0, 0}
	case "enc_garbage":
		ln |= 0x80000000
	case "lie_more":
		ln += 1 + m.Lie%64
	case "lie_less":
		if d := 1 + m.Lie%64; d <= ln {
			ln -= d
		} else {
			ln = 0
		}
	case "lie_big":
		switch m.Lie % 4 {
		case 0:
			ln = uint32(network.VerifMaxMsgSize(m.Cmd)) + 1
		case 1:
			ln = uint32(network.VerifMaxMsgSize(m.Cmd))
		case 2:
			ln = 0x7fffffff
		default:
			ln = 0xffffffff
		}
	case "bad_magic":
		hdr[m.Lie%4] ^= 0x5a
	case "cmd_garbage":
		for i := 4 + len(m.Cmd) + 1; i < 16; i++ {
			hdr[i] = byte(0x41 + i)
		}
	}
	binary.LittleEndian.PutUint32(hdr[16:20], ln)
	copy(hdr[20:24], sum)
	out := append(hdr[:], pl...)
	if m.Frame == "partial" && len(out) > 0 {
		out = out[:int(m.Lie)%len(out)]
	}
	return out
}

// lockWithin waits for a mutex that other goroutines may legitimately hold for a moment.
func lockWithin(name string, mu *sync.Mutex, d time.Duration) error {
	ok := make(chan struct{})
	go func() {
		mu.Lock()
		mu.Unlock()
		close(ok)
	}()
	select {
	case <-ok:
		return nil
	case <-time.After(d):
		return fmt.Errorf("%s is still held", name)
	}
}

func runRun(rc runCase, cp *capture) (err error) {
	if wedged.Load() {
		return nil
	}
	defer func() {
		if err != nil {
			for _, m := range globalMutexes() {
				if lockWithin(m.name, m.mu, time.Second) != nil {
					wedged.Store(true)
				}
			}
		}
	}()
	e := getEnv()
	e.resetWith(rc.Syncing, rc.Peers)
	stopQueues := applyQueues(rc.Queues)
	defer stopQueues()
	var off int64
	if cp != nil {
		off = cp.mark()
	}
	var by *network.OneConnection
	if rc.Bystander {
		by = newConn(true, false, 200)
		v := network.VerifNewMsg("version", goodVersion(bystanderNonce, "/Satoshi:25.0.0/", baseBlocks), false, false)
		if err := guarded("handshake of the bystander connection", func() { dispatch(by, v) }); err != nil {
			return err
		}
		by.Mutex.Lock()
		by.SendBufCons = by.SendBufProd
		by.Mutex.Unlock()
	}
	c := newConn(rc.Incoming, false, 0)
	mine, theirs := net.Pipe()
	c.Conn = theirs

	runDone := make(chan any, 1)
	brokenAtReturn := false
	go func() {
		defer func() { runDone <- recover() }() // Run() has its own recover; this one is for what escapes it
		c.Run()
		brokenAtReturn = c.IsBroken() // sampled before the harness hangs up (that would break it too)
	}()
	// whatever the node sends is read and dropped
	drained := make(chan struct{})
	go func() {
		io.Copy(io.Discard, mine)
		close(drained)
	}()
	// the peer's side: frames are written back to back, then the peer hangs up
	written := make(chan struct{})
	go func() {
		defer close(written)
		send := func(m *msg) bool {
			pl := resolve(e, nil, m)
			if m.Cmd == "addr" {
				e.touchAddr(pl)
			}
			b := frame(e, m, pl)
			mine.SetWriteDeadline(time.Now().Add(hangBound))
			_, werr := mine.Write(b)
			return werr == nil
		}
		if rc.Handshake {
			v := msg{Cmd: "version", Pl: hexs(goodVersion(0x1122334455667788, "/Satoshi:26.0.0/", baseBlocks))}
			if !send(&v) {
				return
			}
			if rc.KeyFirst {
				x := msg{Cmd: "xauth", Pl: hexs(append(append([]byte{}, e.peerPub...), make([]byte, 36)...)), Dyn: "xauth_sign"}
				if !send(&x) {
					return
				}
			}
		}
		for i := range rc.Frames {
			if !send(&rc.Frames[i]) {
				return
			}
		}
		// A well-behaved peer does not hang up in the middle of the node's answer: a last frame with a
		// command nobody knows is sent, and the peer waits until the node has taken it off the wire -
		// by then every earlier message has been handled completely.  (If the framing is out of step
		// the sentinel is swallowed; then a short pause has to do.)
		if send(&msg{Cmd: sentinelCmd, Frame: "ok"}) {
			for i := 0; i < 150; i++ {
				c.Mutex.Lock()
				seen := c.X.LastCmdRcvd == sentinelCmd
				c.Mutex.Unlock()
				if seen || len(runDone) > 0 {
					break
				}
				time.Sleep(200 * time.Microsecond)
			}
		}
	}()

	var escaped any
	select {
	case <-written:
		mine.Close() // the peer hangs up; Run() must notice and return
		select {
		case escaped = <-runDone:
		case <-time.After(hangBound):
			wedged.Store(true)
			return fmt.Errorf("Run() did not return within %s after the peer had hung up", hangBound)
		}
	case escaped = <-runDone:
		mine.Close()
		select {
		case <-written:
		case <-time.After(hangBound):
			return fmt.Errorf("harness writer stuck")
		}
	case <-time.After(3 * hangBound):
		wedged.Store(true)
		return fmt.Errorf("neither the frames were consumed nor did Run() return within %s", 3*hangBound)
	}
	<-drained
	if escaped != nil {
		return fmt.Errorf("a panic escaped Run(): %v", escaped)
	}
	if cp != nil {
		if out := cp.since(off); bytes.Contains(out, []byte(banner)) {
			i := bytes.Index(out, []byte("Make sure to include the data below:"))
			if i < 0 {
				i = 0
			}
			s := string(out[i:])
			if len(s) > 1800 {
				s = s[:1800]
			}
			return fmt.Errorf("Run()'s catch-all recover caught a panic: %s", s)
		}
	}
	if !brokenAtReturn {
		return fmt.Errorf("Run() returned although the connection was never marked broken (socket left open, writer thread left running)")
	}
	theirs.Close()
	for _, m := range append(globalMutexes(), namedMutex{"the connection mutex", &c.Mutex}) {
		if err := lockWithin(m.name, m.mu, 3*time.Second); err != nil {
			return fmt.Errorf("after Run() returned, %v", err)
		}
	}
	network.Mutex_net.Lock()
	others := make([]*network.OneConnection, 0, len(network.OpenCons))
	for _, v := range network.OpenCons {
		if v != c {
			others = append(others, v)
		}
	}
	network.Mutex_net.Unlock()
	for _, v := range others {
		if err := lockWithin(fmt.Sprintf("the mutex of another connection in OpenCons (ConnID %d)", v.ConnID), &v.Mutex, 3*time.Second); err != nil {
			wedged.Store(true)
			return fmt.Errorf("after Run() returned, %v", err)
		}
	}
	if err := walkOpenCons(); err != nil {
		return err
	}
	if err := unexportedLocksFree(); err != nil {
		return err
	}
	harvestCounters()
	if by != nil {
		releaseConn(by)
	}
	for len(network.NetTxs) > 0 {
		<-network.NetTxs
	}
	for len(network.NetBlocks) > 0 {
		<-network.NetBlocks
	}
	releaseConn(c)
	return nil
}

func hexs(b []byte) string { return fmt.Sprintf("%x", b) }

func genRunCase(t *rapid.T) runCase {
	g := newG(t)
	rc := runCase{Incoming: g.chance(60), Syncing: g.chance(15), Handshake: g.chance(75)}
	rc.KeyFirst = rc.Handshake && g.chance(35)
	rc.Bystander = g.chance(30)
	seq := g.sequence(12)
	if g.chance(10) {
		rc.Queues = pick(g, []string{"nettxs_full", "nettxs_full", "netblocks_full", "getmp_ticket_taken"})
		rc.Handshake = true
		if rc.Queues == "nettxs_full" {
			rc.Syncing = false
			for i, n := 0, g.n(1, 3, "ntxmsg"); i < n; i++ {
				seq = append([]msg{{Cmd: "tx", Pl: hexs(g.tx().Serialize(true)), Kind: "wf"}}, seq...)
			}
		}
	} else if g.chance(8) {
		rc.Peers = pick(g, []string{"full", "below"})
		rc.Handshake = true
		seq = append([]msg{g.addrFresh()}, seq...)
	}
	if rc.Bystander && !rc.Handshake && g.chance(50) {
		v := msg{Cmd: "version", Pl: hexs(goodVersion(1, "/Satoshi:26.0.0/", baseBlocks)), Kind: "wf", Dyn: "ver_peernonce"}
		seq = append([]msg{v}, seq...)
	}
	for i := range seq {
		m := seq[i]
		if m.Cmd == "#tick" {
			continue
		}
		if len(m.Cmd) > 12 {
			m.Cmd = m.Cmd[:12]
		}
		m.Frame = "ok"
		if g.chance(35) {
			m.Frame = pick(g, []string{"enc", "enc_garbage", "badsum", "lie_more", "lie_less", "lie_big", "bad_magic", "cmd_garbage", "partial"})
			m.Lie = rapid.Uint32Range(0, 100000).Draw(t, "lie")
		}
		rc.Frames = append(rc.Frames, m)
	}
	return rc
}

func TestRunLoop(t *testing.T) {
	cp := startCapture()
	defer cp.stop()
	pbt.Check(t, pbt.Cfg{Name: "run_loop", Quick: 20000, Thorough: 600000}, func(r *pbt.Run) {
		if wedged.Load() {
			return
		}
		rc := genRunCase(r.T)
		r.Case(rc)
		if rc.Handshake {
			r.Class("after_handshake")
		} else {
			r.Class("before_handshake")
		}
		if rc.KeyFirst {
			r.Class("authorised_with_key")
		}
		if rc.Peers != "" {
			r.Class("peers_db/" + rc.Peers)
		}
		if rc.Queues != "" {
			r.Class("queues/" + rc.Queues)
		}
		if rc.Bystander {
			r.Class("bystander_connection")
			if !rc.Handshake && len(rc.Frames) > 0 && rc.Frames[0].Dyn == "ver_peernonce" && rc.Frames[0].Frame == "ok" {
				r.Class("version/same_nonce_as_bystander")
			}
		}
		seen := map[string]bool{}
		nt := false
		for _, m := range rc.Frames {
			if !seen[m.Frame] {
				seen[m.Frame] = true
				r.Class("frame/" + m.Frame)
			}
			nt = nt || len(m.payload()) >= minLen(m.Cmd)
		}
		if nt {
			r.NonTrivial()
		}
		raw, _ := json.Marshal(rc)
		journal("run_loop", raw)
		if unsafeToRun(rc.Frames) {
			r.Excluded(keyAllocAhead)
			return
		}
		pbt.AddExtra("frames", int64(len(rc.Frames)))
		if err := runRun(rc, cp); err != nil {
			if key := knownClass(rc.Frames, err); key != "" {
				r.Excluded(key)
				return
			}
			r.Failf("%v", err)
		}
	})
}

func replayRun(raw json.RawMessage) error {
	var rc runCase
	if err := json.Unmarshal(raw, &rc); err != nil {
		return err
	}
	cp := startCapture()
	defer cp.stop()
	return runRun(rc, cp)
}
