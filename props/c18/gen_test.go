package c18

// Generators: structured (reference-encoded) payloads for every command the dispatch loop knows,
// byte-level mutations of them, raw bytes, and message sequences with cross references (a block for an
// announced header, blocktxn for a compact block, getdata for an accepted transaction ...).
// Everything a generator emits is plain data (hex strings), so a case is replayable without rapid.

import (
	"bytes"
	"crypto/sha256"
	"encoding/binary"
	"encoding/hex"
	"math/bits"

	"pgregory.net/rapid"
	"verif/ref/ec"
	"verif/ref/wire"
)

type fill struct {
	Seed uint64 `json:"seed"`
	N    int    `json:"n"`
}

// msg is one message of a case.  Cmd "#tick" is the pseudo message "the connection's loop runs its
// periodic part" (SendInvs, Tick, resume of a paused getdata).
type msg struct {
	Cmd  string `json:"cmd"`
	Pl   string `json:"pl,omitempty"`   // payload, hex
	Fill *fill  `json:"fill,omitempty"` // deterministic filler appended to Pl (large payloads)
	Kind string `json:"kind,omitempty"` // how the payload was made: wf | trunc | extend | setcount | flip | zero | raw
	Dyn  string `json:"dyn,omitempty"`  // resolved at execution: pong_echo | xauth_sign | ver_ournonce
	Tr   bool   `json:"trusted,omitempty"`
	// Cmd "#clock": Secs seconds pass on the connection without anything happening (Idle: the peer did not even
	// answer pings, so the no-data time-out may fire)
	Secs uint32 `json:"secs,omitempty"`
	Idle bool   `json:"idle,omitempty"`
	// Expect "block_accepted": this block message is the genuine copy of a wanted block and has to be taken
	// (extra oracle on behalf of C09, see checkAcceptedBlock)
	Expect string `json:"expect,omitempty"`
	// Run mode framing
	Frame string `json:"frame,omitempty"` // ok | badsum | enc | enc_garbage | lie_more | lie_less | lie_big | bad_magic | cmd_garbage | partial
	Lie   uint32 `json:"lie,omitempty"`
}

func splitmix(s *uint64) uint64 {
	*s += 0x9e3779b97f4a7c15
	z := *s
	z = (z ^ (z >> 30)) * 0xbf58476d1ce4e5b9
	z = (z ^ (z >> 27)) * 0x94d049bb133111eb
	return z ^ (z >> 31)
}

func (m *msg) payload() []byte {
	b, _ := hex.DecodeString(m.Pl)
	if m.Fill != nil && m.Fill.N > 0 {
		s := m.Fill.Seed
		out := make([]byte, 0, len(b)+m.Fill.N)
		out = append(out, b...)
		for len(out) < len(b)+m.Fill.N {
			var w [8]byte
			binary.LittleEndian.PutUint64(w[:], splitmix(&s))
			out = append(out, w[:]...)
		}
		return out[:len(b)+m.Fill.N]
	}
	return b
}

// minLen is the command's first length test (payloads below it never reach the handler's logic).
func minLen(cmd string) int {
	switch cmd {
	case "version":
		return 80
	case "inv":
		return 37
	case "getblocks", "getheaders":
		return 5
	case "block":
		return 100
	case "cmpctblock":
		return 90
	case "getblocktxn":
		return 34
	case "blocktxn":
		return 33
	case "feefilter":
		return 8
	case "sendcmpct":
		return 9
	case "xauth":
		return 33
	case "tx":
		return 10
	case "addr", "getdata", "headers", "getmp":
		return 1
	}
	return 0
}

var cmds19 = []string{"version", "verack", "addr", "inv", "getdata", "getblocks", "getheaders", "headers", "tx", "block",
	"cmpctblock", "getblocktxn", "blocktxn", "ping", "pong", "feefilter", "sendcmpct", "getmp", "xauth"}

// the same 19, ordered by how much code is behind them (rapid's sampling favours the front)
var cmdsByInterest = []string{"cmpctblock", "block", "tx", "headers", "blocktxn", "getblocktxn", "inv", "getdata", "getheaders", "getblocks",
	"addr", "xauth", "getmp", "version", "sendcmpct", "pong", "ping", "feefilter", "verack"}

// commands Run() knows beyond the 19 named in the property, plus a few it does not know
var cmdsOther = []string{"getaddr", "notfound", "sendheaders", "authack", "getmpdone", "filterload", "filteradd", "filterclear",
	"merkleblock", "mempool", "reject", "wtxidrelay", "sendaddrv2", "addrv2", "", "VERSION", "abcdefghijkl"}

// ---------------------------------------------------------------------------------------------------
// CompactSize in any width

func csEnc(v uint64, width int) []byte {
	switch {
	case width <= 1 && v < 0xfd:
		return []byte{byte(v)}
	case width <= 3 && v <= 0xffff:
		return []byte{0xfd, byte(v), byte(v >> 8)}
	case width <= 5 && v <= 0xffffffff:
		return append([]byte{0xfe}, le32(uint32(v))...)
	}
	return append([]byte{0xff}, le64(v)...)
}

func csLen(b []byte) int {
	if len(b) == 0 {
		return 0
	}
	switch b[0] {
	case 0xfd:
		return 3
	case 0xfe:
		return 5
	case 0xff:
		return 9
	}
	return 1
}

// built is a payload plus the offsets of its CompactSize count/length fields.
type built struct {
	b      bytes.Buffer
	counts []int
}

func (p *built) cs(v uint64) {
	p.counts = append(p.counts, p.b.Len())
	p.b.Write(csEnc(v, 1))
}
func (p *built) w(b ...[]byte) {
	for _, x := range b {
		p.b.Write(x)
	}
}

// ---------------------------------------------------------------------------------------------------
// SipHash-2-4 (BIP152 short ids), written from the specification

func sipRound(v0, v1, v2, v3 uint64) (uint64, uint64, uint64, uint64) {
	v0 += v1
	v1 = bits.RotateLeft64(v1, 13)
	v1 ^= v0
	v0 = bits.RotateLeft64(v0, 32)
	v2 += v3
	v3 = bits.RotateLeft64(v3, 16)
	v3 ^= v2
	v0 += v3
	v3 = bits.RotateLeft64(v3, 21)
	v3 ^= v0
	v2 += v1
	v1 = bits.RotateLeft64(v1, 17)
	v1 ^= v2
	v2 = bits.RotateLeft64(v2, 32)
	return v0, v1, v2, v3
}

func sipHash24(k0, k1 uint64, m []byte) uint64 {
	v0 := k0 ^ 0x736f6d6570736575
	v1 := k1 ^ 0x646f72616e646f6d
	v2 := k0 ^ 0x6c7967656e657261
	v3 := k1 ^ 0x7465646279746573
	n := len(m)
	for ; len(m) >= 8; m = m[8:] {
		w := binary.LittleEndian.Uint64(m)
		v3 ^= w
		v0, v1, v2, v3 = sipRound(v0, v1, v2, v3)
		v0, v1, v2, v3 = sipRound(v0, v1, v2, v3)
		v0 ^= w
	}
	var last [8]byte
	copy(last[:], m)
	last[7] = byte(n)
	w := binary.LittleEndian.Uint64(last[:])
	v3 ^= w
	v0, v1, v2, v3 = sipRound(v0, v1, v2, v3)
	v0, v1, v2, v3 = sipRound(v0, v1, v2, v3)
	v0 ^= w
	v2 ^= 0xff
	for i := 0; i < 4; i++ {
		v0, v1, v2, v3 = sipRound(v0, v1, v2, v3)
	}
	return v0 ^ v1 ^ v2 ^ v3
}

func shortID(hdr80, nonce8 []byte, wtxid [32]byte) []byte {
	h := sha256.Sum256(append(append([]byte{}, hdr80...), nonce8...))
	k0 := binary.LittleEndian.Uint64(h[0:8])
	k1 := binary.LittleEndian.Uint64(h[8:16])
	v := sipHash24(k0, k1, wtxid[:])
	return le64(v)[:6]
}

// ---------------------------------------------------------------------------------------------------
// generator context

type knownHdr struct {
	hdr    wire.Header
	height uint32
}

type G struct {
	t       *rapid.T
	e       *envT
	hdrs    []knownHdr   // valid headers announced earlier in this case
	txs     []*wire.Tx   // transactions sent earlier in this case
	follow  []msg        // follow-ups made plausible by earlier messages (block for a header, blocktxn ...)
	spentAt map[int]bool // indices of e.spend already used by a generated transaction
	tags    []string     // shapes used by the generators of this case (for the histogram)
}

func newG(t *rapid.T) *G { return &G{t: t, e: getEnv(), spentAt: map[int]bool{}} }

func (g *G) n(lo, hi int, label string) int { return rapid.IntRange(lo, hi).Draw(g.t, label) }
func (g *G) chance(pct int) bool            { return g.k(100) < pct }

// k draws uniformly from 0..n-1.  rapid's integer generators favour small values (good for sizes,
// bad for "which alternative"), its Bool is a fair bit.
func (g *G) k(n int) int {
	if n <= 1 {
		return 0
	}
	w := bits.Len(uint(n - 1))
	for try := 0; ; try++ {
		v := 0
		for i := 0; i < w; i++ {
			if rapid.Bool().Draw(g.t, "bit") {
				v |= 1 << i
			}
		}
		if v < n {
			return v
		}
		if try == 3 {
			return v % n
		}
	}
}

func pick[T any](g *G, pool []T) T { return pool[g.k(len(pool))] }

func (g *G) bytesN(lo, hi int) []byte {
	return rapid.SliceOfN(rapid.Byte(), lo, hi).Draw(g.t, "bytes")
}
func (g *G) u32pool(pool ...uint32) uint32 {
	if g.chance(15) {
		return rapid.Uint32().Draw(g.t, "u32")
	}
	return pick(g, pool)
}

func (g *G) hash() [32]byte {
	var h [32]byte
	switch g.k(8) {
	case 0, 1:
		return g.e.hashes[g.n(0, len(g.e.hashes)-1, "height")]
	case 2:
		return g.e.hashes[len(g.e.hashes)-1]
	case 3:
		if len(g.hdrs) > 0 {
			return g.hdrs[g.n(0, len(g.hdrs)-1, "hdr")].hdr.Hash()
		}
		return g.e.hashes[0]
	case 4:
		if len(g.txs) > 0 {
			return g.txs[g.n(0, len(g.txs)-1, "tx")].TxID()
		}
		return g.e.spend[g.n(0, len(g.e.spend)-1, "sp")].TxID
	case 5:
		return h
	default:
		copy(h[:], g.bytesN(32, 32))
	}
	return h
}

// ---------------------------------------------------------------------------------------------------
// structured payloads

func netAddr(services uint64, ip4 [4]byte, port uint16) []byte {
	b := le64(services)
	b = append(b, 0, 0, 0, 0, 0, 0, 0, 0, 0, 0, 0xff, 0xff)
	b = append(b, ip4[:]...)
	return append(b, byte(port>>8), byte(port))
}

func (g *G) ip4() [4]byte {
	switch g.k(5) {
	case 0:
		return [4]byte{8, 8, 4, 4}
	case 1:
		return [4]byte{93, 184, 216, byte(g.n(1, 250, "ipb"))}
	case 2:
		return [4]byte{10, 0, 0, 1}
	case 3:
		return [4]byte{}
	}
	var a [4]byte
	copy(a[:], g.bytesN(4, 4))
	return a
}

var goodServices = uint64(1 | 8 | 1024)

// goodVersion is the handshake a well-behaved modern peer sends.
func goodVersion(nonce uint64, agent string, height uint32) []byte {
	var p built
	p.w(le32(70016), le64(goodServices), le64(genesisTime+600*baseBlocks))
	p.w(netAddr(goodServices, [4]byte{8, 8, 4, 4}, 8333), netAddr(goodServices, [4]byte{}, 0), le64(nonce))
	p.cs(uint64(len(agent)))
	p.w([]byte(agent), le32(height), []byte{1})
	return p.b.Bytes()
}

func (g *G) version() (*built, string) {
	p := &built{}
	dyn := ""
	p.w(le32(g.u32pool(0, 208, 209, 60000, 60001, 70001, 70012, 70013, 70014, 70015, 70016, 0xffffffff)))
	svc := pick(g, []uint64{goodServices, 9, 8, 1, 0, 1024 | 8, ^uint64(0), 1 << 63})
	p.w(le64(svc), le64(uint64(g.u32pool(0, genesisTime, 0xffffffff))))
	p.w(netAddr(svc, g.ip4(), 8333), netAddr(svc, g.ip4(), uint16(g.n(0, 65535, "port"))))
	switch g.k(6) {
	case 0:
		p.w(make([]byte, 8))
	case 1:
		p.w(make([]byte, 8))
		dyn = "ver_ournonce"
	case 2: // the nonce of another, established connection (the bystander of the case, if there is one)
		p.w(make([]byte, 8))
		dyn = "ver_peernonce"
	default:
		p.w(g.bytesN(8, 8))
	}
	if g.chance(10) {
		return p, dyn // 80 bytes: no user agent at all
	}
	ua := pick(g, []string{"/Satoshi:26.0.0/", "/Gocoin:1.10.5/", "/Satoshi:27.0.0/Knots:20240801/", "", "x"})
	if g.chance(20) {
		ua = string(g.bytesN(0, 300))
	}
	p.cs(uint64(len(ua)))
	p.w([]byte(ua))
	if g.chance(85) {
		p.w(le32(g.u32pool(0, baseBlocks, baseBlocks+1, 900000, 0xffffffff)))
		if g.chance(60) {
			p.w([]byte{byte(g.n(0, 1, "relay"))})
		}
	}
	return p, dyn
}

func (g *G) addr() *built {
	p := &built{}
	n := g.n(0, 12, "naddr")
	if g.chance(5) {
		n = g.n(990, 1001, "naddrbig")
	}
	p.cs(uint64(n))
	for i := 0; i < n; i++ {
		p.w(le32(g.u32pool(0, genesisTime, 0x7fffffff, 0xffffffff)))
		svc := pick(g, []uint64{goodServices, 9, 1, 0, ^uint64(0)})
		p.w(netAddr(svc, g.ip4(), uint16(g.n(0, 65535, "aport"))))
	}
	return p
}

// addrFresh is an addr message for a node whose peers database is (nearly) full: addresses it does not
// know (12.x.y.z), routable, with the segwit service bit, seen ten minutes ago (time marker 1, resolved
// at execution) or "in the future" (clamped to now by ParseAddr at the price of a misbehaviour score);
// optionally mixed with addresses the database already holds (11.x.y.z, see knownPeerIP).
func (g *G) addrFresh() msg {
	n := pick(g, []int{1, 1, 2, 2, 3, 5, 12})
	if g.chance(6) {
		n = g.n(200, 1000, "manyaddr")
	}
	return g.addrFreshN(n)
}

func (g *G) addrFreshN(n int) msg {
	var p built
	p.cs(uint64(n))
	for i := 0; i < n; i++ {
		tm := uint32(1)
		if g.chance(10) {
			tm = pick(g, []uint32{0x7fffffff, 0xffffffff, genesisTime})
		}
		ip := [4]byte{12, byte(g.k(256)), byte(g.k(256)), byte(1 + g.k(250))}
		if g.chance(20) {
			ip = knownPeerIP(g.n(0, peersLimit-10, "knownidx"))
		}
		svc := goodServices
		if g.chance(5) {
			svc = 1 // no segwit: ignored
		}
		p.w(le32(tm), netAddr(svc, ip, 8333))
	}
	return msg{Cmd: "addr", Pl: hex.EncodeToString(p.b.Bytes()), Kind: "wf", Dyn: "addr_fresh"}
}

func (g *G) invLike() *built {
	p := &built{}
	n := g.n(0, 8, "ninv")
	if g.chance(4) {
		n = g.n(400, 600, "ninvbig")
	}
	p.cs(uint64(n))
	for i := 0; i < n; i++ {
		p.w(le32(g.u32pool(0, 1, 2, 3, 4, 5, 0x40000001, 0x40000002, 0x40000004)))
		h := g.hash()
		p.w(h[:])
	}
	return p
}

func (g *G) locator() *built {
	p := &built{}
	p.w(le32(g.u32pool(70015, 70016, 0)))
	n := g.n(0, 6, "nloc")
	if g.chance(6) {
		n = g.n(99, 103, "nlocbig")
	}
	p.cs(uint64(n))
	for i := 0; i < n; i++ {
		h := g.hash()
		p.w(h[:])
	}
	switch g.k(5) {
	case 0: // absent
	case 1:
		p.w(g.bytesN(1, 31)) // partial
	case 2:
		h := g.hash()
		p.w(h[:])
	default:
		p.w(make([]byte, 32))
	}
	return p
}

// parent picks a block to build on: the tip, an earlier generated header, an older block (fork), or
// something unknown.
func (g *G) parent() (hash [32]byte, height uint32, tm uint32) {
	e := g.e
	k := g.k(10)
	switch {
	case k <= 4 && len(g.hdrs) > 0 && g.chance(60):
		h := g.hdrs[g.n(0, len(g.hdrs)-1, "ph")]
		return h.hdr.Hash(), h.height, h.hdr.Time
	case k <= 6:
		return e.hashes[baseBlocks], baseBlocks, genesisTime + 600*baseBlocks
	case k <= 8:
		h := g.n(0, baseBlocks-1, "forkh")
		return e.hashes[h], uint32(h), genesisTime + 600*uint32(h)
	}
	var r [32]byte
	copy(r[:], g.bytesN(32, 32))
	return r, uint32(g.n(0, 200, "uh")), genesisTime
}

// header makes an unmined header template with a zero merkle root; valid=true means it passes
// PreCheckBlock on the start-up chain once mined; mineIt=false leaves the proof of work to chance.
func (g *G) header(forceValid bool) (h wire.Header, height uint32, valid, mineIt bool) {
	ph, pheight, ptime := g.parent()
	h = wire.Header{Version: blockVersion, PrevBlock: ph, Time: ptime + 600, Bits: powBits}
	valid, mineIt = true, true
	if !forceValid && g.chance(30) {
		valid = false
		switch g.k(6) {
		case 0:
			h.Version = g.u32pool(0, 1, 2, 3)
		case 1:
			h.Bits = g.u32pool(0x1d00ffff, 0x207ffffe, 0, 0xffffffff, 0x21000001)
			mineIt = h.Bits == 0x207ffffe
		case 2:
			h.Time = g.u32pool(0, ptime-86400, 0xffffffff, 0xfffffff0)
		case 3:
			copy(h.PrevBlock[:], g.bytesN(32, 32))
		case 4:
			h.Nonce = rapid.Uint32().Draw(g.t, "nonce")
			mineIt = false
		default:
			valid = true
		}
	}
	return h, pheight + 1, valid, mineIt
}

func (g *G) headers() *built {
	p := &built{}
	n := g.n(0, 5, "nhdr")
	p.cs(uint64(n))
	for i := 0; i < n; i++ {
		h, height, valid, mineIt := g.header(false)
		if g.chance(70) {
			h.MerkleRoot = coinbaseTx(height, nil).TxID() // the block "coinbase only" exists for this header
		} else {
			copy(h.MerkleRoot[:], g.bytesN(32, 32))
		}
		if mineIt {
			mine(&h)
		}
		if g.chance(10) {
			p.w(g.bytesN(80, 80))
		} else {
			p.w(h.Serialize())
			if valid {
				g.hdrs = append(g.hdrs, knownHdr{h, height})
			}
		}
		if g.chance(90) {
			p.b.WriteByte(0)
		} else {
			p.cs(uint64(g.n(0, 70000, "hdrtxn")))
		}
	}
	return p
}

func (g *G) script() []byte {
	switch g.k(7) {
	case 0:
		return nil
	case 1:
		return []byte{0x51}
	case 2:
		return []byte{0x01, 0x51}
	case 3:
		return opTrueP2WSH
	case 4:
		return opTrueP2SH
	case 5:
		return []byte{0x6a, 0x24, 0xaa, 0x21, 0xa9, 0xed, 1, 2, 3, 4, 5, 6, 7, 8, 9, 10, 11, 12, 13, 14, 15, 16, 17, 18, 19, 20, 21, 22, 23, 24, 25, 26, 27, 28, 29, 30, 31, 32}
	}
	return g.bytesN(0, 60)
}

// tx makes a transaction: spends of mature start-up outputs (so that script verification is reached in
// the mempool), of outputs of earlier generated transactions, or of unknown outpoints.
func (g *G) tx() *wire.Tx {
	e := g.e
	t := &wire.Tx{Version: g.u32pool(1, 2), LockTime: g.u32pool(0, 0, 0, baseBlocks, 500000000, 0xffffffff)}
	nin := g.n(1, 3, "nin")
	if g.chance(4) {
		nin = 0
	}
	var total uint64
	for i := 0; i < nin; i++ {
		var in wire.TxIn
		in.Sequence = g.u32pool(0xffffffff, 0xfffffffe, 0xfffffffd, 0)
		k := g.k(10)
		switch {
		case k <= 5:
			j := g.n(0, len(e.spend)-1, "spidx")
			sp := e.spend[j]
			g.spentAt[j] = true
			in.PrevHash, in.PrevIndex = sp.TxID, sp.Vout
			total += sp.Value
			switch sp.Kind {
			case "p2sh":
				in.ScriptSig = []byte{0x01, 0x51}
			case "p2wsh":
				in.Witness = [][]byte{{0x51}}
			}
			if g.chance(25) { // not the expected unlocking data
				in.ScriptSig = g.script()
				if g.chance(50) {
					in.Witness = [][]byte{g.bytesN(0, 40), g.bytesN(0, 40)}
				}
			}
		case k <= 7 && len(g.txs) > 0:
			p := g.txs[g.n(0, len(g.txs)-1, "memparent")]
			in.PrevHash = p.TxID()
			in.PrevIndex = uint32(g.n(0, len(p.Out), "memvout"))
			if int(in.PrevIndex) < len(p.Out) {
				total += p.Out[in.PrevIndex].Value
			}
			in.ScriptSig = g.script()
		case k == 8:
			in.PrevIndex = 0xffffffff // null prevout
			in.ScriptSig = g.script()
		default:
			in.PrevHash = g.hash()
			in.PrevIndex = g.u32pool(0, 1, 2, 0xffffffff)
			in.ScriptSig = g.script()
		}
		t.In = append(t.In, in)
	}
	nout := g.n(0, 3, "nout")
	fee := uint64(g.n(0, 100000, "fee"))
	for i := 0; i < nout; i++ {
		v := uint64(0)
		if total > fee {
			v = (total - fee) / uint64(nout)
		}
		if g.chance(8) {
			v = rapid.Uint64().Draw(g.t, "val")
		}
		t.Out = append(t.Out, wire.TxOut{Value: v, PkScript: g.script()})
	}
	return t
}

func (g *G) txPayload() *built {
	p := &built{}
	t := g.tx()
	raw := t.Serialize(true)
	p.w(raw)
	// count fields: vin count sits at 4 (or 6 with the witness marker)
	if len(t.In) > 0 && t.HasWitness() {
		p.counts = append(p.counts, 6)
	} else {
		p.counts = append(p.counts, 4)
	}
	g.txs = append(g.txs, t)
	return p
}

func witnessCommitment(bl *wire.Block) []byte {
	nonce := make([]byte, 32)
	c := wire.WitnessCommitment(bl.WitnessMerkleRoot(), nonce)
	return append([]byte{0x6a, 0x24, 0xaa, 0x21, 0xa9, 0xed}, c[:]...)
}

// block makes a block.  Returns the block and whether header+body are expected to pass
// PreCheckBlock/PostCheckBlock (not used by the oracle, only for the histogram).
// witness-commitment shapes of a block body (BIP141): what PostCheckBlock's commitment rules see.  The
// ones after "two_commits_last_ok" break a rule.
var wcShapes = []string{"ok_commit", "two_commits_last_ok", "commit_short_script",
	"commit_no_witness", "nonce_31", "nonce_33", "nonce_two_items", "nonce_empty_item", "cb_empty_stack_with_witness_txs",
	"commit_mismatch", "witness_no_commit", "two_commits_last_bad"}

func wcBreaksRule(shape string) bool {
	return shape != "ok_commit" && shape != "two_commits_last_ok" && shape != "commit_short_script"
}

// wcBlock makes a block that is fine up to PostCheckBlock's witness-commitment rules (acceptable header on
// the tip or on an announced header, coinbase with the right BIP34 push, clean transactions, right merkle
// root) and gives its body one of the commitment shapes.
func (g *G) wcBlock() (*wire.Block, uint32, bool) {
	e := g.e
	shape := pick(g, wcShapes)
	g.tags = append(g.tags, "wc/"+shape)
	prev, pheight, ptime := e.hashes[baseBlocks], uint32(baseBlocks), uint32(genesisTime+600*baseBlocks)
	if len(g.hdrs) > 0 && g.chance(30) {
		h := g.hdrs[g.n(0, len(g.hdrs)-1, "wcparent")]
		prev, pheight, ptime = h.hdr.Hash(), h.height, h.hdr.Time
	}
	height := pheight + 1
	witnessTxs := shape == "witness_no_commit" || shape == "cb_empty_stack_with_witness_txs"
	if shape != "commit_no_witness" && g.chance(40) {
		witnessTxs = true
	}
	var txs []*wire.Tx
	for i, n := 0, g.n(0, 2, "wcntx"); i < n || (witnessTxs && len(txs) == 0); i++ {
		wantWit := witnessTxs && len(txs) == 0
		var sp spendable
		for try := 0; ; try++ {
			j := g.k(len(e.spend))
			if !g.spentAt[j] && (e.spend[j].Kind == "p2wsh") == wantWit || try > 200 {
				g.spentAt[j] = true
				sp = e.spend[j]
				break
			}
		}
		in := wire.TxIn{PrevHash: sp.TxID, PrevIndex: sp.Vout, Sequence: 0xffffffff}
		switch sp.Kind {
		case "p2sh":
			in.ScriptSig = []byte{0x01, 0x51}
		case "p2wsh":
			in.Witness = [][]byte{{0x51}}
		}
		txs = append(txs, &wire.Tx{Version: 2, In: []wire.TxIn{in}, Out: []wire.TxOut{{Value: sp.Value - 2000, PkScript: []byte{0x51}}}})
	}
	cb := coinbaseTx(height, g.bytesN(0, 6))
	bl := &wire.Block{Txs: append([]*wire.Tx{cb}, txs...)}
	commit := witnessCommitment(bl) // for the all-zero 32-byte nonce
	junk := append([]byte{0x6a, 0x24, 0xaa, 0x21, 0xa9, 0xed}, g.bytesN(32, 32)...)
	nonce := [][]byte{make([]byte, 32)}
	switch shape {
	case "ok_commit":
		cb.Out = append(cb.Out, wire.TxOut{PkScript: commit})
	case "two_commits_last_ok":
		cb.Out = append(cb.Out, wire.TxOut{PkScript: junk}, wire.TxOut{PkScript: commit})
	case "two_commits_last_bad":
		cb.Out = append(cb.Out, wire.TxOut{PkScript: commit}, wire.TxOut{PkScript: junk})
	case "commit_short_script":
		cb.Out = append(cb.Out, wire.TxOut{PkScript: commit[:37]})
		if witnessTxs {
			cb.Out = append(cb.Out, wire.TxOut{PkScript: commit})
		}
	case "commit_no_witness":
		cb.Out = append(cb.Out, wire.TxOut{PkScript: commit})
		nonce = nil // the coinbase goes out in the old format: no marker, no flag, no witness
	case "nonce_31":
		cb.Out = append(cb.Out, wire.TxOut{PkScript: commit})
		nonce = [][]byte{make([]byte, 31)}
	case "nonce_33":
		cb.Out = append(cb.Out, wire.TxOut{PkScript: commit})
		nonce = [][]byte{make([]byte, 33)}
	case "nonce_two_items":
		cb.Out = append(cb.Out, wire.TxOut{PkScript: commit})
		nonce = [][]byte{make([]byte, 32), make([]byte, 32)}
	case "nonce_empty_item":
		cb.Out = append(cb.Out, wire.TxOut{PkScript: commit})
		nonce = [][]byte{{}}
	case "cb_empty_stack_with_witness_txs":
		cb.Out = append(cb.Out, wire.TxOut{PkScript: commit})
		nonce = nil
	case "commit_mismatch":
		cb.Out = append(cb.Out, wire.TxOut{PkScript: junk})
	case "witness_no_commit":
		nonce = nil
	}
	cb.In[0].Witness = nonce
	bl.Header = wire.Header{Version: blockVersion, PrevBlock: prev, Time: ptime + 600, Bits: powBits}
	bl.Header.MerkleRoot, _ = bl.TxMerkleRoot()
	mine(&bl.Header)
	g.hdrs = append(g.hdrs, knownHdr{bl.Header, height})
	return bl, height, !wcBreaksRule(shape)
}

func (g *G) block() (*wire.Block, uint32, bool) {
	if g.chance(30) {
		return g.wcBlock()
	}
	ntx := g.n(0, 3, "nblktx")
	var txs []*wire.Tx
	for i := 0; i < ntx; i++ {
		if len(g.txs) > 0 && g.chance(50) {
			txs = append(txs, g.txs[g.n(0, len(g.txs)-1, "blktx")].Copy())
		} else {
			txs = append(txs, g.tx())
		}
	}
	bl := &wire.Block{}
	h, height, valid, mineIt := g.header(g.chance(70))
	cb := coinbaseTx(height, g.bytesN(0, 8))
	ok := valid
	switch g.k(10) {
	case 0:
		cb = coinbaseTx(height+1, nil) // wrong BIP34 height
		ok = false
	case 1:
		cb = nil // no coinbase
		ok = false
	case 2:
		cb.In[0].ScriptSig = g.bytesN(0, 120)
	}
	if cb != nil {
		bl.Txs = append(bl.Txs, cb)
	}
	bl.Txs = append(bl.Txs, txs...)
	if g.chance(8) && len(bl.Txs) > 1 {
		bl.Txs = append(bl.Txs, bl.Txs[len(bl.Txs)-1]) // duplicated last transaction (CVE-2012-2459 shape)
		ok = false
	}
	hasWit := false
	for _, t := range bl.Txs {
		hasWit = hasWit || t.HasWitness()
	}
	if cb != nil && (hasWit && g.chance(80) || g.chance(10)) {
		cb.In[0].Witness = [][]byte{make([]byte, 32)}
		cb.Out = append(cb.Out, wire.TxOut{PkScript: witnessCommitment(bl)})
		if g.chance(10) {
			cb.In[0].Witness = [][]byte{g.bytesN(0, 40)}
		}
	}
	bl.Header = h
	if len(bl.Txs) > 0 && g.chance(90) {
		bl.Header.MerkleRoot, _ = bl.TxMerkleRoot()
	} else {
		ok = false
	}
	if mineIt {
		mine(&bl.Header)
	}
	if valid {
		g.hdrs = append(g.hdrs, knownHdr{bl.Header, height})
	}
	return bl, height, ok
}

func (g *G) blockPayload() *built {
	p := &built{}
	if g.chance(8) { // a block the node already has
		p.w(g.e.raw[g.n(0, baseBlocks-1, "oldblock")])
		p.counts = append(p.counts, 80)
		return p
	}
	bl, _, _ := g.block()
	p.w(bl.Serialize(true))
	p.counts = append(p.counts, 80)
	return p
}

// cmpctblock: header, nonce, short ids, prefilled transactions (BIP152).  The transactions that are
// neither prefilled nor (probably) in the mempool are queued as a blocktxn follow-up.
func (g *G) cmpctblock() *built {
	p := &built{}
	bl, _, _ := g.block()
	hdr := bl.Header.Serialize()
	nonce := g.bytesN(8, 8)
	p.w(hdr, nonce)
	pre := map[int]bool{}
	if len(bl.Txs) > 0 && g.chance(90) {
		pre[0] = true
	}
	for i := 1; i < len(bl.Txs); i++ {
		if g.chance(25) {
			pre[i] = true
		}
	}
	var ids [][]byte
	var missing []*wire.Tx
	for i, t := range bl.Txs {
		if !pre[i] {
			ids = append(ids, shortID(hdr, nonce, t.WTxID()))
			missing = append(missing, t)
		}
	}
	if g.chance(10) && len(ids) > 0 {
		ids = append(ids, ids[0]) // duplicated short id
	}
	if g.chance(10) {
		ids = append(ids, g.bytesN(6, 6))
	}
	p.cs(uint64(len(ids)))
	for _, id := range ids {
		p.w(id)
	}
	p.cs(uint64(len(pre)))
	last := -1
	for i, t := range bl.Txs {
		if pre[i] {
			d := uint64(i - last - 1)
			if g.chance(8) {
				d = uint64(g.n(0, 70000, "preidx"))
			}
			p.cs(d)
			p.w(t.Serialize(true))
			last = i
		}
	}
	// follow-up: blocktxn with all / some / none of the transactions the node will ask for
	var q built
	hh := bl.Header.Hash()
	q.w(hh[:])
	k := len(missing)
	switch g.k(5) {
	case 0:
		k = 0
	case 1:
		if k > 0 {
			k = g.n(0, k, "btxnk")
		}
	}
	q.cs(uint64(k))
	for i := 0; i < k; i++ {
		q.w(missing[i].Serialize(true))
	}
	g.follow = append(g.follow, msg{Cmd: "blocktxn", Pl: hex.EncodeToString(q.b.Bytes()), Kind: "wf"})
	return p
}

func (g *G) getblocktxn() *built {
	p := &built{}
	h := g.hash()
	if g.chance(60) {
		h = g.e.hashes[g.n(1, baseBlocks, "gbth")] // a stored block
	}
	p.w(h[:])
	n := g.n(0, 4, "ngbt")
	p.cs(uint64(n))
	for i := 0; i < n; i++ {
		if g.chance(15) {
			p.b.Write(csEnc(pick(g, []uint64{2, 3, 252, 253, 0xffff, 1 << 31, 1<<32 - 1, 1 << 32, 1<<63 - 1, 1 << 63, ^uint64(0), ^uint64(0) - 1}), 1))
		} else {
			p.cs(uint64(g.n(0, 2, "gbtd")))
		}
	}
	return p
}

func (g *G) blocktxn() *built {
	p := &built{}
	h := g.hash()
	p.w(h[:])
	n := g.n(0, 3, "nbtxn")
	p.cs(uint64(n))
	for i := 0; i < n; i++ {
		p.w(g.tx().Serialize(true))
	}
	return p
}

func (g *G) getmp() *built {
	p := &built{}
	n := g.n(0, 6, "ngetmp")
	p.cs(uint64(n))
	for i := 0; i < n; i++ {
		h := g.hash()
		p.w(h[:8])
	}
	return p
}

// xauth: public key, DER signature over the node's nonce, last block hash, height.  With Dyn
// "xauth_sign" the executor replaces the signature by a valid one of the harness' friend key.
func (g *G) xauth() (*built, string) {
	p := &built{}
	dyn := ""
	switch g.k(6) {
	case 0, 1, 2: // the friend key, properly signed -> authorised connection
		p.w(g.e.peerPub)
		dyn = "xauth_sign"
	case 3: // friend key, junk signature
		p.w(g.e.peerPub)
		p.w([]byte{0x30, 0x06, 0x02, 0x01, 0x01, 0x02, 0x01, 0x01})
	case 4: // some other valid key
		p.w(g.e.nodePub)
		p.w(g.bytesN(0, 80))
	default:
		p.w(g.bytesN(33, 33))
		p.w(g.bytesN(0, 80))
	}
	if g.chance(70) {
		h := g.hash()
		p.w(h[:], le32(g.u32pool(0, baseBlocks, baseBlocks+5, 0xffffffff)))
	} else {
		p.w(g.bytesN(0, 40))
	}
	return p, dyn
}

// wellFormed returns a structured payload for cmd.
func (g *G) wellFormed(cmd string) (*built, string) {
	p := &built{}
	switch cmd {
	case "version":
		return g.version()
	case "addr":
		return g.addr(), ""
	case "inv", "getdata", "notfound":
		return g.invLike(), ""
	case "getblocks", "getheaders":
		return g.locator(), ""
	case "headers":
		return g.headers(), ""
	case "tx":
		return g.txPayload(), ""
	case "block":
		return g.blockPayload(), ""
	case "cmpctblock":
		return g.cmpctblock(), ""
	case "getblocktxn":
		return g.getblocktxn(), ""
	case "blocktxn":
		return g.blocktxn(), ""
	case "ping":
		p.w(g.bytesN(8, 8))
	case "pong":
		if g.chance(50) {
			return p, "pong_echo"
		}
		p.w(g.bytesN(8, 8))
	case "feefilter":
		p.w(le64(pick(g, []uint64{0, 1000, 1 << 62, ^uint64(0)})))
	case "sendcmpct":
		p.w([]byte{byte(g.n(0, 2, "hb"))}, le64(pick(g, []uint64{0, 1, 2, 2, 2, 3, ^uint64(0)})))
	case "getmp":
		return g.getmp(), ""
	case "xauth":
		return g.xauth()
	case "authack", "getmpdone":
		p.w(g.bytesN(0, 2))
	case "verack", "getaddr", "sendheaders", "mempool":
	default:
		p.w(g.bytesN(0, 40))
	}
	return p, ""
}

var hugeCounts = []uint64{252, 253, 254, 255, 256, 0xffff, 0x10000, 50000, 50001, 1<<31 - 1, 1 << 31, 1<<32 - 1, 1 << 32,
	1 << 62, 1<<62 + 1, 1<<63 - 1, 1 << 63, 1<<63 + 1, ^uint64(0) - 1, ^uint64(0),
	// 36*c and 30*c and 32*c and 6*c wrap around 2^64 to a small number
	(1<<64-1)/36 + 1, (1<<64-1)/36 + 2, (1<<64-1)/30 + 1, 1 << 59, 1<<59 + 1, (1<<64-1)/6 + 1}

// message draws one message for cmd: a structured payload, one of its mutations, or raw bytes.
func (g *G) message(cmd string) msg {
	m := msg{Cmd: cmd}
	k := g.k(100)
	switch {
	case k < 12:
		m.Kind = "raw"
		n := g.n(0, 200, "rawlen")
		if g.chance(15) {
			n = g.n(0, 3000, "rawlen2")
		}
		b := g.bytesN(n, n)
		if g.chance(30) && len(b) < minLen(cmd) { // make most raw payloads reach the handler
			b = append(b, make([]byte, minLen(cmd)-len(b))...)
		}
		m.Pl = hex.EncodeToString(b)
		return m
	case k < 15:
		m.Kind = "zero"
		return m
	}
	p, dyn := g.wellFormed(cmd)
	b := append([]byte{}, p.b.Bytes()...)
	m.Dyn = dyn
	m.Kind = "wf"
	switch {
	case k < 50: // pristine
	case k < 62 && len(b) > 0:
		m.Kind = "trunc"
		b = b[:g.n(0, len(b)-1, "cut")]
	case k < 70:
		m.Kind = "extend"
		b = append(b, g.bytesN(1, 40)...)
	case k < 88 && len(p.counts) > 0:
		off := p.counts[g.n(0, len(p.counts)-1, "cntfield")]
		if off >= len(b) || off+csLen(b[off:]) > len(b) {
			break
		}
		m.Kind = "setcount"
		old := csLen(b[off:])
		var v uint64
		switch g.k(4) {
		case 0:
			v = uint64(g.n(0, 300, "cntsmall"))
		case 1, 2:
			v = pick(g, hugeCounts)
		default:
			v = rapid.Uint64().Draw(g.t, "cntany")
		}
		enc := csEnc(v, pick(g, []int{1, 1, 3, 5, 9}))
		b = append(append(append([]byte{}, b[:off]...), enc...), b[off+old:]...)
	case len(b) > 0:
		m.Kind = "flip"
		for i, n := 0, g.n(1, 4, "nflip"); i < n; i++ {
			b[g.n(0, len(b)-1, "flippos")] = rapid.Byte().Draw(g.t, "flipval")
		}
	}
	if g.chance(2) && (cmd == "inv" || cmd == "getdata" || cmd == "addr" || cmd == "headers" || cmd == "getmp" || cmd == "ping") {
		// a payload near the command's size limit: deterministic filler instead of drawn bytes
		m.Fill = &fill{Seed: rapid.Uint64().Draw(g.t, "fillseed"), N: g.n(1000, 200000, "filln")}
		m.Kind += "+fill"
	}
	m.Pl = hex.EncodeToString(b)
	return m
}

func (g *G) command() string {
	k := g.k(100)
	switch {
	case k < 80:
		return pick(g, cmdsByInterest)
	case k < 93:
		return pick(g, cmdsOther)
	}
	b := g.bytesN(1, 12)
	for i := range b {
		b[i] = "abcdefghijklmnopqrstuvwxyz0123456789_ \xff"[int(b[i])%39]
	}
	return string(b)
}

// sequence draws 1..30 messages for one connection.
// A taproot output with one script leaf, built with the reference library (BIP341): internal key P,
// leaf "<key> OP_CHECKSIG", output key Q = P + H_TapTweak(P || leafhash)G.
var tapPk, tapScript, tapControl = func() (pk, scr, ctl []byte) {
	k1 := sha256.Sum256([]byte("verif-c18-taproot-internal"))
	k2 := sha256.Sum256([]byte("verif-c18-taproot-leaf"))
	p32, _ := ec.XOnlyPubKey(k1[:])
	l32, _ := ec.XOnlyPubKey(k2[:])
	scr = append(append([]byte{0x20}, l32...), 0xac)
	leaf := ec.TaggedHash("TapLeaf", []byte{0xc0}, []byte{byte(len(scr))}, scr)
	q32, parity, ok := ec.TweakAdd(p32, ec.TaggedHash("TapTweak", p32, leaf))
	if !ok {
		panic("taproot tweak")
	}
	c0 := byte(0xc0)
	if parity {
		c0 |= 1
	}
	return append([]byte{0x51, 0x20}, q32...), scr, append([]byte{c0}, p32...)
}()

var tapHashTypes = []byte{0x00, 0x01, 0x02, 0x03, 0x81, 0x82, 0x83, 0x03, 0x83, 0x04, 0x80, 0x84, 0xff}

// tapWitness: the witness of a key-path (one signature element) or script-path (signature, script,
// control block) spend of tapPk; signature bytes arbitrary, 64 bytes or 65 with any hash-type byte;
// optionally an annex.
func (g *G) tapWitness(scriptPath bool) [][]byte {
	sig := g.bytesN(64, 64)
	switch g.k(8) {
	case 0: // 64 bytes: SIGHASH_DEFAULT
	case 1:
		sig = append(sig, rapid.Byte().Draw(g.t, "hashtype"))
	case 2:
		sig = g.bytesN(0, 70)
	default:
		sig = append(sig, pick(g, tapHashTypes))
	}
	w := [][]byte{sig}
	if scriptPath {
		w = append(w, tapScript, tapControl)
		if g.chance(10) {
			w[2] = append(append([]byte{}, tapControl...), g.bytesN(32, 32)...) // a merkle path that does not fit
		}
	}
	if g.chance(30) {
		w = append(w, append([]byte{0x50}, g.bytesN(0, 20)...)) // annex
	}
	return w
}

// taprootSpendScenario reaches script verification in the mempool with taproot spends: T1 (spending a
// start-up output) creates 2..3 outputs locked to tapPk and is admitted; T2 spends them (as inputs that
// live in the mempool) together with 0..2 other start-up outputs, by key path or script path, with the
// taproot inputs placed before / at / behind the number of its outputs.
func (g *G) taprootSpendScenario() []msg {
	e := g.e
	var plain []spendable
	for j, sp := range e.spend {
		if sp.Kind == "true" && !g.spentAt[j] {
			plain = append(plain, sp)
			g.spentAt[j] = true
		}
	}
	nt := g.n(2, 3, "ntapout")
	t1 := &wire.Tx{Version: 2, In: []wire.TxIn{{PrevHash: plain[0].TxID, PrevIndex: plain[0].Vout, Sequence: 0xffffffff}}}
	for i := 0; i < nt; i++ {
		t1.Out = append(t1.Out, wire.TxOut{Value: (plain[0].Value - 5000) / uint64(nt), PkScript: tapPk})
	}
	id1 := t1.TxID()
	t2 := &wire.Tx{Version: 2}
	var total uint64
	for i, n := 0, g.n(0, 2, "nplainin"); i < n; i++ {
		t2.In = append(t2.In, wire.TxIn{PrevHash: plain[1+i].TxID, PrevIndex: plain[1+i].Vout, Sequence: 0xffffffff})
		total += plain[1+i].Value
	}
	for i := 0; i < nt; i++ {
		in := wire.TxIn{PrevHash: id1, PrevIndex: uint32(i), Sequence: 0xffffffff, Witness: g.tapWitness(g.chance(40))}
		t2.In = append(t2.In, in)
		total += t1.Out[i].Value
	}
	if g.chance(30) { // taproot inputs first
		for i, j := 0, len(t2.In)-1; i < j; i, j = i+1, j-1 {
			t2.In[i], t2.In[j] = t2.In[j], t2.In[i]
		}
	}
	nout := g.n(0, len(t2.In), "ntapspendout")
	for i := 0; i < nout; i++ {
		t2.Out = append(t2.Out, wire.TxOut{Value: (total - 20000) / uint64(nout), PkScript: []byte{0x51}})
	}
	g.txs = append(g.txs, t1, t2)
	out := []msg{{Cmd: "tx", Pl: hex.EncodeToString(t1.Serialize(true)), Kind: "wf"}}
	if g.chance(20) {
		out = append(out, msg{Cmd: "ping", Pl: "0102030405060708", Kind: "wf"})
	}
	return append(out, msg{Cmd: "tx", Pl: hex.EncodeToString(t2.Serialize(true)), Kind: "wf"})
}

var clockSteps = []uint32{1, 59, 61, 600, 3599, 3600, 3601, 3700, 7200, 65535, 65536, 65537, 65536 + 3600, 65520, 72000, 131072}

// penaltyMsgs are well-formed messages that earn a handshaken peer a misbehaviour score below the ban
// threshold (100, 50, 100, 100, 100 points).
func (g *G) penaltyMsg() []msg {
	h := g.bytesN(32, 32)
	switch g.k(5) {
	case 0:
		return []msg{{Cmd: "version", Pl: hex.EncodeToString(goodVersion(77, "/Satoshi:26.0.0/", baseBlocks)), Kind: "wf"}}
	case 1:
		return []msg{{Cmd: "getaddr"}, {Cmd: "getaddr"}}
	case 2:
		return []msg{{Cmd: "blocktxn", Pl: hex.EncodeToString(append(h, 0)), Kind: "wf"}}
	case 3:
		return []msg{{Cmd: "getdata", Pl: "0104000000" + hex.EncodeToString(h), Kind: "wf"}}
	}
	// a header with a valid proof of work whose parent is unknown: 50 points
	hd := wire.Header{Version: blockVersion, Time: genesisTime + 600*(baseBlocks+1), Bits: powBits}
	copy(hd.PrevBlock[:], h)
	mine(&hd)
	return []msg{{Cmd: "headers", Pl: "01" + hex.EncodeToString(hd.Serialize()) + "00", Kind: "wf"}}
}

// clockScenario adds the time dimension: after the handshake (and an answer to the node's getheaders, so that
// no header time-out ends the connection) the peer earns 0..3 penalties, time passes (incl. 3599 / 3600 /
// 3601 s, the 16-bit wrap of the history's time stamps at 65536 s, 18.2 h, 20 h), the loop's once-a-second
// part runs, more penalties, more time ...
func (g *G) clockScenario() []msg {
	out := []msg{{Cmd: "#tick"}, {Cmd: "headers", Pl: "00", Kind: "wf"}}
	for round, n := 0, g.n(1, 3, "clockrounds"); round < n; round++ {
		k := pick(g, []int{0, 1, 1, 1, 2, 3})
		for i := 0; i < k; i++ {
			out = append(out, g.penaltyMsg()...)
		}
		for i, m := 0, g.n(1, 2, "clocksteps"); i < m; i++ {
			out = append(out, msg{Cmd: "#clock", Secs: pick(g, clockSteps), Idle: g.chance(5)}, msg{Cmd: "#tick"})
		}
	}
	return out
}

// downloadScenario drives the node into "full block requested from this very peer": the peer announces
// 1..3 new blocks on the tip (headers), says there are no more (empty headers), and the loop's periodic
// part (Tick -> GetBlockData) then sends getdata for them - GetBlockInProgress entries WITHOUT a
// compact-block collector.  What may follow is queued: blocktxn / block / cmpctblock naming exactly
// these in-progress hashes (right hash, right hash with junk, cut short).
func (g *G) downloadScenario() []msg {
	k := g.n(1, 3, "dlblocks")
	if g.chance(2) {
		k = g.n(500, 560, "dlmany") // more than one peer may have in progress (MAX_PEERS_BLOCKS_IN_PROGRESS = 500)
	}
	prev, height, tm := g.e.hashes[baseBlocks], uint32(baseBlocks), uint32(genesisTime+600*baseBlocks)
	var hp built
	hp.cs(uint64(k))
	var blocks []*wire.Block
	for i := 0; i < k; i++ {
		height++
		tm += 600
		bl := buildBlock(prev, height, tm, []byte{0xd1, byte(g.n(0, 255, "dlnonce"))}, nil)
		prev = bl.Header.Hash()
		hp.w(bl.Header.Serialize(), []byte{0})
		g.hdrs = append(g.hdrs, knownHdr{bl.Header, height})
		blocks = append(blocks, bl)
	}
	out := []msg{{Cmd: "headers", Pl: hex.EncodeToString(hp.b.Bytes()), Kind: "wf"}, {Cmd: "headers", Pl: "00", Kind: "wf"}, {Cmd: "#tick"}}
	for bi, bl := range blocks {
		if bi >= 3 {
			break
		}
		h := bl.Header.Hash()
		raw := bl.Serialize(true)
		var q built
		q.w(h[:])
		nt := g.n(0, 2, "dlbtxn")
		q.cs(uint64(nt))
		for i := 0; i < nt; i++ {
			q.w(g.tx().Serialize(true))
		}
		btx := q.b.Bytes()
		var c built
		c.w(bl.Header.Serialize(), g.bytesN(8, 8))
		c.cs(0)
		c.cs(1)
		c.cs(0)
		c.w(bl.Txs[0].Serialize(true))
		cands := []msg{
			{Cmd: "blocktxn", Pl: hex.EncodeToString(btx), Kind: "wf"},
			{Cmd: "blocktxn", Pl: hex.EncodeToString(append(append([]byte{}, h[:]...), g.bytesN(1, 20)...)), Kind: "flip"},
			{Cmd: "blocktxn", Pl: hex.EncodeToString(btx[:g.n(0, len(btx)-1, "dlcut")]), Kind: "trunc"},
			{Cmd: "block", Pl: hex.EncodeToString(raw), Kind: "wf"},
			{Cmd: "block", Pl: hex.EncodeToString(raw[:g.n(80, len(raw)-1, "dlcutb")]), Kind: "trunc"},
			{Cmd: "block", Pl: hex.EncodeToString(append(append([]byte{}, raw[:80]...), g.bytesN(20, 60)...)), Kind: "flip"},
			{Cmd: "cmpctblock", Pl: hex.EncodeToString(c.b.Bytes()), Kind: "wf"},
		}
		// one to three of them, blocktxn first in line half of the time
		first := g.k(len(cands))
		if g.chance(50) {
			first = g.k(3)
		}
		g.follow = append(g.follow, cands[first])
		for i, n := 0, g.n(0, 2, "dlmore"); i < n; i++ {
			g.follow = append(g.follow, cands[g.k(len(cands))])
		}
	}
	return out
}

// corruptCopyScenario (serves C09's clause "a block's transaction list, ids and weight are those of the
// bytes given", in the one caller the C09 check cannot reach): a block with 2..4 transactions is announced
// (headers) and therefore wanted; peer A delivers a copy with the right header and a corrupted body (one
// transaction dropped / one appended / only the count changed - the merkle root no longer fits) and is
// banned; peer B (the next connection of the case) then delivers the genuine block.
func (g *G) corruptCopyScenario() []msg {
	e := g.e
	var txs []*wire.Tx
	for i, n := 0, g.n(1, 3, "ngenuine"); i < n; i++ {
		var sp spendable
		for {
			j := g.k(len(e.spend))
			if !g.spentAt[j] && e.spend[j].Kind != "p2wsh" {
				g.spentAt[j] = true
				sp = e.spend[j]
				break
			}
		}
		in := wire.TxIn{PrevHash: sp.TxID, PrevIndex: sp.Vout, Sequence: 0xffffffff}
		if sp.Kind == "p2sh" {
			in.ScriptSig = []byte{0x01, 0x51}
		}
		txs = append(txs, &wire.Tx{Version: 2, In: []wire.TxIn{in}, Out: []wire.TxOut{{Value: sp.Value - uint64(1000+g.n(0, 5000, "fee")), PkScript: g.script()}}})
	}
	bl := buildBlock(e.hashes[baseBlocks], baseBlocks+1, genesisTime+600*(baseBlocks+1), []byte{0xc9, byte(g.k(256))}, txs)
	genuine := bl.Serialize(true)
	var hp built
	hp.cs(1)
	hp.w(bl.Header.Serialize(), []byte{0})
	// the corrupt copy: same header, different transaction count
	cp := &wire.Block{Header: bl.Header, Txs: append([]*wire.Tx{}, bl.Txs...)}
	corrupt := genuine
	how := pick(g, []string{"drop_tx", "append_tx", "count_minus", "count_plus"})
	switch how {
	case "drop_tx":
		cp.Txs = cp.Txs[:len(cp.Txs)-1]
		corrupt = cp.Serialize(true)
	case "append_tx":
		extra := cp.Txs[len(cp.Txs)-1].Copy()
		extra.LockTime = uint32(g.n(1, 100, "extralock"))
		cp.Txs = append(cp.Txs, extra)
		corrupt = cp.Serialize(true)
	case "count_minus":
		corrupt = append([]byte{}, genuine...)
		corrupt[80]--
	case "count_plus":
		corrupt = append([]byte{}, genuine...)
		corrupt[80]++
	}
	out := []msg{{Cmd: "headers", Pl: hex.EncodeToString(hp.b.Bytes()), Kind: "wf"}}
	if g.chance(30) {
		out = append(out, msg{Cmd: "#tick"})
	}
	out = append(out, msg{Cmd: "block", Pl: hex.EncodeToString(corrupt), Kind: "corrupt_copy/" + how})
	if g.chance(30) {
		out = append(out, msg{Cmd: "ping", Pl: "0102030405060708", Kind: "wf"})
	}
	out = append(out, msg{Cmd: "block", Pl: hex.EncodeToString(genuine), Kind: "wf", Expect: "block_accepted"})
	return out
}

func (g *G) sequence(maxLen int) []msg {
	n := g.n(1, maxLen, "seqlen")
	var out []msg
	if g.chance(20) {
		out = g.downloadScenario()
		if n < len(out)+2 {
			n = len(out) + 2
		}
	}
	for len(out) < n {
		if len(g.follow) > 0 && g.chance(60) {
			i := g.n(0, len(g.follow)-1, "follow")
			out = append(out, g.follow[i])
			g.follow = append(g.follow[:i], g.follow[i+1:]...)
			continue
		}
		if g.chance(6) {
			out = append(out, msg{Cmd: "#tick"})
			continue
		}
		cmd := g.command()
		m := g.message(cmd)
		out = append(out, m)
		if cmd == "headers" && len(g.hdrs) > 0 && g.chance(40) {
			// follow-up: the announced block itself
			h := g.hdrs[len(g.hdrs)-1]
			bl := &wire.Block{Header: h.hdr, Txs: []*wire.Tx{coinbaseTx(h.height, nil)}}
			g.follow = append(g.follow, msg{Cmd: "block", Pl: hex.EncodeToString(bl.Serialize(true)), Kind: "wf"})
		}
		if cmd == "tx" && len(g.txs) > 0 && g.chance(30) {
			var q built
			q.cs(1)
			id := g.txs[len(g.txs)-1].TxID()
			q.w(le32(0x40000001), id[:])
			g.follow = append(g.follow, msg{Cmd: "getdata", Pl: hex.EncodeToString(q.b.Bytes()), Kind: "wf"})
		}
	}
	return out
}
