package c18

import (
	"encoding/json"
	"os"
	"path/filepath"
	"regexp"
	"testing"

	"verif/pbt"
)

func TestMain(m *testing.M) {
	pbt.RegisterReplay("handler_seq", replaySeq)
	pbt.RegisterReplay("truncate_everywhere", replaySeq)
	pbt.RegisterReplay("run_loop", replayRun)
	pbt.RegisterReplay("lib_entry", replayLib)
	// gocoin writes "<hash>.bin" dumps of refused compact blocks into the working directory: move to
	// the scratch directory (the coordinator process of a native fuzzing run must stay where the
	// corpus is; its workers carry -test.fuzzworker)
	worker := false
	for _, a := range os.Args {
		worker = worker || a == "-test.fuzzworker"
	}
	if os.Getenv("VERIF_FUZZING") != "1" || worker {
		os.Chdir(os.TempDir())
	}
	pbt.Main(m, "C18")
}

var binDump = regexp.MustCompile(`^[0-9a-f]{64}\.bin$`)

func cleanup() {
	if theEnv != nil && !wedged.Load() {
		theEnv.close()
	}
	if fs, err := os.ReadDir("."); err == nil {
		for _, f := range fs {
			if binDump.MatchString(f.Name()) {
				os.Remove(filepath.Join(".", f.Name()))
			}
		}
	}
}

var _ = json.Marshal
