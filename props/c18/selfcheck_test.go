package c18

import (
	"reflect"
	"testing"

	"github.com/piotrnar/gocoin/client/network"
	"github.com/piotrnar/gocoin/client/peersdb"
)

// TestAARecycleEqualsFresh checks the harness itself: a recycled connection is field by field what
// NewConnection returns (everything but the send buffer's stale content, the id and the channel identity).
func TestAARecycleEqualsFresh(t *testing.T) {
	getEnv()
	cp := startCapture()
	defer cp.stop()
	cs := seqCase{Handshake: true, Authorized: true, Incoming: true, Msgs: []msg{
		{Cmd: "ping", Pl: "0102030405060708"}, {Cmd: "sendcmpct", Pl: "010200000000000000"}, {Cmd: "#tick"},
		{Cmd: "inv", Pl: "01010000001111111111111111111111111111111111111111111111111111111111111111"},
		{Cmd: "getmpdone"}, {Cmd: "addr", Pl: "00"}, {Cmd: "feefilter", Pl: "e803000000000000"}, {Cmd: "bogus"}}}
	if err := runSeq(cs, nil); err != nil {
		t.Fatalf("plain sequence refused: %v", err)
	}
	if wedged.Load() {
		t.Skip("wedged")
	}
	if len(connPool) == 0 {
		t.Fatal("no connection was recycled")
	}
	used := connPool[len(connPool)-1]
	ad := peersdb.NewPeer(nil)
	used.VerifRecycle(ad)
	fresh := network.NewConnection(ad)
	a, b := reflect.ValueOf(used).Elem(), reflect.ValueOf(fresh).Elem()
	for i := 0; i < a.NumField(); i++ {
		name := a.Type().Field(i).Name
		switch name {
		case "sendBuf", "ConnID":
			continue
		case "GetMP":
			if a.Field(i).Len() != 0 || a.Field(i).Cap() != b.Field(i).Cap() {
				t.Errorf("field %s differs after recycling", name)
			}
			continue
		}
		if !reflect.DeepEqual(valueOf(a.Field(i)), valueOf(b.Field(i))) {
			t.Errorf("field %s differs after recycling", name)
		}
	}
}

// valueOf reads a (possibly unexported) field for comparison.
func valueOf(v reflect.Value) any {
	return reflect.NewAt(v.Type(), v.Addr().UnsafePointer()).Elem().Interface()
}
