package c18

// State preconditions "the handler's outgoing queue is at its capacity".  The bounded queues a message
// handler writes to are:
//
//   network.NetTxs (2048)      tx handler -> main thread.  Non-blocking send under txpool.TxMutex; a surplus
//                              transaction is dropped and counted (TxChannelFULL).  Variant nettxs_full: the
//                              channel is filled to capacity and nobody consumes.
//   network.NetBlocks (512)    block / cmpctblock / blocktxn handlers -> main thread.  BLOCKING send by design
//                              (back-pressure on the peer's thread; only blocks within 256 of the tip are
//                              queued, so 512 slots are never all taken in operation).  Variant
//                              netblocks_full therefore models a slow consumer, not a dead one: the channel
//                              is full and "the main thread" takes one block off every few milliseconds
//                              without needing any lock first (as main()'s select does).
//   the send buffer (16 MiB)   every answer.  SendRawMsg bans the peer when it would overflow, getdata pauses
//                              above 1/2, getmp stops above 1/4.  Variants sendbuf_full / _half / _quarter:
//                              the peer stops reading after the handshake, the buffer level sits a few bytes
//                              below the respective threshold (any ring offset).
//   txpool.GetMPInProgressTicket (1), c.GetMP (1)
//                              Variant getmp_ticket_taken: another connection holds the ticket.
//   GetBlockInProgress (500 per peer): reached through the download scenario with 500+ announced blocks.

import (
	"time"

	"github.com/piotrnar/gocoin/client/network"
	"github.com/piotrnar/gocoin/client/txpool"
)

var queueVariants = []string{"nettxs_full", "nettxs_full", "netblocks_full", "sendbuf_full", "sendbuf_half", "sendbuf_quarter", "getmp_ticket_taken"}

var (
	dummyTx    = &txpool.TxRcvd{}
	dummyBlock = &network.BlockRcvd{}
)

// applyQueues establishes the variant's state (after reset) and returns what ends it.
func applyQueues(variant string) (stop func()) {
	stop = func() {}
	switch variant {
	case "nettxs_full":
		for len(network.NetTxs) < cap(network.NetTxs) {
			network.NetTxs <- dummyTx
		}
	case "netblocks_full":
		for len(network.NetBlocks) < cap(network.NetBlocks) {
			network.NetBlocks <- dummyBlock
		}
		done := make(chan struct{})
		fin := make(chan struct{})
		go func() { // the slow main thread
			defer close(fin)
			t := time.NewTicker(3 * time.Millisecond)
			defer t.Stop()
			for {
				select {
				case <-done:
					return
				case <-t.C:
					if len(network.NetBlocks) == cap(network.NetBlocks) {
						<-network.NetBlocks
					}
				}
			}
		}()
		stop = func() { close(done); <-fin }
	case "getmp_ticket_taken":
		select {
		case txpool.GetMPInProgressTicket <- true:
		default:
		}
		network.GetMPInProgressConnID.Store(1 << 30)
	}
	return
}

// setSendLevel: the peer has stopped reading; the ring buffer holds level bytes starting at offset off.
func setSendLevel(c *network.OneConnection, variant string, off, slack int) {
	var level int
	switch variant {
	case "sendbuf_full":
		level = network.SendBufSize - 1 - slack
	case "sendbuf_half":
		level = network.SendBufSize/2 - slack
	case "sendbuf_quarter":
		level = network.SendBufSize/4 - slack
	default:
		return
	}
	if level < 0 {
		level = 0
	}
	c.Mutex.Lock()
	c.SendBufCons = off & network.SendBufMask
	c.SendBufProd = (c.SendBufCons + level) & network.SendBufMask
	c.Mutex.Unlock()
}

func peerReads(variant string) bool {
	return variant != "sendbuf_full" && variant != "sendbuf_half" && variant != "sendbuf_quarter"
}
