package c18

// Class predicates of the open known findings of C18.  A predicate looks at the generated case only
// (never at the outcome) and describes exactly the inputs the recorded defect is about.

import (
	"encoding/binary"
	"strings"

	"verif/pbt"
)

const keyAllocAhead = "C18-alloc-ahead-of-data"

// walker follows the layout of gocoin's transaction decoder (version, optional 00 01 marker, inputs,
// outputs, witness stacks, lock time) and notes whether a declared CompactSize count or length
// exceeds the number of bytes that are left - the situation in which btc.NewTx / BuildTxListExt
// allocate before any data is read (finding F10, owned by C09).  It stops at the first incoherence.
type walker struct {
	b     []byte
	pos   int
	ahead bool   // some declared value > remaining bytes
	max   uint64 // largest such value
	bad   bool
}

func (w *walker) left() int { return len(w.b) - w.pos }

func (w *walker) skip(n int) {
	if n < 0 || n > w.left() {
		w.bad = true
		w.pos = len(w.b)
		return
	}
	w.pos += n
}

// cs reads a CompactSize the way btc.VLen does (any width, no canonicality); unit is the minimal
// number of bytes one counted element occupies (1 for byte lengths).
func (w *walker) cs(unit int) uint64 {
	if w.bad || w.left() < 1 {
		w.bad = true
		return 0
	}
	var v uint64
	n := 1
	switch w.b[w.pos] {
	case 0xfd:
		n = 3
	case 0xfe:
		n = 5
	case 0xff:
		n = 9
	}
	if w.left() < n {
		w.bad = true
		return 0
	}
	switch n {
	case 1:
		v = uint64(w.b[w.pos])
	case 3:
		v = uint64(binary.LittleEndian.Uint16(w.b[w.pos+1:]))
	case 5:
		v = uint64(binary.LittleEndian.Uint32(w.b[w.pos+1:]))
	default:
		v = binary.LittleEndian.Uint64(w.b[w.pos+1:])
	}
	w.pos += n
	if v > uint64(w.left()/unit) {
		w.ahead = true
		if v > w.max {
			w.max = v
		}
		w.bad = true // the decoder cannot get past this point either
	}
	return v
}

// num reads a CompactSize that is a plain number (no allocation follows from it).
func (w *walker) num() {
	if w.bad || w.left() < 1 {
		w.bad = true
		return
	}
	n := 1
	switch w.b[w.pos] {
	case 0xfd:
		n = 3
	case 0xfe:
		n = 5
	case 0xff:
		n = 9
	}
	w.skip(n)
}

func (w *walker) tx() {
	w.skip(4)
	segwit := false
	if w.left() >= 2 && w.b[w.pos] == 0 && w.b[w.pos+1] == 1 {
		segwit = true
		w.pos += 2
	}
	nin := w.cs(1)
	for i := uint64(0); i < nin && !w.bad; i++ {
		w.skip(36)
		w.skip(int(w.cs(1)))
		w.skip(4)
	}
	nout := w.cs(1)
	for i := uint64(0); i < nout && !w.bad; i++ {
		w.skip(8)
		w.skip(int(w.cs(1)))
	}
	if segwit {
		for i := uint64(0); i < nin && !w.bad; i++ {
			k := w.cs(1)
			for j := uint64(0); j < k && !w.bad; j++ {
				w.skip(int(w.cs(1)))
			}
		}
	}
	w.skip(4)
}

// allocAhead reports whether the payload of a transaction-bearing message declares more than it holds,
// and the largest such declaration.
func allocAhead(cmd string, pl []byte) (bool, uint64) {
	w := &walker{b: pl}
	switch cmd {
	case "tx":
		w.tx()
	case "block":
		w.skip(80)
		n := w.cs(1)
		for i := uint64(0); i < n && !w.bad; i++ {
			w.tx()
		}
	case "blocktxn":
		w.skip(32)
		n := w.cs(1)
		for i := uint64(0); i < n && !w.bad; i++ {
			w.tx()
		}
	case "cmpctblock":
		w.skip(88)
		w.skip(6 * int(w.cs(6)))
		n := w.cs(1)
		for i := uint64(0); i < n && !w.bad; i++ {
			w.num() // differential index: a number, not a length
			w.tx()
		}
	default:
		return false, 0
	}
	return w.ahead, w.max
}

// unsafeToRun: while the allocation finding is open, a case that would make the node allocate more
// than 256 MiB ahead of the data is not executed at all - running it can abort the whole process
// (the Go runtime's out-of-memory abort cannot be caught), which is precisely the recorded defect.
func unsafeToRun(msgs []msg) bool {
	if !pbt.FindingOpen(keyAllocAhead) {
		return false
	}
	for i := range msgs {
		if yes, max := allocAhead(msgs[i].Cmd, msgs[i].payload()); yes && max > 1<<25 {
			return true
		}
	}
	return false
}

// knownClass returns the key of the open finding whose class the failing case falls into ("" = none).
func knownClass(msgs []msg, err error) string {
	if pbt.FindingOpen(keyAllocAhead) {
		for i := range msgs {
			if yes, _ := allocAhead(msgs[i].Cmd, msgs[i].payload()); yes &&
				(strings.Contains(err.Error(), "MiB allocated") || strings.Contains(err.Error(), "makeslice") || strings.Contains(err.Error(), "out of memory")) {
				return keyAllocAhead
			}
		}
	}
	return ""
}
