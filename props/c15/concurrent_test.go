package c15

// The encoders and decoders are library functions that the client calls from several goroutines at once (WebUI
// handlers listing addresses, the wallet index).  The property's round trip must hold for every input however the
// calls are scheduled: a case here is a BATCH of scripts, address strings and WIF strings; every goroutine runs the
// sequential oracles (checkScript / checkString / checkWIF, i.e. the comparison with the reference) over the whole
// batch, all goroutines starting at the same moment.  A disagreement that the sequential tests of the same inputs do
// not show is a function that keeps shared state.

import (
	"encoding/json"
	"fmt"
	"runtime/debug"
	"sync"
	"testing"

	"pgregory.net/rapid"
	"verif/pbt"
)

type concCase struct {
	Workers int          `json:"workers"`
	Rounds  int          `json:"rounds"`
	Scripts []scriptCase `json:"scripts"`
	Strings []strCase    `json:"strings"`
	WIFs    []strCase    `json:"wifs"`
}

func init() {
	pbt.RegisterReplay("concurrent_use", func(raw json.RawMessage) error {
		var c concCase
		if err := json.Unmarshal(raw, &c); err != nil {
			return err
		}
		// a schedule-dependent failure may need a few attempts to show again
		var err error
		for i := 0; i < 20 && err == nil; i++ {
			err = checkConcurrent(c)
		}
		return err
	})
}

func checkBatch(c concCase) error {
	for _, s := range c.Scripts {
		if err := checkScript(s); err != nil {
			return err
		}
	}
	for _, s := range c.Strings {
		if err := checkString(s); err != nil {
			return err
		}
	}
	for _, s := range c.WIFs {
		if err := checkWIF(s); err != nil {
			return err
		}
	}
	return nil
}

func checkConcurrent(c concCase) error {
	// the batch must be fine when handled by one goroutine: then whatever fails below is due to the concurrency
	if err := checkBatch(c); err != nil {
		return fmt.Errorf("sequentially: %v", err)
	}
	start := make(chan struct{})
	errs := make([]error, c.Workers)
	var wg sync.WaitGroup
	for w := 0; w < c.Workers; w++ {
		wg.Add(1)
		go func(w int) {
			defer wg.Done()
			defer func() {
				if p := recover(); p != nil {
					errs[w] = fmt.Errorf("panic: %v\n%s", p, debug.Stack())
				}
			}()
			<-start
			for r := 0; r < c.Rounds && errs[w] == nil; r++ {
				errs[w] = checkBatch(c)
			}
		}(w)
	}
	close(start)
	wg.Wait()
	for w, e := range errs {
		if e != nil {
			return fmt.Errorf("with %d goroutines using the functions at the same time (worker %d), although one goroutine alone handles the same inputs correctly: %v", c.Workers, w, e)
		}
	}
	return nil
}

func TestConcurrentUse(t *testing.T) {
	pbt.Check(t, pbt.Cfg{Name: "concurrent_use", Quick: 1600, Thorough: 40000}, func(r *pbt.Run) {
		c := concCase{Workers: rapid.IntRange(2, 8).Draw(r.T, "workers"), Rounds: rapid.IntRange(2, 6).Draw(r.T, "rounds")}
		for i, n := 0, rapid.IntRange(4, 24).Draw(r.T, "nscripts"); i < n; i++ {
			c.Scripts = append(c.Scripts, genScript(r.T))
		}
		for i, n := 0, rapid.IntRange(0, 12).Draw(r.T, "nstrings"); i < n; i++ {
			c.Strings = append(c.Strings, genString(r.T))
		}
		for i, n := 0, rapid.IntRange(2, 12).Draw(r.T, "nwifs"); i < n; i++ {
			c.WIFs = append(c.WIFs, genWIF(r.T))
		}
		r.Case(c)
		r.Class(fmt.Sprintf("workers=%d", c.Workers))
		enc := 0
		for _, s := range c.Scripts {
			if s.Kind == "p2pkh" || s.Kind == "p2sh" {
				enc++
			}
		}
		if enc >= 2 {
			r.Class("several_base58_encodings_in_flight")
			r.NonTrivial()
		}
		if err := checkConcurrent(c); err != nil {
			r.Failf("%v", err)
		}
	})
}
