package c15

import (
	"bytes"
	"encoding/hex"
	"encoding/json"
	"fmt"
	"math/big"
	"strings"
	"testing"
	"unicode/utf8"

	"github.com/piotrnar/gocoin/lib/btc"
	"github.com/piotrnar/gocoin/lib/others/ltc"
	"pgregory.net/rapid"
	"verif/pbt"
	"verif/ref/addr"
)

func TestMain(m *testing.M) {
	pbt.RegisterReplay("script_roundtrip", func(raw json.RawMessage) error {
		var c scriptCase
		if err := json.Unmarshal(raw, &c); err != nil {
			return err
		}
		return checkScript(c)
	})
	pbt.RegisterReplay("string_decode", func(raw json.RawMessage) error {
		var c strCase
		if err := json.Unmarshal(raw, &c); err != nil {
			return err
		}
		return checkString(c)
	})
	pbt.RegisterReplay("wif", func(raw json.RawMessage) error {
		var c strCase
		if err := json.Unmarshal(raw, &c); err != nil {
			return err
		}
		return checkWIF(c)
	})
	pbt.Main(m, "C15")
}

// ---------------------------------------------------------------------------------------------
// oracle 1: script -> address -> script

type scriptCase struct {
	Script  string `json:"script"` // hex
	Testnet bool   `json:"testnet"`
	Kind    string `json:"kind"`
}

// refEncode returns the address string the reference assigns to a script ("" = no address).
// P2PK scripts are deliberately outside: gocoin maps them to the P2PKH address of the key, which
// is a wallet convention, not an encoding of that script.
func refEncode(s []byte, testnet bool) string {
	hrp := "bc"
	if testnet {
		hrp = "tb"
	}
	if len(s) >= 4 && len(s) <= 42 && (s[0] == 0 || s[0] >= 0x51 && s[0] <= 0x60) && int(s[1]) == len(s)-2 {
		v := 0
		if s[0] != 0 {
			v = int(s[0]) - 0x50
		}
		return addr.SegwitEncode(hrp, v, s[2:])
	}
	if len(s) == 25 && s[0] == 0x76 && s[1] == 0xa9 && s[2] == 20 && s[23] == 0x88 && s[24] == 0xac {
		v := byte(0)
		if testnet {
			v = 111
		}
		return addr.Base58CheckEncode(append([]byte{v}, s[3:23]...))
	}
	if len(s) == 23 && s[0] == 0xa9 && s[1] == 20 && s[22] == 0x87 {
		v := byte(5)
		if testnet {
			v = 196
		}
		return addr.Base58CheckEncode(append([]byte{v}, s[2:22]...))
	}
	return ""
}

func isP2PK(s []byte) bool {
	return len(s) == 67 && s[0] == 0x41 && s[66] == 0xac || len(s) == 35 && s[0] == 0x21 && s[34] == 0xac
}

func checkScript(c scriptCase) error {
	s, _ := hex.DecodeString(c.Script)
	want := refEncode(s, c.Testnet)
	a := btc.NewAddrFromPkScript(s, c.Testnet)
	if want == "" {
		if a == nil {
			return nil
		}
		if isP2PK(s) {
			return nil // P2PK -> key-hash address is a wallet convention, outside the property
		}
		// an address was produced for a script the reference has no address for: at the very least
		// it must denote that script
		str := a.String()
		d, ok := addr.Decode(str)
		if !ok || !bytes.Equal(d.Script(), s) {
			return fmt.Errorf("script %x has no address, yet got %q which does not denote it", s, str)
		}
		return nil
	}
	if a == nil {
		return fmt.Errorf("script %x: no address, reference says %s", s, want)
	}
	got := a.String()
	if got != want {
		return fmt.Errorf("script %x encodes to %q, reference %q", s, got, want)
	}
	b, err := btc.NewAddrFromString(got)
	if err != nil || b == nil {
		return fmt.Errorf("own encoding %q of script %x is refused: %v", got, s, err)
	}
	if out := b.OutScript(); !bytes.Equal(out, s) {
		return fmt.Errorf("script %x -> %q -> script %x", s, got, out)
	}
	return checkLtc(s, c.Testnet)
}

// Litecoin mode of the wallet (-ltc): the address shown for an output script comes from ltc.NewAddrFromPkScript, which
// only swaps the version byte.  Whatever byte it picks, the string it shows must denote the script: typed back in,
// it gives the same output script - and so does the address object itself.
func checkLtc(s []byte, testnet bool) error {
	a := ltc.NewAddrFromPkScript(s, testnet)
	if a == nil {
		return fmt.Errorf("litecoin mode: script %x has an address in bitcoin mode but none in litecoin mode", s)
	}
	if out := a.OutScript(); !bytes.Equal(out, s) {
		return fmt.Errorf("litecoin mode: address object for script %x (version byte %d) gives output script %x", s, a.Version, out)
	}
	str := a.String()
	b, err := btc.NewAddrFromString(str)
	if err != nil || b == nil {
		return fmt.Errorf("litecoin mode: own encoding %q of script %x is refused: %v", str, s, err)
	}
	if out := b.OutScript(); !bytes.Equal(out, s) {
		return fmt.Errorf("litecoin mode: script %x -> %q -> script %x", s, str, out)
	}
	if pl, ok := addr.Base58CheckDecode(str); a.SegwitProg == nil && (!ok || !bytes.Equal(pl, append([]byte{a.Version}, a.Hash160[:]...))) {
		return fmt.Errorf("litecoin mode: %q does not carry version byte %d and the hash of script %x", str, a.Version, s)
	}
	return nil
}

func genScript(t *rapid.T) scriptCase {
	kind := rapid.SampledFrom([]string{"p2pkh", "p2sh", "wit_legal", "wit_any", "lookalike"}).Draw(t, "kind")
	testnet := rapid.Bool().Draw(t, "testnet")
	var s []byte
	switch kind {
	case "p2pkh":
		h := rapid.SliceOfN(rapid.Byte(), 20, 20).Draw(t, "h")
		s = append(append([]byte{0x76, 0xa9, 20}, h...), 0x88, 0xac)
	case "p2sh":
		h := rapid.SliceOfN(rapid.Byte(), 20, 20).Draw(t, "h")
		s = append(append([]byte{0xa9, 20}, h...), 0x87)
	case "wit_legal":
		v := rapid.IntRange(0, 16).Draw(t, "ver")
		n := rapid.IntRange(2, 40).Draw(t, "len")
		if v == 0 {
			n = rapid.SampledFrom([]int{20, 32}).Draw(t, "len0")
		}
		s = addr.WitnessScript(v, rapid.SliceOfN(rapid.Byte(), n, n).Draw(t, "prog"))
	case "wit_any":
		v := rapid.IntRange(0, 16).Draw(t, "ver")
		n := rapid.IntRange(0, 42).Draw(t, "len")
		s = addr.WitnessScript(v, rapid.SliceOfN(rapid.Byte(), n, n).Draw(t, "prog"))
	default:
		base := rapid.SampledFrom([]int{0, 1, 2}).Draw(t, "base")
		h := rapid.SliceOfN(rapid.Byte(), 20, 20).Draw(t, "h")
		switch base {
		case 0:
			s = append(append([]byte{0x76, 0xa9, 20}, h...), 0x88, 0xac)
		case 1:
			s = append(append([]byte{0xa9, 20}, h...), 0x87)
		default:
			s = addr.WitnessScript(rapid.IntRange(0, 16).Draw(t, "v"), h)
		}
		switch rapid.IntRange(0, 3).Draw(t, "how") {
		case 0:
			i := rapid.IntRange(0, len(s)-1).Draw(t, "pos")
			s[i] ^= byte(rapid.IntRange(1, 255).Draw(t, "xor"))
		case 1:
			s = append(s, rapid.Byte().Draw(t, "extra"))
		case 2:
			s = s[:len(s)-1]
		default:
			s = rapid.SliceOfN(rapid.Byte(), 0, 45).Draw(t, "raw")
		}
	}
	return scriptCase{Script: hex.EncodeToString(s), Testnet: testnet, Kind: kind}
}

func TestScriptRoundTrip(t *testing.T) {
	pbt.Check(t, pbt.Cfg{Name: "script_roundtrip", Quick: 150000, Thorough: 4000000}, func(r *pbt.Run) {
		c := genScript(r.T)
		r.Case(c)
		r.Class(c.Kind)
		s, _ := hex.DecodeString(c.Script)
		if refEncode(s, c.Testnet) != "" {
			r.Class("encodable")
			if len(s) != 22 && len(s) != 34 && len(s) != 25 && len(s) != 23 {
				r.Class("odd_program_length")
			}
		}
		r.NonTrivial() // every case is a distinct random script; trivial duplicates fall out by hashing
		if err := checkScript(c); err != nil {
			r.Failf("%v", err)
		}
	})
}

// ---------------------------------------------------------------------------------------------
// oracle 2: arbitrary strings, differential against the reference decoder

type strCase struct {
	S    string `json:"s"`    // hex of the string bytes (strings may hold any byte)
	Kind string `json:"kind"` // how it was made
}

func (c strCase) str() string { b, _ := hex.DecodeString(c.S); return string(b) }

func checkString(c strCase) error {
	s := c.str()
	want, wok := addr.Decode(s)
	a, err := btc.NewAddrFromString(s)
	gok := err == nil && a != nil
	if gok != wok {
		return fmt.Errorf("string %q: gocoin accept=%v (err=%v), reference accept=%v", s, gok, err, wok)
	}
	if !gok {
		return nil
	}
	testnet := false
	if want.Segwit {
		if a.SegwitProg == nil || a.SegwitProg.Version != want.WitVer || !bytes.Equal(a.SegwitProg.Program, want.Prog) || a.SegwitProg.HRP != want.HRP {
			return fmt.Errorf("string %q: decoded witness program differs from the reference", s)
		}
		testnet = want.HRP == "tb"
	} else {
		if a.SegwitProg != nil || a.Version != want.Version || !bytes.Equal(a.Hash160[:], want.Hash) {
			return fmt.Errorf("string %q: decoded version/hash differs from the reference", s)
		}
		testnet = want.Version == 111 || want.Version == 196
	}
	ws := want.Script()
	if ws == nil {
		// Base58 version without an output script: OutScript refuses (panics) by design, callers check the version
		// first.  What it must never do is hand back SOME script for such an address: a payment would go astray.
		var got []byte
		func() {
			defer func() { recover() }()
			got = a.OutScript()
		}()
		if got != nil {
			return fmt.Errorf("string %q (version byte %d) denotes no output script, yet OutScript returns %x", s, want.Version, got)
		}
		return nil
	}
	out := a.OutScript()
	if !bytes.Equal(out, ws) {
		return fmt.Errorf("string %q: script %x, reference %x", s, out, ws)
	}
	if want.Version == 48 {
		return nil // Litecoin version byte: re-encoding goes through the Bitcoin versions
	}
	// re-encode from the decoded script, not from the cached input string
	b := btc.NewAddrFromPkScript(out, testnet)
	if b == nil {
		return fmt.Errorf("string %q accepted, but its script %x has no address", s, out)
	}
	re := b.String()
	if want.Segwit {
		if re != strings.ToLower(s) {
			return fmt.Errorf("string %q re-encodes to %q", s, re)
		}
	} else if re != s {
		return fmt.Errorf("string %q re-encodes to %q", s, re)
	}
	return nil
}

const b32chars = "qpzry9x8gf2tvdw0s3jn54khce6mua7l"
const b58chars = "123456789ABCDEFGHJKLMNPQRSTUVWXYZabcdefghijkmnopqrstuvwxyz"

func genValidAddr(t *rapid.T) (string, string) {
	switch rapid.IntRange(0, 5).Draw(t, "vkind") {
	case 0, 1: // legal witness program
		v := rapid.IntRange(0, 16).Draw(t, "ver")
		n := rapid.IntRange(2, 40).Draw(t, "len")
		if v == 0 {
			n = rapid.SampledFrom([]int{20, 32}).Draw(t, "len0")
		}
		hrp := rapid.SampledFrom([]string{"bc", "tb"}).Draw(t, "hrp")
		s := addr.SegwitEncode(hrp, v, rapid.SliceOfN(rapid.Byte(), n, n).Draw(t, "prog"))
		if rapid.IntRange(0, 3).Draw(t, "upper") == 0 {
			s = strings.ToUpper(s)
		}
		return s, "segwit"
	case 2: // bech32 strings that are well-formed but illegal as addresses
		v := rapid.IntRange(0, 31).Draw(t, "ver")
		n := rapid.IntRange(0, 45).Draw(t, "len")
		prog := rapid.SliceOfN(rapid.Byte(), n, n).Draw(t, "prog")
		hrp := rapid.SampledFrom([]string{"bc", "tb", "BC", "bcrt", "b", "tc"}).Draw(t, "hrp")
		spec := rapid.SampledFrom([]uint32{addr.Bech32, addr.Bech32m}).Draw(t, "spec")
		// 5-bit conversion with optional bad padding
		var d []byte
		acc, bits := uint32(0), uint(0)
		for _, b := range prog {
			acc = acc<<8 | uint32(b)
			bits += 8
			for bits >= 5 {
				bits -= 5
				d = append(d, byte(acc>>bits&31))
			}
		}
		if bits > 0 {
			pad := byte(acc << (5 - bits) & 31)
			if rapid.IntRange(0, 3).Draw(t, "badpad") == 0 {
				pad |= byte(rapid.IntRange(1, 1<<(5-bits)-1).Draw(t, "padbits"))
			}
			d = append(d, pad)
		}
		if rapid.IntRange(0, 5).Draw(t, "extragroup") == 0 {
			d = append(d, 0)
		}
		lower := strings.ToLower(hrp)
		s := addr.Bech32Encode(lower, append([]byte{byte(v)}, d...), spec)
		if hrp != lower {
			s = strings.ToUpper(s)
		}
		return s, "bech32_illegal"
	case 3: // Base58Check, supported versions
		v := rapid.SampledFrom([]byte{0, 5, 111, 196, 48}).Draw(t, "ver")
		h := rapid.SliceOfN(rapid.Byte(), 20, 20).Draw(t, "h")
		if rapid.IntRange(0, 7).Draw(t, "zeros") == 0 {
			k := rapid.IntRange(1, 20).Draw(t, "nz")
			for i := 0; i < k; i++ {
				h[i] = 0
			}
		}
		return addr.Base58CheckEncode(append([]byte{v}, h...)), "base58"
	case 4: // Base58Check, any version byte
		v := rapid.Byte().Draw(t, "ver")
		if rapid.IntRange(0, 3).Draw(t, "nearver") == 0 {
			// version bytes next to the supported ones, and those of other networks the programs know about
			// (Litecoin: 48 P2PKH, 50 and 5 P2SH, 176 WIF; testnet WIF 239; mainnet WIF 128)
			v = rapid.SampledFrom([]byte{1, 4, 6, 47, 49, 50, 51, 110, 112, 128, 176, 195, 197, 239, 255}).Draw(t, "ver2")
		}
		h := rapid.SliceOfN(rapid.Byte(), 20, 20).Draw(t, "h")
		return addr.Base58CheckEncode(append([]byte{v}, h...)), "base58_anyver"
	default: // Base58Check with a payload of another length
		n := rapid.IntRange(0, 40).Draw(t, "n")
		return addr.Base58CheckEncode(rapid.SliceOfN(rapid.Byte(), n, n).Draw(t, "pl")), "base58_len"
	}
}

func mutate(t *rapid.T, s string, alphabet string) (string, int) {
	b := []byte(s)
	n := rapid.IntRange(1, 4).Draw(t, "edits")
	for i := 0; i < n; i++ {
		op := rapid.IntRange(0, 11).Draw(t, "op")
		if len(b) == 0 {
			op = 7
		}
		switch {
		case op == 11: // something in front of or behind the string: white space of all kinds, a NUL, a legal character
			pad := rapid.SampledFrom([]string{" ", "\t", "\n", "\r\n", "\u00a0", "\u2003", "\ufeff", "\x00", "\v", "\f", "  ", "=", "1", "q"}).Draw(t, "pad")
			if rapid.Bool().Draw(t, "front") {
				b = append([]byte(pad), b...)
			} else {
				b = append(b, pad...)
			}
		case op == 10: // a character outside ASCII (valid UTF-8) whose code point ends in the bits of a legal character
			p := rapid.IntRange(0, len(b)-1).Draw(t, "pos")
			ch := b[p]
			if ch >= 0x80 || rapid.Bool().Draw(t, "other") {
				ch = alphabet[rapid.IntRange(0, len(alphabet)-1).Draw(t, "ch")]
			}
			cp := rune(ch) + rapid.SampledFrom([]rune{0x80, 0x100, 0x200, 0x400, 0x1000, 0xff00, 0x10000, 0x1f400, 0x100000}).Draw(t, "plane")
			b = append(b[:p], append([]byte(string(cp)), b[p+1:]...)...)
		case op <= 4: // substitution inside the alphabet
			p := rapid.IntRange(0, len(b)-1).Draw(t, "pos")
			b[p] = alphabet[rapid.IntRange(0, len(alphabet)-1).Draw(t, "ch")]
		case op == 5: // case flip
			p := rapid.IntRange(0, len(b)-1).Draw(t, "pos")
			if b[p] >= 'a' && b[p] <= 'z' {
				b[p] -= 32
			} else if b[p] >= 'A' && b[p] <= 'Z' {
				b[p] += 32
			}
		case op == 6: // deletion
			p := rapid.IntRange(0, len(b)-1).Draw(t, "pos")
			b = append(b[:p], b[p+1:]...)
		case op == 7: // insertion
			p := rapid.IntRange(0, len(b)).Draw(t, "pos")
			ch := alphabet[rapid.IntRange(0, len(alphabet)-1).Draw(t, "ch")]
			b = append(b[:p], append([]byte{ch}, b[p:]...)...)
		case op == 8: // arbitrary byte
			p := rapid.IntRange(0, len(b)-1).Draw(t, "pos")
			b[p] = rapid.Byte().Draw(t, "byte")
		default: // swap neighbours
			if len(b) > 1 {
				p := rapid.IntRange(0, len(b)-2).Draw(t, "pos")
				b[p], b[p+1] = b[p+1], b[p]
			}
		}
	}
	return string(b), n
}

func genString(t *rapid.T) strCase {
	switch rapid.IntRange(0, 9).Draw(t, "skind") {
	case 0, 1:
		s, k := genValidAddr(t)
		return strCase{S: hex.EncodeToString([]byte(s)), Kind: "pristine/" + k}
	case 2, 3, 4, 5, 6:
		s, k := genValidAddr(t)
		al := b58chars
		if strings.HasPrefix(k, "segwit") || strings.HasPrefix(k, "bech32") {
			al = b32chars
			if rapid.IntRange(0, 3).Draw(t, "upal") == 0 && s == strings.ToUpper(s) {
				al = strings.ToUpper(al)
			}
		}
		m, _ := mutate(t, s, al)
		return strCase{S: hex.EncodeToString([]byte(m)), Kind: "mutated/" + k}
	case 7:
		n := rapid.IntRange(0, 100).Draw(t, "n")
		pre := rapid.SampledFrom([]string{"bc1", "tb1", "BC1", "Tb1", "bc1q", "bc1p", ""}).Draw(t, "pre")
		b := make([]byte, n)
		for i := range b {
			b[i] = b32chars[rapid.IntRange(0, 31).Draw(t, "c")]
		}
		return strCase{S: hex.EncodeToString([]byte(pre + string(b))), Kind: "arbitrary/bech32_alphabet"}
	case 8:
		n := rapid.IntRange(0, 60).Draw(t, "n")
		b := make([]byte, n)
		for i := range b {
			b[i] = b58chars[rapid.IntRange(0, 57).Draw(t, "c")]
		}
		return strCase{S: hex.EncodeToString(b), Kind: "arbitrary/base58_alphabet"}
	default:
		b := rapid.SliceOfN(rapid.Byte(), 0, 100).Draw(t, "raw")
		return strCase{S: hex.EncodeToString(b), Kind: "arbitrary/bytes"}
	}
}

func TestStringDecode(t *testing.T) {
	pbt.Check(t, pbt.Cfg{Name: "string_decode", Quick: 500000, Thorough: 20000000}, func(r *pbt.Run) {
		c := genString(r.T)
		r.Case(c)
		r.Class(c.Kind)
		_, ok := addr.Decode(c.str())
		if ok {
			r.Class("ref_accepts")
		} else {
			r.Class("ref_refuses")
		}
		if str := c.str(); utf8.ValidString(str) && strings.IndexFunc(str, func(r rune) bool { return r >= 0x80 }) >= 0 {
			r.Class("characters_outside_ascii_valid_utf8")
		}
		if str := c.str(); str != strings.TrimSpace(str) {
			r.Class("white_space_in_front_or_behind")
		}
		if !strings.HasPrefix(c.Kind, "pristine/segwit") && !strings.HasPrefix(c.Kind, "pristine/base58") || c.Kind == "pristine/base58_len" {
			r.NonTrivial()
		}
		if err := checkString(c); err != nil {
			r.Failf("%v", err)
		}
	})
}

// Reference-free: the BCH code detects up to 4 substitution errors in strings of up to 89
// characters, so a valid segwit address with 1..4 substituted data characters is never accepted.
func TestBech32ErrorDetection(t *testing.T) {
	pbt.RegisterReplay("bech32_errors", func(raw json.RawMessage) error {
		var c strCase
		if err := json.Unmarshal(raw, &c); err != nil {
			return err
		}
		if a, err := btc.NewAddrFromString(c.str()); err == nil && a != nil {
			return fmt.Errorf("address with substituted characters accepted: %q", c.str())
		}
		return nil
	})
	pbt.Check(t, pbt.Cfg{Name: "bech32_errors", Quick: 200000, Thorough: 5000000}, func(r *pbt.Run) {
		t := r.T
		v := rapid.IntRange(0, 16).Draw(t, "ver")
		n := rapid.IntRange(2, 40).Draw(t, "len")
		if v == 0 {
			n = rapid.SampledFrom([]int{20, 32}).Draw(t, "len0")
		}
		hrp := rapid.SampledFrom([]string{"bc", "tb"}).Draw(t, "hrp")
		s := []byte(addr.SegwitEncode(hrp, v, rapid.SliceOfN(rapid.Byte(), n, n).Draw(t, "prog")))
		k := rapid.IntRange(1, 4).Draw(t, "k")
		pos := rapid.SliceOfNDistinct(rapid.IntRange(3, len(s)-1), k, k, rapid.ID[int]).Draw(t, "pos")
		for _, p := range pos {
			old := strings.IndexByte(b32chars, s[p])
			s[p] = b32chars[(old+rapid.IntRange(1, 31).Draw(t, "delta"))%32]
		}
		c := strCase{S: hex.EncodeToString(s), Kind: fmt.Sprintf("subst%d", k)}
		r.Case(c)
		r.Class(c.Kind)
		r.NonTrivial()
		if a, err := btc.NewAddrFromString(string(s)); err == nil && a != nil {
			r.Failf("address with %d substituted characters accepted: %q", k, s)
		}
	})
}

// ---------------------------------------------------------------------------------------------
// oracle 3: WIF private keys

var curveN, _ = new(big.Int).SetString("FFFFFFFFFFFFFFFFFFFFFFFFFFFFFFFEBAAEDCE6AF48A03BBFD25E8CD0364141", 16)

func keyInRange(k []byte) bool {
	x := new(big.Int).SetBytes(k)
	return x.Sign() > 0 && x.Cmp(curveN) < 0
}

func checkWIF(c strCase) (err error) {
	s := c.str()
	ver, key, compr, wok := addr.WIFDecode(s)
	if wok && !keyInRange(key) {
		return nil // secret outside [1,n-1]: constructing the key pair panics by design; not a WIF-encoding question
	}
	if !wok {
		// also out of the domain: a payload gocoin may accept whose 32 key bytes are not a valid secret
		if pl, ok := addr.Base58CheckDecode(s); ok && len(pl) >= 33 && !keyInRange(pl[1:33]) {
			return nil
		}
	}
	pa, e := btc.DecodePrivateAddr(s)
	gok := e == nil && pa != nil
	if gok != wok {
		return fmt.Errorf("WIF %q: gocoin accept=%v (%v), reference accept=%v", s, gok, e, wok)
	}
	if !gok {
		return nil
	}
	if pa.Version != ver || !bytes.Equal(pa.Key, key) || pa.BtcAddr.IsCompressed() != compr {
		return fmt.Errorf("WIF %q: decoded (ver,key,compressed) differs from the reference", s)
	}
	if re := pa.String(); re != s {
		return fmt.Errorf("WIF %q re-encodes to %q", s, re)
	}
	return nil
}

func genWIF(t *rapid.T) strCase {
	ver := rapid.SampledFrom([]byte{0x80, 0xef, 0xb0, 0x00, 0xff}).Draw(t, "ver")
	key := rapid.SliceOfN(rapid.Byte(), 32, 32).Draw(t, "key")
	if rapid.IntRange(0, 9).Draw(t, "lead0") == 0 {
		key[0], key[1] = 0, 0
	}
	if !keyInRange(key) {
		key[0] = 1
	}
	kind := rapid.IntRange(0, 7).Draw(t, "wkind")
	switch kind {
	case 0:
		return strCase{S: hex.EncodeToString([]byte(addr.WIFEncode(ver, key, false))), Kind: "pristine/uncompressed"}
	case 1:
		return strCase{S: hex.EncodeToString([]byte(addr.WIFEncode(ver, key, true))), Kind: "pristine/compressed"}
	case 2: // 34-byte payload with a suffix other than 0x01
		suf := byte(rapid.IntRange(0, 255).Draw(t, "suffix"))
		pl := append(append([]byte{ver}, key...), suf)
		return strCase{S: hex.EncodeToString([]byte(addr.Base58CheckEncode(pl))), Kind: "suffix"}
	case 3: // other payload lengths with a right checksum
		n := rapid.IntRange(0, 40).Draw(t, "n")
		pl := append([]byte{ver}, rapid.SliceOfN(rapid.Byte(), n, n).Draw(t, "pl")...)
		if len(pl) >= 33 && !keyInRange(pl[1:33]) {
			pl[1] = 1
		}
		return strCase{S: hex.EncodeToString([]byte(addr.Base58CheckEncode(pl))), Kind: "length"}
	case 4, 5, 6:
		s := addr.WIFEncode(ver, key, rapid.Bool().Draw(t, "c"))
		m, _ := mutate(t, s, b58chars)
		return strCase{S: hex.EncodeToString([]byte(m)), Kind: "mutated"}
	default:
		return strCase{S: hex.EncodeToString(rapid.SliceOfN(rapid.Byte(), 0, 70).Draw(t, "raw")), Kind: "arbitrary"}
	}
}

func TestWIF(t *testing.T) {
	pbt.Check(t, pbt.Cfg{Name: "wif", Quick: 60000, Thorough: 1500000}, func(r *pbt.Run) {
		c := genWIF(r.T)
		r.Case(c)
		r.Class(c.Kind)
		if !strings.HasPrefix(c.Kind, "pristine") {
			r.NonTrivial()
		}
		if err := checkWIF(c); err != nil {
			r.Failf("%v", err)
		}
	})
}

// ---------------------------------------------------------------------------------------------
// native fuzz target (thorough tier): the same differential oracle on coverage-guided strings

func FuzzAddrString(f *testing.F) {
	for _, s := range []string{"BC1QW508D6QEJXTDG4Y5R3ZARVARY0C5XW7KV8F3T4", "bc1p0xlxvlhemja6c4dqv22uapctqupfhlxm9h8z3k2e72q4k9hcz7vqzk5jj0",
		"1PMycacnJaSqwwJqjawXBErnLsZ7RkXUAs", "3P14159f73E4gFr7JterCCQh9QjiTjiZrG", "tb1qrp33g0q5c5txsp9arysrx4k6zdkfs4nce4xj0gdcccefvpysxf3q0sl5k7", "bc1gmk9yu", ""} {
		f.Add(s)
	}
	f.Fuzz(func(t *testing.T, s string) {
		c := strCase{S: hex.EncodeToString([]byte(s)), Kind: "fuzz"}
		if err := checkString(c); err != nil {
			pbt.FuzzFail(t, "string_decode", c, "%v", err)
		}
	})
}
