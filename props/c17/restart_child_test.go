package c17

import (
	"bytes"
	"context"
	"encoding/json"
	"fmt"
	"os"
	"os/exec"
	"path/filepath"
	"sort"
	"strings"
	"testing"
	"time"

	"github.com/piotrnar/gocoin/client/common"
	"github.com/piotrnar/gocoin/client/wallet"
	"github.com/piotrnar/gocoin/lib/btc"
	"github.com/piotrnar/gocoin/lib/utxo"
	"pgregory.net/rapid"
	"verif/env"
	"verif/pbt"
	"verif/ref/consensus"
	"verif/sim"
)

// restart_in_new_process: the restart of the node really happens in a new process.
//
// The operation wallet_restart of the test "balances" plays the restart inside the test process: whatever state the
// packages client/wallet and client/common keep in package variables survives it.  Here the first life of the node
// (a generated history with the index on, then the clean exit: chain closed, SaveBalances) runs in the test process,
// the second life in a CHILD PROCESS (this test binary started again): it opens the directory, brings the index up the
// way client/main.go does (LoadBalances, else LoadBalancesFromUtxo), then receives 1..4 further blocks.  After the
// start and after every block the child compares the index with the projection of ITS OWN unspent set.

const childEnv = "VERIF_C17_CHILD"

var minValues = []uint64{0, 1, 1000, 100000, 50000000, 2500000000}

// compareIndex compares the balance index of this process (client/wallet) with the projection of an unspent set onto
// every address-shaped script in seen: the list of GetAllUnspent, the record's count and total (Browse), no record for
// an address without outputs, no answer for a foreign witness version, no record for anything else.
func compareIndex(seen map[string]bool, view consensus.UTXO, curMin uint64, useMapCnt uint32, emptied map[string]bool, st *stats) error {
	// projection of the unspent set onto each address
	type out struct {
		key   [36]byte
		value uint64
	}
	proj := map[string][]out{}
	for k, coin := range view {
		if seen[string(coin.Script)] && coin.Value >= curMin {
			proj[string(coin.Script)] = append(proj[string(coin.Script)], out{k, coin.Value})
		}
	}
	records := 0
	for scr := range seen {
		script := []byte(scr)
		want := proj[scr]
		sort.Slice(want, func(i, j int) bool { return bytes.Compare(want[i].key[:], want[j].key[:]) < 0 })
		got := wallet.GetAllUnspent(addrOf(script))
		st.lookups++
		var gl []out
		for _, u := range got {
			gl = append(gl, out{consensus.OutKey(u.TxPrevOut.Hash, u.TxPrevOut.Vout), u.Value})
		}
		sort.Slice(gl, func(i, j int) bool { return bytes.Compare(gl[i].key[:], gl[j].key[:]) < 0 })
		if len(gl) != len(want) {
			return fmt.Errorf("address of script %x: the index lists %d unspent outputs, the unspent set holds %d (>= %d satoshi)", script, len(gl), len(want), curMin)
		}
		var total uint64
		for i := range want {
			if gl[i] != want[i] {
				return fmt.Errorf("address of script %x: listed output %x:%d value %d, expected %x:%d value %d", script, gl[i].key[:6], gl[i].key[32], gl[i].value, want[i].key[:6], want[i].key[32], want[i].value)
			}
			total += want[i].value
		}
		if len(want) > 0 {
			st.nonEmpty++
			records++
			if emptied[scr] {
				st.emptiedAndRepaid++
				delete(emptied, scr)
			}
		} else {
			emptied[scr] = true
		}
		// the record total
		idx, uidx := wallet.Script2Idx(script)
		var recTotal uint64
		var recCount = -1
		wallet.Browse(func(t int, h wallet.OneAddrIndex, r *wallet.OneAllAddrBal) {
			if t == idx && h == uidx {
				recTotal, recCount = r.Value, r.Count()
			}
		})
		if len(want) == 0 && recCount != -1 {
			return fmt.Errorf("address of script %x has no unspent output, yet the index keeps a record (%d outputs, total %d)", script, recCount, recTotal)
		}
		if len(want) > 0 && (recCount != len(want) || recTotal != total) {
			return fmt.Errorf("address of script %x: index record says %d outputs / total %d, the unspent set gives %d / %d", script, recCount, recTotal, len(want), total)
		}
		if len(want) >= int(useMapCnt) {
			st.mapForm++
		}
		if st.peak == nil {
			st.peak = map[string]int{}
		}
		if len(want) > st.peak[scr] {
			st.peak[scr] = len(want)
		}
		if useMapCnt >= 4 && st.peak[scr] >= int(useMapCnt) && len(want) > 0 && len(want) <= int(useMapCnt)/4 {
			st.shrunkFromMap++
		}
	}
	// an address of ANOTHER witness version with the program of an indexed version-0 address denotes another
	// script (not a standard one, not indexed): asking for it must not return the version-0 address's outputs
	for scr := range seen {
		script := []byte(scr)
		v, prog, ok := consensus.WitnessProgram(script)
		if !ok || v != 0 || len(proj[scr]) == 0 {
			continue
		}
		vers := []int{2 + int(prog[0])%15}
		if len(prog) == 20 {
			vers = append(vers, 1)
		}
		for _, fv := range vers {
			foreign := &btc.BtcAddr{SegwitProg: &btc.SegwitProg{HRP: "bc", Version: fv, Program: append([]byte{}, prog...)}}
			if got := wallet.GetAllUnspent(foreign); len(got) != 0 {
				return fmt.Errorf("the address of witness version %d with program %x (script %x is not in the unspent set) is reported with %d unspent outputs - those of the version-0 address with the same program", fv, prog, foreign.OutScript(), len(got))
			}
			st.foreign++
		}
	}
	// no record for anything else
	n := 0
	wallet.Browse(func(int, wallet.OneAddrIndex, *wallet.OneAllAddrBal) { n++ })
	if n != records {
		return fmt.Errorf("the index holds %d address records, %d addresses have unspent outputs", n, records)
	}
	return nil
}

// RestartCase is a history of the first life of the node plus what the second life receives.
type RestartCase struct {
	Base Case `json:"base"` // the first life: runs to its end, then the node exits cleanly with the index on
	// Further: blocks mined after the exit; the restarted node receives them in this order
	Further []sim.Op `json:"further"`
	// NewMin >= 0: the operator edited AllBalances.MinValue before starting the node again (index into minValues)
	NewMin int `json:"new_min"`
	// Cut > 0: the save was cut short (cutSavedIndex(Cut-1)) - the start must notice and rebuild
	Cut int `json:"cut,omitempty"`
}

// handoff is what the child process reads.
type handoff struct {
	Dir       string        `json:"dir"`
	Params    sim.ParamSpec `json:"params"`
	MinValue  uint64        `json:"min_value"`
	UseMapCnt uint32        `json:"use_map_cnt"`
	Blocks    [][]byte      `json:"blocks"`
	Seen      [][]byte      `json:"seen"` // every address-shaped script any mined block pays
}

type restartStats struct {
	stats
	ranChild                                                         bool
	restored, cut, minChanged                                        bool
	paidBelow, paidAbove, spentOld, spentOldBelow, connected, reorgs int
	childLookups                                                     int
	childWall                                                        time.Duration
}

// ---------------------------------------------------------------------------------------------
// child side: the second life of the node

func nodeView(n *env.Node) consensus.UTXO {
	v := consensus.UTXO{}
	for _, e := range n.DumpUTXO() {
		v[consensus.OutKey(e.TxID, e.Vout)] = consensus.Coin{Value: e.Value, Script: e.Script, Height: e.Height, Coinbase: e.Coinbase}
	}
	return v
}

func oneLine(s string) string { return strings.ReplaceAll(strings.TrimSpace(s), "\n", " | ") }

// childMain: exit 0 = the index agreed with the unspent set at every point, 3 = first mismatch (one MISMATCH line),
// 4 = the environment failed.
func childMain(file string) int {
	say := func(f string, a ...any) { fmt.Printf("\nC17-CHILD "+f+"\n", a...) }
	var h handoff
	b, err := os.ReadFile(file)
	if err == nil {
		err = json.Unmarshal(b, &h)
	}
	if err != nil {
		say("ERROR hand-over file: %v", err)
		return 4
	}
	utxo.UTXO_WRITING_TIME_TARGET = 0 // (as sim does)
	n, err := env.Open(h.Dir, sim.Params(h.Params), env.Options{})
	if err != nil {
		say("ERROR the directory of the cleanly closed node cannot be opened: %s", oneLine(err.Error()))
		return 4
	}
	// start-up of the client: configuration, chain, then the index (client/main.go)
	common.BlockChain = n.Ch
	common.Testnet = false
	common.CFG.Testnet = false
	common.CFG.AllBalances.MinValue = h.MinValue
	common.CFG.AllBalances.UseMapCnt = h.UseMapCnt
	common.GocoinHomeDir = n.Dir
	common.Last.Mutex.Lock()
	common.Last.Block = n.Ch.LastBlock()
	common.Last.Mutex.Unlock()
	common.ApplyBalMinVal()
	if err := wallet.LoadBalances(); err != nil {
		say("PATH rebuilt (%s)", oneLine(err.Error()))
		wallet.LoadBalancesFromUtxo()
	} else {
		say("PATH restored")
	}
	if !common.Get(&common.WalletON) {
		say("MISMATCH after the start: the balance index is not on")
		return 3
	}
	seen := map[string]bool{}
	for _, s := range h.Seen {
		seen[string(s)] = true
	}
	st := &stats{}
	emptied := map[string]bool{}
	check := func(when string, view consensus.UTXO) bool {
		for _, c := range view {
			if addrOf(c.Script) != nil {
				seen[string(c.Script)] = true
			}
		}
		if err := compareIndex(seen, view, h.MinValue, h.UseMapCnt, emptied, st); err != nil {
			say("MISMATCH %s: %s", when, oneLine(err.Error()))
			return false
		}
		return true
	}
	initial := nodeView(n)
	tipHash, tipHeight := n.Tip()
	if !check(fmt.Sprintf("right after the start at block %x (height %d)", tipHash[:6], tipHeight), initial) {
		return 3
	}
	prev := initial
	var paidBelow, paidAbove, spentOld, spentOldBelow, connected, reorgs int
	for i, raw := range h.Blocks {
		_, _, derr := n.Deliver(raw)
		last := n.Ch.LastBlock()
		common.Last.Mutex.Lock()
		common.Last.Block = last
		common.Last.Mutex.Unlock()
		cur := nodeView(n)
		if last.BlockHash.Hash != tipHash {
			connected++
			if last.Parent == nil || last.Parent.BlockHash.Hash != tipHash {
				reorgs++
			}
			tipHash = last.BlockHash.Hash
		}
		for k, c := range prev {
			if _, still := cur[k]; !still && addrOf(c.Script) != nil {
				if _, old := initial[k]; old {
					spentOld++
					if c.Value < h.MinValue {
						spentOldBelow++
					}
				}
			}
		}
		for k, c := range cur {
			if _, had := prev[k]; !had && addrOf(c.Script) != nil {
				if _, old := initial[k]; !old {
					if c.Value < h.MinValue {
						paidBelow++
					} else {
						paidAbove++
					}
				}
			}
		}
		when := fmt.Sprintf("after further block %d of %d (now at %x, height %d; delivery error: %v)", i+1, len(h.Blocks), tipHash[:6], last.Height, derr)
		if !check(when, cur) {
			return 3
		}
		prev = cur
	}
	n.Close()
	say("STATS paid_below=%d paid_above=%d spent_old=%d spent_old_below=%d connected=%d reorgs=%d lookups=%d", paidBelow, paidAbove, spentOld, spentOldBelow, connected, reorgs, st.lookups)
	say("OK")
	return 0
}

// ---------------------------------------------------------------------------------------------
// parent side

func copyDir(src, dst string) error {
	return filepath.Walk(src, func(p string, info os.FileInfo, err error) error {
		if err != nil {
			return err
		}
		rel, _ := filepath.Rel(src, p)
		t := filepath.Join(dst, rel)
		if info.IsDir() {
			return os.MkdirAll(t, 0o770)
		}
		b, err := os.ReadFile(p)
		if err != nil {
			return err
		}
		return os.WriteFile(t, b, 0o660)
	})
}

func tailOf(s string, n int) string {
	if len(s) > n {
		s = s[len(s)-n:]
	}
	return s
}

// runRestart plays the first life in this process and the second one in a child process.
func runRestart(rc RestartCase, rs *restartStats) (*sim.Sim, error) {
	if rs == nil {
		rs = &restartStats{}
	}
	c := rc.Base
	ops := append([]sim.Op{}, c.Sim.Ops...)
	// the exit (index saved, chain closed, directory copied for the child), then this process opens the directory
	// again only to mine - and validate against the model - the blocks the restarted node will be given
	ops = append(ops, sim.Op{Kind: "shutdown"}, sim.Op{Kind: "reopen"})
	ops = append(ops, rc.Further...)
	c.Sim.Ops = ops

	var root, childDir string
	var minAtExit uint64
	nodesAtExit := -1
	defer func() {
		if root != "" {
			os.RemoveAll(root)
		}
	}()
	x := &ext{}
	x.onShutdown = func(s *sim.Sim, curMin uint64) error {
		// the end of client/main.go: map sizes, chain closed, then the index is saved under the name of the last block
		common.Last.Mutex.Lock()
		common.Last.Block = s.Node.Ch.LastBlock()
		common.Last.Mutex.Unlock()
		common.CFG.AllBalances.SaveBalances = true
		wallet.LAST_SAVED_FNAME = ""
		wallet.UpdateMapSizes()
		s.Node.Close()
		serr := wallet.SaveBalances()
		wallet.Disable()
		if serr != nil && os.Getenv("C17_DEBUG") != "" {
			fmt.Fprintln(os.Stderr, "C17_DEBUG SaveBalances:", serr)
		}
		if rc.Cut > 0 && serr == nil {
			rs.cut = cutSavedIndex(rc.Cut - 1)
		}
		var err error
		if root, err = os.MkdirTemp("", "c17restart"); err != nil {
			return fmt.Errorf("harness: %v", err)
		}
		childDir = filepath.Join(root, "node")
		if err = copyDir(s.Dir, childDir); err != nil {
			return fmt.Errorf("harness: copying the node's directory: %v", err)
		}
		minAtExit, nodesAtExit = curMin, len(s.Nodes)
		return nil
	}
	s, err := runExt(c, &rs.stats, x)
	if err != nil || s == nil || nodesAtExit < 0 {
		return s, err
	}

	h := handoff{Dir: childDir, Params: c.Sim.Params, MinValue: minAtExit, UseMapCnt: c.UseMapCnt}
	if rc.NewMin >= 0 {
		h.MinValue = minValues[rc.NewMin%len(minValues)]
		rs.minChanged = h.MinValue != minAtExit
	}
	for _, n := range s.Nodes[nodesAtExit:] {
		if n.Delivered {
			h.Blocks = append(h.Blocks, n.Raw)
		}
	}
	for scr := range x.seen {
		h.Seen = append(h.Seen, []byte(scr))
	}
	sort.Slice(h.Seen, func(i, j int) bool { return bytes.Compare(h.Seen[i], h.Seen[j]) < 0 })
	hf := filepath.Join(root, "handoff.json")
	hb, _ := json.Marshal(&h)
	if err := os.WriteFile(hf, hb, 0o644); err != nil {
		return s, fmt.Errorf("harness: %v", err)
	}

	t0 := time.Now()
	ctx, cancel := context.WithTimeout(context.Background(), 120*time.Second)
	defer cancel()
	cmd := exec.CommandContext(ctx, os.Args[0], "-test.run", "^$")
	cmd.Env = append(os.Environ(), childEnv+"="+hf, "VERIF_REPLAY=", "VERIF_STATS=", "VERIF_FAILDIR=")
	cmd.WaitDelay = 5 * time.Second
	ob, cerr := cmd.CombinedOutput()
	rs.childWall = time.Since(t0)
	rs.ranChild = true
	out := string(ob)
	var path, mismatch, statsLine string
	okLine := false
	// (gocoin prints progress lines that end in a carriage return only)
	for _, l := range strings.Split(strings.ReplaceAll(out, "\r", "\n"), "\n") {
		l = strings.TrimSpace(l)
		switch {
		case strings.HasPrefix(l, "C17-CHILD PATH "):
			path = strings.TrimPrefix(l, "C17-CHILD PATH ")
		case strings.HasPrefix(l, "C17-CHILD MISMATCH "):
			mismatch = strings.TrimPrefix(l, "C17-CHILD MISMATCH ")
		case strings.HasPrefix(l, "C17-CHILD STATS "):
			statsLine = strings.TrimPrefix(l, "C17-CHILD STATS ")
		case l == "C17-CHILD OK":
			okLine = true
		}
	}
	rs.restored = path == "restored"
	if os.Getenv("C17_DEBUG") != "" {
		fmt.Fprintf(os.Stderr, "C17_DEBUG child (%v, %d blocks, min %d): %v\n%s\n", rs.childWall, len(h.Blocks), h.MinValue, cerr, out)
	}
	exit := 0
	if cerr != nil {
		exit = -1
		if ee, ok := cerr.(*exec.ExitError); ok {
			exit = ee.ExitCode()
		}
	}
	how := "index " + path
	switch {
	case ctx.Err() != nil:
		return s, fmt.Errorf("hang: the node restarted in a new process (%s) did not finish within 120 s; output ends: %s", how, oneLine(tailOf(out, 600)))
	case exit == 3 && mismatch != "":
		return s, fmt.Errorf("node restarted in a new process (%s, minimum value %d): %s", how, h.MinValue, mismatch)
	case exit != 0 || !okLine:
		return s, fmt.Errorf("the node restarted in a new process (%s) died (exit %d); output ends: %s", how, exit, oneLine(tailOf(out, 900)))
	}
	fmt.Sscanf(statsLine, "paid_below=%d paid_above=%d spent_old=%d spent_old_below=%d connected=%d reorgs=%d lookups=%d",
		&rs.paidBelow, &rs.paidAbove, &rs.spentOld, &rs.spentOldBelow, &rs.connected, &rs.reorgs, &rs.childLookups)
	return s, nil
}

func registerRestartReplay() {
	pbt.RegisterReplay("restart_in_new_process", func(raw json.RawMessage) error {
		var rc RestartCase
		if err := json.Unmarshal(raw, &rc); err != nil {
			return err
		}
		s, err := runRestart(rc, nil)
		if s != nil {
			s.Close()
		}
		return err
	})
}

func genRestartCase(t *rapid.T) RestartCase {
	p := profile
	p.MinOps, p.MaxOps = 8, 25
	rc := RestartCase{Base: genCase(t, p), NewMin: -1}
	// (the same minimum values; the order favours those that have something below them)
	rc.Base.MinValue = rapid.SampledFrom([]uint64{1000, 1, 100000, 50000000, 2500000000, 0}).Draw(t, "minvalue2")
	// the blocks of the second life: on the tip (now and then on another branch), each with transactions that pay
	// the same small pool of destinations and spend whatever is spendable - outputs of the first life included; one
	// output in three carries no value, the others spread around the larger minimum values by themselves
	n := rapid.IntRange(1, 4).Draw(t, "further")
	for i := 0; i < n; i++ {
		op := sim.Op{Kind: "block", Parent: -1, DT: rapid.IntRange(0, 1199).Draw(t, "dt"), Arg: rapid.IntRange(0, 1<<12).Draw(t, "arg"),
			Commit: rapid.IntRange(0, 3).Draw(t, "commit") == 0}
		if rapid.IntRange(0, 7).Draw(t, "fork") == 0 {
			op.Parent = rapid.IntRange(-2, 3).Draw(t, "parent")
		}
		ntx := rapid.IntRange(1, 4).Draw(t, "ntx")
		for j := 0; j < ntx; j++ {
			ts := sim.GenTx(t)
			for nin := rapid.IntRange(1, 4).Draw(t, "nin"); len(ts.Ins) < nin; {
				ts.Ins = append(ts.Ins, rapid.IntRange(0, 1<<16).Draw(t, "in"))
			}
			for len(ts.Outs) < 2 {
				ts.Outs = append(ts.Outs, sim.OutSpec{Fam: rapid.IntRange(0, 17).Draw(t, "fam"), Share: rapid.IntRange(0, 99).Draw(t, "share"), N: rapid.IntRange(0, 999).Draw(t, "n")})
			}
			op.Txs = append(op.Txs, ts)
		}
		rc.Further = append(rc.Further, op)
	}
	fewDestinations(t, rc.Further, 2)
	if rapid.IntRange(0, 7).Draw(t, "newmin") == 3 {
		rc.NewMin = rapid.IntRange(0, len(minValues)-1).Draw(t, "newminvalue")
	}
	if rapid.IntRange(0, 9).Draw(t, "cut") == 3 {
		rc.Cut = 1 + rapid.IntRange(0, 9999).Draw(t, "cutarg")
	}
	return rc
}

func TestRestartInNewProcess(t *testing.T) {
	pbt.Check(t, pbt.Cfg{Name: "restart_in_new_process", Quick: 150, Thorough: 3000}, func(r *pbt.Run) {
		rc := genRestartCase(r.T)
		r.Case(rc)
		rs := &restartStats{}
		s, err := runRestart(rc, rs)
		if s != nil {
			defer s.Close()
			for _, k := range s.ExcludedKeys {
				r.Excluded(k)
			}
		}
		if rs.ranChild {
			if rs.restored {
				r.Class("index_restored_from_disk")
			} else {
				r.Class("rebuilt_from_utxo")
			}
			pbt.AddExtra("restart_child_ms", rs.childWall.Milliseconds())
		}
		if rs.paidBelow > 0 {
			r.Class("output_below_minimum_paid_after_restart")
		}
		if rs.spentOld > 0 {
			r.Class("output_spent_after_restart")
		}
		if rs.spentOldBelow > 0 {
			r.Class("below_minimum_output_spent_after_restart")
		}
		if rs.reorgs > 0 {
			r.Class("reorganisation_after_restart")
		}
		if rs.cut {
			r.Class("saved_index_cut_short_before_the_restart")
		}
		if rs.minChanged {
			r.Class("minimum_value_changed_before_the_restart")
		}
		if rs.restored && rs.paidBelow > 0 {
			r.NonTrivial()
		}
		pbt.AddExtra("address_lookups_in_restarted_node", int64(rs.childLookups))
		if x, ok := err.(*sim.Excluded); ok {
			r.Excluded(x.Key)
			return
		}
		if err != nil {
			r.Failf("%v", err)
		}
	})
}
