package c17

import (
	"bytes"
	"encoding/json"
	"fmt"
	"os"
	"path/filepath"
	"sort"
	"testing"

	"github.com/piotrnar/gocoin/client/common"
	"github.com/piotrnar/gocoin/client/wallet"
	"github.com/piotrnar/gocoin/lib/btc"
	"pgregory.net/rapid"
	"verif/env"
	"verif/pbt"
	"verif/ref/addr"
	"verif/ref/consensus"
	"verif/sim"
)

// C17: per-address balances equal the projection of the UTXO set.  The histories are C06's (block
// trees with reorganisations) with address-shaped outputs; the balance index is switched off and on at
// random points.  After every step every address ever paid is looked up.

type Case struct {
	Sim       sim.Case `json:"sim"`
	MinValue  uint64   `json:"min_value"`
	Wide      bool     `json:"wide,omitempty"` // holds a transaction with more than 65536 outputs
	UseMapCnt uint32   `json:"use_map_cnt"`
	StartOn   bool     `json:"start_on"`
}

func TestMain(m *testing.M) {
	env.Quiet()
	pbt.RegisterReplay("balances", func(raw json.RawMessage) error {
		var c Case
		if err := json.Unmarshal(raw, &c); err != nil {
			return err
		}
		_, err := run(c, nil)
		return err
	})
	pbt.Main(m, "C17")
}

type stats struct {
	lookups, nonEmpty, mapForm, reorgs, toggles, emptiedAndRepaid, restored, foreign, cutSaves int
}

// addrOf builds the address object for an address-shaped script with the reference decoder's view.
func addrOf(script []byte) *btc.BtcAddr {
	switch {
	case len(script) == 25 && script[0] == 0x76 && script[1] == 0xa9 && script[2] == 20 && script[23] == 0x88 && script[24] == 0xac:
		a := &btc.BtcAddr{Version: 0}
		copy(a.Hash160[:], script[3:23])
		return a
	case len(script) == 23 && script[0] == 0xa9 && script[1] == 20 && script[22] == 0x87:
		a := &btc.BtcAddr{Version: 5}
		copy(a.Hash160[:], script[2:22])
		return a
	}
	if v, p, ok := consensus.WitnessProgram(script); ok {
		if s := addr.SegwitEncode("bc", v, p); s != "" && (v == 0 || v == 1 && len(p) == 32) {
			return &btc.BtcAddr{SegwitProg: &btc.SegwitProg{HRP: "bc", Version: v, Program: append([]byte{}, p...)}}
		}
	}
	return nil
}

func run(c Case, st *stats) (*sim.Sim, error) {
	if st == nil {
		st = &stats{}
	}
	seen := map[string]bool{} // every address-shaped script ever paid
	emptied := map[string]bool{}
	var s *sim.Sim
	walletOn := false
	curMin := c.MinValue // the minimum value the index is (to be) built with
	enable := func() {
		common.BlockChain = s.Node.Ch
		common.Testnet = false
		common.CFG.Testnet = false
		common.CFG.AllBalances.MinValue = curMin
		common.CFG.AllBalances.UseMapCnt = c.UseMapCnt
		common.GocoinHomeDir = s.Dir + "/"
		wallet.LoadBalancesFromUtxo()
		walletOn = common.Get(&common.WalletON)
	}
	disable := func() {
		wallet.Disable()
		walletOn = false
	}
	check := func() error {
		// collect scripts paid by any mined block
		for _, n := range s.Nodes[1:] {
			for _, tx := range n.Block.Txs {
				for _, o := range tx.Out {
					if addrOf(o.PkScript) != nil {
						seen[string(o.PkScript)] = true
					}
				}
			}
		}
		if !walletOn {
			return nil
		}
		// projection of the model's unspent set onto each address
		type out struct {
			key   [36]byte
			value uint64
		}
		proj := map[string][]out{}
		for k, coin := range s.Tip.View {
			if seen[string(coin.Script)] && coin.Value >= curMin {
				proj[string(coin.Script)] = append(proj[string(coin.Script)], out{k, coin.Value})
			}
		}
		records := 0
		for scr := range seen {
			script := []byte(scr)
			want := proj[scr]
			sort.Slice(want, func(i, j int) bool { return bytes.Compare(want[i].key[:], want[j].key[:]) < 0 })
			got := wallet.GetAllUnspent(addrOf(script))
			st.lookups++
			var gl []out
			for _, u := range got {
				gl = append(gl, out{consensus.OutKey(u.TxPrevOut.Hash, u.TxPrevOut.Vout), u.Value})
			}
			sort.Slice(gl, func(i, j int) bool { return bytes.Compare(gl[i].key[:], gl[j].key[:]) < 0 })
			if len(gl) != len(want) {
				return fmt.Errorf("address of script %x: the index lists %d unspent outputs, the unspent set holds %d (>= %d satoshi)", script, len(gl), len(want), curMin)
			}
			var total uint64
			for i := range want {
				if gl[i] != want[i] {
					return fmt.Errorf("address of script %x: listed output %x:%d value %d, expected %x:%d value %d", script, gl[i].key[:6], gl[i].key[32], gl[i].value, want[i].key[:6], want[i].key[32], want[i].value)
				}
				total += want[i].value
			}
			if len(want) > 0 {
				st.nonEmpty++
				records++
				if emptied[scr] {
					st.emptiedAndRepaid++
					delete(emptied, scr)
				}
			} else {
				emptied[scr] = true
			}
			// the record total
			idx, uidx := wallet.Script2Idx(script)
			var recTotal uint64
			var recCount = -1
			wallet.Browse(func(t int, h wallet.OneAddrIndex, r *wallet.OneAllAddrBal) {
				if t == idx && h == uidx {
					recTotal, recCount = r.Value, r.Count()
				}
			})
			if len(want) == 0 && recCount != -1 {
				return fmt.Errorf("address of script %x has no unspent output, yet the index keeps a record (%d outputs, total %d)", script, recCount, recTotal)
			}
			if len(want) > 0 && (recCount != len(want) || recTotal != total) {
				return fmt.Errorf("address of script %x: index record says %d outputs / total %d, the unspent set gives %d / %d", script, recCount, recTotal, len(want), total)
			}
			if len(want) >= int(c.UseMapCnt) {
				st.mapForm++
			}
		}
		// an address of ANOTHER witness version with the program of an indexed version-0 address denotes another
		// script (not a standard one, not indexed): asking for it must not return the version-0 address's outputs
		for scr := range seen {
			script := []byte(scr)
			v, prog, ok := consensus.WitnessProgram(script)
			if !ok || v != 0 || len(proj[scr]) == 0 {
				continue
			}
			vers := []int{2 + int(prog[0])%15}
			if len(prog) == 20 {
				vers = append(vers, 1)
			}
			for _, fv := range vers {
				foreign := &btc.BtcAddr{SegwitProg: &btc.SegwitProg{HRP: "bc", Version: fv, Program: append([]byte{}, prog...)}}
				if got := wallet.GetAllUnspent(foreign); len(got) != 0 {
					return fmt.Errorf("the address of witness version %d with program %x (script %x is not in the unspent set) is reported with %d unspent outputs - those of the version-0 address with the same program", fv, prog, foreign.OutScript(), len(got))
				}
				st.foreign++
			}
		}
		// no record for anything else
		n := 0
		wallet.Browse(func(int, wallet.OneAddrIndex, *wallet.OneAllAddrBal) { n++ })
		if n != records {
			return fmt.Errorf("the index holds %d address records, %d addresses have unspent outputs", n, records)
		}
		return nil
	}
	hooks := sim.Hooks{AfterStep: func(ss *sim.Sim, op sim.Op) error {
		s = ss
		switch op.Kind {
		case "wallet_off":
			if walletOn {
				disable()
				st.toggles++
			}
		case "wallet_on":
			if !walletOn {
				enable()
				st.toggles++
			}
		case "wallet_restart":
			// node shutdown and start on the same block: the index is written to disk (SaveBalances) and read back
			// (LoadBalances; rebuilt from the unspent set if that fails - what client/main.go does)
			if walletOn {
				common.Last.Mutex.Lock()
				common.Last.Block = s.Node.Ch.LastBlock()
				common.Last.Mutex.Unlock()
				common.CFG.AllBalances.SaveBalances = true
				wallet.LAST_SAVED_FNAME = ""
				// sometimes the operator has edited the minimum value in the configuration while the node was running
				// (the node then says "restart the node or do wallet off/on"): the running index, and what is saved, is
				// still the one of the old value; after the restart the new value applies
				newMin := curMin
				if op.Arg%3 == 0 {
					newMin = []uint64{0, 1, 1000, 100000, 50000000, 2500000000}[op.Arg/3%6]
					common.CFG.AllBalances.MinValue = newMin
				}
				if err := wallet.SaveBalances(); err == nil {
					wallet.Disable()
					curMin = newMin
					// now and then the save was cut short (the process died / the disk was full while the index was
					// written at shutdown): one of the files is shorter than it should be, empty or missing.  The start
					// then has to notice and rebuild the index from the unspent set - never run with a partial one.
					if op.Arg%5 == 1 {
						if cutSavedIndex(op.Arg / 5) {
							st.cutSaves++
						}
					}
					wallet.VerifProcessRestart() // (the new process starts without any index in memory)
					common.ApplyBalMinVal()      // (start-up of the new process)
					if err := wallet.LoadBalances(); err != nil {
						if os.Getenv("C17_DEBUG") != "" {
							fmt.Fprintln(os.Stderr, "C17_DEBUG LoadBalances:", err)
						}
						wallet.LoadBalancesFromUtxo()
					} else {
						st.restored++
					}
					walletOn = common.Get(&common.WalletON)
				} else {
					common.CFG.AllBalances.MinValue = curMin // nothing was saved: the node keeps running as it was
				}
			}
		}
		return check()
	}}
	// the wallet must be wired before the first op: do it from the first hook call via a leading no-op
	cc := c.Sim
	first := "wallet_off"
	if c.StartOn {
		first = "wallet_on"
	}
	cc.Ops = append([]sim.Op{{Kind: first}}, cc.Ops...)
	if common.Get(&common.WalletON) {
		wallet.Disable() // left over from the previous case in this process
	}
	ss, err := sim.RunCaseOpen(cc, env.Options{}, hooks, pbt.FindingOpen)
	if ss != nil {
		st.reorgs = ss.Reorgs
	}
	if common.Get(&common.WalletON) {
		wallet.Disable()
	}
	return ss, err
}

// cutSavedIndex shortens (or removes) one file of the saved index: at the start of a record, right after a record's
// key, inside a record, after the first byte, before the last byte, completely.  Files that hold records are preferred.
func cutSavedIndex(arg int) bool {
	files, _ := filepath.Glob(filepath.Join(common.GocoinHomeDir, wallet.BALANCES_SUBDIR, "*", "*"))
	if len(files) == 0 {
		return false
	}
	sort.Strings(files)
	var full []string
	for _, fn := range files {
		if fi, e := os.Stat(fn); e == nil && fi.Size() > 1 {
			full = append(full, fn)
		}
	}
	if len(full) > 0 && arg%4 != 0 {
		files = full
	}
	arg /= 4
	fn := files[arg%len(files)]
	arg /= len(files)
	data, e := os.ReadFile(fn)
	if e != nil {
		return false
	}
	sz := int64(len(data))
	// record starts: CompactSize count, then per record an 8-byte key, two base-128 numbers (value, number of
	// outputs) and 12 bytes per output
	var starts []int64
	if sz > 0 && data[0] < 0xfd {
		off := int64(1)
		varint := func() (v uint64, ok bool) {
			for off < sz {
				b := data[off]
				off++
				v = v<<7 | uint64(b&0x7f)
				if b&0x80 == 0 {
					return v, true
				}
				v++
			}
			return 0, false
		}
		for n := int(data[0]); n > 0 && off < sz; n-- {
			starts = append(starts, off)
			off += 8
			if _, ok := varint(); !ok {
				break
			}
			cnt, ok := varint()
			if !ok {
				break
			}
			off += 12 * int64(cnt)
		}
	}
	cut := int64(-1)
	switch k := arg % 8; {
	case k <= 2 && len(starts) > 0: // at the start of a record (the first one: only the count is left)
		cut = starts[(arg/8)%len(starts)]
	case k == 3 && len(starts) > 0: // right after a record's key
		cut = starts[(arg/8)%len(starts)] + 8
	case k == 4 && sz > 2: // anywhere
		cut = int64(arg/8) % sz
	case k == 5:
		cut = sz - 1
	case k == 6:
		cut = 0
	}
	if cut < 0 || cut >= sz {
		os.Remove(fn)
	} else {
		os.Truncate(fn, cut)
	}
	if os.Getenv("C17_DEBUG") != "" {
		fmt.Fprintln(os.Stderr, "C17_DEBUG cut", filepath.Base(fn), "from", sz, "to", cut, "record starts", starts)
	}
	return true
}

var profile = sim.Profile{
	Forks:    true,
	Viols:    []string{"bad_script", "dup_in_block", "missing_txid"},
	ViolPct:  6,
	MaxTx:    6,
	MinOps:   10,
	MaxOps:   50,
	Prefixes: []int{100, 101, 102, 105, 110},
	IdlePct:  2,
	Signed:   true,
}

func genCase(t *rapid.T, p sim.Profile) Case {
	c := Case{Sim: sim.GenCase(t, p)}
	c.Sim.Params.Signed = true
	// few distinct destinations so that addresses collect many outputs
	for i := range c.Sim.Ops {
		for j := range c.Sim.Ops[i].Txs {
			for k := range c.Sim.Ops[i].Txs[j].Outs {
				o := &c.Sim.Ops[i].Txs[j].Outs[k]
				if f := o.Fam % 18; f == 12 || f == 13 {
					o.N = o.N/7%31*7 + o.N%3 // (scripts resembling address forms: every shape, three scripts of each)
				} else {
					o.N = o.N % 3
				}
				// now and then an output of value 0 (indexed when the minimum value is 0)
				o.Zero = rapid.IntRange(0, 9).Draw(t, "zero") == 0
			}
		}
	}
	// sprinkle index off/on switches
	var ops []sim.Op
	for _, op := range c.Sim.Ops {
		if rapid.IntRange(0, 14).Draw(t, "toggle") == 0 {
			ops = append(ops, sim.Op{Kind: rapid.SampledFrom([]string{"wallet_off", "wallet_on", "wallet_on", "wallet_restart", "wallet_restart"}).Draw(t, "which"),
				Arg: rapid.IntRange(0, 9999).Draw(t, "restartarg")})
		}
		ops = append(ops, op)
	}
	c.Sim.Ops = ops
	// one history in thirty holds a transaction whose real outputs sit behind 65534..65540 empty ones: output
	// indexes that need more than 16 bits (such a history is kept short - every model state holds those outputs)
	if rapid.IntRange(0, 29).Draw(t, "wide") == 0 {
		for i := range c.Sim.Ops {
			if op := &c.Sim.Ops[i]; op.Kind == "block" && op.Viol == "" && !op.Hold && len(op.Txs) > 0 {
				op.Txs[0].Pad = rapid.SampledFrom([]int{65534, 65535, 65536, 65540}).Draw(t, "pad")
				op.Parent = -1
				if len(c.Sim.Ops) > i+9 {
					c.Sim.Ops = c.Sim.Ops[:i+9]
				}
				c.Wide = true
				break
			}
		}
	}
	c.MinValue = rapid.SampledFrom([]uint64{0, 1, 1000, 100000, 50000000, 2500000000}).Draw(t, "minvalue")
	c.UseMapCnt = uint32(rapid.SampledFrom([]int{2, 3, 3, 5, 200}).Draw(t, "usemapcnt"))
	c.StartOn = rapid.IntRange(0, 3).Draw(t, "starton") != 0
	return c
}

func TestBalances(t *testing.T) {
	p := profile
	if pbt.Tier() == "thorough" {
		p.MaxTx, p.MaxOps = 12, 120
	}
	pbt.Check(t, pbt.Cfg{Name: "balances", Quick: 1000, Thorough: 10000}, func(r *pbt.Run) {
		c := genCase(r.T, p)
		r.Case(c)
		st := &stats{}
		s, err := run(c, st)
		if s != nil {
			defer s.Close()
			for _, k := range s.ExcludedKeys {
				r.Excluded(k)
			}
		}
		if st.reorgs > 0 {
			r.Class("reorg")
		}
		if c.Wide {
			r.Class("transaction_with_more_than_65536_outputs")
		}
		if c.MinValue == 0 {
			r.Class("minimum_value_0")
		}
		if st.emptiedAndRepaid > 0 {
			r.Class("address_emptied_then_paid_again")
		}
		if st.reorgs > 0 && st.emptiedAndRepaid > 0 {
			r.NonTrivial()
		}
		if st.mapForm > 0 {
			r.Class("map_form_reached")
		}
		if st.toggles > 1 {
			r.Class("index_toggled")
		}
		if st.cutSaves > 0 {
			r.Class("saved_index_cut_short_before_the_restart")
		}
		if st.restored > 0 {
			r.Class("index_saved_and_restored")
		}
		pbt.AddExtra("address_lookups", int64(st.lookups))
		pbt.AddExtra("foreign_witness_version_lookups", int64(st.foreign))
		pbt.AddExtra("non_empty_lookups", int64(st.nonEmpty))
		if x, ok := err.(*sim.Excluded); ok {
			r.Excluded(x.Key)
			return
		}
		if err != nil {
			r.Failf("%v", err)
		}
	})
}
