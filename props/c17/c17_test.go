package c17

import (
	"encoding/json"
	"fmt"
	"os"
	"path/filepath"
	"sort"
	"testing"

	"github.com/piotrnar/gocoin/client/common"
	"github.com/piotrnar/gocoin/client/wallet"
	"github.com/piotrnar/gocoin/lib/btc"
	"pgregory.net/rapid"
	"verif/env"
	"verif/pbt"
	"verif/ref/addr"
	"verif/ref/consensus"
	"verif/sim"
)

// C17: per-address balances equal the projection of the UTXO set.  The histories are C06's (block
// trees with reorganisations) with address-shaped outputs; the balance index is switched off and on at
// random points.  After every step every address ever paid is looked up.

type Case struct {
	Sim       sim.Case `json:"sim"`
	MinValue  uint64   `json:"min_value"`
	Wide      bool     `json:"wide,omitempty"` // holds a transaction with more than 65536 outputs
	UseMapCnt uint32   `json:"use_map_cnt"`
	StartOn   bool     `json:"start_on"`
}

func TestMain(m *testing.M) {
	env.Quiet()
	if f := os.Getenv(childEnv); f != "" {
		// the restarted node of restart_in_new_process (restart_child_test.go): never reaches the tests
		os.Exit(childMain(f))
	}
	registerRestartReplay()
	pbt.RegisterReplay("balances", func(raw json.RawMessage) error {
		var c Case
		if err := json.Unmarshal(raw, &c); err != nil {
			return err
		}
		_, err := run(c, nil)
		return err
	})
	pbt.Main(m, "C17")
}

type stats struct {
	lookups, nonEmpty, mapForm, reorgs, toggles, emptiedAndRepaid, restored, foreign, cutSaves, reloads int
	// an address that held >= UseMapCnt outputs (map form) and is now down to 1..UseMapCnt/4 of them
	shrunkFromMap int
	peak          map[string]int
}

// addrOf builds the address object for an address-shaped script with the reference decoder's view.
func addrOf(script []byte) *btc.BtcAddr {
	switch {
	case len(script) == 25 && script[0] == 0x76 && script[1] == 0xa9 && script[2] == 20 && script[23] == 0x88 && script[24] == 0xac:
		a := &btc.BtcAddr{Version: 0}
		copy(a.Hash160[:], script[3:23])
		return a
	case len(script) == 23 && script[0] == 0xa9 && script[1] == 20 && script[22] == 0x87:
		a := &btc.BtcAddr{Version: 5}
		copy(a.Hash160[:], script[2:22])
		return a
	}
	if v, p, ok := consensus.WitnessProgram(script); ok {
		if s := addr.SegwitEncode("bc", v, p); s != "" && (v == 0 || v == 1 && len(p) == 32) {
			return &btc.BtcAddr{SegwitProg: &btc.SegwitProg{HRP: "bc", Version: v, Program: append([]byte{}, p...)}}
		}
	}
	return nil
}

func run(c Case, st *stats) (*sim.Sim, error) { return runExt(c, st, nil) }

// ext is what restart_in_new_process adds to a run: the operation "shutdown" (the index is on, the node is about to
// exit) is handed to onShutdown, which saves the index, closes the node and leaves the index switched off.
type ext struct {
	seen       map[string]bool // (out) every address-shaped script paid by any mined block
	onShutdown func(s *sim.Sim, curMin uint64) error
}

func runExt(c Case, st *stats, x *ext) (*sim.Sim, error) {
	if st == nil {
		st = &stats{}
	}
	seen := map[string]bool{} // every address-shaped script ever paid
	if x != nil {
		x.seen = seen
	}
	emptied := map[string]bool{}
	var s *sim.Sim
	walletOn := false
	curMin := c.MinValue // the minimum value the index is (to be) built with
	// a minimum value edited in the configuration at run time (config_reload) waits for the next wallet off/on or restart
	pendingMin, pending := uint64(0), false
	enable := func() {
		common.BlockChain = s.Node.Ch
		common.Testnet = false
		common.CFG.Testnet = false
		if pending {
			curMin, pending = pendingMin, false
		}
		common.CFG.AllBalances.MinValue = curMin
		common.CFG.AllBalances.UseMapCnt = c.UseMapCnt
		common.GocoinHomeDir = s.Dir + "/"
		wallet.LoadBalancesFromUtxo()
		walletOn = common.Get(&common.WalletON)
	}
	disable := func() {
		wallet.Disable()
		walletOn = false
	}
	check := func() error {
		// collect scripts paid by any mined block
		for _, n := range s.Nodes[1:] {
			for _, tx := range n.Block.Txs {
				for _, o := range tx.Out {
					if addrOf(o.PkScript) != nil {
						seen[string(o.PkScript)] = true
					}
				}
			}
		}
		if !walletOn {
			return nil
		}
		return compareIndex(seen, s.Tip.View, curMin, c.UseMapCnt, emptied, st)
	}
	hooks := sim.Hooks{AfterStep: func(ss *sim.Sim, op sim.Op) error {
		s = ss
		switch op.Kind {
		case "wallet_off":
			if walletOn {
				disable()
				st.toggles++
			}
		case "wallet_on":
			if !walletOn {
				enable()
				st.toggles++
			}
		case "config_reload":
			// the operator edits the minimum value and reloads the configuration at run time (text UI configload /
			// configset, the WebUI's configuration page - all end in common.Reset()): the node says "restart the node or
			// do wallet off / wallet on"; until then the running index keeps working with the value it was built with
			pendingMin, pending = []uint64{0, 1, 1000, 100000, 50000000, 2500000000}[op.Arg%6], true
			common.CFG.AllBalances.MinValue = pendingMin
			if common.CFG.Memory.GCPercTrshold == 0 {
				common.CFG.Memory.GCPercTrshold = 100 // (the default of the configuration, which is not loaded here)
			}
			common.Reset()
			st.reloads++
		case "wallet_restart":
			// node shutdown and start on the same block: the index is written to disk (SaveBalances) and read back
			// (LoadBalances; rebuilt from the unspent set if that fails - what client/main.go does)
			if walletOn {
				common.Last.Mutex.Lock()
				common.Last.Block = s.Node.Ch.LastBlock()
				common.Last.Mutex.Unlock()
				common.CFG.AllBalances.SaveBalances = true
				wallet.LAST_SAVED_FNAME = ""
				// sometimes the operator has edited the minimum value in the configuration while the node was running
				// (the node then says "restart the node or do wallet off/on"): the running index, and what is saved, is
				// still the one of the old value; after the restart the new value applies
				newMin := curMin
				if pending {
					newMin = pendingMin
				}
				if op.Arg%3 == 0 {
					newMin = []uint64{0, 1, 1000, 100000, 50000000, 2500000000}[op.Arg/3%6]
					common.CFG.AllBalances.MinValue = newMin
				}
				if err := wallet.SaveBalances(); err == nil {
					wallet.Disable()
					curMin, pending = newMin, false
					// now and then the save was cut short (the process died / the disk was full while the index was
					// written at shutdown): one of the files is shorter than it should be, empty or missing.  The start
					// then has to notice and rebuild the index from the unspent set - never run with a partial one.
					if op.Arg%5 == 1 {
						if cutSavedIndex(op.Arg / 5) {
							st.cutSaves++
						}
					}
					wallet.VerifProcessRestart() // (the new process starts without any index in memory)
					common.ApplyBalMinVal()      // (start-up of the new process)
					if err := wallet.LoadBalances(); err != nil {
						if os.Getenv("C17_DEBUG") != "" {
							fmt.Fprintln(os.Stderr, "C17_DEBUG LoadBalances:", err)
						}
						wallet.LoadBalancesFromUtxo()
					} else {
						st.restored++
					}
					walletOn = common.Get(&common.WalletON)
				} else {
					common.CFG.AllBalances.MinValue = curMin // nothing was saved: the node keeps running as it was
					pending = false
				}
			}
		case "shutdown":
			// restart_in_new_process: the node (index on) exits here; what follows in this process only produces the
			// blocks the restarted node is going to receive
			if x != nil && x.onShutdown != nil {
				if !walletOn {
					enable()
				}
				if err := check(); err != nil {
					return fmt.Errorf("before the shutdown: %v", err)
				}
				common.CFG.AllBalances.MinValue, pending = curMin, false
				err := x.onShutdown(s, curMin)
				walletOn = common.Get(&common.WalletON)
				if err != nil {
					return err
				}
			}
		}
		return check()
	}}
	// the wallet must be wired before the first op: do it from the first hook call via a leading no-op
	cc := c.Sim
	first := "wallet_off"
	if c.StartOn {
		first = "wallet_on"
	}
	cc.Ops = append([]sim.Op{{Kind: first}}, cc.Ops...)
	if common.Get(&common.WalletON) {
		wallet.Disable() // left over from the previous case in this process
	}
	ss, err := sim.RunCaseOpen(cc, env.Options{}, hooks, pbt.FindingOpen)
	if ss != nil {
		st.reorgs = ss.Reorgs
	}
	if common.Get(&common.WalletON) {
		wallet.Disable()
	}
	return ss, err
}

// cutSavedIndex shortens (or removes) one file of the saved index: at the start of a record, right after a record's
// key, inside a record, after the first byte, before the last byte, completely.  Files that hold records are preferred.
func cutSavedIndex(arg int) bool {
	files, _ := filepath.Glob(filepath.Join(common.GocoinHomeDir, wallet.BALANCES_SUBDIR, "*", "*"))
	if len(files) == 0 {
		return false
	}
	sort.Strings(files)
	var full []string
	for _, fn := range files {
		if fi, e := os.Stat(fn); e == nil && fi.Size() > 1 {
			full = append(full, fn)
		}
	}
	if len(full) > 0 && arg%4 != 0 {
		files = full
	}
	arg /= 4
	fn := files[arg%len(files)]
	arg /= len(files)
	data, e := os.ReadFile(fn)
	if e != nil {
		return false
	}
	sz := int64(len(data))
	// record starts: CompactSize count, then per record an 8-byte key, two base-128 numbers (value, number of
	// outputs) and 12 bytes per output
	var starts []int64
	if sz > 0 && data[0] < 0xfd {
		off := int64(1)
		varint := func() (v uint64, ok bool) {
			for off < sz {
				b := data[off]
				off++
				v = v<<7 | uint64(b&0x7f)
				if b&0x80 == 0 {
					return v, true
				}
				v++
			}
			return 0, false
		}
		for n := int(data[0]); n > 0 && off < sz; n-- {
			starts = append(starts, off)
			off += 8
			if _, ok := varint(); !ok {
				break
			}
			cnt, ok := varint()
			if !ok {
				break
			}
			off += 12 * int64(cnt)
		}
	}
	cut := int64(-1)
	switch k := arg % 8; {
	case k <= 2 && len(starts) > 0: // at the start of a record (the first one: only the count is left)
		cut = starts[(arg/8)%len(starts)]
	case k == 3 && len(starts) > 0: // right after a record's key
		cut = starts[(arg/8)%len(starts)] + 8
	case k == 4 && sz > 2: // anywhere
		cut = int64(arg/8) % sz
	case k == 5:
		cut = sz - 1
	case k == 6:
		cut = 0
	}
	if cut < 0 || cut >= sz {
		os.Remove(fn)
	} else {
		os.Truncate(fn, cut)
	}
	if os.Getenv("C17_DEBUG") != "" {
		fmt.Fprintln(os.Stderr, "C17_DEBUG cut", filepath.Base(fn), "from", sz, "to", cut, "record starts", starts)
	}
	return true
}

var profile = sim.Profile{
	Forks:    true,
	Viols:    []string{"bad_script", "dup_in_block", "missing_txid"},
	ViolPct:  6,
	MaxTx:    6,
	MinOps:   10,
	MaxOps:   50,
	Prefixes: []int{100, 101, 102, 105, 110},
	IdlePct:  2,
	Signed:   true,
}

func genCase(t *rapid.T, p sim.Profile) Case {
	c := Case{Sim: sim.GenCase(t, p)}
	c.Sim.Params.Signed = true
	fewDestinations(t, c.Sim.Ops, 9)
	// sprinkle index off/on switches
	var ops []sim.Op
	for _, op := range c.Sim.Ops {
		if rapid.IntRange(0, 11).Draw(t, "toggle") == 0 {
			ops = append(ops, sim.Op{Kind: rapid.SampledFrom([]string{"wallet_off", "wallet_on", "wallet_on", "wallet_restart", "wallet_restart", "wallet_restart", "wallet_restart", "config_reload"}).Draw(t, "which"),
				Arg: rapid.IntRange(0, 9999).Draw(t, "restartarg")})
		}
		ops = append(ops, op)
	}
	c.Sim.Ops = ops
	// one history in thirty holds a transaction whose real outputs sit behind 65534..65540 empty ones: output
	// indexes that need more than 16 bits (such a history is kept short - every model state holds those outputs)
	if rapid.IntRange(0, 29).Draw(t, "wide") == 0 {
		for i := range c.Sim.Ops {
			if op := &c.Sim.Ops[i]; op.Kind == "block" && op.Viol == "" && !op.Hold && len(op.Txs) > 0 {
				op.Txs[0].Pad = rapid.SampledFrom([]int{65534, 65535, 65536, 65540}).Draw(t, "pad")
				op.Parent = -1
				if len(c.Sim.Ops) > i+9 {
					c.Sim.Ops = c.Sim.Ops[:i+9]
				}
				c.Wide = true
				break
			}
		}
	}
	c.MinValue = rapid.SampledFrom([]uint64{0, 1, 1000, 100000, 50000000, 2500000000}).Draw(t, "minvalue")
	c.UseMapCnt = uint32(rapid.SampledFrom([]int{2, 3, 4, 4, 5, 5, 8, 200}).Draw(t, "usemapcnt"))
	c.StartOn = rapid.IntRange(0, 3).Draw(t, "starton") != 0
	return c
}

// fewDestinations maps the outputs of the operations onto few distinct destinations, so that addresses collect many
// outputs; one output in zeroOneIn+1 carries the value 0 (indexed when the minimum value is 0).
func fewDestinations(t *rapid.T, ops []sim.Op, zeroOneIn int) {
	for i := range ops {
		for j := range ops[i].Txs {
			for k := range ops[i].Txs[j].Outs {
				o := &ops[i].Txs[j].Outs[k]
				if f := o.Fam % 18; f == 12 || f == 13 {
					o.N = o.N/7%31*7 + o.N%3 // (scripts resembling address forms: every shape, three scripts of each)
				} else {
					o.N = o.N % 3
				}
				o.Zero = rapid.IntRange(0, zeroOneIn).Draw(t, "zero") == 0
			}
		}
	}
}

func TestBalances(t *testing.T) {
	p := profile
	if pbt.Tier() == "thorough" {
		p.MaxTx, p.MaxOps = 12, 120
	}
	pbt.Check(t, pbt.Cfg{Name: "balances", Quick: 1000, Thorough: 10000}, func(r *pbt.Run) {
		c := genCase(r.T, p)
		r.Case(c)
		st := &stats{}
		s, err := run(c, st)
		if s != nil {
			defer s.Close()
			for _, k := range s.ExcludedKeys {
				r.Excluded(k)
			}
		}
		if st.reorgs > 0 {
			r.Class("reorg")
		}
		if c.Wide {
			r.Class("transaction_with_more_than_65536_outputs")
		}
		if c.MinValue == 0 {
			r.Class("minimum_value_0")
		}
		if st.emptiedAndRepaid > 0 {
			r.Class("address_emptied_then_paid_again")
		}
		if st.reorgs > 0 && st.emptiedAndRepaid > 0 {
			r.NonTrivial()
		}
		if st.mapForm > 0 {
			r.Class("map_form_reached")
		}
		if st.shrunkFromMap > 0 {
			r.Class("address_shrunk_from_map_form_to_a_quarter")
		}
		if st.toggles > 1 {
			r.Class("index_toggled")
		}
		if st.cutSaves > 0 {
			r.Class("saved_index_cut_short_before_the_restart")
		}
		if st.reloads > 0 {
			r.Class("configuration_reloaded_with_another_minimum_value")
		}
		if st.restored > 0 {
			r.Class("index_saved_and_restored")
		}
		pbt.AddExtra("address_lookups", int64(st.lookups))
		pbt.AddExtra("foreign_witness_version_lookups", int64(st.foreign))
		pbt.AddExtra("non_empty_lookups", int64(st.nonEmpty))
		if x, ok := err.(*sim.Excluded); ok {
			r.Excluded(x.Key)
			return
		}
		if err != nil {
			r.Failf("%v", err)
		}
	})
}
