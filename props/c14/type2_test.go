package c14

import (
	"bytes"
	"encoding/hex"
	"fmt"
	"math/big"
	"testing"

	"github.com/piotrnar/gocoin/lib/btc"
	"pgregory.net/rapid"
	"verif/pbt"
	"verif/ref/ec"
)

// ---------------------------------------------------------------------------------------------
// oracle 7: the two key-derivation primitives under HDWallet.Child (and the type-2 tools) are pure functions:
// DeriveNextPrivate(p, s) = (p + s) mod n as 32 bytes, DeriveNextPublic(P, s) = P + s*G, they commute with
// PublicFromPrivate, a second call with the same arguments gives the same answer and NEITHER ARGUMENT is
// changed by the call (a base key that is used for several derivations - every non-leaf HD key is - must stay
// what it was).  Operands: random, with leading zero bytes, next to the group order, short slices.

type type2Case struct {
	P      string `json:"p"`
	S      string `json:"s"`
	Rounds int    `json:"rounds"`
}

func checkType2(c type2Case) error {
	p, _ := hex.DecodeString(c.P)
	s, _ := hex.DecodeString(c.S)
	p0 := append([]byte(nil), p...)
	s0 := append([]byte(nil), s...)
	want := ec.Bytes32(new(big.Int).Mod(new(big.Int).Add(new(big.Int).SetBytes(p0), new(big.Int).SetBytes(s0)), ec.N))
	var first []byte
	for i := 0; i < c.Rounds; i++ {
		got := btc.DeriveNextPrivate(p, s)
		if !bytes.Equal(p, p0) {
			return fmt.Errorf("DeriveNextPrivate (call %d) changed its first argument: %x -> %x", i+1, p0, p)
		}
		if !bytes.Equal(s, s0) {
			return fmt.Errorf("DeriveNextPrivate (call %d) changed its second argument: %x -> %x", i+1, s0, s)
		}
		if !bytes.Equal(got, want) {
			return fmt.Errorf("DeriveNextPrivate(%x, %x) call %d = %x, (p+s) mod n = %x", p0, s0, i+1, got, want)
		}
		if i == 0 {
			first = append([]byte(nil), got...)
		}
	}
	// the result of the first call is not changed by later calls (no shared buffer)
	if c.Rounds > 1 && !bytes.Equal(first, want) {
		return fmt.Errorf("the slice returned by the first DeriveNextPrivate call changed during later calls")
	}
	pv := new(big.Int).SetBytes(p0)
	if len(p0) != 32 || pv.Sign() == 0 || pv.Cmp(ec.N) >= 0 || new(big.Int).SetBytes(want).Sign() == 0 || len(s0) != 32 || pv.Cmp(new(big.Int).SetBytes(s0)) == 0 {
		return nil // no public counterpart to compare
	}
	pub := btc.PublicFromPrivate(p, true)
	if !bytes.Equal(p, p0) {
		return fmt.Errorf("PublicFromPrivate changed its argument")
	}
	pub0 := append([]byte(nil), pub...)
	wantPub := ec.SerializeCompressed(ec.BaseMul(new(big.Int).SetBytes(want)))
	for i := 0; i < c.Rounds; i++ {
		got := btc.DeriveNextPublic(pub, s)
		if !bytes.Equal(pub, pub0) || !bytes.Equal(s, s0) {
			return fmt.Errorf("DeriveNextPublic (call %d) changed an argument", i+1)
		}
		if !bytes.Equal(got, wantPub) {
			return fmt.Errorf("DeriveNextPublic(pub(%x), %x) call %d = %x, the public key of the derived private key is %x", p0, s0, i+1, got, wantPub)
		}
	}
	return nil
}

func TestType2Primitives(t *testing.T) {
	pbt.Check(t, pbt.Cfg{Name: "derive_next_pure", Quick: 3000, Thorough: 100000}, func(r *pbt.Run) {
		t := r.T
		operand := func(label string) ([]byte, string) {
			b := rapid.SliceOfN(rapid.Byte(), 32, 32).Draw(t, label)
			switch rapid.IntRange(0, 5).Draw(t, label+"_kind") {
			case 0:
				k := rapid.IntRange(1, 31).Draw(t, label+"_lead")
				for i := 0; i < k; i++ {
					b[i] = 0
				}
				b[31] |= 1
				return b, "leading_zeros"
			case 1:
				d := new(big.Int).Sub(ec.N, big.NewInt(int64(rapid.IntRange(1, 1000).Draw(t, label+"_below"))))
				return ec.Bytes32(d), "near_n"
			case 2:
				return ec.Bytes32(big.NewInt(int64(rapid.IntRange(1, 1000).Draw(t, label+"_small")))), "small"
			}
			return b, "random"
		}
		p, pk := operand("p")
		s, sk := operand("s")
		if rapid.IntRange(0, 9).Draw(t, "short") == 0 {
			p = p[32-rapid.IntRange(1, 31).Draw(t, "plen"):]
			pk = "short_slice"
		}
		c := type2Case{P: hex.EncodeToString(p), S: hex.EncodeToString(s), Rounds: rapid.IntRange(1, 3).Draw(t, "rounds")}
		r.Case(c)
		r.Class("p_" + pk)
		r.Class("s_" + sk)
		sum := new(big.Int).Add(new(big.Int).SetBytes(p), new(big.Int).SetBytes(s))
		if sum.Cmp(ec.N) >= 0 {
			r.Class("sum_wraps")
		}
		if c.Rounds > 1 {
			r.Class("base_reused")
			r.NonTrivial() // the same base key is used for a second derivation
		}
		if err := checkType2(c); err != nil {
			r.Failf("%v", err)
		}
	})
}
